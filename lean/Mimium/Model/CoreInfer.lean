import Mimium.Model.CoreCheck
/-!
# Annotation inference for the core language (UNTRUSTED pre-pass of the checker)

The verified checker `checkProg A P` needs the parameter types of functions / lambdas and the return types of the named
functions (`A : Annot`).  This file guesses them: monomorphic Hindley–Milner-style inference over `Ty` with
metavariables (first-order unification with occurs check; no generalisation — the signatures of `Model/Core` programs are
monomorphic).  Unresolved metavariables default to `num`.  Nothing here is trusted: `checkInfer P` runs the VERIFIED
`checkProg` on the guessed annotations, and `C03_check_sound` holds for every annotation table, so an accepted program is
`WellTyped` whatever this file does; a wrong guess can only turn an acceptable program into a rejected one.

Two binders with the same name are given the same type (the table of the checker is keyed by parameter name).
-/
namespace Mimium.Core

inductive ITy | num | tup (ts : List ITy) | fn (args : List ITy) (ret : ITy) | mv (n : Nat)
deriving Repr, Inhabited

structure IState where
  next : Nat := 0
  subst : List (Nat × ITy) := []
  binders : List (String × ITy) := []
  /-- binders whose type the program text states (the pre-pass must not guess another one) -/
  fixed : List (String × Ty) := []
deriving Inhabited

abbrev IM := StateT IState (Except String)

def IM.fail {α : Type} (msg : String) : IM α := fun _ => .error msg

def freshMv : IM ITy := fun s => .ok (.mv s.next, { s with next := s.next + 1 })

def freshMvs : Nat → IM (List ITy)
  | 0 => pure []
  | n + 1 => do let t ← freshMv; let ts ← freshMvs n; pure (t :: ts)

/-- follow the bindings of a metavariable at the head of a type -/
partial def walk (σ : List (Nat × ITy)) : ITy → ITy
  | .mv n => match σ.lookup n with
    | some t => walk σ t
    | none => .mv n
  | t => t

partial def occurs (σ : List (Nat × ITy)) (n : Nat) (t : ITy) : Bool :=
  match walk σ t with
  | .num => false
  | .mv m => m == n
  | .tup ts => ts.any (occurs σ n)
  | .fn as r => as.any (occurs σ n) || occurs σ n r

mutual
partial def unify (a b : ITy) : IM Unit := do
  let σ := (← get).subst
  match walk σ a, walk σ b with
  | .num, .num => pure ()
  | .mv n, .mv m => if n == m then pure () else modify fun s => { s with subst := (n, .mv m) :: s.subst }
  | .mv n, t => if occurs σ n t then IM.fail "occurs check" else modify fun s => { s with subst := (n, t) :: s.subst }
  | t, .mv n => if occurs σ n t then IM.fail "occurs check" else modify fun s => { s with subst := (n, t) :: s.subst }
  | .tup as, .tup bs => unifyL as bs "tuple width"
  | .fn as r, .fn bs q => do unifyL as bs "argument count"; unify r q
  | _, _ => IM.fail "type mismatch"
partial def unifyL (as bs : List ITy) (what : String) : IM Unit :=
  match as, bs with
  | [], [] => pure ()
  | a :: as, b :: bs => do unify a b; unifyL as bs what
  | _, _ => IM.fail what
end

/-- substitute everything; unresolved metavariables become `num` -/
partial def zonk (σ : List (Nat × ITy)) (t : ITy) : Ty :=
  match walk σ t with
  | .num => .num
  | .mv _ => .num
  | .tup ts => .tup (ts.map (zonk σ))
  | .fn as r => .fn (as.map (zonk σ)) (zonk σ r)

partial def ofTy : Ty → ITy
  | .num => .num
  | .tup ts => .tup (ts.map ofTy)
  | .fn as r => .fn (as.map ofTy) (ofTy r)

/-- a binder that needs an annotation: its stated type, else a fresh metavariable; shared with every other binder of the
same name -/
def binderMv (x : String) : IM ITy := do
  match (← get).binders.lookup x with
  | some t => pure t
  | none =>
    let t ← match (← get).fixed.lookup x with
      | some ty => pure (ofTy ty)
      | none => freshMv
    modify fun s => { s with binders := (x, t) :: s.binders }
    pure t

def bindI (Γ : List (String × ITy)) : List String → List ITy → List (String × ITy)
  | x :: xs, τ :: τs => bindI ((x, τ) :: Γ) xs τs
  | _, _ => Γ

abbrev ISig := List (String × List ITy × ITy)

mutual
partial def inferI (Φ : ISig) (Γ : List (String × ITy)) (ρ : Option ITy) (e : Expr) : IM ITy :=
  match e with
  | .lit _ => pure .num
  | .var x => match Γ.lookup x with
    | some t => pure t
    | none => IM.fail s!"unbound {x}"
  | .un _ a => do unify (← inferI Φ Γ ρ a) .num; pure .num
  | .bin _ a b => do unify (← inferI Φ Γ ρ a) .num; unify (← inferI Φ Γ ρ b) .num; pure .num
  | .ite c a b => do
    unify (← inferI Φ Γ ρ c) .num
    let ta ← inferI Φ Γ ρ a
    let tb ← inferI Φ Γ ρ b
    unify ta tb
    pure ta
  | .letE x a body => do
    let ta ← inferI Φ Γ ρ a
    inferI Φ ((x, ta) :: Γ) ρ body
  | .letTup xs a body => do
    let ta ← inferI Φ Γ ρ a
    let ts ← freshMvs xs.length
    unify ta (.tup ts)
    inferI Φ (bindI Γ xs ts) ρ body
  | .tup es => do pure (.tup (← inferIL Φ Γ ρ es))
  | .proj a i => do
    let ta ← inferI Φ Γ ρ a
    match walk (← get).subst ta with
    | .tup ts => match ts[i]? with
      | some t => pure t
      | none => IM.fail "projection index"
    | .mv _ => IM.fail "projection of a value of unknown type"
    | _ => IM.fail "projection of a non-tuple"
  | .call f args _ => do
    match Φ.lookup f with
    | none => IM.fail s!"unknown function {f}"
    | some (ts, t) =>
      let as ← inferIL Φ Γ ρ args
      unifyL as ts "argument count"
      pure t
  | .app f args => do
    let tf ← inferI Φ Γ ρ f
    let as ← inferIL Φ Γ ρ args
    let r ← freshMv
    unify tf (.fn as r)
    pure r
  | .lam ps body => do
    let ts ← ps.mapM binderMv
    let t ← inferI Φ (bindI Γ ps ts) none body
    pure (.fn ts t)
  | .self => match ρ with
    | some t => pure t
    | none => IM.fail "self"
  | .mem a _ => do unify (← inferI Φ Γ ρ a) .num; pure .num
  | .delay _ a t _ => do unify (← inferI Φ Γ ρ a) .num; unify (← inferI Φ Γ ρ t) .num; pure .num
  | .now => pure .num
  | .samplerate => pure .num
  | .assign x a rest => do
    match Γ.lookup x with
    | none => IM.fail s!"unbound {x}"
    | some tx =>
      unify (← inferI Φ Γ ρ a) tx
      inferI Φ Γ ρ rest
partial def inferIL (Φ : ISig) (Γ : List (String × ITy)) (ρ : Option ITy) (es : List Expr) : IM (List ITy) :=
  match es with
  | [] => pure []
  | e :: es => do
    let t ← inferI Φ Γ ρ e
    let ts ← inferIL Φ Γ ρ es
    pure (t :: ts)
end

def inferFnI (Φ : ISig) (Γg : List (String × ITy)) (d : FnDecl) (ts : List ITy) (ret : ITy) : IM Unit := do
  let ρ := d.selfTy.map ofTy
  match ρ with
  | some r => unify ret r
  | none => pure ()
  let t ← inferI Φ (bindI Γg d.params ts) ρ d.body
  unify t ret

def inferProgI (P : Prog) : IM (List (String × ITy)) := do
  -- globals, in order, without signatures
  let mut Γg : List (String × ITy) := []
  for (x, e) in P.globals do
    let t ← inferI [] Γg none e
    Γg := (x, t) :: Γg
  -- signatures first (calls may refer to later declarations and to themselves)
  let mut Φ : ISig := []
  let mut rets : List (String × ITy) := []
  for d in P.fns do
    let ts ← d.params.mapM binderMv
    let r ← freshMv
    Φ := Φ ++ [(d.name, ts, r)]
    rets := rets ++ [(d.name, r)]
  for (d, s) in P.fns.zip Φ do
    inferFnI Φ Γg d s.2.1 s.2.2
  let r ← freshMv
  inferFnI Φ Γg P.dsp (List.replicate P.dsp.params.length .num) r
  pure rets

/-- guessed annotations (extending the stated ones `fixed`), or why inference failed -/
def inferAnnot (P : Prog) (fixed : Binders := []) : Except String Annot :=
  match (inferProgI P).run { fixed := fixed } with
  | .error e => .error e
  | .ok (rets, s) =>
    .ok { binders := s.binders.map fun (x, t) => (x, zonk s.subst t), rets := rets.map fun (f, t) => (f, zonk s.subst t) }

/-- inference, then the VERIFIED checker on the guessed annotations -/
def checkInfer (P : Prog) (fixed : Binders := []) : Option (Annot × Sig × List Ty × Ty) :=
  match inferAnnot P fixed with
  | .error _ => none
  | .ok A => (checkProg A P).map fun r => (A, r)

end Mimium.Core
