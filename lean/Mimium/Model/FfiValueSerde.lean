import Mimium.Model.FfiType
/-!
# Model of the hand-written `Serialize`/`Deserialize for Value` (`interpreter/serde_impl.rs`) under bincode

This is the *direct* encoding of `Value` (symbols as raw interner ids, `usize` → `u64`), not the `FfiValue` detour.
Variant indices and the refused variants come from the generated tables `ValCtor.serTag` / `ValCtor.ofTag`.
-/
namespace Mimium.Ffi
open Mimium.Gen.Ffi

abbrev RawValue := Value UInt64

def valTag (c : ValCtor) : Bytes := encU32 (c.serTag.getD 0xFFFFFFFF)

mutual
/-- no variant whose serializer arm returns `Err` occurs inside (`Store`'s content is never visited) -/
def Value.directOk : RawValue → Bool
  | .array vs => directOkList vs
  | .record fs => directOkFields fs
  | .tuple vs => directOkList vs
  | .taggedUnion _ v => v.directOk
  | v => v.ctor.serTag.isSome
def directOkList : List RawValue → Bool
  | [] => true
  | v :: vs => v.directOk && directOkList vs
def directOkFields : List (UInt64 × RawValue) → Bool
  | [] => true
  | (_, v) :: fs => v.directOk && directOkFields fs
end

mutual
/-- bytes written when no arm fails -/
def encodeValRaw : RawValue → Bytes
  | .errorV e => valTag .ErrorV ++ encKey e
  | .unit => valTag .Unit
  | .number b => valTag .Number ++ encU64 b
  | .string s => valTag .String ++ encU64 s
  | .array vs => valTag .Array ++ (encLen vs.length ++ encodeValList vs)
  | .record fs => valTag .Record ++ (encLen fs.length ++ encodeValFields fs)
  | .tuple vs => valTag .Tuple ++ (encLen vs.length ++ encodeValList vs)
  | .closure _ _ => []
  | .fixpoint s e => valTag .Fixpoint ++ (encU64 s ++ encKey e)
  | .code e => valTag .Code ++ encKey e
  | .externalFn _ => []
  | .store _ => []
  | .taggedUnion t v => valTag .TaggedUnion ++ (encU64 t ++ encodeValRaw v)
  | .constructorFn t s k => valTag .ConstructorFn ++ (encU64 t ++ (encU64 s ++ encKey k))
def encodeValList : List RawValue → Bytes
  | [] => []
  | v :: vs => encodeValRaw v ++ encodeValList vs
def encodeValFields : List (UInt64 × RawValue) → Bytes
  | [] => []
  | (k, v) :: fs => encU64 k ++ (encodeValRaw v ++ encodeValFields fs)
end

/-- `bincode::serialize(&Value)`; `none` = some arm returned `Err` -/
def encodeVal (v : RawValue) : Option Bytes := if v.directOk then some (encodeValRaw v) else none

mutual
def decodeVal : Nat → Bytes → Option (RawValue × Bytes)
  | 0, _ => none
  | f+1, bs =>
    match readU32 bs with
    | none => none
    | some (t, bs) =>
      match ValCtor.ofTag t with
      | none => none
      | some .ErrorV => (readKey bs).map (fun (k, bs) => (.errorV k, bs))
      | some .Unit => some (.unit, bs)
      | some .Number => (readU64 bs).map (fun (b, bs) => (.number b, bs))
      | some .String => (readU64 bs).map (fun (s, bs) => (.string s, bs))
      | some .Array =>
        match readLen bs with
        | none => none
        | some (n, bs) =>
          match decodeValList f n bs with
          | none => none
          | some (vs, bs) => some (.array vs, bs)
      | some .Record =>
        match readLen bs with
        | none => none
        | some (n, bs) =>
          match decodeValFields f n bs with
          | none => none
          | some (fs, bs) => some (.record fs, bs)
      | some .Tuple =>
        match readLen bs with
        | none => none
        | some (n, bs) =>
          match decodeValList f n bs with
          | none => none
          | some (vs, bs) => some (.tuple vs, bs)
      | some .Fixpoint =>
        match readU64 bs with
        | none => none
        | some (s, bs) => (readKey bs).map (fun (k, bs) => (.fixpoint s k, bs))
      | some .Code => (readKey bs).map (fun (k, bs) => (.code k, bs))
      | some .TaggedUnion =>
        match readU64 bs with
        | none => none
        | some (t, bs) =>
          match decodeVal f bs with
          | none => none
          | some (v, bs) => some (.taggedUnion t v, bs)
      | some .ConstructorFn =>
        match readU64 bs with
        | none => none
        | some (t, bs) =>
          match readU64 bs with
          | none => none
          | some (s, bs) => (readKey bs).map (fun (k, bs) => (.constructorFn t s k, bs))
      | some .Closure => none
      | some .ExternalFn => none
      | some .Store => none
def decodeValList : Nat → Nat → Bytes → Option (List RawValue × Bytes)
  | _, 0, bs => some ([], bs)
  | 0, _+1, _ => none
  | f+1, n+1, bs =>
    match decodeVal f bs with
    | none => none
    | some (v, bs) =>
      match decodeValList f n bs with
      | none => none
      | some (vs, bs) => some (v :: vs, bs)
def decodeValFields : Nat → Nat → Bytes → Option (List (UInt64 × RawValue) × Bytes)
  | _, 0, bs => some ([], bs)
  | 0, _+1, _ => none
  | f+1, n+1, bs =>
    match readU64 bs with
    | none => none
    | some (k, bs) =>
      match decodeVal f bs with
      | none => none
      | some (v, bs) =>
        match decodeValFields f n bs with
        | none => none
        | some (fs, bs) => some ((k, v) :: fs, bs)
end

def decodeValBytes (bs : Bytes) : Option (RawValue × Bytes) := decodeVal bs.length bs
def decodeValTop (bs : Bytes) : Option RawValue := (decodeValBytes bs).map (·.1)

mutual
def Value.normKeys {σ} : Value σ → Value σ
  | .errorV e => .errorV e.norm
  | .array vs => .array (normKeysList vs)
  | .record fs => .record (normKeysFields fs)
  | .tuple vs => .tuple (normKeysList vs)
  | .fixpoint s e => .fixpoint s e.norm
  | .code e => .code e.norm
  | .taggedUnion t v => .taggedUnion t v.normKeys
  | .constructorFn t s k => .constructorFn t s k.norm
  | v => v
def normKeysList {σ} : List (Value σ) → List (Value σ)
  | [] => []
  | v :: vs => v.normKeys :: normKeysList vs
def normKeysFields {σ} : List (σ × Value σ) → List (σ × Value σ)
  | [] => []
  | (k, v) :: fs => (k, v.normKeys) :: normKeysFields fs
end

mutual
def Value.RepV {σ} : Value σ → Prop
  | .array vs => LenOk vs.length ∧ RepVList vs
  | .record fs => LenOk fs.length ∧ RepVFields fs
  | .tuple vs => LenOk vs.length ∧ RepVList vs
  | .taggedUnion _ v => v.RepV
  | _ => True
def RepVList {σ} : List (Value σ) → Prop
  | [] => True
  | v :: vs => v.RepV ∧ RepVList vs
def RepVFields {σ} : List (σ × Value σ) → Prop
  | [] => True
  | (_, v) :: fs => v.RepV ∧ RepVFields fs
end

end Mimium.Ffi
