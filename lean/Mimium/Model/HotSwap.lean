import Mimium.Model.StateTree
/-!
# M2c — what a hot swap does to the state storage

* VM (`Machine::new_resume` in runtime/vm.rs): `build_state_storage_patch_plan(old, new)`; `None` → the old
  storage is cloned, `Some(plan)` → `apply_state_storage_patch_plan(old_storage, plan)` (zeroed new storage).
* WASM (`WasmDspRuntime::try_hot_swap` in runtime/wasm/engine.rs, with the payload prepared by mimium-cli
  `prepare_hot_swap_wasm_payload` / `build_required_state_patch_plan`): the plan is the diff, or — for equal
  skeletons — the single whole-storage copy `[0→0, total]`; on the audio thread: if the skeletons are equal and the
  plan is empty the old data is cloned, otherwise the *prewarmed* state (resized to `plan.total_size`) receives the patches.
-/
namespace Mimium.HotSwap
open Mimium.StateTree

/-- `new_resume`: new `global_states.rawdata` -/
def vmResume (oldSk newSk : Sk) (old : List Nat) : Option (List Nat) :=
  match buildPlan oldSk newSk with
  | none => some old
  | some plan => applyPlan? old plan

/-- mimium-cli `build_required_state_patch_plan` when both skeletons are known -/
def cliPlan (oldSk newSk : Sk) : Plan :=
  match buildPlan oldSk newSk with
  | some p => p
  | none => ⟨newSk.size, [⟨0, 0, newSk.size⟩]⟩

def resizeTo (l : List Nat) (n : Nat) : List Nat := l.take n ++ List.replicate (n - l.length) 0

/-- `try_hot_swap`: next global state (`none` = `apply_patches` would panic on a slice out of range) -/
def wasmSwap (oldSk newSk : Sk) (old prewarmed : List Nat) : Option (List Nat) :=
  let plan := cliPlan oldSk newSk
  if oldSk.matches newSk && plan.patches.isEmpty then some old
  else
    let next := resizeTo prewarmed plan.totalSize
    if plan.patches.all (Patch.inBounds old.length next.length) then some (applyPatches old next plan.patches) else none

end Mimium.HotSwap
