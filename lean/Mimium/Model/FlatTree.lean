import Mimium.Model.Core
import Mimium.Model.Layout
import Mimium.Model.StateMachine
/-!
# M2e — the flat state storage is the serialised state tree

The reference semantics (`Model/Core.lean`) keeps the state of a function instance in a TREE (`SNode`: previous
return value + cells keyed by textual site); both runtimes keep it in ONE flat vector of words walked by a cursor
(`Model/StateMachine.lean`), laid out as the published `StateTreeSkeleton` says (`Model/StateTree.lean`, `Model/Layout.lean`).
This file defines the bridge:

* `LCell` / `LNode`: a layout whose cells are LABELLED with the textual site that owns them and whose `Feed` cell
  carries the shape of `self` (a bare `Sk` knows neither, so it cannot say which tree cell lives where);
  `LNode.sk` erases the labels and gives the published `Sk`; `ofSk` labels any `Sk`;
* `serialize lay st`: the flat word image of the tree `st` under `lay` — `self` words first, then every cell in layout
  order (mem = 1 word, delay = rd, wr, data…, child = recursively).  It reads the tree through the evaluator's own
  accessors (`memAt`, `ringAt`, `childAt`), so a site that was never evaluated serialises to zeros, exactly as the
  zero-initialised storage of the runtimes;
* `deserialize lay ws`: the tree (fully populated, cells in layout order) read back from the words;
* `treeNode lay pay st`: what ONE call of the function instance does to the tree (the evaluator's per-site operations:
  read `self`, `mem`, `delay`, enter/leave a child, write `self`), the operands being supplied by a payload `pay`;
* `flatNode lay pay`: the same call as a sequence of `StateMachine.SOp` (get / push off / mem / delay / pop off / set);
* `accessesOf`: the accesses (kind, absolute position, size) an op sequence performs — what the VM hook records.
All definitions are executable and total.
-/
namespace Mimium.FlatTree
open Mimium.Core Mimium.Cells Mimium.StateTree Mimium.Layout Mimium.StateMachine

/-- a layout cell labelled with its site; a child carries the shape of its `self` (if any) and its own cells -/
inductive LCell where
  | mem (site : Nat)
  | delay (site : Nat) (n : Nat)
  | child (site : Nat) (self : Option Shape) (cells : List LCell)
deriving Repr, Inhabited

/-- the labelled layout of a function instance (the root: `dsp`) -/
structure LNode where
  self : Option Shape
  cells : List LCell
deriving Repr, Inhabited

def LCell.site : LCell → Nat
  | .mem s => s
  | .delay s _ => s
  | .child s _ _ => s

mutual
/-- number of words of a first-order value of this shape -/
def shapeSize : Shape → Nat
  | .num => 1
  | .tup ss => shapeSizeL ss
def shapeSizeL : List Shape → Nat
  | [] => 0
  | s :: ss => shapeSize s + shapeSizeL ss
end

def selfSize : Option Shape → Nat
  | none => 0
  | some sh => shapeSize sh

mutual
def LCell.size : LCell → Nat
  | .mem _ => 1
  | .delay _ n => delayExtra + n
  | .child _ self cells => selfSize self + sizeCells cells
def sizeCells : List LCell → Nat
  | [] => 0
  | c :: cs => c.size + sizeCells cs
end

def LNode.size (lay : LNode) : Nat := selfSize lay.self + sizeCells lay.cells

/-- the `Feed` cell a `self` shape publishes -/
def feedOf : Option Shape → List Sk
  | none => []
  | some sh => [.feed (shapeSize sh)]

mutual
/-- erase the labels: the published skeleton -/
def LCell.sk : LCell → Sk
  | .mem _ => .mem 1
  | .delay _ n => .delay n
  | .child _ self cells => .fn (feedOf self ++ skCells cells)
def skCells : List LCell → List Sk
  | [] => []
  | c :: cs => c.sk :: skCells cs
end

def LNode.sk (lay : LNode) : Sk := .fn (feedOf lay.self ++ skCells lay.cells)

/-! ### serialisation -/

/-- the words of `self` (zeros before the first call) -/
def selfWords (self : Option Shape) (st : SNode) : List UInt64 :=
  match self with
  | none => []
  | some sh =>
    match st.selfv with
    | some v => flattenVal v
    | none => List.replicate (shapeSize sh) 0

mutual
/-- words of one cell of the node `st` -/
def serCell : LCell → SNode → List UInt64
  | .mem site, st => [st.memAt site]
  | .delay site n, st => (st.ringAt n site).words
  | .child site self cells, st => selfWords self (st.childAt site) ++ serCells cells (st.childAt site)
def serCells : List LCell → SNode → List UInt64
  | [], _ => []
  | c :: cs, st => serCell c st ++ serCells cs st
end

/-- the flat image of a state tree under a labelled layout -/
def serialize (lay : LNode) (st : SNode) : List UInt64 := selfWords lay.self st ++ serCells lay.cells st

/-! ### deserialisation -/

mutual
/-- read a value of a given shape from the front of a word list -/
def unflat : Shape → List UInt64 → Val × List UInt64
  | .num, ws => (.num (ws.headD 0), ws.tail)
  | .tup ss, ws => ((Val.tup (unflatL ss ws).1), (unflatL ss ws).2)
def unflatL : List Shape → List UInt64 → List Val × List UInt64
  | [], ws => ([], ws)
  | s :: ss, ws => ((unflat s ws).1 :: (unflatL ss (unflat s ws).2).1, (unflatL ss (unflat s ws).2).2)
end

def deSelf (self : Option Shape) (ws : List UInt64) : Option Val :=
  match self with
  | none => none
  | some sh => some (unflat sh ws).1

mutual
/-- the tree cell stored in exactly the words `ws` of a layout cell -/
def deCell : LCell → List UInt64 → Nat × SCell
  | .mem site, ws => (site, .mem (ws.headD 0))
  | .delay site n, ws => (site, .delay ⟨(ws.getD 0 0).toNat, (ws.getD 1 0).toNat, (ws.drop 2).take n⟩)
  | .child site self cells, ws =>
    (site, .child (.mk (deSelf self (ws.take (selfSize self))) (deCells cells (ws.drop (selfSize self)))))
def deCells : List LCell → List UInt64 → List (Nat × SCell)
  | [], _ => []
  | c :: cs, ws => deCell c (ws.take c.size) :: deCells cs (ws.drop c.size)
end

/-- the state tree stored in the words `ws` of a region laid out as `lay` -/
def deserialize (lay : LNode) (ws : List UInt64) : SNode :=
  .mk (deSelf lay.self (ws.take (selfSize lay.self))) (deCells lay.cells (ws.drop (selfSize lay.self)))

/-! ### one call of a function instance: on the tree, and on the flat storage -/

/-- operands of one call, shaped like the layout: what is written to every cell and the value returned -/
inductive CPay where
  | mem (x : UInt64)
  | delay (x t : UInt64)
  | child (ret : Val) (cells : List CPay)
  /-- the cell is not reached in this call (it belongs to an `if` arm that is not taken): no tree operation, no instruction -/
  | skip
deriving Repr, Inhabited

structure NPay where
  ret : Val
  cells : List CPay
deriving Repr, Inhabited

/-- `eval`'s `call`: a child that has a declared self shape and no stored value yet starts from the zero value -/
def initSelf (self : Option Shape) (st : SNode) : SNode :=
  match st.selfv, self with
  | none, some sh => st.setSelf (zeroOf sh)
  | _, _ => st

/-- a call of a function instance: read `self`, run the cells, store the returned value as the new `self` -/
def treeNodeWith (self : Option Shape) (body : SNode → SNode × List UInt64) (ret : Val) (st : SNode) :
    SNode × List UInt64 :=
  match self with
  | none => body (initSelf self st)
  | some _ => ((body (initSelf self st)).1.setSelf ret, selfWords self (initSelf self st) ++ (body (initSelf self st)).2)

mutual
/-- the evaluator's operation at one site (`eval` cases `mem`, `delay`, `call`) -/
def treeCell : LCell → CPay → SNode → SNode × List UInt64
  | .mem site, .mem x, st => (st.setCell site (.mem x), [st.memAt site])
  | .delay site n, .delay x t, st =>
    (st.setCell site (.delay ((st.ringAt n site).process x t).2), [((st.ringAt n site).process x t).1])
  | .child site self cells, .child ret ps, st =>
    ((st.setCell site (.child (treeNodeWith self (treeCells cells ps) ret (st.childAt site)).1)),
     (treeNodeWith self (treeCells cells ps) ret (st.childAt site)).2)
  | _, _, st => (st, [])
def treeCells : List LCell → List CPay → SNode → SNode × List UInt64
  | c :: cs, p :: ps, st =>
    ((treeCells cs ps (treeCell c p st).1).1, (treeCell c p st).2 ++ (treeCells cs ps (treeCell c p st).1).2)
  | _, _, st => (st, [])
end

def treeNode (lay : LNode) (pay : NPay) (st : SNode) : SNode × List UInt64 :=
  treeNodeWith lay.self (treeCells lay.cells pay.cells) pay.ret st

/-- `GetState` … body … `SetState` -/
def flatNodeWith (self : Option Shape) (body : List SOp) (ret : Val) : List SOp :=
  match self with
  | none => body
  | some sh => [.get (shapeSize sh)] ++ body ++ [.set (flattenVal ret)]

mutual
/-- the state instructions of one cell; the cursor is at the cell's first word before and after -/
def flatCell : LCell → CPay → List SOp
  | .mem _, .mem x => [.mem x]
  | .delay _ n, .delay x t => [.delay n x t]
  | .child _ self cells, .child ret ps => flatNodeWith self (flatCells cells ps (selfSize self)) ret
  | _, _ => []
/-- the cells of a node from relative offset `off` on; the cursor is at the node's first word before and after:
every cell is bracketed by `PushStatePos off` / `PopStatePos off` with its layout offset -/
def flatCells : List LCell → List CPay → Nat → List SOp
  | c :: cs, p :: ps, off => [.push off] ++ flatCell c p ++ [.pop off] ++ flatCells cs ps (off + c.size)
  | _, _, _ => []
end

def flatNode (lay : LNode) (pay : NPay) : List SOp :=
  flatNodeWith lay.self (flatCells lay.cells pay.cells (selfSize lay.self)) pay.ret

/-- the accesses an op sequence performs when started with the cursor at `pos` (what hook `runtime::vm::verif` records) -/
def accessesOf : Nat → List SOp → List Access
  | _, [] => []
  | pos, .push k :: ops => accessesOf (pos + k) ops
  | pos, .pop k :: ops => accessesOf (pos - k) ops
  | pos, .get n :: ops => ⟨.get, pos, n⟩ :: accessesOf pos ops
  | pos, .set ws :: ops => ⟨.set, pos, ws.length⟩ :: accessesOf pos ops
  | pos, .mem _ :: ops => ⟨.mem, pos, 1⟩ :: accessesOf pos ops
  | pos, .delay len _ _ :: ops => ⟨.delay, pos, delayExtra + len⟩ :: accessesOf pos ops

/-- the cursor after an op sequence -/
def cursorAfter : Nat → List SOp → Nat
  | pos, [] => pos
  | pos, .push k :: ops => cursorAfter (pos + k) ops
  | pos, .pop k :: ops => cursorAfter (pos - k) ops
  | pos, _ :: ops => cursorAfter pos ops

/-- several calls in a row (one per sample): the outputs of every call -/
def treeRun (lay : LNode) : List NPay → SNode → List (List UInt64)
  | [], _ => []
  | p :: ps, st => (treeNode lay p st).2 :: treeRun lay ps (treeNode lay p st).1

/-- the same on the flat machine (`none` = some access left the storage) -/
def flatRun (lay : LNode) : List NPay → St → Option (List (List UInt64))
  | [], _ => some []
  | p :: ps, s =>
    match vmRun s (flatNode lay p) with
    | none => none
    | some (s', o) => (flatRun lay ps s').map (o :: ·)

/-! ### side conditions -/

/-- the returned value has the word count of the `Feed` cell (nothing is stored when the function has no `self`) -/
def RetOk (self : Option Shape) (ret : Val) : Prop :=
  match self with
  | none => True
  | some sh => (flattenVal ret).length = shapeSize sh

mutual
/-- the payload has the shape of the layout and every returned value has the word count of its `Feed` cell -/
def PayOk : LCell → CPay → Prop
  | .mem _, .mem _ => True
  | .delay _ _, .delay _ _ => True
  | .child _ self cells, .child ret ps => RetOk self ret ∧ PayOkL cells ps
  | _, _ => False
def PayOkL : List LCell → List CPay → Prop
  | [], [] => True
  | c :: cs, p :: ps => PayOk c p ∧ PayOkL cs ps
  | _, _ => False
end

def NPayOk (lay : LNode) (pay : NPay) : Prop := RetOk lay.self pay.ret ∧ PayOkL lay.cells pay.cells

def sitesOf : List LCell → List Nat
  | [] => []
  | c :: cs => c.site :: sitesOf cs

mutual
/-- sibling cells have distinct sites (a textual site owns one cell) and ring lengths fit a machine word -/
def LayOk : LCell → Prop
  | .mem _ => True
  | .delay _ n => n < 2 ^ 64
  | .child _ _ cells => LayOkL cells
def LayOkL : List LCell → Prop
  | [] => True
  | c :: cs => LayOk c ∧ c.site ∉ sitesOf cs ∧ LayOkL cs
end

def LNode.Ok (lay : LNode) : Prop := LayOkL lay.cells

/-- the stored `self` value (if any) has the word count of the `Feed` cell -/
def SelfOk (self : Option Shape) (st : SNode) : Prop :=
  ∀ v, st.selfv = some v → (flattenVal v).length = selfSize self

mutual
/-- the tree fits the layout: rings have the layout's length and machine-word indices, `self` values the right
word count.  Sites never evaluated, and cells of another kind (which the evaluator's accessors read as "absent"), fit. -/
def Conf : LCell → SNode → Prop
  | .mem _, _ => True
  | .delay site n, st =>
    (st.ringAt n site).data.length = n ∧ (st.ringAt n site).rd < 2 ^ 64 ∧ (st.ringAt n site).wr < 2 ^ 64
  | .child site self cells, st => SelfOk self (st.childAt site) ∧ ConfL cells (st.childAt site)
def ConfL : List LCell → SNode → Prop
  | [], _ => True
  | c :: cs, st => Conf c st ∧ ConfL cs st
end

def Conforms (lay : LNode) (st : SNode) : Prop := SelfOk lay.self st ∧ ConfL lay.cells st

mutual
/-- first-order values of a shape -/
def HasShape : Shape → Val → Prop
  | .num, .num _ => True
  | .tup ss, .tup vs => HasShapeL ss vs
  | _, _ => False
def HasShapeL : List Shape → List Val → Prop
  | [], [] => True
  | s :: ss, v :: vs => HasShape s v ∧ HasShapeL ss vs
  | _, _ => False
end

def CanonSelf (self : Option Shape) (v : Option Val) : Prop :=
  match self, v with
  | none, none => True
  | some sh, some v => HasShape sh v
  | _, _ => False

mutual
/-- canonical trees: every layout cell is present, in layout order, with its kind (the image of `deserialize`) -/
def CanonCell : LCell → Nat × SCell → Prop
  | .mem site, (k, .mem _) => k = site
  | .delay site n, (k, .delay r) => k = site ∧ r.data.length = n ∧ r.rd < 2 ^ 64 ∧ r.wr < 2 ^ 64
  | .child site self cells, (k, .child nd) => k = site ∧ CanonSelf self nd.selfv ∧ CanonCells cells nd.cells
  | _, _ => False
def CanonCells : List LCell → List (Nat × SCell) → Prop
  | [], [] => True
  | c :: cs, x :: xs => CanonCell c x ∧ CanonCells cs xs
  | _, _ => False
end

def Canon (lay : LNode) (st : SNode) : Prop := CanonSelf lay.self st.selfv ∧ CanonCells lay.cells st.cells

/-! ### labelling a bare skeleton -/

/-- a shape of `s` words -/
def shapeOfSize (s : Nat) : Shape := .tup (List.replicate s .num)

mutual
/-- label the cells of a skeleton with their positions (`k` = next free label) -/
def labelCell : Sk → Nat → LCell
  | .mem _, k => .mem k
  | .delay n, k => .delay k n
  | .feed _, k => .mem k
  | .fn cs, k =>
    match cs with
    | .feed s :: rest => .child k (some (shapeOfSize s)) (labelCells rest 0)
    | cs => .child k none (labelCells cs 0)
def labelCells : List Sk → Nat → List LCell
  | [], _ => []
  | c :: cs, k => labelCell c k :: labelCells cs (k + 1)
end

mutual
/-- every ring length of the skeleton fits a machine word (it is a `u64` in the compiler) -/
def SkFits : Sk → Prop
  | .delay n => n < 2 ^ 64
  | .mem _ => True
  | .feed _ => True
  | .fn cs => SkFitsL cs
def SkFitsL : List Sk → Prop
  | [] => True
  | c :: cs => SkFits c ∧ SkFitsL cs
end

/-- a labelled layout for a published skeleton (sites := child indices) -/
def ofSk : Sk → LNode
  | .fn (.feed s :: rest) => ⟨some (shapeOfSize s), labelCells rest 0⟩
  | .fn cs => ⟨none, labelCells cs 0⟩
  | _ => ⟨none, []⟩

/-! ### the evaluator cannot tell trees with the same flat words apart: statement-level definitions -/

/-- `eval`'s `call` / `Machine.step`: the returned value becomes the new `self` when the function declares one -/
def finSelf (self : Option Shape) (st : SNode) (v : Val) : SNode :=
  match self with
  | none => st
  | some _ => st.setSelf v

/-- every stateful construct of `e` (and, through named calls, of the callee bodies) owns a cell of the right kind in
the labelled layout: `mem` at a `mem` cell of its site, `delay n` at a `delay` cell of its site with the same
length, a call of `f` at a child cell whose `self` shape is `f`'s and whose cells cover `f`'s body.
(Lambda bodies run against a scratch state in `Model/Core.lean`, so they are unconstrained.) -/
inductive Covers (P : Prog) : List LCell → Expr → Prop
  | lit {cells b} : Covers P cells (.lit b)
  | var {cells x} : Covers P cells (.var x)
  | now {cells} : Covers P cells .now
  | samplerate {cells} : Covers P cells .samplerate
  | self {cells} : Covers P cells .self
  | lam {cells ps body} : Covers P cells (.lam ps body)
  | un {cells op a} : Covers P cells a → Covers P cells (.un op a)
  | bin {cells op a b} : Covers P cells a → Covers P cells b → Covers P cells (.bin op a b)
  | ite {cells c a b} : Covers P cells c → Covers P cells a → Covers P cells b → Covers P cells (.ite c a b)
  | letE {cells x a body} : Covers P cells a → Covers P cells body → Covers P cells (.letE x a body)
  | letTup {cells xs a body} : Covers P cells a → Covers P cells body → Covers P cells (.letTup xs a body)
  | assign {cells x a rest} : Covers P cells a → Covers P cells rest → Covers P cells (.assign x a rest)
  | proj {cells a i} : Covers P cells a → Covers P cells (.proj a i)
  | tup {cells es} : (∀ e ∈ es, Covers P cells e) → Covers P cells (.tup es)
  | app {cells f args} : Covers P cells f → (∀ e ∈ args, Covers P cells e) → Covers P cells (.app f args)
  | mem {cells a site} : Covers P cells a → LCell.mem site ∈ cells → Covers P cells (.mem a site)
  | delay {cells n a t site} : Covers P cells a → Covers P cells t → LCell.delay site n ∈ cells →
      Covers P cells (.delay n a t site)
  | call {cells f args site self cells'} : (∀ e ∈ args, Covers P cells e) → LCell.child site self cells' ∈ cells →
      (∀ d, findFn P.fns f = some d → d.selfShape = self) →
      (∀ d, findFn P.fns f = some d → Covers P cells' d.body) → Covers P cells (.call f args site)

mutual
/-- the evaluator's accessors return the same thing on both trees at this cell (recursively for a child; the
child's `self` is compared after the zero-initialisation every call performs) -/
def AgreeC : LCell → SNode → SNode → Prop
  | .mem s, a, b => a.memAt s = b.memAt s
  | .delay s n, a, b => a.ringAt n s = b.ringAt n s
  | .child s self cells, a, b =>
    (initSelf self (a.childAt s)).selfv = (initSelf self (b.childAt s)).selfv ∧ AgreeL cells (a.childAt s) (b.childAt s)
def AgreeL : List LCell → SNode → SNode → Prop
  | [], _, _ => True
  | c :: cs, a, b => AgreeC c a b ∧ AgreeL cs a b
end

/-- two states of a running function instance agree: same `self`, same content at every cell of the layout -/
def AgreeN (cells : List LCell) (a b : SNode) : Prop := a.selfv = b.selfv ∧ AgreeL cells a b

/-- two stored states of a function instance agree (as `AgreeN` once the call has zero-initialised `self`) -/
def Agree (lay : LNode) (a b : SNode) : Prop :=
  (initSelf lay.self a).selfv = (initSelf lay.self b).selfv ∧ AgreeL lay.cells a b

/-- the stored `self` is a first-order value of the declared shape; a function without `self` stores none -/
def SelfOkS (self : Option Shape) (st : SNode) : Prop :=
  match self with
  | none => st.selfv = none
  | some sh => ∀ v, st.selfv = some v → HasShape sh v

mutual
/-- `Conf` with `self` values of the declared SHAPE (not only the declared word count) -/
def ConfS : LCell → SNode → Prop
  | .mem _, _ => True
  | .delay site n, st =>
    (st.ringAt n site).data.length = n ∧ (st.ringAt n site).rd < 2 ^ 64 ∧ (st.ringAt n site).wr < 2 ^ 64
  | .child site self cells, st => SelfOkS self (st.childAt site) ∧ ConfSL cells (st.childAt site)
def ConfSL : List LCell → SNode → Prop
  | [], _ => True
  | c :: cs, st => ConfS c st ∧ ConfSL cs st
end

def ConformsS (lay : LNode) (st : SNode) : Prop := SelfOkS lay.self st ∧ ConfSL lay.cells st

/-- relational lifting to results: same error, or related successes -/
def SRel {α : Type} (R : α → α → Prop) : Res α → Res α → Prop
  | .ok a, .ok b => R a b
  | .error e₁, .error e₂ => e₁ = e₂
  | _, _ => False

/-- same value, same store, agreeing states -/
def RE {α : Type} (cells : List LCell) (r₁ r₂ : α × Store × SNode) : Prop :=
  r₁.1 = r₂.1 ∧ r₁.2.1 = r₂.2.1 ∧ AgreeN cells r₁.2.2 r₂.2.2

/-- the life of one function instance: per sample, `self` is zero-initialised if absent, the body is evaluated
against the instance's state, the returned value becomes the new `self` (what `eval`'s `call` and `Machine.step`
do with the instance); yields the returned values (`none` and stop at the first error) -/
def instRun (fuel : Nat) (P : Prog) (self : Option Shape) (body : Expr) :
    List (Rt × Env × Store) → SNode → List (Option Val)
  | [], _ => []
  | (rt, env, σ) :: rest, st =>
    match eval fuel P rt env body σ (initSelf self st) with
    | .error _ => [none]
    | .ok (v, _, st') => some v :: instRun fuel P self body rest (finSelf self st' v)

mutual
/-- `Visits P e seg`: evaluating `e` performs state operations at exactly the cells `seg`, in this order, once each —
the straight-line discipline under which a layout can be published in evaluation order: operands before the operation
(`mem a` visits `a`'s cells, then its own), arguments left to right before the call, the arms of an `if` stateless
(state in `if` arms is finding F3), lambda bodies unconstrained (they run against a scratch state in `Model/Core.lean`);
a call of `f` visits one child cell whose `self` shape is `f`'s and whose cells are those `f`'s body visits -/
inductive Visits (P : Prog) : Expr → List LCell → Prop
  | lit {b} : Visits P (.lit b) []
  | var {x} : Visits P (.var x) []
  | now : Visits P .now []
  | samplerate : Visits P .samplerate []
  | self : Visits P .self []
  | lam {ps body} : Visits P (.lam ps body) []
  | un {op a s} : Visits P a s → Visits P (.un op a) s
  | bin {op a b s1 s2} : Visits P a s1 → Visits P b s2 → Visits P (.bin op a b) (s1 ++ s2)
  | ite {c a b s} : Visits P c s → Visits P a [] → Visits P b [] → Visits P (.ite c a b) s
  | letE {x a body s1 s2} : Visits P a s1 → Visits P body s2 → Visits P (.letE x a body) (s1 ++ s2)
  | letTup {xs a body s1 s2} : Visits P a s1 → Visits P body s2 → Visits P (.letTup xs a body) (s1 ++ s2)
  | assign {x a rest s1 s2} : Visits P a s1 → Visits P rest s2 → Visits P (.assign x a rest) (s1 ++ s2)
  | proj {a i s} : Visits P a s → Visits P (.proj a i) s
  | tup {es s} : VisitsL P es s → Visits P (.tup es) s
  | app {f args s0 s} : Visits P f s0 → VisitsL P args s → Visits P (.app f args) (s0 ++ s)
  | mem {a site s} : Visits P a s → Visits P (.mem a site) (s ++ [.mem site])
  | delay {n a t site s1 s2} : Visits P a s1 → Visits P t s2 → Visits P (.delay n a t site) (s1 ++ s2 ++ [.delay site n])
  | call {f args site self cells' s} : VisitsL P args s →
      (∀ d, findFn P.fns f = some d → d.selfShape = self) →
      (∀ d, findFn P.fns f = some d → Visits P d.body cells') →
      Visits P (.call f args site) (s ++ [.child site self cells'])
inductive VisitsL (P : Prog) : List Expr → List LCell → Prop
  | nil : VisitsL P [] []
  | cons {e es s1 s2} : Visits P e s1 → VisitsL P es s2 → VisitsL P (e :: es) (s1 ++ s2)
end

mutual
/-- the payload has the shape of the layout (`PayOk` without the word counts of the returned values) -/
def PayShape : LCell → CPay → Prop
  | .mem _, .mem _ => True
  | .delay _ _, .delay _ _ => True
  | .child _ _ cells, .child _ ps => PayShapeL cells ps
  | _, _ => False
def PayShapeL : List LCell → List CPay → Prop
  | [], [] => True
  | c :: cs, p :: ps => PayShape c p ∧ PayShapeL cs ps
  | _, _ => False
end

/-! ### state inside `if` arms (after the repair of finding F3): a call reaches the cells of the arms taken

The compiler publishes the cells of BOTH arms of an `if` (condition, then `then`, then `else`); one call reaches, in layout
order, the cells outside arms and those of the arms taken.  The payload of such a call marks the cells it does not reach
with `CPay.skip` (`treeCell c .skip` is the identity, `flatCell c .skip` is empty). -/

mutual
/-- `PayShape`, a cell may also be skipped (at any depth) -/
def PayShapeA : LCell → CPay → Prop
  | _, .skip => True
  | .mem _, .mem _ => True
  | .delay _ _, .delay _ _ => True
  | .child _ _ cells, .child _ ps => PayShapeAL cells ps
  | _, _ => False
def PayShapeAL : List LCell → List CPay → Prop
  | [], [] => True
  | c :: cs, p :: ps => PayShapeA c p ∧ PayShapeAL cs ps
  | _, _ => False
end

mutual
/-- `PayOk`, a cell may also be skipped (at any depth) -/
def PayOkA : LCell → CPay → Prop
  | _, .skip => True
  | .mem _, .mem _ => True
  | .delay _ _, .delay _ _ => True
  | .child _ self cells, .child ret ps => RetOk self ret ∧ PayOkAL cells ps
  | _, _ => False
def PayOkAL : List LCell → List CPay → Prop
  | [], [] => True
  | c :: cs, p :: ps => PayOkA c p ∧ PayOkAL cs ps
  | _, _ => False
end

def NPayOkA (lay : LNode) (pay : NPay) : Prop := RetOk lay.self pay.ret ∧ PayOkAL lay.cells pay.cells

mutual
/-- `VisitsA P e seg`: `Visits` with state inside `if` arms — `seg` lists the cells of the condition, of the `then` arm and
of the `else` arm, in this order (what the repaired compiler publishes); an evaluation reaches the cells of the condition
and of the arm it takes.  Every `Visits` is a `VisitsA` (arms without cells). -/
inductive VisitsA (P : Prog) : Expr → List LCell → Prop
  | lit {b} : VisitsA P (.lit b) []
  | var {x} : VisitsA P (.var x) []
  | now : VisitsA P .now []
  | samplerate : VisitsA P .samplerate []
  | self : VisitsA P .self []
  | lam {ps body} : VisitsA P (.lam ps body) []
  | un {op a s} : VisitsA P a s → VisitsA P (.un op a) s
  | bin {op a b s1 s2} : VisitsA P a s1 → VisitsA P b s2 → VisitsA P (.bin op a b) (s1 ++ s2)
  | ite {c a b sc sa sb} : VisitsA P c sc → VisitsA P a sa → VisitsA P b sb → VisitsA P (.ite c a b) (sc ++ (sa ++ sb))
  | letE {x a body s1 s2} : VisitsA P a s1 → VisitsA P body s2 → VisitsA P (.letE x a body) (s1 ++ s2)
  | letTup {xs a body s1 s2} : VisitsA P a s1 → VisitsA P body s2 → VisitsA P (.letTup xs a body) (s1 ++ s2)
  | assign {x a rest s1 s2} : VisitsA P a s1 → VisitsA P rest s2 → VisitsA P (.assign x a rest) (s1 ++ s2)
  | proj {a i s} : VisitsA P a s → VisitsA P (.proj a i) s
  | tup {es s} : VisitsAL P es s → VisitsA P (.tup es) s
  | app {f args s0 s} : VisitsA P f s0 → VisitsAL P args s → VisitsA P (.app f args) (s0 ++ s)
  | mem {a site s} : VisitsA P a s → VisitsA P (.mem a site) (s ++ [.mem site])
  | delay {n a t site s1 s2} : VisitsA P a s1 → VisitsA P t s2 → VisitsA P (.delay n a t site) (s1 ++ s2 ++ [.delay site n])
  | call {f args site self cells' s} : VisitsAL P args s →
      (∀ d, findFn P.fns f = some d → d.selfShape = self) →
      (∀ d, findFn P.fns f = some d → VisitsA P d.body cells') →
      VisitsA P (.call f args site) (s ++ [.child site self cells'])
inductive VisitsAL (P : Prog) : List Expr → List LCell → Prop
  | nil : VisitsAL P [] []
  | cons {e es s1 s2} : VisitsA P e s1 → VisitsAL P es s2 → VisitsAL P (e :: es) (s1 ++ s2)
end

/-- the access that reads `self` at the start of an instance's region (none for a function without `self`) -/
def selfGetAcc (self : Option Shape) (b : Nat) : List Access :=
  match self with
  | none => []
  | some sh => [⟨.get, b, shapeSize sh⟩]
/-- the access that writes `self` back -/
def selfSetAcc (self : Option Shape) (b : Nat) : List Access :=
  match self with
  | none => []
  | some sh => [⟨.set, b, shapeSize sh⟩]

/-- two machines between samples: same globals, same sample index, agreeing `dsp` state -/
def MAgree (lay : LNode) (m₁ m₂ : Machine) : Prop :=
  m₁.store = m₂.store ∧ m₁.t = m₂.t ∧ Agree lay m₁.root m₂.root

/-- the words of a region of a storage whose words are kept as naturals (`Model/StateTree.lean`: `applyPatches`) -/
def wordsAt (l : List Nat) (off size : Nat) : List UInt64 :=
  (List.range size).map fun w => (l.getD (off + w) 0).toUInt64

end Mimium.FlatTree
