import Mimium.Model.Sched
import Mimium.Model.SchedMem
/-!
Text protocol of the C11 correspondence (shared with `harness/src/bin/c11.rs`), the open-loop interpreter of
`WasmSchedulerHandle` op histories, the judge for the implementation's drained lists, and the interpretation of
generated task tables as `Env Unit`.
-/
namespace Mimium.Sched

def hexVal (c : Char) : Nat :=
  if c.isDigit then c.toNat - 48 else if 'a' ≤ c ∧ c ≤ 'f' then c.toNat - 87 else if 'A' ≤ c ∧ c ≤ 'F' then c.toNat - 55 else 0

def parseHex (s : String) : Nat := s.toList.foldl (fun a c => a * 16 + hexVal c) 0

def hexDigit (n : Nat) : Char := if n < 10 then Char.ofNat (48 + n) else Char.ofNat (87 + n)

def toHex16 (n : Nat) : String :=
  String.ofList ((List.range 16).reverse.map fun i => hexDigit ((n >>> (4 * i)) % 16))

/-- `f64 as u64` (Rust: saturating, NaN ↦ 0) — both `schedule_at` entry points do this to the time argument. -/
def truncTime (bits : Nat) : Nat := (Float.ofBits (UInt64.ofNat bits)).toUInt64.toNat

/-! ## handle level: open-loop histories -/

inductive Op where
  | sched (bits : Nat) (id : Nat)
  | tick (t : Nat)

def parseOps (s : String) : List Op :=
  (s.splitOn " ").filterMap fun tok =>
    match tok.splitOn ":" with
    | ["s", w, id] => some (.sched (parseHex w) id.toNat!)
    | ["t", t] => some (.tick t.toNat!)
    | _ => none

/-- `SharedState` of `WasmSchedulerHandle` (no program attached). -/
structure HSt where
  cur : Nat
  heap : List Task
  pops : Nat

def showIds (xs : List Task) : String := "[" ++ ",".intercalate (xs.map fun x => toString x.id) ++ "]"

inductive HObs where
  | ok                        -- the host closure returned
  | panic                     -- it panicked
  | drained (xs : List Task)  -- result of `drain_due_tasks`

/-- Run a history against the WASM-side primitives of the model; one observation token per op, stop at the first panic. -/
def runHandle (ch : Nat → Nat) : List Op → HSt → List HObs
  | [], _ => []
  | .sched bits id :: rest, st =>
    match pushAll st.cur [⟨truncTime bits, id⟩] st.heap with
    | none => [.panic]   -- afterwards the mutex is poisoned
    | some h => .ok :: runHandle ch rest { st with heap := h }
  | .tick t :: rest, st =>
    let d := W.drainDue ch t st.heap.length st.heap st.pops
    .drained d.1 :: runHandle ch rest { cur := t, heap := d.2.1, pops := d.2.2 }

/-- The same history against the literal `BinaryHeap` port: predicts the exact pop order of the real handle. -/
def runHandleStd : List Op → Nat → Array Task → List HObs
  | [], _, _ => []
  | .sched bits id :: rest, cur, h =>
    match pushAllH stdHeap cur [⟨truncTime bits, id⟩] h with
    | none => [.panic]
    | some h => .ok :: runHandleStd rest cur h
  | .tick t :: rest, _, h =>
    let d := drainDueH stdHeap t h.size h
    .drained d.1 :: runHandleStd rest t d.2

def insSorted (a : Nat) : List Nat → List Nat
  | [] => [a]
  | b :: bs => if a ≤ b then a :: b :: bs else b :: insSorted a bs

def sortNat (l : List Nat) : List Nat := l.foldr insSorted []

def nondecreasing : List Nat → Bool
  | a :: b :: r => a ≤ b && nondecreasing (b :: r)
  | _ => true

/-- Judge the implementation's observation of a history against the model's (any tie order accepted):
per op the same kind; for a drain the same multiset of ids and the implementation's order non-decreasing in `when`. -/
def judgeHandle (ops : List Op) (model : List HObs) (impl : List String) : String :=
  let whenOf (id : Nat) : Nat :=
    match ops.find? (fun o => match o with | .sched _ i => i == id | _ => false) with
    | some (.sched b _) => truncTime b
    | _ => 0
  let rec go (i : Nat) : List Op → List HObs → List String → String
    | _, [], [] => "ok"
    | op :: ops, m :: ms, s :: ss =>
      match op, m with
      | .sched _ _, .panic => if s == "P" then go (i + 1) ops ms ss else s!"bad:op{i}:model-panics"
      | .sched _ _, .ok => if s == "." then go (i + 1) ops ms ss else s!"bad:op{i}:impl-panics"
      | .tick _, .drained due =>
        if s == "P" then s!"bad:op{i}:impl-panics" else
        let ids := (((s.drop 1).dropEnd 1).toString.splitOn ",").filterMap String.toNat?
        if sortNat ids != sortNat (due.map (·.id)) then s!"bad:op{i}:multiset"
        else if !nondecreasing (ids.map whenOf) then s!"bad:op{i}:order"
        else go (i + 1) ops ms ss
      | _, _ => s!"bad:op{i}:model"
    | _, _, _ => s!"bad:op{i}:length"
  go 0 ops model impl

def showHandle (m : List HObs) : String :=
  " ".intercalate (m.map fun o => match o with
    | .panic => "P"
    | .ok => "."
    | .drained xs => showIds xs)

/-! ## program level: task tables -/

structure Req where
  abs : Bool
  bits : Nat
  target : Nat
  guard : Option Nat
  /-- `some v`: written `selK(time, v)` — the closure `| |{ if (v > 0.5) { tK() } else { tK'() } }` made inside the helper
  `selK(t, v)`, a record `[fn][v]` of two cells (`v`: f64 bits of the captured argument); `K' = K - 1` (`0` for `K = 0`) -/
  upv : Option Nat := none

structure Table where
  ticks : Nat
  /-- rendered as `mk(p,t0)` instances (closures with upvalues; `gen@…` re-uses the closure, no record is allocated) -/
  closureStyle : Bool
  ntasks : Nat
  global : List Req
  tasks : List (List Req)
  dsp : List Req

def parseReqs (s : String) : List Req :=
  if s == "." || s == "" then [] else
  (s.splitOn ",").filterMap fun t =>
    match t.splitOn ":" with
    | [k, c, tg, g] => some { abs := k == "a", bits := parseHex c, target := tg.toNat!, guard := g.toNat? }
    | [k, c, tg, g, x] =>
      some { abs := k == "a", bits := parseHex c, target := tg.toNat!, guard := g.toNat?,
             upv := if x.startsWith "u" then some (parseHex (x.drop 1).toString) else none }
    | _ => none

def parseTable (f : List String) : Option Table :=
  match f with
  | _ :: ticks :: nt :: g :: t :: d :: _ =>
    some { ticks := ticks.toNat!, closureStyle := nt.endsWith "c",
           ntasks := (String.ofList (nt.toList.filter Char.isDigit)).toNat!, global := parseReqs g,
           tasks := (t.splitOn ";").map parseReqs, dsp := parseReqs d }
  | _ => none

/-! closures with one upvalue: the closure id packs the helper's index `K` and the captured word -/

def lamBase : Nat := 65536

/-- id of the closure made by `selK(t, v)` with `v` = the f64 whose bits are `word` -/
def lamId (k word : Nat) : Nat := (word + 1) * lamBase + k

/-- which task function a closure id runs: `tK` itself, or for a `selK` closure `tK` when the captured float is `> 0.5`
and `tK'` otherwise -/
def resolveId (id : Nat) : Nat :=
  if id < lamBase then id else
  let k := id % lamBase
  let word := id / lamBase - 1
  if Float.ofBits (UInt64.ofNat word) > 0.5 then k else k - 1

/-- record layout of the generated programs. Function words are abstract (`1 + K` for `tK`, `lamBase + 1 + K` for the
closure of `selK`): all the real ones are small table indices, distinct, and — read as an f64 — denormal (`> 0.5`
false); the captured words the generator uses (0.7, 0.3, 0.9, 0.1) have low 32 bits far outside the function table, so
a captured word read as a function word traps. -/
def tableFmt : RecFmt where
  cells := fun id => if id < lamBase then [1 + id] else [lamBase + 1 + id % lamBase, id / lamBase - 1]
  decode := fun rd =>
    let w := rd 0
    if 1 ≤ w ∧ w ≤ lamBase then some (w - 1)
    else if lamBase < w ∧ w ≤ 2 * lamBase then some (lamId (w - lamBase - 1) (rd 1))
    else none

/-- the `schedule_at` calls of a request list evaluated at sample `now`:
`tK@C` / `tK@(now+C)`, optionally under `if (now < g)`; time truncated like `f64 as u64`. -/
def reqsAt (rs : List Req) (now : Nat) : List Task :=
  rs.filterMap fun r =>
    if (match r.guard with | some g => decide (now < g) | none => true) then
      let c := Float.ofBits (UInt64.ofNat r.bits)
      let w := if r.abs then c else Float.ofNat now + c
      some ⟨w.toUInt64.toNat, match r.upv with | some v => lamId r.target v | none => r.target⟩
    else none

def Table.hasUpv (tb : Table) : Bool :=
  (tb.global ++ tb.tasks.flatten ++ tb.dsp).any (·.upv.isSome)

def Table.env (tb : Table) : Env Unit where
  global := fun _ => ((), reqsAt tb.global 0)
  task := fun id now _ => ((), reqsAt (tb.tasks.getD (resolveId id) []) now)
  dsp := fun now _ => ((), reqsAt tb.dsp now)

def weight : Nat := 4096

/-- per-sample outputs `c0 + c1*4096 + …` (cumulative execution counts) of a run, then `PANIC` if it ended in a panic branch -/
def showRun {S : Type} (r : Run S) : String :=
  let step (acc : Nat × List String) (rec : TickRec) : Nat × List String :=
    let v := rec.execd.foldl (fun a x => a + weight ^ resolveId x.id) acc.1
    (v, toHex16 (Float.ofNat v).toBits.toNat :: acc.2)
  let outs := (r.ticks.foldl step (0, [])).2.reverse
  let outs := if r.final.isNone then outs ++ ["PANIC"] else outs
  if outs.isEmpty then "." else ",".intercalate outs

def oracle (k : Nat) : Nat := k * 7919 + 13

/-- size information of a run for the evidence (executions, largest number of tasks in one sample) -/
def runInfo {S : Type} (r : Run S) : String :=
  let total := (r.ticks.map (·.execd.length)).foldl (· + ·) 0
  let maxTick := (r.ticks.map (·.execd.length)).foldl max 0
  s!"execs={total};maxpertick={maxTick}"

end Mimium.Sched
