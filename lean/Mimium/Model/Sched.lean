/-!
# Model of the mimium scheduler plugin (C11)

Literal port of the queue / hand-over logic of

* `plugins/mimium-scheduler/src/scheduler.rs`  — VM side: `SimpleScheduler::schedule_at` sends a `Task` into an
  `mpsc` channel; `SchedulerAudioWorker::on_sample(time)` drains the channel into a `BinaryHeap<Reverse<Task>>`
  (panicking when `task.when <= self.cur_time`), sets `cur_time := time`, then pops and executes every task with
  `when <= time` (`pop_task`), one at a time.
* `plugins/mimium-scheduler/src/wasm_handle.rs` — WASM side: the host closure `_mimium_schedule_at` panics when
  `when <= current_time` and otherwise pushes into the shared heap; `on_sample(time)` sets `current_time := time`,
  `drain_due_tasks` pops every task with `when <= now` into a vector, then each closure is executed.
* the per-sample loop of `VmDspRuntime::run_dsp` / `WasmDspRuntime::run_dsp`: workers' `on_sample(time)` first, `dsp` second.

What is NOT modelled (trusted / only exercised by the correspondence run): `std::collections::BinaryHeap` is taken to
be a priority queue ordered by `Task::cmp`, which compares `when` only — the element returned among equal `when` is
unspecified, so the model takes a *choice oracle* `ch : Nat → Nat` (k-th pop ↦ which of the minimal elements) and
every theorem quantifies over it (the heap ALGORITHM is ported in `Model/SchedMem.lean` (`stdPush`/`stdPop`), proved to be
such a priority queue in `Proofs/HeapStd*.lean`, and put inside both loops in `Model/SchedHeap.lean`); `mpsc` is taken to be FIFO; closures are opaque ids and the program is an
environment `Env σ` (what a task body / dsp / global scope does to the user state `σ` and which `schedule_at` calls it
issues, *after* the `f64 as u64` truncation performed by both `schedule_at` entry points).
-/
namespace Mimium.Sched

/-- `scheduler.rs: struct Task { when: Time, closure: ClosureHandle }` (`Time(u64)`, handle `u64`). -/
structure Task where
  when : Nat
  id : Nat
deriving DecidableEq, Repr, Inhabited

/-- the least `when` in the heap (0 for the empty heap) -/
def minWhen : List Task → Nat
  | [] => 0
  | [x] => x.when
  | x :: y :: ys => min x.when (minWhen (y :: ys))

/-- `BinaryHeap<Reverse<Task>>::peek`+`pop`: *some* minimal element w.r.t. `Ord for Task` (compares `when` only) —
the `k`-th of them, `k` from the oracle — and the rest. -/
def popMin (k : Nat) (h : List Task) : Option (Task × List Task) :=
  let mw := minWhen h
  let c := h.filter (fun x => x.when == mw)
  match c[k % c.length]? with
  | some x => some (x, h.erase x)
  | none => none

/-- Pushing a sequence of tasks into the heap with the "must be in the future" test against `cur`.
`none` = the `panic!("Scheduled time … must be in the future")` branch.
VM: the `while let Ok(task) = self.receiver.try_recv()` loop of `on_sample` (`cur = self.cur_time`, i.e. the *previous* tick);
WASM: successive calls of the `_mimium_schedule_at` host closure (`cur = s.current_time`, i.e. the *running* tick). -/
def pushAll (cur : Nat) : List Task → List Task → Option (List Task)
  | [], h => some h
  | x :: xs, h => if x.when ≤ cur then none else pushAll cur xs (x :: h)

/-- What the compiled program does, as far as the scheduler can see: user state transformer plus the list of
`schedule_at` calls (already truncated to `u64`) issued, in order. `task id now` is the body of closure `id` run at sample `now`. -/
structure Env (σ : Type) where
  global : σ → σ × List Task
  task : Nat → Nat → σ → σ × List Task
  dsp : Nat → σ → σ × List Task

/-- Observable record of one sample: closures executed by `on_sample` (in order) and every `schedule_at` call issued
during the sample (by those closures, in order, then by `dsp`). -/
structure TickRec where
  execd : List Task
  reqs : List Task
deriving Repr

/-- Generic per-sample loop `for t in t0 .. t0+n { run_dsp(Time(t)) }`; `none` = a panic branch was reached. -/
def runFrom {S : Type} (tick : Nat → S → Option (S × TickRec)) : Nat → Nat → S → List TickRec × Option S
  | 0, _, st => ([], some st)
  | n + 1, t, st =>
    match tick t st with
    | none => ([], none)
    | some (st', r) =>
      let res := runFrom tick n (t + 1) st'
      (r :: res.1, res.2)

structure Run (S : Type) where
  greqs : List Task
  ticks : List TickRec
  final : Option S

/-! ## VM side -/

/-- `SchedulerAudioWorker` + the channel + the user state. `pops` counts `pop`s (index into the tie oracle). -/
structure VmSt (σ : Type) where
  curTime : Nat
  heap : List Task
  chan : List Task
  pops : Nat
  user : σ

/-- `while let Some(closure) = self.pop_task(time) { handle.execute_closure(closure) }`.
`schedule_at` calls made by the running closure go to the channel, not to the heap. Fuel: the heap length on entry. -/
def Vm.popLoop {σ : Type} (env : Env σ) (ch : Nat → Nat) (now : Nat) : Nat → VmSt σ → VmSt σ × List Task
  | 0, st => (st, [])
  | n + 1, st =>
    match popMin (ch st.pops) st.heap with
    | none => (st, [])
    | some (x, r) =>
      if x.when ≤ now then
        let b := env.task x.id now st.user
        let res := Vm.popLoop env ch now n
          { st with heap := r, pops := st.pops + 1, chan := st.chan ++ b.2, user := b.1 }
        (res.1, x :: res.2)
      else (st, [])

/-- `VmDspRuntime::run_dsp(Time(t))`: `on_sample(t)` (drain channel, set `cur_time`, pop loop) then `dsp`. -/
def Vm.tick {σ : Type} (env : Env σ) (ch : Nat → Nat) (t : Nat) (st : VmSt σ) : Option (VmSt σ × TickRec) :=
  match pushAll st.curTime st.chan st.heap with
  | none => none
  | some h =>
    let st1 : VmSt σ := { st with heap := h, chan := [], curTime := t }
    let res := Vm.popLoop env ch t h.length st1
    let b := env.dsp t res.1.user
    let st3 : VmSt σ := { res.1 with chan := res.1.chan ++ b.2, user := b.1 }
    some (st3, { execd := res.2, reqs := st3.chan })

def Vm.init {σ : Type} (env : Env σ) (s0 : σ) : VmSt σ :=
  { curTime := 0, heap := [], chan := (env.global s0).2, pops := 0, user := (env.global s0).1 }

/-- global scope (`run_main`), then `n` samples `0 .. n-1`. -/
def Vm.run {σ : Type} (env : Env σ) (ch : Nat → Nat) (n : Nat) (s0 : σ) : Run (VmSt σ) :=
  let r := runFrom (Vm.tick env ch) n 0 (Vm.init env s0)
  { greqs := (env.global s0).2, ticks := r.1, final := r.2 }

/-! ## WASM side -/

/-- `wasm_handle.rs: SharedState` + the user state. -/
structure WSt (σ : Type) where
  currentTime : Nat
  heap : List Task
  pops : Nat
  user : σ

/-- `drain_due_tasks`: pop while the top is due. Returns (ready, remaining heap, pops). Fuel: heap length on entry. -/
def W.drainDue (ch : Nat → Nat) (now : Nat) : Nat → List Task → Nat → List Task × List Task × Nat
  | 0, h, p => ([], h, p)
  | n + 1, h, p =>
    match popMin (ch p) h with
    | none => ([], h, p)
    | some (x, r) =>
      if x.when ≤ now then
        let res := W.drainDue ch now n r (p + 1)
        (x :: res.1, res.2.1, res.2.2)
      else ([], h, p)

/-- `for closure_addr in self.drain_due_tasks() { engine.execute_function("_mimium_exec_closure_void", ..) }`:
the bodies run in order, their `schedule_at` calls go through the host closure (test against the running tick, push).
Returns (heap, user state, calls issued). -/
def W.execAll {σ : Type} (env : Env σ) (now : Nat) : List Task → List Task → σ → Option (List Task × σ × List Task)
  | [], h, u => some (h, u, [])
  | x :: xs, h, u =>
    let b := env.task x.id now u
    match pushAll now b.2 h with
    | none => none
    | some h1 =>
      match W.execAll env now xs h1 b.1 with
      | none => none
      | some (h2, u2, rq) => some (h2, u2, b.2 ++ rq)

/-- `WasmDspRuntime::run_dsp(Time(t))`: `on_sample(t)` (`set_current_time`, drain, execute) then `dsp`. -/
def W.tick {σ : Type} (env : Env σ) (ch : Nat → Nat) (t : Nat) (st : WSt σ) : Option (WSt σ × TickRec) :=
  let d := W.drainDue ch t st.heap.length st.heap st.pops
  match W.execAll env t d.1 d.2.1 st.user with
  | none => none
  | some (h, u, rq) =>
    let b := env.dsp t u
    match pushAll t b.2 h with
    | none => none
    | some h' =>
      some ({ currentTime := t, heap := h', pops := d.2.2, user := b.1 }, { execd := d.1, reqs := rq ++ b.2 })

/-- global scope on WASM: the host closure is called directly with `current_time = 0`. -/
def W.run {σ : Type} (env : Env σ) (ch : Nat → Nat) (n : Nat) (s0 : σ) : Run (WSt σ) :=
  let g := env.global s0
  match pushAll 0 g.2 [] with
  | none => { greqs := g.2, ticks := [], final := none }
  | some h =>
    let r := runFrom (W.tick env ch) n 0 { currentTime := 0, heap := h, pops := 0, user := g.1 }
    { greqs := g.2, ticks := r.1, final := r.2 }

/-! ## Specification vocabulary -/

/-- Running the closures `xs` in order at sample `now` from user state `u`: final state and all calls issued. -/
def execSeq {σ : Type} (env : Env σ) (now : Nat) : List Task → σ → σ × List Task
  | [], u => (u, [])
  | x :: xs, u =>
    let b := env.task x.id now u
    let r := execSeq env now xs b.1
    (r.1, b.2 ++ r.2)

/-- Everything scheduled before sample `t` starts: global scope plus samples `0 .. t-1`. -/
def issuedBefore (g : List Task) (ticks : List TickRec) (t : Nat) : List Task :=
  g ++ (ticks.take t).flatMap (·.reqs)

end Mimium.Sched
