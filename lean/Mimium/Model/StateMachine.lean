import Mimium.Model.Cells
/-!
# M2 — the flat state storage with its cursor: the primitive contract implemented twice

`vmStep` ports `StateStorage` + the `GetState/SetState/PushStatePos/PopStatePos/Mem/Delay` arms of `runtime/vm.rs`
(raw pointer accesses: an access outside the vector is undefined behaviour, modelled as `none`);
`wasmStep` ports `state_push_host/state_pop_host/state_get_host/state_set_host/state_mem_host/state_delay_host`
of `runtime/wasm.rs` (total: grows the storage on demand, saturating cursor, guards on the delay length).
-/
namespace Mimium.StateMachine
open Mimium.Cells

structure St where
  pos : Nat
  data : List UInt64
deriving Repr, DecidableEq, Inhabited

inductive SOp where
  | push (k : Nat)
  | pop (k : Nat)
  | get (n : Nat)
  | set (ws : List UInt64)
  | mem (x : UInt64)
  | delay (len : Nat) (x : UInt64) (tbits : UInt64)
deriving Repr, DecidableEq, Inhabited

/-- `MAX_WASM_DELAY_SAMPLES` (runtime/wasm.rs) -/
def maxWasmDelay : Nat := 16 * 1024 * 1024

def slice (l : List UInt64) (p n : Nat) : List UInt64 := (l.drop p).take n

def writeAt (l : List UInt64) (p : Nat) (ws : List UInt64) : List UInt64 :=
  l.take p ++ ws ++ l.drop (p + ws.length)

/-- the ring-buffer update on the flat words `[rd, wr, data…]` at `p` (shared text of both implementations) -/
def delayFlat (data : List UInt64) (p len : Nat) (x tbits : UInt64) : UInt64 × List UInt64 :=
  let d := clampTime tbits len
  let w := (data.getD (p + 1) 0).toNat % len
  let r := (w + len - d) % len
  let res := data.getD (p + 2 + r) 0
  let data := data.set (p + 2 + w) x
  let data := data.set p r.toUInt64
  let data := data.set (p + 1) ((w + 1) % len).toUInt64
  (res, data)

/-- the VM: `none` = access outside the allocated vector (undefined behaviour in the Rust code) or cursor underflow -/
def vmStep (s : St) : SOp → Option (St × List UInt64)
  | .push k => some (⟨s.pos + k, s.data⟩, [])
  | .pop k => if k ≤ s.pos then some (⟨s.pos - k, s.data⟩, []) else none
  | .get n => if s.pos + n ≤ s.data.length then some (s, slice s.data s.pos n) else none
  | .set ws => if s.pos + ws.length ≤ s.data.length then some (⟨s.pos, writeAt s.data s.pos ws⟩, []) else none
  | .mem x => if s.pos + 1 ≤ s.data.length then some (⟨s.pos, s.data.set s.pos x⟩, [s.data.getD s.pos 0]) else none
  | .delay len x t =>
    if len = 0 then some (s, [0])
    else if s.pos + 2 + len ≤ s.data.length then
      let (res, data) := delayFlat s.data s.pos len x t
      some (⟨s.pos, data⟩, [res])
    else none

def grow (l : List UInt64) (n : Nat) : List UInt64 := l ++ List.replicate (n - l.length) 0

/-- the WASM host functions: total -/
def wasmStep (s : St) : SOp → St × List UInt64
  | .push k => (⟨s.pos + k, s.data⟩, [])
  | .pop k => (⟨s.pos - k, s.data⟩, [])          -- `saturating_sub`
  | .get n => let data := grow s.data (s.pos + n); (⟨s.pos, data⟩, slice data s.pos n)
  | .set ws => let data := grow s.data (s.pos + ws.length); (⟨s.pos, writeAt data s.pos ws⟩, [])
  | .mem x => let data := grow s.data (s.pos + 1); (⟨s.pos, data.set s.pos x⟩, [data.getD s.pos 0])
  | .delay len x t =>
    if len = 0 ∨ len > maxWasmDelay then (s, [0])
    else
      let data := grow s.data (s.pos + 2 + len)
      let (res, data) := delayFlat data s.pos len x t
      (⟨s.pos, data⟩, [res])

def vmRun (s : St) : List SOp → Option (St × List UInt64)
  | [] => some (s, [])
  | op :: ops =>
    match vmStep s op with
    | none => none
    | some (s', o) =>
      match vmRun s' ops with
      | none => none
      | some (s'', os) => some (s'', o ++ os)

def wasmRun (s : St) : List SOp → St × List UInt64
  | [] => (s, [])
  | op :: ops =>
    let (s', o) := wasmStep s op
    let (s'', os) := wasmRun s' ops
    (s'', o ++ os)

/-- every delay of the trace is within the WASM host's limit -/
def delaysOk : List SOp → Bool
  | [] => true
  | .delay len _ _ :: ops => decide (len ≤ maxWasmDelay) && delaysOk ops
  | _ :: ops => delaysOk ops

end Mimium.StateMachine
