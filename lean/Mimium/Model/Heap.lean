/-!
# Reference-counted slot stores of the VM (closures slot map, heap slot map) as a state machine

Port of what `runtime/vm.rs` / `runtime/vm/heap.rs` do to `Machine::closures : SlotMap<DefaultKey, Closure>` and
`Machine::heap : SlotMap<DefaultKey, HeapObject>`, at the granularity the verification hook records
(`runtime::vm::verif::HeapOp`):

* `alloc k`   – `SlotMap::insert`: a vacant (or new) slot becomes occupied with a NEW generation, refcount 1
                (`Closure::new`, `HeapObject::with_data`);
* `retain k`  – `refcount += 1` (`heap_retain`, `CloneHeap`, `close_upvalues_by_idx`);
* `release k` – `refcount -= 1` (`heap_release`, `drop_closure`); the object stays in the store, possibly at 0,
* `free k`    – `SlotMap::remove` once the count is 0 (between `release` to 0 and `free`, `drop_closure` drops the
                captured closures);
* `use k`     – the handle is dereferenced (`get_closure`/`get_closure_mut` → `get_unchecked`, `BoxLoad`, `BoxStore`,
                `get_closure_idx_from_heap`);
* `close k`   – `is_closed = true` (the closure escaped; `release_open_closures` will not drop it any more).

A handle is a slot index plus the generation stored in the slot when the object was inserted; `get_unchecked`
ignores the generation, which is why a handle kept after `free` is dangerous: the slot is reused.
The model is total and executable; `Drv/C12.lean` runs it on the recorded traffic of the real VM.
-/
namespace Mimium.Heap

/-- which slot map -/
inductive Space where
  | cls
  | heap
deriving DecidableEq, Repr, Inhabited

/-- a slot-map key: `KeyData { idx, version }` -/
structure Key where
  space : Space
  slot : Nat
  gen : Nat
deriving DecidableEq, Repr, Inhabited

inductive Kind where
  | alloc
  | retain
  | release
  | free
  | use
  | close
deriving DecidableEq, Repr, Inhabited

structure Op where
  kind : Kind
  key : Key
deriving DecidableEq, Repr, Inhabited

abbrev Trace := List Op

/-- one slot of a slot map: the generation of the last object that lived in it and, when occupied, its refcount -/
structure Cell where
  space : Space
  slot : Nat
  gen : Nat
  /-- `none`: vacant. `some n`: occupied, reference count `n` (`0` only between the last release and the removal) -/
  rc : Option Nat
deriving DecidableEq, Repr, Inhabited

/-- the cell is the slot that key `k` points into (generation NOT compared — this is what `get_unchecked` looks at) -/
def Cell.holds (c : Cell) (k : Key) : Bool := c.space == k.space && c.slot == k.slot

abbrev Store := List Cell

def find : Store → Key → Option Cell
  | [], _ => none
  | c :: s, k => if c.holds k then some c else find s k

/-- the checked lookup (`SlotMap::get`): refcount of the object named by `k`, `none` if `k` is stale or unknown -/
def rcOf (s : Store) (k : Key) : Option Nat :=
  match find s k with
  | some c => if c.gen = k.gen then c.rc else none
  | none => none

/-- `SlotMap::contains_key` -/
def live (s : Store) (k : Key) : Bool := (rcOf s k).isSome

/-- overwrite the slot of `k` (first match) with generation `k.gen` and state `r` -/
def upd : Store → Key → Option Nat → Store
  | [], _, _ => []
  | c :: s, k, r => if c.holds k then ⟨k.space, k.slot, k.gen, r⟩ :: s else c :: upd s k r

/-- one recorded operation; `none` = the operation is illegal in this state
(stale / unknown handle, release below zero, removal of a referenced object, reuse of a generation) -/
def step (s : Store) (o : Op) : Option Store :=
  match o.kind with
  | .alloc =>
    match find s o.key with
    | none => some (⟨o.key.space, o.key.slot, o.key.gen, some 1⟩ :: s)
    | some c => if c.rc.isNone && c.gen < o.key.gen then some (upd s o.key (some 1)) else none
  | .retain =>
    match rcOf s o.key with
    | some (n + 1) => some (upd s o.key (some (n + 2)))
    | _ => none
  | .release =>
    match rcOf s o.key with
    | some (n + 1) => some (upd s o.key (some n))
    | _ => none
  | .free =>
    match rcOf s o.key with
    | some 0 => some (upd s o.key none)
    | _ => none
  | .use =>
    match rcOf s o.key with
    | some (_ + 1) => some s
    | _ => none
  | .close =>
    match rcOf s o.key with
    | some (_ + 1) => some s
    | _ => none

def run : Store → Trace → Option Store
  | s, [] => some s
  | s, o :: t => match step s o with
    | some s' => run s' t
    | none => none

/-- number of live objects of one slot map: `closures.len()` / `heap.len()` -/
def liveCount (sp : Space) : Store → Nat
  | [] => 0
  | c :: s => (if c.space = sp ∧ c.rc.isSome then 1 else 0) + liveCount sp s

/-- total number of outstanding references into one slot map -/
def weight (sp : Space) : Store → Nat
  | [] => 0
  | c :: s => (if c.space = sp then c.rc.getD 0 else 0) + weight sp s

/-- no object is left at refcount 0 without having been removed -/
def noZombie : Store → Bool
  | [] => true
  | c :: s => c.rc != some 0 && noZombie s

/-- every object of `s` that is still live in `s'` has the refcount it had in `s` (every retain was matched) -/
def sameRc (s s' : Store) : Bool :=
  s.all fun c => match c.rc with
    | none => true
    | some n => match rcOf s' ⟨c.space, c.slot, c.gen⟩ with
      | none => true
      | some m => n == m

def countKind (kd : Kind) (sp : Space) (t : Trace) : Nat :=
  (t.filter fun o => o.kind == kd && o.key.space == sp).length

/-- THE CHECKER for one frame (the traffic of one dsp call, or of one period of samples) started in store `s`:
every operation is legal (no use after release, no release below zero, no reused generation), nothing is left at
count 0, every retain of a pre-existing object is matched by a release, and the frame removes as many objects as it
inserts in each slot map — an object inserted in the frame may outlive it only by taking the place of an object
that existed before (hand-over to a root that existed before: scheduler queue, captured variable, global). -/
def balanced (s : Store) (t : Trace) : Bool :=
  match run s t with
  | none => false
  | some s' =>
    liveCount .cls s' == liveCount .cls s && liveCount .heap s' == liveCount .heap s
      && noZombie s' && sameRc s s'

/-- the stricter form without hand-over: everything inserted in the frame is removed in the frame -/
def strictlyBalanced (s : Store) (t : Trace) : Bool :=
  balanced s t && t.all fun o => o.kind != .alloc || t.contains ⟨.free, o.key⟩

/-- store after the frames `fr 0 … fr (n-1)` -/
def after (s0 : Store) (fr : Nat → Trace) : Nat → Option Store
  | 0 => some s0
  | n + 1 => match after s0 fr n with
    | some s => run s (fr n)
    | none => none

/-! ## `SlotMap` allocation order (used by the driver to predict the key of every insertion)

`slotmap::SlotMap::insert` pops the head of the free list (last removed slot first) and sets the version to
`old_version | 1` (even = vacant, odd = occupied; `remove` adds 1); when the free list is empty it pushes a new slot
with version 1. Slot 0 is the sentinel, so the first real slot is 1. -/

structure Alloc where
  /-- vacant slots, most recently removed first, with the (even) version they were left with -/
  free : List (Nat × Nat)
  /-- number of slots including the sentinel -/
  nslots : Nat
deriving Repr, Inhabited

def Alloc.init : Alloc := ⟨[], 1⟩

/-- the key the next `insert` returns -/
def Alloc.next (a : Alloc) : Nat × Nat :=
  match a.free with
  | (slot, ver) :: _ => (slot, ver + 1)
  | [] => (a.nslots, 1)

def Alloc.insert (a : Alloc) : Alloc :=
  match a.free with
  | _ :: rest => { a with free := rest }
  | [] => { a with nslots := a.nslots + 1 }

/-- `remove` of the occupied key `(slot, ver)` -/
def Alloc.remove (a : Alloc) (slot ver : Nat) : Alloc := { a with free := (slot, ver + 1) :: a.free }

/-! ## traffic of single constructs, as the pinned VM produces it (observed through the hook) -/

/-- traffic of a closure that is created, called `uses` times and dropped at scope exit without having been closed
(`MakeHeapClosure` … `release_heap_closure` → `drop_closure` + `heap_release`): `c` closure key, `h` its heap wrapper -/
def fragLocalClosure (c h : Key) (uses : Nat) : Trace :=
  [⟨.alloc, c⟩, ⟨.alloc, h⟩] ++ List.replicate uses ⟨.use, c⟩ ++
    [⟨.release, c⟩, ⟨.free, c⟩, ⟨.release, h⟩, ⟨.free, h⟩]

/-- the traffic with the dereferences erased: what matters for balance -/
def skeleton (t : Trace) : Trace := t.filter fun o => o.kind != .use

/-- skeleton of the traffic of a closure that is never closed (same as `fragLocalClosure` without its uses) -/
def skLocalClosure (c h : Key) : Trace :=
  [⟨.alloc, c⟩, ⟨.alloc, h⟩, ⟨.release, c⟩, ⟨.free, c⟩, ⟨.release, h⟩, ⟨.free, h⟩]

/-- skeleton of what the pinned VM does for `let f = |x| { … captured … }` inside a function: the scope-exit
"release" is `CloseHeapClosure` (mirgen `insert_release_recursively`), `release_heap_closure` then skips the closed
closure and frees only the wrapper -/
def skLetClosure (c h : Key) : Trace :=
  [⟨.alloc, c⟩, ⟨.alloc, h⟩, ⟨.close, c⟩, ⟨.release, h⟩, ⟨.free, h⟩]

/-- skeleton of what the pinned VM does for a function value passed as an argument (`hof(g, y)`): wrapped
(`MakeHeapClosure`), `CloneHeap`'d for the call, closed, and only the caller's own reference to the wrapper is
released — the clone never is -/
def skFnArg (c h : Key) : Trace :=
  [⟨.alloc, c⟩, ⟨.alloc, h⟩, ⟨.retain, h⟩, ⟨.retain, c⟩, ⟨.close, c⟩, ⟨.release, h⟩]

/-- skeleton of what the pinned VM does for a closure returned from a function (`mk(a)(y)`): closed and cloned
before `Return`, the callee's scope exit releases the wrapper once; `again` further closes by the caller -/
def skFnRet (c h : Key) (again : Nat) : Trace :=
  [⟨.alloc, c⟩, ⟨.alloc, h⟩, ⟨.close, c⟩, ⟨.retain, h⟩, ⟨.retain, c⟩, ⟨.release, h⟩] ++ List.replicate again ⟨.close, c⟩

/-! ## recorded witnesses of the open C12 findings -/

def c (slot gen : Nat) : Key := ⟨.cls, slot, gen⟩
def h (slot gen : Nat) : Key := ⟨.heap, slot, gen⟩

/-- C12-K1 `fn dsp(){ let a = 2.0  let f = |x| { x*a }  a }` — first sample: `cA1.1 hA1.1 cU… cC1.1 … h-1.1 hF1.1` -/
def witnessLetClosure : Trace :=
  [⟨.alloc, c 1 1⟩, ⟨.alloc, h 1 1⟩, ⟨.use, c 1 1⟩, ⟨.close, c 1 1⟩, ⟨.use, c 1 1⟩, ⟨.use, c 1 1⟩,
   ⟨.release, h 1 1⟩, ⟨.free, h 1 1⟩]

/-- C12-K2 `fn hof(f:(float)->float,y){ f(y*2.0) }  fn g(y){y*3.0}  fn dsp(){ hof(g,4.0) }` — first sample:
`cA1.1 hA1.1 h+1.1 c+1.1 cU cC1.1 cU cU cU h-1.1` (one handle check before the close since UPV-2: closing
no longer reads the closure's frame base) -/
def witnessFnArg : Trace :=
  [⟨.alloc, c 1 1⟩, ⟨.alloc, h 1 1⟩, ⟨.retain, h 1 1⟩, ⟨.retain, c 1 1⟩, ⟨.use, c 1 1⟩,
   ⟨.close, c 1 1⟩, ⟨.use, c 1 1⟩, ⟨.use, c 1 1⟩, ⟨.use, c 1 1⟩, ⟨.release, h 1 1⟩]

/-- C12-K3 `fn mk(a){ |x| { x+a } }  fn dsp(){ mk(2.0)(1.0) }` — first sample:
`cA1.1 hA1.1 cU cC1.1 cU h+1.1 c+1.1 cU h-1.1 cU cU` -/
def witnessFnRet : Trace :=
  [⟨.alloc, c 1 1⟩, ⟨.alloc, h 1 1⟩, ⟨.use, c 1 1⟩, ⟨.close, c 1 1⟩, ⟨.use, c 1 1⟩, ⟨.retain, h 1 1⟩,
   ⟨.retain, c 1 1⟩, ⟨.use, c 1 1⟩, ⟨.release, h 1 1⟩, ⟨.use, c 1 1⟩, ⟨.use, c 1 1⟩]

/-- C12-K4 `type rec List = Nil | Cons(float, List)` … `fn dsp(){ let l = Cons(1.0, Nil)  sum(l) }` — first sample:
`hA1.1 h+1.1 h+1.1 h+1.1 hU1.1 h-1.1` -/
def witnessBox : Trace :=
  [⟨.alloc, h 1 1⟩, ⟨.retain, h 1 1⟩, ⟨.retain, h 1 1⟩, ⟨.retain, h 1 1⟩, ⟨.use, h 1 1⟩, ⟨.release, h 1 1⟩]


/-! ## walks over a variant payload (`CloneUserSum` / `ReleaseUserSum`)

`clone_usersum_recursive` and `release_usersum_recursive` walk the words of a variant payload element by element and
retain / release the boxed reference found in every reference element. The word offset of element `i` is the SUM of
the word sizes of the elements before it. -/

/-- one payload element: its size in words and whether it is a (one-word) boxed reference -/
structure Elem where
  size : Nat
  isRef : Bool
deriving DecidableEq, Repr

/-- word offsets of the reference elements, accumulated word sizes (what both walks of the pinned VM compute) -/
def trueOffsets : List Elem → Nat → List Nat
  | [], _ => []
  | e :: es, o => (if e.isRef then [o] else []) ++ trueOffsets es (o + e.size)

/-- the offsets a walk computes when it uses the element INDEX as word offset (seeded change C12a) -/
def indexOffsets : List Elem → Nat → List Nat
  | [], _ => []
  | e :: es, i => (if e.isRef then [i] else []) ++ indexOffsets es (i + 1)

/-- the refcount traffic of a walk: one `kd` operation on the handle stored in every visited word
(`wordAt words o = none`: the word is not a handle, or the offset is outside the payload) -/
def wordAt : List (Option Key) → Nat → Option Key
  | [], _ => none
  | w :: _, 0 => w
  | _ :: ws, n + 1 => wordAt ws n

def walk (kd : Kind) (words : List (Option Key)) : List Nat → Trace
  | [] => []
  | o :: offs => match wordAt words o with
    | some k => ⟨kd, k⟩ :: walk kd words offs
    | none => walk kd words offs

/-- traffic of `let s = C(…)  { let l = C(payload containing s) }` for a payload with word contents `words`, layout
`layout`, clone walk over `cloneOffs`, release walk over the true offsets: insert `s`, clone walk (embedding copies the
handle), insert `l`, release walk over `l`'s payload when `l` dies, removal of `l`, then `s` goes out of scope -/
def embedFrame (s l : Key) (words : List (Option Key)) (layout : List Elem) (cloneOffs : List Nat) : Trace :=
  [⟨.alloc, s⟩] ++ walk .retain words cloneOffs ++ [⟨.alloc, l⟩] ++ walk .release words (trueOffsets layout 0)
    ++ [⟨.release, l⟩, ⟨.free, l⟩, ⟨.release, s⟩, ⟨.free, s⟩]

/-- how often a walk touches handle `k` -/
def visits (words : List (Option Key)) (k : Key) : List Nat → Nat
  | [] => 0
  | o :: offs => (if wordAt words o = some k then 1 else 0) + visits words k offs

end Mimium.Heap
