import Mimium.Model.StateTree
/-! Text format for skeletons/patches shared with the Rust harness (`harness/src/sk.rs`),
and the executable property checker `planOk` that judges *implementation* output. -/
namespace Mimium.StateTree

partial def parseSkAux (cs : List Char) : Option (Sk × List Char) :=
  let num (cs : List Char) : Nat × List Char :=
    let ds := cs.takeWhile Char.isDigit
    (ds.foldl (fun a c => a * 10 + (c.toNat - 48)) 0, cs.dropWhile Char.isDigit)
  match cs with
  | 'D' :: r => let (n, r) := num r; some (.delay n, r)
  | 'M' :: r => let (n, r) := num r; some (.mem n, r)
  | 'E' :: r => let (n, r) := num r; some (.feed n, r)
  | 'F' :: '[' :: ']' :: r => some (.fn [], r)
  | 'F' :: '[' :: r =>
    let rec go (r : List Char) (acc : List Sk) : Option (Sk × List Char) :=
      match parseSkAux r with
      | none => none
      | some (c, ',' :: r') => go r' (c :: acc)
      | some (c, ']' :: r') => some (.fn (c :: acc).reverse, r')
      | _ => none
    go r []
  | _ => none

def parseSk (s : String) : Option Sk :=
  match parseSkAux s.toList with
  | some (k, []) => some k
  | _ => none

partial def Sk.show : Sk → String
  | .delay n => s!"D{n}"
  | .mem n => s!"M{n}"
  | .feed n => s!"E{n}"
  | .fn cs => "F[" ++ ",".intercalate (cs.map Sk.show) ++ "]"

def Patch.lt (p q : Patch) : Bool :=
  p.src < q.src || (p.src == q.src && (p.dst < q.dst || (p.dst == q.dst && p.size < q.size)))

def insertSorted (p : Patch) : List Patch → List Patch
  | [] => [p]
  | q :: qs => if p.lt q then p :: q :: qs else q :: insertSorted p qs

def sortPatches (ps : List Patch) : List Patch := ps.foldr insertSorted []

def showPatches (ps : List Patch) : String :=
  if ps.isEmpty then "." else ",".intercalate ((sortPatches ps).map fun p => s!"{p.src}:{p.dst}:{p.size}")

def showWords (ws : List Nat) : String :=
  if ws.isEmpty then "." else ",".intercalate (ws.map toString)

def parsePatches (s : String) : Option (List Patch) :=
  if s == "." then some [] else
  (s.splitOn ",").mapM fun item =>
    match (item.splitOn ":").map String.toNat? with
    | [some a, some b, some c] => some ⟨a, b, c⟩
    | _ => none

/-- model side of one protocol line -/
def modelLine (o n : Sk) : String × String :=
  match buildPlan o n with
  | none => ("-", "=")
  | some plan =>
    let old := (List.range o.size).map (· + 1)
    let applied := match applyPlan? old plan with
      | some ws => showWords ws
      | none => "PANIC"
    (showPatches plan.patches, applied)

end Mimium.StateTree
