import Mimium.Model.RustGen
import Mimium.Model.MirLayout
/-! Text formats shared with `harness/src/bin/c18.rs` (control skeleton of the MIR) and `tools/props/c18.py`
(canonical form of the dispatch loop parsed back from the generated Rust text; traces of state operations). -/
namespace Mimium.RustGen
open Mimium.StateMachine

def fieldsOf (s : String) : List String := s.splitOn ","

def tailOf (s : String) : String := String.ofList (s.toList.drop 1)

def parseCase (s : String) : Option (Int × Nat) :=
  match s.splitOn ":" with
  | [l, b] => do some ((← l.toInt?), (← b.toNat?))
  | _ => none

/-- one instruction of the harness' dump (see `c18.rs`) -/
def parseIns (s : String) : Option Ins :=
  match s.toList with
  | ['o'] => some (.op 0)
  | ['R'] => some (.ret 0)
  | 'p' :: _ =>
    match (fieldsOf (tailOf s)).map String.toNat? with
    | [some d, some l, some r] => some (.phi d l r)
    | _ => none
  | 'P' :: _ =>
    match (fieldsOf (tailOf s)).mapM String.toNat? with
    | some (d :: vs) => some (.phiSwitch d vs)
    | _ => none
  | 'j' :: _ =>
    match (fieldsOf (tailOf s)).map String.toNat? with
    | [some c, some t, some e, some m] => some (.jmpIf c t e m)
    | _ => none
  | 'J' :: _ => (tailOf s).toInt?.map .jmp
  | 's' :: _ =>
    match fieldsOf (tailOf s) with
    | sc :: m :: d :: cases => do
      let sc ← sc.toNat?
      let m ← m.toNat?
      let d ← if d == "-" then some none else d.toNat?.map some
      let cs ← cases.mapM parseCase
      some (.switch sc cs d m)
    | _ => none
  | _ => none

def parseBlock (s : String) : Option Block :=
  if s.isEmpty then some [] else (s.splitOn ";").mapM parseIns

def parseCfg (s : String) : Option Cfg := (s.splitOn "/").mapM parseBlock

def showCases (cs : List (Int × Nat)) : String := "".intercalate (cs.map fun c => s!",{c.1}:{c.2}")

/-- control statements only (`op` is dropped: the text of a lowered instruction is not modelled) -/
def RS.show : RS → Option String
  | .op _ => none
  | .phiIf d p0 l p1 r => some s!"pi{d},{p0},{l},{p1},{r}"
  | .phiMatch d arms => some (s!"pm{d}" ++ "".intercalate (arms.map fun a => s!",{a.1}:{a.2}"))
  | .setPred p => some s!"sp{p}"
  | .setBbIf c t e => some s!"bi{c},{t},{e}"
  | .setBb n => some s!"bb{n}"
  | .setBbSwitch s cases d => some (s!"bs{s}," ++ (match d with | some x => toString x | none => "-") ++ showCases cases)
  | .continue_ => some "c"
  | .ret _ => some "r"
  | .panic => some "x"

def showArm (a : List RS) : String := ";".intercalate (a.filterMap RS.show)

def Body.show : Body → String
  | .straight st => "S:" ++ showArm st
  | .loop arms => "L:" ++ "|".intercalate (arms.map showArm)

def showArms (as : List Arm) : String :=
  if as.isEmpty then "." else ",".intercalate (as.map fun a => s!"{a.start}-{a.stop}-{a.merge}")

/-- model side of a `cfg` line: `<nested 0|1><forward 0|1> \t <encoding | refuse> \t <arms in visiting order>` -/
def cfgLine (s : String) : String :=
  match parseCfg s with
  | none => "bad-input"
  | some bs =>
    let n := (if nested bs then "1" else "0") ++ (if forward bs then "1" else "0")
    match encode bs with
    | some b => s!"{n}\t{b.show}\t{showArms (arms bs)}"
    | none => s!"{n}\trefuse\t{showArms (arms bs)}"

/-- prefix notation of `Sh`: `L` leaf, `N` noarm, `S a b`, `I c t e`, `W s arms`, `A a rest` -/
partial def parseSh : List Char → Option (Sh × List Char)
  | 'L' :: r => some (.leaf, r)
  | 'N' :: r => some (.noarm, r)
  | 'S' :: r => do let (a, r) ← parseSh r; let (b, r) ← parseSh r; some (.seq a b, r)
  | 'I' :: r => do let (c, r) ← parseSh r; let (t, r) ← parseSh r; let (e, r) ← parseSh r; some (.ite c t e, r)
  | 'W' :: r => do let (a, r) ← parseSh r; let (b, r) ← parseSh r; some (.sw a b, r)
  | 'A' :: r => do let (a, r) ← parseSh r; let (b, r) ← parseSh r; some (.arm a b, r)
  | _ => none

/-- model side of a `lay` line: the arms mirgen's block numbering gives this expression shape, from block 0 -/
def layLine (s : String) : String :=
  match parseSh s.toList with
  | some (sh, []) => showArms (lay sh 0).arms
  | _ => "bad-input"

def hexVal (c : Char) : Nat :=
  if c.isDigit then c.toNat - 48 else if 'a' ≤ c ∧ c ≤ 'f' then c.toNat - 87 else if 'A' ≤ c ∧ c ≤ 'F' then c.toNat - 55 else 0

def parseHex (s : String) : UInt64 := (s.toList.foldl (fun a c => a * 16 + hexVal c) 0).toUInt64

def hexDigit (n : Nat) : Char := if n < 10 then Char.ofNat (48 + n) else Char.ofNat (87 + n)

def showHex (w : UInt64) : String :=
  let rec go (fuel n : Nat) (acc : List Char) : List Char :=
    match fuel with
    | 0 => acc
    | fuel + 1 => if n = 0 then acc else go fuel (n / 16) (hexDigit (n % 16) :: acc)
  let ds := go 16 w.toNat []
  if ds.isEmpty then "0" else String.ofList ds

def showWords (ws : List UInt64) : String := if ws.isEmpty then "." else ",".intercalate (ws.map showHex)

/-- `u<k>` push, `o<k>` pop, `g<n>` get, `s<w>,<w>..` set, `m<w>` mem, `d<len>,<x>,<t>` delay (words in hex) -/
def parseSOp (s : String) : Option SOp :=
  match s.toList with
  | 'u' :: _ => (tailOf s).toNat?.map .push
  | 'o' :: _ => (tailOf s).toNat?.map .pop
  | 'g' :: _ => (tailOf s).toNat?.map .get
  | 's' :: _ => some (.set (if (tailOf s).isEmpty then [] else (fieldsOf (tailOf s)).map parseHex))
  | 'm' :: _ => some (.mem (parseHex (tailOf s)))
  | 'd' :: _ =>
    match fieldsOf (tailOf s) with
    | [l, x, t] => l.toNat?.map fun l => .delay l (parseHex x) (parseHex t)
    | _ => none
  | _ => none

/-- model side of a `st` line: `<pos> \t <storage> \t <outputs> \t <vm: same | oob | differs>` -/
def stLine (size ops : String) : String :=
  match size.toNat?, (if ops.isEmpty then some [] else (ops.splitOn ";").mapM parseSOp) with
  | some n, some ops =>
    let s0 : St := ⟨0, List.replicate n 0⟩
    let (s, o) := rustRun s0 ops
    let vm := match vmRun s0 ops with
      | none => "oob"
      | some r => if r == (s, o) then "same" else "differs"
    s!"{s.pos}\t{showWords s.data}\t{showWords o}\t{vm}"
  | _, _ => "bad-input"

end Mimium.RustGen
