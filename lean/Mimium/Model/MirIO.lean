import Mimium.Model.Mir
import Mimium.Model.CoreIO
import Mimium.Model.StateTreeIO
/-! Reader of the MIR dump written by `harness/src/bin/mir.rs` (one S-expression per program) and the sample printer of `drv_mir`. -/
namespace Mimium.Mir
open Mimium.Core (SX tokenize parseSX parseHex showWord)
open Mimium.StateTree

/-- operands that are no registers in a position where the semantics wants a register -/
def undefReg : Nat := 999999

def toOpd : SX → Option Opd
  | .atom "-" => some .none
  | .atom "?" => some .bad
  | .atom a =>
    match a.toList with
    | 'r' :: ds => (String.ofList ds).toNat?.map Opd.reg
    | 'f' :: ds => (String.ofList ds).toNat?.map Opd.fn
    | 'x' :: ds => some (.ext (String.ofList ds))
    | 'u' :: ds => (String.ofList ds).toNat?.map Opd.up
    | _ => none
  | _ => none

/-- register operand of a control instruction; `-` is the unit register `unit` -/
def toCtlReg (unit : Nat) : SX → Option Nat
  | .atom "-" => some unit
  | .atom a =>
    match a.toList with
    | 'r' :: ds => (String.ofList ds).toNat?
    | _ => some undefReg
  | _ => none

def toNat : SX → Option Nat
  | .atom a => a.toNat?
  | _ => none

def toInt : SX → Option Int
  | .atom a => a.toInt?
  | _ => none

def toArgs (xs : List SX) : Option (List (Opd × Nat)) :=
  xs.mapM fun
    | .list [o, n] => do some (← toOpd o, ← toNat n)
    | _ => none

def unOpOf : String → Option UnOp
  | "negf" => some .negf | "absf" => some .absf | "sinf" => some .sinf | "cosf" => some .cosf | "logf" => some .logf
  | "sqrtf" => some .sqrtf | "negi" => some .negi | "absi" => some .absi | "not" => some .not | "ftoi" => some .ftoi
  | "itof" => some .itof | "itob" => some .itob
  | _ => none

def binOpOf : String → Option BinOp
  | "addf" => some .addf | "subf" => some .subf | "mulf" => some .mulf | "divf" => some .divf | "modf" => some .modf
  | "powf" => some .powf | "addi" => some .addi | "subi" => some .subi | "muli" => some .muli | "divi" => some .divi
  | "modi" => some .modi | "eq" => some .eq | "ne" => some .ne | "gt" => some .gt | "ge" => some .ge | "lt" => some .lt
  | "le" => some .le | "and" => some .and | "or" => some .or
  | _ => none

def toIns (unit : Nat) : SX → Option Ins
  | .list [.atom "k", d, .atom h] => do some (.const (← toNat d) (parseHex h))
  | .list [.atom "al", d, n] => do some (.alloc (← toNat d) (← toNat n))
  | .list [.atom "ld", d, s, n] => do some (.load (← toNat d) (← toOpd s) (← toNat n))
  | .list [.atom "st", p, s, n] => do some (.store (← toOpd p) (← toOpd s) (← toNat n))
  | .list [.atom "stf", p, g] => do some (.storeFn (← toOpd p) (← toNat g))
  | .list [.atom "ge", d, s, off, n] => do some (.getElem (← toNat d) (← toOpd s) (← toNat off) (← toNat n))
  | .list (.atom "call" :: d :: f :: nret :: args) => do some (.call (← toNat d) (← toOpd f) (← toArgs args) (← toNat nret))
  | .list (.atom "calli" :: d :: f :: nret :: args) => do some (.callInd (← toNat d) (← toOpd f) (← toArgs args) (← toNat nret))
  | .list [.atom "gg", d, g, n] => do some (.getGlobal (← toNat d) (← toNat g) (← toNat n))
  | .list [.atom "sg", g, s, n] => do some (.setGlobal (← toNat g) (← toOpd s) (← toNat n))
  | .list [.atom "sgf", g, f] => do some (.setGlobalFn (← toNat g) (← toNat f))
  | .list [.atom "mkclo", d, f] => do some (.mkClosure (← toNat d) (← toOpd f))
  | .list [.atom "closeh", s] => do some (.closeHeap (← toOpd s))
  | .list [.atom "cloneh", s] => do some (.cloneHeap (← toOpd s))
  | .list (.atom "closeup" :: s :: offs) => do some (.closeUp (← toOpd s) (← offs.mapM toNat))
  | .list [.atom "gu", d, i, n] => do some (.getUp (← toNat d) (← toNat i) (← toNat n))
  | .list [.atom "su", i, s, n] => do some (.setUp (← toNat i) (← toOpd s) (← toNat n))
  | .list [.atom "push", k] => do some (.push (← toNat k))
  | .list [.atom "pop", k] => do some (.pop (← toNat k))
  | .list [.atom "gs", d, n] => do some (.getState (← toNat d) (← toNat n))
  | .list [.atom "rf", s, n] => do some (.retFeed (← toOpd s) (← toNat n))
  | .list [.atom "mem", d, s] => do some (.mem (← toNat d) (← toOpd s))
  | .list [.atom "dl", d, len, s, t] => do some (.delay (← toNat d) (← toNat len) (← toOpd s) (← toOpd t))
  | .list [.atom "jif", c, t, e, m] => do some (.jmpIf (← toCtlReg unit c) (← toNat t) (← toNat e) (← toNat m))
  | .list [.atom "jmp", off] => do some (.jmp (← toInt off))
  | .list [.atom "phi", d, l, r] => do some (.phi (← toNat d) (← toCtlReg unit l) (← toCtlReg unit r))
  | .list (.atom "sw" :: s :: m :: d :: cases) => do
    let cs ← cases.mapM fun
      | .list [l, b] => do some (← toInt l, ← toNat b)
      | _ => none
    let dflt ← match d with
      | .atom "-" => some none
      | x => (toNat x).map some
    some (.switch (← toCtlReg unit s) cs dflt (← toNat m))
  | .list (.atom "phis" :: d :: ins) => do some (.phiSwitch (← toNat d) (← ins.mapM (toCtlReg unit)))
  | .list [.atom "ret", s, n] => do some (.ret (← toOpd s) (← toNat n))
  | .list [.atom "un", .atom op, d, a] => do some (.un (← unOpOf op) (← toNat d) (← toOpd a))
  | .list [.atom "bin", .atom op, d, a, b] => do some (.bin (← binOpOf op) (← toNat d) (← toOpd a) (← toOpd b))
  | .list [.atom "uw", d, tag, s, total, pay] => do
    some (.unionWrap (← toNat d) (← toNat tag) (← toOpd s) (← toNat total) (← toNat pay))
  | .list [.atom "ut", d, s] => do some (.unionTag (← toNat d) (← toOpd s))
  | .list [.atom "uv", d, s, n] => do some (.unionVal (← toNat d) (← toOpd s) (← toNat n))
  | .list [.atom "nop"] => some .nop
  | .list [.atom "uns", d, .atom what] => do some (.uns (← toNat d) what)
  | _ => none

def toFn : SX → Option Fn
  | .list (.atom "fn" :: _ :: .atom label :: upper :: .list (.atom "args" :: args) :: .list (.atom "ups" :: ups) ::
      .atom sk :: nregs :: nret :: blocks) => do
    let nregs ← toNat nregs
    let bs ← blocks.mapM fun
      | .list (.atom "b" :: is) => is.mapM (toIns nregs)
      | _ => none
    let up := match upper with
      | .atom a => a.toNat?
      | _ => none
    let nr := match nret with
      | .atom a => a.toNat?.getD 0
      | _ => 0
    some (Fn.build label up (← args.mapM toNat) (← ups.mapM toOpd) (← parseSk sk) nregs nr bs)
  | _ => none

def toProg : SX → Option Prog
  | .list (.atom "mir" :: g :: fns) => do some ⟨← toNat g, ← fns.mapM toFn⟩
  | _ => none

def parseMir (s : String) : Option Prog :=
  match parseSX (tokenize s) with
  | some (sx, []) => toProg sx
  | _ => none

def showErr : Err → String
  | .fuel => "fuel"
  | .unsupported w => s!"unsupported {w}"
  | .undefReg r => s!"stuck undefined-register:{r}"
  | .badBlock b => s!"stuck bad-block:{b}"
  | .stuck w => s!"stuck {w}"

def nowWord (t : Nat) : UInt64 := (Float.ofNat t).toBits

/-- run a program for `times` samples (`now` = sample index, 48 kHz). `ok <nout> w,w,…` | `unsupported …` | `stuck …` | `fuel` -/
def runProg (P : Prog) (times : Nat) (inputs : List (List UInt64)) (fuel : Nat := 400) : String :=
  let sr := (48000.0 : Float).toBits
  match Machine.init fuel P sr with
  | .error e => showErr e ++ " (init)"
  | .ok m0 =>
    let rec go (k : Nat) (t : Nat) (m : Machine) (acc : List String) (nout : Nat) : String :=
      match k with
      | 0 => s!"ok {nout} " ++ ",".intercalate acc.reverse
      | k + 1 =>
        match Machine.step fuel P m (nowWord t) (inputs.getD t []) with
        | .error e => showErr e ++ s!" (t={t})"
        | .ok (ws, m', _) => go k (t + 1) m' ((ws.map showWord).reverse ++ acc) ws.length
    go times 0 m0 [] 0

def hexNat (n : Nat) : String := String.ofList (Nat.toDigits 16 n)

def showAccess (a : Layout.Access) : String :=
  let k := match a.kind with
    | .get => "G" | .set => "S" | .mem => "M" | .delay => "D"
  s!"{k}:1:{a.pos}:{a.size}"

/-- per sample `<trace>@<cursor>@<words of the global storage>` in the format of `harness/src/bin/c05.rs` (VM hook traces) -/
def runTrace (P : Prog) (times : Nat) (inputs : List (List UInt64)) (fuel : Nat := 400) : String :=
  let sr := (48000.0 : Float).toBits
  match Machine.init fuel P sr with
  | .error e => showErr e ++ " (init)"
  | .ok m0 =>
    let rec go (k : Nat) (t : Nat) (m : Machine) (acc : List String) : String :=
      match k with
      | 0 => "ok " ++ "|".intercalate acc.reverse
      | k + 1 =>
        match Machine.step fuel P m (nowWord t) (inputs.getD t []) with
        | .error e => showErr e ++ s!" (t={t})"
        | .ok (_, m', tr) =>
          let trs := if tr.isEmpty then "." else ";".intercalate (tr.map showAccess)
          let ws := if m'.st.data.isEmpty then "." else ",".intercalate (m'.st.data.map fun w => hexNat w.toNat)
          go k (t + 1) m' (s!"{trs}@{m'.st.pos}@{ws}" :: acc)
    go times 0 m0 []

end Mimium.Mir
