import Mimium.Gen.C14
/-!
# Token-level model of the parser's newline sensitivity (`cst_parser.rs`)

Literal port of the expression core of `compiler/parser/cst_parser.rs` on token *classes*:
`parse_expr_with_precedence` (with its two `has_trailing_linebreak()` tests), its `_no_linebreak` twin used
inside argument lists, `parse_prefix_expr`/`parse_unary_expr`, `parse_postfix_expr` ("do not allow postfixL
operators across a line break"), `parse_arg_list`, the paren/tuple/array primaries and the statement loop.
The line-break information is an oracle `nl i` = `has_trailing_linebreak()` when the cursor is at token `i`
(there is a `LineBreak` token in the trivia between tokens `i-1` and `i`).
The result is the shape of the green tree (node kinds + token indices, `err` where the parser records an error).
Recursion is on fuel (the real parser recurses on the input; fuel `≥ 2·tokens+2` is enough, not needed here:
the theorems hold for every fuel).
Not ported: declarations, lambda, `if`, blocks, records, macro calls, `match`, types, the tuple look-ahead
(`is_tuple_expr`, a line-break independent look-ahead, is ported as `isTuple`).
-/
namespace Mimium.NewlineRule

inductive TK where
  | atom            -- identifier / literal: a one-token primary
  | op (prec : Nat) -- binary operator that is not also a prefix operator
  | minus           -- `-` / `+`: infix (precedence `Gen.C14.minusPrec`, re-extracted each run) and prefix
  | lparen | rparen | lbrack | rbrack | dot | comma
deriving DecidableEq, Repr, Inhabited

inductive Tree where
  | leaf (i : Nat)
  | node (kind : String) (children : List Tree)
  | err (i : Nat)
deriving Repr, Inhabited

/-- `get_infix_precedence` -/
def infixPrec : Option TK → Option Nat
  | some (.op p) => some p
  | some .minus => some Mimium.Gen.C14.minusPrec
  | _ => none

/-- the tokens in front of which a line break changes the parse: the postfixL openers -/
def sensitive : Option TK → Bool
  | some .lparen => true
  | some .lbrack => true
  | some .dot => true
  | _ => false

/-- `is_tuple_expr`, ported literally: after `(`, scan for a comma at bracket depth 0 before the matching `)`.
Every kind of bracket nests (since /repo fix "a parenthesised expression is a tuple only for its own commas": before
it only parentheses were counted and `([a, b])` was parsed as a one-element tuple); an unmatched `]` at depth 0 is
skipped (`saturating_sub`).  Braces and lambda parameter bars are outside this token alphabet. -/
def isTupleAux (ts : List TK) : Nat → Nat → Nat → Bool
  | 0, _, _ => false
  | f + 1, i, depth =>
    match ts[i]? with
    | none => false
    | some .lparen => isTupleAux ts f (i + 1) (depth + 1)
    | some .lbrack => isTupleAux ts f (i + 1) (depth + 1)
    | some .rparen => if depth == 0 then false else isTupleAux ts f (i + 1) (depth - 1)
    | some .rbrack => isTupleAux ts f (i + 1) (depth - 1)
    | some .comma => if depth == 0 then true else isTupleAux ts f (i + 1) depth
    | _ => isTupleAux ts f (i + 1) depth

def isTuple (ts : List TK) (i : Nat) : Bool := isTupleAux ts (ts.length + 1) (i + 1) 0

abbrev Res := List Tree × Nat

/-- `expect(kind)`: consume it or record an error without consuming -/
def expect (ts : List TK) (k : TK) (i : Nat) : Res :=
  if ts[i]? = some k then ([.leaf i], i + 1) else ([.err i], i)

mutual
/-- `parse_expr_with_precedence(min_prec)` (`stop = true`) / `…_no_linebreak` (`stop = false`) -/
def exprPrec (ts : List TK) (nl : Nat → Bool) : Nat → Bool → Nat → Nat → Res
  | 0, _, _, i => ([.err i], i)
  | f + 1, stop, minPrec, i =>
    let (lhs, i1) := prefixE ts nl f i
    if stop && minPrec == 0 && nl i1 && (infixPrec ts[i1]?).isNone then (lhs, i1)
    else pratt ts nl f stop minPrec lhs i1

/-- the `while let Some(token_kind) = self.peek()` loop of the Pratt parser -/
def pratt (ts : List TK) (nl : Nat → Bool) : Nat → Bool → Nat → List Tree → Nat → Res
  | 0, _, _, lhs, i => (lhs, i)
  | f + 1, stop, minPrec, lhs, i =>
    match infixPrec ts[i]? with
    | some prec =>
      if prec < minPrec then (lhs, i)
      else
        let (rhs, i2) := exprPrec ts nl f stop (prec + 1) (i + 1)
        let node := [Tree.node "BinaryExpr" (lhs ++ [.leaf i] ++ rhs)]
        if stop && minPrec == 0 && nl i2 && (infixPrec ts[i2]?).isNone then (node, i2)
        else pratt ts nl f stop minPrec node i2
    | none => (lhs, i)

/-- `parse_prefix_expr` / `parse_unary_expr` -/
def prefixE (ts : List TK) (nl : Nat → Bool) : Nat → Nat → Res
  | 0, i => ([.err i], i)
  | f + 1, i =>
    if ts[i]? = some .minus then
      let (e, i1) := prefixE ts nl f (i + 1)
      ([.node "UnaryExpr" (.leaf i :: e)], i1)
    else
      let (p, i1) := primary ts nl f i
      postfixL ts nl f p i1

/-- the loop of `parse_postfix_expr` -/
def postfixL (ts : List TK) (nl : Nat → Bool) : Nat → List Tree → Nat → Res
  | 0, lhs, i => (lhs, i)
  | f + 1, lhs, i =>
    if nl i then (lhs, i)          -- "Do not allow postfixL operators across a line break"
    else match ts[i]? with
      | some .lparen =>
        let (a, i1) := argList ts nl f i
        postfixL ts nl f [.node "CallExpr" (lhs ++ a)] i1
      | some .dot =>
        let (x, i1) := expect ts .atom (i + 1)
        postfixL ts nl f [.node "FieldAccess" (lhs ++ .leaf i :: x)] i1
      | some .lbrack =>
        let (e, i1) := exprPrec ts nl f true 0 (i + 1)
        let (c, i2) := expect ts .rbrack i1
        postfixL ts nl f [.node "IndexExpr" (lhs ++ .leaf i :: e ++ c)] i2
      | _ => (lhs, i)

/-- `parse_arg_list` -/
def argList (ts : List TK) (nl : Nat → Bool) : Nat → Nat → Res
  | 0, i => ([.err i], i)
  | f + 1, i =>
    if ts[i + 1]? = some .rparen then ([.node "ArgList" [.leaf i, .leaf (i + 1)]], i + 2)
    else
      let (e, i1) := exprPrec ts nl f false 0 (i + 1)
      let (more, i2) := items ts nl f false .rparen i1
      let (c, i3) := expect ts .rparen i2
      ([.node "ArgList" (.leaf i :: e ++ more ++ c)], i3)

/-- `while this.check(Comma) { bump; if !check(close) { parse } }` -/
def items (ts : List TK) (nl : Nat → Bool) : Nat → Bool → TK → Nat → Res
  | 0, _, _, i => ([], i)
  | f + 1, stop, close, i =>
    if ts[i]? = some .comma then
      if ts[i + 1]? = some close then ([.leaf i], i + 1)
      else
        let (e, i1) := exprPrec ts nl f stop 0 (i + 1)
        let (more, i2) := items ts nl f stop close i1
        (.leaf i :: e ++ more, i2)
    else ([], i)

/-- `parse_primary` (atoms, parenthesised expression, tuple, array literal) -/
def primary (ts : List TK) (nl : Nat → Bool) : Nat → Nat → Res
  | 0, i => ([.err i], i)
  | f + 1, i =>
    match ts[i]? with
    | some .atom => ([.node "Identifier" [.leaf i]], i + 1)
    | some .lparen =>
      if isTuple ts i then
        if ts[i + 1]? = some .rparen then ([.node "TupleExpr" [.leaf i, .leaf (i + 1)]], i + 2)
        else
          let (e, i1) := exprPrec ts nl f true 0 (i + 1)
          let (more, i2) := items ts nl f true .rparen i1
          let (c, i3) := expect ts .rparen i2
          ([.node "TupleExpr" (.leaf i :: e ++ more ++ c)], i3)
      else
        let (e, i1) := exprPrec ts nl f true 0 (i + 1)
        let (c, i2) := expect ts .rparen i1
        ([.node "ParenExpr" (.leaf i :: e ++ c)], i2)
    | some .lbrack =>
      if ts[i + 1]? = some .rbrack then ([.node "ArrayExpr" [.leaf i, .leaf (i + 1)]], i + 2)
      else
        let (e, i1) := exprPrec ts nl f true 0 (i + 1)
        let (more, i2) := items ts nl f true .rbrack i1
        let (c, i3) := expect ts .rbrack i2
        ([.node "ArrayExpr" (.leaf i :: e ++ more ++ c)], i3)
    | some .rparen => ([.err i], i)   -- closing tokens are not consumed
    | some .rbrack => ([.err i], i)
    | none => ([.err i], i)
    | _ => ([.err i], i + 1)          -- unexpected token: record the error and skip it
end

/-- the statement loop of `parse` (a statement is an expression here); a statement that makes no progress
skips one token, like the recovery in the real loop -/
def stmts (ts : List TK) (nl : Nat → Bool) : Nat → Nat → List Tree
  | 0, _ => []
  | f + 1, i =>
    if i ≥ ts.length then []
    else
      let (e, i1) := exprPrec ts nl (2 * ts.length + 2) true 0 i
      if i1 = i then .node "Statement" (e ++ [.err i]) :: stmts ts nl f (i + 1)
      else .node "Statement" e :: stmts ts nl f i1

def parse (ts : List TK) (nl : Nat → Bool) : Tree := .node "Program" (stmts ts nl (ts.length + 1) 0)

/-- the two oracles agree wherever it can matter: in front of `(`, `[`, `.` -/
def Agree (ts : List TK) (nl nl' : Nat → Bool) : Prop := ∀ i, sensitive ts[i]? = true → nl i = nl' i

/-- printable shape -/
partial def Tree.show : Tree → String
  | .leaf i => toString i
  | .err i => s!"!{i}"
  | .node k cs => k ++ "(" ++ " ".intercalate (cs.map Tree.show) ++ ")"

end Mimium.NewlineRule
