/-!
# The session mutex and the process-wide macro-file variable (C19)

1. `with_session_globals f` = lock the one `Mutex<SessionGlobals>`, run `f`, unlock.  `std::sync::Mutex` is not
   re-entrant.  Model: a thread is `idle` between API calls or `inside` a call (holding the lock); a call whose
   closure calls the API again is a thread that is `inside` and tries to acquire (`nested`).
2. `MacroFileEnvGuard` (mirgen.rs): `new(path)` saves `env[KEY]` and overwrites it, `drop` restores the saved value.
   The variable is process-wide, the guard is per compilation.
-/
namespace Mimium.SessionLock

inductive Phase where
  | idle      -- between API calls
  | inside    -- inside `with_session_globals`, holding the mutex
  | nested    -- inside a closure that called the API again: blocked on the mutex it holds itself
  deriving DecidableEq, Repr

structure LSt where
  holder : Option Nat        -- who holds the mutex
  phase : Nat → Phase
  todo : Nat → Nat           -- API calls each thread still has to make

def set {β : Type} (f : Nat → β) (j : Nat) (v : β) : Nat → β := fun i => if i = j then v else f i

/-- the steps of the protocol when no closure re-enters the API -/
inductive Step : LSt → LSt → Prop where
  | acquire (st : LSt) (j : Nat) : st.holder = none → st.phase j = .idle → 0 < st.todo j →
      Step st { st with holder := some j, phase := set st.phase j .inside }
  | release (st : LSt) (j : Nat) : st.holder = some j → st.phase j = .inside →
      Step st { holder := none, phase := set st.phase j .idle, todo := set st.todo j (st.todo j - 1) }

/-- lock discipline: the holder, and only the holder, is inside -/
def Good (st : LSt) : Prop :=
  (∀ j, st.holder = some j → st.phase j = .inside) ∧ (∀ j, st.phase j = .inside → st.holder = some j) ∧
  (∀ j, st.phase j ≠ .nested)

inductive Reach (s0 : LSt) : LSt → Prop where
  | refl : Reach s0 s0
  | step {a b : LSt} : Reach s0 a → Step a b → Reach s0 b

def start (todo : Nat → Nat) : LSt := ⟨none, fun _ => .idle, todo⟩

/-- a thread can move -/
def Enabled (st : LSt) (j : Nat) : Prop :=
  (st.holder = none ∧ st.phase j = .idle ∧ 0 < st.todo j) ∨ (st.holder = some j ∧ st.phase j = .inside)

/-! ## MacroFileEnvGuard -/

inductive GOp where
  | enter (path : Nat)   -- `MacroFileEnvGuard::new(Some(path))`
  | read                 -- a macro/plugin reads `MIMIUM_CURRENT_MACRO_FILE`
  | exit                 -- `drop`
  deriving DecidableEq, Repr

structure GSt where
  env : Option Nat                  -- the process-wide variable
  saved : List (Nat × Option Nat)   -- per thread: the `previous` field of its live guard
  reads : List (Nat × Option Nat)   -- (thread, value it read)
  deriving DecidableEq, Repr

def gstep (st : GSt) (x : Nat × GOp) : GSt :=
  match x.2 with
  | .enter p => { st with env := some p, saved := (x.1, st.env) :: st.saved }
  | .read => { st with reads := st.reads ++ [(x.1, st.env)] }
  | .exit =>
    match st.saved.find? (·.1 = x.1) with
    | some (_, prev) => { st with env := prev, saved := st.saved.filter (·.1 ≠ x.1) }
    | none => st

def grun (l : List (Nat × GOp)) : GSt := l.foldl gstep ⟨none, [], []⟩

/-! ## `Symbol::as_str`: slices into ONE growing buffer (`StringBackend`) with the lifetime erased -/

structure Buf where
  gen : Nat      -- which allocation backs the buffer (a reallocation is a new generation)
  len : Nat
  cap : Nat
  deriving DecidableEq, Repr

/-- `get_or_intern` of a new string of `n` bytes: append; reallocate when the capacity is exceeded -/
def Buf.push (b : Buf) (n : Nat) : Buf :=
  if b.len + n ≤ b.cap then { b with len := b.len + n } else { gen := b.gen + 1, len := b.len + n, cap := 2 * (b.len + n) }

/-- what `as_str` hands out: a pointer into the allocation that backed the buffer at that moment -/
structure Slice where
  gen : Nat
  off : Nat
  n : Nat
  deriving DecidableEq, Repr

def Buf.asStr (b : Buf) (off n : Nat) : Slice := ⟨b.gen, off, n⟩

/-- the slice still points into live memory -/
def Slice.valid (s : Slice) (b : Buf) : Prop := s.gen = b.gen ∧ s.off + s.n ≤ b.len

instance (s : Slice) (b : Buf) : Decidable (s.valid b) := by unfold Slice.valid; infer_instance

/-! ## the same with `BucketBackend` (the backend /repo uses since the F8 repair): strings are appended to a head bucket of
FIXED capacity; when the next string does not fit, the head is retired — kept alive, never moved, never written again —
and a fresh head is allocated.  A slice is a (bucket, offset, length) triple. -/

structure Buckets where
  full : List Nat      -- lengths of the retired buckets, in order of retirement (bucket id = index)
  headLen : Nat
  headCap : Nat
  deriving DecidableEq, Repr

/-- `get_or_intern` of a new string of `n` bytes (`BucketBackend::alloc`) -/
def Buckets.push (b : Buckets) (n : Nat) : Buckets :=
  if b.headLen + n ≤ b.headCap then { b with headLen := b.headLen + n }
  else { full := b.full ++ [b.headLen], headLen := n, headCap := max b.headCap n + 1 }

structure BSlice where
  bucket : Nat
  off : Nat
  n : Nat
  deriving DecidableEq, Repr

/-- length of the live text in bucket `i` (retired buckets first, then the head) -/
def Buckets.lenOf (b : Buckets) (i : Nat) : Option Nat :=
  if i < b.full.length then b.full[i]? else if i = b.full.length then some b.headLen else none

/-- the slice points at `n` bytes of text that bucket `bucket` still holds -/
def BSlice.valid (s : BSlice) (b : Buckets) : Prop := ∃ l, b.lenOf s.bucket = some l ∧ s.off + s.n ≤ l

/-- what `as_str` hands out for the string interned last (`n` bytes at the end of the head) -/
def Buckets.asStrLast (b : Buckets) (n : Nat) : BSlice := ⟨b.full.length, b.headLen - n, n⟩

end Mimium.SessionLock
