import Mimium.Model.CoreIO
import Mimium.Model.CoreInfer
/-! S-expression reader for ANNOTATED core-language programs (protocol with `tools/props/c03.py`) and verdict printing.

`(aprog <prog> (binders (x ty) …) (rets (f ty) …))` or a bare `(prog …)`;  `ty ::= n | (t ty …) | (fn (ty …) ty)`. -/
namespace Mimium.Core

partial def toTy : SX → Option Ty
  | .atom "n" => some .num
  | .list (.atom "t" :: ts) => (ts.mapM toTy).map Ty.tup
  | .list [.atom "fn", .list as, r] => do some (.fn (← as.mapM toTy) (← toTy r))
  | _ => none

def toTyped : SX → Option (String × Ty)
  | .list [.atom x, t] => do some (x, ← toTy t)
  | _ => none

def toAProg : SX → Option (Prog × Option Annot)
  | .list [.atom "aprog", p, .list (.atom "binders" :: bs), .list (.atom "rets" :: rs)] => do
      some (← toProg p, some ⟨← bs.mapM toTyped, ← rs.mapM toTyped⟩)
  | p => do some (← toProg p, none)

def parseAProg (s : String) : Option (Prog × Option Annot) :=
  match parseSX (tokenize s) with
  | some (sx, []) => toAProg sx
  | _ => none

partial def showTy : Ty → String
  | .num => "n"
  | .tup ts => "(t" ++ String.join (ts.map fun t => " " ++ showTy t) ++ ")"
  | .fn as r => "(fn (" ++ " ".intercalate (as.map showTy) ++ ") " ++ showTy r ++ ")"

/-- `accept <output words> <output type> <sites-unique>` or `reject <where>` -/
def verdict (A : Annot) (P : Prog) : String :=
  match checkProg A P with
  | some (_, _, τ) => s!"accept {wordSize τ} {showTy τ} {if sitesUniqueProg P then "su" else "nsu"}"
  | none => "reject " ++ whyRejected A P

/-- verdict of inference + verified checker -/
def verdictInfer (P : Prog) (fixed : Binders := []) : String :=
  match inferAnnot P fixed with
  | .error e => "reject infer:" ++ e.replace " " "_"
  | .ok A => verdict A P

end Mimium.Core
