import Mimium.Model.FlatTree
/-!
# M2f — what mirgen publishes: the state layout of a function, computed from its body

Port of the part of `compiler/mirgen.rs` that builds `Function::state_skeleton` while a body is lowered
(`eval_expr` returns, besides the value, the `Vec<StateSkeleton>` of the cells the expression owns):

| construct                         | mirgen (`eval_expr`)                                              | here (`pubE`)                 |
|-----------------------------------|-------------------------------------------------------------------|-------------------------------|
| literal, variable, `now`, …       | `vec![]`                                                          | `[]`                          |
| `mem(a)` (`make_uniop_intrinsic`) | states of `a`, then `Mem`                                         | `a ++ [mem site]`             |
| `delay(n, a, t)` (`try_make_delay`)| `eval_args([a, t])`, then `Delay{len}`                            | `a ++ t ++ [delay site n]`    |
| unary / binary intrinsics         | `eval_args` left to right, no cell                                | `a`, `a ++ b`                 |
| `f(args)` (`emit_fncall`)         | `app_state ++ arg_states ++ [callee.state_skeleton]` if stateful  | `args ++ [child site …]`      |
| closure call (`CallIndirect`)     | `app_state ++ arg_states`, no cell (the closure owns its storage) | `f ++ args`                   |
| lambda                            | body states go into the NEW function's skeleton; `vec![]` outside | `[]`                          |
| tuple (`alloc_aggregates`)        | items left to right                                               | concatenation                 |
| projection                        | states of the tuple                                               | `a`                           |
| `let` / destructuring / `x = e; r`| `[states, s].concat()`                                            | `a ++ body`                   |
| `if c a b`                        | `state_c ++ (the arm with the LARGER total size; `then` on a tie)`| same (`sizeCells`)            |
| `self` (`Expr::Feed`, after 6563802)| `[Feed(ty)] ++ states` for the whole function body               | `LNode.self := d.selfShape`   |

Cells are LABELLED (`FlatTree.LCell`: textual site + kind; a child carries the callee's `self` shape and cells) because
the reference semantics keys its state tree by site.  Two differences to the bare skeleton, both erased by
`publishedSk`: labels (`LNode.sk`), and a call of a function WITHOUT state: the reference semantics still gives the call
site an (empty) child node, so `pubE` lists a zero-sized child there, whereas `emit_fncall` publishes nothing when
`!is_stateful()` (= the callee's skeleton has no children) — `pruneSk` removes exactly those (`.fn []`, bottom up).
`publishedSk` is what the correspondence stage compares with `get_dsp_state_skeleton` of the real compiler.

The callee's skeleton is read from the function table at the call (`self.program.functions[idx].state_skeleton`): here an
oracle `tbl`, built by `table P n` = layouts of the named functions for call depth ≤ `n` (`none` beyond it, and for unknown
names: a program whose call graph is cyclic — recursion, for which mirgen reads the not yet written skeleton `FnCall([])` —
has no layout in this model at any depth).  State inside `if` arms is modelled as the code does it (the larger arm is
published, the other arm gets no cells: finding F3); `armsOkE` is the class predicate "no cell is published for any `if`
arm" under which the theorems of `Props/C05.lean` hold.
All definitions are executable, total, structurally recursive (they reduce under `decide`).
-/
namespace Mimium.Publish
open Mimium.Core Mimium.StateTree Mimium.FlatTree

/-- the layouts already published for named functions (mirgen: `program.functions[idx].state_skeleton`) -/
abbrev Table := String → Option LNode

mutual
/-- the labelled cells mirgen publishes for an expression, in the order it appends them -/
def pubE (tbl : Table) : Expr → Option (List LCell)
  | .lit _ => some []
  | .var _ => some []
  | .now => some []
  | .samplerate => some []
  | .self => some []
  | .lam _ _ => some []
  | .un _ a => pubE tbl a
  | .proj a _ => pubE tbl a
  | .bin _ a b =>
    match pubE tbl a, pubE tbl b with
    | some s1, some s2 => some (s1 ++ s2)
    | _, _ => none
  | .letE _ a b =>
    match pubE tbl a, pubE tbl b with
    | some s1, some s2 => some (s1 ++ s2)
    | _, _ => none
  | .letTup _ a b =>
    match pubE tbl a, pubE tbl b with
    | some s1, some s2 => some (s1 ++ s2)
    | _, _ => none
  | .assign _ a b =>
    match pubE tbl a, pubE tbl b with
    | some s1, some s2 => some (s1 ++ s2)
    | _, _ => none
  | .ite c a b =>
    match pubE tbl c, pubE tbl a, pubE tbl b with
    | some sc, some sa, some sb => some (sc ++ (sa ++ sb))
    | _, _, _ => none
  | .tup es => pubL tbl es
  | .app f args =>
    match pubE tbl f, pubL tbl args with
    | some s0, some s => some (s0 ++ s)
    | _, _ => none
  | .mem a site =>
    match pubE tbl a with
    | some s => some (s ++ [.mem site])
    | none => none
  | .delay n a t site =>
    match pubE tbl a, pubE tbl t with
    | some s1, some s2 => some (s1 ++ s2 ++ [.delay site n])
    | _, _ => none
  | .call f args site =>
    match pubL tbl args, tbl f with
    | some s, some lay => some (s ++ [.child site lay.self lay.cells])
    | _, _ => none
/-- arguments / tuple components, left to right (`eval_args`, `alloc_aggregates`) -/
def pubL (tbl : Table) : List Expr → Option (List LCell)
  | [] => some []
  | e :: es =>
    match pubE tbl e, pubL tbl es with
    | some s1, some s2 => some (s1 ++ s2)
    | _, _ => none
end

/-- the function table for call depth ≤ `n` -/
def table (P : Prog) : Nat → Table
  | 0, _ => none
  | n + 1, f =>
    match findFn P.fns f with
    | none => none
    | some d =>
      match pubE (table P n) d.body with
      | some cells => some ⟨d.selfShape, cells⟩
      | none => none

/-- layout of an expression evaluated inside program `P`, callee depth ≤ `n` -/
def publishEN (n : Nat) (P : Prog) (e : Expr) : Option (List LCell) := pubE (table P n) e

/-- layout of a function: the `Feed` cell (shape of `self`) first, then the cells of the body -/
def publishFnN (n : Nat) (P : Prog) (d : FnDecl) : Option LNode :=
  match publishEN n P d.body with
  | some cells => some ⟨d.selfShape, cells⟩
  | none => none

/-- a call chain without repetition is at most as long as the list of functions -/
def publishE (P : Prog) (e : Expr) : Option (List LCell) := publishEN P.fns.length P e
def publishFn (P : Prog) (d : FnDecl) : Option LNode := publishFnN P.fns.length P d

/-! ### the bare skeleton the compiler publishes -/

mutual
/-- drop the children that are functions without state (`emit_fncall`: `if is_stateful { vec![child_skeleton] } else { vec![] }`,
`is_stateful` = the callee's skeleton has at least one child), bottom up -/
def pruneSk : Sk → Sk
  | .fn cs => .fn (pruneL cs)
  | .delay n => .delay n
  | .mem s => .mem s
  | .feed s => .feed s
def pruneL : List Sk → List Sk
  | [] => []
  | c :: cs =>
    match pruneSk c with
    | .fn [] => pruneL cs
    | c' => c' :: pruneL cs
end

/-- the skeleton `Function::state_skeleton` holds for a function with labelled layout `lay` -/
def publishedSk (lay : LNode) : Sk := pruneSk lay.sk

/-! ### class predicates -/

/-- nothing is published -/
def isNil : Option (List LCell) → Bool
  | some [] => true
  | _ => false

mutual
/-- no cell is published for an `if` arm, here and in every callee (`ok f` = the same for the body of `f`): the class
outside finding F3.  Lambda bodies are not inspected (their state lives in the closure's own storage). -/
def armsOkE (tbl : Table) (ok : String → Bool) : Expr → Bool
  | .lit _ => true
  | .var _ => true
  | .now => true
  | .samplerate => true
  | .self => true
  | .lam _ _ => true
  | .un _ a => armsOkE tbl ok a
  | .proj a _ => armsOkE tbl ok a
  | .bin _ a b => armsOkE tbl ok a && armsOkE tbl ok b
  | .letE _ a b => armsOkE tbl ok a && armsOkE tbl ok b
  | .letTup _ a b => armsOkE tbl ok a && armsOkE tbl ok b
  | .assign _ a b => armsOkE tbl ok a && armsOkE tbl ok b
  | .ite c a b =>
    armsOkE tbl ok c && armsOkE tbl ok a && armsOkE tbl ok b &&
    isNil (pubE tbl a) && isNil (pubE tbl b)
  | .tup es => armsOkL tbl ok es
  | .app f args => armsOkE tbl ok f && armsOkL tbl ok args
  | .mem a _ => armsOkE tbl ok a
  | .delay _ a t _ => armsOkE tbl ok a && armsOkE tbl ok t
  | .call f args _ => armsOkL tbl ok args && ok f
def armsOkL (tbl : Table) (ok : String → Bool) : List Expr → Bool
  | [] => true
  | e :: es => armsOkE tbl ok e && armsOkL tbl ok es
end

mutual
/-- a cell that owns no word and causes no access: the child of a call of a function without `self` whose own cells are
of that kind (what `emit_fncall` does not publish) -/
def statelessCell : LCell → Bool
  | .mem _ => false
  | .delay _ _ => false
  | .child _ self cells => self.isNone && statelessCells cells
def statelessCells : List LCell → Bool
  | [] => true
  | c :: cs => statelessCell c && statelessCells cs
end

/-- only such cells are published -/
def isStateless : Option (List LCell) → Bool
  | some s => statelessCells s
  | none => false

mutual
/-- the wider class: only calls of functions without state are published for an `if` arm, here and in every callee
(`ok f` = the same for the body of `f`); what the generator's `avoid_f3` profiles produce -/
def armsZE (tbl : Table) (ok : String → Bool) : Expr → Bool
  | .lit _ => true
  | .var _ => true
  | .now => true
  | .samplerate => true
  | .self => true
  | .lam _ _ => true
  | .un _ a => armsZE tbl ok a
  | .proj a _ => armsZE tbl ok a
  | .bin _ a b => armsZE tbl ok a && armsZE tbl ok b
  | .letE _ a b => armsZE tbl ok a && armsZE tbl ok b
  | .letTup _ a b => armsZE tbl ok a && armsZE tbl ok b
  | .assign _ a b => armsZE tbl ok a && armsZE tbl ok b
  | .ite c a b =>
    armsZE tbl ok c && armsZE tbl ok a && isStateless (pubE tbl a) && isStateless (pubE tbl b)
  | .tup es => armsZL tbl ok es
  | .app f args => armsZE tbl ok f && armsZL tbl ok args
  | .mem a _ => armsZE tbl ok a
  | .delay _ a t _ => armsZE tbl ok a && armsZE tbl ok t
  | .call f args _ => armsZL tbl ok args && ok f
def armsZL (tbl : Table) (ok : String → Bool) : List Expr → Bool
  | [] => true
  | e :: es => armsZE tbl ok e && armsZL tbl ok es
end

/-- `armsZE` of the bodies of the named functions, call depth ≤ `n` -/
def okTableZ (P : Prog) : Nat → String → Bool
  | 0, _ => false
  | n + 1, f =>
    match findFn P.fns f with
    | none => false
    | some d => armsZE (table P n) (okTableZ P n) d.body

/-- the wider class of `C05_published_instance_is_flat_call_up_to_stateless`: no mem, delay or call of a function with
state inside an `if` arm, in `e` and in every function it (transitively) calls; calls of functions without state are allowed -/
def noStatefulInArmsN (n : Nat) (P : Prog) (e : Expr) : Bool := armsZE (table P n) (okTableZ P n) e
def noStatefulInArms (P : Prog) (e : Expr) : Bool := noStatefulInArmsN P.fns.length P e

/-- `armsOkE` of the bodies of the named functions, call depth ≤ `n` -/
def okTable (P : Prog) : Nat → String → Bool
  | 0, _ => false
  | n + 1, f =>
    match findFn P.fns f with
    | none => false
    | some d => armsOkE (table P n) (okTable P n) d.body

/-- the class of the theorems: neither `e` nor any function it (transitively) calls has a stateful construct or a
named call inside an `if` arm -/
def noStateInArmsN (n : Nat) (P : Prog) (e : Expr) : Bool := armsOkE (table P n) (okTable P n) e
def noStateInArms (P : Prog) (e : Expr) : Bool := noStateInArmsN P.fns.length P e

mutual
/-- (site, ring length or 0) of every stateful construct of an expression outside lambda bodies, in evaluation order -/
def siteLens : Expr → List (Nat × Nat)
  | .lit _ => []
  | .var _ => []
  | .now => []
  | .samplerate => []
  | .self => []
  | .lam _ _ => []
  | .un _ a => siteLens a
  | .proj a _ => siteLens a
  | .bin _ a b => siteLens a ++ siteLens b
  | .letE _ a b => siteLens a ++ siteLens b
  | .letTup _ a b => siteLens a ++ siteLens b
  | .assign _ a b => siteLens a ++ siteLens b
  | .ite c a b => siteLens c ++ (siteLens a ++ siteLens b)
  | .tup es => siteLensL es
  | .app f args => siteLens f ++ siteLensL args
  | .mem a site => siteLens a ++ [(site, 0)]
  | .delay n a t site => siteLens a ++ siteLens t ++ [(site, n)]
  | .call _ args site => siteLensL args ++ [(site, 0)]
def siteLensL : List Expr → List (Nat × Nat)
  | [] => []
  | e :: es => siteLens e ++ siteLensL es
end

/-- the stateful sites of one function body are pairwise distinct (a textual site owns one cell) and every ring
length fits a machine word (it is a `u64` in the compiler) -/
def SitesOk (e : Expr) : Prop := ((siteLens e).map (·.1)).Nodup ∧ ∀ p ∈ siteLens e, p.2 < 2 ^ 64

/-- `SitesOk` for every named function of the program -/
def SitesUnique (P : Prog) : Prop := ∀ d ∈ P.fns, SitesOk d.body

/-! ### measure for the evidence -/

mutual
def countDelays : List LCell → Nat
  | [] => 0
  | c :: cs => countDelay c + countDelays cs
def countDelay : LCell → Nat
  | .mem _ => 0
  | .delay _ _ => 1
  | .child _ _ cells => countDelays cells
end

end Mimium.Publish
