import Mimium.Gen.Consts
/-!
# M1 — state-tree: layouts, diff, patches

Hand port of `crates/lib/mimium-lang/state-tree/src/{tree,tree_diff,patch,lib}.rs`.
Addresses are *node relative* inside the recursion (shifted at the parent); the Rust code
carries root paths and calls `path_to_address` — the correspondence check compares the
resulting patch sets.  `HashSet<CopyFromPatch>` is modelled as a duplicate-free list.
Scores are `f64` patch counts in Rust and `Nat` here (exact below 2^53).
This file imports only generated constants so that it can be linked into the driver executable.
-/

namespace Mimium.StateTree

/-- `StateTreeSkeleton<T>` with `T` already reduced to its `word_size`. -/
inductive Sk where
  | delay (len : Nat)
  | mem (sz : Nat)
  | feed (sz : Nat)
  | fn (cs : List Sk)
deriving Repr, Inhabited

structure Patch where
  src : Nat
  dst : Nat
  size : Nat
deriving Repr, DecidableEq, Inhabited

/-- `DELAY_ADDITIONAL_OFFSET` (re-extracted from tree.rs into `Gen/Consts.lean` and checked equal). -/
def delayExtra : Nat := Gen.delayAdditionalOffset

mutual
/-- `StateTreeSkeleton::total_size` -/
def Sk.size : Sk → Nat
  | .delay n => delayExtra + n
  | .mem s => s
  | .feed s => s
  | .fn cs => sizeL cs
def sizeL : List Sk → Nat
  | [] => 0
  | c :: cs => c.size + sizeL cs
end

mutual
/-- `nodes_match` (and, being the same relation, `PartialEq for StateTreeSkeleton`). -/
def Sk.matches : Sk → Sk → Bool
  | .delay a, .delay b => a == b
  | .mem a, .mem b => a == b
  | .feed a, .feed b => a == b
  | .fn a, .fn b => matchesL a b
  | _, _ => false
def matchesL : List Sk → List Sk → Bool
  | [], [] => true
  | a :: as, b :: bs => a.matches b && matchesL as bs
  | _, _ => false
end

/-- offset of child `i` inside a `FnCall` node: `children.iter().take(i).map(total_size).sum()` -/
def offsetOf (cs : List Sk) (i : Nat) : Nat := sizeL (cs.take i)

/-- `path_to_address` -/
def pathToAddress : Sk → List Nat → Option (Nat × Nat)
  | s, [] => some (0, s.size)
  | .fn cs, i :: rest =>
    match cs[i]? with
    | none => none
    | some c =>
      match pathToAddress c rest with
      | none => none
      | some (a, sz) => some (offsetOf cs i + a, sz)
  | _, _ :: _ => none

inductive Diff where
  | common (o n : Nat)
  | delete (o : Nat)
  | insert (n : Nat)
deriving Repr, DecidableEq

/-! ### `lcs_by_score` -/

/-- one row of the DP table from the previous row. `score j` is the score of (old[i-1], new[j]). -/
def dpRowGo (score : Nat → Nat) : Nat → List Nat → Nat → Nat → List Nat → List Nat
  | _, [], _, _, acc => acc.reverse
  | j, up :: rest, diag, left, acc =>
    let s := score j
    let v := if s > 0 then max (diag + s) (max up left) else max up left
    dpRowGo score (j+1) rest up v (v :: acc)

def dpRow (score : Nat → Nat) (prev : List Nat) : List Nat :=
  match prev with
  | [] => []
  | d0 :: rest => dpRowGo score 0 rest d0 0 [0]

def dpBuild (score : Nat → Nat → Nat) : Nat → Nat → List Nat → List (List Nat) → List (List Nat)
  | _, 0, _, acc => acc.reverse
  | i, k+1, prev, acc =>
    let r := dpRow (score i) prev
    dpBuild score (i+1) k r (r :: acc)

/-- `dp[0..=n][0..=m]` -/
def dpTable (n m : Nat) (score : Nat → Nat → Nat) : List (List Nat) :=
  let row0 := List.replicate (m+1) 0
  dpBuild score 0 n row0 [row0]

def dpGet (t : List (List Nat)) (i j : Nat) : Nat := (t.getD i []).getD j 0

/-- the backtracking `while i > 0 || j > 0` loop, literally; fuel `i + j` always suffices. -/
def backtrack (t : List (List Nat)) (score : Nat → Nat → Nat) : Nat → Nat → Nat → List Diff → List Diff
  | 0, _, _, acc => acc
  | fuel+1, i, j, acc =>
    if i > 0 ∧ j > 0 then
      if score (i-1) (j-1) > 0 then
        backtrack t score fuel (i-1) (j-1) (Diff.common (i-1) (j-1) :: acc)
      else if dpGet t i (j-1) ≥ dpGet t (i-1) j then
        backtrack t score fuel i (j-1) (Diff.insert (j-1) :: acc)
      else
        backtrack t score fuel (i-1) j (Diff.delete (i-1) :: acc)
    else if j > 0 then backtrack t score fuel i (j-1) (Diff.insert (j-1) :: acc)
    else if i > 0 then backtrack t score fuel (i-1) j (Diff.delete (i-1) :: acc)
    else acc

/-- `lcs_by_score(old, new, score_fn)` with `n = old.len()`, `m = new.len()`;
results are accumulated by consing, which is the Rust `push … ; reverse()`. -/
def lcsByScore (n m : Nat) (score : Nat → Nat → Nat) : List Diff :=
  backtrack (dpTable n m score) score (n+m) n m []

def commons : List Diff → List (Nat × Nat)
  | [] => []
  | .common o n :: ds => (o, n) :: commons ds
  | _ :: ds => commons ds

/-! ### `build_patches_recursive` -/

def Patch.shift (a b : Nat) (p : Patch) : Patch := ⟨p.src + a, p.dst + b, p.size⟩

/-- keep first occurrences (a `HashSet` has no duplicates) -/
def dedup : List Patch → List Patch
  | [] => []
  | p :: ps => p :: (dedup ps).filter (fun q => q != p)

def tblGet (tbl : List (List (List Patch))) (i j : Nat) : List Patch := (tbl.getD i []).getD j []

/-- union of the (shifted) child patch sets of the `Common` pairs -/
def collect (ocs ncs : List Sk) (tbl : List (List (List Patch))) : List (Nat × Nat) → List Patch
  | [] => []
  | (i, j) :: rest =>
    (tblGet tbl i j).map (Patch.shift (offsetOf ocs i) (offsetOf ncs j)) ++ collect ocs ncs tbl rest

mutual
/-- patches between two nodes, addresses relative to the nodes' own start -/
def diff : Sk → Sk → List Patch
  | .fn ocs, n =>
    if (Sk.fn ocs).matches n then [⟨0, 0, sizeL ocs⟩]
    else match n with
      | .fn ncs =>
        let tbl := diffTbl ocs ncs
        let res := lcsByScore ocs.length ncs.length (fun i j => (tblGet tbl i j).length)
        dedup (collect ocs ncs tbl (commons res))
      | _ => []
  | o, n => if o.matches n then [⟨0, 0, o.size⟩] else []
/-- `child_patches_map`: all old children × all new children -/
def diffTbl : List Sk → List Sk → List (List (List Patch))
  | [], _ => []
  | o :: os, ns => ns.map (fun n => diff o n) :: diffTbl os ns
end

/-- `take_diff` -/
def takeDiff (o n : Sk) : List Patch := diff o n

structure Plan where
  totalSize : Nat
  patches : List Patch
deriving Repr

/-- `build_state_storage_patch_plan` -/
def buildPlan (o n : Sk) : Option Plan :=
  if o.matches n then none else some ⟨n.size, takeDiff o n⟩

/-! ### `apply_patches` -/

def Patch.inBounds (oldLen newLen : Nat) (p : Patch) : Bool :=
  p.src + p.size ≤ oldLen && p.dst + p.size ≤ newLen

/-- one `copy_from_slice` (only meaningful when `p.inBounds`; the Rust slice indexing panics otherwise) -/
def applyPatch (old : List Nat) (new : List Nat) (p : Patch) : List Nat :=
  (List.range new.length).map fun k =>
    if p.dst ≤ k ∧ k < p.dst + p.size then old.getD (p.src + (k - p.dst)) 0 else new.getD k 0

def applyPatches (old : List Nat) (new : List Nat) (ps : List Patch) : List Nat :=
  ps.foldl (applyPatch old) new

/-- `apply_state_storage_patch_plan`; `none` = the Rust code panics (slice out of range). -/
def applyPlan? (old : List Nat) (plan : Plan) : Option (List Nat) :=
  if plan.patches.all (Patch.inBounds old.length plan.totalSize) then
    some (applyPatches old (List.replicate plan.totalSize 0) plan.patches)
  else none

end Mimium.StateTree
