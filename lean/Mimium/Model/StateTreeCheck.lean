import Mimium.Model.StateTree
import Mimium.Model.StateTreeIO
/-!
Executable judge for C08 applied to the *implementation's* plans (used when searching for a failing input,
and on every correspondence case so that an implementation/property failure is reported separately from a
model/implementation disagreement).  Soundness of the Bool functions w.r.t. the declarative statements is in
`Proofs/StateTreeCheck.lean`.
-/
namespace Mimium.StateTree

mutual
/-- all subtrees (with multiplicity) whose first word is at relative address `a` -/
def subtreesAt : Sk → Nat → List Sk
  | .fn cs, a => (if a == 0 then [Sk.fn cs] else []) ++ subtreesAtL cs a
  | s, a => if a == 0 then [s] else []
def subtreesAtL : List Sk → Nat → List Sk
  | [], _ => []
  | c :: cs, a =>
    (if a ≤ c.size then subtreesAt c a else []) ++ (if c.size ≤ a then subtreesAtL cs (a - c.size) else [])
end

def shapeOk (o n : Sk) (p : Patch) : Bool :=
  (subtreesAt o p.src).any fun so => so.size == p.size &&
    (subtreesAt n p.dst).any fun sn => so.matches sn

def boundsOk (o n : Sk) (p : Patch) : Bool := p.src + p.size ≤ o.size && p.dst + p.size ≤ n.size

def dstDisjoint (p q : Patch) : Bool := p.dst + p.size ≤ q.dst || q.dst + q.size ≤ p.dst

/-- for two patches that both copy something: same relative order in source and destination -/
def orderOk (p q : Patch) : Bool :=
  p.size == 0 || q.size == 0 || (decide (p.src < q.src) == decide (p.dst < q.dst))

def pairwiseB (r : Patch → Patch → Bool) : List Patch → Bool
  | [] => true
  | p :: ps => ps.all (r p) && pairwiseB r ps

mutual
/-- `embeds a b`: `b` is `a` with whole subtrees added (at any depth) -/
def embeds : Sk → Sk → Bool
  | a, .fn bcs =>
    a.matches (.fn bcs) || (match a with
      | .fn acs => embedsL acs bcs
      | _ => false)
  | a, b => a.matches b
/-- children `as` map, in order, into a subsequence of `bs`, each embedding into its image -/
def embedsL : List Sk → List Sk → Bool
  | [], _ => true
  | _ :: _, [] => false
  | a :: as, b :: bs => (embeds a b && embedsL as bs) || embedsL (a :: as) bs
end

def carried (ps : List Patch) : Nat := (ps.map (·.size)).foldl (· + ·) 0

/-- the well-formedness part of C08 -/
def wellFormedB (o n : Sk) (ps : List Patch) : Bool :=
  ps.all (boundsOk o n) && ps.all (shapeOk o n) && pairwiseB dstDisjoint ps && pairwiseB orderOk ps

/-- the survivor part of C08 on the two decidable edit classes "only additions" / "only removals" -/
def survivorsB (o n : Sk) (ps : List Patch) : Bool :=
  (!(embeds o n) || carried ps == o.size) && (!(embeds n o) || carried ps == n.size)

/-- verdict on one implementation output line: `ip` = patches field, `ia` = applied field -/
def judgeImpl (o n : Sk) (ip ia : String) : String :=
  if ip == "PANIC" || ia == "PANIC" then "bad:panic" else
  if ip == "-" then
    if o.matches n then (if survivorsB o n [⟨0, 0, o.size⟩] then "ok" else "bad:survivors")
    else "bad:none-plan-for-different-layouts"
  else match parsePatches ip with
  | none => "bad:unparsable"
  | some ps =>
    if !(ps.all (boundsOk o n)) then "bad:bounds" else
    if !(ps.all (shapeOk o n)) then "bad:shape" else
    if !(pairwiseB dstDisjoint ps) then "bad:dst-overlap" else
    if !(pairwiseB orderOk ps) then "bad:order" else
    let old := (List.range o.size).map (· + 1)
    let expect := showWords (applyPatches old (List.replicate n.size 0) ps)
    if expect != ia then "bad:apply" else
    if !(survivorsB o n ps) then "bad:survivors" else "ok"

end Mimium.StateTree
