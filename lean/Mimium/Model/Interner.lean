/-!
# M10 — the process-global interner / arenas as a state machine, and interleavings of threads over it

Port of the *protocol* of `mimium-lang/src/interner.rs`:

* `SessionGlobals.symbol_interner : StringInterner<StringBackend<usize>>` — `get_or_intern s` returns the index of `s`
  if it is present, else appends `s` and returns the new index (`Symbol(usize)`), `resolve id` reads the entry.
  Nothing is ever removed.  Model: `syms : List α`, id = position.
* `expr_storage`/`type_storage : SlotMap<Key, _>` — only `insert` and `get` are ever called (no `remove`), so the
  key index is the insertion position.  Model: `arena : List Node`, id = position.  A node carries an opaque payload
  and the ids of its children (`Expr`/`Type` nodes embed `ExprNodeId`/`TypeNodeId`s).
* `with_session_globals f` takes the one mutex around `f`: every API call (`to_symbol`, `as_str`, `into_id`,
  `to_expr`, `to_type`) is ONE atomic step on the shared state.  A thread is a list of such ops; ops name earlier
  results of the same thread by *handle* (position in the thread's own list of obtained ids) because the only way
  the compiler gets hold of an id is as the result of one of its own earlier calls.

Everything is polymorphic in the type `α` of interned strings (the driver instantiates `String`).
-/
namespace Mimium.Interner

variable {α : Type} [DecidableEq α]

/-! ## the two stores -/

/-- `StringInterner::get_or_intern` -/
def intern (t : List α) (s : α) : Nat × List α :=
  if s ∈ t then (t.idxOf s, t) else (t.length, t ++ [s])

/-- `StringInterner::resolve` -/
def resolve (t : List α) (id : Nat) : Option α := t[id]?

/-- arena node: payload and the (global) ids of its children -/
structure Node where
  payload : Nat
  kids : List Nat
  deriving DecidableEq, Repr

/-- `SlotMap::insert` (no removals anywhere: index = insertion position) -/
def alloc (a : List Node) (v : Node) : Nat × List Node := (a.length, a ++ [v])

/-- `SlotMap::get` -/
def get (a : List Node) (id : Nat) : Option Node := a[id]?

/-! ## threads -/

/-- one atomic API call.  `k`s are handles: positions in the calling thread's own list of obtained ids. -/
inductive Op (α : Type) where
  | intern (s : α)                              -- `s.to_symbol()`
  | resolve (k : Nat)                           -- `sym.as_str()` on the k-th symbol this thread obtained
  | alloc (payload : Nat) (kids : List Nat)     -- `Expr/Type::into_id()`; children = handles of earlier allocs
  | get (k : Nat)                               -- `id.to_expr()/to_type()` on the k-th node this thread allocated
  deriving DecidableEq, Repr

/-- what a thread has seen so far -/
structure Th (α : Type) where
  hs : List Nat := []                -- symbol ids returned by its `intern`s, in order
  as : List Nat := []                -- arena ids returned by its `alloc`s, in order
  strs : List (Option α) := []       -- results of its `resolve`s
  nodes : List (Option Node) := []   -- results of its `get`s

/-- shared state + every thread's local view -/
structure St (α : Type) where
  syms : List α
  arena : List Node
  ths : Nat → Th α

def upd (f : Nat → Th α) (j : Nat) (v : Th α) : Nat → Th α := fun i => if i = j then v else f i

/-- thread `j` performs `op` atomically -/
def step (st : St α) (x : Nat × Op α) : St α :=
  let th := st.ths x.1
  match x.2 with
  | .intern s =>
    let r := intern st.syms s
    { st with syms := r.2, ths := upd st.ths x.1 { th with hs := th.hs ++ [r.1] } }
  | .resolve k =>
    { st with ths := upd st.ths x.1 { th with strs := th.strs ++ [th.hs[k]?.bind (resolve st.syms)] } }
  | .alloc p ks =>
    let r := alloc st.arena ⟨p, ks.filterMap (th.as[·]?)⟩
    { st with arena := r.2, ths := upd st.ths x.1 { th with as := th.as ++ [r.1] } }
  | .get k =>
    { st with ths := upd st.ths x.1 { th with nodes := th.nodes ++ [th.as[k]?.bind (get st.arena)] } }

/-- a schedule is a list of (thread, op): its projection on thread `i` is thread `i`'s program, and every
interleaving of given programs is such a list -/
def run (st : St α) (l : List (Nat × Op α)) : St α := l.foldl step st

/-- thread `i`'s program inside a schedule -/
def proj (i : Nat) (l : List (Nat × Op α)) : List (Op α) := (l.filter (·.1 = i)).map (·.2)

/-- the schedule in which thread `i` runs `p` alone -/
def solo (i : Nat) (p : List (Op α)) : List (Nat × Op α) := p.map (i, ·)

/-- start state: some history already in the tables, no thread has seen anything -/
def init (syms : List α) (arena : List Node) : St α := ⟨syms, arena, fun _ => {}⟩

/-! ## what a program means, independent of tables and schedules -/

/-- strings interned by a program, in order -/
def interned : List (Op α) → List α
  | [] => []
  | .intern s :: r => s :: interned r
  | _ :: r => interned r

/-- number of allocs of a program -/
def allocs : List (Op α) → Nat
  | [] => 0
  | .alloc _ _ :: r => allocs r + 1
  | _ :: r => allocs r

/-- results of the `resolve`s of `p` given the strings `pre` interned before `p` started -/
def specStrs (pre : List α) : List (Op α) → List (Option α)
  | [] => []
  | .intern s :: r => specStrs (pre ++ [s]) r
  | .resolve k :: r => pre[k]? :: specStrs pre r
  | _ :: r => specStrs pre r

/-- nodes in handle form (children = handles, only those in range when the node was built) -/
def specLocal (n : Nat) : List (Op α) → List Node
  | [] => []
  | .alloc p ks :: r => ⟨p, ks.filter (· < n)⟩ :: specLocal (n + 1) r
  | _ :: r => specLocal n r

/-- results of the `get`s in handle form -/
def specGets (pre : List Node) : List (Op α) → List (Option Node)
  | [] => []
  | .alloc p ks :: r => specGets (pre ++ [⟨p, ks.filter (· < pre.length)⟩]) r
  | .get k :: r => pre[k]? :: specGets pre r
  | _ :: r => specGets pre r

/-- turn a handle-form node into the global node a thread with arena handles `as` sees -/
def globalise (as : List Nat) (v : Node) : Node := ⟨v.payload, v.kids.filterMap (as[·]?)⟩

/-- rename the ids inside an observed node -/
def renameNode (ρ : Nat → Nat) (v : Node) : Node := ⟨v.payload, v.kids.map ρ⟩

end Mimium.Interner
