import Mimium.Model.OccursSeq
/-!
# `typing/unification.rs` — the WHOLE of `unify_types` / `unify_types_args`, arm by arm (C03, C04)

Literal executable port of the two unification functions of the type checker, every structural arm included, on top of the store
model of `Model/Occurs.lean`: the store is the association list `v ↦ parent` of the type-variable cells; the occurs check that
unification runs IS `Occurs.occ` on the image of the store under `abs` (`abs` = what `occur_check` looks at in a type: `Array`/`Ref`/
`Code`/`Boxed` are `unary`, `Tuple`/`Record`/`Union` fold their members with `any`, `Function` is `fn`, everything else — primitives,
`UserSum`, `TypeScheme`, `TypeAlias`, `Any`, `Failure`, `Unknown` — is `other`), so `Occurs.Acyclic (absS σ)` and every lemma about
`occ` / binding apply as they stand.

What is kept: the ORDER of the arms of the two `match (t1r, t2r)` tables (first match wins, guards included), which argument is the
root (`t1r`) and which the type as passed (`t1`), short-circuit evaluation of `all` / `any` / `for … return`, the fact that the
cells are mutated in place (a failed attempt keeps the bindings it made: the store is threaded through errors as well), the four
passes over the lazily evaluated `searchresults` iterator of the record arm (every pair of fields is unified again by each
`.clone()` that is consumed), `unify_vec` dropping the errors of its members, `Err(vec![])`.
What is dropped: spans and locations (`best_span`), the `level` field of the cells and `bound.lower` / `bound.upper` (written,
never read by unification; `tv1_eq == tv2_eq` is equality of the variable numbers: both cells are roots, their `parent` is `None`,
and every number has one cell), `log::trace!` (its arguments are not evaluated when the level is off).

Recursion of the Rust functions is unbounded: `go` takes fuel `f` for the nesting of unification calls and `g` for
`get_root` / `occur_check`; `none` = ran out.  `fuelG` / `fuelF` (below) are proved to suffice on every acyclic store
(`C04_unify_terminates`), and more fuel never changes an answer (`C04_unify_fuel_irrelevant`).

Tie: body hashes and arm counts of unification.rs (`Gen/Unify.lean`, `C03_unification_functions_pinned`); exact agreement with the
real functions on verdict, error kinds, parents and `substitute_type` of every variable (`tools/props/c03u.py`, `harness/src/bin/c03u.rs`,
`Drv/C03u.lean`).  Theorems: `Props/C03.lean` (`C03_unify_sound`, `C03_unify_strict_fragment`), `Props/C04.lean` (`C04_unify_*`).
-/
namespace Mimium.Unify

/-- `PType` -/
inductive PT where
  | unit | int | num | str
deriving DecidableEq, Repr, Inhabited

/-- `RecordTypeField { key, ty, has_default }` (keys: the `Symbol`s, numbered in the order of their text) -/
structure Fld (α : Type) where
  key : Nat
  dflt : Bool
  ty : α
deriving Repr, Inhabited

/-- `Type` -/
inductive Ty where
  | prim (p : PT)
  | var (v : Nat)                 -- `Intermediate(cell)`, `cell.var = v`
  | array (t : Ty)
  | ref (t : Ty)
  | code (t : Ty)
  | boxed (t : Ty)
  | tuple (ts : List Ty)
  | record (fs : List (Fld Ty))
  | fn (a r : Ty)                 -- `Function { arg, ret }`
  | union (ts : List Ty)
  | usersum (name : Nat)          -- `UserSum { name, .. }` (nominal: unification reads the name only)
  | scheme (id : Nat)             -- `TypeScheme(id)`
  | alias (name : Nat)            -- `TypeAlias(name)`
  | any
  | failure
  | unknown
deriving Repr, Inhabited

abbrev F := Fld Ty

/-- the `parent` fields of the type-variable cells -/
abbrev Store := List (Nat × Ty)

/-! ## the view `occur_check` has of a type -/

mutual
def abs : Ty → Occurs.Ty
  | .var v => .var v
  | .array t => .unary (abs t)
  | .ref t => .unary (abs t)
  | .code t => .unary (abs t)
  | .boxed t => .unary (abs t)
  | .tuple ts => absL ts
  | .union ts => absL ts
  | .record fs => absF fs
  | .fn a r => .fn (abs a) (abs r)
  | .prim _ => .other
  | .usersum _ => .other
  | .scheme _ => .other
  | .alias _ => .other
  | .any => .other
  | .failure => .other
  | .unknown => .other
/-- `vec_cls(ts)` = `ts.iter().any(cls)` -/
def absL : List Ty → Occurs.Ty
  | [] => .other
  | t :: ts => .anyOf (abs t) (absL ts)
def absF : List (Fld Ty) → Occurs.Ty
  | [] => .other
  | f :: fs => .anyOf (abs f.ty) (absF fs)
end

/-- the store as `Model/Occurs.lean` sees it -/
def absS (σ : Store) : Occurs.Store := σ.map fun e => (e.1, abs e.2)

/-- `occur_check(v, t)` — `Occurs.occ` with the `||` of the repaired tree -/
def occurs (g : Nat) (σ : Store) (v : Nat) (t : Ty) : Option Bool := Occurs.occ (absS σ) false v g (abs t)

/-- `TypeNodeId::get_root` -/
def root (σ : Store) : Nat → Ty → Option Ty
  | 0, _ => none
  | g + 1, .var v =>
    match Occurs.parent σ v with
    | some p => root σ g p
    | none => some (.var v)
  | _ + 1, t => some t

/-! ## results -/

/-- `Relation` -/
inductive Rel where
  | sub | ident | sup
deriving DecidableEq, Repr, Inhabited

/-- `Error`, kinds only -/
inductive Err where
  | mismatch          -- `TypeMismatch`
  | length            -- `LengthMismatch`
  | circular          -- `CircularType`
  | records           -- `ImcompatibleRecords`
deriving DecidableEq, Repr, Inhabited

/-- `Result<Relation, Vec<Error>>` -/
abbrev Res := Except (List Err) Rel

instance : DecidableEq Res := fun a b =>
  match a, b with
  | .ok x, .ok y => if h : x = y then isTrue (by rw [h]) else isFalse (by intro e; cases e; exact h rfl)
  | .error x, .error y => if h : x = y then isTrue (by rw [h]) else isFalse (by intro e; cases e; exact h rfl)
  | .ok _, .error _ => isFalse (by intro e; cases e)
  | .error _, .ok _ => isFalse (by intro e; cases e)

/-- one call: `none` = out of fuel, else the store it leaves (also when it fails) and its result -/
abbrev Out := Option (Store × Res)

/-- a unification function at smaller fuel -/
abbrev U := Store → Ty → Ty → Out

def isOk : Res → Bool
  | .ok _ => true
  | .error _ => false

def errsOf : Res → List Err
  | .ok _ => []
  | .error e => e

/-! ## destructors (the patterns of the two `match` tables) -/

def asVar : Ty → Option Nat | .var v => some v | _ => none
def asArray : Ty → Option Ty | .array t => some t | _ => none
def asRef : Ty → Option Ty | .ref t => some t | _ => none
def asCode : Ty → Option Ty | .code t => some t | _ => none
def asBoxed : Ty → Option Ty | .boxed t => some t | _ => none
def asTuple : Ty → Option (List Ty) | .tuple ts => some ts | _ => none
def asRecord : Ty → Option (List F) | .record fs => some fs | _ => none
def asFn : Ty → Option (Ty × Ty) | .fn a r => some (a, r) | _ => none
def asUnion : Ty → Option (List Ty) | .union ts => some ts | _ => none
def asPrim : Ty → Option PT | .prim p => some p | _ => none
def asScheme : Ty → Option Nat | .scheme s => some s | _ => none
def asSum : Ty → Option Nat | .usersum n => some n | _ => none
def isUnit : Ty → Bool | .prim .unit => true | _ => false
def isAny : Ty → Bool | .any => true | _ => false
def isFailure : Ty → Bool | .failure => true | _ => false
/-- `Type::Tuple(v)` with `v.len() == 1` -/
def asTuple1 : Ty → Option Ty | .tuple [t] => some t | _ => none
/-- `Type::Record(v)` with `v.len() == 1` -/
def asRecord1 : Ty → Option F | .record [f] => some f | _ => none
def isTuple0 : Ty → Bool | .tuple [] => true | _ => false
def isRecord0 : Ty → Bool | .record [] => true | _ => false

/-! ## the variable arms (the same in both functions) -/

/-- `(Intermediate(i1), Intermediate(i2))`: `tv1_eq == tv2_eq`, `occur_check(var1, t2)` (on `t2`, not `t2r`), then the
`(None, None)` case of the inner `match` (both are roots) -/
def varVar (g : Nat) (σ : Store) (v1 v2 : Nat) (t2 : Ty) : Out :=
  if v1 = v2 then some (σ, .ok .ident)
  else match occurs g σ v1 t2 with
    | none => none
    | some true => some (σ, .error [.circular])
    | some false =>
      if v1 > v2 then some ((v2, .var v1) :: σ, .ok .ident)          -- `i2.parent = Some(t1r)`
      else some ((v1, .var v2) :: σ, .ok .ident)                      -- `i1.parent = Some(t2r)`

/-- `(Intermediate(i1), _)` / `(_, Intermediate(i2))`: `occur_check(var, other root)`, then `parent = Some(other root)` -/
def bind (g : Nat) (σ : Store) (v : Nat) (t : Ty) : Out :=
  match occurs g σ v t with
  | none => none
  | some true => some (σ, .error [.circular])
  | some false => some ((v, t) :: σ, .ok .ident)

/-! ## `unify_vec` -/

/-- `a1.iter().zip(a2).map(|(a1, a2)| unify_types(*a1, *a2))`, collected: every pair, in order -/
def vecPass (u : U) : Store → List Ty → List Ty → Option (Store × List Res)
  | σ, a :: as, b :: bs =>
    match u σ a b with
    | none => none
    | some (σ1, r) =>
      match vecPass u σ1 as bs with
      | none => none
      | some (σ2, rs) => some (σ2, r :: rs)
  | σ, _, _ => some (σ, [])

def okRels : List Res → List Rel
  | [] => []
  | .ok r :: rs => r :: okRels rs
  | .error _ :: rs => okRels rs

/-- the verdict of `unify_vec`: `partition_result`, then the relation is computed from the `Ok` members ALONE — the errors
are returned only when `Subtype` and `Supertype` both occur -/
def vecVerdict (rs : List Res) : Res :=
  let oks := okRels rs
  if oks.all (· ≠ .sub) then .ok .sup
  else if oks.all (· ≠ .sup) then .ok .sub
  else .error (rs.flatMap errsOf)

/-! ## the record arm -/

/-- stable insertion sort by key (`sorted_by(|a, b| a.key.as_str().cmp(b.key.as_str()))`): `x` stood before every element of the
sorted rest, so it goes in front of the fields with an equal key -/
def insertByKey (x : F) : List F → List F
  | [] => [x]
  | y :: ys => if x.key ≤ y.key then x :: y :: ys else y :: insertByKey x ys

def sortByKey : List F → List F
  | [] => []
  | x :: xs => insertByKey x (sortByKey xs)

/-- `unique_by(|f| f.key)`: the first field of every key -/
def uniqueByKey : List F → List Nat → List F
  | [], _ => []
  | x :: xs, seen => if seen.contains x.key then uniqueByKey xs seen else x :: uniqueByKey xs (x.key :: seen)

def findKey (fs : List F) (k : Nat) : Option F := fs.find? fun f => f.key = k

/-- `sparse_fields`: per key of `allkeys`, the field of `a` with that key, else the representative itself if IT has a default -/
def sparse (a : List F) (allkeys : List F) : List (Option F) :=
  allkeys.map fun p => match findKey a p.key with
    | some f => some f
    | none => if p.dflt then some p else none

/-- `sparse_fields1.zip(sparse_fields2)` -/
def recPairs (a1 a2 : List F) : List (Option F × Option F) :=
  let allkeys := uniqueByKey (sortByKey a1 ++ sortByKey a2) []
  (sparse a1 allkeys).zip (sparse a2 allkeys)

/-- `SearchRes` -/
inductive SR where
  | both | a | b
deriving DecidableEq, Repr

abbrev SRes := Except (List Err) SR

/-- one element of `searchresults`; `(None, None)` is `unreachable!()` (a key of `allkeys` is a key of `a1` or of `a2`) -/
def pairRes (u : U) (σ : Store) : Option F × Option F → Option (Store × SRes)
  | (some s1, some s2) =>
    match u σ s1.ty s2.ty with
    | none => none
    | some (σ', .ok _) => some (σ', .ok .both)
    | some (σ', .error e) => some (σ', .error e)
  | (some _, none) => some (σ, .ok .a)
  | (none, some _) => some (σ, .ok .b)
  | (none, none) => some (σ, .ok .both)

/-- consume a clone of `searchresults` until `stop` holds of an element (`any(stop)`; `all(p)` is `!any(!p)`):
the store afterwards and whether it stopped -/
def passUntil (u : U) (stop : SRes → Bool) : Store → List (Option F × Option F) → Option (Store × Bool)
  | σ, [] => some (σ, false)
  | σ, p :: ps =>
    match pairRes u σ p with
    | none => none
    | some (σ', r) => if stop r then some (σ', true) else passUntil u stop σ' ps

/-- consume a clone of `searchresults` completely: `filter_map(|r| r.err()).flatten()` -/
def passErrs (u : U) : Store → List (Option F × Option F) → Option (Store × List Err)
  | σ, [] => some (σ, [])
  | σ, p :: ps =>
    match pairRes u σ p with
    | none => none
    | some (σ', r) =>
      match passErrs u σ' ps with
      | none => none
      | some (σ'', es) => some (σ'', (match r with | .ok _ => [] | .error e => e) ++ es)

def isBoth : SRes → Bool | .ok .both => true | _ => false
def isA : SRes → Bool | .ok .a => true | _ => false
def isB : SRes → Bool | .ok .b => true | _ => false

/-- `(Type::Record(a1), Type::Record(a2))` -/
def recordArm (u : U) (σ : Store) (a1 a2 : List F) : Out :=
  let ps := recPairs a1 a2
  match passUntil u (fun r => !isBoth r) σ ps with                 -- `all_both`
  | none => none
  | some (σ1, notAllBoth) =>
    match passErrs u σ1 ps with                                     -- `collected_errs`
    | none => none
    | some (σ2, errs) =>
      match passUntil u isA σ2 ps with                              -- `contains_a`
      | none => none
      | some (σ3, containsA) =>
        match passUntil u isB σ3 ps with                            -- `contains_b`
        | none => none
        | some (σ4, containsB) =>
          let containsErr := !errs.isEmpty
          if !notAllBoth then some (σ4, .ok .ident)
          else if !containsErr && containsA && !containsB then some (σ4, .ok .sup)
          else if !containsErr && containsB && !containsA then some (σ4, .ok .sub)
          else if containsB && containsA then some (σ4, .error (errs ++ [.records]))
          else some (σ4, .error errs)

/-! ## the union arms -/

/-- `for m in members { if unify(..m..).is_ok() { return … } }` / `any(|m| …is_ok())`: first member that `hit`s -/
def firstHit (try1 : Store → Ty → Out) (hit : Res → Bool) : Store → List Ty → Option (Store × Bool)
  | σ, [] => some (σ, false)
  | σ, m :: ms =>
    match try1 σ m with
    | none => none
    | some (σ', r) => if hit r then some (σ', true) else firstHit try1 hit σ' ms

/-- `members.iter().all(|m| ok(m))` with a store-threading `ok` that reports (store, Bool) -/
def allOf (ok1 : Store → Ty → Option (Store × Bool)) : Store → List Ty → Option (Store × Bool)
  | σ, [] => some (σ, true)
  | σ, m :: ms =>
    match ok1 σ m with
    | none => none
    | some (σ', true) => allOf ok1 σ' ms
    | some (σ', false) => some (σ', false)

def isIdent : Res → Bool | .ok .ident => true | _ => false

/-! ## the two tables -/

/-- the verdict of the `Function` arm from `(arg_res, ret_res)` -/
def fnVerdict : Res → Res → Res
  | .ok .sub, .ok _ => .error [.mismatch]
  | .ok _, .ok .sup => .error [.mismatch]
  | .ok .ident, .ok .ident => .ok .ident
  | .ok _, .error e => .error e
  | .error e, .ok _ => .error e
  | .error e1, .error e2 => .error (e1 ++ e2)
  | _, _ => .ok .sub

/-- last part of the table of `unify_types`: `UserSum`, the three `Boxed` arms, `(_p1, _p2)` -/
def structuralD (u : U) (σ : Store) (t1r t2r : Ty) : Out :=
  match asSum t1r, asSum t2r with
  | some n1, some n2 => if n1 = n2 then some (σ, .ok .ident) else some (σ, .error [.mismatch])
  | _, _ =>
  match asBoxed t1r, asBoxed t2r with
  | some b1, some b2 => u σ b1 b2
  | some inner, none =>
    match u σ inner t2r with
    | none => none
    | some (σ', .ok _) => some (σ', .ok .ident)
    | some (σ', .error _) => some (σ', .error [.mismatch])
  | none, some inner =>
    match u σ t1r inner with
    | none => none
    | some (σ', .ok _) => some (σ', .ok .ident)
    | some (σ', .error _) => some (σ', .error [.mismatch])
  | none, none => some (σ, .error [.mismatch])

/-- `|m| unify_types(m, t2r).is_ok()` -/
def okOf (u : U) (t2r : Ty) (σ : Store) (m : Ty) : Option (Store × Bool) :=
  match u σ m t2r with
  | none => none
  | some (σ', r) => some (σ', isOk r)

/-- `Code` and the three `Union` arms, then `structuralD` -/
def structuralC (u : U) (σ : Store) (t1r t2r : Ty) : Out :=
  match asCode t1r, asCode t2r with
  | some p1, some p2 => u σ p1 p2
  | _, _ =>
  match asUnion t1r, asUnion t2r with
  | some us1, some us2 =>
    if us1.length ≠ us2.length then some (σ, .error [.mismatch])
    else
      -- `us1.all(|m1| us2.any(|m2| unify_types(m1, m2).is_ok_and(|r| r == Identical)))`
      match allOf (fun σ m1 => firstHit (fun σ m2 => u σ m1 m2) isIdent σ us2) σ us1 with
      | none => none
      | some (σ', true) => some (σ', .ok .ident)
      | some (σ', false) => some (σ', .error [.mismatch])
  | none, some us2 =>
    -- `for m in us2 { if unify_types(t1r, m).is_ok() { return Ok(Subtype) } }`
    match firstHit (fun σ m => u σ t1r m) isOk σ us2 with
    | none => none
    | some (σ', true) => some (σ', .ok .sub)
    | some (σ', false) => some (σ', .error [.mismatch])
  | some us1, none =>
    -- `us1.all(|m| unify_types(m, t2r).is_ok())`
    match allOf (okOf u t2r) σ us1 with
    | none => none
    | some (σ', true) => some (σ', .ok .sup)
    | some (σ', false) => some (σ', .error [.mismatch])
  | none, none => structuralD u σ t1r t2r

/-- `(Type::Primitive(p1), Type::Primitive(p2)) if p1 == p2` -/
def samePrim (a b : Ty) : Bool :=
  match asPrim a, asPrim b with
  | some p1, some p2 => decide (p1 = p2)
  | _, _ => false

/-- `(Type::TypeScheme(s1), Type::TypeScheme(s2)) if s1 == s2` -/
def sameScheme (a b : Ty) : Bool :=
  match asScheme a, asScheme b with
  | some s1, some s2 => decide (s1 = s2)
  | _, _ => false

/-- equal primitives / type schemes, `unit` ~ `()` ~ `{}`, one-element tuples, `Any` / `Failure`, then `structuralC` -/
def structuralB (u : U) (σ : Store) (t1 t2 t1r t2r : Ty) : Out :=
  if samePrim t1r t2r then some (σ, .ok .ident)
  else if sameScheme t1r t2r then some (σ, .ok .ident)
  else if (asScheme t1r).isSome || (asScheme t2r).isSome then some (σ, .error [.mismatch])
  else if (isUnit t1r && isTuple0 t2r) || (isTuple0 t1r && isUnit t2r) then some (σ, .ok .ident)
  else match asTuple1 t2r with
  | some v => u σ t1 v                                                  -- `(_t, Tuple(v)) if v.len() == 1`
  | none =>
  match asTuple1 t1r with
  | some v => u σ v t2                                                  -- `(Tuple(v), _t) if v.len() == 1`
  | none =>
  if (isUnit t1r && isRecord0 t2r) || (isRecord0 t1r && isUnit t2r) then some (σ, .ok .ident)
  else if isFailure t1r || isAny t2r then some (σ, .ok .ident)
  else if isAny t1r || isFailure t2r then some (σ, .ok .ident)
  else structuralC u σ t1r t2r

/-- `(Type::Tuple(a1), Type::Tuple(a2))` -/
def tupleArm (u : U) (σ : Store) (a1 a2 : List Ty) : Out :=
  if a1.length = a2.length then
    match vecPass u σ a1 a2 with
    | none => none
    | some (σ', rs) =>
      match vecVerdict rs with
      | .ok _ => some (σ', .ok .ident)
      | .error e => some (σ', .error e)
  else some (σ, .error [.length])

/-- `(Type::Function { arg1, ret1 }, Type::Function { arg2, ret2 })`: both calls are made, in this order -/
def fnArm (u ua : U) (σ : Store) (arg1 ret1 arg2 ret2 : Ty) : Out :=
  match ua σ arg1 arg2 with
  | none => none
  | some (σ1, argRes) =>
    match u σ1 ret1 ret2 with
    | none => none
    | some (σ2, retRes) => some (σ2, fnVerdict argRes retRes)

/-- `(Type::Array(a1), Type::Array(a2))`: anything but `Identical` is a mismatch -/
def arrayArm (u : U) (σ : Store) (a1 a2 : Ty) : Out :=
  match u σ a1 a2 with
  | none => none
  | some (σ', .ok .ident) => some (σ', .ok .ident)
  | some (σ', .ok _) => some (σ', .error [.mismatch])
  | some (σ', .error e) => some (σ', .error e)

/-- `unify_types` from its first structural arm on (`t1r`, `t2r` are roots and not variables).
`u` = `unify_types`, `ua` = `unify_types_args` at smaller fuel. -/
def structural (u ua : U) (σ : Store) (t1 t2 t1r t2r : Ty) : Out :=
  match asArray t1r, asArray t2r with
  | some a1, some a2 => arrayArm u σ a1 a2
  | _, _ =>
  match asRef t1r, asRef t2r with
  | some x1, some x2 => u σ x1 x2
  | _, _ =>
  match asTuple t1r, asTuple t2r with
  | some a1, some a2 => tupleArm u σ a1 a2
  | _, _ =>
  match asRecord t1r, asRecord t2r with
  | some a1, some a2 => recordArm u σ a1 a2
  | _, _ =>
  match asFn t1r, asFn t2r with
  | some (arg1, ret1), some (arg2, ret2) => fnArm u ua σ arg1 ret1 arg2 ret2
  | _, _ => structuralB u σ t1 t2 t1r t2r

/-- the three variable arms; `none` = neither root is a variable -/
def varArms (g : Nat) (σ : Store) (t2 t1r t2r : Ty) : Option Out :=
  match asVar t1r, asVar t2r with
  | some v1, some v2 => some (varVar g σ v1 v2 t2)
  | some v1, none => some (bind g σ v1 t2r)
  | none, some v2 => some (bind g σ v2 t1r)
  | none, none => none

def isRecord (t : Ty) : Bool := (asRecord t).isSome
def isTuple (t : Ty) : Bool := (asTuple t).isSome

/-- `unify_types_args` from `(Record(kvs), Tuple(_))` on (neither root is a variable) -/
def argsTail (u ua : U) (σ : Store) (t1 t2 t1r t2r : Ty) : Out :=
  match asRecord t1r, isTuple t2r with
  | some kvs, true => ua σ (.tuple (kvs.map (·.ty))) t2                  -- `(Record(kvs), Tuple(_))`
  | _, _ =>
  if isTuple t1r && isRecord t2r then ua σ t2 t1                         -- `(Tuple(_), Record(_)) => unify_types_args(t2, t1)`
  else match asUnion t1r with
  | some us =>
    -- `for m in us { if unify_types_args(m, t2r).is_ok() { return Ok(Identical) } }`
    match firstHit (fun σ m => ua σ m t2r) isOk σ us with
    | none => none
    | some (σ', true) => some (σ', .ok .ident)
    | some (σ', false) => some (σ', .error [.mismatch])
  | none => u σ t1 t2

/-- the five arms of `unify_types_args` in front of its variable arms; `none` = none of them applies -/
def argsHead (u ua : U) (σ : Store) (t1 t2 t1r t2r : Ty) : Option Out :=
  if (isRecord t1r && isRecord t2r) || (isTuple t1r && isTuple t2r) then some (u σ t1 t2)
  else match asRecord1 t1r with
  | some fl => some (ua σ fl.ty t2)                                      -- `(Record(v), _) if v.len() == 1`
  | none =>
  match (match asRecord1 t2r with | some fl => if fl.dflt then none else some fl | none => none) with
  | some fl => some (ua σ t1 fl.ty)                                      -- `(_, Record(v)) if v.len() == 1 && !has_default`
  | none =>
  match asTuple1 t2r with
  | some v => some (ua σ t1 v)
  | none =>
  match asTuple1 t1r with
  | some v => some (ua σ v t2)
  | none => none

/-- `args = false`: `unify_types(t1, t2)`; `args = true`: `unify_types_args(t1, t2)` -/
def go (g : Nat) : Nat → Bool → Store → Ty → Ty → Out
  | 0, _, _, _, _ => none
  | f + 1, false, σ, t1, t2 =>
    match root σ g t1, root σ g t2 with
    | some t1r, some t2r =>
      match varArms g σ t2 t1r t2r with
      | some out => out
      | none => structural (go g f false) (go g f true) σ t1 t2 t1r t2r
    | _, _ => none
  | f + 1, true, σ, t1, t2 =>
    match root σ g t1, root σ g t2 with
    | some t1r, some t2r =>
      match argsHead (go g f false) (go g f true) σ t1 t2 t1r t2r with
      | some out => out
      | none =>
      match varArms g σ t2 t1r t2r with
      | some out => out
      | none => argsTail (go g f false) (go g f true) σ t1 t2 t1r t2r
    | _, _ => none

/-- `unify_types(t1, t2)` -/
def unify (g f : Nat) (σ : Store) (t1 t2 : Ty) : Out := go g f false σ t1 t2
/-- `unify_types_args(t1, t2)` -/
def unifyArgs (g f : Nat) (σ : Store) (t1 t2 : Ty) : Out := go g f true σ t1 t2

/-! ## fuel that provably suffices (`C04_unify_terminates`) -/

/-- constructors of the two types and of all parents, as `occur_check` sees them -/
def sizeSum (σ : Store) (t1 t2 : Ty) : Nat := Occurs.size (abs t1) + Occurs.size (abs t2) + Occurs.total (absS σ)

/-- no store a run reaches has more entries (every new entry binds one of the ≤ `sizeSum` variables around) -/
def maxEntries (σ : Store) (t1 t2 : Ty) : Nat := σ.length + sizeSum σ t1 t2

/-- no type gets higher than this in any store a run reaches -/
def maxHeight (σ : Store) (t1 t2 : Ty) : Nat := sizeSum σ t1 t2 + maxEntries σ t1 t2 * sizeSum σ t1 t2

/-- fuel for `get_root` / `occur_check` -/
def fuelG (σ : Store) (t1 t2 : Ty) : Nat := maxHeight σ t1 t2 + maxEntries σ t1 t2 + 1

/-- fuel for the nesting of unification calls -/
def fuelF (σ : Store) (t1 t2 : Ty) : Nat := 4 * (maxHeight σ t1 t2 * (2 * maxHeight σ t1 t2) + 2 * maxHeight σ t1 t2) + 4

/-- a sequence of requests over one set of cells (what the type checker does to the store between two `substitute_type`s);
a failed request leaves its bindings and checking goes on -/
def runSeq (g f : Nat) : Store → List (Bool × Ty × Ty) → Option Store
  | σ, [] => some σ
  | σ, (k, a, b) :: rs =>
    match go g f k σ a b with
    | none => none
    | some (σ', _) => runSeq g f σ' rs

/-! ## `InferContext::substitute_type` on the rich types -/

/-- `substitute_type`: a bound variable ↦ the image of its parent, an unbound one ↦ `Unknown`; `apply_fn` visits the members of
`Array`, `Tuple`, `Record`, `Function`, `Ref`, `Boxed`, `Code` and returns every other type (`Union`, `UserSum`, …) as it is -/
def subst (σ : Store) : Nat → Ty → Option Ty
  | 0, _ => none
  | g + 1, .var v =>
    match Occurs.parent σ v with
    | some p => subst σ g p
    | none => some .unknown
  | g + 1, .array t => (subst σ g t).map .array
  | g + 1, .ref t => (subst σ g t).map .ref
  | g + 1, .code t => (subst σ g t).map .code
  | g + 1, .boxed t => (subst σ g t).map .boxed
  | g + 1, .tuple ts => (ts.mapM (subst σ g)).map .tuple
  | g + 1, .record fs => (fs.mapM fun fl => (subst σ g fl.ty).map fun t => { fl with ty := t }).map .record
  | g + 1, .fn a r =>
    match subst σ g a, subst σ g r with
    | some a', some r' => some (.fn a' r')
    | _, _ => none
  | _ + 1, t => some t

mutual
/-- number of constructors -/
def size : Ty → Nat
  | .array t => size t + 1
  | .ref t => size t + 1
  | .code t => size t + 1
  | .boxed t => size t + 1
  | .tuple ts => sizeL ts + 1
  | .union ts => sizeL ts + 1
  | .record fs => sizeF fs + 1
  | .fn a r => size a + size r + 1
  | .prim _ => 1
  | .var _ => 1
  | .usersum _ => 1
  | .scheme _ => 1
  | .alias _ => 1
  | .any => 1
  | .failure => 1
  | .unknown => 1
def sizeL : List Ty → Nat
  | [] => 0
  | t :: ts => size t + sizeL ts
def sizeF : List (Fld Ty) → Nat
  | [] => 0
  | f :: fs => size f.ty + sizeF fs
end

end Mimium.Unify
