import Mimium.Model.StageCore
/-! Concrete programs used by the witness theorems of C09 / C10 (hygiene), and a decidable observation of a run. -/
namespace Mimium.Stage
open Mimium.Core

/-- what one evaluation of `dsp` returns -/
inductive Out | num (bits : UInt64) | tuple | other
deriving DecidableEq, Repr

/-- first sample of `dsp` of a program without globals and inputs, in the reference semantics -/
def firstOut (P : Except String Prog) : Out :=
  match P with
  | .error _ => .other
  | .ok P =>
    match Core.eval 1000 P ⟨0, 0⟩ [] P.dsp.body [] SNode.empty with
    | .ok (.num b, _, _) => .num b
    | .ok (.tup _, _, _) => .tuple
    | _ => .other

def bits1 : UInt64 := 0x3ff0000000000000    -- 1.0
def bits5 : UInt64 := 0x4014000000000000    -- 5.0
def bits10 : UInt64 := 0x4024000000000000   -- 10.0

/-- ```
#stage(macro)
fn m(x){ `{ let <binder> = 10.0
            $x } }
#stage(main)
fn dsp(){ let y = 1.0
          m!(`y) }
``` -/
def captureSrc (binder : String) : Ex :=
  .escape (.letE "m" (.lam ["x"] (.bracket (.block (.letE binder (.flt bits10) (.escape (.var "x"))))))
    (.bracket (.letE "dsp" (.lam [] (.letE "y" (.flt bits1) (.macroExpand (.var "m") [.bracket (.var "y")]))) Ex.unit)))

/-- the stage-0 program the translator produces, in a fresh compiler thread (temporary counter 0), for
`fn dsp(){ let <user> = 5.0; let ((a, b), c) = ((1.0, 2.0), 3.0); <user> }` when it is part of a staged program -/
def dtProg (user : String) : Ex :=
  ap "code_let" [.str "dsp", ap "code_lam_finish_typed" [.arr [], .arr [], tyTag,
    ap "code_let" [.str user, trCode (.flt bits5),
      (trLetTuple 3 0 [.tuple [.single "a", .single "b"], .single "c"]
        (trCode (.tup [.tup [.flt 1, .flt 2], .flt 3])) (trCode (.var user))).1]], trCode Ex.unit]

def dtRun (user : String) : Out :=
  match ev0 1000 [] (dtProg user) with
  | .ok (.code e) => firstOut (toCoreProg [] e)
  | _ => .other

/-! ### the macro pipe -/

def bits2 : UInt64 := 0x4000000000000000    -- 2.0
def bits3 : UInt64 := 0x4008000000000000    -- 3.0
def bits100 : UInt64 := 0x4059000000000000  -- 100.0

/-- `fn dsp(){ body }` as a whole program -/
def dspOnly (body : Ex) : Ex := .letE "dsp" (.lam [] body) Ex.unit

/-- `3.0 ||> (|a| `{ ($a, 10.0 ||> (|<inner>| `{ $<inner> })).1 })` : nested pipes, the inner binder called `inner` -/
def nestedPipe (inner : String) : Ex :=
  .pipeM (.flt bits3) (.lam ["a"] (.bracket
    (.proj (.tup [.escape (.var "a"), .pipeM (.flt bits10) (.lam [inner] (.bracket (.escape (.var inner))))]) 1)))

/-- `3.0 ||> (|a| `{ $((|<inner>| `{ $<inner> })(`2.0)) })` : a macro lambda that is not piped, inside a piped body -/
def pipeOverLambda (inner : String) : Ex :=
  .pipeM (.flt bits3) (.lam ["a"] (.bracket (.escape (.app (.lam [inner] (.bracket (.escape (.var inner)))) [.bracket (.flt bits2)]))))

/-- ```
fn fst(x, y){ x }
#stage(macro)
fn m(<p>){ `{ 3.0 ||> fst($<p>, _) } }
#stage(main)
fn dsp(){ m!(`100.0) }
``` -/
def sugarCapture (p : String) : Ex :=
  .letE "fst" (.lam ["x", "y"] (.var "x"))
    (.escape (.letE "m" (.lam [p] (.bracket (.pipeM (.flt bits3) (.app (.var "fst") [.escape (.var p), .placeholder]))))
      (.bracket (dspOnly (.macroExpand (.var "m") [.bracket (.flt bits100)])))))

end Mimium.Stage
