import Mimium.Model.Preparse
/-!
# Model of the tree-builder discipline of `cst_parser.rs` / `green.rs`

`GreenTreeBuilder` keeps a stack of open nodes `(kind, children)`; `Parser::bump` is the only place that calls
`add_token` and the only place that advances `current` (verified textually on every run by `tools/extract.py`).
The grammar functions are abstracted as arbitrary sequences of the builder/parser primitives (`Op`); what they
*decide* from `peek*` does not matter for the leaves of the tree, only which primitives they issue.
Syntax kinds are irrelevant for the property and are modelled as `Nat` tags.
-/
namespace Mimium.Cst

/-- `GreenNode` (the arena is irrelevant for the shape) -/
inductive Green where
  | token (tokenIndex : Nat) (width : Nat)
  | node (kind : Nat) (children : List Green)
deriving Repr, Inhabited

mutual
/-- token leaves, left to right -/
def Green.leaves : Green → List Nat
  | .token i _ => [i]
  | .node _ cs => leavesL cs
def leavesL : List Green → List Nat
  | [] => []
  | g :: gs => g.leaves ++ leavesL gs
end

/-- one open node of `GreenTreeBuilder.stack` -/
structure Frame where
  kind : Nat
  children : List Green     -- in source order
deriving Repr, Inhabited

/-- parser state that matters: builder stack (top first), cursor, and the last node returned by `finish_node` -/
structure PState where
  stack : List Frame
  current : Nat
  root : Option Green := none
deriving Repr, Inhabited

/-- the primitives through which grammar functions touch the tree and the cursor -/
inductive Op where
  | startNode (kind : Nat)
  | startNodeAt (markerPos : Nat) (kind : Nat)     -- `start_node_at(Marker { pos }, kind)`
  | finishNode
  | bump
  | noop                                          -- `peek`, `peek_ahead`, `check`, `add_error`, `marker`, token-kind relabelling
deriving Repr, DecidableEq

/-- environment of the parser: token widths (`tokens[i].length`) and `preparsed.token_indices` -/
structure Env where
  widths : List Nat
  tokenIndices : List Nat

def pushChild (g : Green) : List Frame → List Frame
  | [] => []                                       -- `if let Some(..) = self.stack.last_mut()`: otherwise dropped
  | f :: fs => { f with children := f.children ++ [g] } :: fs

def exec (E : Env) (st : PState) : Op → PState
  | .startNode k => { st with stack := ⟨k, []⟩ :: st.stack }
  | .startNodeAt pos k =>
    match st.stack with
    | [] => { st with stack := [⟨k, []⟩] }
    | f :: fs => { st with stack := ⟨k, f.children.drop pos⟩ :: { f with children := f.children.take pos } :: fs }
  | .finishNode =>
    match st.stack with
    | [] => { st with root := none }
    | f :: fs => { st with stack := pushChild (.node f.kind f.children) fs, root := some (.node f.kind f.children) }
  | .bump =>
    let st' := { st with current := st.current + 1 }
    match E.tokenIndices[st.current]? with
    | none => st'
    | some ti =>
      match E.widths[ti]? with
      | none => st'
      | some w => { st' with stack := pushChild (.token ti w) st'.stack }
  | .noop => st

def run (E : Env) : PState → List Op → PState
  | st, [] => st
  | st, o :: os => run E (exec E st o) os

/-- effect of an op on the depth of the stack, `none` if the op would pop the outermost open node -/
def depthAfter (d : Nat) : Op → Option Nat
  | .startNode _ => some (d + 1)
  | .startNodeAt _ _ => some (d + 1)
  | .finishNode => if d ≤ 1 then none else some (d - 1)
  | _ => some d

/-- `Bracketed d ops = some d'`: starting with `d ≥ 1` open nodes, `ops` never closes the outermost one and ends with `d'` open -/
def bracketed : Nat → List Op → Option Nat
  | d, [] => some d
  | d, o :: os => match depthAfter d o with
    | none => none
    | some d' => bracketed d' os

/-- leaves of everything that is under construction, bottom of the stack first -/
def stackLeaves : List Frame → List Nat
  | [] => []
  | f :: fs => stackLeaves fs ++ leavesL f.children

/-- `Parser::is_at_end` for an environment whose `token_indices` never point at `Eof` (proved for `preparse`) -/
def atEnd (E : Env) (st : PState) : Bool := E.tokenIndices.length ≤ st.current

/-- `Parser::parse`: `start_node(Program)`, then `while !is_at_end { parse_statement(); if no progress { bump } }`,
then `finish_node()`.  `stmt` is the (arbitrary) sequence of primitives that `parse_statement` issues from a state. -/
def parseLoop (E : Env) (stmt : PState → List Op) : Nat → PState → PState
  | 0, st => st
  | fuel + 1, st =>
    if atEnd E st then st
    else
      let st1 := run E st (stmt st)
      let st2 := if st1.current = st.current && !atEnd E st1 then exec E st1 .bump else st1
      parseLoop E stmt fuel st2

def parse (E : Env) (stmt : PState → List Op) : PState :=
  let st0 : PState := { stack := [⟨0, []⟩], current := 0 }
  exec E (parseLoop E stmt (E.tokenIndices.length + 1) st0) .finishNode

end Mimium.Cst
