import Mimium.Model.CstBuilder
import Mimium.Gen.CstGrammar
/-!
# Literal port of the grammar of `compiler/parser/cst_parser.rs` (every grammar function, the whole concrete syntax)

The parser is a hand-written recursive descent over `preparsed.token_indices`; every grammar function is a straight-line
composition of a handful of parser primitives (`check`, `peek_ahead`, `bump`, `expect`, `add_error`, `emit_node`,
`builder.marker()` / `start_node_at`) and of calls of other grammar functions.  The port keeps exactly this structure:

* `Cmd` is the (first-order) statement language the Rust bodies are written in; `Cond` the conditions they test;
* `body : Tag → Cmd` gives, for every grammar function AND every `while`/`loop` of `cst_parser.rs` (`Tag`), its body, statement by
  statement, in source order.  A loop is a tag that calls itself as its last statement; `break`/`return` = not calling it;
* `exec` is the interpreter of `Cmd` on the parser state (`St`: builder stack + cursor of `Model/CstBuilder.lean`, the mutable
  token kinds — `parse_function_decl` & co. relabel identifiers —, the error list, and two registers for the only locals that
  live across a call: `ra` = `min_prec`, `rb` = `lhs_marker` / `marker`);
* `go` ties the recursion with ONE fuel parameter (decremented at every call of a tag); `parse` is `Parser::parse`.

The builder primitives are those of `Model/CstBuilder.lean` (`Cst.exec`), so `bump` is the only cursor move and the only source
of leaves by construction.  `tools/extract.py::gen_cst_grammar` re-extracts `SyntaxKind` and pins the hash of every function body
of `cst_parser.rs` (`C13_grammar_functions_pinned`); the correspondence run compares the tree and the error list with the real
`parse_cst` exactly.
-/
namespace Mimium.Grammar
open Mimium.Gen (Kind SK)
open Mimium.Cst (PState Frame Green)

/-! ## Errors (`ParserError`) -/

/-- fixed texts used as the `expected` string -/
inductive Txt where
  | ident | parenBegin | blockBegin       -- `error_expected("Ident")`, …
  | expression | type_ | pattern | identAfterColons | matchPattern
deriving DecidableEq, Repr

/-- the `expected` argument -/
inductive ExpMsg where
  | kind (k : Kind)            -- `format!("{kind:?}")`
  | kinds (ks : List Kind)     -- `expects`: names joined by `" or "`
  | text (t : Txt)
deriving DecidableEq, Repr

/-- the `reason` of `invalid_syntax` -/
inductive Reason where
  | noProgressStmt | noProgressModule | noProgressBlock | noProgressMatchArm | consecutiveOps
deriving DecidableEq, Repr

inductive ErrDetail where
  | unexpectedToken (e : ExpMsg) (found : Option Kind)   -- `found` = `{k:?}` of the token under the cursor, `""` if none
  | unexpectedEof (e : ExpMsg)
  | invalidSyntax (r : Reason)
deriving DecidableEq, Repr

structure PErr where
  tokenIndex : Nat          -- `current_token_index()`: index into the RAW token array
  detail : ErrDetail
deriving DecidableEq, Repr

/-! ## The statement language of the grammar functions -/

/-- the look-ahead helpers that scan (the finite ones are plain `Cond`s below) -/
inductive Look where
  | macroAfterPath      -- `find_macro_expand_after_path().is_some()`
  | typeArrowAhead      -- the `for i in 1..MAX_LOOKAHEAD` of `parse_type`: `ahead_arrow.is_some()`
  | isTupleType         -- the `find_map` of `parse_type_tuple_or_paren`
  | isTupleExpr         -- `is_tuple_expr()` (after its `check(ParenBegin)`)
deriving DecidableEq, Repr

inductive Cond where
  | peekIn (n : Nat) (ks : List Kind)  -- `matches!(self.peek_ahead(n), Some(k))` for a `k` of the list (`n = 0`: `peek()`, `check`)
  | peekNone (n : Nat)               -- `self.peek_ahead(n)` is `None`
  | atEnd                            -- `self.is_at_end()`
  | nl                               -- `self.has_trailing_linebreak()`
  | isInfix                          -- `self.peek().and_then(get_infix_precedence).is_some()`
  | infixBelowA                      -- `prec < min_prec` for the `prec` of the token under the cursor
  | aZero                            -- `min_prec == 0`
  | prevAdjOp                        -- `prev_kind_if_adjacent()` is one of `+ - * / % ^`
  | look (l : Look)
  | neg (c : Cond)
  | both (c d : Cond)
  | either (c d : Cond)
deriving Repr

/-- `self.check(k)` -/
abbrev Cond.check (k : Kind) : Cond := .peekIn 0 [k]
/-- `self.peek_ahead(n) == Some(k)` -/
abbrev Cond.peekIs (n : Nat) (k : Kind) : Cond := .peekIn n [k]

/-- argument of `parse_expr_with_precedence*` -/
inductive AExpr where
  | const (n : Nat)
  | prevPrecPlus1       -- `prec + 1` for the `prec` of the operator that was just bumped
deriving DecidableEq, Repr

inductive ErrSpec where
  | tok (e : ExpMsg)        -- `unexpected_token(current_token_index(), e, peek().map(debug).unwrap_or_default())`
  | tokOrEof (e : ExpMsg)   -- `… &format!("{:?}", peek().unwrap_or(TokenKind::Eof))`
  | eof (e : ExpMsg)        -- `unexpected_eof(current_token_index(), e)`
  | syntax (r : Reason)     -- `invalid_syntax(current_token_index(), r)`
deriving DecidableEq, Repr

/-- the two relabellings of an identifier token (`tokens[i].kind = TokenKind::IdentFunction` / `IdentParameter`) -/
inductive Relabel where
  | fn | param
deriving DecidableEq, Repr

def Relabel.kind : Relabel → Kind
  | .fn => .IdentFunction
  | .param => .IdentParameter

/-- one tag per grammar function and per loop of `cst_parser.rs` -/
inductive Tag where
  | programLoop
  | statement | moduleDecl | moduleLoop | useStmt | usePath | usePathLoop | useMultiLoop | qualifiedPath | qualifiedPathLoop
  | macroDecl | includeStmt | stageDecl | macroExpansion | macroArgLoop | bracketExpr | escapeExpr | functionDecl
  | letDecl | letrecDecl | pattern | tuplePattern | tuplePatternLoop | recordPattern | recordPatternLoop
  | paramList | paramLoop | expr | assignmentExpr | exprPrec | prattLoop | exprPrecNoLb | prattLoopNoLb
  | prefixExpr | unaryExpr | postfixExpr | postfixLoop | argList | argLoop
  | typeAnnotation | type_ | typeUnion | typeUnionLoop | typePrimary | typeIdentLoop | typeTupleOrParen | typeTupleLoop
  | typeRecord | typeRecordLoop
  | primary | lambdaExpr | lambdaParamLoop | tupleExpr | tupleExprLoop | recordExpr | recordUpdateLoop | recordFieldLoop
  | blockExpr | blockLoop | ifExpr | matchExpr | matchArmLoop | matchArm | matchPattern | matchTuplePattern | matchTuplePatternLoop
  | typeDecl | typeDeclLoop | typeAliasDecl | variantDef | variantLoop | arrayExpr | arrayLoop
deriving DecidableEq, Repr

inductive Cmd where
  | skip
  | seq (c d : Cmd)
  | ite (c : Cond) (t e : Cmd)
  | node (k : SK) (c : Cmd)          -- `emit_node(k, |this| c)` = `start_node(k); c; finish_node()`
  | nodeAtB (k : SK) (c : Cmd)       -- `start_node_at(lhs_marker, k); c; finish_node()`
  | bump                             -- `self.bump()`
  | bumpAs (r : Relabel)             -- `tokens[token_indices[current]].kind = r.kind; self.bump()`
  | err (e : ErrSpec)                -- `self.add_error(…)`
  | call (t : Tag)                   -- call of a grammar function / next iteration of a loop
  | callA (t : Tag) (a : AExpr)      -- … with `min_prec := a`
  | setBMarker                       -- `lhs_marker = self.builder.marker()`
  | setBMarkerPred                   -- `lhs_marker = Marker { pos: self.builder.marker().pos.saturating_sub(1) }`
  | progress (c : Cmd) (r : Reason) (e : Cmd)
      -- `let before = current; c; if current == before && !is_at_end() { add_error(invalid_syntax(r)); bump(); continue }; e`
deriving Repr

/-! ### Derived forms (Rust helper functions written with the primitives) -/

def seqs : List Cmd → Cmd
  | [] => .skip
  | [c] => c
  | c :: cs => .seq c (seqs cs)

/-- `match self.peek() { Some(k₁ | k₂ …) => c₁, …, _ => dflt }` (first matching arm) -/
def switch (arms : List (List Kind × Cmd)) (dflt : Cmd) : Cmd :=
  arms.foldr (fun a acc => .ite (.peekIn 0 a.1) a.2 acc) dflt

def when_ (c : Cond) (t : Cmd) : Cmd := .ite c t .skip
def unless_ (c : Cond) (t : Cmd) : Cmd := .ite (.neg c) t .skip

/-- `if self.expect(k) { t }` — `expect`: `check` → `bump`; at end → `unexpected_eof`; else `unexpected_token` -/
def ifExpect (k : Kind) (t : Cmd) : Cmd :=
  .ite (.check k) (.seq .bump t) (.ite .atEnd (.err (.eof (.kind k))) (.err (.tok (.kind k))))

/-- `self.expect(k);` -/
def expect (k : Kind) : Cmd := ifExpect k .skip

/-- `self.expects(&[…]);` (tests `peek()` for `None`, not `is_at_end`) -/
def expects (ks : List Kind) : Cmd :=
  .ite (.peekIn 0 ks) .bump (.ite (.peekNone 0) (.err (.eof (.kinds ks))) (.err (.tok (.kinds ks))))

/-- `self.expect_all(&[…]);` (`fold` with the non-short-circuit `&`: every `expect` runs) -/
def expectAll (ks : List Kind) : Cmd := seqs (ks.map expect)

/-- `self.error_expected(what)` -/
def errorExpected (t : Txt) : Cmd := .ite .atEnd (.err (.eof (.text t))) (.err (.tok (.text t)))

/-- `if let Some(kind) = self.peek() { add_error(unexpected_token(.., what, kind)) }` -/
def errIfSome (t : Txt) : Cmd := .ite (.peekNone 0) .skip (.err (.tok (.text t)))

/-- `is_record_expr` (after its `check(BlockBegin)`) -/
def isRecordExpr : Cond :=
  .either (.peekIs 1 .DoubleDot) (.both (.peekIn 1 [.Ident, .IdentParameter]) (.peekIn 2 [.Assign, .LeftArrow]))

/-- `is_tuple_pattern_in_constructor` -/
def isTuplePatternInCtor : Cond :=
  .both (.check .ParenBegin) (.either (.peekIs 1 .ParenBegin) (.both (.peekIn 1 [.Ident, .PlaceHolder]) (.peekIs 2 .Comma)))

/-- `is_type_start_after_pipe` (with `is_type_ident_after_pipe` as its last arm) -/
def isTypeStartAfterPipe : Cond :=
  .either (.peekIn 1 [.FloatType, .IntegerType, .StringType, .ParenBegin, .ArrayBegin, .BackQuote])
    (.either (.both (.peekIs 1 .BlockBegin) (.both (.peekIs 2 .Ident) (.peekIs 3 .Colon)))
      (.both (.peekIs 1 .Ident)
        (.either (.peekIn 2 [.LambdaArgBeginEnd, .Comma, .ParenEnd, .BlockEnd, .ArrayEnd, .Arrow]) (.peekNone 2))))

/-! ## The grammar: one body per function / loop of `cst_parser.rs`, in source order -/

open Cmd Cond in
/-- `while self.check(sep) { self.bump(); if !self.check(close) { item }; }` as the body of the loop tag `self_` -/
def sepLoop (self_ : Tag) (close : Kind) (item : Cmd) : Cmd :=
  when_ (check .Comma) (seqs [bump, unless_ (check close) item, call self_])

open Cmd Cond in
/-- `expects(&[Ident, IdentParameter]); expect(Assign); parse_expr();` of `parse_record_expr` -/
def recField : Cmd := seqs [expects [.Ident, .IdentParameter], expect .Assign, call .expr]

open Cmd Cond in
/-- the `min_prec == 0 && has_trailing_linebreak() && peek().and_then(get_infix_precedence).is_none()` test -/
def stmtBreak : Cond := .both aZero (.both nl (.neg isInfix))

open Cmd Cond in
def body : Tag → Cmd
  -- `parse`: `while !self.is_at_end() { … }` (the `Program` node is opened / closed by `parse` below)
  | .programLoop => unless_ atEnd (seqs [progress (call .statement) .noProgressStmt skip, call .programLoop])
  -- `parse_statement`
  | .statement =>
    node .Statement (seqs [
      when_ (check .Pub) (node .VisibilityPub bump),
      switch [([.Function], call .functionDecl), ([.Macro], call .macroDecl), ([.Let], call .letDecl),
              ([.LetRec], call .letrecDecl), ([.Include], call .includeStmt), ([.Sharp], call .stageDecl),
              ([.Mod], call .moduleDecl), ([.Use], call .useStmt),
              ([.Type], ite (peekIs 1 .Alias) (call .typeAliasDecl) (call .typeDecl))]
        (call .expr)])
  -- `parse_module_decl`
  | .moduleDecl =>
    node .ModuleDecl (seqs [expect .Mod, expect .Ident,
      ite (check .LineBreak) bump
        (when_ (check .BlockBegin) (seqs [expect .BlockBegin, call .moduleLoop, expect .BlockEnd]))])
  | .moduleLoop =>
    when_ (both (neg (check .BlockEnd)) (neg atEnd)) (seqs [progress (call .statement) .noProgressModule skip, call .moduleLoop])
  -- `parse_use_stmt`, `parse_use_path`
  | .useStmt => node .UseStmt (seqs [expect .Use, call .usePath])
  | .usePath => node .QualifiedPath (seqs [expect .Ident, call .usePathLoop])
  | .usePathLoop =>
    when_ (check .DoubleColon) (seqs [bump,
      ite (check .OpProduct) (node .UseTargetWildcard bump)                      -- `return`
        (ite (check .BlockBegin)
          (node .UseTargetMultiple (seqs [bump, when_ (check .Ident) (seqs [bump, call .useMultiLoop]), expect .BlockEnd]))  -- `return`
          (seqs [expect .Ident, call .usePathLoop]))])
  | .useMultiLoop => when_ (check .Comma) (seqs [bump, expect .Ident, call .useMultiLoop])
  -- `parse_qualified_path`
  | .qualifiedPath => node .QualifiedPath (seqs [expect .Ident, call .qualifiedPathLoop])
  | .qualifiedPathLoop => when_ (check .DoubleColon) (seqs [bump, expect .Ident, call .qualifiedPathLoop])
  -- `parse_macro_decl`
  | .macroDecl =>
    node .FunctionDecl (seqs [expect .Macro,
      when_ (check .Ident) (bumpAs .fn),
      when_ (check .ParenBegin) (call .paramList),
      when_ (check .Arrow) (seqs [bump, call .type_]),
      when_ (check .BlockBegin) (call .blockExpr)])
  -- `parse_include_stmt`, `parse_stage_decl`
  | .includeStmt => node .IncludeStmt (expectAll [.Include, .ParenBegin, .Str, .ParenEnd])
  | .stageDecl => node .StageDecl (seqs [expectAll [.Sharp, .StageKwd, .ParenBegin], expects [.Main, .Macro], expect .ParenEnd])
  -- `parse_macro_expansion`
  | .macroExpansion =>
    node .MacroExpansion (seqs [
      ite (peekIs 1 .DoubleColon) (call .qualifiedPath) (expect .Ident),
      expectAll [.MacroExpand, .ParenBegin],
      unless_ (check .ParenEnd) (seqs [call .expr, call .macroArgLoop]),
      expect .ParenEnd])
  | .macroArgLoop => sepLoop .macroArgLoop .ParenEnd (call .expr)
  -- `parse_bracket_expr`, `parse_escape_expr`
  | .bracketExpr => node .BracketExpr (seqs [expect .BackQuote, ite (check .BlockBegin) (call .blockExpr) (call .expr)])
  | .escapeExpr => node .EscapeExpr (seqs [expect .Dollar, call .prefixExpr])
  -- `parse_function_decl`
  | .functionDecl =>
    node .FunctionDecl (seqs [expect .Function,
      ite (check .Ident) (bumpAs .fn) (errorExpected .ident),
      ite (check .ParenBegin) (call .paramList) (errorExpected .parenBegin),
      when_ (check .Arrow) (seqs [bump, call .type_]),
      ite (check .BlockBegin) (call .blockExpr) (errorExpected .blockBegin)])
  -- `parse_let_decl`, `parse_letrec_decl`
  | .letDecl =>
    node .LetDecl (seqs [expect .Let, call .pattern, when_ (check .Colon) (call .typeAnnotation), ifExpect .Assign (call .expr)])
  | .letrecDecl => node .LetRecDecl (seqs [expectAll [.LetRec, .Ident], ifExpect .Assign (call .expr)])
  -- `parse_pattern`, `parse_tuple_pattern`, `parse_record_pattern`
  | .pattern =>
    switch [([.Ident, .PlaceHolder], node .SinglePattern bump), ([.ParenBegin], call .tuplePattern),
            ([.BlockBegin], call .recordPattern), ([.BackQuote], node .CodeType (seqs [expect .BackQuote, call .type_]))]
      (seqs [errIfSome .pattern, bump])
  | .tuplePattern =>
    node .TuplePattern (seqs [expect .ParenBegin,
      unless_ (check .ParenEnd) (seqs [call .pattern, call .tuplePatternLoop]), expect .ParenEnd])
  | .tuplePatternLoop => sepLoop .tuplePatternLoop .ParenEnd (call .pattern)
  | .recordPattern =>
    node .RecordPattern (seqs [expect .BlockBegin,
      unless_ (check .BlockEnd) (seqs [expectAll [.Ident, .Assign], call .pattern, call .recordPatternLoop]), expect .BlockEnd])
  | .recordPatternLoop => sepLoop .recordPatternLoop .BlockEnd (seqs [expectAll [.Ident, .Assign], call .pattern])
  -- `parse_param_list`
  | .paramList => node .ParamList (seqs [expect .ParenBegin, call .paramLoop, expect .ParenEnd])
  | .paramLoop =>
    when_ (both (neg (check .ParenEnd)) (neg atEnd)) (seqs [
      when_ (check .Ident) (seqs [bumpAs .param,
        when_ (check .Colon) (call .typeAnnotation),
        when_ (check .Assign) (node .ParamDefault (seqs [expect .Assign, callA .exprPrec (.const 1)]))]),
      when_ (check .Comma) (seqs [bump, call .paramLoop])])                       -- `else { break }`
  -- `parse_expr`, `parse_assignment_expr`
  | .expr => call .assignmentExpr
  | .assignmentExpr =>
    seqs [callA .exprPrec (.const 0),
      when_ (check .Assign) (node .AssignExpr (seqs [expect .Assign, callA .exprPrec (.const 0)]))]
  -- `parse_expr_with_precedence(min_prec)` and its `while let Some(token_kind) = self.peek()`
  | .exprPrec => seqs [setBMarker, call .prefixExpr, unless_ stmtBreak (call .prattLoop)]
  | .prattLoop =>
    when_ isInfix (unless_ infixBelowA (seqs [
      nodeAtB .BinaryExpr (seqs [bump, callA .exprPrec .prevPrecPlus1]),
      setBMarkerPred,
      unless_ stmtBreak (call .prattLoop)]))
  -- `parse_expr_with_precedence_no_linebreak(min_prec)`
  | .exprPrecNoLb => seqs [setBMarker, call .prefixExpr, call .prattLoopNoLb]
  | .prattLoopNoLb =>
    when_ isInfix (unless_ infixBelowA (seqs [
      nodeAtB .BinaryExpr (seqs [bump, callA .exprPrecNoLb .prevPrecPlus1]),
      setBMarkerPred,
      call .prattLoopNoLb]))
  -- `parse_prefix_expr` (`get_prefix_precedence`), `parse_unary_expr`
  | .prefixExpr => ite (peekIn 0 [.OpMinus, .OpSum, .Dollar, .BackQuote]) (call .unaryExpr) (call .postfixExpr)
  | .unaryExpr =>
    switch [([.BackQuote], call .bracketExpr), ([.Dollar], call .escapeExpr)]
      (node .UnaryExpr (seqs [
        when_ (both (peekIn 0 [.OpSum, .OpMinus]) prevAdjOp) (err (.syntax .consecutiveOps)),
        bump, call .prefixExpr]))
  -- `parse_postfix_expr` and its `loop`
  | .postfixExpr => seqs [setBMarker, call .primary, call .postfixLoop]
  | .postfixLoop =>
    unless_ nl (switch [
      ([.ParenBegin], seqs [nodeAtB .CallExpr (call .argList), setBMarkerPred, call .postfixLoop]),
      ([.Dot], seqs [nodeAtB .FieldAccess (seqs [bump, expects [.Ident, .Int]]), setBMarkerPred, call .postfixLoop]),
      ([.ArrayBegin], seqs [nodeAtB .IndexExpr (seqs [bump, call .expr, expect .ArrayEnd]), setBMarkerPred, call .postfixLoop])]
      skip)
  -- `parse_arg_list`
  | .argList =>
    node .ArgList (seqs [expect .ParenBegin,
      unless_ (check .ParenEnd) (seqs [callA .exprPrecNoLb (.const 0), call .argLoop]), expect .ParenEnd])
  | .argLoop => sepLoop .argLoop .ParenEnd (callA .exprPrecNoLb (.const 0))
  -- `parse_type_annotation`, `parse_type`, `parse_type_union`
  | .typeAnnotation => node .TypeAnnotation (seqs [expect .Colon, call .type_])
  | .type_ =>
    ite (both (check .ParenBegin) (look .typeArrowAhead))
      (node .FunctionType (seqs [call .typeTupleOrParen, expect .Arrow, call .type_]))    -- `return`
      (call .typeUnion)
  | .typeUnion =>
    seqs [setBMarker, call .typePrimary,
      when_ (both (check .LambdaArgBeginEnd) isTypeStartAfterPipe) (nodeAtB .UnionType (call .typeUnionLoop))]
  | .typeUnionLoop =>
    when_ (both (check .LambdaArgBeginEnd) isTypeStartAfterPipe) (seqs [bump, call .typePrimary, call .typeUnionLoop])
  -- `parse_type_primary`
  | .typePrimary =>
    switch [([.FloatType, .IntegerType, .StringType], node .PrimitiveType bump),
            ([.ParenBegin], call .typeTupleOrParen),
            ([.BlockBegin], call .typeRecord),
            ([.ArrayBegin], node .ArrayType (seqs [expect .ArrayBegin, call .type_, expect .ArrayEnd])),
            ([.BackQuote], node .CodeType (seqs [expect .BackQuote, call .type_])),
            ([.Ident], node .TypeIdent (seqs [bump, call .typeIdentLoop]))]
      (unless_ atEnd (seqs [err (.tokOrEof (.text .type_)), bump]))
  | .typeIdentLoop =>
    when_ (check .DoubleColon) (seqs [bump,
      ite (check .Ident) (seqs [bump, call .typeIdentLoop]) (err (.tokOrEof (.text .identAfterColons)))])   -- `break`
  -- `parse_type_tuple_or_paren`
  | .typeTupleOrParen =>
    ite (look .isTupleType)
      (node .TupleType (seqs [expect .ParenBegin,
        unless_ (check .ParenEnd) (seqs [call .type_, call .typeTupleLoop]), expect .ParenEnd]))
      (ite (peekIs 1 .ParenEnd) (node .UnitType (seqs [expect .ParenBegin, expect .ParenEnd]))
        (seqs [bump, call .type_, expect .ParenEnd]))
  | .typeTupleLoop => sepLoop .typeTupleLoop .ParenEnd (call .type_)
  -- `parse_type_record`
  | .typeRecord =>
    node .RecordType (seqs [expect .BlockBegin,
      unless_ (check .BlockEnd) (seqs [expectAll [.Ident, .Colon], call .type_, call .typeRecordLoop]), expect .BlockEnd])
  | .typeRecordLoop => sepLoop .typeRecordLoop .BlockEnd (seqs [expectAll [.Ident, .Colon], call .type_])
  -- `parse_primary`
  | .primary =>
    switch [([.Int], node .IntLiteral bump), ([.Float], node .FloatLiteral bump), ([.Str], node .StringLiteral bump),
            ([.SelfLit], node .SelfLiteral bump), ([.Now], node .NowLiteral bump), ([.SampleRate], node .SampleRateLiteral bump),
            ([.LambdaArgBeginEnd], call .lambdaExpr),
            ([.Ident], ite (look .macroAfterPath) (call .macroExpansion)
                        (ite (peekIs 1 .DoubleColon) (call .qualifiedPath) (node .Identifier bump))),
            ([.ArrayBegin], call .arrayExpr),
            ([.ParenBegin], ite (look .isTupleExpr) (call .tupleExpr)
                              (node .ParenExpr (seqs [bump, call .expr, expect .ParenEnd]))),
            ([.BlockBegin], ite isRecordExpr (call .recordExpr) (call .blockExpr)),
            ([.If], call .ifExpr), ([.Match], call .matchExpr),
            ([.PlaceHolder], node .PlaceHolderLiteral bump),
            ([.BlockEnd, .ParenEnd, .ArrayEnd], errIfSome .expression)]
      (ite (either (peekNone 0) (check .Eof)) (err (.eof (.text .expression)))
        (seqs [errIfSome .expression, bump]))
  -- `parse_lambda_expr`
  | .lambdaExpr =>
    node .LambdaExpr (seqs [expect .LambdaArgBeginEnd, call .lambdaParamLoop, expect .LambdaArgBeginEnd,
      when_ (check .Arrow) (seqs [bump, call .type_]),
      unless_ atEnd (ite (check .BlockBegin) (call .blockExpr) (call .expr))])
  | .lambdaParamLoop =>
    when_ (both (neg (check .LambdaArgBeginEnd)) (neg atEnd)) (seqs [
      ite (check .Ident) (seqs [bumpAs .param, when_ (check .Colon) (call .typeAnnotation)]) bump,
      ite (check .Comma) (seqs [bump, call .lambdaParamLoop])
        (ite (neg (check .LambdaArgBeginEnd)) skip (call .lambdaParamLoop))])     -- `break`
  -- `parse_tuple_expr`
  | .tupleExpr =>
    node .TupleExpr (seqs [expect .ParenBegin,
      unless_ (check .ParenEnd) (seqs [call .expr, call .tupleExprLoop]), expect .ParenEnd])
  | .tupleExprLoop => sepLoop .tupleExprLoop .ParenEnd (call .expr)
  -- `parse_record_expr`
  | .recordExpr =>
    node .RecordExpr (seqs [expect .BlockBegin,
      unless_ (check .BlockEnd)
        (ite (both (check .Ident) (peekIs 1 .LeftArrow))
          (seqs [call .expr, expect .LeftArrow, recField, call .recordUpdateLoop])
          (seqs [ite (check .DoubleDot) bump recField, call .recordFieldLoop])),
      expect .BlockEnd])
  | .recordUpdateLoop => sepLoop .recordUpdateLoop .BlockEnd recField
  | .recordFieldLoop =>
    when_ (check .Comma) (seqs [bump,
      ite (neg (check .BlockEnd))
        (ite (check .DoubleDot) bump                                               -- `break`
          (seqs [recField, call .recordFieldLoop]))
        (call .recordFieldLoop)])
  -- `parse_block_expr`
  | .blockExpr => node .BlockExpr (seqs [expect .BlockBegin, call .blockLoop, expect .BlockEnd])
  | .blockLoop =>
    when_ (both (neg (check .BlockEnd)) (neg atEnd)) (seqs [progress (call .statement) .noProgressBlock skip, call .blockLoop])
  -- `parse_if_expr`
  | .ifExpr =>
    node .IfExpr (seqs [expect .If, call .expr,
      ite (check .BlockBegin) (call .blockExpr) (call .expr),
      when_ (check .Else) (seqs [bump,
        ite (check .If) (call .ifExpr) (ite (check .BlockBegin) (call .blockExpr) (call .expr))])])
  -- `parse_match_expr`, `parse_match_arm`
  | .matchExpr =>
    node .MatchExpr (seqs [expect .Match, call .expr, expect .BlockBegin,
      node .MatchArmList (call .matchArmLoop), expect .BlockEnd])
  | .matchArmLoop =>
    when_ (both (neg (check .BlockEnd)) (neg atEnd)) (seqs [
      progress (call .matchArm) .noProgressMatchArm (unless_ nl (when_ (check .Comma) bump)),
      call .matchArmLoop])
  | .matchArm =>
    node .MatchArm (seqs [call .matchPattern, expect .FatArrow, ite (check .BlockBegin) (call .blockExpr) (call .expr)])
  -- `parse_match_pattern`, `parse_match_tuple_pattern`
  | .matchPattern =>
    node .MatchPattern (switch [
      ([.Int], node .IntLiteral bump), ([.Float], node .FloatLiteral bump), ([.PlaceHolder], node .PlaceHolderLiteral bump),
      ([.ParenBegin], call .matchTuplePattern),
      ([.Ident, .FloatType, .StringType, .IntegerType],
        node .ConstructorPattern (seqs [node .Identifier bump,
          when_ (check .ParenBegin)
            (ite isTuplePatternInCtor (call .tuplePattern)
              (seqs [bump,
                ite (check .Ident) (node .Identifier bump)
                  (ite (check .PlaceHolder) (node .PlaceHolderLiteral bump)
                    (when_ (check .ParenBegin) (call .tuplePattern))),
                expect .ParenEnd]))]))]
      (seqs [errIfSome .matchPattern, bump]))
  | .matchTuplePattern =>
    node .TuplePattern (seqs [expect .ParenBegin,
      unless_ (check .ParenEnd) (seqs [call .matchPattern, call .matchTuplePatternLoop]), expect .ParenEnd])
  | .matchTuplePatternLoop => sepLoop .matchTuplePatternLoop .ParenEnd (call .matchPattern)
  -- `parse_type_decl`, `parse_type_alias_decl`, `parse_variant_def`
  | .typeDecl =>
    node .TypeDecl (seqs [expect .Type, when_ (check .Rec) bump, expect .Ident, expect .Assign,
      call .variantDef, call .typeDeclLoop])
  | .typeDeclLoop => when_ (check .LambdaArgBeginEnd) (seqs [bump, call .variantDef, call .typeDeclLoop])
  | .typeAliasDecl => node .TypeDecl (seqs [expect .Type, expect .Alias, expect .Ident, expect .Assign, call .type_])
  | .variantDef =>
    node .VariantDef (seqs [expect .Ident,
      when_ (check .ParenBegin) (seqs [bump, call .type_, when_ (check .Comma) (call .variantLoop), expect .ParenEnd])])
  | .variantLoop => sepLoop .variantLoop .ParenEnd (call .type_)
  -- `parse_array_expr`
  | .arrayExpr =>
    node .ArrayExpr (seqs [expect .ArrayBegin,
      unless_ (check .ArrayEnd) (seqs [call .expr, call .arrayLoop]), expect .ArrayEnd])
  | .arrayLoop => sepLoop .arrayLoop .ArrayEnd (call .expr)

/-! ## Parser state and the interpreter -/

/-- what the parser reads but never writes -/
structure Env where
  /-- builder environment of `Model/CstBuilder.lean`: `tokens[i].length` and `preparsed.token_indices` -/
  cst : Cst.Env
  /-- `preparsed.token_indices` again, as an array (`peek_ahead` is the hot path of the driver) -/
  idx : Array Nat
  /-- `has_trailing_linebreak()` as a function of the cursor (the trivia maps of `preparse`, see `mkEnv`) -/
  nl : Nat → Bool

/-- `Parser` -/
structure St where
  b : PState                  -- `builder.stack`, `current`, last result of `finish_node`
  kinds : Array Kind          -- `tokens[i].kind` (relabelled by `bumpAs`)
  errs : List PErr := []      -- `errors`, newest first
  ra : Nat := 0               -- `min_prec` of the running `parse_expr_with_precedence*`
  rb : Nat := 0               -- `lhs_marker.pos` / `marker.pos`
  oof : Bool := false         -- GHOST: the fuel of `go` ran out somewhere

/-- `get_infix_precedence` -/
def infixPrec : Kind → Option Nat
  | .OpPipeMacro | .OpPipe => some 2
  | .OpOr => some 3
  | .OpAnd => some 4
  | .OpEqual | .OpNotEqual => some 5
  | .OpLessThan | .OpLessEqual | .OpGreaterThan | .OpGreaterEqual => some 6
  | .OpSum | .OpMinus => some 7
  | .OpProduct | .OpDivide | .OpModulo => some 8
  | .OpExponent => some 9
  | .OpAt => some 10
  | _ => none

variable (E : Env)

/-- `peek_ahead(n)` -/
def peekAhead (s : St) (n : Nat) : Option Kind :=
  match E.idx[s.b.current + n]? with
  | none => none
  | some i => s.kinds[i]?

/-- `peek()` -/
abbrev peek (s : St) : Option Kind := peekAhead E s 0

/-- `current_token_index()` -/
def currentTokenIndex (s : St) : Nat := (E.idx[s.b.current]?).getD 0

/-- `is_at_end()` -/
def isAtEnd (s : St) : Bool :=
  match peek E s with
  | none => true
  | some k => k == .Eof

/-- `prev_kind_if_adjacent()` -/
def prevKindIfAdjacent (s : St) : Option Kind :=
  if s.b.current = 0 then none
  else match E.idx[s.b.current]?, E.idx[s.b.current - 1]? with
    | some c, some p => if c = p + 1 then s.kinds[p]? else none
    | _, _ => none

/-- `builder.marker().pos` -/
def marker (s : St) : Nat :=
  match s.b.stack with
  | [] => 0
  | f :: _ => f.children.length

/-- `find_macro_expand_after_path`: after the first `Ident`, `(:: Ident)*` then `!` -/
def macroScan (s : St) : Nat → Nat → Bool
  | 0, _ => false
  | fuel + 1, off =>
    if peekAhead E s off = some .DoubleColon then
      if peekAhead E s (off + 1) = some .Ident then macroScan s fuel (off + 2) else false
    else peekAhead E s off = some .MacroExpand

/-- the `for i in 1..MAX_LOOKAHEAD` of `parse_type`; `n` = iterations left -/
def arrowScan (s : St) : Nat → Nat → Nat → Bool
  | 0, _, _ => false
  | n + 1, i, depth =>
    match peekAhead E s i with
    | some .ParenBegin => arrowScan s n (i + 1) (depth + 1)
    | some .ParenEnd =>
      if depth = 0 then peekAhead E s (i + 1) = some .Arrow else arrowScan s n (i + 1) (depth - 1)
    | none => false
    | _ => arrowScan s n (i + 1) depth

/-- the `(1..MAX_LOOKAHEAD).find_map(…)` of `parse_type_tuple_or_paren` -/
def tupleTypeScan (s : St) : Nat → Nat → Nat → Bool
  | 0, _, _ => false
  | n + 1, i, depth =>
    match peekAhead E s i with
    | some .ParenBegin => tupleTypeScan s n (i + 1) (depth + 1)
    | some .ParenEnd => if depth = 0 then false else tupleTypeScan s n (i + 1) (depth - 1)
    | some .Comma => if depth = 0 then true else tupleTypeScan s n (i + 1) depth
    | none => false
    | _ => tupleTypeScan s n (i + 1) depth

/-- the `for i in 1..` of `is_tuple_expr` (ends at `None`; fuel = number of tokens left + 1) -/
def tupleExprScan (s : St) : Nat → Nat → Nat → Bool → Bool
  | 0, _, _, _ => false
  | fuel + 1, i, depth, inLam =>
    match peekAhead E s i with
    | none => false
    | some k =>
      if k = .ParenBegin || k = .BlockBegin || k = .ArrayBegin then tupleExprScan s fuel (i + 1) (depth + 1) inLam
      else if k = .ParenEnd && depth = 0 then false
      else if k = .ParenEnd || k = .BlockEnd || k = .ArrayEnd then tupleExprScan s fuel (i + 1) (depth - 1) inLam
      else if k = .LambdaArgBeginEnd && depth = 0 then tupleExprScan s fuel (i + 1) depth (!inLam)
      else if k = .Comma && depth = 0 && !inLam then true
      else tupleExprScan s fuel (i + 1) depth inLam

def evalLook (s : St) : Look → Bool
  | .macroAfterPath => peekAhead E s 0 = some .Ident && macroScan E s (E.idx.size + 1) 1
  | .typeArrowAhead => arrowScan E s (Mimium.Gen.maxLookahead - 1) 1 0
  | .isTupleType => tupleTypeScan E s (Mimium.Gen.maxLookahead - 1) 1 0
  | .isTupleExpr => tupleExprScan E s (E.idx.size + 1) 1 0 false

def evalCond (s : St) : Cond → Bool
  | .peekIn n ks => match peekAhead E s n with | some k => ks.contains k | none => false
  | .peekNone n => (peekAhead E s n).isNone
  | .atEnd => isAtEnd E s
  | .nl => E.nl s.b.current
  | .isInfix => match peek E s with | some k => (infixPrec k).isSome | none => false
  | .infixBelowA => match peek E s with
      | some k => (match infixPrec k with | some p => decide (p < s.ra) | none => false)
      | none => false
  | .aZero => s.ra == 0
  | .prevAdjOp => match prevKindIfAdjacent E s with
      | some k => [Kind.OpSum, .OpMinus, .OpProduct, .OpDivide, .OpModulo, .OpExponent].contains k
      | none => false
  | .look l => evalLook E s l
  | .neg c => !evalCond s c
  | .both c d => evalCond s c && evalCond s d
  | .either c d => evalCond s c || evalCond s d

def evalA (s : St) : AExpr → Nat
  | .const n => n
  | .prevPrecPlus1 =>
    match E.idx[s.b.current - 1]? with
    | some i => (match s.kinds[i]? with | some k => ((infixPrec k).getD 0) + 1 | none => 1)
    | none => 1

def mkErr (s : St) : ErrSpec → PErr
  | .tok e => ⟨currentTokenIndex E s, .unexpectedToken e (peek E s)⟩
  | .tokOrEof e => ⟨currentTokenIndex E s, .unexpectedToken e (some ((peek E s).getD .Eof))⟩
  | .eof e => ⟨currentTokenIndex E s, .unexpectedEof e⟩
  | .syntax r => ⟨currentTokenIndex E s, .invalidSyntax r⟩

/-- a builder primitive of `Model/CstBuilder.lean` on the parser state -/
def prim (s : St) (o : Cst.Op) : St := { s with b := Cst.exec E.cst s.b o }

def addErr (s : St) (e : ErrSpec) : St := { s with errs := mkErr E s e :: s.errs }

/-- `tokens[token_indices[current]].kind = k` (no-op when the cursor is past the end) -/
def relabel (s : St) (k : Kind) : St :=
  match E.idx[s.b.current]? with
  | some i => { s with kinds := s.kinds.setIfInBounds i k }
  | none => s

/-- interpreter of a body; `rec` runs a tag (with one unit of fuel less).  The callee inherits the registers, the caller's are
restored on return (they are locals of the Rust function). -/
def exec (rec : Tag → St → St) : Cmd → St → St
  | .skip, s => s
  | .seq c d, s => exec rec d (exec rec c s)
  | .ite c t e, s => if evalCond E s c then exec rec t s else exec rec e s
  | .node k c, s => prim E (exec rec c (prim E s (.startNode k.toNat))) .finishNode
  | .nodeAtB k c, s => prim E (exec rec c (prim E s (.startNodeAt s.rb k.toNat))) .finishNode
  | .bump, s => prim E s .bump
  | .bumpAs r, s => prim E (relabel E s r.kind) .bump
  | .err e, s => addErr E s e
  | .call t, s => { rec t s with ra := s.ra, rb := s.rb }
  | .callA t a, s => { rec t { s with ra := evalA E s a } with ra := s.ra, rb := s.rb }
  | .setBMarker, s => { s with rb := marker s }
  | .setBMarkerPred, s => { s with rb := marker s - 1 }
  | .progress c r e, s =>
    let s1 := exec rec c s
    if s1.b.current = s.b.current && !isAtEnd E s1 then prim E (addErr E s1 (.syntax r)) .bump
    else exec rec e s1

/-- the recursion of the grammar: `fuel` bounds the nesting of tag calls -/
def go : Nat → Tag → St → St
  | 0, _, s => { s with oof := true }
  | fuel + 1, t, s => exec E (go fuel) (body t) s

/-- `Parser::new` -/
def init (kinds : Array Kind) : St := { b := { stack := [], current := 0 }, kinds := kinds }

/-- `Parser::parse`: `start_node(Program)`, the statement loop, `finish_node()` -/
def parse (fuel : Nat) (kinds : Array Kind) : St :=
  prim E (go E fuel .programLoop (prim E (init kinds) (.startNode SK.Program.toNat))) .finishNode

/-! ## The environment built from the token list and `preparse` -/

open Mimium.Preparse in
/-- `has_trailing_linebreak()` with the cursor at `cur`: a `LineBreak` among the trailing trivia of the previous syntax token or
among the leading trivia of the current one -/
def hasTrailingLinebreak (ks : Array Kind) (pre : Preparse.Result) (cur : Nat) : Bool :=
  if cur = 0 then false
  else (lookup pre.trailing (cur - 1)).any (fun i => ks[i]? == some Kind.LineBreak) ||
       (lookup pre.leading cur).any (fun i => ks[i]? == some Kind.LineBreak)

/-- the parser's read-only inputs for the token list `ks` (kinds) / `widths` (lengths) and `pre = preparse ks`; the line-break
oracle is tabulated once for the cursor positions `0 … #syntax tokens` -/
def mkEnv (ks : List Kind) (widths : List Nat) (pre : Preparse.Result) : Env :=
  let ka := ks.toArray
  let tab : Array Bool := Array.ofFn (n := pre.tokenIndices.length + 1) (fun i => hasTrailingLinebreak ka pre i.val)
  { cst := ⟨widths, pre.tokenIndices⟩
    idx := pre.tokenIndices.toArray
    nl := fun c => if h : c < tab.size then tab[c] else hasTrailingLinebreak ka pre c }

/-- fuel that is always enough (`C04_parser_terminates`): `rankBound` nested calls per syntax token -/
def rankBound : Nat := 22
def fuelBound (nSyntax : Nat) : Nat := rankBound * (nSyntax + 1) + 1

/-- `parse_cst(tokens, &preparse(tokens))` on kinds and lengths -/
def parseTokens (ks : List Kind) (widths : List Nat) : St :=
  let pre := Preparse.preparse ks
  parse (mkEnv ks widths pre) (fuelBound pre.tokenIndices.length) ks.toArray

end Mimium.Grammar
