import Mimium.Model.CstPrint
/-!
# What the printer must keep: content of a document, expected content of a tree, and the class `keepsAll`

* `NItem` / `norm`: the printer's DELIBERATE edits of the token sequence (`normTokens`).  A text leaf of the document is compared
  after normalisation: a comma — the token or the re-created `","` — is erased (the printer re-creates every comma of a list: kept
  between items, the trailing one dropped unless a comment hangs on it; `joinListItems` is the exact rule; the comma of `(x,)` is the
  token itself); the
  `{` of a block is the literal `"{"` (`brace`) whether it comes from the token or from `allocator.text("{")`; the other literals
  (`" "`, `"/* error */"`) are layout.  Every other token and every comment is `idx i`, its raw token index.
* `content c d`: the normalised text leaves of a symbolic document; `expected c g`: for every token leaf of the tree, in order, its
  leading comments, the token, its trailing comments (from the trivia maps) — normalised the same way.
* `keepsAll c g`: the decidable class of trees on which NO loop of the printer skips a child, overwrites a slot or appends to a slot
  that precedes a non-empty one.  It is defined loop by loop by an `ok` test on (loop state, child) — the printer's own state
  machine, no second one — and evaluated by the driver on every parsed text of the correspondence run.
-/
namespace Mimium.CstPrint
open Mimium.Gen (Kind SK)
open Mimium.Cst (Green)
open SDoc

inductive NItem where
  | idx (i : Nat)
  | brace
deriving DecidableEq, Repr

/-- `normTokens` on one text leaf -/
def norm (c : Ctx) : Leaf → Option NItem
  | .tok i => if c.kind i == .Comma then none else if c.kind i == .BlockBegin then some .brace else some (.idx i)
  | .lit s => if s == "{" then some .brace else none

/-- normalised content of a document -/
def content (c : Ctx) (d : SDoc) : List NItem := d.leaves.filterMap (norm c)

/-- the comments among trivia indices -/
def triviaItems (c : Ctx) (is : List Nat) : List NItem := (is.filter (isComment c)).map .idx

/-- what must be printed for the syntax token with raw index `ti`: leading comments, the token, trailing comments -/
def tokItems (c : Ctx) (ti : Nat) : List NItem :=
  triviaItems c (leadingTrivia c ti) ++ (norm c (.tok ti)).toList ++ triviaItems c (trailingTrivia c ti)

/-- expected content of a tree: its token leaves in order, each with its comments -/
def expected (c : Ctx) (g : Green) : List NItem := g.leaves.flatMap (tokItems c)
def expectedL (c : Ctx) (gs : List Green) : List NItem := (Cst.leavesL gs).flatMap (tokItems c)

/-- content of the children's documents, in order -/
def chContent (c : Ctx) (cs : List Ch) : List NItem := cs.flatMap (fun ch => content c ch.2)

def emp (c : Ctx) (d : SDoc) : Bool := (content c d).isEmpty

/-! ## Lists with re-created commas -/

def sepC (c : Ctx) (s : CC) : List NItem := content c s.lead ++ content c s.trail

/-- items and the comments of their commas, interleaved -/
def zipC (c : Ctx) : List SDoc → List CC → List NItem
  | [], _ => []
  | item :: rest, seps => content c item ++ (match seps.head? with | some s => sepC c s | none => []) ++ zipC c rest seps.tail

/-! ## The loops: what the state holds (`held`), when an iteration keeps its child (`ok`), when the end is fine (`fin`) -/

def letHeld (c : Ctx) (st : LetSt) : List NItem := content c st.result ++ st.rhs.flatMap (content c)
def letOk (c : Ctx) (kw : Kind) (st : LetSt) (ch : Ch) : Bool :=
  let k := tokKind c ch.1
  if k == some kw || k == some .Assign then st.rhs.isEmpty
  else if st.seenLet && !st.seenEq then st.rhs.isEmpty
  else st.seenEq

def binHeld (c : Ctx) (st : BinSt) : List NItem := content c st.lhs ++ content c st.op ++ content c st.rhs
def binOk (c : Ctx) (st : BinSt) (ch : Ch) : Bool :=
  match tokKind c ch.1 with
  | some k => if isBinaryOperator k then emp c st.op && emp c st.rhs else if !st.seenOp then emp c st.op && emp c st.rhs else true
  | none => if !st.seenOp then emp c st.op && emp c st.rhs else true

def ifOk (c : Ctx) (st : IfSt) (ch : Ch) : Bool :=
  let k := tokKind c ch.1
  k == some .If || k == some .Else || (!st.seenCond && st.seenIf) || (!st.seenThen && st.seenCond) || st.seenElse

def blockHeld (c : Ctx) (st : BlockSt) : List NItem :=
  if st.inBody then content c st.result ++ content c st.openTrivia ++ st.body.flatMap (content c) else content c st.result
def blockOk (c : Ctx) (st : BlockSt) (ch : Ch) : Bool :=
  match ch.1 with
  | .token ti _ =>
    let k := c.kind ti
    if k == .BlockBegin then
      !st.inBody && st.body.isEmpty && emp c st.openTrivia && !st.hasOpenTrivia
    else if k == .BlockEnd then st.inBody && (st.hasOpenTrivia || emp c st.openTrivia)
    else st.inBody
  | .node _ _ => st.inBody

def listHeld (c : Ctx) (st : ListSt) : List NItem :=
  content c st.openDoc ++ zipC c st.items st.seps ++ (match st.current with | some d => content c d | none => []) ++ content c st.closeDoc
def listOk (c : Ctx) (st : ListSt) (ch : Ch) : Bool :=
  match ch.1 with
  | .token ti _ =>
    let k := c.kind ti
    if isOpenDelim k && st.foundOpen then emp c st.closeDoc && st.seps.length == st.items.length
    else if isOpenDelim k then st.items.isEmpty && st.seps.isEmpty && st.current.isNone && emp c st.openDoc && emp c st.closeDoc
    else if isCloseDelim k && st.depth > 0 then st.foundOpen && emp c st.closeDoc && st.seps.length == st.items.length
    else if isCloseDelim k then emp c st.closeDoc
    else if k == .Comma && st.depth == 0 then st.current.isSome && st.seps.length == st.items.length && emp c st.closeDoc
    else st.foundOpen && emp c st.closeDoc && st.seps.length == st.items.length
  | .node _ _ => st.foundOpen && emp c st.closeDoc && st.seps.length == st.items.length

def recHeld (c : Ctx) (st : RecSt) : List NItem :=
  content c st.openDoc ++ zipC c st.fields st.seps ++ (if st.inBody then content c st.current else []) ++ content c st.closeDoc
def recOk (c : Ctx) (st : RecSt) (ch : Ch) : Bool :=
  match ch.1 with
  | .token ti _ =>
    let k := c.kind ti
    if k == .BlockBegin then
      !st.inBody && st.fields.isEmpty && st.seps.isEmpty && emp c st.current && !st.hasCurrent && emp c st.openDoc && emp c st.closeDoc
    else if k == .BlockEnd then
      st.inBody && emp c st.closeDoc && (st.hasCurrent || emp c st.current) && st.seps.length ≤ st.fields.length
    else if k == .Comma && st.inBody then st.hasCurrent && st.seps.length == st.fields.length && emp c st.closeDoc
    else st.inBody && emp c st.closeDoc && st.seps.length == st.fields.length
  | .node _ _ => st.inBody && emp c st.closeDoc && st.seps.length == st.fields.length

def macHeld (c : Ctx) (st : MacSt) : List NItem :=
  content c st.result ++ content c st.openDoc ++ zipC c st.args st.seps ++ content c st.closeDoc
/-- appending to `result` is in order only while nothing of the argument list has been seen -/
def macFresh (c : Ctx) (st : MacSt) : Bool := emp c st.openDoc && st.args.isEmpty && st.seps.isEmpty && emp c st.closeDoc
def macOk (c : Ctx) (st : MacSt) (ch : Ch) : Bool :=
  match ch.1 with
  | .token ti _ =>
    let k := c.kind ti
    if (k == .Ident || k == .IdentFunction) && !st.inArgs then macFresh c st
    else if k == .MacroExpand then macFresh c st
    else if k == .ParenBegin then macFresh c st
    else if k == .ParenEnd then emp c st.closeDoc
    else if k == .Comma && st.inArgs then st.seps.length + 1 == st.args.length && emp c st.closeDoc
    else if st.inArgs then emp c st.closeDoc && st.seps.length == st.args.length else macFresh c st
  | .node _ _ => if st.inArgs then emp c st.closeDoc && st.seps.length == st.args.length else macFresh c st

def lamHeld (c : Ctx) (st : LamSt) : List NItem :=
  content c st.result ++ (if st.inParams then zipC c st.params st.seps ++ content c st.current else [])
def lamOtherOk (st : LamSt) : Bool := st.inParams || st.afterParams
def lamOk (c : Ctx) (st : LamSt) (ch : Ch) : Bool :=
  match ch.1 with
  | .token ti _ =>
    let k := c.kind ti
    if k == .LambdaArgBeginEnd then
      if !st.inParams && !st.afterParams then st.params.isEmpty && st.seps.isEmpty && emp c st.current
      else if st.inParams then (st.hasParamContent || emp c st.current) && st.seps.length ≤ st.params.length
      else false
    else if k == .Comma && st.inParams then st.hasParamContent && st.seps.length == st.params.length
    else if k == .Arrow && st.afterParams then !st.inParams
    else lamOtherOk st
  | .node _ _ => lamOtherOk st

def useMultiHeld (c : Ctx) (st : UseSt) : List NItem :=
  content c st.openDoc ++ zipC c st.items st.seps ++ content c st.closeDoc
def useMultiOk (c : Ctx) (st : UseSt) (ch : Ch) : Bool :=
  match ch.1 with
  | .token ti _ =>
    let k := c.kind ti
    if k == .BlockBegin then st.items.isEmpty && st.seps.isEmpty && emp c st.openDoc && emp c st.closeDoc
    else if k == .BlockEnd then emp c st.closeDoc
    else if k == .Comma then st.seps.length + 1 == st.items.length && emp c st.closeDoc
    else st.foundOpen && emp c st.closeDoc && st.seps.length == st.items.length
  | .node _ _ => st.foundOpen && emp c st.closeDoc && st.seps.length == st.items.length

def useOk (st : SDoc × Bool) (ch : Ch) : Bool :=
  if isNodeOf ch.1 [.QualifiedPath, .UseTargetMultiple, .UseTargetWildcard] then st.2 else true

/-- `ok` at every iteration of a loop -/
def allOk {σ : Type} (step : σ → Ch → σ) (ok : σ → Ch → Bool) : σ → List Ch → Bool
  | _, [] => true
  | st, ch :: cs => ok st ch && allOk step ok (step st ch) cs

/-! ## The class -/

/-- the print function keeps every child of a node with these children -/
def pfKeeps (c : Ctx) : PF → List Ch → Bool
  | .letDecl, cs => allOk (letStep c .Let) (letOk c .Let) {} cs
  | .letrecDecl, cs => allOk (letStep c .LetRec) (letOk c .LetRec) {} cs
  | .binaryExpr, cs => allOk (binStep c) (binOk c) {} cs
  | .lambdaExpr, cs => allOk (lamStep c) (lamOk c) {} cs && !(cs.foldl (lamStep c) {}).inParams
  | .ifExpr, cs => allOk (ifStep c) (ifOk c) {} cs
  | .blockExpr, cs => allOk (blockStep c) (blockOk c) {} cs && !(cs.foldl (blockStep c) {}).inBody
  | .tupleExpr, cs => tupleCount c cs == (1, 1) || allOk (listStep c) (listOk c) {} cs
  | .groupedList, cs => allOk (listStep c) (listOk c) {} cs
  | .recordExpr, cs => allOk (recStep c) (recOk c) {} cs && !(cs.foldl (recStep c) {}).inBody
  | .macroExpansion, cs => allOk (macStep c) (macOk c) {} cs
  | .useTargetMultiple, cs => allOk (useMultiStep c) (useMultiOk c) {} cs
  | .useStmt, cs => allOk (useStep c) useOk (nil, false) cs
  | .qualifiedPath, cs => cs.all fun ch => match tokKind c ch.1 with | some k => isIdentLike k || k == .DoubleColon | none => true
  | .useTargetWildcard, cs => cs.all fun ch => match tokKind c ch.1 with | some k => k == .DoubleColon || k == .OpProduct | none => false
  | .visibilityPub, cs => cs.all fun ch => tokKind c ch.1 == some .Pub
  | .errorText, cs => (chContent c cs).isEmpty
  | _, _ => true

def nodeKeeps (c : Ctx) (kind : Nat) (cs : List Ch) : Bool :=
  match Gen.skOfNat kind with
  | some k => pfKeeps c (dispatch k) cs
  | none => false

mutual
/-- no node of the tree loses or reorders a child when printed -/
def keepsAll (c : Ctx) : Green → Bool
  | .token _ _ => true
  | .node k cs => nodeKeeps c k (chL c cs) && keepsAllL c cs
def keepsAllL (c : Ctx) : List Green → Bool
  | [] => true
  | g :: gs => keepsAll c g && keepsAllL c gs
end

mutual
/-- the first node (pre-order) that is outside the class: its syntax kind tag -/
def firstLoss (c : Ctx) : Green → Option Nat
  | .token _ _ => none
  | .node k cs => if nodeKeeps c k (chL c cs) then firstLossL c cs else some k
def firstLossL (c : Ctx) : List Green → Option Nat
  | [] => none
  | g :: gs => match firstLoss c g with | some k => some k | none => firstLossL c gs
end

end Mimium.CstPrint
