import Mimium.Model.SchedMem
/-!
# Both scheduler queues over an arbitrary heap implementation (C11)

`Model/Sched.lean` models the `BinaryHeap` of both sides as a list with a tie oracle. Here the same two loops are written
over a `HeapOps H` (`Model/SchedMem.lean`), so that they can be instantiated with the literal port of
`std::collections::BinaryHeap` (`stdHeap`): `Vm.runH stdHeap`, `W.runH stdHeap` are the VM / WASM schedulers with the
real heap algorithm inside (no oracle). `peek` + `pop` of `pop_task` / `drain_due_tasks` = `popDue`.
Closure handles are stable here (the WASM closure memory is `M.run` in `Model/SchedMem.lean`).
-/
namespace Mimium.Sched

/-! ## VM side -/

structure VmStH (σ H : Type) where
  curTime : Nat
  heap : H
  chan : List Task
  user : σ

/-- `while let Some(closure) = self.pop_task(time) { handle.execute_closure(closure) }` (fuel: heap size on entry) -/
def Vm.popLoopH {σ H : Type} (ops : HeapOps H) (env : Env σ) (now : Nat) : Nat → VmStH σ H → VmStH σ H × List Task
  | 0, st => (st, [])
  | n + 1, st =>
    match ops.popDue now st.heap with
    | none => (st, [])
    | some (x, r) =>
      let b := env.task x.id now st.user
      let res := Vm.popLoopH ops env now n { st with heap := r, chan := st.chan ++ b.2, user := b.1 }
      (res.1, x :: res.2)

/-- `VmDspRuntime::run_dsp(Time(t))`: `on_sample(t)` (drain channel, set `cur_time`, pop loop) then `dsp`. -/
def Vm.tickH {σ H : Type} (ops : HeapOps H) (env : Env σ) (t : Nat) (st : VmStH σ H) : Option (VmStH σ H × TickRec) :=
  match pushAllH ops st.curTime st.chan st.heap with
  | none => none
  | some h =>
    let st1 : VmStH σ H := { st with heap := h, chan := [], curTime := t }
    let res := Vm.popLoopH ops env t (ops.size h) st1
    let b := env.dsp t res.1.user
    let st3 : VmStH σ H := { res.1 with chan := res.1.chan ++ b.2, user := b.1 }
    some (st3, { execd := res.2, reqs := st3.chan })

def Vm.initH {σ H : Type} (ops : HeapOps H) (env : Env σ) (s0 : σ) : VmStH σ H :=
  { curTime := 0, heap := ops.empty, chan := (env.global s0).2, user := (env.global s0).1 }

def Vm.runH {σ H : Type} (ops : HeapOps H) (env : Env σ) (n : Nat) (s0 : σ) : Run (VmStH σ H) :=
  let r := runFrom (Vm.tickH ops env) n 0 (Vm.initH ops env s0)
  { greqs := (env.global s0).2, ticks := r.1, final := r.2 }

/-! ## WASM side (closure handles stable) -/

structure WStH (σ H : Type) where
  currentTime : Nat
  heap : H
  user : σ

def W.execAllH {σ H : Type} (ops : HeapOps H) (env : Env σ) (now : Nat) :
    List Task → H → σ → Option (H × σ × List Task)
  | [], h, u => some (h, u, [])
  | x :: xs, h, u =>
    let b := env.task x.id now u
    match pushAllH ops now b.2 h with
    | none => none
    | some h1 =>
      match W.execAllH ops env now xs h1 b.1 with
      | none => none
      | some (h2, u2, rq) => some (h2, u2, b.2 ++ rq)

def W.tickH {σ H : Type} (ops : HeapOps H) (env : Env σ) (t : Nat) (st : WStH σ H) : Option (WStH σ H × TickRec) :=
  let d := drainDueH ops t (ops.size st.heap) st.heap
  match W.execAllH ops env t d.1 d.2 st.user with
  | none => none
  | some (h, u, rq) =>
    let b := env.dsp t u
    match pushAllH ops t b.2 h with
    | none => none
    | some h' => some ({ currentTime := t, heap := h', user := b.1 }, { execd := d.1, reqs := rq ++ b.2 })

def W.runH {σ H : Type} (ops : HeapOps H) (env : Env σ) (n : Nat) (s0 : σ) : Run (WStH σ H) :=
  let g := env.global s0
  match pushAllH ops 0 g.2 ops.empty with
  | none => { greqs := g.2, ticks := [], final := none }
  | some h =>
    let r := runFrom (W.tickH ops env) n 0 { currentTime := 0, heap := h, user := g.1 }
    { greqs := g.2, ticks := r.1, final := r.2 }

end Mimium.Sched
