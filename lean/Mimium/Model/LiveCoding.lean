import Mimium.Model.Publish
import Mimium.Model.HotSwap
/-!
# M2g — a whole live-coding session on the reference semantics

`Model/Core.lean` runs ONE program; `Model/HotSwap.lean` + `Model/StateTree.lean` model what a hot swap does to the FLAT
state words; `Model/Publish.lean` + `Model/FlatTree.lean` say which flat words a state TREE of the reference semantics
occupies under the layout the compiler publishes.  This file composes them into the model of a session
`run … swap … run … swap …`:

* `swapState old new st` — the state tree the NEW program starts from when the OLD program is hot-swapped in state `st`:
  serialise `st` under the layout published for `old.dsp`, migrate the words the way `Machine::new_resume` does
  (`vmResume`: diff of the two published skeletons, patches applied to a zeroed storage; identical skeletons: clone),
  read the words back as a tree under the layout published for `new.dsp`;
* `swapOne` — one hot swap of a running machine: a program that has no published layout (`publishFn = none`: it does not
  compile in the model) leaves program and machine untouched; otherwise the globals are re-initialised by the new
  program's `main` (`new_resume` runs `execute_main`), the `dsp` state is `swapState`, the sample index (`now`) continues;
* `session P0 swaps inputs N` — the output words of `N` samples: before sample `t` every swap event `(t, Q)` of `swaps` is
  performed, in list order (the loop of `harness/src/bin/c06.rs`); `none` = an evaluation error or a state the model
  cannot migrate.
The WASM runtime applies the same plan to a prewarmed (all-zero `dsp`) state: `wasmSwap` = `vmResume` there, so one
model serves both runtimes.  Everything is executable (the driver `drv_c07` prints `session`), total, Mathlib-free.
-/
namespace Mimium.LiveCoding
open Mimium.Core Mimium.StateTree Mimium.FlatTree Mimium.Publish Mimium.HotSwap

/-- the storage of the runtimes as `Model/StateTree.lean` keeps it (naturals) -/
def wordsToNat (ws : List UInt64) : List Nat := ws.map (·.toNat)
def natToWords (ns : List Nat) : List UInt64 := ns.map (·.toUInt64)

/-- the migrated flat words: what `new_resume` puts into the new machine's `global_states.rawdata` -/
def swapWords (lo ln : LNode) (st : SNode) : Option (List UInt64) :=
  (vmResume (publishedSk lo) (publishedSk ln) (wordsToNat (serialize lo st))).map natToWords

/-- the state tree the new program starts from after a hot swap of the old program in state `st` -/
def swapState (old new : Prog) (st : SNode) : Option SNode :=
  match publishFn old old.dsp, publishFn new new.dsp with
  | some lo, some ln => (swapWords lo ln st).map (deserialize ln)
  | _, _ => none

/-- one hot swap of the running pair (program, machine) -/
def swapOne (fuel : Nat) (sr : UInt64) (cur : Prog) (m : Machine) (new : Prog) : Option (Prog × Machine) :=
  match publishFn new new.dsp with
  | none => some (cur, m)
  | some _ =>
    match swapState cur new m.root, Machine.init fuel new sr with
    | some root, .ok m0 => some (new, ⟨m0.store, root, m.t⟩)
    | _, _ => none

/-- several swaps in a row (events that share a sample time) -/
def swapMany (fuel : Nat) (sr : UInt64) : List Prog → Prog → Machine → Option (Prog × Machine)
  | [], P, m => some (P, m)
  | Q :: qs, P, m =>
    match swapOne fuel sr P m Q with
    | none => none
    | some (P', m') => swapMany fuel sr qs P' m'

/-- the programs swapped in before sample `t`, in the order of the event list -/
def eventsAt (swaps : List (Nat × Prog)) (t : Nat) : List Prog := (swaps.filter (·.1 == t)).map (·.2)

/-- `k` more samples of a session that currently runs `P` on machine `m` -/
def sessionFrom (fuel : Nat) (sr : UInt64) (swaps : List (Nat × Prog)) (inputs : Nat → List UInt64) :
    Nat → Prog → Machine → Option (List (List UInt64))
  | 0, _, _ => some []
  | k + 1, P, m =>
    match swapMany fuel sr (eventsAt swaps m.t) P m with
    | none => none
    | some (P', m') =>
      match Machine.step fuel P' sr m' (inputs m'.t) with
      | .error _ => none
      | .ok (o, m'') => (sessionFrom fuel sr swaps inputs k P' m'').map (o :: ·)

/-- a whole session: start `P0` (run `main`), then `N` samples with the swap events performed at their times -/
def session (fuel : Nat) (sr : UInt64) (P0 : Prog) (swaps : List (Nat × Prog)) (inputs : Nat → List UInt64) (N : Nat) :
    Option (List (List UInt64)) :=
  match Machine.init fuel P0 sr with
  | .error _ => none
  | .ok m0 => sessionFrom fuel sr swaps inputs N P0 m0

/-! ### the uninterrupted run (statement-level definitions) -/

/-- the machine after `j` samples of the uninterrupted run of `P` (`none`: an evaluation error on the way) -/
def machineAfter (fuel : Nat) (P : Prog) (sr : UInt64) (inputs : Nat → List UInt64) : Nat → Machine → Option Machine
  | 0, m => some m
  | j + 1, m =>
    match Machine.step fuel P sr m (inputs m.t) with
    | .error _ => none
    | .ok (_, m') => machineAfter fuel P sr inputs j m'

/-- `n` samples of the uninterrupted run of `P`: the outputs and the machine reached -/
def prefixRun (fuel : Nat) (P : Prog) (sr : UInt64) (inputs : Nat → List UInt64) :
    Nat → Machine → Option (List (List UInt64) × Machine)
  | 0, m => some ([], m)
  | n + 1, m =>
    match Machine.step fuel P sr m (inputs m.t) with
    | .error _ => none
    | .ok (o, m') => (prefixRun fuel P sr inputs n m').map fun r => (o :: r.1, r.2)

/-! ### the layout of ALL stateful sites (statement-level)

`pubE` publishes, for an `if`, the cells of the larger arm only (mirgen).  The reference semantics keeps a cell for every
site that was ever evaluated, in both arms; `fullE` lists them all: same rules as `pubE`, but `if c a b` = `c ++ a ++ b`.
For programs of the wide class (`noStatefulInArms`) it is the published layout plus zero-sized children of calls of
functions without state; the theorems about sessions state the conformance of the uninterrupted run against it. -/

mutual
def fullE (tbl : Table) : Expr → Option (List LCell)
  | .lit _ => some []
  | .var _ => some []
  | .now => some []
  | .samplerate => some []
  | .self => some []
  | .lam _ _ => some []
  | .un _ a => fullE tbl a
  | .proj a _ => fullE tbl a
  | .bin _ a b =>
    match fullE tbl a, fullE tbl b with
    | some s1, some s2 => some (s1 ++ s2)
    | _, _ => none
  | .letE _ a b =>
    match fullE tbl a, fullE tbl b with
    | some s1, some s2 => some (s1 ++ s2)
    | _, _ => none
  | .letTup _ a b =>
    match fullE tbl a, fullE tbl b with
    | some s1, some s2 => some (s1 ++ s2)
    | _, _ => none
  | .assign _ a b =>
    match fullE tbl a, fullE tbl b with
    | some s1, some s2 => some (s1 ++ s2)
    | _, _ => none
  | .ite c a b =>
    match fullE tbl c, fullE tbl a, fullE tbl b with
    | some sc, some sa, some sb => some (sc ++ (sa ++ sb))
    | _, _, _ => none
  | .tup es => fullL tbl es
  | .app f args =>
    match fullE tbl f, fullL tbl args with
    | some s0, some s => some (s0 ++ s)
    | _, _ => none
  | .mem a site =>
    match fullE tbl a with
    | some s => some (s ++ [.mem site])
    | none => none
  | .delay n a t site =>
    match fullE tbl a, fullE tbl t with
    | some s1, some s2 => some (s1 ++ s2 ++ [.delay site n])
    | _, _ => none
  | .call f args site =>
    match fullL tbl args, tbl f with
    | some s, some lay => some (s ++ [.child site lay.self lay.cells])
    | _, _ => none
def fullL (tbl : Table) : List Expr → Option (List LCell)
  | [] => some []
  | e :: es =>
    match fullE tbl e, fullL tbl es with
    | some s1, some s2 => some (s1 ++ s2)
    | _, _ => none
end

/-- the table of full layouts for call depth ≤ `n` -/
def tableF (P : Prog) : Nat → Table
  | 0, _ => none
  | n + 1, f =>
    match findFn P.fns f with
    | none => none
    | some d =>
      match fullE (tableF P n) d.body with
      | some cells => some ⟨d.selfShape, cells⟩
      | none => none

/-- the layout of all stateful sites of a function -/
def fullFnN (n : Nat) (P : Prog) (d : FnDecl) : Option LNode :=
  match fullE (tableF P n) d.body with
  | some cells => some ⟨d.selfShape, cells⟩
  | none => none

def fullFn (P : Prog) (d : FnDecl) : Option LNode := fullFnN P.fns.length P d

/-! ### voice programs (statement-level)

The programs of the C07 generator: `dsp() = let c_1 = f_1(k_1); …; let c_m = f_m(k_m); (c_a, c_b, …)`, every `f_i` a named
function of one argument; the functions are first order and single assignment (`simpleE`: no lambda, no application of a
closure, no assignment), the program has no globals. -/

mutual
/-- no lambda, no closure application, no assignment -/
def simpleE : Expr → Bool
  | .lit _ => true
  | .var _ => true
  | .now => true
  | .samplerate => true
  | .self => true
  | .lam _ _ => false
  | .app _ _ => false
  | .assign _ _ _ => false
  | .un _ a => simpleE a
  | .proj a _ => simpleE a
  | .bin _ a b => simpleE a && simpleE b
  | .letE _ a b => simpleE a && simpleE b
  | .letTup _ a b => simpleE a && simpleE b
  | .ite c a b => simpleE c && simpleE a && simpleE b
  | .tup es => simpleL es
  | .mem a _ => simpleE a
  | .delay _ a t _ => simpleE a && simpleE t
  | .call _ args _ => simpleL args
def simpleL : List Expr → Bool
  | [] => true
  | e :: es => simpleE e && simpleL es
end

/-- a program without globals whose named functions are `simpleE` -/
def SimpleProg (P : Prog) : Prop := P.globals = [] ∧ ∀ d ∈ P.fns, simpleE d.body = true

/-- every function `P₁` knows is the same function in `P₂` -/
def SubProg (P₁ P₂ : Prog) : Prop := ∀ f d, findFn P₁.fns f = some d → findFn P₂.fns f = some d

/-- one voice: the variable it is bound to, the function called, the constant fed, the call site -/
structure Voice where
  name : String
  f : String
  c : UInt64
  site : Nat
deriving Repr, Inhabited

/-- `let c_1 = f_1(k_1); …; out` -/
def voicesBody : List Voice → Expr → Expr
  | [], out => out
  | v :: vs, out => .letE v.name (.call v.f [.lit v.c] v.site) (voicesBody vs out)

/-- the contexts the program that contains a voice ALONE supplies to the voice's body, sample after sample: time `t, t+1, …`,
the parameter bound to the constant in an otherwise empty store (what `fn dsp(){ f(c) }` does; the oracle of the C07 check) -/
def voiceSamples (d : FnDecl) (c : UInt64) (sr : UInt64) : Nat → Nat → List (Rt × Env × Store)
  | _, 0 => []
  | t, k + 1 =>
    (⟨natToF64Bits t, sr⟩, (bindAll [] [] d.params [.num c]).1, (bindAll [] [] d.params [.num c]).2) ::
      voiceSamples d c sr (t + 1) k

/-- a program that does not compile (syntax error, …): it has no published layout, so swapping to it is refused -/
def brokenProg : Prog := ⟨[], [], ⟨"dsp", [], .call "" [] 0, none⟩⟩

end Mimium.LiveCoding
