import Mimium.Model.Stage
/-!
`toCoreProg`: reading an expanded tree (the `let` chain the compiler goes on with after the macro stage) back into the
core language of `Model/Core.lean`, so that the reference evaluator gives it a meaning. Total and structurally
recursive (usable under `decide`). Operators are applications of `add`/`sub`/…; `mem`/`delay`/calls of top-level
functions become the stateful constructs of the core language, each occurrence with its own site number (state is per
textual site of the *expanded* code); `feed x` at the top of a function body is the function's `self`.
-/
namespace Mimium.Stage
open Mimium.Core (Shape)

def opOf : String → Option Core.BinOp
  | "add" => some .add | "sub" => some .sub | "mult" => some .mul | "div" => some .div
  | "lt" => some .lt | "le" => some .le | "gt" => some .gt | "ge" => some .ge
  | "eq" => some .eq | "ne" => some .ne | "and" => some .and | "or" => some .or
  | _ => none

/-- context of `toCoreE`: names of top-level functions, local names in scope, name of the current `self` variable -/
structure TC where
  fns : List String
  locals : List String
  feed : Option String

/-- a converted application `g(args)` where `g` is a name; `n` = last site number used -/
def mkApp (c : TC) (g : String) (args : List Core.Expr) (n : Nat) : Core.Expr × Nat :=
  if c.locals.contains g then (.app (.var g) args, n) else
  match g, args with
  | "mem", [e] => (.mem e (n + 1), n + 1)
  | "delay", [.lit nb, e, t] => (.delay (Float.ofBits nb).toUInt64.toNat e t (n + 1), n + 1)
  | "sqrt", [e] => (.un .sqrt e, n)
  | "abs", [e] => (.un .abs e, n)
  | _, _ =>
    match opOf g, args with
    | some op, [a, b] => (.bin op a b, n)
    | _, _ => if c.fns.contains g then (.call g args (n + 1), n + 1) else (.app (.var g) args, n)

mutual
def toCoreE (c : TC) (n : Nat) : Ex → Except String (Core.Expr × Nat)
  | .flt b => .ok (.lit b, n)
  | .now => .ok (.now, n)
  | .sr => .ok (.samplerate, n)
  | .var x => .ok (if c.feed == some x && !c.locals.contains x then .self else .var x, n)
  | .block e => toCoreE c n e
  | .tup es =>
    match toCoreL c n es with
    | .ok (es', n) => .ok (.tup es', n)
    | .error m => .error m
  | .proj e i =>
    match toCoreE c n e with
    | .ok (e', n) => .ok (.proj e' i, n)
    | .error m => .error m
  | .ite a t e =>
    match toCoreE c n a with
    | .error m => .error m
    | .ok (a', n) =>
      match toCoreE c n t with
      | .error m => .error m
      | .ok (t', n) =>
        match toCoreE c n e with
        | .error m => .error m
        | .ok (e', n) => .ok (.ite a' t' e', n)
  | .letE x v b =>
    match toCoreE c n v with
    | .error m => .error m
    | .ok (v', n) =>
      match toCoreE { c with locals := x :: c.locals } n b with
      | .error m => .error m
      | .ok (b', n) => .ok (.letE x v' b', n)
  | .letT xs v b =>
    match toCoreE c n v with
    | .error m => .error m
    | .ok (v', n) =>
      match toCoreE { c with locals := xs ++ c.locals } n b with
      | .error m => .error m
      | .ok (b', n) => .ok (.letTup xs v' b', n)
  | .thenE a r =>
    match a with
    | .assign (.var x) e =>
      match toCoreE c n e with
      | .error m => .error m
      | .ok (e', n) =>
        match toCoreE c n r with
        | .error m => .error m
        | .ok (r', n) => .ok (.assign x e' r', n)
    | _ => .error "statement that is not an assignment to a variable"
  | .lam ps body =>
    match body with
    | .feed _ _ => .error "stateful closure (outside the core fragment)"
    | _ =>
      match toCoreE { c with locals := ps ++ c.locals } n body with
      | .error m => .error m
      | .ok (b', n) => .ok (.lam ps b', n)
  | .app f args =>
    match f with
    | .var g =>
      match toCoreL c n args with
      | .error m => .error m
      | .ok (args', n) => .ok (mkApp c g args' n)
    | _ =>
      match toCoreE c n f with
      | .error m => .error m
      | .ok (f', n) =>
        match toCoreL c n args with
        | .error m => .error m
        | .ok (args', n) => .ok (.app f' args', n)
  | _ => .error "not a core expression"
def toCoreL (c : TC) (n : Nat) : List Ex → Except String (List Core.Expr × Nat)
  | [] => .ok ([], n)
  | e :: es =>
    match toCoreE c n e with
    | .error m => .error m
    | .ok (e', n) =>
      match toCoreL c n es with
      | .error m => .error m
      | .ok (es', n) => .ok (e' :: es', n)
end

/-- one top-level function -/
def mkFn (shapes : List (String × Option Shape)) (fns : List String) (name : String) (ps : List String) (body : Ex) :
    Except String Core.FnDecl :=
  let (feed, b) := match body with
    | .feed x b => (some x, b)
    | b => (none, b)
  match toCoreE ⟨fns, ps, feed⟩ 0 b with
  | .error m => .error m
  | .ok (b', _) =>
    let shape := if feed.isSome then (shapes.lookup name).join else none
    if feed.isSome && shape.isNone then .error s!"no self shape for {name}" else .ok ⟨name, ps, b', shape⟩

/-- top-level chain `let g = e … let f = |ps| body … ()` → globals and functions (accumulated in reverse) -/
def toCoreChain (shapes : List (String × Option Shape)) (fns : List String) :
    Ex → List (String × Core.Expr) → List Core.FnDecl → Except String (List (String × Core.Expr) × List Core.FnDecl)
  | .tup [], gs, fs => .ok (gs.reverse, fs.reverse)
  | .letE x v rest, gs, fs =>
    match v with
    | .lam ps body =>
      match mkFn shapes fns x ps body with
      | .error m => .error m
      | .ok d => toCoreChain shapes fns rest gs (d :: fs)
    | _ =>
      match toCoreE ⟨fns, [], none⟩ 0 v with
      | .ok (v', _) => toCoreChain shapes fns rest ((x, v') :: gs) fs
      | .error m => .error m
  | .letrec x v rest, gs, fs =>
    match v with
    | .lam ps body =>
      match mkFn shapes fns x ps body with
      | .error m => .error m
      | .ok d => toCoreChain shapes fns rest gs (d :: fs)
    | _ => .error "recursive top-level value"
  | _, _, _ => .error "not a top-level definition"

def topNames : Ex → List String
  | .letE name v rest => match v with
    | .lam _ _ => name :: topNames rest
    | _ => topNames rest
  | .letrec name _ rest => name :: topNames rest
  | _ => []

def toCoreProg (shapes : List (String × Option Shape)) (e : Ex) : Except String Core.Prog :=
  match toCoreChain shapes (topNames e) e [] [] with
  | .error m => .error m
  | .ok (gs, fs) =>
    match fs.find? (·.name == "dsp") with
    | some d => .ok ⟨gs, fs.filter (·.name != "dsp"), d⟩
    | none => .error "no dsp"

/-- the whole model pipeline: source tree → expanded tree → core program -/
def expandToCore (shapes : List (String × Option Shape)) (src : Ex) (fuel : Nat := 100000) : Except String Core.Prog :=
  match (if hasStaging src then expand src fuel else
      match frontEnd src with
      | some e => .ok e
      | none => .error "front end: self in global context") with
  | .error m => .error m
  | .ok e => toCoreProg shapes e

end Mimium.Stage
