import Mimium.Model.StateTree
/-!
# M2b — what a published state layout says about run-time accesses

`expectedTrace sk b` is the sequence of state accesses one call of a function instance with layout `sk`, whose
region starts at word `b`, performs: `self` (a leading `Feed` cell) is read first and written last at the start of the
region, every other cell is visited once, in layout order, at its layout offset with its size.
`conforms` is the executable checker applied to the traces recorded from the real VM.
-/
namespace Mimium.Layout
open Mimium.StateTree

inductive Kind | get | set | mem | delay
deriving Repr, DecidableEq, Inhabited

structure Access where
  kind : Kind
  pos : Nat
  size : Nat
deriving Repr, DecidableEq, Inhabited

mutual
def expectedTrace : Sk → Nat → List Access
  | .mem _, b => [⟨.mem, b, 1⟩]
  | .delay n, b => [⟨.delay, b, delayExtra + n⟩]
  | .feed _, _ => []          -- a `Feed` cell is only meaningful as the first cell of a function (see `fn`)
  | .fn cs, b =>
    match cs with
    | .feed s :: rest => [⟨.get, b, s⟩] ++ expectedTraceL rest (b + s) ++ [⟨.set, b, s⟩]
    | cs => expectedTraceL cs b
def expectedTraceL : List Sk → Nat → List Access
  | [], _ => []
  | c :: cs, b => expectedTrace c b ++ expectedTraceL cs (b + c.size)
end

mutual
/-- layouts as the compiler publishes them: a `Feed` cell only ever appears as the first cell of a function,
and the size of a `mem` cell is one word -/
def WF : Sk → Bool
  | .mem s => s == 1
  | .delay _ => true
  | .feed _ => false
  | .fn cs =>
    match cs with
    | .feed _ :: rest => WFL rest
    | cs => WFL cs
def WFL : List Sk → Bool
  | [] => true
  | c :: cs => WF c && WFL cs
end

/-- verdict of the checker on one dsp call: the recorded accesses and the cursor after the call -/
def conforms (sk : Sk) (trace : List Access) (cursor : Nat) : Bool :=
  decide (trace = expectedTrace sk 0) && cursor == 0

/-- `a` touches exactly the words of a leaf cell of `sk` (region starting at `b`) of the right kind -/
inductive TouchesLeaf : Sk → Nat → Access → Prop
  | mem (s b) : TouchesLeaf (.mem s) b ⟨.mem, b, 1⟩
  | delay (n b) : TouchesLeaf (.delay n) b ⟨.delay, b, delayExtra + n⟩
  | feedGet (s b) : TouchesLeaf (.feed s) b ⟨.get, b, s⟩
  | feedSet (s b) : TouchesLeaf (.feed s) b ⟨.set, b, s⟩
  | child {cs : List Sk} {i : Nat} {b : Nat} {a : Access} (h : i < cs.length) :
      TouchesLeaf cs[i] (b + offsetOf cs i) a → TouchesLeaf (.fn cs) b a

end Mimium.Layout
