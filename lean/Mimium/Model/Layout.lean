import Mimium.Model.StateTree
/-!
# M2b — what a published state layout says about run-time accesses

`expectedTrace sk b` is the sequence of state accesses one call of a function instance with layout `sk`, whose
region starts at word `b`, performs: `self` (a leading `Feed` cell) is read first and written last at the start of the
region, every other cell is visited once, in layout order, at its layout offset with its size.
`conforms` is the executable checker applied to the traces recorded from the real VM.
-/
namespace Mimium.Layout
open Mimium.StateTree

inductive Kind | get | set | mem | delay
deriving Repr, DecidableEq, Inhabited

structure Access where
  kind : Kind
  pos : Nat
  size : Nat
deriving Repr, DecidableEq, Inhabited

mutual
def expectedTrace : Sk → Nat → List Access
  | .mem _, b => [⟨.mem, b, 1⟩]
  | .delay n, b => [⟨.delay, b, delayExtra + n⟩]
  | .feed _, _ => []          -- a `Feed` cell is only meaningful as the first cell of a function (see `fn`)
  | .fn cs, b =>
    match cs with
    | .feed s :: rest => [⟨.get, b, s⟩] ++ expectedTraceL rest (b + s) ++ [⟨.set, b, s⟩]
    | cs => expectedTraceL cs b
def expectedTraceL : List Sk → Nat → List Access
  | [], _ => []
  | c :: cs, b => expectedTrace c b ++ expectedTraceL cs (b + c.size)
end

mutual
/-- layouts as the compiler publishes them: a `Feed` cell only ever appears as the first cell of a function,
and the size of a `mem` cell is one word -/
def WF : Sk → Bool
  | .mem s => s == 1
  | .delay _ => true
  | .feed _ => false
  | .fn cs =>
    match cs with
    | .feed _ :: rest => WFL rest
    | cs => WFL cs
def WFL : List Sk → Bool
  | [] => true
  | c :: cs => WF c && WFL cs
end

/-- verdict of the checker on one dsp call: the recorded accesses and the cursor after the call -/
def conforms (sk : Sk) (trace : List Access) (cursor : Nat) : Bool :=
  decide (trace = expectedTrace sk 0) && cursor == 0

/-! ### state inside `if` / `match` arms: a call touches the cells outside arms and those of the arms taken

With a stateful construct inside an arm a call no longer performs every access of `expectedTrace`: it performs, in
layout order, the accesses of the cells it reaches.  `selTrace sk b tr` consumes from the front of the recorded trace
`tr` what ONE optional visit of the cell `sk` at base `b` may record — a `mem` / `delay` cell: its access or nothing; a
function instance with `self`: nothing, or `get`, a sub-selection of its cells, `set` (both mandatory once the instance
is entered); a function instance without `self`: a sub-selection of its cells — and returns the rest (`none`: an entered
instance did not write `self` back).  The choice is greedy (an access at the cell's base of the cell's kind belongs to
the cell), which is sound; `conformsSel` demands that the root instance is entered and the whole trace is consumed. -/

/-- drop `x` from the front if it is there -/
def dropHead (x : Access) (tr : List Access) : List Access := if tr.head? = some x then tr.tail else tr

mutual
def selTrace : Sk → Nat → List Access → Option (List Access)
  | .mem _, b, tr => some (dropHead ⟨.mem, b, 1⟩ tr)
  | .delay n, b, tr => some (dropHead ⟨.delay, b, delayExtra + n⟩ tr)
  | .feed _, _, tr => some tr
  | .fn cs, b, tr =>
    match cs with
    | .feed s :: rest =>
      if tr.head? = some ⟨.get, b, s⟩ then
        match selTraceL rest (b + s) tr.tail with
        | some tr' => if tr'.head? = some ⟨.set, b, s⟩ then some tr'.tail else none
        | none => none
      else some tr
    | cs => selTraceL cs b tr
def selTraceL : List Sk → Nat → List Access → Option (List Access)
  | [], _, tr => some tr
  | c :: cs, b, tr =>
    match selTrace c b tr with
    | some tr' => selTraceL cs (b + c.size) tr'
    | none => none
end

/-- the root instance is entered when it has a `self` cell: `self` is read first -/
def rootEntered : Sk → List Access → Bool
  | .fn (.feed s :: _), tr => decide (tr.head? = some ⟨.get, 0, s⟩)
  | _, _ => true

/-- verdict of the generalised checker on one dsp call: the recorded accesses are an in-order sub-selection of the
layout's accesses in which every entered function instance reads `self` first and writes it last; cursor back at 0 -/
def conformsSel (sk : Sk) (trace : List Access) (cursor : Nat) : Bool :=
  rootEntered sk trace && decide (selTrace sk 0 trace = some []) && cursor == 0

/-- `a` touches exactly the words of a leaf cell of `sk` (region starting at `b`) of the right kind -/
inductive TouchesLeaf : Sk → Nat → Access → Prop
  | mem (s b) : TouchesLeaf (.mem s) b ⟨.mem, b, 1⟩
  | delay (n b) : TouchesLeaf (.delay n) b ⟨.delay, b, delayExtra + n⟩
  | feedGet (s b) : TouchesLeaf (.feed s) b ⟨.get, b, s⟩
  | feedSet (s b) : TouchesLeaf (.feed s) b ⟨.set, b, s⟩
  | child {cs : List Sk} {i : Nat} {b : Nat} {a : Access} (h : i < cs.length) :
      TouchesLeaf cs[i] (b + offsetOf cs i) a → TouchesLeaf (.fn cs) b a

end Mimium.Layout
