import Mimium.Model.HotSwap
/-!
# M2d — does a migration plan carry a sibling?

`carriesChild old new i j` decides whether the plan computed for layouts `old → new` (both `FnCall` nodes, as the
dsp layout always is) copies every word of the `i`-th child of `old` to the same relative position inside the
`j`-th child of `new`.  Used by C07: an untouched voice must be carried; the cases where the pinned diff algorithm
does not carry it are exactly finding F5.
-/
namespace Mimium.Migration
open Mimium.StateTree

/-- the word at absolute old address `a` is copied to absolute new address `b` by some patch -/
def wordMoved (ps : List Patch) (a b : Nat) : Bool :=
  ps.any fun p => decide (p.src ≤ a ∧ a < p.src + p.size) && (p.dst + (a - p.src) == b)

def carriesRange (ps : List Patch) (srcOff dstOff size : Nat) : Bool :=
  (List.range size).all fun w => wordMoved ps (srcOff + w) (dstOff + w)

def children : Sk → List Sk
  | .fn cs => cs
  | _ => []

/-- the patches the runtimes apply for `old → new` (identical layouts: everything stays, modelled as the whole copy) -/
def planPatches (old new : Sk) : List Patch :=
  match buildPlan old new with
  | some p => p.patches
  | none => [⟨0, 0, new.size⟩]

def carriesChild (old new : Sk) (i j : Nat) : Bool :=
  match (children old)[i]?, (children new)[j]? with
  | some co, some cn =>
    co.size == cn.size && carriesRange (planPatches old new) (offsetOf (children old) i) (offsetOf (children new) j) co.size
  | _, _ => false

/-- some word of the `j`-th child of `new` receives an old word (a freshly inserted voice would then not start from zero) -/
def childReceives (old new : Sk) (j : Nat) : Bool :=
  match (children new)[j]? with
  | some cn =>
    let off := offsetOf (children new) j
    (List.range cn.size).any fun w => (planPatches old new).any fun p => decide (p.dst ≤ off + w ∧ off + w < p.dst + p.size)
  | none => false

end Mimium.Migration
