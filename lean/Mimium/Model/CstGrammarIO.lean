import Mimium.Model.CstGrammar
import Mimium.Model.LexerIO
/-! Wire format of the CST correspondence (C13): the green tree as an S-expression, the error list with the exact `Display`
strings of `ParserError`, and the relabelled token kinds. -/
namespace Mimium.GrammarIO
open Mimium.Gen (Kind SK)
open Mimium.Grammar Mimium.Cst

def txt : Txt → String
  | .ident => "Ident"
  | .parenBegin => "ParenBegin"
  | .blockBegin => "BlockBegin"
  | .expression => "expression"
  | .type_ => "type"
  | .pattern => "pattern (identifier, tuple, or record)"
  | .identAfterColons => "identifier after ::"
  | .matchPattern => "match pattern (int, float, _, or constructor)"

def expMsg : ExpMsg → String
  | .kind k => k.name
  | .kinds ks => " or ".intercalate (ks.map Kind.name)
  | .text t => txt t

def reason : Reason → String
  | .noProgressStmt => "parser made no progress while parsing statement; skipping token for recovery"
  | .noProgressModule => "parser made no progress in module; skipping token for recovery"
  | .noProgressBlock => "parser made no progress in block; skipping token for recovery"
  | .noProgressMatchArm => "parser made no progress in match arm; skipping token for recovery"
  | .consecutiveOps => "Consecutive operators without whitespace are not allowed"

/-- `format!("{detail}")` (the `thiserror` strings of `ErrorDetail`) -/
def detail : ErrDetail → String
  | .unexpectedToken e f => s!"Expected {expMsg e}, found {match f with | some k => k.name | none => ""}"
  | .unexpectedEof e => s!"Unexpected end of input, expected {expMsg e}"
  | .invalidSyntax r => s!"Invalid syntax: {reason r}"

def showErrs (errs : List PErr) : String :=
  if errs.isEmpty then "-" else " ## ".intercalate (errs.reverse.map fun e => s!"{e.tokenIndex}|{detail e.detail}")

partial def showGreen : Green → String → String
  | .token i _, acc => acc ++ toString i
  | .node k cs, acc =>
    let acc := acc ++ "(" ++ (Gen.skNames.getD k s!"?{k}")
    let acc := cs.foldl (fun a c => showGreen c (a ++ " ")) acc
    acc ++ ")"

def showRoot (s : St) : String :=
  match s.b.root with
  | some g => showGreen g ""
  | none => "NOROOT"

/-- `i:Kind` for every token whose kind the parser changed -/
def showRelabels (ks : List Kind) (s : St) : String :=
  let ds := (List.range ks.length).filterMap fun i =>
    match ks[i]?, s.kinds[i]? with
    | some a, some b => if a == b then none else some s!"{i}:{b.name}"
    | _, _ => none
  if ds.isEmpty then "-" else ",".intercalate ds

end Mimium.GrammarIO
