import Mimium.Model.StateMachine
import Mimium.Gen.RustTemplate
/-!
# M12 — the Rust transpiler: embedded state scaffold and the dispatch-loop encoding of basic blocks

Part A ports `StateStorage` of `compiler/mimium_placeholder.rs.template` (the runtime scaffold pasted into every
generated program): `ensure / push_pos / pop_pos / get_state / set_state / mem / delay` as `rustStep`, over the same
`St` / `SOp` as the VM's and the WASM host's step functions of `Model/StateMachine.lean`.  Slot offsets and the
`+2` come from `Gen/RustTemplate.lean` (re-extracted from the template on every run).  `usize` saturation of the
cursor at 2^64 is not modelled (`Nat`).

Part B ports the control-flow part of `RustGenerator::emit_function` / `emit_instruction` (`compiler/rustgen.rs`):
`collect_block_predecessors`, `collect_fallthrough_edges` (the imperative range fill), `can_emit_straight_line_function`,
`block_can_fall_through` and the text emitted for `JmpIf / Jmp / Switch / Phi / PhiSwitch / Return` plus the
fall-through tail of every `match bb` arm — as `encode : Cfg → Option Body`, a small statement language with
`pred_bb`, `bb`, `continue`, `return`, `panic!`.  Every non-control MIR instruction is an opaque `op k`
(rustgen's per-instruction lowering is not modelled).  `runBody` executes the emitted `loop { match bb { … } }`;
`runCfg` is the small-step meaning of the block graph itself.
-/
namespace Mimium.RustGen
open Mimium.StateMachine Mimium.Cells

/-! ## A. `StateStorage` of the template -/

/-- `fn ensure(&mut self, size)`: `needed = pos + size; if rawdata.len() < needed { resize(needed, 0) }` -/
def ensure (s : St) (size : Nat) : St := ⟨s.pos, grow s.data (s.pos + size)⟩

/-- body of `fn delay` after the `max_len == 0` early return, on the flat words -/
def rustDelayFlat (data : List UInt64) (p len : Nat) (x tbits : UInt64) : UInt64 × List UInt64 :=
  let d := clampTime tbits len                       -- `.clamp(0.0, (max_len-1) as f64) as usize`
  let readSlot := p + Gen.rustDelayReadSlot
  let writeSlot := p + Gen.rustDelayWriteSlot
  let dataStart := p + Gen.rustDelayDataStart
  let w := (data.getD writeSlot 0).toNat % len
  let r := (w + len - d) % len
  let res := data.getD (dataStart + r) 0
  let data := data.set (dataStart + w) x
  let data := data.set readSlot r.toUInt64
  let data := data.set writeSlot ((w + 1) % len).toUInt64
  (res, data)

/-- the template's `StateStorage` methods (total: every access first grows the storage) -/
def rustStep (s : St) : SOp → St × List UInt64
  | .push k => (⟨s.pos + k, s.data⟩, [])                       -- `saturating_add`
  | .pop k => (⟨s.pos - k, s.data⟩, [])                        -- `saturating_sub`
  | .get n => let s := ensure s n; (s, slice s.data s.pos n)
  | .set ws => let s := ensure s ws.length; (⟨s.pos, writeAt s.data s.pos ws⟩, [])
  | .mem x => let s := ensure s 1; (⟨s.pos, s.data.set s.pos x⟩, [s.data.getD s.pos 0])
  | .delay len x t =>
    let s := ensure s (len + Gen.rustDelayExtraWords)          -- before the `max_len == 0` test
    if len = 0 then (s, [0])
    else
      let (res, data) := rustDelayFlat s.data s.pos len x t
      (⟨s.pos, data⟩, [res])

def rustRun (s : St) : List SOp → St × List UInt64
  | [] => (s, [])
  | op :: ops =>
    let (s', o) := rustStep s op
    let (s'', os) := rustRun s' ops
    (s'', o ++ os)

/-- no `delay` of the trace has ring length 0 (the template grows the storage by two words even then) -/
def noZeroDelay : List SOp → Bool
  | [] => true
  | .delay len _ _ :: ops => decide (len ≠ 0) && noZeroDelay ops
  | _ :: ops => noZeroDelay ops

/-! ## B. basic blocks and the emitted dispatch loop -/

/-- control skeleton of a MIR instruction; values (registers, arguments, …) are opaque numbers -/
inductive Ins where
  | op (k : Nat)
  | phi (dst l r : Nat)
  | phiSwitch (dst : Nat) (inputs : List Nat)
  | jmpIf (c t e m : Nat)
  | jmp (off : Int)
  | switch (s : Nat) (cases : List (Int × Nat)) (dflt : Option Nat) (m : Nat)
  | ret (v : Nat)
deriving Repr, DecidableEq, Inhabited

abbrev Block := List Ins
abbrev Cfg := List Block

/-- `Return | ReturnFeed | JmpIf | Jmp | Switch` (the list in `block_can_fall_through`) -/
def Ins.isTerm : Ins → Bool
  | .jmpIf .. | .jmp .. | .switch .. | .ret .. => true
  | _ => false

/-- the list in `can_emit_straight_line_function` -/
def Ins.isBranchy : Ins → Bool
  | .jmpIf .. | .jmp .. | .switch .. | .phi .. | .phiSwitch .. => true
  | _ => false

/-- `block.0.last().is_none_or(|i| !terminator(i))` -/
def canFall : Block → Bool
  | [] => true
  | [i] => !i.isTerm
  | _ :: j :: rest => canFall (j :: rest)

/-- `(block_index as isize + offset as isize) as usize` -/
def wrapUsize (i : Int) : Nat := if 0 ≤ i then i.toNat else 2 ^ 64 - (-i).toNat

/-- a branch arm: blocks `start ≤ b < stop` fall through to `merge` with `pred_bb = start` -/
structure Arm where
  start : Nat
  stop : Nat
  merge : Nat
deriving Repr, DecidableEq, Inhabited

def Arm.contains (a : Arm) (b : Nat) : Bool := decide (a.start ≤ b) && decide (b < a.stop)

/-- insertion into a sorted list without duplicates (`sort_unstable` + `dedup`) -/
def insertU (x : Nat) : List Nat → List Nat
  | [] => [x]
  | y :: ys => if x < y then x :: y :: ys else if x = y then y :: ys else y :: insertU x ys

def sortU (xs : List Nat) : List Nat := xs.foldr insertU []

/-- consecutive starts delimit the arms of a `Switch`; the last arm ends at the merge block -/
def switchArms (merge : Nat) : List Nat → List Arm
  | [] => []
  | [s] => [⟨s, merge, merge⟩]
  | s :: s' :: rest => ⟨s, s', merge⟩ :: switchArms merge (s' :: rest)

/-- the `fill_branch_region` calls one instruction causes, in order -/
def armsOfIns : Ins → List Arm
  | .jmpIf _ t e m => [⟨min t e, max t e, m⟩, ⟨max t e, m, m⟩]
  | .switch _ cases d m => switchArms m (sortU (cases.map (·.2) ++ d.toList))
  | _ => []

/-- all arms, in the order `collect_fallthrough_edges` visits them (blocks in order, instructions in order) -/
def arms (bs : Cfg) : List Arm := bs.flatMap fun b => b.flatMap armsOfIns

def mapIdxFrom {α β : Type} (f : Nat → α → β) : Nat → List α → List β
  | _, [] => []
  | i, x :: xs => f i x :: mapIdxFrom f (i + 1) xs

abbrev Edges := List (Option (Nat × Nat))

/-- `fill_branch_region(start, end, merge)`: `edges.iter_mut().take(end.min(len)).skip(start)` := `Some((merge, start))` -/
def fillRegion (edges : Edges) (a : Arm) : Edges :=
  mapIdxFrom (fun i e => if a.start ≤ i ∧ i < min a.stop edges.length then some (a.merge, a.start) else e) 0 edges

/-- `collect_fallthrough_edges` -/
def fallEdges (bs : Cfg) : Edges := (arms bs).foldl fillRegion (List.replicate bs.length none)

def edgeAt (edges : Edges) (b : Nat) : Option (Nat × Nat) := (edges[b]?).join

/-- the arm the range fill leaves in force at block `b`: the last one visited that contains `b` -/
def lastContaining : List Arm → Nat → Option Arm
  | [], _ => none
  | a :: as, b =>
    match lastContaining as b with
    | some x => some x
    | none => if a.contains b then some a else none

def pushAt (ps : List (List Nat)) (i v : Nat) : List (List Nat) := ps.modify i (· ++ [v])

/-- the `preds[..].push(..)` calls of one instruction of block `bi` (`collect_block_predecessors`) -/
def predsIns (bi : Nat) (ps : List (List Nat)) : Ins → List (List Nat)
  | .jmpIf _ t e m => pushAt (pushAt (pushAt (pushAt ps t bi) e bi) m t) m e
  | .jmp off => pushAt ps (wrapUsize (bi + off)) bi
  | .switch _ cases d m =>
    let ps := cases.foldl (fun ps c => pushAt (pushAt ps c.2 bi) m c.2) ps
    match d with
    | some db => pushAt (pushAt ps db bi) m db
    | none => ps
  | _ => ps

def predsBlocks : Nat → List Block → List (List Nat) → List (List Nat)
  | _, [], ps => ps
  | bi, b :: bs, ps => predsBlocks (bi + 1) bs (b.foldl (predsIns bi) ps)

def blockPreds (bs : Cfg) : List (List Nat) := predsBlocks 0 bs (List.replicate bs.length [])

/-- every block index an instruction of block `bi` uses to index `preds` is in range (otherwise the generator panics) -/
def Ins.targetsOk (n bi : Nat) : Ins → Bool
  | .jmpIf _ t e m => decide (t < n) && decide (e < n) && decide (m < n)
  | .jmp off => decide (wrapUsize (bi + off) < n)
  | .switch _ cases d m => cases.all (fun c => decide (c.2 < n)) && decide (m < n) && (d.all fun db => decide (db < n))
  | _ => true

/-- the `return Err(..)` conditions of the `Phi` / `PhiSwitch` arms of `emit_instruction` -/
def Ins.phiOk (preds : List Nat) : Ins → Bool
  | .phi .. => decide (2 ≤ preds.length)
  | .phiSwitch _ ins => preds.length == ins.length
  | _ => true

/-- statements of the emitted function body that touch control flow; `op` stands for the text of one lowered instruction -/
inductive RS where
  | op (k : Nat)
  | phiIf (dst p0 l p1 r : Nat)          -- `if pred_bb == p0 { dst = l } else if pred_bb == p1 { dst = r } else { panic!(..) }`
  | phiMatch (dst : Nat) (arms : List (Nat × Nat))   -- `dst = match pred_bb { p => v, …, _ => panic!(..) };`
  | setPred (p : Nat)                     -- `pred_bb = p;`
  | setBbIf (c t e : Nat)                 -- `bb = if truthy(c) { t } else { e };`
  | setBb (n : Nat)                       -- `bb = n;`
  | setBbSwitch (s : Nat) (cases : List (Int × Nat)) (dflt : Option Nat)  -- `bb = match scrutinee { lit => b, …, _ => d | panic };`
  | continue_
  | ret (v : Nat)
  | panic                                 -- `return Err(..)` rewritten to `panic!(..)`
deriving Repr, DecidableEq, Inhabited

def encIns (preds : List Nat) (bi : Nat) : Ins → List RS
  | .op k => [.op k]
  | .phi d l r => [.phiIf d (preds.getD 0 0) l (preds.getD 1 0) r]
  | .phiSwitch d ins => [.phiMatch d (preds.zip ins)]
  | .jmpIf c t e _ => [.setPred bi, .setBbIf c t e, .continue_]
  | .jmp off => [.setPred bi, .setBb (wrapUsize (bi + off)), .continue_]
  | .switch s cases d _ => [.setPred bi, .setBbSwitch s cases d, .continue_]
  | .ret v => [.ret v]

/-- what follows the instructions of block `bi` inside its `match` arm -/
def encTail (edge : Option (Nat × Nat)) (b : Block) : List RS :=
  match edge with
  | some (target, predSource) => [.setPred predSource, .setBb target, .continue_]
  | none => if canFall b then [.panic] else []

def encBlock (preds : List (List Nat)) (edges : Edges) (bi : Nat) (b : Block) : List RS :=
  b.flatMap (encIns (preds.getD bi []) bi) ++ encTail (edgeAt edges bi) b

inductive Body where
  | straight (stmts : List RS)
  | loop (arms : List (List RS))
deriving Repr, DecidableEq, Inhabited

def isStraight (bs : Cfg) : Bool :=
  match bs with
  | [b] => b.all (fun i => !i.isBranchy)
  | _ => false

def allIdx {α : Type} (f : Nat → α → Bool) : Nat → List α → Bool
  | _, [] => true
  | i, x :: xs => f i x && allIdx f (i + 1) xs

/-- the generator neither panics (index out of range) nor returns `Err` on the control skeleton -/
def encodable (bs : Cfg) : Bool :=
  allIdx (fun bi b => b.all (Ins.targetsOk bs.length bi)) 0 bs &&
  allIdx (fun bi b => b.all (Ins.phiOk ((blockPreds bs).getD bi []))) 0 bs

/-- `emit_function` (control part). `none` = the generator refuses (or panics on) this block graph. -/
def encode (bs : Cfg) : Option Body :=
  if !encodable bs then none
  else if isStraight bs then
    match bs with
    | [b] => some (.straight (b.flatMap (encIns ((blockPreds bs).getD 0 []) 0) ++ (if canFall b then [.panic] else [])))
    | _ => none
  else some (.loop (mapIdxFrom (encBlock (blockPreds bs) (fallEdges bs)) 0 bs))

/-! ### semantics -/

/-- everything rustgen's per-instruction lowering and the machine state contribute, left abstract -/
structure Sem (σ ρ : Type) where
  op : Nat → σ → Option σ          -- `none`: the lowered text panics (`.unwrap()` on an `Err`)
  truthy : Nat → σ → Bool
  scrut : Nat → σ → Int
  move : Nat → Nat → σ → σ         -- `dst = src`
  result : Nat → σ → ρ

inductive Out (σ ρ : Type) where
  | ret (r : ρ)
  | panic
  | more (bb pred : Nat) (s : σ)    -- out of fuel in this configuration
deriving Repr, DecidableEq

inductive Flow (σ ρ : Type) where
  | next (bb pred : Nat) (s : σ)
  | ret (r : ρ)
  | panic
deriving Repr, DecidableEq

/-- Rust `match scrutinee { lit => b, …, _ => default }`: first matching arm -/
def switchTarget (cases : List (Int × Nat)) (d : Option Nat) (v : Int) : Option Nat :=
  match cases.find? (fun c => c.1 == v) with
  | some c => some c.2
  | none => d

/-- one `match bb` arm: statements in order; `continue` (or the end of the arm) ends the iteration -/
def execArm {σ ρ : Type} (S : Sem σ ρ) : List RS → Nat → Nat → σ → Flow σ ρ
  | [], bb, pred, s => .next bb pred s
  | .op k :: rest, bb, pred, s =>
    match S.op k s with
    | some s' => execArm S rest bb pred s'
    | none => .panic
  | .phiIf d p0 l p1 r :: rest, bb, pred, s =>
    if pred = p0 then execArm S rest bb pred (S.move d l s)
    else if pred = p1 then execArm S rest bb pred (S.move d r s)
    else .panic
  | .phiMatch d arms :: rest, bb, pred, s =>
    match arms.find? (fun a => a.1 == pred) with
    | some a => execArm S rest bb pred (S.move d a.2 s)
    | none => .panic
  | .setPred p :: rest, bb, _, s => execArm S rest bb p s
  | .setBbIf c t e :: rest, _, pred, s => execArm S rest (if S.truthy c s then t else e) pred s
  | .setBb n :: rest, _, pred, s => execArm S rest n pred s
  | .setBbSwitch sc cases d :: rest, _, pred, s =>
    match switchTarget cases d (S.scrut sc s) with
    | some n => execArm S rest n pred s
    | none => .panic
  | .continue_ :: _, bb, pred, s => .next bb pred s
  | .ret v :: _, _, _, s => .ret (S.result v s)
  | .panic :: _, _, _, _ => .panic

/-- `loop { match bb { i => arm_i, _ => panic!("invalid basic block") } }`, `fuel` iterations -/
def runLoop {σ ρ : Type} (S : Sem σ ρ) (arms : List (List RS)) : Nat → Nat → Nat → σ → Out σ ρ
  | 0, bb, pred, s => .more bb pred s
  | n + 1, bb, pred, s =>
    match arms[bb]? with
    | none => .panic
    | some arm =>
      match execArm S arm bb pred s with
      | .next bb' pred' s' => runLoop S arms n bb' pred' s'
      | .ret r => .ret r
      | .panic => .panic

/-- the emitted function body, started with `bb = 0`, `pred_bb = 0` -/
def runBody {σ ρ : Type} (S : Sem σ ρ) : Body → Nat → σ → Out σ ρ
  | _, 0, s => .more Gen.rustLoopInitBb Gen.rustLoopInitPred s
  | .straight st, _ + 1, s =>
    match execArm S st 0 0 s with
    | .next _ _ _ => .panic          -- (rustc rejects a body that can reach its end; `encode` always appends `panic!`)
    | .ret r => .ret r
    | .panic => .panic
  | .loop arms, n + 1, s => runLoop S arms (n + 1) Gen.rustLoopInitBb Gen.rustLoopInitPred s

/-- meaning of one basic block `bi` entered from arm `pred`: instructions in order; the first terminator decides the
successor; a block that ends without terminator continues at the merge block of the arm in force (`pred` := that arm's
first block); `Phi` picks the operand whose position in the predecessor list of `bi` matches `pred`. -/
def execBlock {σ ρ : Type} (S : Sem σ ρ) (as : List Arm) (preds : List Nat) (bi : Nat) :
    List Ins → Nat → σ → Flow σ ρ
  | [], _, s =>
    match lastContaining as bi with
    | some a => .next a.merge a.start s
    | none => .panic
  | .op k :: rest, pred, s =>
    match S.op k s with
    | some s' => execBlock S as preds bi rest pred s'
    | none => .panic
  | .phi d l r :: rest, pred, s =>
    match preds with
    | p0 :: p1 :: _ =>
      if pred = p0 then execBlock S as preds bi rest pred (S.move d l s)
      else if pred = p1 then execBlock S as preds bi rest pred (S.move d r s)
      else .panic
    | _ => .panic
  | .phiSwitch d ins :: rest, pred, s =>
    match (preds.zip ins).find? (fun a => a.1 == pred) with
    | some a => execBlock S as preds bi rest pred (S.move d a.2 s)
    | none => .panic
  | .jmpIf c t e _ :: _, _, s => .next (if S.truthy c s then t else e) bi s
  | .jmp off :: _, _, s => .next (wrapUsize (bi + off)) bi s
  | .switch sc cases d _ :: _, _, s =>
    match switchTarget cases d (S.scrut sc s) with
    | some n => .next n bi s
    | none => .panic
  | .ret v :: _, _, s => .ret (S.result v s)

/-- small-step execution of the block graph: `fuel` blocks -/
def runCfg {σ ρ : Type} (S : Sem σ ρ) (bs : Cfg) : Nat → Nat → Nat → σ → Out σ ρ
  | 0, bb, pred, s => .more bb pred s
  | n + 1, bb, pred, s =>
    match bs[bb]? with
    | none => .panic
    | some b =>
      match execBlock S (arms bs) ((blockPreds bs).getD bb []) bb b pred s with
      | .next bb' pred' s' => runCfg S bs n bb' pred' s'
      | .ret r => .ret r
      | .panic => .panic

/-! ### the shape mirgen produces: properly nested arms, outer before inner -/

def Arm.disjoint (a b : Arm) : Bool := decide (a.stop ≤ b.start) || decide (b.stop ≤ a.start)
def Arm.inside (a b : Arm) : Bool := decide (b.start ≤ a.start) && decide (a.stop ≤ b.stop)   -- a ⊆ b

/-- every later arm is disjoint from, or inside, every earlier one -/
def nestedArms : List Arm → Bool
  | [] => true
  | a :: as => as.all (fun b => a.disjoint b || b.inside a) && nestedArms as

def nested (bs : Cfg) : Bool := nestedArms (arms bs)

/-! ### MIR has no back edges: every branch target and every merge block lies after the block that names it -/

def Ins.forward (bi : Nat) : Ins → Bool
  | .jmpIf _ t e _ => decide (bi < t) && decide (bi < e)
  | .jmp off => decide (bi < wrapUsize (bi + off))
  | .switch _ cases d _ => cases.all (fun c => decide (bi < c.2)) && d.all (fun db => decide (bi < db))
  | _ => true

def forward (bs : Cfg) : Bool :=
  allIdx (fun bi b => b.all (Ins.forward bi)) 0 bs && (arms bs).all (fun a => decide (a.stop ≤ a.merge))

end Mimium.RustGen
