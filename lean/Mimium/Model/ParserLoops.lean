import Mimium.Model.CstBuilder
import Mimium.Model.Lexer
/-!
# Loop shapes of `cst_parser.rs` and the span given to a parser error (C04)

Every `while` / `loop` / unbounded `for` of `cst_parser.rs` is one of a few shapes (classified on every run by
`tools/extract.py::gen_c04` against the reviewed list `tools/parser_loops.json`, result in `Gen/ParserLoops.lean`).
Each shape is modelled here as a *body function* `σ → Step σ` driven by the generic fuel loop `iterate`; the bodies of
the grammar functions called from inside a loop are abstracted, as in `Model/CstBuilder.lean`, to arbitrary sequences of
builder/parser primitives (`Cst.Op`) — what they decide is irrelevant for progress, only which primitives they issue.

* `guardedBody`   – `Parser::parse`, `parse_module_decl`, `parse_block_expr`, `parse_match_expr`:
  `while guard && !is_at_end() { let before = current; stmt(); if current == before && !is_at_end() { bump() } post }`
* `consumingBody` – separator loops (`while check(Comma) { bump(); … }`, `::`, `|`), the Pratt loops
  (`while let Some(k) = peek() { if infix { …; bump(); … } else { break } }`), the postfix `loop { match peek() { … } }`
  and the two parameter-list loops: an iteration that does not leave the loop is entered with a token under the cursor and
  issues at least one `bump`.
* `scanBody`      – look-ahead scans (`find_macro_expand_after_path`, `is_tuple_expr`): the cursor does not move, a
  private offset grows, and the scan stops as soon as `peek_ahead(offset)` is `None`.
-/
namespace Mimium.Loops
open Mimium.Cst

/-- outcome of one evaluation of `while cond { body }`: the loop is left (`exit`), or one iteration was completed (`next`) -/
inductive Step (σ : Type) where
  | exit (s : σ)
  | next (s : σ)

/-- the loop, with fuel; `none` = fuel exhausted before the loop was left; the `Nat` counts completed iterations -/
def iterate {σ : Type} (body : σ → Step σ) : Nat → σ → Option (σ × Nat)
  | 0, _ => none
  | fuel + 1, s =>
    match body s with
    | .exit s' => some (s', 0)
    | .next s' =>
      match iterate body fuel s' with
      | none => none
      | some (r, n) => some (r, n + 1)

/-- number of syntax tokens = `preparsed.token_indices.len()` -/
def len (E : Env) : Nat := E.tokenIndices.length

/-- shape 1: the guarded loops.  `guard` is the extra condition (`!check(BlockEnd)`), `stmt` the primitives issued by the
statement parser, `post` whatever follows the recovery (`has_trailing_linebreak`, the optional comma `bump` of match arms). -/
def guardedBody (E : Env) (guard : PState → Bool) (stmt post : PState → List Op) (st : PState) : Step PState :=
  if guard st && !atEnd E st then
    let st1 := run E st (stmt st)
    let st2 := if st1.current = st.current && !atEnd E st1 then exec E st1 .bump else st1
    .next (run E st2 (post st2))
  else .exit st

/-- shapes 2–5: `arm st = none`: the loop condition is false or the iteration `break`s before touching the cursor;
`some (ops, leave)`: the primitives of this iteration and whether it ends in `break`/`return` -/
def consumingBody (E : Env) (arm : PState → Option (List Op × Bool)) (st : PState) : Step PState :=
  match arm st with
  | none => .exit st
  | some (ops, leave) => if leave then .exit (run E st ops) else .next (run E st ops)

/-- `while check(sep) { bump(); rest }` as an instance of `consumingBody`: `isSep` is any predicate on the token under
the cursor, `check` is only true when there is such a token -/
def separatorArm (E : Env) (isSep : PState → Bool) (rest : PState → List Op × Bool) (st : PState) : Option (List Op × Bool) :=
  if isSep st && !atEnd E st then
    let r := rest (exec E st .bump)
    some (.bump :: r.1, r.2)
  else none

/-- `peek_ahead(n)`: index into `token_indices` -/
def peekAhead (E : Env) (st : PState) (n : Nat) : Option Nat := E.tokenIndices[st.current + n]?

/-- shape 6: look-ahead scan over a private offset; `cont off = some k`: go on with offset `off + k + 1` -/
def scanBody (E : Env) (st : PState) (cont : Nat → Option Nat) (off : Nat) : Step Nat :=
  match peekAhead E st off with
  | none => .exit off
  | some _ =>
    match cont off with
    | none => .exit off
    | some k => .next (off + k + 1)

end Mimium.Loops

namespace Mimium.Lexer

/-- `parser_errors_to_reportable`: `tokens.get(err.token_index)` or, as fallback, the last token (`0..0` without tokens) -/
def errorSpan (toks : List Token) (tokenIndex : Nat) : Nat × Nat :=
  match toks[tokenIndex]? with
  | some t => (t.start, t.stop)
  | none =>
    match toks.getLast? with
    | some t => (t.start, t.stop)
    | none => (0, 0)

end Mimium.Lexer
