import Mimium.Proofs.Publish
/-!
# the published layout is reached in order — for EVERY program (state inside `if` arms included)

After the repair of finding F3 `pubE` lists the cells of the condition, of the `then` arm and of the `else` arm of an `if`;
that is the discipline `VisitsA`.  `pubE_visitsA`: whatever `pubE` publishes for an expression is `VisitsA`-visited by it
(structural recursion over the 18 constructs), given a table whose entries are visited by the callee bodies;
`table_visitsA`: the table `table P n` has that property at every depth.  No class predicate is involved.
-/
namespace Mimium.Publish
open Mimium.Core Mimium.StateTree Mimium.FlatTree

/-- what the table must satisfy: every entry is a layout the callee's body visits -/
def TableVisitsA (P : Prog) (tbl : Table) : Prop :=
  ∀ f lay, tbl f = some lay → ∀ d, findFn P.fns f = some d → d.selfShape = lay.self ∧ VisitsA P d.body lay.cells

mutual
theorem pubE_visitsA (P : Prog) (tbl : Table) (ht : TableVisitsA P tbl) :
    ∀ (e : Expr) (seg : List LCell), pubE tbl e = some seg → VisitsA P e seg
  | .lit _, seg, h => by rw [pubE] at h; cases h; exact .lit
  | .var _, seg, h => by rw [pubE] at h; cases h; exact .var
  | .now, seg, h => by rw [pubE] at h; cases h; exact .now
  | .samplerate, seg, h => by rw [pubE] at h; cases h; exact .samplerate
  | .self, seg, h => by rw [pubE] at h; cases h; exact .self
  | .lam _ _, seg, h => by rw [pubE] at h; cases h; exact .lam
  | .un _ a, seg, h => by
    rw [pubE] at h
    exact .un (pubE_visitsA P tbl ht a seg h)
  | .proj a _, seg, h => by
    rw [pubE] at h
    exact .proj (pubE_visitsA P tbl ht a seg h)
  | .bin _ a b, seg, h => by
    obtain ⟨s1, s2, h1, h2, rfl⟩ := pubE_bin_inv h
    exact .bin (pubE_visitsA P tbl ht a s1 h1) (pubE_visitsA P tbl ht b s2 h2)
  | .letE _ a b, seg, h => by
    obtain ⟨s1, s2, h1, h2, rfl⟩ := pubE_letE_inv h
    exact .letE (pubE_visitsA P tbl ht a s1 h1) (pubE_visitsA P tbl ht b s2 h2)
  | .letTup _ a b, seg, h => by
    obtain ⟨s1, s2, h1, h2, rfl⟩ := pubE_letTup_inv h
    exact .letTup (pubE_visitsA P tbl ht a s1 h1) (pubE_visitsA P tbl ht b s2 h2)
  | .assign _ a b, seg, h => by
    obtain ⟨s1, s2, h1, h2, rfl⟩ := pubE_assign_inv h
    exact .assign (pubE_visitsA P tbl ht a s1 h1) (pubE_visitsA P tbl ht b s2 h2)
  | .ite c a b, seg, h => by
    obtain ⟨sc, sa, sb, hc, h1, h2, rfl⟩ := pubE_ite_inv h
    exact .ite (pubE_visitsA P tbl ht c sc hc) (pubE_visitsA P tbl ht a sa h1) (pubE_visitsA P tbl ht b sb h2)
  | .tup es, seg, h => by
    rw [pubE] at h
    exact .tup (pubL_visitsA P tbl ht es seg h)
  | .app f args, seg, h => by
    obtain ⟨s1, s2, h1, h2, rfl⟩ := pubE_app_inv h
    exact .app (pubE_visitsA P tbl ht f s1 h1) (pubL_visitsA P tbl ht args s2 h2)
  | .mem a site, seg, h => by
    obtain ⟨s, h1, rfl⟩ := pubE_mem_inv h
    exact .mem (pubE_visitsA P tbl ht a s h1)
  | .delay n a t site, seg, h => by
    obtain ⟨s1, s2, h1, h2, rfl⟩ := pubE_delay_inv h
    exact .delay (pubE_visitsA P tbl ht a s1 h1) (pubE_visitsA P tbl ht t s2 h2)
  | .call f args site, seg, h => by
    obtain ⟨s, lay, h1, hf, rfl⟩ := pubE_call_inv h
    exact .call (pubL_visitsA P tbl ht args s h1) (fun d hd => (ht f lay hf d hd).1) (fun d hd => (ht f lay hf d hd).2)
theorem pubL_visitsA (P : Prog) (tbl : Table) (ht : TableVisitsA P tbl) :
    ∀ (es : List Expr) (seg : List LCell), pubL tbl es = some seg → VisitsAL P es seg
  | [], seg, h => by rw [pubL] at h; cases h; exact .nil
  | e :: es, seg, h => by
    obtain ⟨s1, s2, h1, h2, rfl⟩ := pubL_cons_inv h
    exact .cons (pubE_visitsA P tbl ht e s1 h1) (pubL_visitsA P tbl ht es s2 h2)
end

/-- the function table has the property at every depth -/
theorem table_visitsA (P : Prog) : ∀ n, TableVisitsA P (table P n)
  | 0 => by intro f lay h; simp [table] at h
  | n + 1 => by
    intro f lay h d hd
    simp only [table, hd] at h
    cases hb : pubE (table P n) d.body with
    | none => simp [hb] at h
    | some cells =>
      simp only [hb, Option.some.injEq] at h
      subst h
      exact ⟨rfl, pubE_visitsA P _ (table_visitsA P n) d.body cells hb⟩

theorem publishEN_visitsA (n : Nat) (P : Prog) (e : Expr) (seg : List LCell) (h : publishEN n P e = some seg) :
    VisitsA P e seg :=
  pubE_visitsA P _ (table_visitsA P n) e seg h

/-! ### what is reached is covered -/

/-- `VisitsA` implies `Covers` for any list of cells containing the visited ones (by the recursor of the mutual predicate) -/
theorem visitsA_covers (P : Prog) {e : Expr} {seg : List LCell} (h : VisitsA P e seg) :
    ∀ cells : List LCell, (∀ c ∈ seg, c ∈ cells) → Covers P cells e := by
  refine VisitsA.rec (P := P)
    (motive_1 := fun e seg _ => ∀ cells : List LCell, (∀ c ∈ seg, c ∈ cells) → Covers P cells e)
    (motive_2 := fun es seg _ => ∀ cells : List LCell, (∀ c ∈ seg, c ∈ cells) → ∀ e ∈ es, Covers P cells e)
    ?_ ?_ ?_ ?_ ?_ ?_ ?_ ?_ ?_ ?_ ?_ ?_ ?_ ?_ ?_ ?_ ?_ ?_ ?_ ?_ h
  · intro _ _ _; exact .lit
  · intro _ _ _; exact .var
  · intro _ _; exact .now
  · intro _ _; exact .samplerate
  · intro _ _; exact .self
  · intro _ _ _ _; exact .lam
  · intro _ _ _ _ ih cells hs; exact .un (ih cells hs)
  · intro _ _ _ _ _ _ _ iha ihb cells hs
    exact .bin (iha cells (fun c hc => hs c (List.mem_append_left _ hc)))
      (ihb cells (fun c hc => hs c (List.mem_append_right _ hc)))
  · intro _ _ _ _ _ _ _ _ _ ihc iha ihb cells hs
    exact .ite (ihc cells (fun c hc => hs c (List.mem_append_left _ hc)))
      (iha cells (fun c hc => hs c (List.mem_append_right _ (List.mem_append_left _ hc))))
      (ihb cells (fun c hc => hs c (List.mem_append_right _ (List.mem_append_right _ hc))))
  · intro _ _ _ _ _ _ _ iha ihb cells hs
    exact .letE (iha cells (fun c hc => hs c (List.mem_append_left _ hc)))
      (ihb cells (fun c hc => hs c (List.mem_append_right _ hc)))
  · intro _ _ _ _ _ _ _ iha ihb cells hs
    exact .letTup (iha cells (fun c hc => hs c (List.mem_append_left _ hc)))
      (ihb cells (fun c hc => hs c (List.mem_append_right _ hc)))
  · intro _ _ _ _ _ _ _ iha ihb cells hs
    exact .assign (iha cells (fun c hc => hs c (List.mem_append_left _ hc)))
      (ihb cells (fun c hc => hs c (List.mem_append_right _ hc)))
  · intro _ _ _ _ ih cells hs; exact .proj (ih cells hs)
  · intro _ _ _ ih cells hs; exact .tup (ih cells hs)
  · intro _ _ _ _ _ _ ihf ihargs cells hs
    exact .app (ihf cells (fun c hc => hs c (List.mem_append_left _ hc)))
      (ihargs cells (fun c hc => hs c (List.mem_append_right _ hc)))
  · intro _ _ _ _ ih cells hs
    exact .mem (ih cells (fun c hc => hs c (List.mem_append_left _ hc))) (hs _ (List.mem_append_right _ (by simp)))
  · intro _ _ _ _ _ _ _ _ iha iht cells hs
    exact .delay (iha cells (fun c hc => hs c (List.mem_append_left _ (List.mem_append_left _ hc))))
      (iht cells (fun c hc => hs c (List.mem_append_left _ (List.mem_append_right _ hc))))
      (hs _ (List.mem_append_right _ (by simp)))
  · intro _ _ _ _ cells' _ _ hself _ ihargs ihbody cells hs
    exact .call (ihargs cells (fun c hc => hs c (List.mem_append_left _ hc)))
      (hs _ (List.mem_append_right _ (by simp))) hself
      (fun d hd => ihbody d hd cells' (fun _ hc => hc))
  · intro cells _ e hm; simp at hm
  · intro _ _ _ _ _ _ ihe ihes cells hs e hm
    simp only [List.mem_cons] at hm
    rcases hm with rfl | hm
    · exact ihe cells (fun c hc => hs c (List.mem_append_left _ hc))
    · exact ihes cells (fun c hc => hs c (List.mem_append_right _ hc)) e hm

/-- **the published layout covers the body, for EVERY program**: every stateful construct of the body, in either arm of any
`if`, owns a cell of its kind -/
theorem publishFnN_coversA (n : Nat) (P : Prog) (d : FnDecl) (lay : LNode) (hpub : publishFnN n P d = some lay) :
    lay.self = d.selfShape ∧ Covers P lay.cells d.body := by
  obtain ⟨hself, hcells⟩ := publishFnN_inv hpub
  exact ⟨hself, visitsA_covers P (publishEN_visitsA n P d.body lay.cells hcells) lay.cells (fun _ hc => hc)⟩

end Mimium.Publish
