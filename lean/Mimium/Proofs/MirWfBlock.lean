import Mimium.Proofs.MirWfStep
import Mimium.Proofs.MirStateBlock
/-! `wfBlock` (one block entered from one predecessor arm), `wfFn` (all entries) and all call depths. -/
namespace Mimium.Mir
open Mimium.StateMachine Mimium.RustGen

theorem wfBlock_op (P : Prog) (nregs nblocks : Nat) (as : List Arm) (c : WCert) (preds : List Nat) (bi : Nat) (i : Ins)
    (rest : List Ins) (lc : Option (Nat × Nat)) (pred : Nat) (D : List Nat) (h : i.isCtl = false) :
    wfBlock P nregs nblocks as c preds bi (i :: rest) lc pred D =
      (wfIns P lc D i && wfBlock P nregs nblocks as c preds bi rest (lcAfter i) pred (addDst nregs D i.dst)) := by
  cases i <;> simp [Ins.isCtl] at h <;> (simp only [wfBlock])

theorem moveM_dinv {nregs : Nat} {D : List Nat} (d src : Nat) (s : MSt) (hsrc : Defined s.fr.regs src)
    (h : DInv nregs D s.fr.regs) : DInv nregs (addDst nregs D (some d)) (moveM d src s).fr.regs := by
  obtain ⟨rg, hrg⟩ := hsrc
  refine dinv_set h _ _ (Or.inr ?_)
  unfold moveM
  simp only [hrg]
  split
  · exact ⟨d, _, rfl, rfl⟩
  · exact ⟨d, _, rfl, rfl⟩

/-- what one executed block guarantees -/
def WfPost (nregs nblocks : Nat) (c : WCert) : FlowM → Prop
  | .next bb' pred' s' => bb' < nblocks ∧ ∃ D', wfind c bb' pred' = some D' ∧ DInv nregs D' s'.fr.regs
  | .ret r => Safe r
  | .err e => NoStuck e

theorem succOk_post {nregs nblocks : Nat} {c : WCert} {bb pred : Nat} {D : List Nat} {s : MSt}
    (h : succOk nblocks c bb pred D = true) (hd : DInv nregs D s.fr.regs) :
    bb < nblocks ∧ ∃ D', wfind c bb pred = some D' ∧ DInv nregs D' s.fr.regs := by
  simp only [succOk, Bool.and_eq_true, decide_eq_true_eq] at h
  refine ⟨h.1, ?_⟩
  cases hw : wfind c bb pred with
  | none => simp [hw] at h
  | some D' =>
    simp only [hw] at h
    exact ⟨D', rfl, hd.1, fun r hr => hd.2 r (subsetB_mem h.2 r hr)⟩

theorem noStuck_stuck (w : String) : NoStuck (.stuck w) := ⟨by simp, by simp⟩

theorem wfBlock_sound {P : Prog} {callF : CallF} (hcall : CallSafe callF) (nregs nblocks : Nat) (as : List Arm) (c : WCert)
    (preds : List Nat) (bi : Nat) :
    ∀ (is : List Ins) (lc : Option (Nat × Nat)) (pred : Nat) (D : List Nat) (s : MSt),
      wfBlock P nregs nblocks as c preds bi is lc pred D = true → DInv nregs D s.fr.regs → LcOkR lc s.rest →
      WfPost nregs nblocks c (execBlockM callF P as preds bi is pred s) := by
  intro is
  induction is with
  | nil =>
    intro lc pred D s hwf hd _
    simp only [wfBlock] at hwf
    simp only [execBlockM]
    cases hl : lastContaining as bi with
    | none => exact noStuck_stuck _
    | some arm => simp only [hl] at hwf; exact succOk_post hwf hd
  | cons i rest ih =>
    intro lc pred D s hwf hd hlc
    by_cases hc : i.isCtl = false
    · rw [wfBlock_op P nregs nblocks as c preds bi i rest lc pred D hc, Bool.and_eq_true] at hwf
      rw [execBlockM_op callF P as preds bi i rest pred s hc]
      cases hst : stepIns callF P i s with
      | error e => exact safe_stepIns hcall i s lc D hwf.1 hd.2 hlc e hst
      | ok s' =>
        obtain ⟨hd', hlc'⟩ := stepIns_dinv hst hd
        exact ih (lcAfter i) pred _ s' hwf.2 hd' hlc'
    · cases i with
      | phi d l r =>
        simp only [wfBlock] at hwf
        simp only [execBlockM]
        rcases preds with _ | ⟨p0, _ | ⟨p1, ps⟩⟩
        · exact noStuck_stuck _
        · exact noStuck_stuck _
        · simp only [] at hwf ⊢
          by_cases hp0 : pred = p0
          · subst hp0
            simp only [if_true, Bool.and_eq_true] at hwf ⊢
            have hm := moveM_dinv d l s (hd.2 l (by simpa using hwf.1)) hd
            exact ih none pred _ _ hwf.2 hm (lcOkR_none _)
          · by_cases hp1 : pred = p1
            · subst hp1
              simp only [hp0, if_true, if_false, Bool.and_eq_true] at hwf ⊢
              have hm := moveM_dinv d r s (hd.2 r (by simpa using hwf.1)) hd
              exact ih none pred _ _ hwf.2 hm (lcOkR_none _)
            · simp only [hp0, hp1, if_false]
              exact noStuck_stuck _
      | phiSwitch d ins =>
        simp only [wfBlock] at hwf
        simp only [execBlockM]
        cases hf : (preds.zip ins).find? (fun a => a.1 == pred) with
        | none => exact noStuck_stuck _
        | some a =>
          simp only [hf, Bool.and_eq_true] at hwf
          simp only []
          have hm := moveM_dinv d a.2 s (hd.2 a.2 (by simpa using hwf.1)) hd
          exact ih none pred _ _ hwf.2 hm (lcOkR_none _)
      | jmpIf cnd t e m =>
        simp only [wfBlock, Bool.and_eq_true] at hwf
        simp only [execBlockM]
        have hwfi : wfIns P lc D (.jmpIf cnd t e m) = true := by
          simp [wfIns, Ins.uses, subsetB]; simpa using hwf.1.1
        cases hst : stepIns callF P (.jmpIf cnd t e m) s with
        | error e' => exact safe_stepIns hcall _ s lc D hwfi hd.2 hlc e' hst
        | ok s' =>
          obtain ⟨hd', _⟩ := stepIns_dinv hst hd
          simp only [Ins.dst, addDst] at hd'
          simp only []
          by_cases htr : truthyM cnd s' = true
          · simp only [htr, if_true]; exact succOk_post hwf.1.2 hd'
          · simp only [htr]; exact succOk_post hwf.2 hd'
      | jmp off =>
        simp only [wfBlock] at hwf
        simp only [execBlockM]
        exact succOk_post hwf hd
      | switch cnd cases dflt m =>
        simp only [wfBlock, Bool.and_eq_true, List.all_eq_true] at hwf
        simp only [execBlockM]
        have hwfi : wfIns P lc D (.switch cnd cases dflt m) = true := by
          simp [wfIns, Ins.uses, subsetB]; simpa using hwf.1.1
        cases hst : stepIns callF P (.switch cnd cases dflt m) s with
        | error e' => exact safe_stepIns hcall _ s lc D hwfi hd.2 hlc e' hst
        | ok s' =>
          obtain ⟨hd', _⟩ := stepIns_dinv hst hd
          simp only [Ins.dst, addDst] at hd'
          simp only []
          cases hsw : switchTarget cases dflt (scrutM cnd s') with
          | none => exact noStuck_stuck _
          | some n =>
            simp only []
            rcases switchTarget_mem hsw with ⟨cs, hmem, hcn⟩ | hdf
            · have := hwf.1.2 cs hmem
              rw [hcn] at this
              exact succOk_post this hd'
            · have h2 := hwf.2
              rw [hdf] at h2
              simp only [Option.all_some] at h2
              exact succOk_post h2 hd'
      | ret src n =>
        simp only [wfBlock] at hwf
        simp only [execBlockM]
        have hu : ∀ r ∈ opdRegs src, Defined s.fr.regs r := fun r hr => hd.2 r (subsetB_mem hwf r hr)
        cases src with
        | none => exact Safe.ok _
        | reg r => exact Safe.bind (safe_readOpd _ _ _ hu) (fun _ => Safe.ok _)
        | fn i => exact Safe.bind (safe_readOpd _ _ _ hu) (fun _ => Safe.ok _)
        | ext nm => exact Safe.bind (safe_readOpd _ _ _ hu) (fun _ => Safe.ok _)
        | bad => exact Safe.bind (safe_readOpd _ _ _ hu) (fun _ => Safe.ok _)
        | up i => exact Safe.bind (safe_readOpd _ _ _ hu) (fun _ => Safe.ok _)
      | retFeed src n =>
        simp only [wfBlock] at hwf
        simp only [execBlockM]
        have hu : ∀ r ∈ opdRegs src, Defined s.fr.regs r := fun r hr => hd.2 r (subsetB_mem hwf r hr)
        exact Safe.bind (safe_readOpd _ _ _ hu) (fun _ => Safe.bind (safe_stateOp _ _) (fun _ => Safe.ok _))
      | _ => simp [Ins.isCtl] at hc

end Mimium.Mir
