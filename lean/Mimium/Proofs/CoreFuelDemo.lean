import Mimium.Proofs.CoreFuelIO
/-!
The concrete witness program of the fuel theorems of `Props/C02.lean` (non-vacuity): a global, a stateful function
(`mem`, `self`) called at two sites, a closure capturing a parameter, a `mem` in `dsp`; no float arithmetic, so the
kernel can evaluate the model on it.
-/
namespace Mimium.Core

def fuelDemo : Prog :=
  { globals := [("g", .lit 3)],
    fns := [⟨"f", ["x"], .tup [.mem (.var "x") 0, .proj .self 0, .var "g"], some (.tup [.num, .num, .num])⟩],
    dsp := ⟨"dsp", ["i"],
      .letE "h" (.lam ["y"] (.tup [.var "y", .var "i"]))
        (.tup [.call "f" [.var "i"] 1, .app (.var "h") [.lit 9], .mem (.var "i") 2, .call "f" [.lit 1] 3]), none⟩ }

def fuelDemoIn : Nat → List UInt64 := fun t => [t.toUInt64 + 5]

def outOf (r : Res (List (List UInt64) × Machine)) : Option (List (List UInt64)) :=
  match r with | .ok (o, _) => some o | .error _ => none

def isFuel {α : Type} (r : Res α) : Bool := match r with | .error .fuel => true | _ => false

def fuelDemoOut : List (List UInt64) := [[0, 0, 3, 9, 5, 0, 0, 0, 3], [5, 0, 3, 9, 6, 5, 1, 0, 3], [6, 5, 3, 9, 7, 6, 1, 1, 3]]

def fuelDemoE : Expr := .tup [.mem (.lit 4) 0, .app (.lam ["y"] (.tup [.var "y", .var "y"])) [.lit 9]]

def valOf (r : Res (Val × Store × SNode)) : Option (List UInt64 × UInt64) :=
  match r with | .ok (v, _, st) => some (flattenVal v, st.memAt 0) | .error _ => none

end Mimium.Core
