import Mimium.Proofs.CstPrintContent
/-! `print_grouped_list` and `print_use_target_multiple`: items, re-created commas with their comments, delimiters. -/
namespace Mimium.CstPrint
open Mimium.Gen (Kind SK)
open Mimium.Cst (Green)
open SDoc

def sepsGood (c : Ctx) (seps : List CC) : Prop := ∀ s ∈ seps, ccGood c s

theorem sepsGood_push (c : Ctx) (seps : List CC) (ti : Nat) (h : sepsGood c seps) :
    sepsGood c (seps ++ [emitTokenComments c ti]) := by
  intro s hs
  rcases List.mem_append.mp hs with h1 | h1
  · exact h s h1
  · simp only [List.mem_singleton] at h1; subst h1; exact (emitTokenComments_spec c ti).2.2

theorem list_other (c : Ctx) (st : ListSt) (d' : Ch) (h : (st.foundOpen && emp c st.closeDoc && st.seps.length == st.items.length) = true) :
    listHeld c (listOther st d' ) = listHeld c st ++ content c d'.2 := by
  simp only [Bool.and_eq_true, emp_iff] at h
  obtain ⟨⟨h1, h2⟩, _⟩ := h
  simp only [listOther, h1, if_true, listHeld, h2, List.append_nil]
  cases st.current <;> simp [List.append_assoc]

def listInv (c : Ctx) (st : ListSt) : Prop := sepsGood c st.seps ∧ st.seps.length ≤ st.items.length

theorem listInv_other (c : Ctx) (st : ListSt) (ch : Ch) (hi : listInv c st) : listInv c (listOther st ch) := by
  simp only [listOther]; split <;> exact hi

/-- the bracket counter is not part of what the state holds -/
theorem listHeld_depth (c : Ctx) (st : ListSt) (n : Nat) : listHeld c { st with depth := n } = listHeld c st := rfl

theorem list_step (c : Ctx) (st : ListSt) (ch : Ch) (hi : listInv c st) (hch : ChOk c ch) (hok : listOk c st ch = true) :
    listInv c (listStep c st ch) ∧ listHeld c (listStep c st ch) = listHeld c st ++ content c ch.2 := by
  obtain ⟨g, d⟩ := ch
  cases g with
  | node k gs =>
    simp only [listOk] at hok
    refine ⟨listInv_other c st _ hi, ?_⟩
    exact list_other c st (.node k gs, d) hok
  | token ti w =>
    have hd := chOk_token c _ d ti w rfl hch
    simp only [listOk] at hok
    simp only [listStep]
    by_cases hn : (isOpenDelim (c.kind ti) && st.foundOpen) = true
    · -- a bracket opened inside the list: part of the current item
      simp only [hn, if_true] at hok ⊢
      have hf : st.foundOpen = true := by simp only [Bool.and_eq_true] at hn; exact hn.2
      refine ⟨listInv_other c { st with depth := st.depth + 1 } _ hi, ?_⟩
      rw [list_other c { st with depth := st.depth + 1 } (.token ti w, d) (by simpa [hf] using hok), listHeld_depth]
    · have hn' : (isOpenDelim (c.kind ti) && st.foundOpen) = false := by simpa using hn
      simp only [hn', Bool.false_eq_true, if_false] at hok ⊢
      by_cases ho : isOpenDelim (c.kind ti) = true
      · simp only [ho, if_true, Bool.and_eq_true, emp_iff, List.isEmpty_iff, Option.isNone_iff_eq_none] at hok ⊢
        obtain ⟨⟨⟨⟨h1, h2⟩, h3⟩, h4⟩, h5⟩ := hok
        refine ⟨hi, ?_⟩
        simp [listHeld, h1, h2, h3, h4, h5, zipC]
      · have ho' : isOpenDelim (c.kind ti) = false := by simpa using ho
        simp only [ho', Bool.false_eq_true, if_false] at hok ⊢
        by_cases hcd : (isCloseDelim (c.kind ti) && decide (st.depth > 0)) = true
        · -- the bracket that closes an inner one
          simp only [hcd, if_true] at hok ⊢
          refine ⟨listInv_other c { st with depth := st.depth - 1 } _ hi, ?_⟩
          rw [list_other c { st with depth := st.depth - 1 } (.token ti w, d) hok, listHeld_depth]
        · have hcd' : (isCloseDelim (c.kind ti) && decide (st.depth > 0)) = false := by simpa using hcd
          simp only [hcd', Bool.false_eq_true, if_false] at hok ⊢
          by_cases hc : isCloseDelim (c.kind ti) = true
          · simp only [hc, if_true, emp_iff] at hok ⊢
            refine ⟨hi, ?_⟩
            simp [listHeld, hok]
          · have hc' : isCloseDelim (c.kind ti) = false := by simpa using hc
            simp only [hc', Bool.false_eq_true, if_false] at hok ⊢
            by_cases hk : (c.kind ti == Kind.Comma && st.depth == 0) = true
            · have hk1 : c.kind ti = .Comma := by simp only [Bool.and_eq_true, beq_iff_eq] at hk; exact hk.1
              simp only [hk, if_true, Bool.and_eq_true, emp_iff, beq_iff_eq, Option.isSome_iff_exists] at hok ⊢
              obtain ⟨⟨⟨item, h1⟩, h2⟩, h3⟩ := hok
              simp only [h1]
              rw [pushCommaComments_eq c st.seps _ ti (by simp [h2])]
              refine ⟨⟨sepsGood_push c _ ti hi.1, by simp [h2]⟩, ?_⟩
              simp only [listHeld, h1, h3, List.append_nil]
              rw [zipC_snoc_both c item _ st.items st.seps h2, hd, tokItems_comma c ti hk1]
              simp [List.append_assoc]
            · have hk' : (c.kind ti == Kind.Comma && st.depth == 0) = false := by simpa using hk
              simp only [hk', Bool.false_eq_true, if_false] at hok ⊢
              refine ⟨listInv_other c st _ hi, ?_⟩
              exact list_other c st (.token ti w, d) hok

theorem list_content (c : Ctx) (cs : List Ch) (hch : ∀ ch ∈ cs, ChOk c ch)
    (hok : allOk (listStep c) (listOk c) {} cs = true) : content c (printGroupedList c cs) = chContent c cs := by
  have h := loop_held c (listStep c) (listOk c) (listHeld c) (listInv c)
    (fun st ch hi h1 h2 => list_step c st ch hi h1 h2) cs {} ⟨by intro s hs; simp at hs, by simp⟩ hch hok
  obtain ⟨hg, h2⟩ := h
  have h0 : listHeld c ({} : ListSt) = [] := by simp [listHeld, zipC]
  rw [h0, List.nil_append] at h2
  rw [← h2]
  unfold printGroupedList listFinish
  generalize cs.foldl (listStep c) {} = st at hg ⊢
  simp only [listHeld]
  cases hcur : st.current with
  | none =>
    simp only
    cases hitems : st.items with
    | nil => simp [zipC]
    | cons x xs =>
      simp only [List.isEmpty_cons, Bool.false_eq_true, if_false, content_grp, content_app, content_nst]
      rw [content_joinListItems c softline (by simp) _ _ hg.1]
      simp [List.append_assoc]
  | some item =>
    simp only
    have hne : (st.items ++ [item]).isEmpty = false := by simp
    simp only [hne, Bool.false_eq_true, if_false, content_grp, content_app, content_nst]
    rw [content_joinListItems c softline (by simp) _ _ hg.1, zipC_snoc_item c item _ _ hg.2]
    simp [List.append_assoc]

end Mimium.CstPrint
