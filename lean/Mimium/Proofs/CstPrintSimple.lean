import Mimium.Proofs.CstPrintContent
/-! The print functions without slots: every child is appended (or, for the three filters, every child of the class is). -/
namespace Mimium.CstPrint
open Mimium.Gen (Kind SK)
open Mimium.Cst (Green)
open SDoc

theorem leafChildren_content (c : Ctx) (cs : List Ch) : content c (printLeafChildren cs) = chContent c cs := by
  simp [printLeafChildren, chContent_map]

theorem groupedConcat_content (c : Ctx) (cs : List Ch) : content c (printGroupedConcat cs) = chContent c cs := by
  simp [printGroupedConcat, chContent_map]

theorem program_content (c : Ctx) (cs : List Ch) : content c (printProgram cs) = chContent c cs := by
  rw [printProgram, content_intersperse c _ _ (by simp), chContent_map]

theorem typeDecl_content (c : Ctx) (cs : List Ch) : content c (printTypeDecl cs) = chContent c cs := by
  rw [printTypeDecl, content_intersperse c _ _ (by simp), chContent_map]

theorem commaSpaced_content (c : Ctx) (cs : List Ch) : content c (printCommaSpacedChildren c cs) = chContent c cs := by
  unfold printCommaSpacedChildren
  rw [fold_content c _ cs (by intro r ch _; split <;> simp)]; simp

theorem matchExpr_content (c : Ctx) (cs : List Ch) : content c (printMatchExpr c cs) = chContent c cs := by
  unfold printMatchExpr
  rw [fold_content c _ cs (by intro r ch _; split <;> simp)]; simp

theorem matchArmList_content (c : Ctx) (cs : List Ch) : content c (printMatchArmList c cs) = chContent c cs := by
  unfold printMatchArmList
  rw [content_nst, fold_content c _ cs (by intro r ch _; split <;> simp)]; simp

theorem matchArm_content (c : Ctx) (cs : List Ch) : content c (printMatchArm c cs) = chContent c cs := by
  unfold printMatchArm
  rw [fold_content c _ cs (by intro r ch _; split <;> simp)]; simp

theorem functionDecl_content (c : Ctx) (cs : List Ch) : content c (printFunctionDecl c cs) = chContent c cs := by
  unfold printFunctionDecl
  rw [fold_content c _ cs (by intro r ch _; split <;> simp)]; simp

theorem assignExpr_content (c : Ctx) (cs : List Ch) : content c (printAssignExpr c cs) = chContent c cs := by
  unfold printAssignExpr
  rw [fold_content c _ cs (by intro r ch _; split <;> simp)]; simp

theorem moduleDecl_content (c : Ctx) (cs : List Ch) : content c (printModuleDecl c cs) = chContent c cs := by
  unfold printModuleDecl
  have : ∀ (cs : List Ch) (st : SDoc × Bool × Bool),
      content c (cs.foldl (modStep c) st).1 = content c st.1 ++ chContent c cs := by
    intro cs
    induction cs with
    | nil => intro st; simp [chContent]
    | cons ch cs ih =>
      intro st
      simp only [List.foldl_cons, ih, chContent_cons]
      unfold modStep
      split
      · split
        · simp
        · split <;> simp
      · simp
  simp [this]

theorem qualifiedPath_content (c : Ctx) (cs : List Ch)
    (h : (cs.all fun ch => match tokKind c ch.1 with | some k => isIdentLike k || k == .DoubleColon | none => true) = true) :
    content c (printQualifiedPath c cs) = chContent c cs := by
  unfold printQualifiedPath
  rw [fold_content c _ cs]; · simp
  intro r ch hch
  have := List.all_eq_true.mp h ch hch
  split
  · next k hk => simp only [hk] at this; simp [this]
  · simp

theorem useTargetWildcard_content (c : Ctx) (cs : List Ch)
    (h : (cs.all fun ch => match tokKind c ch.1 with | some k => k == .DoubleColon || k == .OpProduct | none => false) = true) :
    content c (printUseTargetWildcard c cs) = chContent c cs := by
  unfold printUseTargetWildcard
  rw [fold_content c _ cs]; · simp
  intro r ch hch
  have := List.all_eq_true.mp h ch hch
  split
  · next k hk => simp only [hk] at this; simp [this]
  · next hk => simp [hk] at this

theorem visibilityPub_content (c : Ctx) (cs : List Ch) (h : (cs.all fun ch => tokKind c ch.1 == some .Pub) = true) :
    content c (printVisibilityPub c cs) = chContent c cs := by
  unfold printVisibilityPub
  rw [fold_content c _ cs]; · simp
  intro r ch hch
  have := List.all_eq_true.mp h ch hch
  simp [this]

end Mimium.CstPrint
