import Mimium.Proofs.HeapStd
/-!
# `stdPush` / `stdPop` of the `BinaryHeap` port: heap invariant, multiset, minimum (C11)

* `siftUp_heap`, `siftDownLoop_spec`: the two loops, from the one-step lemmas of `HeapStd.lean`; the fuel the port
  passes (`size`) is always enough (the fuel-0 branch is never the reason a loop stops);
* `stdPush_isHeap`, `stdPush_perm`; `stdPop_none`, `stdPop_spec` (root returned, rest is a heap and a permutation),
  `IsHeap.root_le` (the root is a minimum).
-/
namespace Mimium.Sched

/-! ## sift_up -/

theorem siftUp_size (start : Nat) : ∀ (fuel pos : Nat) (d : Array Task), (siftUp start fuel pos d).size = d.size
  | 0, _, _ => rfl
  | fuel + 1, pos, d => by
    unfold siftUp
    split
    · simp only
      split
      · rfl
      · rw [siftUp_size start fuel, Array.size_swapIfInBounds]
    · rfl

theorem siftUp_perm (start : Nat) : ∀ (fuel pos : Nat) (d : Array Task),
    (siftUp start fuel pos d).toList.Perm d.toList
  | 0, _, _ => List.Perm.refl _
  | fuel + 1, pos, d => by
    unfold siftUp
    split
    · simp only
      split
      · exact List.Perm.refl _
      · exact (siftUp_perm start fuel _ _).trans (swapIfInBounds_perm d _ _)
    · exact List.Perm.refl _

theorem siftUp_heap : ∀ (fuel pos : Nat) (d : Array Task), Up d pos → pos < d.size → pos ≤ fuel →
    IsHeap (siftUp 0 fuel pos d)
  | 0, pos, d, h, _, hf => by
    have : pos = 0 := by omega
    subst this
    exact h.isHeap_of_le (fun h0 => absurd h0 (Nat.lt_irrefl 0))
  | fuel + 1, pos, d, h, hp, hf => by
    unfold siftUp
    by_cases h0 : pos > 0
    · simp only [h0, if_true, rle_get]
      by_cases hle : keyAt d ((pos - 1) / 2) ≤ keyAt d pos
      · simp only [hle, decide_true, if_true]
        exact h.isHeap_of_le (fun _ => hle)
      · simp only [hle, decide_false, Bool.false_eq_true, if_false]
        exact siftUp_heap fuel _ _ (h.step h0 hp (by omega)) (by rw [Array.size_swapIfInBounds]; omega) (by omega)
    · simp only [h0, if_false]
      exact h.isHeap_of_le (fun h => absurd h h0)

/-! ## sift_down_to_bottom -/

theorem siftDownLoop_size (endv : Nat) : ∀ (fuel pos : Nat) (d : Array Task),
    (siftDownLoop endv fuel pos d).2.size = d.size
  | 0, _, _ => rfl
  | fuel + 1, pos, d => by
    unfold siftDownLoop
    simp only
    split
    · rw [siftDownLoop_size endv fuel, Array.size_swapIfInBounds]
    · split
      · simp only [Array.size_swapIfInBounds]
      · rfl

theorem siftDownLoop_perm (endv : Nat) : ∀ (fuel pos : Nat) (d : Array Task),
    (siftDownLoop endv fuel pos d).2.toList.Perm d.toList
  | 0, _, _ => List.Perm.refl _
  | fuel + 1, pos, d => by
    unfold siftDownLoop
    simp only
    split
    · exact (siftDownLoop_perm endv fuel _ _).trans (swapIfInBounds_perm d _ _)
    · split
      · exact swapIfInBounds_perm d _ _
      · exact List.Perm.refl _

/-- the walk down ends in a leaf `q` with the array a heap except at `q` -/
theorem siftDownLoop_spec : ∀ (fuel pos : Nat) (d : Array Task) (endv : Nat), endv = d.size → Hole d pos →
    pos < endv → endv ≤ pos + fuel →
    Hole (siftDownLoop endv fuel pos d).2 (siftDownLoop endv fuel pos d).1 ∧
      endv ≤ 2 * (siftDownLoop endv fuel pos d).1 + 1 ∧ (siftDownLoop endv fuel pos d).1 < endv
  | 0, pos, d, endv, _, _, hp, hf => by omega
  | fuel + 1, pos, d, endv, he, h, hp, hf => by
    unfold siftDownLoop
    simp only
    by_cases h1 : 2 * pos + 1 ≤ endv - 2 ∧ 2 ≤ endv
    · simp only [h1, and_self, if_true, rle_get]
      by_cases hr : keyAt d (2 * pos + 1 + 1) ≤ keyAt d (2 * pos + 1)
      · simp only [hr, decide_true, if_true]
        have hs := h.step (c := 2 * pos + 1 + 1) (by omega) (by omega) (by omega) (by
          intro j hj0 hj hpar
          have : j = 2 * pos + 1 ∨ j = 2 * pos + 1 + 1 := by omega
          rcases this with rfl | rfl
          · exact hr
          · exact Nat.le_refl _)
        exact siftDownLoop_spec fuel _ _ endv (by rw [Array.size_swapIfInBounds]; exact he) hs (by omega) (by omega)
      · simp only [hr, decide_false, Bool.false_eq_true, if_false]
        have hs := h.step (c := 2 * pos + 1) (by omega) (by omega) (by omega) (by
          intro j hj0 hj hpar
          have : j = 2 * pos + 1 ∨ j = 2 * pos + 1 + 1 := by omega
          rcases this with rfl | rfl
          · exact Nat.le_refl _
          · omega)
        exact siftDownLoop_spec fuel _ _ endv (by rw [Array.size_swapIfInBounds]; exact he) hs (by omega) (by omega)
    · simp only [h1, if_false]
      by_cases h2 : 2 * pos + 1 + 1 = endv
      · simp only [h2, if_true]
        have hs := h.step (c := 2 * pos + 1) (by omega) (by omega) (by omega) (by
          intro j hj0 hj hpar
          have : j = 2 * pos + 1 := by omega
          subst this
          exact Nat.le_refl _)
        exact ⟨hs, by omega, by omega⟩
      · simp only [h2, if_false]
        refine ⟨h, by omega, hp⟩

/-! ## push -/

theorem keyAt_push_lt (d : Array Task) (x : Task) {i : Nat} (hi : i < d.size) : keyAt (d.push x) i = keyAt d i := by
  unfold keyAt
  rw [getElem!_pos _ i (by simp; omega), getElem!_pos _ i hi, Array.getElem_push]
  simp [hi]

theorem stdPush_size (x : Task) (d : Array Task) : (stdPush x d).size = d.size + 1 := by
  simp [stdPush, siftUp_size]

/-- `push` adds exactly one element -/
theorem stdPush_perm (x : Task) (d : Array Task) : (stdPush x d).toList.Perm (x :: d.toList) := by
  refine (siftUp_perm 0 _ _ _).trans ?_
  simp only [Array.toList_push]
  exact List.perm_append_singleton x d.toList

/-- `push` keeps the heap invariant -/
theorem stdPush_isHeap (x : Task) (d : Array Task) (h : IsHeap d) : IsHeap (stdPush x d) := by
  unfold stdPush
  refine siftUp_heap _ _ _ ?_ (by simp) (by simp)
  constructor
  · intro i h0 hi hne
    have hi' : i < d.size := by simp at hi; omega
    rw [keyAt_push_lt d x hi', keyAt_push_lt d x (by omega)]
    exact h i h0 hi'
  · intro i h0 hi hpar
    simp at hi
    omega

/-! ## pop -/

theorem IsHeap.root_le {d : Array Task} (h : IsHeap d) : ∀ i, i < d.size → keyAt d 0 ≤ keyAt d i := by
  intro i
  induction i using Nat.strongRecOn with
  | _ i ih =>
    intro hi
    by_cases h0 : i = 0
    · subst h0; exact Nat.le_refl _
    · have h1 := h i (by omega) hi
      have h2 := ih ((i - 1) / 2) (by omega) (by omega)
      omega

/-- the root of a heap is a minimum of its elements -/
theorem IsHeap.root_min {d : Array Task} (h : IsHeap d) : ∀ y ∈ d.toList, keyAt d 0 ≤ y.when := by
  intro y hy
  obtain ⟨i, hi, rfl⟩ := List.mem_iff_getElem.1 hy
  have := h.root_le i (by simpa using hi)
  unfold keyAt at this ⊢
  rw [getElem!_pos d i (by simpa using hi)] at this
  simpa using this

theorem stdPop_none (d : Array Task) : stdPop d = none ↔ d.size = 0 := by
  unfold stdPop
  by_cases h : d.size = 0
  · simp [h]
  · simp only [h, if_false]
    constructor
    · intro e
      split at e <;> cases e
    · intro e; exact e.elim

theorem keyAt_pop (d : Array Task) {i : Nat} (hi : i < d.size - 1) : keyAt d.pop i = keyAt d i := by
  unfold keyAt
  rw [getElem!_pos _ i (by simp; omega), getElem!_pos _ i (by omega), Array.getElem_pop]

theorem keyAt_set0 (d : Array Task) (x : Task) (h0 : 0 < d.size) (i : Nat) :
    keyAt (d.setIfInBounds 0 x) i = if i = 0 then x.when else keyAt d i := by
  unfold keyAt
  by_cases hi : i < d.size
  · rw [getElem!_pos _ i (by simp; omega), Array.getElem_setIfInBounds hi]
    by_cases hz : i = 0
    · subst hz; simp
    · have : ¬ 0 = i := by omega
      simp only [this, hz, if_false]
      rw [getElem!_pos _ i hi]
  · have hz : i ≠ 0 := by omega
    simp only [hz, if_false]
    rw [getElem!_neg _ i (by simp; omega), getElem!_neg _ i hi]

theorem toList_pop_decomp (d : Array Task) (h : d.size ≠ 0) : d.toList = d.pop.toList ++ [d[d.size - 1]!] := by
  have hne : d.toList ≠ [] := by
    intro e
    have : d.size = 0 := by rw [← Array.length_toList, e]; rfl
    exact h this
  rw [Array.toList_pop]
  have hl : d[d.size - 1]! = d.toList.getLast hne := by
    rw [getElem!_pos d (d.size - 1) (by omega), List.getLast_eq_getElem]
    simp
  rw [hl, List.dropLast_concat_getLast]

theorem toList_set0 (d : Array Task) (x : Task) (h : d.size ≠ 0) :
    d.toList = d[0]! :: (d.setIfInBounds 0 x).toList.tail := by
  rw [Array.toList_setIfInBounds]
  rw [getElem!_pos d 0 (by omega)]
  cases hd : d.toList with
  | nil =>
    have : d.size = 0 := by rw [← Array.length_toList, hd]; rfl
    exact absurd this h
  | cons a t =>
    have : d[0]'(by omega) = a := by
      have h2 : d[0]'(by omega) = d.toList[0]'(by simp; omega) := by simp
      rw [h2]
      simp [hd]
    simp [this]

/-- `pop` on a non-empty heap: the root is returned; the rest is again a heap and, with the root, a permutation of
what was there (exactly one occurrence removed). -/
theorem stdPop_spec (d : Array Task) (h : IsHeap d) (hs : d.size ≠ 0) :
    ∃ r, stdPop d = some (d[0]!, r) ∧ IsHeap r ∧ d.toList.Perm (d[0]! :: r.toList) ∧ r.size + 1 = d.size := by
  unfold stdPop
  simp only [hs, if_false]
  by_cases h1 : d.pop.size = 0
  · simp only [h1, if_true]
    have hsz : d.size = 1 := by simp at h1; omega
    refine ⟨d.pop, by simp [hsz], ?_, ?_, by omega⟩
    · intro i _ hi; omega
    · rw [toList_pop_decomp d hs]
      have : d.pop.toList = [] := by
        apply List.eq_nil_of_length_eq_zero; simpa using h1
      rw [this, hsz]
      simp
  · simp only [h1, if_false]
    have hsz : 2 ≤ d.size := by simp at h1; omega
    have hroot : d.pop[0]! = d[0]! := by
      rw [getElem!_pos _ 0 (by simp; omega), getElem!_pos _ 0 (by omega), Array.getElem_pop]
    rw [hroot]
    simp only [Array.set!_eq_setIfInBounds]
    generalize hd2 : d.pop.setIfInBounds 0 d[d.size - 1]! = d2
    have hsz2 : d2.size = d.size - 1 := by rw [← hd2]; simp
    have hole : Hole d2 0 := by
      constructor
      · intro i h0 hi hne hpar
        rw [← hd2, keyAt_set0 _ _ (by simp; omega), keyAt_set0 _ _ (by simp; omega)]
        simp only [hne, hpar, if_false]
        rw [keyAt_pop d (by omega), keyAt_pop d (by omega)]
        exact h i h0 (by omega)
      · intro i _ _ _ hp; omega
    obtain ⟨s1, s2, s3⟩ := siftDownLoop_spec d2.size 0 d2 d2.size rfl hole (by omega) (by omega)
    have hsz3 : (siftDownLoop d2.size d2.size 0 d2).2.size = d2.size := siftDownLoop_size _ _ _ _
    have hup : Up (siftDownLoop d2.size d2.size 0 d2).2 (siftDownLoop d2.size d2.size 0 d2).1 :=
      s1.up_of_leaf (by omega)
    have hheap := siftUp_heap d2.size _ _ hup (by omega) (by omega)
    refine ⟨_, rfl, hheap, ?_, by rw [siftUp_size, hsz3, hsz2]; omega⟩
    have hperm : (siftUp 0 d2.size (siftDownLoop d2.size d2.size 0 d2).1 (siftDownLoop d2.size d2.size 0 d2).2).toList.Perm
        d2.toList := (siftUp_perm _ _ _ _).trans (siftDownLoop_perm _ _ _ _)
    refine List.Perm.trans ?_ (List.Perm.cons _ hperm.symm)
    -- d = pop ++ [last],  pop = root :: tl,  d2 = last :: tl
    rw [toList_pop_decomp d hs]
    have e1 := toList_set0 d.pop d[d.size - 1]! h1
    rw [hd2, hroot] at e1
    have e2 : d2.toList = d[d.size - 1]! :: d2.toList.tail := by
      rw [← hd2, Array.toList_setIfInBounds]
      cases hdp : d.pop.toList with
      | nil =>
        have := congrArg List.length hdp
        simp at this
        omega
      | cons a t => simp
    rw [e1, e2]
    simp only [List.tail_cons, List.cons_append]
    refine List.Perm.cons _ ?_
    exact (List.perm_append_singleton _ _)

end Mimium.Sched
