import Mimium.Model.LiveCoding
import Mimium.Props.C08
import Mimium.Props.C05
import Mimium.Proofs.EvalFrame
/-!
# lemmas about `Model/LiveCoding.lean` (1): swapping to the SAME program

* the word round trip `natToWords ∘ wordsToNat = id`; `swapWords lay lay st = some (serialize lay st)` (`vmResume` on
  identical skeletons clones); `swapState P P st = some (deserialize lay (serialize lay st))`;
* `Agree` is transitive and transports `ConformsS` backwards;
* `sessionFrom_same_program`: a session whose swap events all name the running program produces, from a machine that
  agrees with the machine of the uninterrupted run, exactly the samples of the uninterrupted run.
-/
namespace Mimium.LiveCoding
open Mimium.Core Mimium.Cells Mimium.StateTree Mimium.FlatTree Mimium.Publish Mimium.HotSwap

theorem natToWords_wordsToNat (ws : List UInt64) : natToWords (wordsToNat ws) = ws := by
  simp [natToWords, wordsToNat, List.map_map, Function.comp_def]

theorem wordsToNat_length (ws : List UInt64) : (wordsToNat ws).length = ws.length := by simp [wordsToNat]

theorem swapWords_same (lay : LNode) (st : SNode) : swapWords lay lay st = some (serialize lay st) := by
  simp [swapWords, vmResume, C08_identical_noop, natToWords_wordsToNat]

theorem swapState_same (P : Prog) (lay : LNode) (h : publishFn P P.dsp = some lay) (st : SNode) :
    swapState P P st = some (deserialize lay (serialize lay st)) := by
  simp [swapState, h, swapWords_same]

/-! ### `Agree` -/

mutual
theorem AgreeC.refl : ∀ (c : LCell) (a : SNode), AgreeC c a a
  | .mem _, _ => by simp [AgreeC]
  | .delay _ _, _ => by simp [AgreeC]
  | .child _ _ cells, a => by simp only [AgreeC, true_and]; exact AgreeL.refl cells _
theorem AgreeL.refl : ∀ (cs : List LCell) (a : SNode), AgreeL cs a a
  | [], _ => by simp [AgreeL]
  | c :: cs, a => by simp only [AgreeL]; exact ⟨AgreeC.refl c a, AgreeL.refl cs a⟩
end

theorem Agree.refl (lay : LNode) (a : SNode) : Agree lay a a := ⟨rfl, AgreeL.refl lay.cells a⟩

mutual
theorem AgreeC.trans : ∀ (c : LCell) (a b d : SNode), AgreeC c a b → AgreeC c b d → AgreeC c a d
  | .mem _, _, _, _, h1, h2 => by simp only [AgreeC] at *; exact h1.trans h2
  | .delay _ _, _, _, _, h1, h2 => by simp only [AgreeC] at *; exact h1.trans h2
  | .child _ _ cells, a, b, d, h1, h2 => by
    simp only [AgreeC] at *
    exact ⟨h1.1.trans h2.1, AgreeL.trans cells _ _ _ h1.2 h2.2⟩
theorem AgreeL.trans : ∀ (cs : List LCell) (a b d : SNode), AgreeL cs a b → AgreeL cs b d → AgreeL cs a d
  | [], _, _, _, _, _ => by simp [AgreeL]
  | c :: cs, a, b, d, h1, h2 => by
    simp only [AgreeL] at *
    exact ⟨AgreeC.trans c a b d h1.1 h2.1, AgreeL.trans cs a b d h1.2 h2.2⟩
end

theorem Agree.trans {lay : LNode} {a b d : SNode} (h1 : Agree lay a b) (h2 : Agree lay b d) : Agree lay a d :=
  ⟨h1.1.trans h2.1, AgreeL.trans lay.cells a b d h1.2 h2.2⟩

/-- `SelfOkS` only looks at the stored `self` after the zero-initialisation of a call -/
theorem selfOkS_of_initSelf_eq (self : Option Shape) (a b : SNode)
    (h : (FlatTree.initSelf self a).selfv = (FlatTree.initSelf self b).selfv) (hb : SelfOkS self b) : SelfOkS self a := by
  cases self with
  | none =>
    simp only [SelfOkS] at *
    cases ha : a.selfv <;> simp_all [FlatTree.initSelf]
  | some sh =>
    simp only [SelfOkS] at *
    intro v hv
    have h1 : (FlatTree.initSelf (some sh) a).selfv = some v := by simp [FlatTree.initSelf, hv]
    rw [h] at h1
    cases hbs : b.selfv with
    | none =>
      simp only [FlatTree.initSelf, hbs] at h1
      have : v = zeroOf sh := by
        cases b; simp [SNode.setSelf, SNode.selfv] at h1; exact h1.symm
      rw [this]; exact hasShape_zeroOf sh
    | some w =>
      simp only [FlatTree.initSelf, hbs] at h1
      exact hb v (hbs.trans h1)

mutual
theorem confS_of_agree : ∀ (c : LCell) (a b : SNode), AgreeC c a b → ConfS c b → ConfS c a
  | .mem _, _, _, _, _ => by simp [ConfS]
  | .delay _ _, _, _, h, hb => by simp only [AgreeC, ConfS] at *; rw [h]; exact hb
  | .child _ self cells, a, b, h, hb => by
    simp only [AgreeC, ConfS] at *
    exact ⟨selfOkS_of_initSelf_eq self _ _ h.1 hb.1, confSL_of_agree cells _ _ h.2 hb.2⟩
theorem confSL_of_agree : ∀ (cs : List LCell) (a b : SNode), AgreeL cs a b → ConfSL cs b → ConfSL cs a
  | [], _, _, _, _ => by simp [ConfSL]
  | c :: cs, a, b, h, hb => by
    simp only [AgreeL, ConfSL] at *
    exact ⟨confS_of_agree c a b h.1 hb.1, confSL_of_agree cs a b h.2 hb.2⟩
end

theorem conformsS_of_agree (lay : LNode) (a b : SNode) (h : Agree lay a b) (hb : ConformsS lay b) : ConformsS lay a :=
  ⟨selfOkS_of_initSelf_eq lay.self a b h.1 hb.1, confSL_of_agree lay.cells a b h.2 hb.2⟩

/-- the tree read back from the words of a conforming tree agrees with it -/
theorem agree_deser_ser (lay : LNode) (hl : lay.Ok) (a : SNode) (ha : ConformsS lay a) :
    Agree lay (deserialize lay (serialize lay a)) a := by
  have hlen : (serialize lay a).length = lay.size := serialize_length lay a (conformsS_conforms _ _ ha)
  have hr := serialize_deserialize lay _ hl hlen
  exact agree_of_words lay _ a (canon_conformsS lay _ hl hr.2) ha hr.1

/-! ### the machine of the uninterrupted run -/

/-- swapping (any number of times) to the running program keeps a machine that agrees with the uninterrupted one -/
theorem swapMany_same (fuel : Nat) (sr : UInt64) (P : Prog) (lay : LNode) (hpub : publishFn P P.dsp = some lay)
    (hl : lay.Ok) (mi : Machine) (hinit : Machine.init fuel P sr = .ok mi) (B : Machine)
    (hstore : B.store = mi.store) (hB : ConformsS lay B.root) :
    ∀ (qs : List Prog), (∀ Q ∈ qs, Q = P) → ∀ (A : Machine), MAgree lay A B →
      ∃ A', swapMany fuel sr qs P A = some (P, A') ∧ MAgree lay A' B
  | [], _, A, h => ⟨A, rfl, h⟩
  | Q :: qs, hq, A, h => by
    have hQ : Q = P := hq Q (by simp)
    subst hQ
    have hA : ConformsS lay A.root := conformsS_of_agree lay _ _ h.2.2 hB
    have h1 : swapOne fuel sr Q A Q = some (Q, ⟨mi.store, deserialize lay (serialize lay A.root), A.t⟩) := by
      simp [swapOne, hpub, swapState_same Q lay hpub, hinit]
    have h2 : MAgree lay ⟨mi.store, deserialize lay (serialize lay A.root), A.t⟩ B :=
      ⟨hstore.symm, h.2.1, Agree.trans (agree_deser_ser lay hl _ hA) h.2.2⟩
    obtain ⟨A', e, hA'⟩ := swapMany_same fuel sr Q lay hpub hl mi hinit B hstore hB qs
      (fun Q' hQ' => hq Q' (by simp [hQ'])) _ h2
    exact ⟨A', by simp [swapMany, h1, e], hA'⟩

theorem eventsAt_same (swaps : List (Nat × Prog)) (P : Prog) (h : ∀ e ∈ swaps, e.2 = P) (t : Nat) :
    ∀ Q ∈ eventsAt swaps t, Q = P := by
  intro Q hQ
  simp only [eventsAt, List.mem_map, List.mem_filter] at hQ
  obtain ⟨e, ⟨he, _⟩, rfl⟩ := hQ
  exact h e he

/-- **a session that only ever swaps to the running program = the uninterrupted run**, from any pair of agreeing
machines, provided the uninterrupted run keeps its globals and a conforming `dsp` state -/
theorem sessionFrom_same_program (fuel : Nat) (sr : UInt64) (inputs : Nat → List UInt64) (P : Prog) (lay : LNode)
    (hpub : publishFn P P.dsp = some lay) (hl : lay.Ok) (hself : P.dsp.selfShape = lay.self)
    (hc : Covers P lay.cells P.dsp.body) (mi : Machine) (hinit : Machine.init fuel P sr = .ok mi)
    (swaps : List (Nat × Prog)) (hsame : ∀ e ∈ swaps, e.2 = P) :
    ∀ (k : Nat) (A B : Machine), MAgree lay A B →
      (∀ j m, machineAfter fuel P sr inputs j B = some m → m.store = mi.store ∧ ConformsS lay m.root) →
      sessionFrom fuel sr swaps inputs k P A = sessionFrom fuel sr [] inputs k P B
  | 0, _, _, _, _ => rfl
  | k + 1, A, B, hag, hgood => by
    obtain ⟨hst, hconf⟩ := hgood 0 B rfl
    obtain ⟨A', e, hA'⟩ := swapMany_same fuel sr P lay hpub hl mi hinit B hst hconf (eventsAt swaps A.t)
      (eventsAt_same swaps P hsame A.t) A hag
    have hs := step_agree fuel P sr lay hl hself hc A' B (inputs B.t) hA'
    have e0 : swapMany fuel sr (eventsAt [] B.t) P B = some (P, B) := rfl
    rw [sessionFrom, sessionFrom, e, e0]
    simp only [hA'.2.1]
    cases h1 : Machine.step fuel P sr A' (inputs B.t) with
    | error e1 =>
      cases h2 : Machine.step fuel P sr B (inputs B.t) with
      | error e2 => rfl
      | ok r2 => simp [h1, h2, SRel] at hs
    | ok r1 =>
      cases h2 : Machine.step fuel P sr B (inputs B.t) with
      | error e2 => simp [h1, h2, SRel] at hs
      | ok r2 =>
        obtain ⟨o1, A1⟩ := r1
        obtain ⟨o2, B1⟩ := r2
        simp only [h1, h2, SRel] at hs
        have hg' : ∀ j m, machineAfter fuel P sr inputs j B1 = some m → m.store = mi.store ∧ ConformsS lay m.root := by
          intro j m hm
          exact hgood (j + 1) m (by simp [machineAfter, h2, hm])
        simp only [hs.1, sessionFrom_same_program fuel sr inputs P lay hpub hl hself hc mi hinit swaps hsame k A1 B1 hs.2 hg']

/-! ### invariants of the uninterrupted run -/

theorem machineAfter_invariant (fuel : Nat) (P : Prog) (sr : UInt64) (inputs : Nat → List UInt64) (I : Machine → Prop)
    (hstep : ∀ m o m', I m → Machine.step fuel P sr m (inputs m.t) = .ok (o, m') → I m') :
    ∀ (j : Nat) (m m' : Machine), I m → machineAfter fuel P sr inputs j m = some m' → I m'
  | 0, m, m', hi, h => by simp only [machineAfter, Option.some.injEq] at h; exact h ▸ hi
  | j + 1, m, m', hi, h => by
    simp only [machineAfter] at h
    cases hs : Machine.step fuel P sr m (inputs m.t) with
    | error e => simp [hs] at h
    | ok r =>
      obtain ⟨o, m1⟩ := r
      simp only [hs] at h
      exact machineAfter_invariant fuel P sr inputs I hstep j m1 m' (hstep m o m1 hi hs) h

/-- a program without globals starts with, and keeps, an empty global store -/
theorem init_store_nil (fuel : Nat) (P : Prog) (sr : UInt64) (hg : P.globals = []) (m0 : Machine)
    (h : Machine.init fuel P sr = .ok m0) : m0.store = [] ∧ m0.root = SNode.empty ∧ m0.t = 0 := by
  simp only [Machine.init, hg, initGlobals] at h
  cases h
  exact ⟨rfl, rfl, rfl⟩

theorem step_store_nil (fuel : Nat) (P : Prog) (sr : UInt64) (m : Machine) (ins : List UInt64) (o : List UInt64)
    (m' : Machine) (hm : m.store = []) (h : Machine.step fuel P sr m ins = .ok (o, m')) : m'.store = [] := by
  rw [machine_step_eq] at h
  simp only [Core.andThen] at h
  split at h
  · simp at h
  · simp only [Except.ok.injEq, Prod.mk.injEq] at h
    rw [← h.2, hm]; simp

/-- a `dsp` without `self` never stores one -/
theorem step_selfv_none (fuel : Nat) (P : Prog) (sr : UInt64) (m : Machine) (ins : List UInt64) (o : List UInt64)
    (m' : Machine) (hsh : P.dsp.selfShape = none) (hm : m.root.selfv = none)
    (h : Machine.step fuel P sr m ins = .ok (o, m')) : m'.root.selfv = none := by
  rw [machine_step_eq] at h
  simp only [Core.andThen] at h
  split at h
  · simp at h
  · rename_i r hr
    simp only [Except.ok.injEq, Prod.mk.injEq] at h
    obtain ⟨v, σ', st'⟩ := r
    have hf := (eval_frame P _ fuel).1 _ _ _ _ _ _ _ hr
    rw [← h.2]
    simp only [hsh, finSelf]
    rw [hf.1]
    simp [FlatTree.initSelf, hm, hsh]

end Mimium.LiveCoding
