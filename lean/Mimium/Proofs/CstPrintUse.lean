import Mimium.Proofs.CstPrintList
/-! `print_use_target_multiple` and `print_macro_expansion`: items pushed one by one, commas in between. -/
namespace Mimium.CstPrint
open Mimium.Gen (Kind SK)
open Mimium.Cst (Green)
open SDoc

theorem useMulti_other (c : Ctx) (st : UseSt) (d : SDoc)
    (h : (st.foundOpen && emp c st.closeDoc && st.seps.length == st.items.length) = true) :
    useMultiHeld c (if st.foundOpen then { st with items := st.items ++ [d] } else st) = useMultiHeld c st ++ content c d := by
  simp only [Bool.and_eq_true, emp_iff, beq_iff_eq] at h
  obtain ⟨⟨h1, h2⟩, h3⟩ := h
  simp only [h1, if_true, useMultiHeld, h2, List.append_nil]
  rw [zipC_snoc_item c d _ _ (by omega)]
  simp [List.append_assoc]

theorem useMulti_step (c : Ctx) (st : UseSt) (ch : Ch) (hi : sepsGood c st.seps) (hch : ChOk c ch) (hok : useMultiOk c st ch = true) :
    sepsGood c (useMultiStep c st ch).seps ∧ useMultiHeld c (useMultiStep c st ch) = useMultiHeld c st ++ content c ch.2 := by
  obtain ⟨g, d⟩ := ch
  cases g with
  | node k gs =>
    simp only [useMultiOk] at hok
    refine ⟨by simp only [useMultiStep]; split <;> exact hi, ?_⟩
    exact useMulti_other c st d hok
  | token ti w =>
    have hd := chOk_token c _ d ti w rfl hch
    simp only [useMultiOk] at hok
    simp only [useMultiStep]
    by_cases ho : c.kind ti = .BlockBegin
    · simp only [ho, beq_self_eq_true, if_true, Bool.and_eq_true, emp_iff, List.isEmpty_iff] at hok ⊢
      obtain ⟨⟨⟨h1, h2⟩, h3⟩, h4⟩ := hok
      refine ⟨hi, ?_⟩
      simp [useMultiHeld, h1, h2, h3, h4, zipC]
    · have ho' : (c.kind ti == Kind.BlockBegin) = false := by simpa using ho
      simp only [ho', Bool.false_eq_true, if_false] at hok ⊢
      by_cases hc : c.kind ti = .BlockEnd
      · simp only [hc, beq_self_eq_true, if_true, emp_iff] at hok ⊢
        refine ⟨hi, ?_⟩
        simp [useMultiHeld, hok]
      · have hc' : (c.kind ti == Kind.BlockEnd) = false := by simpa using hc
        simp only [hc', Bool.false_eq_true, if_false] at hok ⊢
        by_cases hk : c.kind ti = .Comma
        · simp only [hk, beq_self_eq_true, if_true, Bool.and_eq_true, emp_iff, beq_iff_eq] at hok ⊢
          obtain ⟨h2, h3⟩ := hok
          rw [pushCommaComments_eq c st.seps _ ti h2]
          refine ⟨sepsGood_push c _ ti hi, ?_⟩
          simp only [useMultiHeld, h3, List.append_nil]
          rw [zipC_snoc_sep c _ st.items st.seps h2, hd, tokItems_comma c ti hk]
          simp [List.append_assoc]
        · have hk' : (c.kind ti == Kind.Comma) = false := by simpa using hk
          simp only [hk', Bool.false_eq_true, if_false] at hok ⊢
          refine ⟨by split <;> exact hi, ?_⟩
          exact useMulti_other c st d hok

theorem useMulti_content (c : Ctx) (cs : List Ch) (hch : ∀ ch ∈ cs, ChOk c ch)
    (hok : allOk (useMultiStep c) (useMultiOk c) {} cs = true) : content c (printUseTargetMultiple c cs) = chContent c cs := by
  have h := loop_held c (useMultiStep c) (useMultiOk c) (useMultiHeld c) (fun st => sepsGood c st.seps)
    (fun st ch hi h1 h2 => useMulti_step c st ch hi h1 h2) cs {} (by intro s hs; simp at hs) hch hok
  obtain ⟨hg, h2⟩ := h
  have h0 : useMultiHeld c ({} : UseSt) = [] := by simp [useMultiHeld, zipC]
  rw [h0, List.nil_append] at h2
  rw [← h2]
  unfold printUseTargetMultiple useMultiFinish
  generalize cs.foldl (useMultiStep c) {} = st at hg ⊢
  simp only [useMultiHeld]
  cases hitems : st.items with
  | nil => simp [zipC]
  | cons x xs =>
    simp only [List.isEmpty_cons, Bool.false_eq_true, if_false, content_app]
    rw [content_joinListItems c sp (by simp) _ _ hg]

/-! ### macro expansion -/

theorem macFresh_held (c : Ctx) (st : MacSt) (h : macFresh c st = true) : macHeld c st = content c st.result := by
  simp only [macFresh, Bool.and_eq_true, emp_iff, List.isEmpty_iff] at h
  obtain ⟨⟨⟨h1, h2⟩, h3⟩, h4⟩ := h
  simp [macHeld, h1, h2, h3, h4, zipC]

theorem mac_result (c : Ctx) (st : MacSt) (d : SDoc) (h : macFresh c st = true) :
    macHeld c { st with result := st.result ++ d } = macHeld c st ++ content c d := by
  have h' : macFresh c { st with result := st.result ++ d } = true := h
  rw [macFresh_held c _ h', macFresh_held c _ h]; simp

theorem mac_other (c : Ctx) (st : MacSt) (d : SDoc)
    (h : (if st.inArgs then emp c st.closeDoc && st.seps.length == st.args.length else macFresh c st) = true) :
    macHeld c (macOther st d') = macHeld c st ++ content c d'.2 := by
  unfold macOther
  cases hin : st.inArgs
  · simp only [hin, Bool.false_eq_true, if_false] at h ⊢
    exact mac_result c st _ h
  · simp only [hin, if_true, Bool.and_eq_true, emp_iff, beq_iff_eq] at h ⊢
    simp only [macHeld, h.1, List.append_nil]
    rw [zipC_snoc_item c _ _ _ (by omega)]
    simp [List.append_assoc]

theorem mac_step (c : Ctx) (st : MacSt) (ch : Ch) (hi : sepsGood c st.seps) (hch : ChOk c ch) (hok : macOk c st ch = true) :
    sepsGood c (macStep c st ch).seps ∧ macHeld c (macStep c st ch) = macHeld c st ++ content c ch.2 := by
  obtain ⟨g, d⟩ := ch
  cases g with
  | node k gs =>
    simp only [macOk] at hok
    refine ⟨by simp only [macStep, macOther]; split <;> exact hi, ?_⟩
    exact mac_other c st (d' := (.node k gs, d)) d hok
  | token ti w =>
    have hd := chOk_token c _ d ti w rfl hch
    simp only [macOk] at hok
    simp only [macStep]
    split
    · next h1 => simp only [h1, if_true] at hok; exact ⟨hi, mac_result c st d hok⟩
    · next h1 =>
      simp only [h1, Bool.false_eq_true, if_false] at hok
      split
      · next h2 => simp only [h2, if_true] at hok; exact ⟨hi, mac_result c st d hok⟩
      · next h2 =>
        simp only [h2, Bool.false_eq_true, if_false] at hok
        split
        · next h3 =>
          simp only [h3, if_true] at hok
          refine ⟨hi, ?_⟩
          have hf := hok
          simp only [macFresh, Bool.and_eq_true, emp_iff, List.isEmpty_iff] at hf
          obtain ⟨⟨⟨f1, f2⟩, f3⟩, f4⟩ := hf
          simp [macHeld, f1, f2, f3, f4, zipC]
        · next h3 =>
          simp only [h3, Bool.false_eq_true, if_false] at hok
          split
          · next h4 =>
            simp only [h4, if_true, emp_iff] at hok
            exact ⟨hi, by simp [macHeld, hok]⟩
          · next h4 =>
            simp only [h4, Bool.false_eq_true, if_false] at hok
            split
            · next h5 =>
              simp only [h5, if_true, Bool.and_eq_true, emp_iff, beq_iff_eq] at hok
              have hk : c.kind ti = .Comma := by simp only [Bool.and_eq_true, beq_iff_eq] at h5; exact h5.1
              rw [pushCommaComments_eq c st.seps _ ti hok.1]
              refine ⟨sepsGood_push c _ ti hi, ?_⟩
              simp only [macHeld, hok.2, List.append_nil]
              rw [zipC_snoc_sep c _ st.args st.seps hok.1, hd, tokItems_comma c ti hk]
              simp [List.append_assoc]
            · next h5 =>
              simp only [h5, Bool.false_eq_true, if_false] at hok
              refine ⟨by simp only [macOther]; split <;> exact hi, ?_⟩
              exact mac_other c st (d' := (.token ti w, d)) d hok

theorem mac_content (c : Ctx) (cs : List Ch) (hch : ∀ ch ∈ cs, ChOk c ch)
    (hok : allOk (macStep c) (macOk c) {} cs = true) : content c (printMacroExpansion c cs) = chContent c cs := by
  have h := loop_held c (macStep c) (macOk c) (macHeld c) (fun st => sepsGood c st.seps)
    (fun st ch hi h1 h2 => mac_step c st ch hi h1 h2) cs {} (by intro s hs; simp at hs) hch hok
  obtain ⟨hg, h2⟩ := h
  have h0 : macHeld c ({} : MacSt) = [] := by simp [macHeld, zipC]
  rw [h0, List.nil_append] at h2
  rw [← h2]
  unfold printMacroExpansion macFinish
  generalize cs.foldl (macStep c) {} = st at hg ⊢
  simp only [macHeld]
  cases hitems : st.args with
  | nil => simp [zipC]
  | cons x xs =>
    simp only [List.isEmpty_cons, Bool.false_eq_true, if_false, content_app]
    rw [content_joinListItems c sp (by simp) _ _ hg]

end Mimium.CstPrint
