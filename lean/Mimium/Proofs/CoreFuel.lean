import Mimium.Proofs.CoreRenameV
/-!
Fuel independence of the reference evaluator (`Model/Core.lean`): the fuel argument of `eval` / `evalList` is a proof
device, not part of the meaning.  `FuelLe r r'` ("`r'` refines `r`") says: unless `r` is the out-of-fuel error, `r' = r`.
`eval_fuel_succ` shows `FuelLe (eval n …) (eval (n+1) …)` by induction on `n` over all 18 constructs (using the
form-by-form unfolding lemmas of `CoreRename` / `CoreRenameV`), `eval_fuel_add` iterates it.
-/
namespace Mimium.Core

/-- `r'` refines `r`: every result other than "out of fuel" is kept -/
def FuelLe {α : Type} (r r' : Res α) : Prop := r ≠ .error .fuel → r' = r

theorem FuelLe.refl {α : Type} (r : Res α) : FuelLe r r := fun _ => rfl

theorem FuelLe.fuel {α : Type} (r' : Res α) : FuelLe (.error .fuel) r' := fun h => absurd rfl h

theorem FuelLe.trans {α : Type} {a b c : Res α} (h1 : FuelLe a b) (h2 : FuelLe b c) : FuelLe a c := by
  intro h
  have hb := h1 h
  have hc := h2 (by rw [hb]; exact h)
  rw [hc, hb]

theorem FuelLe.andThen {α β : Type} {r r' : Res α} {f f' : α → Res β} (h : FuelLe r r')
    (hf : ∀ a, FuelLe (f a) (f' a)) : FuelLe (andThen r f) (andThen r' f') := by
  intro hne
  cases r with
  | error e =>
    have hr : r' = .error e := h (by simpa [Core.andThen] using hne)
    rw [hr]; rfl
  | ok a =>
    have hr : r' = .ok a := h (by simp)
    rw [hr]
    exact hf a hne

theorem FuelLe.ok {α : Type} {r r' : Res α} {a : α} (h : FuelLe r r') (hr : r = .ok a) : r' = .ok a := by
  rw [← hr]; exact h (by rw [hr]; simp)

/-- one more unit of fuel keeps every result other than "out of fuel" -/
theorem eval_fuel_succ (P : Prog) (rt : Rt) : ∀ (n : Nat),
    (∀ (e : Expr) (env : Env) (σ : Store) (st : SNode),
      FuelLe (eval n P rt env e σ st) (eval (n + 1) P rt env e σ st)) ∧
    (∀ (es : List Expr) (env : Env) (σ : Store) (st : SNode),
      FuelLe (evalList n P rt env es σ st) (evalList (n + 1) P rt env es σ st)) := by
  intro n
  induction n with
  | zero =>
    constructor
    · intro e env σ st; rw [eval_zero]; exact FuelLe.fuel _
    · intro es env σ st; rw [evalList_zero]; exact FuelLe.fuel _
  | succ n ih =>
    obtain ⟨ihE, ihL⟩ := ih
    constructor
    · intro e env σ st
      cases e with
      | lit b => rw [eval_lit, eval_lit]; exact FuelLe.refl _
      | var x => rw [eval_var, eval_var]; exact FuelLe.refl _
      | now => rw [eval_now, eval_now]; exact FuelLe.refl _
      | samplerate => rw [eval_sr, eval_sr]; exact FuelLe.refl _
      | lam ps body => rw [eval_lam, eval_lam]; exact FuelLe.refl _
      | self => rw [eval_self, eval_self]; exact FuelLe.refl _
      | un op a =>
        rw [eval_un, eval_un]
        exact FuelLe.andThen (ihE a _ _ _) (fun _ => FuelLe.refl _)
      | bin op a b =>
        rw [eval_bin, eval_bin]
        refine FuelLe.andThen (ihE a _ _ _) ?_
        rintro ⟨v, σ1, st1⟩
        cases v with
        | num x => exact FuelLe.andThen (ihE b _ _ _) (fun _ => FuelLe.refl _)
        | _ => exact FuelLe.refl _
      | ite c a b =>
        rw [eval_ite, eval_ite]
        refine FuelLe.andThen (ihE c _ _ _) ?_
        rintro ⟨v, σ1, st1⟩
        cases v with
        | num x =>
          simp only
          split
          · exact ihE a _ _ _
          · exact ihE b _ _ _
        | _ => exact FuelLe.refl _
      | letE x a body =>
        rw [eval_letE, eval_letE]
        exact FuelLe.andThen (ihE a _ _ _) (fun _ => ihE body _ _ _)
      | letTup xs a body =>
        rw [eval_letTup, eval_letTup]
        refine FuelLe.andThen (ihE a _ _ _) ?_
        rintro ⟨v, σ1, st1⟩
        cases v with
        | tup vs =>
          simp only
          split
          · exact ihE body _ _ _
          · exact FuelLe.refl _
        | _ => exact FuelLe.refl _
      | tup es =>
        rw [eval_tup, eval_tup]
        exact FuelLe.andThen (ihL es _ _ _) (fun _ => FuelLe.refl _)
      | proj a i =>
        rw [eval_proj, eval_proj]
        exact FuelLe.andThen (ihE a _ _ _) (fun _ => FuelLe.refl _)
      | call f args site =>
        rw [eval_call, eval_call]
        refine FuelLe.andThen (ihL args _ _ _) ?_
        intro r
        simp only [callRest]
        cases findFn P.fns f with
        | none => exact FuelLe.refl _
        | some d =>
          simp only
          split
          · exact FuelLe.refl _
          · exact FuelLe.andThen (ihE d.body _ _ _) (fun _ => FuelLe.refl _)
      | app f args =>
        rw [eval_app, eval_app]
        refine FuelLe.andThen (ihE f _ _ _) ?_
        rintro ⟨v, σ1, st1⟩
        cases v with
        | clo ps body cenv =>
          refine FuelLe.andThen (ihL args _ _ _) ?_
          intro rs
          split
          · exact FuelLe.refl _
          · exact FuelLe.andThen (ihE body _ _ _) (fun _ => FuelLe.refl _)
        | _ => exact FuelLe.refl _
      | mem a site =>
        rw [eval_mem, eval_mem]
        exact FuelLe.andThen (ihE a _ _ _) (fun _ => FuelLe.refl _)
      | delay k a t site =>
        rw [eval_delay, eval_delay]
        refine FuelLe.andThen (ihE a _ _ _) ?_
        rintro ⟨v, σ1, st1⟩
        cases v with
        | num x => exact FuelLe.andThen (ihE t _ _ _) (fun _ => FuelLe.refl _)
        | _ => exact FuelLe.refl _
      | assign x a rest =>
        rw [eval_assign, eval_assign]
        refine FuelLe.andThen (ihE a _ _ _) ?_
        intro r
        split
        · exact FuelLe.refl _
        · exact ihE rest _ _ _
    · intro es env σ st
      cases es with
      | nil => rw [evalList_nil, evalList_nil]; exact FuelLe.refl _
      | cons e es =>
        rw [evalList_cons, evalList_cons]
        exact FuelLe.andThen (ihE e _ _ _) (fun _ => FuelLe.andThen (ihL es _ _ _) (fun _ => FuelLe.refl _))

/-- any amount of additional fuel keeps every result other than "out of fuel" -/
theorem eval_fuel_add (P : Prog) (rt : Rt) (n : Nat) : ∀ (k : Nat) (e : Expr) (env : Env) (σ : Store) (st : SNode),
    FuelLe (eval n P rt env e σ st) (eval (n + k) P rt env e σ st)
  | 0, _, _, _, _ => FuelLe.refl _
  | k + 1, e, env, σ, st =>
    (eval_fuel_add P rt n k e env σ st).trans ((eval_fuel_succ P rt (n + k)).1 e env σ st)

theorem evalList_fuel_add (P : Prog) (rt : Rt) (n : Nat) : ∀ (k : Nat) (es : List Expr) (env : Env) (σ : Store) (st : SNode),
    FuelLe (evalList n P rt env es σ st) (evalList (n + k) P rt env es σ st)
  | 0, _, _, _, _ => FuelLe.refl _
  | k + 1, es, env, σ, st =>
    (evalList_fuel_add P rt n k es env σ st).trans ((eval_fuel_succ P rt (n + k)).2 es env σ st)

/-- two fuels: the smaller one, unless it ran out, already gives the result of the larger one -/
theorem eval_fuel_le (P : Prog) (rt : Rt) {n m : Nat} (h : n ≤ m) (e : Expr) (env : Env) (σ : Store) (st : SNode) :
    FuelLe (eval n P rt env e σ st) (eval m P rt env e σ st) := by
  obtain ⟨k, rfl⟩ := Nat.exists_eq_add_of_le h
  exact eval_fuel_add P rt n k e env σ st

theorem evalList_fuel_le (P : Prog) (rt : Rt) {n m : Nat} (h : n ≤ m) (es : List Expr) (env : Env) (σ : Store) (st : SNode) :
    FuelLe (evalList n P rt env es σ st) (evalList m P rt env es σ st) := by
  obtain ⟨k, rfl⟩ := Nat.exists_eq_add_of_le h
  exact evalList_fuel_add P rt n k es env σ st

/-- determinacy for any fuel-indexed family that is monotone in the sense of `FuelLe` -/
theorem FuelLe.determinate {α : Type} (F : Nat → Res α) (hmono : ∀ n m, n ≤ m → FuelLe (F n) (F m))
    (f₁ f₂ : Nat) (h1 : F f₁ ≠ .error .fuel) (h2 : F f₂ ≠ .error .fuel) : F f₁ = F f₂ := by
  rcases Nat.le_total f₁ f₂ with h | h
  · exact (hmono _ _ h h1).symm
  · exact hmono _ _ h h2

end Mimium.Core
