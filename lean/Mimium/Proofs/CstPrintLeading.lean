import Mimium.Model.CstPrint
import Mimium.Proofs.Preparse
/-! `extract_file_leading_comments`: the comments it copies are exactly the comments that `preparse` attaches to no token. -/
namespace Mimium.CstPrint
open Mimium.Gen (Kind)
open Mimium.Preparse

def isCommentKind (k : Kind) : Bool := k == .SingleLineComment || k == .MultiLineComment

/-- the comments among the trivia discarded while no syntax token has been seen (`dropIdx` restricted to comments) -/
def dropCom (off : Nat) : List Kind → List Nat
  | [] => []
  | k :: ks =>
    if isSyntax k then []
    else (if isCommentKind k && droppedFrom (k :: ks) then [off] else []) ++ dropCom (off + 1) ks

theorem comment_facts {k : Kind} (h : isCommentKind k = true) :
    k.isTrivia = true ∧ k ≠ .LineBreak ∧ k ≠ .Eof ∧ isSyntax k = false := by
  cases k <;> simp_all [isCommentKind, isSyntax, Kind.isTrivia]

theorem fileLeadingGo_eq : ∀ (body : List Kind) (i : Nat) (pend : List Nat), Kind.Eof ∉ body →
    fileLeadingGo i (body ++ [.Eof]) pend =
      (if droppedFrom (body ++ [.Eof]) = true then pend else []) ++ dropCom i (body ++ [.Eof]) := by
  intro body
  induction body with
  | nil =>
    intro i pend _
    simp [fileLeadingGo, droppedFrom, dropCom, isSyntax, isCommentKind, Kind.isTrivia]
  | cons k body ih =>
    intro i pend hne
    have hk : k ≠ .Eof := fun h => hne (by simp [h])
    have hb : Kind.Eof ∉ body := fun h => hne (by simp [h])
    simp only [List.cons_append, fileLeadingGo, dropCom]
    by_cases hc : isCommentKind k = true
    · obtain ⟨_, hl, _, hs⟩ := comment_facts hc
      have hc' : (k == Kind.SingleLineComment || k == Kind.MultiLineComment) = true := hc
      rw [if_pos hc', ih _ _ hb]
      simp only [droppedFrom_cons_other _ hs hl, hs, Bool.false_eq_true, if_false, hc, Bool.true_and]
      by_cases hd : droppedFrom (body ++ [Kind.Eof]) = true <;> simp [hd]
    · have hc' : (k == Kind.SingleLineComment || k == Kind.MultiLineComment) = false := by simpa [isCommentKind] using hc
      have hcf : isCommentKind k = false := by simpa using hc
      rw [if_neg (by simp [hc'])]
      by_cases hl : k = .LineBreak
      · subst hl
        have hns : isSyntax Kind.LineBreak = false := by simp [isSyntax, linebreak_trivia]
        simp only [beq_self_eq_true, if_true, ih _ _ hb, droppedFrom_cons_lb, hns, Bool.false_eq_true, if_false, hcf, Bool.false_and,
          List.nil_append]
        by_cases hd : droppedFrom (body ++ [Kind.Eof]) = true <;> simp [hd]
      · have hl' : (k == Kind.LineBreak) = false := by simpa using hl
        have he' : (k == Kind.Eof) = false := by simpa using hk
        simp only [hl', he', Bool.false_eq_true, if_false]
        by_cases ht : k.isTrivia = true
        · have hs : isSyntax k = false := by simp [isSyntax, ht]
          simp only [ht, if_true, ih _ _ hb, droppedFrom_cons_other _ hs hl, hs, Bool.false_eq_true, if_false, hcf, Bool.false_and,
            List.nil_append]
        · have hs : isSyntax k = true := by simp [isSyntax, ht, hk]
          simp [ht, hs, droppedFrom_cons_syntax _ hs]

theorem mem_dropCom : ∀ (ks : List Kind) (off x : Nat),
    x ∈ dropCom off ks ↔ x ∈ dropIdx off ks ∧ isCommentKind (ks.getD (x - off) .Eof) = true := by
  intro ks
  induction ks with
  | nil => intro off x; simp [dropCom, dropIdx]
  | cons k ks ih =>
    intro off x
    simp only [dropCom, dropIdx]
    by_cases hsyn : isSyntax k = true
    · simp [hsyn]
    · have hsyn' : isSyntax k = false := by simpa using hsyn
      simp only [hsyn', Bool.false_eq_true, if_false, List.mem_append, ih]
      have hge : ∀ y, y ∈ dropIdx (off + 1) ks → off + 1 ≤ y := fun y hy => ((mem_dropIdx ks (off + 1) y).mp hy).1
      by_cases hx : x = off
      · subst hx
        have hno : x ∉ dropIdx (x + 1) ks := fun h => by have := hge x h; omega
        simp only [hno, false_and, or_false, Nat.sub_self, List.getD_cons_zero]
        by_cases hc : isCommentKind k = true
        · have ht := (comment_facts hc).1
          simp [hc, ht]
        · have hcf : isCommentKind k = false := by simpa using hc
          simp [hcf]
      · have hno1 : x ∉ (if (isCommentKind k && droppedFrom (k :: ks)) = true then [off] else []) := by split <;> simp [hx]
        have hno2 : x ∉ (if (k.isTrivia && droppedFrom (k :: ks)) = true then [off] else []) := by split <;> simp [hx]
        simp only [hno1, hno2, false_or]
        by_cases hle : off + 1 ≤ x
        · have e : x - off = (x - (off + 1)) + 1 := by omega
          rw [e, List.getD_cons_succ]
        · have hno : x ∉ dropIdx (off + 1) ks := fun h => hle (hge x h)
          simp [hno]

end Mimium.CstPrint
