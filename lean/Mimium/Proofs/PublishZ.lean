import Mimium.Proofs.PublishVisitsZ
import Mimium.Proofs.PublishOk
/-!
In the wider class (`armsZE`: only calls of functions without state are published for an `if` arm) the cells `pubE`
publishes are visited in the sense of `VisitsZ`, with the junk sites `junkE e` (the sites inside `else` arms), and the junk
sites are not sites of the layout when the sites of the body are pairwise distinct.
-/
namespace Mimium.Publish
open Mimium.Core Mimium.StateTree Mimium.FlatTree

mutual
/-- the sites at which the evaluator may create nodes the layout does not own: the sites inside `else` arms -/
def junkE : Expr → List Nat
  | .lit _ => []
  | .var _ => []
  | .now => []
  | .samplerate => []
  | .self => []
  | .lam _ _ => []
  | .un _ a => junkE a
  | .proj a _ => junkE a
  | .bin _ a b => junkE a ++ junkE b
  | .letE _ a b => junkE a ++ junkE b
  | .letTup _ a b => junkE a ++ junkE b
  | .assign _ a b => junkE a ++ junkE b
  | .ite c a b => junkE c ++ (junkE a ++ junkE b)
  | .tup es => junkL es
  | .app f args => junkE f ++ junkL args
  | .mem a _ => junkE a
  | .delay _ a t _ => junkE a ++ junkE t
  | .call _ args _ => junkL args
def junkL : List Expr → List Nat
  | [] => []
  | e :: es => junkE e ++ junkL es
end

theorem stateless_of_isStateless {x : Option (List LCell)} {s : List LCell} (h : isStateless x = true) (hx : x = some s) :
    statelessCells s = true := by
  subst hx; exact h

/-! ### an expression whose published cells are all stateless is in the class

After the repair of finding F3 `pubE` lists the cells of BOTH arms of every `if`, so "the cells published for the `else` arm
are stateless" already says that the `else` arm is in the class (the class predicate `armsZE` does not inspect it). -/

theorem statelessCells_append : ∀ (a b : List LCell),
    statelessCells (a ++ b) = (statelessCells a && statelessCells b)
  | [], b => by simp [statelessCells]
  | c :: a, b => by simp [statelessCells, statelessCells_append a b, Bool.and_assoc]

/-- a table entry without state is marked `ok` -/
def StatelessOk (tbl : Table) (ok : String → Bool) : Prop :=
  ∀ f lay, tbl f = some lay → lay.self.isNone = true → statelessCells lay.cells = true → ok f = true

mutual
theorem armsZE_of_stateless (tbl : Table) (ok : String → Bool) (hT : StatelessOk tbl ok) :
    ∀ (e : Expr) (seg : List LCell), pubE tbl e = some seg → statelessCells seg = true → armsZE tbl ok e = true
  | .lit _, _, _, _ => by rw [armsZE]
  | .var _, _, _, _ => by rw [armsZE]
  | .now, _, _, _ => by rw [armsZE]
  | .samplerate, _, _, _ => by rw [armsZE]
  | .self, _, _, _ => by rw [armsZE]
  | .lam _ _, _, _, _ => by rw [armsZE]
  | .un _ a, seg, h, hz => by rw [pubE] at h; rw [armsZE]; exact armsZE_of_stateless tbl ok hT a seg h hz
  | .proj a _, seg, h, hz => by rw [pubE] at h; rw [armsZE]; exact armsZE_of_stateless tbl ok hT a seg h hz
  | .bin _ a b, seg, h, hz => by
    obtain ⟨s1, s2, h1, h2, rfl⟩ := pubE_bin_inv h
    rw [statelessCells_append, Bool.and_eq_true] at hz
    rw [armsZE, Bool.and_eq_true]
    exact ⟨armsZE_of_stateless tbl ok hT a s1 h1 hz.1, armsZE_of_stateless tbl ok hT b s2 h2 hz.2⟩
  | .letE _ a b, seg, h, hz => by
    obtain ⟨s1, s2, h1, h2, rfl⟩ := pubE_letE_inv h
    rw [statelessCells_append, Bool.and_eq_true] at hz
    rw [armsZE, Bool.and_eq_true]
    exact ⟨armsZE_of_stateless tbl ok hT a s1 h1 hz.1, armsZE_of_stateless tbl ok hT b s2 h2 hz.2⟩
  | .letTup _ a b, seg, h, hz => by
    obtain ⟨s1, s2, h1, h2, rfl⟩ := pubE_letTup_inv h
    rw [statelessCells_append, Bool.and_eq_true] at hz
    rw [armsZE, Bool.and_eq_true]
    exact ⟨armsZE_of_stateless tbl ok hT a s1 h1 hz.1, armsZE_of_stateless tbl ok hT b s2 h2 hz.2⟩
  | .assign _ a b, seg, h, hz => by
    obtain ⟨s1, s2, h1, h2, rfl⟩ := pubE_assign_inv h
    rw [statelessCells_append, Bool.and_eq_true] at hz
    rw [armsZE, Bool.and_eq_true]
    exact ⟨armsZE_of_stateless tbl ok hT a s1 h1 hz.1, armsZE_of_stateless tbl ok hT b s2 h2 hz.2⟩
  | .ite c a b, seg, h, hz => by
    obtain ⟨sc, sa, sb, hc, h1, h2, rfl⟩ := pubE_ite_inv h
    rw [statelessCells_append, statelessCells_append] at hz
    simp only [Bool.and_eq_true] at hz
    rw [armsZE]
    simp only [Bool.and_eq_true]
    exact ⟨⟨⟨armsZE_of_stateless tbl ok hT c sc hc hz.1, armsZE_of_stateless tbl ok hT a sa h1 hz.2.1⟩,
      by rw [h1]; exact hz.2.1⟩, by rw [h2]; exact hz.2.2⟩
  | .tup es, seg, h, hz => by rw [pubE] at h; rw [armsZE]; exact armsZL_of_stateless tbl ok hT es seg h hz
  | .app f args, seg, h, hz => by
    obtain ⟨s1, s2, h1, h2, rfl⟩ := pubE_app_inv h
    rw [statelessCells_append, Bool.and_eq_true] at hz
    rw [armsZE, Bool.and_eq_true]
    exact ⟨armsZE_of_stateless tbl ok hT f s1 h1 hz.1, armsZL_of_stateless tbl ok hT args s2 h2 hz.2⟩
  | .mem a site, seg, h, hz => by
    obtain ⟨s, _, rfl⟩ := pubE_mem_inv h
    rw [statelessCells_append] at hz
    simp [statelessCells, statelessCell] at hz
  | .delay n a t site, seg, h, hz => by
    obtain ⟨s1, s2, _, _, rfl⟩ := pubE_delay_inv h
    rw [statelessCells_append] at hz
    simp [statelessCells, statelessCell] at hz
  | .call f args site, seg, h, hz => by
    obtain ⟨s, lay, h1, hf, rfl⟩ := pubE_call_inv h
    rw [statelessCells_append, Bool.and_eq_true] at hz
    rw [armsZE, Bool.and_eq_true]
    have hc := hz.2
    simp only [statelessCells, statelessCell, Bool.and_true, Bool.and_eq_true] at hc
    exact ⟨armsZL_of_stateless tbl ok hT args s h1 hz.1, hT f lay hf hc.1 hc.2⟩
theorem armsZL_of_stateless (tbl : Table) (ok : String → Bool) (hT : StatelessOk tbl ok) :
    ∀ (es : List Expr) (seg : List LCell), pubL tbl es = some seg → statelessCells seg = true → armsZL tbl ok es = true
  | [], _, _, _ => by rw [armsZL]
  | e :: es, seg, h, hz => by
    obtain ⟨s1, s2, h1, h2, rfl⟩ := pubL_cons_inv h
    rw [statelessCells_append, Bool.and_eq_true] at hz
    rw [armsZL, Bool.and_eq_true]
    exact ⟨armsZE_of_stateless tbl ok hT e s1 h1 hz.1, armsZL_of_stateless tbl ok hT es s2 h2 hz.2⟩
end

/-- the function table has the property at every depth -/
theorem table_statelessOk (P : Prog) : ∀ n, StatelessOk (table P n) (okTableZ P n)
  | 0 => by intro f lay h; simp [table] at h
  | n + 1 => by
    intro f lay h hself hz
    simp only [table] at h
    cases hd : findFn P.fns f with
    | none => simp [hd] at h
    | some d =>
      simp only [hd] at h
      cases hb : pubE (table P n) d.body with
      | none => simp [hb] at h
      | some cells =>
        simp only [hb, Option.some.injEq] at h
        subst h
        simp only [okTableZ, hd]
        exact armsZE_of_stateless _ _ (table_statelessOk P n) d.body cells hb hz

/-! ### the published cells are visited (`VisitsZ`) -/

def TableVisitsZ (P : Prog) (tbl : Table) (ok : String → Bool) : Prop :=
  ∀ f lay, tbl f = some lay → ok f = true → ∀ d, findFn P.fns f = some d →
    d.selfShape = lay.self ∧ VisitsZ P d.body lay.cells (junkE d.body) ∧ ∀ x ∈ junkE d.body, x ∉ sitesOf lay.cells

mutual
theorem pubE_visitsZ (P : Prog) (tbl : Table) (ok : String → Bool) (ht : TableVisitsZ P tbl ok) (hT : StatelessOk tbl ok) :
    ∀ (e : Expr) (seg : List LCell), armsZE tbl ok e = true → pubE tbl e = some seg → VisitsZ P e seg (junkE e)
  | .lit _, seg, _, h => by rw [pubE] at h; cases h; exact .lit
  | .var _, seg, _, h => by rw [pubE] at h; cases h; exact .var
  | .now, seg, _, h => by rw [pubE] at h; cases h; exact .now
  | .samplerate, seg, _, h => by rw [pubE] at h; cases h; exact .samplerate
  | .self, seg, _, h => by rw [pubE] at h; cases h; exact .self
  | .lam _ _, seg, _, h => by rw [pubE] at h; cases h; exact .lam
  | .un _ a, seg, ha, h => by
    rw [pubE] at h; rw [armsZE] at ha; rw [junkE]
    exact .un (pubE_visitsZ P tbl ok ht hT a seg ha h)
  | .proj a _, seg, ha, h => by
    rw [pubE] at h; rw [armsZE] at ha; rw [junkE]
    exact .proj (pubE_visitsZ P tbl ok ht hT a seg ha h)
  | .bin _ a b, seg, ha, h => by
    obtain ⟨s1, s2, h1, h2, rfl⟩ := pubE_bin_inv h
    rw [armsZE, Bool.and_eq_true] at ha; rw [junkE]
    exact .bin (pubE_visitsZ P tbl ok ht hT a s1 ha.1 h1) (pubE_visitsZ P tbl ok ht hT b s2 ha.2 h2)
  | .letE _ a b, seg, ha, h => by
    obtain ⟨s1, s2, h1, h2, rfl⟩ := pubE_letE_inv h
    rw [armsZE, Bool.and_eq_true] at ha; rw [junkE]
    exact .letE (pubE_visitsZ P tbl ok ht hT a s1 ha.1 h1) (pubE_visitsZ P tbl ok ht hT b s2 ha.2 h2)
  | .letTup _ a b, seg, ha, h => by
    obtain ⟨s1, s2, h1, h2, rfl⟩ := pubE_letTup_inv h
    rw [armsZE, Bool.and_eq_true] at ha; rw [junkE]
    exact .letTup (pubE_visitsZ P tbl ok ht hT a s1 ha.1 h1) (pubE_visitsZ P tbl ok ht hT b s2 ha.2 h2)
  | .assign _ a b, seg, ha, h => by
    obtain ⟨s1, s2, h1, h2, rfl⟩ := pubE_assign_inv h
    rw [armsZE, Bool.and_eq_true] at ha; rw [junkE]
    exact .assign (pubE_visitsZ P tbl ok ht hT a s1 ha.1 h1) (pubE_visitsZ P tbl ok ht hT b s2 ha.2 h2)
  | .ite c a b, seg, ha, h => by
    obtain ⟨sc, sa, sb, hc, h1, h2, rfl⟩ := pubE_ite_inv h
    rw [armsZE] at ha
    simp only [Bool.and_eq_true] at ha
    obtain ⟨⟨⟨oc, oa⟩, ea⟩, eb⟩ := ha
    have za := stateless_of_isStateless ea h1
    have zb := stateless_of_isStateless eb h2
    have ob := armsZE_of_stateless tbl ok hT b sb h2 zb
    rw [junkE]
    exact .ite (pubE_visitsZ P tbl ok ht hT c sc oc hc) (pubE_visitsZ P tbl ok ht hT a sa oa h1) za
      (pubE_visitsZ P tbl ok ht hT b sb ob h2) zb
  | .tup es, seg, ha, h => by
    rw [pubE] at h; rw [armsZE] at ha; rw [junkE]
    exact .tup (pubL_visitsZ P tbl ok ht hT es seg ha h)
  | .app f args, seg, ha, h => by
    obtain ⟨s1, s2, h1, h2, rfl⟩ := pubE_app_inv h
    rw [armsZE, Bool.and_eq_true] at ha; rw [junkE]
    exact .app (pubE_visitsZ P tbl ok ht hT f s1 ha.1 h1) (pubL_visitsZ P tbl ok ht hT args s2 ha.2 h2)
  | .mem a site, seg, ha, h => by
    obtain ⟨s, h1, rfl⟩ := pubE_mem_inv h
    rw [armsZE] at ha; rw [junkE]
    exact .mem (pubE_visitsZ P tbl ok ht hT a s ha h1)
  | .delay n a t site, seg, ha, h => by
    obtain ⟨s1, s2, h1, h2, rfl⟩ := pubE_delay_inv h
    rw [armsZE, Bool.and_eq_true] at ha; rw [junkE]
    exact .delay (pubE_visitsZ P tbl ok ht hT a s1 ha.1 h1) (pubE_visitsZ P tbl ok ht hT t s2 ha.2 h2)
  | .call f args site, seg, ha, h => by
    obtain ⟨s, lay, h1, hf, rfl⟩ := pubE_call_inv h
    rw [armsZE, Bool.and_eq_true] at ha; rw [junkE]
    exact .call (J' := match findFn P.fns f with | some d => junkE d.body | none => [])
      (pubL_visitsZ P tbl ok ht hT args s ha.1 h1) (fun d hd => (ht f lay hf ha.2 d hd).1)
      (fun d hd => by rw [hd]; exact (ht f lay hf ha.2 d hd).2.1)
      (fun d hd => by rw [hd]; exact (ht f lay hf ha.2 d hd).2.2)
theorem pubL_visitsZ (P : Prog) (tbl : Table) (ok : String → Bool) (ht : TableVisitsZ P tbl ok) (hT : StatelessOk tbl ok) :
    ∀ (es : List Expr) (seg : List LCell), armsZL tbl ok es = true → pubL tbl es = some seg → VisitsZL P es seg (junkL es)
  | [], seg, _, h => by rw [pubL] at h; cases h; exact .nil
  | e :: es, seg, ha, h => by
    obtain ⟨s1, s2, h1, h2, rfl⟩ := pubL_cons_inv h
    rw [armsZL, Bool.and_eq_true] at ha; rw [junkL]
    exact .cons (pubE_visitsZ P tbl ok ht hT e s1 ha.1 h1) (pubL_visitsZ P tbl ok ht hT es s2 ha.2 h2)
end

/-! ### junk sites are not sites of the layout -/

/-- the junk sites `J` are sites of the body and not sites of its published segment -/
def JunkOk (l : List (Nat × Nat)) (seg : List LCell) (J : List Nat) : Prop :=
  (∀ x ∈ J, x ∈ l.map (·.1)) ∧ (∀ x ∈ J, x ∉ sitesOf seg)

theorem JunkOk.nil (l : List (Nat × Nat)) (seg : List LCell) : JunkOk l seg [] := ⟨by simp, by simp⟩

theorem JunkOk.append {l1 l2 : List (Nat × Nat)} {s1 s2 : List LCell} {J1 J2 : List Nat} (hl : LensOk (l1 ++ l2))
    (g1 : Good l1 s1) (g2 : Good l2 s2) (h1 : JunkOk l1 s1 J1) (h2 : JunkOk l2 s2 J2) :
    JunkOk (l1 ++ l2) (s1 ++ s2) (J1 ++ J2) := by
  obtain ⟨_, _, hd⟩ := (lensOk_append l1 l2).1 hl
  constructor
  · intro x hx
    rw [List.map_append, List.mem_append]
    rcases List.mem_append.1 hx with hx | hx
    · exact Or.inl (h1.1 x hx)
    · exact Or.inr (h2.1 x hx)
  · intro x hx hin
    rw [sitesOf_append, List.mem_append] at hin
    rcases List.mem_append.1 hx with hx | hx
    · rcases hin with hin | hin
      · exact h1.2 x hx hin
      · exact hd x (h1.1 x hx) x (g2.2 x hin) rfl
    · rcases hin with hin | hin
      · exact hd x (g1.2 x hin) x (h2.1 x hx) rfl
      · exact h2.2 x hx hin

/-- the `then` arm's segment with the junk of the `then` arm and all sites of the `else` arm -/
theorem JunkOk.arms {la lb : List (Nat × Nat)} {sa : List LCell} {Ja : List Nat} (hl : LensOk (la ++ lb))
    (ga : Good la sa) (ha : JunkOk la sa Ja) : JunkOk (la ++ lb) sa (Ja ++ lb.map (·.1)) := by
  obtain ⟨_, _, hd⟩ := (lensOk_append la lb).1 hl
  constructor
  · intro x hx
    rw [List.map_append, List.mem_append]
    rcases List.mem_append.1 hx with hx | hx
    · exact Or.inl (ha.1 x hx)
    · exact Or.inr hx
  · intro x hx hin
    rcases List.mem_append.1 hx with hx | hx
    · exact ha.2 x hx hin
    · exact hd x (ga.2 x hin) x hx rfl

mutual
theorem pubE_junk (tbl : Table) (ok : String → Bool) (ht : TableOk tbl) (hT : StatelessOk tbl ok) :
    ∀ (e : Expr) (seg : List LCell), LensOk (siteLens e) → armsZE tbl ok e = true → pubE tbl e = some seg →
      JunkOk (siteLens e) seg (junkE e)
  | .lit _, seg, _, _, _ => by rw [junkE]; exact JunkOk.nil _ _
  | .var _, seg, _, _, _ => by rw [junkE]; exact JunkOk.nil _ _
  | .now, seg, _, _, _ => by rw [junkE]; exact JunkOk.nil _ _
  | .samplerate, seg, _, _, _ => by rw [junkE]; exact JunkOk.nil _ _
  | .self, seg, _, _, _ => by rw [junkE]; exact JunkOk.nil _ _
  | .lam _ _, seg, _, _, _ => by rw [junkE]; exact JunkOk.nil _ _
  | .un _ a, seg, hl, ha, h => by
    rw [pubE] at h; rw [siteLens] at hl ⊢; rw [armsZE] at ha; rw [junkE]
    exact pubE_junk tbl ok ht hT a seg hl ha h
  | .proj a _, seg, hl, ha, h => by
    rw [pubE] at h; rw [siteLens] at hl ⊢; rw [armsZE] at ha; rw [junkE]
    exact pubE_junk tbl ok ht hT a seg hl ha h
  | .bin _ a b, seg, hl, ha, h => by
    obtain ⟨s1, s2, h1, h2, rfl⟩ := pubE_bin_inv h
    rw [siteLens] at hl ⊢; rw [armsZE, Bool.and_eq_true] at ha; rw [junkE]
    exact JunkOk.append hl (pubE_good tbl ht a s1 hl.left h1) (pubE_good tbl ht b s2 hl.right h2)
      (pubE_junk tbl ok ht hT a s1 hl.left ha.1 h1) (pubE_junk tbl ok ht hT b s2 hl.right ha.2 h2)
  | .letE _ a b, seg, hl, ha, h => by
    obtain ⟨s1, s2, h1, h2, rfl⟩ := pubE_letE_inv h
    rw [siteLens] at hl ⊢; rw [armsZE, Bool.and_eq_true] at ha; rw [junkE]
    exact JunkOk.append hl (pubE_good tbl ht a s1 hl.left h1) (pubE_good tbl ht b s2 hl.right h2)
      (pubE_junk tbl ok ht hT a s1 hl.left ha.1 h1) (pubE_junk tbl ok ht hT b s2 hl.right ha.2 h2)
  | .letTup _ a b, seg, hl, ha, h => by
    obtain ⟨s1, s2, h1, h2, rfl⟩ := pubE_letTup_inv h
    rw [siteLens] at hl ⊢; rw [armsZE, Bool.and_eq_true] at ha; rw [junkE]
    exact JunkOk.append hl (pubE_good tbl ht a s1 hl.left h1) (pubE_good tbl ht b s2 hl.right h2)
      (pubE_junk tbl ok ht hT a s1 hl.left ha.1 h1) (pubE_junk tbl ok ht hT b s2 hl.right ha.2 h2)
  | .assign _ a b, seg, hl, ha, h => by
    obtain ⟨s1, s2, h1, h2, rfl⟩ := pubE_assign_inv h
    rw [siteLens] at hl ⊢; rw [armsZE, Bool.and_eq_true] at ha; rw [junkE]
    exact JunkOk.append hl (pubE_good tbl ht a s1 hl.left h1) (pubE_good tbl ht b s2 hl.right h2)
      (pubE_junk tbl ok ht hT a s1 hl.left ha.1 h1) (pubE_junk tbl ok ht hT b s2 hl.right ha.2 h2)
  | .ite c a b, seg, hl, ha, h => by
    obtain ⟨sc, sa, sb, hc, h1, h2, rfl⟩ := pubE_ite_inv h
    rw [siteLens] at hl ⊢; rw [junkE]
    rw [armsZE] at ha
    simp only [Bool.and_eq_true] at ha
    obtain ⟨⟨⟨oc, oa⟩, _⟩, eb⟩ := ha
    have ob := armsZE_of_stateless tbl ok hT b sb h2 (stateless_of_isStateless eb h2)
    have ga := pubE_good tbl ht a sa hl.right.left h1
    have gb := pubE_good tbl ht b sb hl.right.right h2
    exact JunkOk.append hl (pubE_good tbl ht c sc hl.left hc) (Good.append hl.right ga gb)
      (pubE_junk tbl ok ht hT c sc hl.left oc hc)
      (JunkOk.append hl.right ga gb (pubE_junk tbl ok ht hT a sa hl.right.left oa h1)
        (pubE_junk tbl ok ht hT b sb hl.right.right ob h2))
  | .tup es, seg, hl, ha, h => by
    rw [pubE] at h; rw [siteLens] at hl ⊢; rw [armsZE] at ha; rw [junkE]
    exact pubL_junk tbl ok ht hT es seg hl ha h
  | .app f args, seg, hl, ha, h => by
    obtain ⟨s1, s2, h1, h2, rfl⟩ := pubE_app_inv h
    rw [siteLens] at hl ⊢; rw [armsZE, Bool.and_eq_true] at ha; rw [junkE]
    exact JunkOk.append hl (pubE_good tbl ht f s1 hl.left h1) (pubL_good tbl ht args s2 hl.right h2)
      (pubE_junk tbl ok ht hT f s1 hl.left ha.1 h1) (pubL_junk tbl ok ht hT args s2 hl.right ha.2 h2)
  | .mem a site, seg, hl, ha, h => by
    obtain ⟨s, h1, rfl⟩ := pubE_mem_inv h
    rw [siteLens] at hl ⊢; rw [armsZE] at ha; rw [junkE]
    have := JunkOk.append hl (pubE_good tbl ht a s hl.left h1) (Good.single (.mem site) 0 (by simp [LayOk]))
      (pubE_junk tbl ok ht hT a s hl.left ha h1) (JunkOk.nil _ _)
    simpa using this
  | .delay n a t site, seg, hl, ha, h => by
    obtain ⟨s1, s2, h1, h2, rfl⟩ := pubE_delay_inv h
    rw [siteLens] at hl ⊢; rw [armsZE, Bool.and_eq_true] at ha; rw [junkE]
    have hn : n < 2 ^ 64 := hl.2 (site, n) (by simp)
    have g12 := Good.append hl.left (pubE_good tbl ht a s1 hl.left.left h1) (pubE_good tbl ht t s2 hl.left.right h2)
    have j12 := JunkOk.append hl.left (pubE_good tbl ht a s1 hl.left.left h1) (pubE_good tbl ht t s2 hl.left.right h2)
      (pubE_junk tbl ok ht hT a s1 hl.left.left ha.1 h1) (pubE_junk tbl ok ht hT t s2 hl.left.right ha.2 h2)
    have := JunkOk.append hl g12 (Good.single (.delay site n) n (by simpa [LayOk] using hn)) j12 (JunkOk.nil _ _)
    simpa using this
  | .call f args site, seg, hl, ha, h => by
    obtain ⟨s, lay, h1, hf, rfl⟩ := pubE_call_inv h
    rw [siteLens] at hl ⊢; rw [armsZE, Bool.and_eq_true] at ha; rw [junkE]
    have := JunkOk.append hl (pubL_good tbl ht args s hl.left h1)
      (Good.single (.child site lay.self lay.cells) 0 (by simpa [LayOk] using ht f lay hf))
      (pubL_junk tbl ok ht hT args s hl.left ha.1 h1) (JunkOk.nil _ _)
    simpa using this
theorem pubL_junk (tbl : Table) (ok : String → Bool) (ht : TableOk tbl) (hT : StatelessOk tbl ok) :
    ∀ (es : List Expr) (seg : List LCell), LensOk (siteLensL es) → armsZL tbl ok es = true → pubL tbl es = some seg →
      JunkOk (siteLensL es) seg (junkL es)
  | [], seg, _, _, _ => by rw [junkL]; exact JunkOk.nil _ _
  | e :: es, seg, hl, ha, h => by
    obtain ⟨s1, s2, h1, h2, rfl⟩ := pubL_cons_inv h
    rw [siteLensL] at hl ⊢; rw [armsZL, Bool.and_eq_true] at ha; rw [junkL]
    exact JunkOk.append hl (pubE_good tbl ht e s1 hl.left h1) (pubL_good tbl ht es s2 hl.right h2)
      (pubE_junk tbl ok ht hT e s1 hl.left ha.1 h1) (pubL_junk tbl ok ht hT es s2 hl.right ha.2 h2)
end

/-- the function table has both properties at every depth -/
theorem table_visitsZ (P : Prog) (hs : SitesUnique P) : ∀ n, TableVisitsZ P (table P n) (okTableZ P n)
  | 0 => by intro f lay h; simp [table] at h
  | n + 1 => by
    intro f lay h hok d hd
    simp only [table, hd] at h
    simp only [okTableZ, hd] at hok
    cases hb : pubE (table P n) d.body with
    | none => simp [hb] at h
    | some cells =>
      simp only [hb, Option.some.injEq] at h
      subst h
      exact ⟨rfl, pubE_visitsZ P _ _ (table_visitsZ P hs n) (table_statelessOk P n) d.body cells hok hb,
        (pubE_junk _ _ (table_ok P hs n) (table_statelessOk P n) d.body cells (hs d (findFn_mem hd)) hok hb).2⟩

theorem publishEN_visitsZ (n : Nat) (P : Prog) (e : Expr) (seg : List LCell) (hs : SitesUnique P) (he : SitesOk e)
    (ha : noStatefulInArmsN n P e = true) (h : publishEN n P e = some seg) :
    VisitsZ P e seg (junkE e) ∧ ∀ x ∈ junkE e, x ∉ sitesOf seg :=
  ⟨pubE_visitsZ P _ _ (table_visitsZ P hs n) (table_statelessOk P n) e seg ha h,
    (pubE_junk _ _ (table_ok P hs n) (table_statelessOk P n) e seg he ha h).2⟩

/-! ### the narrow class is part of the wide one -/

theorem isStateless_of_isNil {x : Option (List LCell)} (h : isNil x = true) : isStateless x = true := by
  rw [some_nil_of_match h]; rfl

mutual
theorem armsZE_of_armsOkE (tbl : Table) (ok ok' : String → Bool) (hok : ∀ f, ok f = true → ok' f = true) :
    ∀ e : Expr, armsOkE tbl ok e = true → armsZE tbl ok' e = true
  | .lit _, _ => by rw [armsZE]
  | .var _, _ => by rw [armsZE]
  | .now, _ => by rw [armsZE]
  | .samplerate, _ => by rw [armsZE]
  | .self, _ => by rw [armsZE]
  | .lam _ _, _ => by rw [armsZE]
  | .un _ a, h => by rw [armsOkE] at h; rw [armsZE]; exact armsZE_of_armsOkE tbl ok ok' hok a h
  | .proj a _, h => by rw [armsOkE] at h; rw [armsZE]; exact armsZE_of_armsOkE tbl ok ok' hok a h
  | .mem a _, h => by rw [armsOkE] at h; rw [armsZE]; exact armsZE_of_armsOkE tbl ok ok' hok a h
  | .bin _ a b, h => by
    rw [armsOkE, Bool.and_eq_true] at h; rw [armsZE, Bool.and_eq_true]
    exact ⟨armsZE_of_armsOkE tbl ok ok' hok a h.1, armsZE_of_armsOkE tbl ok ok' hok b h.2⟩
  | .letE _ a b, h => by
    rw [armsOkE, Bool.and_eq_true] at h; rw [armsZE, Bool.and_eq_true]
    exact ⟨armsZE_of_armsOkE tbl ok ok' hok a h.1, armsZE_of_armsOkE tbl ok ok' hok b h.2⟩
  | .letTup _ a b, h => by
    rw [armsOkE, Bool.and_eq_true] at h; rw [armsZE, Bool.and_eq_true]
    exact ⟨armsZE_of_armsOkE tbl ok ok' hok a h.1, armsZE_of_armsOkE tbl ok ok' hok b h.2⟩
  | .assign _ a b, h => by
    rw [armsOkE, Bool.and_eq_true] at h; rw [armsZE, Bool.and_eq_true]
    exact ⟨armsZE_of_armsOkE tbl ok ok' hok a h.1, armsZE_of_armsOkE tbl ok ok' hok b h.2⟩
  | .delay _ a t _, h => by
    rw [armsOkE, Bool.and_eq_true] at h; rw [armsZE, Bool.and_eq_true]
    exact ⟨armsZE_of_armsOkE tbl ok ok' hok a h.1, armsZE_of_armsOkE tbl ok ok' hok t h.2⟩
  | .ite c a b, h => by
    rw [armsOkE] at h; rw [armsZE]
    simp only [Bool.and_eq_true] at h ⊢
    obtain ⟨⟨⟨⟨oc, oa⟩, _⟩, ea⟩, eb⟩ := h
    exact ⟨⟨⟨armsZE_of_armsOkE tbl ok ok' hok c oc, armsZE_of_armsOkE tbl ok ok' hok a oa⟩,
      isStateless_of_isNil ea⟩, isStateless_of_isNil eb⟩
  | .tup es, h => by rw [armsOkE] at h; rw [armsZE]; exact armsZL_of_armsOkL tbl ok ok' hok es h
  | .app f args, h => by
    rw [armsOkE, Bool.and_eq_true] at h; rw [armsZE, Bool.and_eq_true]
    exact ⟨armsZE_of_armsOkE tbl ok ok' hok f h.1, armsZL_of_armsOkL tbl ok ok' hok args h.2⟩
  | .call f args _, h => by
    rw [armsOkE, Bool.and_eq_true] at h; rw [armsZE, Bool.and_eq_true]
    exact ⟨armsZL_of_armsOkL tbl ok ok' hok args h.1, hok f h.2⟩
theorem armsZL_of_armsOkL (tbl : Table) (ok ok' : String → Bool) (hok : ∀ f, ok f = true → ok' f = true) :
    ∀ es : List Expr, armsOkL tbl ok es = true → armsZL tbl ok' es = true
  | [], _ => by rw [armsZL]
  | e :: es, h => by
    rw [armsOkL, Bool.and_eq_true] at h; rw [armsZL, Bool.and_eq_true]
    exact ⟨armsZE_of_armsOkE tbl ok ok' hok e h.1, armsZL_of_armsOkL tbl ok ok' hok es h.2⟩
end

theorem okTableZ_of_okTable (P : Prog) : ∀ n f, okTable P n f = true → okTableZ P n f = true
  | 0, f, h => by simp [okTable] at h
  | n + 1, f, h => by
    rw [okTable] at h; rw [okTableZ]
    cases hd : findFn P.fns f with
    | none => simp [hd] at h
    | some d =>
      simp only [hd] at h ⊢
      exact armsZE_of_armsOkE _ _ _ (okTableZ_of_okTable P n) d.body h

theorem noStatefulInArmsN_of_noStateInArmsN (n : Nat) (P : Prog) (e : Expr) (h : noStateInArmsN n P e = true) :
    noStatefulInArmsN n P e = true :=
  armsZE_of_armsOkE _ _ _ (okTableZ_of_okTable P n) e h

end Mimium.Publish
