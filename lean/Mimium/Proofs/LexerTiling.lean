import Mimium.Proofs.Lexer
/-! Splitter and position lemmas: `split_projection_float_tokens` preserves the concatenation of texts; `toTokens`
tiles the byte range; `Token.text` recovers each lexeme. -/
namespace Mimium.Lexer
open Mimium.Gen (Kind)

theorem splitOnce_spec (d : Char) : ∀ (cs h t : List Char), splitOnce d cs = some (h, t) → cs = h ++ d :: t := by
  intro cs
  induction cs with
  | nil => intro h t e; simp [splitOnce] at e
  | cons c cs ih =>
    intro h t e
    simp only [splitOnce] at e
    split at e
    · rename_i hc
      simp at e; obtain ⟨rfl, rfl⟩ := e
      have : c = d := by simpa using hc
      simp [this]
    · cases hs : splitOnce d cs with
      | none => simp [hs] at e
      | some p =>
        obtain ⟨h', t'⟩ := p
        simp [hs] at e
        obtain ⟨rfl, rfl⟩ := e
        simp [ih h' t' hs]

theorem digitOnly_ne_nil {s : List Char} (h : digitOnly s = true) : s ≠ [] := by
  intro e; subst e; simp [digitOnly] at h

theorem trySplit_spec (t : Lexeme) (h tl : List Char) (e : trySplit t = some (h, tl)) :
    t.text = h ++ '.' :: tl ∧ h ≠ [] ∧ tl ≠ [] := by
  unfold trySplit at e
  split at e
  · simp at e
  · split at e
    · rename_i h' tl' hs
      split at e
      · rename_i hd
        simp at e; obtain ⟨rfl, rfl⟩ := e
        simp only [Bool.and_eq_true] at hd
        exact ⟨splitOnce_spec _ _ _ _ hs, digitOnly_ne_nil hd.1, digitOnly_ne_nil hd.2⟩
      · simp at e
    · simp at e

/-- the splitter replaces a token by three that cover the same characters: the concatenation is unchanged -/
theorem splitProj_texts : ∀ (ls : List Lexeme) (prev : Option Kind), texts (splitProj prev ls) = texts ls := by
  intro ls
  induction ls with
  | nil => intro prev; rfl
  | cons t ts ih =>
    intro prev
    simp only [splitProj]
    split
    · rename_i h tl hs
      have hsp : trySplit t = some (h, tl) := by
        split at hs
        · exact hs
        · simp at hs
      have ⟨e, _, _⟩ := trySplit_spec t h tl hsp
      simp only [texts, List.flatMap_cons] at ih ⊢
      rw [ih, e]; simp
    · simp only [texts, List.flatMap_cons] at ih ⊢
      rw [ih]

theorem splitProj_nonempty : ∀ (ls : List Lexeme) (prev : Option Kind),
    (∀ l ∈ ls, l.text ≠ [] ∧ l.kind ≠ Kind.Eof) → ∀ l ∈ splitProj prev ls, l.text ≠ [] ∧ l.kind ≠ Kind.Eof := by
  intro ls
  induction ls with
  | nil => intro prev _ l hl; simp [splitProj] at hl
  | cons t ts ih =>
    intro prev hall l hl
    have hts : ∀ l ∈ ts, l.text ≠ [] ∧ l.kind ≠ Kind.Eof := fun l hl => hall l (by simp [hl])
    simp only [splitProj] at hl
    split at hl
    · rename_i h tl hs
      have hsp : trySplit t = some (h, tl) := by
        split at hs
        · exact hs
        · simp at hs
      have ⟨_, h1, h2⟩ := trySplit_spec t h tl hsp
      simp only [List.mem_cons] at hl
      rcases hl with rfl | rfl | rfl | hl
      · exact ⟨h1, by simp⟩
      · exact ⟨by simp, by simp⟩
      · exact ⟨h2, by simp⟩
      · exact ih _ hts l hl
    · simp only [List.mem_cons] at hl
      rcases hl with rfl | hl
      · exact hall _ (by simp)
      · exact ih _ hts l hl

/-! ### bytes -/

theorem utf8Len_append (a b : List Char) : utf8Len (a ++ b) = utf8Len a + utf8Len b := by
  induction a with
  | nil => simp [utf8Len]
  | cons c a ih => simp [utf8Len, ih]; omega

theorem utf8Len_pos {s : List Char} (h : s ≠ []) : 0 < utf8Len s := by
  cases s with
  | nil => exact absurd rfl h
  | cons c cs => have := Char.utf8Size_pos c; simp [utf8Len]; omega

theorem dropBytes_zero (q : List Char) : dropBytes 0 q = q := by
  cases q <;> simp [dropBytes]

theorem takeBytes_zero (q : List Char) : takeBytes 0 q = [] := by
  cases q <;> simp [takeBytes]

theorem dropBytes_append (p q : List Char) : dropBytes (utf8Len p) (p ++ q) = q := by
  induction p with
  | nil => simp [utf8Len, dropBytes_zero]
  | cons c p ih =>
    have := Char.utf8Size_pos c
    simp only [utf8Len, List.cons_append, dropBytes]
    rw [if_neg (by omega)]
    have : c.utf8Size + utf8Len p - c.utf8Size = utf8Len p := by omega
    rw [this, ih]

theorem takeBytes_append (p q : List Char) : takeBytes (utf8Len p) (p ++ q) = p := by
  induction p with
  | nil => simp [utf8Len, takeBytes_zero]
  | cons c p ih =>
    have := Char.utf8Size_pos c
    simp only [utf8Len, List.cons_append, takeBytes]
    rw [if_neg (by omega)]
    have : c.utf8Size + utf8Len p - c.utf8Size = utf8Len p := by omega
    rw [this, ih]

/-- `&source[start..start+len]` of a token placed after `pre` and covering `mid` is `mid` -/
theorem text_slice (k : Kind) (pre mid post : List Char) :
    (Token.mk k (utf8Len pre) (utf8Len mid)).text (pre ++ mid ++ post) = mid := by
  simp only [Token.text, List.append_assoc]
  rw [dropBytes_append, takeBytes_append]

/-! ### positions -/

theorem toTokens_contig : ∀ (ls : List Lexeme) (pos : Nat) (tail : List Token),
    Contig (pos + utf8Len (texts ls)) tail → Contig pos (toTokens pos ls ++ tail) := by
  intro ls
  induction ls with
  | nil => intro pos tail h; simpa [toTokens, texts, utf8Len] using h
  | cons l ls ih =>
    intro pos tail h
    simp only [toTokens, List.cons_append, Contig, true_and]
    apply ih
    simp only [texts, List.flatMap_cons, utf8Len_append] at h ⊢
    rw [Nat.add_assoc]; exact h

theorem toTokens_texts : ∀ (ls : List Lexeme) (pre post : List Char),
    (toTokens (utf8Len pre) ls).map (·.text (pre ++ texts ls ++ post)) = ls.map (·.text) := by
  intro ls
  induction ls with
  | nil => intros; rfl
  | cons l ls ih =>
    intro pre post
    simp only [toTokens, List.map_cons, texts, List.flatMap_cons]
    congr 1
    · have := text_slice l.kind pre l.text (texts ls ++ post)
      simpa [texts, List.append_assoc] using this
    · have := ih (pre ++ l.text) post
      rw [utf8Len_append] at this
      simpa [texts, List.append_assoc] using this

theorem toTokens_mem : ∀ (ls : List Lexeme) (pos : Nat) (t : Token), t ∈ toTokens pos ls →
    ∃ l ∈ ls, t.kind = l.kind ∧ t.len = utf8Len l.text := by
  intro ls
  induction ls with
  | nil => intro pos t h; simp [toTokens] at h
  | cons l ls ih =>
    intro pos t h
    simp only [toTokens, List.mem_cons] at h
    rcases h with rfl | h
    · exact ⟨l, by simp, rfl, rfl⟩
    · obtain ⟨l', hl', e⟩ := ih _ t h
      exact ⟨l', by simp [hl'], e⟩

theorem toTokens_boundary : ∀ (ls : List Lexeme) (pre post : List Char) (t : Token), t ∈ toTokens (utf8Len pre) ls →
    IsBoundary (pre ++ texts ls ++ post) t.start ∧ IsBoundary (pre ++ texts ls ++ post) t.stop := by
  intro ls
  induction ls with
  | nil => intro pre post t h; simp [toTokens] at h
  | cons l ls ih =>
    intro pre post t h
    simp only [toTokens, List.mem_cons] at h
    rcases h with rfl | h
    · constructor
      · exact ⟨pre, by simp [List.append_assoc], rfl⟩
      · refine ⟨pre ++ l.text, ?_, ?_⟩
        · simp only [texts, List.flatMap_cons, List.append_assoc]
          exact (List.prefix_append_right_inj pre).mpr (List.prefix_append _ _)
        · simp [Token.stop, utf8Len_append]
    · have := ih (pre ++ l.text) post t (by rw [utf8Len_append]; exact h)
      simpa [texts, List.append_assoc] using this


/-! ### the loop as recursion on the remaining input -/

/-- The tokenizer loop written as plain recursion on the *remaining input*: Lean's termination checker accepts it
because (`lexStep_progress`) every iteration consumes at least one character when the tables satisfy `TablesOk`. -/
def lexWF (C : Classes) (T : Tables) (ok : TablesOk T = true) (cs : List Char) : List Lexeme :=
  match cs with
  | [] => []
  | c :: rest =>
    ⟨(lexStep C T (c :: rest)).1, (c :: rest).take (lexStep C T (c :: rest)).2⟩ ::
      lexWF C T ok ((c :: rest).drop (lexStep C T (c :: rest)).2)
termination_by cs.length
decreasing_by
  have := lexStep_progress (tablesOk_iff T ok) C (c :: rest) (by simp)
  simp only [List.length_drop, List.length_cons] at this ⊢
  omega

/-- the fuel-driven loop of the executable model computes exactly the recursion on the remaining input -/
theorem lexWF_eq_lex (C : Classes) (T : Tables) (ok : TablesOk T = true) :
    ∀ (n : Nat) (cs : List Char), cs.length ≤ n → lexWF C T ok cs = lex C T cs := by
  intro n
  induction n with
  | zero =>
    intro cs h
    have : cs = [] := List.eq_nil_of_length_eq_zero (by omega)
    subst this
    unfold lexWF; rfl
  | succ n ih =>
    intro cs h
    cases cs with
    | nil => unfold lexWF; rfl
    | cons c rest =>
      have hp := lexStep_progress (tablesOk_iff T ok) C (c :: rest) (by simp)
      have hlen : ((c :: rest).drop (lexStep C T (c :: rest)).2).length ≤ n := by
        simp only [List.length_drop, List.length_cons] at h hp ⊢; omega
      have hlen2 : ((c :: rest).drop (lexStep C T (c :: rest)).2).length ≤ rest.length := by
        simp only [List.length_drop, List.length_cons] at hp ⊢; omega
      unfold lexWF
      rw [ih _ hlen]
      simp only [lex, List.length_cons, lexLoop]
      rw [lexLoop_fuel (tablesOk_iff T ok) C rest.length _ hlen2 _ (Nat.le_refl _)]

/-- the lexemes of `tokenize` concatenate to the input and are non-empty, non-`Eof` -/
theorem lexemes_spec (C : Classes) (T : Tables) (ok : TablesOk T = true) (s : List Char) :
    texts (splitProj none (lex C T s)) = s ∧ ∀ l ∈ splitProj none (lex C T s), l.text ≠ [] ∧ l.kind ≠ Kind.Eof := by
  have ⟨a, b⟩ := lexLoop_spec (tablesOk_iff T ok) C s.length s (Nat.le_refl _)
  exact ⟨by rw [splitProj_texts]; exact a, splitProj_nonempty _ _ b⟩

end Mimium.Lexer
