import Mimium.Proofs.CoreTyLemmas
import Mimium.Proofs.CoreRenameV
/-!
# Type soundness of the reference evaluator `Model/Core`

`sound`: for a program whose signed functions check against their signatures (`ProgOK`), every expression typed by
`HasType`, evaluated with ANY fuel in a typed environment / store / state, either runs out of fuel or returns a value of
its type, a store typed by an extension of the store typing, and a typed state — never `.error (.type _)`,
`.error (.unbound _)` or `.error (.nofn _)`. Induction on fuel over all 18 constructs (closures and assignment included).
-/
namespace Mimium.Core

/-- the result is not a type / unbound-variable / unknown-function error; a success satisfies `R` -/
def Good {α : Type} (R : α → Prop) : Res α → Prop
  | .ok a => R a
  | .error .fuel => True
  | .error _ => False

theorem Good.ok {α : Type} {R : α → Prop} {a : α} (h : R a) : Good R (.ok a) := h

theorem Good.andThen {α β : Type} {R : α → Prop} {Q : β → Prop} {r : Res α} {f : α → Res β}
    (h : Good R r) (hf : ∀ a, R a → Good Q (f a)) : Good Q (andThen r f) := by
  cases r with
  | ok a => exact hf a h
  | error e => cases e <;> first | trivial | exact h.elim

theorem Good.mono {α : Type} {R Q : α → Prop} {r : Res α} (h : Good R r) (hq : ∀ a, R a → Q a) : Good Q r := by
  cases r with
  | ok a => exact hq a h
  | error e => cases e <;> first | trivial | exact h.elim

/-- postcondition of a run started under the store typing Ψ: some extension Ψ' types the result (`T Ψ'`) and the final
store; the final state satisfies `S` -/
def Post {α : Type} (Φ : Sig) (T : List Ty → α → Prop) (Ψ : List Ty) (S : SNode → Prop) (r : α × Store × SNode) : Prop :=
  ∃ Ψ', Ψ <+: Ψ' ∧ T Ψ' r.1 ∧ StoreOK Φ Ψ' r.2.1 ∧ S r.2.2

theorem Post.weaken {α : Type} {Φ : Sig} {T : List Ty → α → Prop} {Ψ Ψ₁ : List Ty} {S : SNode → Prop}
    {r : Res (α × Store × SNode)} (hp : Ψ <+: Ψ₁) (h : Good (Post Φ T Ψ₁ S) r) : Good (Post Φ T Ψ S) r :=
  h.mono fun _ ⟨Ψ', h1, h2⟩ => ⟨Ψ', hp.trans h1, h2⟩

theorem Post.bind {α β : Type} {Φ : Sig} {T : List Ty → α → Prop} {T' : List Ty → β → Prop} {S S' : SNode → Prop}
    {Ψ : List Ty} {r : Res (α × Store × SNode)} {f : α × Store × SNode → Res (β × Store × SNode)}
    (h : Good (Post Φ T Ψ S) r)
    (hf : ∀ a σ' st' Ψ', Ψ <+: Ψ' → T Ψ' a → StoreOK Φ Ψ' σ' → S st' → Good (Post Φ T' Ψ' S') (f (a, σ', st'))) :
    Good (Post Φ T' Ψ S') (andThen r f) := by
  refine Good.andThen h ?_
  rintro ⟨a, σ', st'⟩ ⟨Ψ', hext, ht, hσ, hs⟩
  exact Post.weaken hext (hf a σ' st' Ψ' hext ht hσ hs)

/-- what the evaluator needs of the program: every signed function is declared and checks against its signature;
the global environment is typed by the first |Ψg| locations -/
structure ProgOK (Φ : Sig) (Γg : Ctx) (Ψg : List Ty) (P : Prog) : Prop where
  fns : ∀ f τs τ, Φ.lookup f = some (τs, τ) → ∃ d, findFn P.fns f = some d ∧ FnOK Φ Γg d τs τ
  genv : EnvOK Ψg (globalEnv P) Γg

theorem StOK.selfv {P : Prog} {C : List (Nat × String)} {ρ : Option Ty} {st : SNode} (h : StOK P C ρ st)
    {τ : Ty} {v : Val} (hρ : ρ = some τ) (hv : st.selfv = some v) : HasTy v τ := by
  cases h with
  | mk h1 h2 => exact h1 τ v hρ hv

abbrev VTat (Φ : Sig) (τ : Ty) : List Ty → Val → Prop := fun Ψ v => VT Φ Ψ v τ
abbrev VTsAt (Φ : Sig) (τs : List Ty) : List Ty → List Val → Prop := fun Ψ vs => VTs Φ Ψ vs τs

/-- the statement proved at every fuel -/
def SoundE (Φ : Sig) (Ψg : List Ty) (P : Prog) (rt : Rt) (n : Nat) : Prop :=
  ∀ (e : Expr) (Γ : Ctx) (ρ : Option Ty) (τ : Ty) (env : Env) (σ : Store) (st : SNode) (Ψ : List Ty) (C : List (Nat × String)),
    HasType Φ Γ ρ e τ → EnvOK Ψ env Γ → StoreOK Φ Ψ σ → Ψg <+: Ψ → calls e ⊆ C → Agree C → RunOK P C ρ st →
    Good (Post Φ (VTat Φ τ) Ψ (RunOK P C ρ)) (eval n P rt env e σ st)

def SoundL (Φ : Sig) (Ψg : List Ty) (P : Prog) (rt : Rt) (n : Nat) : Prop :=
  ∀ (es : List Expr) (Γ : Ctx) (ρ : Option Ty) (τs : List Ty) (env : Env) (σ : Store) (st : SNode) (Ψ : List Ty)
    (C : List (Nat × String)),
    HasTypes Φ Γ ρ es τs → EnvOK Ψ env Γ → StoreOK Φ Ψ σ → Ψg <+: Ψ → callsL es ⊆ C → Agree C → RunOK P C ρ st →
    Good (Post Φ (VTsAt Φ τs) Ψ (RunOK P C ρ)) (evalList n P rt env es σ st)

/-- the part of a call after its arguments -/
theorem callRest_sound {Φ : Sig} {Γg : Ctx} {Ψg : List Ty} {P : Prog} (rt : Rt) (hP : ProgOK Φ Γg Ψg P) (n : Nat)
    (ihE : SoundE Φ Ψg P rt n) {f : String} {site : Nat} {τs : List Ty} {τ : Ty} {ρ : Option Ty}
    {C : List (Nat × String)} {Ψ : List Ty} {vs : List Val} {σ : Store} {st : SNode}
    (hΦ : Φ.lookup f = some (τs, τ)) (hvs : VTs Φ Ψ vs τs) (hσ : StoreOK Φ Ψ σ) (hg : Ψg <+: Ψ)
    (hk : (site, f) ∈ C) (hA : Agree C) (hst : RunOK P C ρ st) :
    Good (Post Φ (VTat Φ τ) Ψ (RunOK P C ρ)) (callRest P rt n f site (vs, σ, st)) := by
  obtain ⟨d, hd, hok⟩ := hP.fns f τs τ hΦ
  have hlen : d.params.length = vs.length := by rw [hok.arity, hvs.length]
  simp only [callRest, hd, hlen, bne_self_eq_false, Bool.false_eq_true, if_false]
  obtain ⟨he', hσ'⟩ := bindAll_ok d.params τs vs (globalEnv P) σ Γg Ψ hok.arity hvs (hP.genv.mono hg) hσ
  have hp : Ψ <+: Ψ ++ τs := List.prefix_append _ _
  refine Good.andThen (ihE d.body _ _ τ _ _ _ _ (calls d.body) hok.body he' hσ' (hg.trans hp) (List.Subset.refl _) hok.agree
    (hst.1.childAt hk hd).initSelf) ?_
  rintro ⟨v, σ2, ch⟩ ⟨Ψ2, hext2, hv, hσ2, hch⟩
  refine Good.ok ⟨Ψ2, hp.trans hext2, hv, hσ2, hst.setCell site _ ?_⟩
  intro m hm f' d' hk' hf'
  cases hm
  have hff : f' = f := hA site f' f hk' hk
  subst hff
  rw [hd] at hf'; cases hf'
  refine StOK.finishSelf hch.1 ?_
  intro s hs
  have hτ := hok.selfRet s hs
  subst hτ
  exact VT.toHasTy hv (fo_tyOfShape s)

theorem sound {Φ : Sig} {Γg : Ctx} {Ψg : List Ty} {P : Prog} (rt : Rt) (hP : ProgOK Φ Γg Ψg P) :
    ∀ (fuel : Nat), SoundE Φ Ψg P rt fuel ∧ SoundL Φ Ψg P rt fuel := by
  intro fuel
  induction fuel with
  | zero =>
    constructor
    · intro e Γ ρ τ env σ st Ψ C _ _ _ _ _ _ _; rw [eval_zero]; trivial
    · intro es Γ ρ τs env σ st Ψ C _ _ _ _ _ _ _; rw [evalList_zero]; trivial
  | succ n ih =>
    obtain ⟨ihE, ihL⟩ := ih
    constructor
    · intro e Γ ρ τ env σ st Ψ C hty henv hσ hg hC hA hst
      cases hty with
      | lit => rw [eval_lit]; exact Good.ok ⟨Ψ, List.prefix_refl _, .num _, hσ, hst⟩
      | var hx =>
        rw [eval_var]
        obtain ⟨l, hl, hΨ⟩ := henv _ _ hx
        obtain ⟨v, hv, hvt⟩ := hσ.get hΨ
        simp only [hl, hv]
        exact Good.ok ⟨Ψ, List.prefix_refl _, hvt, hσ, hst⟩
      | un ha =>
        rename_i op a
        rw [eval_un]
        have hCa : calls a ⊆ C := by simpa [calls] using hC
        refine Post.bind (ihE _ _ _ _ _ _ _ _ _ ha henv hσ hg hCa hA hst) ?_
        intro v σ' st' Ψ' hext hv hσ' hst'
        cases hv
        exact Good.ok ⟨Ψ', List.prefix_refl _, .num _, hσ', hst'⟩
      | bin ha hb =>
        rename_i op a b
        rw [eval_bin]
        obtain ⟨hCa, hCb⟩ : calls a ⊆ C ∧ calls b ⊆ C := by simpa [calls, List.append_subset] using hC
        refine Post.bind (ihE _ _ _ _ _ _ _ _ _ ha henv hσ hg hCa hA hst) ?_
        intro v σ' st' Ψ' hext hv hσ' hst'
        cases hv
        refine Post.bind (ihE _ _ _ _ _ _ _ _ _ hb (henv.mono hext) hσ' (hg.trans hext) hCb hA hst') ?_
        intro v σ'' st'' Ψ'' hext' hv hσ'' hst''
        cases hv
        exact Good.ok ⟨Ψ'', List.prefix_refl _, .num _, hσ'', hst''⟩
      | ite hc ha hb =>
        rename_i c a b
        rw [eval_ite]
        obtain ⟨hCc, hCa, hCb⟩ : calls c ⊆ C ∧ calls a ⊆ C ∧ calls b ⊆ C := by
          simpa [calls, List.append_subset] using hC
        refine Post.bind (ihE _ _ _ _ _ _ _ _ _ hc henv hσ hg hCc hA hst) ?_
        intro v σ' st' Ψ' hext hv hσ' hst'
        cases hv
        dsimp only
        split
        · exact ihE _ _ _ _ _ _ _ _ _ ha (henv.mono hext) hσ' (hg.trans hext) hCa hA hst'
        · exact ihE _ _ _ _ _ _ _ _ _ hb (henv.mono hext) hσ' (hg.trans hext) hCb hA hst'
      | letE ha hb =>
        rename_i x a body τ₁
        rw [eval_letE]
        obtain ⟨hCa, hCb⟩ : calls a ⊆ C ∧ calls body ⊆ C := by simpa [calls, List.append_subset] using hC
        refine Post.bind (ihE _ _ _ _ _ _ _ _ _ ha henv hσ hg hCa hA hst) ?_
        intro v σ' st' Ψ' hext hv hσ' hst'
        have he' := (henv.mono hext).push x τ₁
        rw [← hσ'.1] at he'
        have hp : Ψ' <+: Ψ' ++ [τ₁] := List.prefix_append _ _
        exact Post.weaken hp (ihE _ _ _ _ _ _ _ _ _ hb he' (hσ'.push hv) ((hg.trans hext).trans hp) hCb hA hst')
      | letTup ha hl hb =>
        rename_i xs a body τs
        rw [eval_letTup]
        obtain ⟨hCa, hCb⟩ : calls a ⊆ C ∧ calls body ⊆ C := by simpa [calls, List.append_subset] using hC
        refine Post.bind (ihE _ _ _ _ _ _ _ _ _ ha henv hσ hg hCa hA hst) ?_
        intro v σ' st' Ψ' hext hv hσ' hst'
        cases hv with
        | tup hvs =>
          rename_i vs
          have hlen : vs.length = xs.length := by rw [hvs.length, hl]
          simp only [hlen, beq_self_eq_true, if_true]
          obtain ⟨he', hσ''⟩ := bindAll_ok xs τs vs env σ' Γ Ψ' hl hvs (henv.mono hext) hσ'
          have hp : Ψ' <+: Ψ' ++ τs := List.prefix_append _ _
          exact Post.weaken hp (ihE _ _ _ _ _ _ _ _ _ hb he' hσ'' ((hg.trans hext).trans hp) hCb hA hst')
      | tup hes =>
        rename_i es τs
        rw [eval_tup]
        have hCa : callsL es ⊆ C := by simpa [calls] using hC
        refine Post.bind (ihL _ _ _ _ _ _ _ _ _ hes henv hσ hg hCa hA hst) ?_
        intro vs σ' st' Ψ' hext hvs hσ' hst'
        exact Good.ok ⟨Ψ', List.prefix_refl _, .tup hvs, hσ', hst'⟩
      | proj ha hi =>
        rename_i a i τs
        rw [eval_proj]
        have hCa : calls a ⊆ C := by simpa [calls] using hC
        refine Post.bind (ihE _ _ _ _ _ _ _ _ _ ha henv hσ hg hCa hA hst) ?_
        intro v σ' st' Ψ' hext hv hσ' hst'
        cases hv with
        | tup hvs =>
          obtain ⟨w, hw, hwt⟩ := hvs.get hi
          simp only [hw]
          exact Good.ok ⟨Ψ', List.prefix_refl _, hwt, hσ', hst'⟩
      | call hΦ hargs =>
        rename_i f args site τs
        rw [eval_call]
        obtain ⟨hk, hCa⟩ : (site, f) ∈ C ∧ callsL args ⊆ C := by simpa [calls, List.cons_subset] using hC
        refine Post.bind (ihL _ _ _ _ _ _ _ _ _ hargs henv hσ hg hCa hA hst) ?_
        intro vs σ' st' Ψ' hext hvs hσ' hst'
        exact callRest_sound rt hP n ihE hΦ hvs hσ' (hg.trans hext) hk hA hst'
      | app hf hargs =>
        rename_i f args τs
        rw [eval_app]
        obtain ⟨hCf, hCa⟩ : calls f ⊆ C ∧ callsL args ⊆ C := by simpa [calls, List.append_subset] using hC
        refine Post.bind (ihE _ _ _ _ _ _ _ _ _ hf henv hσ hg hCf hA hst) ?_
        intro v σ' st' Ψ' hext hv hσ' hst'
        cases hv with
        | clo hce hpl hcb hca =>
          rename_i ps body cenv Γc
          dsimp only
          refine Post.bind (ihL _ _ _ _ _ _ _ _ _ hargs (henv.mono hext) hσ' (hg.trans hext) hCa hA hst') ?_
          intro vs σ2 st2 Ψ2 hext2 hvs hσ2 hst2
          have hlen : ps.length = vs.length := by rw [hpl, hvs.length]
          simp only [hlen, bne_self_eq_false, Bool.false_eq_true, if_false]
          obtain ⟨he', hσ3⟩ := bindAll_ok ps τs vs cenv σ2 Γc Ψ2 hpl hvs (hce.mono hext2) hσ2
          have hp : Ψ2 <+: Ψ2 ++ τs := List.prefix_append _ _
          refine Good.andThen (ihE body _ _ _ _ _ _ _ (calls body) hcb he' hσ3 (((hg.trans hext).trans hext2).trans hp)
            (List.Subset.refl _) hca ⟨StOK.empty _ _ _, by simp⟩) ?_
          rintro ⟨w, σ4, st4⟩ ⟨Ψ4, hext4, hw, hσ4, _⟩
          exact Good.ok ⟨Ψ4, hp.trans hext4, hw, hσ4, hst2⟩
      | lam hl hb =>
        rename_i ps body τs τ'
        rw [eval_lam]
        have hCb : calls body ⊆ C := by simpa [calls] using hC
        exact Good.ok ⟨Ψ, List.prefix_refl _, .clo henv hl hb (hA.subset hCb), hσ, hst⟩
      | self =>
        rw [eval_self]
        cases hs : st.selfv with
        | none => have := hst.2 rfl; simp [hs] at this
        | some v => exact Good.ok ⟨Ψ, List.prefix_refl _, (hst.1.selfv rfl hs).toVT, hσ, hst⟩
      | mem ha =>
        rename_i a site
        rw [eval_mem]
        have hCa : calls a ⊆ C := by simpa [calls] using hC
        refine Post.bind (ihE _ _ _ _ _ _ _ _ _ ha henv hσ hg hCa hA hst) ?_
        intro v σ' st' Ψ' hext hv hσ' hst'
        cases hv
        exact Good.ok ⟨Ψ', List.prefix_refl _, .num _, hσ', hst'.setCell _ _ (by intro m hm; cases hm)⟩
      | delay ha hb =>
        rename_i k a t site
        rw [eval_delay]
        obtain ⟨hCa, hCb⟩ : calls a ⊆ C ∧ calls t ⊆ C := by simpa [calls, List.append_subset] using hC
        refine Post.bind (ihE _ _ _ _ _ _ _ _ _ ha henv hσ hg hCa hA hst) ?_
        intro v σ' st' Ψ' hext hv hσ' hst'
        cases hv
        refine Post.bind (ihE _ _ _ _ _ _ _ _ _ hb (henv.mono hext) hσ' (hg.trans hext) hCb hA hst') ?_
        intro v σ'' st'' Ψ'' hext' hv hσ'' hst''
        cases hv
        exact Good.ok ⟨Ψ'', List.prefix_refl _, .num _, hσ'', hst''.setCell _ _ (by intro m hm; cases hm)⟩
      | now => rw [eval_now]; exact Good.ok ⟨Ψ, List.prefix_refl _, .num _, hσ, hst⟩
      | samplerate => rw [eval_sr]; exact Good.ok ⟨Ψ, List.prefix_refl _, .num _, hσ, hst⟩
      | assign hx ha hr =>
        rename_i x a rest τx
        rw [eval_assign]
        obtain ⟨hCa, hCr⟩ : calls a ⊆ C ∧ calls rest ⊆ C := by simpa [calls, List.append_subset] using hC
        refine Post.bind (ihE _ _ _ _ _ _ _ _ _ ha henv hσ hg hCa hA hst) ?_
        intro v σ' st' Ψ' hext hv hσ' hst'
        obtain ⟨l, hl, hΨ⟩ := henv _ _ hx
        simp only [hl]
        exact ihE _ _ _ _ _ _ _ _ _ hr (henv.mono hext) (hσ'.set (getElem?_of_prefix hext hΨ) hv) (hg.trans hext) hCr hA hst'
    · intro es Γ ρ τs env σ st Ψ C hty henv hσ hg hC hA hst
      cases hty with
      | nil => rw [evalList_nil]; exact Good.ok ⟨Ψ, List.prefix_refl _, .nil, hσ, hst⟩
      | cons he hes =>
        rename_i e es τ τs'
        rw [evalList_cons]
        obtain ⟨hCa, hCb⟩ : calls e ⊆ C ∧ callsL es ⊆ C := by simpa [callsL, List.append_subset] using hC
        refine Post.bind (ihE _ _ _ _ _ _ _ _ _ he henv hσ hg hCa hA hst) ?_
        intro v σ' st' Ψ' hext hv hσ' hst'
        refine Post.bind (ihL _ _ _ _ _ _ _ _ _ hes (henv.mono hext) hσ' (hg.trans hext) hCb hA hst') ?_
        intro vs σ'' st'' Ψ'' hext' hvs hσ'' hst''
        exact Good.ok ⟨Ψ'', List.prefix_refl _, .cons (hv.mono hext') hvs, hσ'', hst''⟩

end Mimium.Core
