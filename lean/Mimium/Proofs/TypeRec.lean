import Mimium.Model.TypeRec
import Mimium.Proofs.OccursBound
/-! `substitute_type` and `resolve_type_alias` return on acyclic pointer graphs (explicit fuel bound) and never on the cyclic
witnesses. `resolve_type_alias` is the same recursion as `substitute_type` on the store `alias key ↦ target`. -/
namespace Mimium.TypeRec
open Mimium.Occurs

/-! ## `substitute_type` -/

/-- LOCALITY: `subst` only reads the parents of variables reachable from the type -/
theorem subst_congr (σ σ' : Store) : ∀ (fuel : Nat) (t : Ty),
    (∀ w ∈ vars t, ∀ u, RV σ w u → parent σ u = parent σ' u) → subst σ fuel t = subst σ' fuel t := by
  intro fuel
  induction fuel with
  | zero => intro t _; simp [subst]
  | succ f ih =>
    intro t h
    cases t with
    | other => simp [subst]
    | var w =>
      have hw : parent σ w = parent σ' w := h w (by simp [vars]) w (.refl w)
      simp only [subst]
      rw [← hw]
      cases hp : parent σ w with
      | none => rfl
      | some p =>
        simp only
        rw [ih p (fun w' hw' u hu => h w (by simp [vars]) u (.step hp hw' hu))]
    | unary t =>
      simp only [subst]
      rw [ih t (fun w hw => h w (by simpa [vars] using hw))]
    | anyOf a b =>
      simp only [subst]
      rw [ih a (fun w hw => h w (by simp [vars, hw])), ih b (fun w hw => h w (by simp [vars, hw]))]
    | fn a r =>
      simp only [subst]
      rw [ih a (fun w hw => h w (by simp [vars, hw])), ih r (fun w hw => h w (by simp [vars, hw]))]

/-- EXPLICIT BOUND: on an acyclic store `substitute_type(t)` nests at most `size t + total σ` calls. -/
theorem subst_bound : ∀ (n : Nat) (σ : Store), σ.length = n → Acyclic σ →
    ∀ (t : Ty) (fuel : Nat), size t + total σ ≤ fuel → ∃ r, subst σ fuel t = some r := by
  intro n
  induction n using Nat.strongRecOn with
  | _ n ihn =>
    intro σ hlen hac t
    induction t with
    | other =>
      intro fuel hf
      cases fuel with
      | zero => simp [size] at hf
      | succ f => exact ⟨_, rfl⟩
    | var w =>
      intro fuel hf
      cases fuel with
      | zero => simp [size] at hf
      | succ f =>
        simp only [subst]
        cases hp : parent σ w with
        | none => exact ⟨_, rfl⟩
        | some p =>
          simp only
          have e : subst σ f p = subst (eraseVar w σ) f p := by
            apply subst_congr
            intro w' hw' u hu
            rw [parent_eraseVar]
            have hne : u ≠ w := by
              intro e
              subst e
              exact not_rv_of_acyclic hac hp hw' hu
            simp [hne]
          rw [e]
          have hlt := eraseVar_length_lt w σ p hp
          have htot := total_eraseVar w σ p hp
          simp only [size] at hf
          exact ihn _ (by omega) (eraseVar w σ) rfl (acyclic_eraseVar w σ hac) p f (by omega)
    | unary t iht =>
      intro fuel hf
      cases fuel with
      | zero => simp [size] at hf
      | succ f =>
        simp only [size] at hf
        obtain ⟨x, hx⟩ := iht f (by omega)
        exact ⟨.unary x, by simp only [subst, hx]⟩
    | anyOf a b iha ihb =>
      intro fuel hf
      cases fuel with
      | zero => simp [size] at hf
      | succ f =>
        simp only [size] at hf
        obtain ⟨xa, ha⟩ := iha f (by omega)
        obtain ⟨xb, hb⟩ := ihb f (by omega)
        exact ⟨.anyOf xa xb, by simp only [subst, ha, hb]⟩
    | fn a r iha ihr =>
      intro fuel hf
      cases fuel with
      | zero => simp [size] at hf
      | succ f =>
        simp only [size] at hf
        obtain ⟨xa, ha⟩ := iha f (by omega)
        obtain ⟨xr, hr⟩ := ihr f (by omega)
        exact ⟨.fn xa xr, by simp only [subst, ha, hr]⟩

theorem subst_total_bound (σ : Store) (h : Acyclic σ) (t : Ty) (fuel : Nat) (hf : size t + total σ ≤ fuel) :
    ∃ r, subst σ fuel t = some r :=
  subst_bound σ.length σ rfl h t fuel hf

/-- on the cyclic store `?0 := (?0) -> ?1` that the `&&` occurs check lets through, `substitute_type` never returns -/
theorem subst_diverges : ∀ fuel,
    subst cyclicStore fuel (.var 0) = none ∧ subst cyclicStore fuel (.fn (.var 0) (.var 1)) = none := by
  intro fuel
  induction fuel with
  | zero => simp [subst]
  | succ f ih =>
    refine ⟨?_, ?_⟩
    · simp only [subst, cyclicStore, parent, if_true]
      exact ih.2
    · simp only [subst]
      rw [ih.1]

/-- more generally: a variable that can be reached from its own parent makes `substitute_type` diverge on it -/
theorem subst_none_of_cycle (σ : Store) : ∀ (fuel : Nat) (t : Ty) (w v : Nat), w ∈ vars t → RV σ w v →
    (∀ p, parent σ v = some p → ∃ u ∈ vars p, RV σ u v) → parent σ v ≠ none → subst σ fuel t = none := by
  intro fuel
  induction fuel with
  | zero => intro t w v _ _ _ _; simp [subst]
  | succ f ih =>
    intro t w v hw hr hcyc hb
    cases t with
    | other => simp [vars] at hw
    | var x =>
      simp only [vars, List.mem_singleton] at hw
      subst hw
      simp only [subst]
      cases hr with
      | refl =>
        cases hp : parent σ w with
        | none => exact absurd hp hb
        | some p =>
          obtain ⟨u, hu, hru⟩ := hcyc p hp
          exact ih p u w hu hru hcyc hb
      | step h1 h2 h3 =>
        rw [h1]
        exact ih _ _ v h2 h3 hcyc hb
    | unary t =>
      simp only [subst]
      rw [ih t w v (by simpa [vars] using hw) hr hcyc hb]
    | anyOf a b =>
      simp only [subst]
      simp only [vars, List.mem_append] at hw
      rcases hw with hw | hw
      · rw [ih a w v hw hr hcyc hb]
      · rw [ih b w v hw hr hcyc hb]
        cases subst σ f a <;> rfl
    | fn a r =>
      simp only [subst]
      simp only [vars, List.mem_append] at hw
      rcases hw with hw | hw
      · rw [ih a w v hw hr hcyc hb]
      · rw [ih r w v hw hr hcyc hb]
        cases subst σ f a <;> rfl

/-! ## `resolve_type_alias` is `substitute_type` on the alias graph -/

/-- an alias type as a type over variables: the alias `n` becomes the variable of the KEY it is looked up under -/
def tr (fb : Nat → Nat) : ATy → Ty
  | .leaf => .other
  | .alias n => .var (fb n)
  | .unary t => .unary (tr fb t)
  | .pair a b => .anyOf (tr fb a) (tr fb b)

def trEnv (fb : Nat → Nat) : AEnv → Store
  | [] => []
  | (k, t) :: rest => (k, tr fb t) :: trEnv fb rest

theorem parent_trEnv (fb : Nat → Nat) (env : AEnv) (k : Nat) :
    parent (trEnv fb env) k = (lookup env k).map (tr fb) := by
  induction env with
  | nil => simp [trEnv, parent, lookup]
  | cons e rest ih =>
    obtain ⟨n, t⟩ := e
    simp only [trEnv, parent, lookup]
    split
    · rfl
    · exact ih

theorem vars_tr (fb : Nat → Nat) (t : ATy) : vars (tr fb t) = (aliasesOf t).map fb := by
  induction t with
  | leaf => simp [tr, vars, aliasesOf]
  | alias n => simp [tr, vars, aliasesOf]
  | unary t ih => simpa [tr, vars, aliasesOf] using ih
  | pair a b iha ihb => simp [tr, vars, aliasesOf, iha, ihb]

theorem size_tr (fb : Nat → Nat) (t : ATy) : size (tr fb t) = t.size := by
  induction t with
  | leaf => simp [tr, size, ATy.size]
  | alias n => simp [tr, size, ATy.size]
  | unary t ih => simp [tr, size, ATy.size, ih]
  | pair a b iha ihb => simp [tr, size, ATy.size, iha, ihb]

theorem total_trEnv (fb : Nat → Nat) (env : AEnv) : total (trEnv fb env) = atotal env := by
  induction env with
  | nil => simp [trEnv, total, atotal]
  | cons e rest ih =>
    obtain ⟨n, t⟩ := e
    simp [trEnv, total, atotal, ih, size_tr]

theorem acyclic_trEnv (fb : Nat → Nat) (env : AEnv) : AcyclicA fb env ↔ Acyclic (trEnv fb env) := by
  constructor
  · rintro ⟨rk, h⟩
    refine ⟨rk, ?_⟩
    intro v t hp w hw
    rw [parent_trEnv] at hp
    cases hl : lookup env v with
    | none => simp [hl] at hp
    | some a =>
      simp only [hl, Option.map_some, Option.some.injEq] at hp
      subst hp
      rw [vars_tr] at hw
      obtain ⟨n, hn, rfl⟩ := List.mem_map.mp hw
      exact h v a hl n hn
  · rintro ⟨rk, h⟩
    refine ⟨rk, ?_⟩
    intro k t hl n hn
    refine h k (tr fb t) (by rw [parent_trEnv, hl]; rfl) (fb n) ?_
    rw [vars_tr]
    exact List.mem_map.mpr ⟨n, hn, rfl⟩

/-- same call tree: `resolve_type_alias` runs out of fuel exactly when `substitute_type` does on the translated store -/
theorem resolve_none_iff (fb : Nat → Nat) (env : AEnv) : ∀ (fuel : Nat) (t : ATy),
    resolve fb env fuel t = none ↔ subst (trEnv fb env) fuel (tr fb t) = none := by
  intro fuel
  induction fuel with
  | zero => intro t; simp [resolve, subst]
  | succ f ih =>
    intro t
    cases t with
    | leaf => simp [resolve, subst, tr]
    | alias n =>
      simp only [resolve, subst, tr, parent_trEnv]
      cases hl : lookup env (fb n) with
      | none => simp
      | some a => simpa using ih a
    | unary t =>
      simp only [resolve, subst, tr]
      have := ih t
      cases h1 : resolve fb env f t <;> cases h2 : subst (trEnv fb env) f (tr fb t) <;> simp_all
    | pair a b =>
      simp only [resolve, subst, tr]
      have ha := ih a
      have hb := ih b
      cases h1 : resolve fb env f a <;> cases h2 : subst (trEnv fb env) f (tr fb a) <;>
        cases h3 : resolve fb env f b <;> cases h4 : subst (trEnv fb env) f (tr fb b) <;> simp_all

/-- EXPLICIT BOUND: if the alias graph (through the name fallback) has no cycle, `resolve_type_alias(t)` nests at most
`t.size + atotal env` calls. -/
theorem resolve_total_bound (fb : Nat → Nat) (env : AEnv) (h : AcyclicA fb env) (t : ATy) (fuel : Nat)
    (hf : t.size + atotal env ≤ fuel) : ∃ r, resolve fb env fuel t = some r := by
  have hs := subst_total_bound (trEnv fb env) ((acyclic_trEnv fb env).mp h) (tr fb t) fuel
    (by rw [size_tr, total_trEnv]; exact hf)
  cases hr : resolve fb env fuel t with
  | some r => exact ⟨r, rfl⟩
  | none =>
    obtain ⟨r, hr'⟩ := hs
    rw [(resolve_none_iff fb env fuel t).mp hr] at hr'
    cases hr'

/-- `type alias A = A` (key 0): resolving any use of `A` never returns -/
theorem resolve_diverges_self (fuel : Nat) : resolve id [(0, .alias 0)] fuel (.alias 0) = none := by
  induction fuel with
  | zero => rfl
  | succ f ih => simpa [resolve, lookup] using ih

/-- `mod m { type alias A = A }`: the key is the mangled `m$A` (10), the target names `A` (0), and the fallback maps `A` to
the only key ending in `$A`: resolving `A` never returns -/
theorem resolve_diverges_mangled (fuel : Nat) :
    resolve (fun n => if n = 0 then 10 else n) [(10, .alias 0)] fuel (.alias 0) = none := by
  induction fuel with
  | zero => rfl
  | succ f ih => simpa [resolve, lookup] using ih

end Mimium.TypeRec
