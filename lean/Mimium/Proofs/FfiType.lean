import Mimium.Model.FfiType
import Mimium.Proofs.Ffi
/-! Round trip of the `Type` codec. -/
namespace Mimium.Ffi
open Mimium.Gen.Ffi

theorem readSeqBody_enc {α} (enc : α → Bytes) (rd : Bytes → Option (α × Bytes)) (nrm : α → α)
    (h : ∀ x rest, rd (enc x ++ rest) = some (nrm x, rest)) (xs : List α) (rest : Bytes) :
    readSeqBody rd xs.length (encSeqBody enc xs ++ rest) = some (xs.map nrm, rest) := by
  induction xs with
  | nil => simp [readSeqBody, encSeqBody]
  | cons x xs ih => simp [readSeqBody, encSeqBody, List.append_assoc, h, ih]

theorem readSeq_enc {α} (enc : α → Bytes) (rd : Bytes → Option (α × Bytes)) (nrm : α → α)
    (h : ∀ x rest, rd (enc x ++ rest) = some (nrm x, rest)) (xs : List α) (rest : Bytes) (hl : LenOk xs.length) :
    readSeq rd (encSeq enc xs ++ rest) = some (xs.map nrm, rest) := by
  unfold readSeq encSeq
  rw [List.append_assoc, readLen_encLen _ _ hl]
  exact readSeqBody_enc enc rd nrm h xs rest

theorem readBool_enc (b : Bool) (rest : Bytes) : readBool (encBool b ++ rest) = some (b, rest) := by
  cases b <;> simp [readBool, encBool]

theorem readOptKey_enc (k : Option Key) (rest : Bytes) :
    readOptKey (encOptKey k ++ rest) = some (k.map Key.norm, rest) := by
  cases k with
  | none => simp [readOptKey, encOptKey]
  | some k => simp [readOptKey, encOptKey, readKey_encKey]

theorem readField_enc (f : RecordTypeField) (rest : Bytes) : readField (encField f ++ rest) = some (f.norm, rest) := by
  simp [readField, encField, List.append_assoc, readU64_encU64, readKey_encKey, readBool_enc, RecordTypeField.norm]

theorem readVariant_enc (v : UInt64 × Option Key) (rest : Bytes) :
    readVariant (encVariant v ++ rest) = some (normVariant v, rest) := by
  simp [readVariant, encVariant, List.append_assoc, readU64_encU64, readOptKey_enc, normVariant]

theorem readPType_enc (p : PTypeCtor) (rest : Bytes) : readPType (encU32 p.tag ++ rest) = some (p, rest) := by
  simp [readPType, readU32_encU32, PTypeCtor.ofTag_tag]

theorem TyCtor.ofTag_serTag (c : TyCtor) (t : UInt32) (h : c.serTag = some t) : TyCtor.ofTag t = some c := by
  cases c <;> simp [TyCtor.serTag] at h <;> subst h <;> rfl

theorem decodeTy_encodeTy (t : Ty) (bs rest : Bytes) (hr : t.Rep) (h : encodeTy t = some bs) :
    decodeTy (bs ++ rest) = some (t.norm, rest) := by
  unfold encodeTy at h
  split at h
  · simp at h
  · rename_i tag htag
    cases h
    have hc := TyCtor.ofTag_serTag _ _ htag
    unfold decodeTy
    rw [List.append_assoc, readU32_encU32]
    simp only [hc]
    cases t with
    | primitive p => simp [Ty.ctor, Ty.payload, readPType_enc, Ty.norm]
    | array k => simp [Ty.ctor, Ty.payload, readKey_encKey, Ty.norm]
    | tuple ts =>
      simp only [Ty.Rep] at hr
      simp [Ty.ctor, Ty.payload, readSeq_enc encKey readKey Key.norm readKey_encKey ts rest hr, Ty.norm]
    | record fs =>
      simp only [Ty.Rep] at hr
      simp [Ty.ctor, Ty.payload, readSeq_enc encField readField _ readField_enc fs rest hr, Ty.norm]
    | function a r => simp [Ty.ctor, Ty.payload, List.append_assoc, readKey_encKey, Ty.norm]
    | ref k => simp [Ty.ctor, Ty.payload, readKey_encKey, Ty.norm]
    | code k => simp [Ty.ctor, Ty.payload, readKey_encKey, Ty.norm]
    | union ts =>
      simp only [Ty.Rep] at hr
      simp [Ty.ctor, Ty.payload, readSeq_enc encKey readKey Key.norm readKey_encKey ts rest hr, Ty.norm]
    | userSum n vs =>
      simp only [Ty.Rep] at hr
      simp [Ty.ctor, Ty.payload, List.append_assoc, readU64_encU64,
        readSeq_enc encVariant readVariant _ readVariant_enc vs rest hr, Ty.norm]
    | boxed k => simp [Ty.ctor, Ty.payload, readKey_encKey, Ty.norm]
    | intermediate => simp [Ty.ctor, TyCtor.serTag] at htag
    | typeScheme _ => simp [Ty.ctor, TyCtor.serTag] at htag
    | typeAlias s => simp [Ty.ctor, Ty.payload, readU64_encU64, Ty.norm]
    | any => simp [Ty.ctor, Ty.payload, Ty.norm]
    | failure => simp [Ty.ctor, Ty.payload, Ty.norm]
    | unknown => simp [Ty.ctor, Ty.payload, Ty.norm]

theorem encodeTy_none_iff (t : Ty) : encodeTy t = none ↔ (t = .intermediate ∨ ∃ id, t = .typeScheme id) := by
  unfold encodeTy
  cases t <;> simp [Ty.ctor, TyCtor.serTag]

end Mimium.Ffi
