import Mimium.Model.SchedMem
/-!
# The literal port of `std::collections::BinaryHeap<Reverse<Task>>` is a binary min-heap on `when` (C11)

`Model/SchedMem.lean` ports `push` (`sift_up(0, old_len)`) and `pop` (`swap_remove`-style: take the last element, put it
at the root, `sift_down_to_bottom(0)` = walk the hole down to a leaf always following the smaller child — the right one
on a tie — then `sift_up(0, pos)`). The order is `Reverse<Task>` with `Ord for Task` comparing `when` only, so the
array is a MIN-heap on `when`: `IsHeap d` = every element's `when` is ≥ its parent's (`parent i = (i-1)/2`).

This file: element access through `swapIfInBounds`, the two "heap with one defect" invariants
(`Hole` for the walk down, `Up` for the walk up), and the single-step lemmas. `HeapStdOps.lean` assembles them into
`stdPush` / `stdPop` facts.
-/
namespace Mimium.Sched

/-- the key (`when`) stored at index `i` (default task = key 0 when out of bounds, as `d[i]!` does) -/
def keyAt (d : Array Task) (i : Nat) : Nat := d[i]!.when

/-- the array is a binary min-heap on `when` (what `BinaryHeap<Reverse<Task>>` maintains) -/
def IsHeap (d : Array Task) : Prop := ∀ i, 0 < i → i < d.size → keyAt d ((i - 1) / 2) ≤ keyAt d i

theorem rle_get (d : Array Task) (i j : Nat) : rle d[i]! d[j]! = decide (keyAt d j ≤ keyAt d i) := rfl

theorem getElem!_swapIfInBounds (d : Array Task) {i j : Nat} (hi : i < d.size) (hj : j < d.size) (k : Nat) :
    (d.swapIfInBounds i j)[k]! = if k = i then d[j]! else if k = j then d[i]! else d[k]! := by
  by_cases hk : k < d.size
  · have hk' : k < (d.swapIfInBounds i j).size := by rw [Array.size_swapIfInBounds]; exact hk
    rw [getElem!_pos _ k hk']
    simp only [Array.swapIfInBounds, hi, hj, dite_true]
    rw [Array.getElem_swap]
    split
    · rw [getElem!_pos _ j hj]
    · split
      · rw [getElem!_pos _ i hi]
      · rw [getElem!_pos _ k hk]
  · have hk' : ¬ k < (d.swapIfInBounds i j).size := by rw [Array.size_swapIfInBounds]; exact hk
    have h1 : k ≠ i := by omega
    have h2 : k ≠ j := by omega
    simp only [h1, h2, if_false]
    rw [getElem!_neg _ k hk', getElem!_neg _ k hk]

theorem keyAt_swap (d : Array Task) {i j : Nat} (hi : i < d.size) (hj : j < d.size) (k : Nat) :
    keyAt (d.swapIfInBounds i j) k = if k = i then keyAt d j else if k = j then keyAt d i else keyAt d k := by
  unfold keyAt
  rw [getElem!_swapIfInBounds d hi hj k]
  split
  · rfl
  · split <;> rfl

theorem swapIfInBounds_perm (d : Array Task) (i j : Nat) : (d.swapIfInBounds i j).toList.Perm d.toList := by
  unfold Array.swapIfInBounds
  split
  · split
    · exact Array.perm_iff_toList_perm.1 (Array.swap_perm _ _)
    · exact List.Perm.refl _
  · exact List.Perm.refl _

/-! ## heaps with one defect -/

/-- `d` is a heap except for the element at `p`: nothing is known about the edges above and below `p`, but the
children of `p` are not smaller than the parent of `p` (so a child may be lifted into `p`). Invariant of the loop of
`sift_down_to_bottom`. -/
structure Hole (d : Array Task) (p : Nat) : Prop where
  edge : ∀ i, 0 < i → i < d.size → i ≠ p → (i - 1) / 2 ≠ p → keyAt d ((i - 1) / 2) ≤ keyAt d i
  grand : ∀ i, 0 < i → i < d.size → (i - 1) / 2 = p → 0 < p → keyAt d ((p - 1) / 2) ≤ keyAt d i

/-- `d` is a heap except that the element at `p` may be smaller than its parent. Invariant of `sift_up`. -/
structure Up (d : Array Task) (p : Nat) : Prop where
  edge : ∀ i, 0 < i → i < d.size → i ≠ p → keyAt d ((i - 1) / 2) ≤ keyAt d i
  grand : ∀ i, 0 < i → i < d.size → (i - 1) / 2 = p → 0 < p → keyAt d ((p - 1) / 2) ≤ keyAt d i

theorem IsHeap.hole {d : Array Task} (h : IsHeap d) (p : Nat) : Hole d p where
  edge := fun i h0 hi _ _ => h i h0 hi
  grand := fun i h0 hi hp hp0 => by
    have h1 := h i h0 hi
    have h2 := h p hp0 (by omega)
    rw [hp] at h1
    omega

theorem Hole.up_of_leaf {d : Array Task} {p : Nat} (h : Hole d p) (hl : d.size ≤ 2 * p + 1) : Up d p where
  edge := fun i h0 hi hne => h.edge i h0 hi hne (by omega)
  grand := h.grand

theorem Up.isHeap_of_le {d : Array Task} {p : Nat} (h : Up d p) (hp : 0 < p → keyAt d ((p - 1) / 2) ≤ keyAt d p) :
    IsHeap d := by
  intro i h0 hi
  by_cases hne : i = p
  · subst hne; exact hp h0
  · exact h.edge i h0 hi hne

/-- one step of the walk down: the smallest child `c` of `p` is swapped into `p` -/
theorem Hole.step {d : Array Task} {p c : Nat} (h : Hole d p) (hc0 : 0 < c) (hc : c < d.size) (hpc : (c - 1) / 2 = p)
    (hmin : ∀ j, 0 < j → j < d.size → (j - 1) / 2 = p → keyAt d c ≤ keyAt d j) :
    Hole (d.swapIfInBounds p c) c := by
  have hp : p < d.size := by omega
  constructor
  · intro i h0 hi hne hpar
    rw [Array.size_swapIfInBounds] at hi
    rw [keyAt_swap d hp hc, keyAt_swap d hp hc]
    by_cases hip : i = p
    · -- the edge above `p`: new `d[p]` is the old child
      subst hip
      have hpp : (i - 1) / 2 ≠ i := by omega
      simp only [hpp, hpar, if_false, if_true]
      exact h.grand c hc0 hc hpc h0
    · by_cases hpi : (i - 1) / 2 = p
      · -- sibling of `c`
        simp only [hpi, hip, hne, if_true, if_false]
        exact hmin i h0 hi hpi
      · simp only [hpi, hpar, hip, hne, if_false]
        exact h.edge i h0 hi hip hpi
  · intro i h0 hi hpar hc0'
    rw [Array.size_swapIfInBounds] at hi
    rw [keyAt_swap d hp hc, keyAt_swap d hp hc]
    have h1 : i ≠ p := by omega
    have h2 : i ≠ c := by omega
    simp only [hpc, h1, h2, if_true, if_false]
    have := h.edge i h0 hi h1 (by omega)
    rw [hpar] at this
    exact this

/-- one step of the walk up: `d[p]` is smaller than its parent and is swapped with it -/
theorem Up.step {d : Array Task} {p : Nat} (h : Up d p) (hp0 : 0 < p) (hp : p < d.size)
    (hlt : keyAt d p < keyAt d ((p - 1) / 2)) :
    Up (d.swapIfInBounds p ((p - 1) / 2)) ((p - 1) / 2) := by
  have hq : (p - 1) / 2 < d.size := by omega
  have hqp : (p - 1) / 2 ≠ p := by omega
  constructor
  · intro i h0 hi hne
    rw [Array.size_swapIfInBounds] at hi
    rw [keyAt_swap d hp hq, keyAt_swap d hp hq]
    by_cases hip : i = p
    · subst hip
      have hpp : (i - 1) / 2 ≠ i := by omega
      simp only [hpp, if_true, if_false]
      omega
    · by_cases hpi : (i - 1) / 2 = p
      · -- child of `p`: now below the old parent of `p`
        simp only [hpi, hip, hne, if_true, if_false]
        exact h.grand i h0 hi hpi hp0
      · by_cases hpq : (i - 1) / 2 = (p - 1) / 2
        · -- sibling of `p`
          simp only [hpq, hqp, hip, hne, if_true, if_false]
          have := h.edge i h0 hi hip
          rw [hpq] at this
          omega
        · simp only [hpi, hpq, hip, hne, if_false]
          exact h.edge i h0 hi hip
  · intro i h0 hi hpar hq0
    rw [Array.size_swapIfInBounds] at hi
    rw [keyAt_swap d hp hq, keyAt_swap d hp hq]
    have hgp : ((p - 1) / 2 - 1) / 2 ≠ p := by omega
    have hgq : ((p - 1) / 2 - 1) / 2 ≠ (p - 1) / 2 := by omega
    have hiq : i ≠ (p - 1) / 2 := by omega
    have hq := h.edge ((p - 1) / 2) hq0 (by omega) (by omega)
    simp only [hgp, hgq, hiq, if_false]
    by_cases hip : i = p
    · simp only [hip, if_true]
      exact hq
    · simp only [hip, if_false]
      have := h.edge i h0 hi hip
      rw [hpar] at this
      omega

end Mimium.Sched
