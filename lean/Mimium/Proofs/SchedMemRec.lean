import Mimium.Proofs.SchedMem
/-!
# The WASM memory model with record layout (`R.run`): one-cell instance, and the class on which it is ideal (C11)

* `R.run_unitFmt`: with every record the single cell `[id]` the model is `M.run` (definitional unfolding, by induction).
* `RecFmt.Ok`: the trampoline, finding the cells of closure `id` intact, runs `id`.
* `R.run_spec`: for slot-consistent programs (`Env.SlotConsistent`: the `j`-th `@` of every body names the same closure,
  hence the same record size and the same addresses `G + off j`) over any heap meeting `HeapSpecI`, the run is `Ideal`:
  every record in the per-sample region is only ever overwritten with its own cells.
-/
namespace Mimium.Sched

/-! ## one-cell records: `R` is `M` -/

theorem allocRecs_unitFmt : ∀ (rq : List Task) (a : Nat) (m : Mem), allocRecs unitFmt a rq m = allocReqs a rq m
  | [], _, _ => rfl
  | x :: xs, a, m => by
    simp only [allocRecs, allocReqs, unitFmt, List.length_cons, List.length_nil, writeCells]
    have := allocRecs_unitFmt xs (a + 1) (memSet m a x.id)
    simp only [unitFmt] at this
    rw [show a + (0 + 1) = a + 1 by omega, this]

theorem recsSize_unitFmt : ∀ (rq : List Task), recsSize unitFmt rq = rq.length
  | [] => rfl
  | x :: xs => by
    show (unitFmt.cells x.id).length + recsSize unitFmt xs = xs.length + 1
    rw [recsSize_unitFmt xs]
    simp [unitFmt]; omega

theorem R.execAll_unitFmt {σ H : Type} (ops : HeapOps H) (env : Env σ) (now base : Nat) :
    ∀ (xs : List Task) (h : H) (u : σ) (m : Mem),
      R.execAll unitFmt ops env now base xs h u m = M.execAll ops env now base xs h u m
  | [], _, _, _ => rfl
  | x :: xs, h, u, m => by
    have hd : unitFmt.decode (fun k => memGet m (x.id + k)) = some (memGet m x.id) := by simp [unitFmt]
    simp only [R.execAll, M.execAll, hd, allocRecs_unitFmt]
    split
    · rfl
    · rw [R.execAll_unitFmt ops env now base xs]

theorem R.tick_unitFmt {σ H : Type} (ops : HeapOps H) (env : Env σ) (t : Nat) (st : MSt σ H) :
    R.tick unitFmt ops env t st = M.tick ops env t st := by
  simp only [R.tick, M.tick, R.execAll_unitFmt, allocRecs_unitFmt]

/-- with one-cell records the model with record layout is the model of `Model/SchedMem.lean` -/
theorem R.run_unitFmt {σ H : Type} (ops : HeapOps H) (env : Env σ) (n : Nat) (s0 : σ) :
    R.run unitFmt ops env n s0 = M.run ops env n s0 := by
  have ht : R.tick unitFmt ops env = M.tick ops env := by funext t st; exact R.tick_unitFmt ops env t st
  simp only [R.run, M.run, allocRecs_unitFmt, recsSize_unitFmt, ht]

/-! ## memory -/

theorem writeCells_other : ∀ (cs : List Nat) (m : Mem) (a b : Nat), (b < a ∨ a + cs.length ≤ b) →
    memGet (writeCells m a cs) b = memGet m b
  | [], _, _, _, _ => rfl
  | c :: cs, m, a, b, h => by
    simp only [List.length_cons] at h
    simp only [writeCells]
    rw [writeCells_other cs _ (a + 1) b (by omega), memGet_memSet_other _ _ _ _ (by omega)]

/-- the cells `cs` are stored from address `a` on -/
def CellsAt (m : Mem) (a : Nat) (cs : List Nat) : Prop := ∀ (k : Nat) (hk : k < cs.length), memGet m (a + k) = cs[k]

theorem writeCells_at : ∀ (cs : List Nat) (m : Mem) (a : Nat), CellsAt (writeCells m a cs) a cs
  | [], _, _ => fun k hk => by simp at hk
  | c :: cs, m, a => by
    intro k hk
    simp only [writeCells]
    cases k with
    | zero =>
      rw [writeCells_other cs _ (a + 1) (a + 0) (Or.inl (by omega))]
      simp [memGet_memSet_same]
    | succ k =>
      have := writeCells_at cs (memSet m a c) (a + 1) k (by simpa using hk)
      rw [show a + (k + 1) = a + 1 + k by omega]
      simpa using this

theorem CellsAt.congr {m m' : Mem} {a : Nat} {cs : List Nat} (h : CellsAt m a cs)
    (e : ∀ k, k < cs.length → memGet m' (a + k) = memGet m (a + k)) : CellsAt m' a cs :=
  fun k hk => by rw [e k hk]; exact h k hk

/-! ## `allocRecs` -/

theorem recsSize_append (fmt : RecFmt) : ∀ (xs ys : List Task), recsSize fmt (xs ++ ys) = recsSize fmt xs + recsSize fmt ys
  | [], _ => by simp [recsSize]
  | x :: xs, ys => by simp [recsSize, recsSize_append fmt xs ys]; omega

theorem recsSize_take_succ (fmt : RecFmt) (rq : List Task) (j : Nat) (hj : j < rq.length) :
    recsSize fmt (rq.take (j + 1)) = recsSize fmt (rq.take j) + (fmt.cells rq[j].id).length := by
  rw [List.take_succ_eq_append_getElem hj, recsSize_append]
  simp [recsSize]

theorem recsSize_take_le (fmt : RecFmt) (rq : List Task) (j : Nat) : recsSize fmt (rq.take j) ≤ recsSize fmt rq := by
  have := recsSize_append fmt (rq.take j) (rq.drop j)
  rw [List.take_append_drop] at this
  omega

theorem allocRecs_length (fmt : RecFmt) : ∀ (rq : List Task) (a : Nat) (m : Mem),
    (allocRecs fmt a rq m).1.length = rq.length
  | [], _, _ => rfl
  | x :: xs, a, m => by simp [allocRecs, allocRecs_length fmt xs]

theorem allocRecs_outside (fmt : RecFmt) : ∀ (rq : List Task) (a : Nat) (m : Mem) (b : Nat),
    (b < a ∨ a + recsSize fmt rq ≤ b) → memGet (allocRecs fmt a rq m).2 b = memGet m b
  | [], _, _, _, _ => rfl
  | x :: xs, a, m, b, h => by
    simp only [recsSize] at h
    simp only [allocRecs]
    rw [allocRecs_outside fmt xs _ _ b (by omega), writeCells_other _ _ _ _ (by omega)]

theorem allocRecs_get (fmt : RecFmt) : ∀ (rq : List Task) (a : Nat) (m : Mem) (j : Nat)
    (hj : j < (allocRecs fmt a rq m).1.length),
    (allocRecs fmt a rq m).1[j] =
      ⟨(rq[j]'(by rw [allocRecs_length] at hj; exact hj)).when, a + recsSize fmt (rq.take j)⟩
  | [], _, _, j, hj => by simp [allocRecs] at hj
  | x :: xs, a, m, j, hj => by
    cases j with
    | zero => simp [allocRecs, recsSize]
    | succ j =>
      have := allocRecs_get fmt xs (a + (fmt.cells x.id).length) (writeCells m a (fmt.cells x.id)) j
        (by simpa [allocRecs] using hj)
      simp only [allocRecs, List.getElem_cons_succ]
      rw [this]
      simp [recsSize]; omega

theorem allocRecs_cells (fmt : RecFmt) : ∀ (rq : List Task) (a : Nat) (m : Mem) (j : Nat) (hj : j < rq.length),
    CellsAt (allocRecs fmt a rq m).2 (a + recsSize fmt (rq.take j)) (fmt.cells rq[j].id)
  | [], _, _, j, hj => by simp at hj
  | x :: xs, a, m, j, hj => by
    cases j with
    | zero =>
      simp only [allocRecs, List.take_zero, recsSize, Nat.add_zero, List.getElem_cons_zero]
      refine (writeCells_at (fmt.cells x.id) m a).congr ?_
      intro k hk
      exact allocRecs_outside fmt xs _ _ _ (Or.inl (by omega))
    | succ j =>
      have := allocRecs_cells fmt xs (a + (fmt.cells x.id).length) (writeCells m a (fmt.cells x.id)) j
        (by simpa using hj)
      simp only [allocRecs, List.take_succ_cons, recsSize, List.getElem_cons_succ]
      rw [show a + ((fmt.cells x.id).length + recsSize fmt (xs.take j))
        = a + (fmt.cells x.id).length + recsSize fmt (xs.take j) by omega]
      exact this

theorem allocRecs_mem_range {fmt : RecFmt} {rq : List Task} {a : Nat} {m : Mem} {t : Task}
    (ht : t ∈ (allocRecs fmt a rq m).1) :
    ∃ j, ∃ hj : j < rq.length, t = ⟨rq[j].when, a + recsSize fmt (rq.take j)⟩ := by
  obtain ⟨j, hj, rfl⟩ := List.mem_iff_getElem.1 ht
  exact ⟨j, by rw [allocRecs_length] at hj; exact hj, allocRecs_get fmt rq a m j hj⟩

theorem allocRecs_future {fmt : RecFmt} {rq : List Task} {now : Nat} (hrq : ∀ x ∈ rq, now < x.when) (a : Nat) (m : Mem) :
    ∀ t ∈ (allocRecs fmt a rq m).1, now < t.when := by
  intro t ht
  obtain ⟨j, hj, rfl⟩ := allocRecs_mem_range ht
  exact hrq rq[j] (List.getElem_mem hj)

/-! ## well-formed layouts; what a pending task denotes -/

structure RecFmt.Ok (fmt : RecFmt) : Prop where
  decode : ∀ id (rd : Nat → Nat), (∀ (k : Nat) (hk : k < (fmt.cells id).length), rd k = (fmt.cells id)[k]) →
    fmt.decode rd = some id

/-- the closure the trampoline runs for task `x` in memory `m` (0 if it traps) -/
def resR (fmt : RecFmt) (m : Mem) (x : Task) : Task :=
  ⟨x.when, (fmt.decode (fun k => memGet m (x.id + k))).getD 0⟩

theorem resR_of_cells {fmt : RecFmt} (ok : fmt.Ok) {m : Mem} {x : Task} {id : Nat} (h : CellsAt m x.id (fmt.cells id)) :
    fmt.decode (fun k => memGet m (x.id + k)) = some id ∧ resR fmt m x = ⟨x.when, id⟩ := by
  have := ok.decode id (fun k => memGet m (x.id + k)) h
  exact ⟨this, by simp [resR, this]⟩

/-- The new tasks denote exactly the calls that were made (right after the body returns). -/
theorem allocRecs_res {fmt : RecFmt} (ok : fmt.Ok) (rq : List Task) (a : Nat) (m : Mem) :
    (allocRecs fmt a rq m).1.map (resR fmt (allocRecs fmt a rq m).2) = rq := by
  apply List.ext_getElem
  · simp [allocRecs_length]
  · intro j h1 h2
    simp only [List.getElem_map, allocRecs_get]
    exact (resR_of_cells ok (x := ⟨rq[j].when, a + recsSize fmt (rq.take j)⟩) (allocRecs_cells fmt rq a m j h2)).2

/-! ## slot consistency with record sizes -/

/-- offset of the record of slot `j` in the per-sample region -/
def slotOff (fmt : RecFmt) (slot : Nat → Nat) : Nat → Nat
  | 0 => 0
  | j + 1 => slotOff fmt slot j + (fmt.cells (slot j)).length

theorem slotOff_mono (fmt : RecFmt) (slot : Nat → Nat) {i j : Nat} (h : i ≤ j) : slotOff fmt slot i ≤ slotOff fmt slot j := by
  induction j with
  | zero => have : i = 0 := by omega
            subst this; exact Nat.le_refl _
  | succ j ih =>
    by_cases e : i = j + 1
    · subst e; exact Nat.le_refl _
    · have := ih (by omega)
      simp only [slotOff]; omega

theorem recsSize_take_slot {fmt : RecFmt} {slot : Nat → Nat} {rq : List Task}
    (hs : ∀ (j : Nat) (hj : j < rq.length), rq[j].id = slot j) :
    ∀ j, j ≤ rq.length → recsSize fmt (rq.take j) = slotOff fmt slot j
  | 0, _ => by simp [recsSize, slotOff]
  | j + 1, h => by
    rw [recsSize_take_succ fmt rq j (by omega), recsSize_take_slot hs j (by omega), hs j (by omega)]
    rfl

/-- the record `x` points to is intact: a record made by global scope (below `G`), or the record of a slot -/
def GoodR (fmt : RecFmt) (G : Nat) (slot : Nat → Nat) (m : Mem) (x : Task) : Prop :=
  ∃ id, CellsAt m x.id (fmt.cells id) ∧
    (x.id + (fmt.cells id).length ≤ G ∨ ∃ j, x.id = G + slotOff fmt slot j ∧ id = slot j)

/-- `m'` differs from `m` only in the per-sample region, and intact slot records stay intact -/
def MemExtR (fmt : RecFmt) (G : Nat) (slot : Nat → Nat) (m m' : Mem) : Prop :=
  (∀ a, a < G → memGet m' a = memGet m a) ∧
  (∀ j, CellsAt m (G + slotOff fmt slot j) (fmt.cells (slot j)) → CellsAt m' (G + slotOff fmt slot j) (fmt.cells (slot j)))

theorem MemExtR.refl (fmt : RecFmt) (G : Nat) (slot : Nat → Nat) (m : Mem) : MemExtR fmt G slot m m :=
  ⟨fun _ _ => rfl, fun _ h => h⟩

theorem MemExtR.trans {fmt : RecFmt} {G : Nat} {slot : Nat → Nat} {m1 m2 m3 : Mem}
    (a : MemExtR fmt G slot m1 m2) (b : MemExtR fmt G slot m2 m3) : MemExtR fmt G slot m1 m3 :=
  ⟨fun c h => by rw [b.1 c h, a.1 c h], fun j h => b.2 j (a.2 j h)⟩

theorem MemExtR.good {fmt : RecFmt} (ok : fmt.Ok) {G : Nat} {slot : Nat → Nat} {m m' : Mem}
    (e : MemExtR fmt G slot m m') {x : Task} (g : GoodR fmt G slot m x) :
    GoodR fmt G slot m' x ∧ resR fmt m' x = resR fmt m x := by
  obtain ⟨id, hc, hpos⟩ := g
  have hc' : CellsAt m' x.id (fmt.cells id) := by
    rcases hpos with hlow | ⟨j, hj, rfl⟩
    · exact hc.congr (fun k hk => e.1 _ (by omega))
    · rw [hj] at hc ⊢
      exact e.2 j hc
  exact ⟨⟨id, hc', hpos⟩, by rw [(resR_of_cells ok hc').2, (resR_of_cells ok hc).2]⟩

theorem allocRecs_ext {fmt : RecFmt} {G : Nat} {slot : Nat → Nat} (rq : List Task) (m : Mem)
    (hs : ∀ (j : Nat) (hj : j < rq.length), rq[j].id = slot j) :
    MemExtR fmt G slot m (allocRecs fmt G rq m).2 ∧
      ∀ t ∈ (allocRecs fmt G rq m).1, GoodR fmt G slot (allocRecs fmt G rq m).2 t := by
  have hoff := recsSize_take_slot (fmt := fmt) hs
  constructor
  · refine ⟨fun a h => allocRecs_outside fmt rq G m a (Or.inl h), ?_⟩
    intro j hc
    by_cases hj : j < rq.length
    · have := allocRecs_cells fmt rq G m j hj
      rw [hoff j (by omega), hs j hj] at this
      exact this
    · refine hc.congr (fun k _ => allocRecs_outside fmt rq G m _ (Or.inr ?_))
      have h1 := hoff rq.length (Nat.le_refl _)
      rw [List.take_length] at h1
      have h2 := slotOff_mono fmt slot (show rq.length ≤ j by omega)
      omega
  · intro t ht
    obtain ⟨j, hj, rfl⟩ := allocRecs_mem_range ht
    refine ⟨slot j, ?_, Or.inr ⟨j, by simp only; rw [hoff j (by omega)], rfl⟩⟩
    have := allocRecs_cells fmt rq G m j hj
    rw [hs j hj] at this
    exact this

/-! ## the model with record layout on slot-consistent programs -/

theorem resR_filter (fmt : RecFmt) (m : Mem) (p : Nat → Bool) (l : List Task) :
    (l.filter (fun x => p x.when)).map (resR fmt m) = (l.map (resR fmt m)).filter (fun x => p x.when) := by
  rw [List.filter_map]
  rfl

section rec
variable {σ H : Type} {ops : HeapOps H} {toList : H → List Task} {Inv : H → Prop} (hs : HeapSpecI ops toList Inv)
  {env : Env σ} (hf : env.Future) {slot : Nat → Nat} (hc : env.SlotConsistent slot) {fmt : RecFmt} (ok : fmt.Ok) (G : Nat)
include hs hf hc ok

theorem R.execAll_spec (now : Nat) : ∀ (xs : List Task) (h : H) (u : σ) (m : Mem),
    Inv h → (∀ x ∈ xs, GoodR fmt G slot m x) → (∀ x ∈ toList h, GoodR fmt G slot m x) →
    ∃ h' m', Inv h' ∧ R.execAll fmt ops env now G xs h u m =
        some (h', (execSeq env now (xs.map (resR fmt m)) u).1, m', xs.map (resR fmt m),
              (execSeq env now (xs.map (resR fmt m)) u).2) ∧
      MemExtR fmt G slot m m' ∧
      ((toList h').map (resR fmt m')).Perm ((toList h).map (resR fmt m) ++ (execSeq env now (xs.map (resR fmt m)) u).2) ∧
      ∀ x ∈ toList h', GoodR fmt G slot m' x
  | [], h, u, m, hi, _, gh =>
    ⟨h, m, hi, by simp [R.execAll, execSeq], MemExtR.refl _ _ _ _, by simp [execSeq], gh⟩
  | x :: xs, h, u, m, hi, gx, gh => by
    obtain ⟨id, hcx, _⟩ := gx x (List.mem_cons_self ..)
    obtain ⟨hdec, hres1⟩ := resR_of_cells ok hcx
    obtain ⟨ext, gnew⟩ := allocRecs_ext (fmt := fmt) (G := G) (slot := slot) (env.task id now u).2 m (hc.task _ _ _)
    have hres := allocRecs_res ok (env.task id now u).2 G m
    have hfut := allocRecs_future (fmt := fmt) (hf.task id now u) G m
    obtain ⟨h1, e1, p1, hi1⟩ := pushAllH_spec hs now _ h hi hfut
    have gxs : ∀ y ∈ xs, GoodR fmt G slot (allocRecs fmt G (env.task id now u).2 m).2 y :=
      fun y hy => (ext.good ok (gx y (List.mem_cons_of_mem _ hy))).1
    have gh1 : ∀ y ∈ toList h1, GoodR fmt G slot (allocRecs fmt G (env.task id now u).2 m).2 y := by
      intro y hy
      rcases List.mem_append.1 (p1.mem_iff.1 hy) with hy | hy
      · exact (ext.good ok (gh y hy)).1
      · exact gnew y hy
    obtain ⟨h', m', hi', e2, ext2, p2, g2⟩ := R.execAll_spec now xs h1 (env.task id now u).1 _ hi1 gxs gh1
    have hmap : xs.map (resR fmt (allocRecs fmt G (env.task id now u).2 m).2) = xs.map (resR fmt m) :=
      List.map_congr_left (fun y hy => (ext.good ok (gx y (List.mem_cons_of_mem _ hy))).2)
    rw [hmap] at e2 p2
    refine ⟨h', m', hi', ?_, ext.trans ext2, ?_, g2⟩
    · simp only [R.execAll, hdec, e1, e2, List.map_cons, execSeq, hres1]
    · refine p2.trans ?_
      simp only [List.map_cons, execSeq, hres1]
      rw [← List.append_assoc]
      refine List.Perm.append_right _ ?_
      refine (p1.map _).trans ?_
      rw [List.map_append, hres]
      refine List.Perm.append_right _ ?_
      rw [List.map_congr_left (fun y hy => (ext.good ok (gh y hy)).2)]

/-- **Invariant of the WASM side with record layout** at the start of sample `t` (slot-consistent programs). -/
structure MInvR (toList : H → List Task) (Inv : H → Prop) (fmt : RecFmt) (G : Nat) (slot : Nat → Nat) (t : Nat)
    (issued : List Task) (st : MSt σ H) : Prop where
  hinv : Inv st.heap
  cur : st.currentTime = t - 1
  ptr : st.allocPtr = G
  pending : ((toList st.heap).map (resR fmt st.mem)).Perm (issued.filter (fun x => decide (t ≤ x.when)))
  good : ∀ x ∈ toList st.heap, GoodR fmt G slot st.mem x

theorem R.tick_step (t : Nat) (issued : List Task) (st : MSt σ H) (inv : MInvR toList Inv fmt G slot t issued st) :
    ∃ st' r, R.tick fmt ops env t st = some (st', r) ∧ StepOk env t issued st.user r st'.user ∧
      MInvR toList Inv fmt G slot (t + 1) (issued ++ r.reqs) st' := by
  obtain ⟨d1, d2, d3⟩ := drainDueH_spec hs t (ops.size st.heap) st.heap inv.hinv
    (by rw [hs.size _ inv.hinv]; exact Nat.le_refl _)
  have etick : ∀ h' u m' ex rq, R.execAll fmt ops env t st.allocPtr (drainDueH ops t (ops.size st.heap) st.heap).1
        (drainDueH ops t (ops.size st.heap) st.heap).2 st.user st.mem = some (h', u, m', ex, rq) →
      ∀ h'', pushAllH ops t (allocRecs fmt st.allocPtr (env.dsp t u).2 m').1 h' = some h'' →
      R.tick fmt ops env t st = some
        ({ st with currentTime := t, heap := h'', user := (env.dsp t u).1,
                   mem := (allocRecs fmt st.allocPtr (env.dsp t u).2 m').2 },
         { execd := ex, reqs := rq ++ (env.dsp t u).2 }) := by
    intro h' u m' ex rq e h'' e2
    simp only [R.tick, e, e2]
  generalize drainDueH ops t (ops.size st.heap) st.heap = d at d1 d2 d3 etick
  rw [inv.ptr] at etick
  have gd1 : ∀ x ∈ d.1, GoodR fmt G slot st.mem x :=
    fun x hx => inv.good x (List.mem_filter.1 (d1.mem_iff.1 hx)).1
  have gd2 : ∀ x ∈ toList d.2, GoodR fmt G slot st.mem x :=
    fun x hx => inv.good x (List.mem_filter.1 (d2.mem_iff.1 hx)).1
  obtain ⟨h', m', hi', e, ext, hperm, gh'⟩ := R.execAll_spec hs hf hc ok G t d.1 d.2 st.user st.mem d3 gd1 gd2
  obtain ⟨ext2, gnew⟩ := allocRecs_ext (fmt := fmt) (G := G) (slot := slot)
    (env.dsp t (execSeq env t (d.1.map (resR fmt st.mem)) st.user).1).2 m' (hc.dsp _ _)
  have hres := allocRecs_res ok (env.dsp t (execSeq env t (d.1.map (resR fmt st.mem)) st.user).1).2 G m'
  have hfut := allocRecs_future (fmt := fmt) (hf.dsp t (execSeq env t (d.1.map (resR fmt st.mem)) st.user).1) G m'
  obtain ⟨h'', e2, p2, hi''⟩ := pushAllH_spec hs t _ h' hi' hfut
  have ok' : StepOk env t issued st.user
      { execd := d.1.map (resR fmt st.mem),
        reqs := (execSeq env t (d.1.map (resR fmt st.mem)) st.user).2 ++
          (env.dsp t (execSeq env t (d.1.map (resR fmt st.mem)) st.user).1).2 }
      (env.dsp t (execSeq env t (d.1.map (resR fmt st.mem)) st.user).1).1 := by
    refine ⟨?_, rfl, rfl⟩
    refine (d1.map _).trans ?_
    rw [resR_filter fmt st.mem (fun w => decide (w ≤ t)), ← filter_ge_le]
    exact inv.pending.filter _
  have hfutr : ∀ x ∈ (execSeq env t (d.1.map (resR fmt st.mem)) st.user).2 ++
      (env.dsp t (execSeq env t (d.1.map (resR fmt st.mem)) st.user).1).2, t < x.when := ok'.future hf
  refine ⟨_, _, etick _ _ _ _ _ e _ e2, ok', ?_⟩
  refine ⟨hi'', by simp, by simp, ?_, ?_⟩
  · simp only [List.filter_append]
    rw [← List.filter_append, filter_future_self hfutr]
    refine (p2.map _).trans ?_
    rw [List.map_append, hres, ← List.append_assoc]
    refine List.Perm.append_right _ ?_
    rw [List.map_congr_left (fun y hy => (ext2.good ok (gh' y hy)).2)]
    refine hperm.trans ?_
    refine List.Perm.append_right _ ?_
    refine (d2.map _).trans ?_
    rw [resR_filter fmt st.mem (fun w => decide (t < w)), ← filter_ge_lt]
    exact inv.pending.filter _
  · intro y hy
    rcases List.mem_append.1 (p2.mem_iff.1 hy) with hy | hy
    · exact (ext2.good ok (gh' y hy)).1
    · exact gnew y hy

omit G in
theorem R.run_spec (n : Nat) (s0 : σ) :
    ∃ st', (R.run fmt ops env n s0).final = some st' ∧ (R.run fmt ops env n s0).ticks.length = n ∧
      (R.run fmt ops env n s0).greqs = (env.global s0).2 ∧
      Ideal env 0 (env.global s0).2 (env.global s0).1 (R.run fmt ops env n s0).ticks := by
  have hfut := allocRecs_future (fmt := fmt) (hf.global s0) 0 []
  obtain ⟨h, e, p, hi⟩ := pushAllH_spec hs 0 _ ops.empty hs.emptyInv hfut
  have inv0 : MInvR toList Inv fmt (recsSize fmt (env.global s0).2) slot 0 (env.global s0).2
      { currentTime := 0, heap := h, user := (env.global s0).1, mem := (allocRecs fmt 0 (env.global s0).2 []).2,
        allocPtr := recsSize fmt (env.global s0).2 } := by
    refine ⟨hi, rfl, rfl, ?_, ?_⟩
    · have : (env.global s0).2.filter (fun x => decide (0 ≤ x.when)) = (env.global s0).2 := by
        rw [List.filter_eq_self]; intro x _; simp
      rw [this]
      refine (p.map _).trans ?_
      rw [hs.empty, List.nil_append, allocRecs_res ok]
    · intro x hx
      rw [hs.empty, List.nil_append] at p
      obtain ⟨j, hj, rfl⟩ := allocRecs_mem_range (p.mem_iff.1 hx)
      refine ⟨(env.global s0).2[j].id, ?_, Or.inl ?_⟩
      · exact allocRecs_cells fmt _ 0 [] j hj
      · have h1 := recsSize_take_succ fmt (env.global s0).2 j hj
        have h2 := recsSize_take_le fmt (env.global s0).2 (j + 1)
        simp only
        omega
  obtain ⟨st', e2, l2, idl, _⟩ := runFrom_spec (env := env) (tick := R.tick fmt ops env) (user := fun st => st.user)
    (Inv := MInvR toList Inv fmt (recsSize fmt (env.global s0).2) slot)
    (fun t issued st inv => R.tick_step hs hf hc ok _ t issued st inv) n 0 (env.global s0).2 _ inv0
  refine ⟨st', ?_, ?_, ?_, ?_⟩ <;> simp only [R.run, e] <;> assumption

end rec

end Mimium.Sched
