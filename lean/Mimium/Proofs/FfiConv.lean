import Mimium.Proofs.FfiRoundtrip
/-! C20 helper lemmas: fuel, key normalisation, macro-argument lists, `Value ↔ FfiValue`. -/
namespace Mimium.Ffi
open Mimium.Gen.Ffi

/-! ### `bs.length` is enough fuel -/

theorem encU32_length (x : UInt32) : (encU32 x).length = 4 := leBytes_length _ _
theorem encU64_length (x : UInt64) : (encU64 x).length = 8 := leBytes_length _ _
theorem encLen_length (n : Nat) : (encLen n).length = 8 := leBytes_length _ _

mutual
theorem need_le_length (v : FfiValue) : v.need + 3 ≤ (encode v).length := by
  cases v with
  | array vs => have := needList_le_length vs; simp [FfiValue.need, encode, encU32_length, encLen_length]; omega
  | tuple vs => have := needList_le_length vs; simp [FfiValue.need, encode, encU32_length, encLen_length]; omega
  | record fs => have := needFields_le_length fs; simp [FfiValue.need, encode, encU32_length, encLen_length]; omega
  | taggedUnion t v => have := need_le_length v; simp [FfiValue.need, encode, encU32_length, encU64_length]; omega
  | errorV => simp [FfiValue.need, encode, encU32_length]
  | unit => simp [FfiValue.need, encode, encU32_length]
  | number _ => simp [FfiValue.need, encode, encU32_length]
  | string _ => simp [FfiValue.need, encode, encU32_length]
  | code _ => simp [FfiValue.need, encode, encU32_length]
theorem needList_le_length (vs : List FfiValue) : needList vs ≤ (encodeList vs).length := by
  cases vs with
  | nil => simp [needList]
  | cons v vs =>
    have := need_le_length v; have := needList_le_length vs
    simp [needList, encodeList]; omega
theorem needFields_le_length (fs : List (String × FfiValue)) : needFields fs ≤ (encodeFields fs).length := by
  cases fs with
  | nil => simp [needFields]
  | cons kv fs =>
    obtain ⟨k, v⟩ := kv
    have := need_le_length v; have := needFields_le_length fs
    simp [needFields, encodeFields]; omega
end

theorem decodeBytes_encode (v : FfiValue) (rest : Bytes) (hr : v.Rep) :
    decodeBytes (encode v ++ rest) = some (v.norm, rest) := by
  unfold decodeBytes
  exact decode_encode v _ rest hr (by have := need_le_length v; simp; omega)

theorem decodeTop_encode (v : FfiValue) (rest : Bytes) (hr : v.Rep) :
    decodeTop (encode v ++ rest) = some v.norm := by
  unfold decodeTop
  rw [decodeBytes_encode v rest hr]
  rfl

/-! ### valid keys are untouched -/

mutual
theorem norm_of_keysValid (v : FfiValue) (h : v.KeysValid) : v.norm = v := by
  cases v with
  | array vs => simp only [FfiValue.KeysValid] at h; simp [FfiValue.norm, normList_of_keysValid vs h]
  | tuple vs => simp only [FfiValue.KeysValid] at h; simp [FfiValue.norm, normList_of_keysValid vs h]
  | record fs => simp only [FfiValue.KeysValid] at h; simp [FfiValue.norm, normFields_of_keysValid fs h]
  | taggedUnion t v => simp only [FfiValue.KeysValid] at h; simp [FfiValue.norm, norm_of_keysValid v h]
  | code e => simp only [FfiValue.KeysValid, Key.Valid] at h; simp [FfiValue.norm, h]
  | errorV => rfl
  | unit => rfl
  | number _ => rfl
  | string _ => rfl
theorem normList_of_keysValid (vs : List FfiValue) (h : KeysValidList vs) : normList vs = vs := by
  cases vs with
  | nil => rfl
  | cons v vs =>
    simp only [KeysValidList] at h
    simp [normList, norm_of_keysValid v h.1, normList_of_keysValid vs h.2]
theorem normFields_of_keysValid (fs : List (String × FfiValue)) (h : KeysValidFields fs) : normFields fs = fs := by
  cases fs with
  | nil => rfl
  | cons kv fs =>
    obtain ⟨k, v⟩ := kv
    simp only [KeysValidFields] at h
    simp [normFields, norm_of_keysValid v h.1, normFields_of_keysValid fs h.2]
end

theorem Key.norm_norm (k : Key) : k.norm.norm = k.norm := by
  obtain ⟨i, v⟩ := k
  simp only [Key.norm]
  split <;> simp [UInt32.or_assoc]

/-! ### macro-argument lists -/

def normArgs : List (FfiValue × Key) → List (FfiValue × Key)
  | [] => []
  | (v, t) :: as => (v.norm, t.norm) :: normArgs as

def RepArgs : List (FfiValue × Key) → Prop
  | [] => True
  | (v, _) :: as => v.Rep ∧ RepArgs as

def needArgs : List (FfiValue × Key) → Nat
  | [] => 0
  | (v, _) :: as => max v.need (needArgs as)

theorem decode_mono (v : FfiValue) (f g : Nat) (rest : Bytes) (hr : v.Rep) (hf : v.need ≤ f) (hg : f ≤ g) :
    decode g (encode v ++ rest) = decode f (encode v ++ rest) := by
  rw [decode_encode v f rest hr hf, decode_encode v g rest hr (by omega)]

theorem decodeArgsBody_encode (as : List (FfiValue × Key)) (f : Nat) (rest : Bytes) (hr : RepArgs as)
    (hf : needArgs as ≤ f) :
    decodeArgsBody f as.length (encodeArgsBody as ++ rest) = some (normArgs as, rest) := by
  induction as with
  | nil => simp [decodeArgsBody, encodeArgsBody, normArgs]
  | cons a as ih =>
    obtain ⟨v, t⟩ := a
    simp only [RepArgs] at hr
    simp only [needArgs] at hf
    have h1 := decode_encode v f (encKey t ++ (encodeArgsBody as ++ rest)) hr.1 (by omega)
    have h2 := ih hr.2 (by omega)
    simp [decodeArgsBody, encodeArgsBody, List.append_assoc, h1, readKey_encKey, h2, normArgs]

theorem needArgs_le_length (as : List (FfiValue × Key)) : needArgs as ≤ (encodeArgsBody as).length := by
  induction as with
  | nil => simp [needArgs]
  | cons a as ih =>
    obtain ⟨v, t⟩ := a
    have := need_le_length v
    simp [needArgs, encodeArgsBody]; omega

theorem decodeArgs_encode (as : List (FfiValue × Key)) (rest : Bytes) (hl : LenOk as.length) (hr : RepArgs as) :
    decodeArgs (encodeArgs as ++ rest) = some (normArgs as, rest) := by
  unfold decodeArgs encodeArgs
  rw [List.append_assoc, readLen_encLen _ _ hl]
  simp only
  exact decodeArgsBody_encode as _ rest hr (by have := needArgs_le_length as; simp; omega)

/-! ### `Value → FfiValue → Value` -/
section conv
variable {σ : Type} (resolve : σ → String) (intern : String → σ)

mutual
theorem toFfi_error_iff (v : Value σ) :
    (∃ e, toFfi resolve v = .error e) ↔ (v.HasOpaque ∨ v.HasErrorV) := by
  cases v with
  | array vs =>
    have := toFfiList_error_iff vs
    simp only [toFfi, Value.HasOpaque, Value.HasErrorV, ← this]
    cases toFfiList resolve vs <;> simp
  | tuple vs =>
    have := toFfiList_error_iff vs
    simp only [toFfi, Value.HasOpaque, Value.HasErrorV, ← this]
    cases toFfiList resolve vs <;> simp
  | record fs =>
    have := toFfiFields_error_iff fs
    simp only [toFfi, Value.HasOpaque, Value.HasErrorV, ← this]
    cases toFfiFields resolve fs <;> simp
  | taggedUnion t v =>
    have := toFfi_error_iff v
    simp only [toFfi, Value.HasOpaque, Value.HasErrorV, ← this]
    cases toFfi resolve v <;> simp
  | errorV _ => simp [toFfi, Value.HasOpaque, Value.HasErrorV]
  | unit => simp [toFfi, Value.HasOpaque, Value.HasErrorV]
  | number _ => simp [toFfi, Value.HasOpaque, Value.HasErrorV]
  | string _ => simp [toFfi, Value.HasOpaque, Value.HasErrorV]
  | code _ => simp [toFfi, Value.HasOpaque, Value.HasErrorV]
  | closure _ _ => simp [toFfi, Value.HasOpaque]
  | fixpoint _ _ => simp [toFfi, Value.HasOpaque]
  | externalFn _ => simp [toFfi, Value.HasOpaque]
  | store _ => simp [toFfi, Value.HasOpaque]
  | constructorFn _ _ _ => simp [toFfi, Value.HasOpaque]
theorem toFfiList_error_iff (vs : List (Value σ)) :
    (∃ e, toFfiList resolve vs = .error e) ↔ (HasOpaqueList vs ∨ HasErrorVList vs) := by
  cases vs with
  | nil => simp [toFfiList, HasOpaqueList, HasErrorVList]
  | cons v vs =>
    have h1 := toFfi_error_iff v
    have h2 := toFfiList_error_iff vs
    have h3 : (HasOpaqueList (v :: vs) ∨ HasErrorVList (v :: vs)) ↔
        ((v.HasOpaque ∨ v.HasErrorV) ∨ (HasOpaqueList vs ∨ HasErrorVList vs)) := by
      simp only [HasOpaqueList, HasErrorVList]
      constructor
      · rintro ((h | h) | (h | h))
        · exact .inl (.inl h)
        · exact .inr (.inl h)
        · exact .inl (.inr h)
        · exact .inr (.inr h)
      · rintro ((h | h) | (h | h))
        · exact .inl (.inl h)
        · exact .inr (.inl h)
        · exact .inl (.inr h)
        · exact .inr (.inr h)
    rw [h3, ← h1, ← h2]
    simp only [toFfiList]
    cases toFfi resolve v <;> cases toFfiList resolve vs <;> simp
theorem toFfiFields_error_iff (fs : List (σ × Value σ)) :
    (∃ e, toFfiFields resolve fs = .error e) ↔ (HasOpaqueFields fs ∨ HasErrorVFields fs) := by
  cases fs with
  | nil => simp [toFfiFields, HasOpaqueFields, HasErrorVFields]
  | cons kv fs =>
    obtain ⟨k, v⟩ := kv
    have h1 := toFfi_error_iff v
    have h2 := toFfiFields_error_iff fs
    have h3 : (HasOpaqueFields ((k, v) :: fs) ∨ HasErrorVFields ((k, v) :: fs)) ↔
        ((v.HasOpaque ∨ v.HasErrorV) ∨ (HasOpaqueFields fs ∨ HasErrorVFields fs)) := by
      simp only [HasOpaqueFields, HasErrorVFields]
      constructor
      · rintro ((h | h) | (h | h))
        · exact .inl (.inl h)
        · exact .inr (.inl h)
        · exact .inl (.inr h)
        · exact .inr (.inr h)
      · rintro ((h | h) | (h | h))
        · exact .inl (.inl h)
        · exact .inr (.inl h)
        · exact .inl (.inr h)
        · exact .inr (.inr h)
    rw [h3, ← h1, ← h2]
    simp only [toFfiFields]
    cases toFfi resolve v <;> cases toFfiFields resolve fs <;> simp
end

mutual
/-- whatever `to_ffi_value` lets through comes back from `to_value` as the value that went in -/
theorem toValue_toFfi (hi : ∀ s, intern (resolve s) = s) (v : Value σ) (x : FfiValue)
    (h : toFfi resolve v = .ok x) : toValue intern x = v := by
  cases v with
  | array vs =>
    simp only [toFfi] at h
    split at h
    · simp at h
    · rename_i xs hxs
      cases h
      simp [toValue, toValueList_toFfiList hi vs xs hxs]
  | tuple vs =>
    simp only [toFfi] at h
    split at h
    · simp at h
    · rename_i xs hxs
      cases h
      simp [toValue, toValueList_toFfiList hi vs xs hxs]
  | record fs =>
    simp only [toFfi] at h
    split at h
    · simp at h
    · rename_i xs hxs
      cases h
      simp [toValue, toValueFields_toFfiFields hi fs xs hxs]
  | taggedUnion t v =>
    simp only [toFfi] at h
    split at h
    · simp at h
    · rename_i y hy
      cases h
      simp [toValue, toValue_toFfi hi v y hy]
  | errorV _ => simp [toFfi] at h
  | unit => simp only [toFfi] at h; cases h; simp [toValue]
  | number _ => simp only [toFfi] at h; cases h; simp [toValue]
  | string _ => simp only [toFfi] at h; cases h; simp [toValue, hi]
  | code _ => simp only [toFfi] at h; cases h; simp [toValue]
  | closure _ _ => simp [toFfi] at h
  | fixpoint _ _ => simp [toFfi] at h
  | externalFn _ => simp [toFfi] at h
  | store _ => simp [toFfi] at h
  | constructorFn _ _ _ => simp [toFfi] at h
theorem toValueList_toFfiList (hi : ∀ s, intern (resolve s) = s) (vs : List (Value σ)) (xs : List FfiValue)
    (h : toFfiList resolve vs = .ok xs) : toValueList intern xs = vs := by
  cases vs with
  | nil => simp only [toFfiList] at h; cases h; simp [toValueList]
  | cons v vs =>
    simp only [toFfiList] at h
    split at h
    · simp at h
    · rename_i y hy
      split at h
      · simp at h
      · rename_i ys hys
        cases h
        simp [toValueList, toValue_toFfi hi v y hy, toValueList_toFfiList hi vs ys hys]
theorem toValueFields_toFfiFields (hi : ∀ s, intern (resolve s) = s) (fs : List (σ × Value σ))
    (xs : List (String × FfiValue)) (h : toFfiFields resolve fs = .ok xs) :
    toValueFields intern xs = fs := by
  cases fs with
  | nil => simp only [toFfiFields] at h; cases h; simp [toValueFields]
  | cons kv fs =>
    obtain ⟨k, v⟩ := kv
    simp only [toFfiFields] at h
    split at h
    · simp at h
    · rename_i y hy
      split at h
      · simp at h
      · rename_i ys hys
        cases h
        simp [toValueFields, hi, toValue_toFfi hi v y hy, toValueFields_toFfiFields hi fs ys hys]
end

/-! ### macro-argument lists `Vec<(Value, TypeNodeId)>` -/

/-- some argument contains a variant that cannot cross -/
def ArgsUncrossable : List (Value σ × Key) → Prop
  | [] => False
  | (v, _) :: as => (v.HasOpaque ∨ v.HasErrorV) ∨ ArgsUncrossable as

theorem toFfiArgs_error_iff (as : List (Value σ × Key)) :
    (∃ e, toFfiArgs resolve as = .error e) ↔ ArgsUncrossable as := by
  induction as with
  | nil => simp [toFfiArgs, ArgsUncrossable]
  | cons a as ih =>
    obtain ⟨v, t⟩ := a
    have h1 := toFfi_error_iff resolve v
    simp only [ArgsUncrossable, ← h1, ← ih, toFfiArgs]
    cases toFfi resolve v <;> cases toFfiArgs resolve as <;> simp

theorem toValueArgs_toFfiArgs (hi : ∀ s, intern (resolve s) = s) (as : List (Value σ × Key))
    (xs : List (FfiValue × Key)) (h : toFfiArgs resolve as = .ok xs) : toValueArgs intern xs = as := by
  induction as generalizing xs with
  | nil => simp only [toFfiArgs] at h; cases h; simp [toValueArgs]
  | cons a as ih =>
    obtain ⟨v, t⟩ := a
    simp only [toFfiArgs] at h
    split at h
    · simp at h
    · rename_i y hy
      split at h
      · simp at h
      · rename_i ys hys
        cases h
        simp [toValueArgs, toValue_toFfi resolve intern hi v y hy, ih ys hys]

/-! ### `eraseErrors` (the pre-repair behaviour, used by the judge to name a regression) fixes error-free values -/

mutual
theorem eraseErrors_eq (v : Value σ) (h : ¬ v.HasErrorV) : v.eraseErrors = v := by
  cases v with
  | array vs => simp only [Value.HasErrorV] at h; simp [Value.eraseErrors, eraseErrorsList_eq vs h]
  | tuple vs => simp only [Value.HasErrorV] at h; simp [Value.eraseErrors, eraseErrorsList_eq vs h]
  | record fs => simp only [Value.HasErrorV] at h; simp [Value.eraseErrors, eraseErrorsFields_eq fs h]
  | taggedUnion t v => simp only [Value.HasErrorV] at h; simp [Value.eraseErrors, eraseErrors_eq v h]
  | errorV _ => simp [Value.HasErrorV] at h
  | unit => rfl
  | number _ => rfl
  | string _ => rfl
  | code _ => rfl
  | closure _ _ => rfl
  | fixpoint _ _ => rfl
  | externalFn _ => rfl
  | store _ => rfl
  | constructorFn _ _ _ => rfl
theorem eraseErrorsList_eq (vs : List (Value σ)) (h : ¬ HasErrorVList vs) : eraseErrorsList vs = vs := by
  cases vs with
  | nil => rfl
  | cons v vs =>
    simp only [HasErrorVList, not_or] at h
    simp [eraseErrorsList, eraseErrors_eq v h.1, eraseErrorsList_eq vs h.2]
theorem eraseErrorsFields_eq (fs : List (σ × Value σ)) (h : ¬ HasErrorVFields fs) : eraseErrorsFields fs = fs := by
  cases fs with
  | nil => rfl
  | cons kv fs =>
    obtain ⟨k, v⟩ := kv
    simp only [HasErrorVFields, not_or] at h
    simp [eraseErrorsFields, eraseErrors_eq v h.1, eraseErrorsFields_eq fs h.2]
end

end conv
end Mimium.Ffi
