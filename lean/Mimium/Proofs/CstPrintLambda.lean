import Mimium.Proofs.CstPrintList
/-! `print_lambda_expr`. -/
namespace Mimium.CstPrint
open Mimium.Gen (Kind SK)
open Mimium.Cst (Green)
open SDoc

def lamInv (c : Ctx) (st : LamSt) : Prop := sepsGood c st.seps ∧ st.seps.length ≤ st.params.length

theorem lam_other (c : Ctx) (st : LamSt) (ch : Ch) (h : lamOtherOk st = true) :
    lamHeld c (lamOther st ch) = lamHeld c st ++ content c ch.2 := by
  unfold lamOther
  cases hin : st.inParams
  · have ha : st.afterParams = true := by simpa [lamOtherOk, hin] using h
    simp only [Bool.false_eq_true, if_false, ha, if_true]
    repeat' split
    all_goals simp [lamHeld, hin, List.append_assoc]
  · simp [lamHeld, hin, List.append_assoc]

theorem lamOther_seps (st : LamSt) (ch : Ch) : (lamOther st ch).seps = st.seps ∧ (lamOther st ch).params = st.params := by
  unfold lamOther
  repeat' split
  all_goals simp

theorem lam_step (c : Ctx) (st : LamSt) (ch : Ch) (hi : lamInv c st) (hch : ChOk c ch) (hok : lamOk c st ch = true) :
    lamInv c (lamStep c st ch) ∧ lamHeld c (lamStep c st ch) = lamHeld c st ++ content c ch.2 := by
  obtain ⟨g, d⟩ := ch
  cases g with
  | node k gs =>
    simp only [lamOk] at hok
    have := lamOther_seps st (.node k gs, d)
    refine ⟨by simp only [lamStep, lamInv, this.1, this.2]; exact hi, ?_⟩
    exact lam_other c st _ hok
  | token ti w =>
    have hd := chOk_token c _ d ti w rfl hch
    simp only [lamOk] at hok
    simp only [lamStep]
    split
    · next h1 =>
      simp only [h1, if_true] at hok
      split
      · next h2 =>
        simp only [h2, if_true, Bool.and_eq_true, emp_iff, List.isEmpty_iff] at hok
        obtain ⟨⟨f1, f2⟩, f3⟩ := hok
        have hin : st.inParams = false := by simp only [Bool.and_eq_true, Bool.not_eq_true'] at h2; exact h2.1
        refine ⟨hi, ?_⟩
        simp [lamHeld, hin, f1, f2, f3, zipC]
      · next h2 =>
        simp only [h2, Bool.false_eq_true, if_false] at hok
        split
        · next h3 =>
          simp only [h3, if_true, Bool.and_eq_true, Bool.or_eq_true, emp_iff, decide_eq_true_eq] at hok
          obtain ⟨f1, f2⟩ := hok
          refine ⟨⟨by intro s hs; simp at hs, by simp⟩, ?_⟩
          simp only [lamHeld, h3, if_true, Bool.false_eq_true, if_false, List.append_nil, content_app]
          have key : content c (if (if st.hasParamContent = true then st.params ++ [st.current] else st.params).isEmpty = true then sp
              else joinListItems (if st.hasParamContent = true then st.params ++ [st.current] else st.params) st.seps sp) =
              zipC c st.params st.seps ++ content c st.current := by
            cases hc : st.hasParamContent
            · have f1 : content c st.current = [] := by simpa [hc] using f1
              simp only [Bool.false_eq_true, if_false, f1, List.append_nil]
              cases hp : st.params with
              | nil => simp [zipC]
              | cons x xs =>
                simp only [List.isEmpty_cons, Bool.false_eq_true, if_false]
                rw [content_joinListItems c sp (by simp) _ _ hi.1]
            · simp only [if_true]
              have : (st.params ++ [st.current]).isEmpty = false := by simp
              simp only [this, Bool.false_eq_true, if_false]
              rw [content_joinListItems c sp (by simp) _ _ hi.1, zipC_snoc_item c _ _ _ f2]
          rw [key]
        · next h3 => simp [h3] at hok
    · next h1 =>
      simp only [h1, Bool.false_eq_true, if_false] at hok
      split
      · next h2 =>
        simp only [h2, if_true, Bool.and_eq_true, beq_iff_eq] at hok
        obtain ⟨f1, f2⟩ := hok
        have hk : c.kind ti = .Comma := by simp only [Bool.and_eq_true, beq_iff_eq] at h2; exact h2.1
        have hin : st.inParams = true := by simp only [Bool.and_eq_true] at h2; exact h2.2
        simp only [f1, if_true]
        rw [pushCommaComments_eq c st.seps _ ti (by simp [f2])]
        refine ⟨⟨sepsGood_push c _ ti hi.1, by simp [f2]⟩, ?_⟩
        simp only [lamHeld, hin, if_true, content_nil, List.append_nil]
        rw [zipC_snoc_both c _ _ st.params st.seps f2, hd, tokItems_comma c ti hk]
        simp [List.append_assoc]
      · next h2 =>
        simp only [h2, Bool.false_eq_true, if_false] at hok
        split
        · next h3 =>
          simp only [h3, if_true, Bool.not_eq_true'] at hok
          refine ⟨hi, ?_⟩
          simp [lamHeld, hok]
        · next h3 =>
          simp only [h3, Bool.false_eq_true, if_false] at hok
          have := lamOther_seps st (.token ti w, d)
          refine ⟨by simp only [lamInv, this.1, this.2]; exact hi, ?_⟩
          exact lam_other c st _ hok

theorem lam_content (c : Ctx) (cs : List Ch) (hch : ∀ ch ∈ cs, ChOk c ch)
    (hok : allOk (lamStep c) (lamOk c) {} cs = true) (hfin : (cs.foldl (lamStep c) {}).inParams = false) :
    content c (printLambdaExpr c cs) = chContent c cs := by
  have h := loop_held c (lamStep c) (lamOk c) (lamHeld c) (lamInv c)
    (fun st ch hi h1 h2 => lam_step c st ch hi h1 h2) cs {} ⟨by intro s hs; simp at hs, by simp⟩ hch hok
  have h2 := h.2
  simp only [lamHeld, hfin] at h2
  simpa [printLambdaExpr] using h2

end Mimium.CstPrint
