import Mimium.Proofs.FlatTreeSer
/-!
The flat execution of one call (`flatNode`, run by `vmRun`) on the serialised tree is the serialisation of the
tree after the evaluator's per-site operations (`treeNode`): mutual induction over the labelled layout.
-/
namespace Mimium.FlatTree
open Mimium.Core Mimium.Cells Mimium.StateTree Mimium.Layout Mimium.StateMachine

/-! ### `vmRun` -/

theorem vmRun_append {s s1 s2 : St} {a b : List SOp} {o1 o2 : List UInt64}
    (h1 : vmRun s a = some (s1, o1)) (h2 : vmRun s1 b = some (s2, o2)) :
    vmRun s (a ++ b) = some (s2, o1 ++ o2) := by
  induction a generalizing s o1 with
  | nil =>
    simp only [vmRun, Option.some.injEq, Prod.mk.injEq] at h1
    obtain ⟨rfl, rfl⟩ := h1
    simpa using h2
  | cons op ops ih =>
    simp only [vmRun, List.cons_append] at h1 ⊢
    cases hs : vmStep s op with
    | none => simp [hs] at h1
    | some r =>
      obtain ⟨s', o'⟩ := r
      simp only [hs] at h1 ⊢
      cases hr : vmRun s' ops with
      | none => simp [hr] at h1
      | some r2 =>
        obtain ⟨s'', o''⟩ := r2
        simp only [hr, Option.some.injEq, Prod.mk.injEq] at h1
        obtain ⟨rfl, rfl⟩ := h1
        simp [ih hr]

theorem vmRun_single {s s1 : St} {op : SOp} {o : List UInt64} (h : vmStep s op = some (s1, o)) :
    vmRun s [op] = some (s1, o) := by
  simp [vmRun, h]

/-- `PushStatePos off` … `PopStatePos off` around a block that returns the cursor to where it found it -/
theorem vmRun_bracket {base off : Nat} {d d' : List UInt64} {ops : List SOp} {o : List UInt64}
    (h : vmRun ⟨base + off, d⟩ ops = some (⟨base + off, d'⟩, o)) :
    vmRun ⟨base, d⟩ ([.push off] ++ ops ++ [.pop off]) = some (⟨base, d'⟩, o) := by
  have h1 : vmRun ⟨base, d⟩ [.push off] = some (⟨base + off, d⟩, []) := vmRun_single (by simp [vmStep])
  have h3 : vmRun ⟨base + off, d'⟩ [.pop off] = some (⟨base, d'⟩, []) := vmRun_single (by simp [vmStep])
  have := vmRun_append (vmRun_append h1 h) h3
  simpa using this

/-! ### the tree operations of a cell list touch only their own sites -/

theorem treeCell_selfv (c : LCell) (p : CPay) (st : SNode) : (treeCell c p st).1.selfv = st.selfv := by
  cases c <;> cases p <;> simp [treeCell]

theorem treeCell_lookup_ne (c : LCell) (p : CPay) (st : SNode) (s : Nat) (h : c.site ≠ s) :
    lookupCell (treeCell c p st).1.cells s = lookupCell st.cells s := by
  cases c <;> cases p <;> simp only [LCell.site] at h <;> simp [treeCell, lookup_set_ne _ _ _ _ h]

theorem treeCells_selfv : ∀ (cs : List LCell) (ps : List CPay) (st : SNode), (treeCells cs ps st).1.selfv = st.selfv
  | [], _, _ => by simp [treeCells]
  | _ :: _, [], _ => by simp [treeCells]
  | c :: cs, p :: ps, st => by
    simp only [treeCells]
    rw [treeCells_selfv cs ps, treeCell_selfv]

theorem treeCells_lookup_notin : ∀ (cs : List LCell) (ps : List CPay) (st : SNode) (s : Nat), s ∉ sitesOf cs →
    lookupCell (treeCells cs ps st).1.cells s = lookupCell st.cells s
  | [], _, _, _, _ => by simp [treeCells]
  | _ :: _, [], _, _, _ => by simp [treeCells]
  | c :: cs, p :: ps, st, s, h => by
    simp only [sitesOf, List.mem_cons, not_or] at h
    simp only [treeCells]
    rw [treeCells_lookup_notin cs ps _ s h.2, treeCell_lookup_ne c p st s (fun e => h.1 e.symm)]

/-! ### a node, given its cells -/

/-- the statement proved for a cell list: cursor at the node's first word `base`, cells from relative offset `off` -/
def CellsSpec (cs : List LCell) (ps : List CPay) : Prop :=
  ∀ (st : SNode) (base off : Nat) (pre post : List UInt64), ConfL cs st → pre.length = base + off →
    vmRun ⟨base, pre ++ serCells cs st ++ post⟩ (flatCells cs ps off) =
      some (⟨base, pre ++ serCells cs (treeCells cs ps st).1 ++ post⟩, (treeCells cs ps st).2)
    ∧ ConfL cs (treeCells cs ps st).1

theorem serCells_setSelf (cs : List LCell) (st : SNode) (v : Val) : serCells cs (st.setSelf v) = serCells cs st :=
  serCells_congr cs _ _ (by simp)

theorem ConfL_setSelf (cs : List LCell) (st : SNode) (v : Val) : ConfL cs (st.setSelf v) ↔ ConfL cs st :=
  ConfL_congr cs _ _ (by simp)

theorem flat_nodeWith (self : Option Shape) (cells : List LCell) (ps : List CPay) (ret : Val)
    (hcells : CellsSpec cells ps) (st : SNode) (pre post : List UInt64)
    (hs : SelfOk self st) (hc : ConfL cells st) (hr : RetOk self ret) :
    vmRun ⟨pre.length, pre ++ (selfWords self st ++ serCells cells st) ++ post⟩
        (flatNodeWith self (flatCells cells ps (selfSize self)) ret) =
      some (⟨pre.length, pre ++ (selfWords self (treeNodeWith self (treeCells cells ps) ret st).1 ++
              serCells cells (treeNodeWith self (treeCells cells ps) ret st).1) ++ post⟩,
            (treeNodeWith self (treeCells cells ps) ret st).2)
    ∧ SelfOk self (treeNodeWith self (treeCells cells ps) ret st).1
    ∧ ConfL cells (treeNodeWith self (treeCells cells ps) ret st).1 := by
  have hc0 : ConfL cells (initSelf self st) :=
    (ConfL_congr cells _ _ (by simp [cells_initSelf])).2 hc
  have hser0 : serCells cells (initSelf self st) = serCells cells st :=
    serCells_congr cells _ _ (by simp [cells_initSelf])
  cases self with
  | none =>
    have hi : initSelf none st = st := by unfold initSelf; split <;> simp_all
    have := hcells st pre.length 0 pre post hc (by simp)
    simp only [flatNodeWith, treeNodeWith, selfWords, selfSize, List.nil_append, hi]
    refine ⟨this.1, ?_, this.2⟩
    intro v hv
    rw [treeCells_selfv] at hv
    exact hs v hv
  | some sh =>
    have hlen : (selfWords (some sh) st).length = shapeSize sh := selfWords_length _ _ hs
    have hbody := hcells (initSelf (some sh) st) pre.length (shapeSize sh) (pre ++ selfWords (some sh) st) post hc0
      (by simp [hlen])
    simp only [hser0] at hbody
    simp only [flatNodeWith, treeNodeWith, selfSize]
    generalize hst1 : (treeCells cells ps (initSelf (some sh) st)) = r at hbody ⊢
    -- get
    have hget : vmRun ⟨pre.length, pre ++ (selfWords (some sh) st ++ serCells cells st) ++ post⟩ [.get (shapeSize sh)] =
        some (⟨pre.length, pre ++ selfWords (some sh) st ++ serCells cells st ++ post⟩, selfWords (some sh) st) := by
      apply vmRun_single
      have := step_get pre (selfWords (some sh) st) (serCells cells st ++ post)
      rw [hlen] at this
      simpa [List.append_assoc] using this
    -- set
    have hset : vmRun ⟨pre.length, pre ++ selfWords (some sh) st ++ serCells cells r.1 ++ post⟩ [.set (flattenVal ret)] =
        some (⟨pre.length, pre ++ (flattenVal ret ++ serCells cells r.1) ++ post⟩, []) := by
      apply vmRun_single
      have := step_set pre (selfWords (some sh) st) (serCells cells r.1 ++ post) (flattenVal ret) (by rw [hlen]; exact hr)
      simpa [List.append_assoc] using this
    have := vmRun_append (vmRun_append hget hbody.1) hset
    refine ⟨?_, ?_, ?_⟩
    · simp only [List.append_nil] at this
      rw [this, selfWords_initSelf]
      simp [selfWords, serCells_setSelf]
    · intro v hv
      simp only [selfv_setSelf, Option.some.injEq] at hv
      subst hv
      exact hr
    · exact (ConfL_setSelf cells _ _).2 hbody.2

/-! ### the mutual induction -/

mutual
theorem flat_cell : ∀ (c : LCell) (p : CPay) (st : SNode) (pre post : List UInt64),
    LayOk c → Conf c st → PayOk c p →
    vmRun ⟨pre.length, pre ++ serCell c st ++ post⟩ (flatCell c p) =
      some (⟨pre.length, pre ++ serCell c (treeCell c p st).1 ++ post⟩, (treeCell c p st).2)
    ∧ Conf c (treeCell c p st).1
  | .mem s, .mem x, st, pre, post, _, _, _ => by
    simp only [flatCell, treeCell, serCell, memAt_set, Conf, and_true]
    exact vmRun_single (step_mem pre post _ x)
  | .delay s n, .delay x t, st, pre, post, hl, hc, _ => by
    simp only [Conf] at hc
    simp only [LayOk] at hl
    simp only [flatCell, treeCell, serCell, ringAt_set, Conf]
    refine ⟨?_, process_conf _ x t n hl hc.1 hc.2.1 hc.2.2⟩
    have := step_delay pre post (st.ringAt n s) x t hc.2.2
    rw [hc.1] at this
    exact vmRun_single this
  | .child s self cells, .child ret ps, st, pre, post, hl, hc, hp => by
    simp only [Conf] at hc
    simp only [LayOk] at hl
    simp only [PayOk] at hp
    have hcells : CellsSpec cells ps := fun st base off pre post hconf hlen =>
      flat_cells cells ps st base off pre post hl hconf hp.2 hlen
    have := flat_nodeWith self cells ps ret hcells (st.childAt s) pre post hc.1 hc.2 hp.1
    simp only [flatCell, treeCell, serCell, childAt_set, Conf]
    exact ⟨this.1, this.2.1, this.2.2⟩
  | .mem _, .delay _ _, _, _, _, _, _, hp => by simp [PayOk] at hp
  | .mem _, .child _ _, _, _, _, _, _, hp => by simp [PayOk] at hp
  | .delay _ _, .mem _, _, _, _, _, _, hp => by simp [PayOk] at hp
  | .delay _ _, .child _ _, _, _, _, _, _, hp => by simp [PayOk] at hp
  | .child _ _ _, .mem _, _, _, _, _, _, hp => by simp [PayOk] at hp
  | .child _ _ _, .delay _ _, _, _, _, _, _, hp => by simp [PayOk] at hp
theorem flat_cells : ∀ (cs : List LCell) (ps : List CPay) (st : SNode) (base off : Nat) (pre post : List UInt64),
    LayOkL cs → ConfL cs st → PayOkL cs ps → pre.length = base + off →
    vmRun ⟨base, pre ++ serCells cs st ++ post⟩ (flatCells cs ps off) =
      some (⟨base, pre ++ serCells cs (treeCells cs ps st).1 ++ post⟩, (treeCells cs ps st).2)
    ∧ ConfL cs (treeCells cs ps st).1
  | [], [], st, base, off, pre, post, _, _, _, _ => by
    simp [flatCells, treeCells, serCells, vmRun, ConfL]
  | [], _ :: _, _, _, _, _, _, _, _, hp, _ => by simp [PayOkL] at hp
  | _ :: _, [], _, _, _, _, _, _, _, hp, _ => by simp [PayOkL] at hp
  | c :: cs, p :: ps, st, base, off, pre, post, hl, hc, hp, hlen => by
    simp only [LayOkL] at hl
    simp only [ConfL] at hc
    simp only [PayOkL] at hp
    obtain ⟨hl1, hnotin, hl2⟩ := hl
    -- the first cell, bracketed by push/pop
    have h1 := flat_cell c p st pre (serCells cs st ++ post) hl1 hc.1 hp.1
    generalize hst1 : treeCell c p st = r1 at h1
    have hframe : ∀ s ∈ sitesOf cs, lookupCell st.cells s = lookupCell r1.1.cells s := by
      intro s hs
      rw [← hst1, treeCell_lookup_ne c p st s (fun e => hnotin (e ▸ hs))]
    have hser : serCells cs st = serCells cs r1.1 := serCells_congr cs _ _ hframe
    have hconf1 : ConfL cs r1.1 := (ConfL_congr cs _ _ hframe).1 hc.2
    have hlen1 : (pre ++ serCell c r1.1).length = base + (off + c.size) := by
      rw [List.length_append, serCell_length c r1.1 h1.2, hlen]; omega
    have h2 := flat_cells cs ps r1.1 base (off + c.size) (pre ++ serCell c r1.1) post hl2 hconf1 hp.2 hlen1
    generalize hst2 : treeCells cs ps r1.1 = r2 at h2
    have hframe2 : lookupCell r2.1.cells c.site = lookupCell r1.1.cells c.site := by
      rw [← hst2]; exact treeCells_lookup_notin cs ps r1.1 c.site hnotin
    have hser2 : serCell c r2.1 = serCell c r1.1 := serCell_congr c _ _ hframe2
    have hconf2 : Conf c r2.1 := (Conf_congr c _ _ hframe2).2 h1.2
    have hb : vmRun ⟨base, pre ++ (serCell c st ++ serCells cs st) ++ post⟩ ([.push off] ++ flatCell c p ++ [.pop off]) =
        some (⟨base, pre ++ serCell c r1.1 ++ serCells cs r1.1 ++ post⟩, r1.2) := by
      apply vmRun_bracket
      rw [← hlen, hser]
      have := h1.1
      rw [hser] at this
      simpa [List.append_assoc] using this
    have := vmRun_append hb h2.1
    simp only [flatCells, treeCells, serCells, hst1, hst2, ConfL]
    refine ⟨?_, hconf2, h2.2⟩
    rw [this, hser2]
    simp [List.append_assoc]
end

end Mimium.FlatTree
