import Mimium.Proofs.CstShapeLists
/-!
# Expressions: what `parse_expr` & co. append
-/
namespace Mimium.Grammar
open Mimium.Gen (Kind SK)
open Mimium.Cst (PState Frame Green)
open Mimium.CstPrint (Ctx IsTok IsNode SepTail ItemOk itemRun ListShape ListBody)

variable {E : Env} {c : Ctx} {rec : Tag → St → St}

theorem em_node_app (k : SK) (a : Cmd) (s : St) (h : Em E c rec (R E c) (.node k a) s) :
    App P1 s (exec E rec (.node k a) s) := ⟨_, h.2.2, ⟨_, _, rfl⟩⟩

theorem marker_eq (s : St) : marker s = (topCh s).length := by
  unfold marker topCh; cases s.b.stack <;> rfl

theorem exec_call (t : Tag) (s : St) : exec E rec (.call t) s = { rec t s with ra := s.ra, rb := s.rb } := rfl
theorem exec_setB (s : St) : exec E rec .setBMarker s = { s with rb := marker s } := rfl
theorem exec_setBPred (s : St) : exec E rec .setBMarkerPred s = { s with rb := marker s - 1 } := rfl

theorem em_seq (a b : Cmd) (s : St) :
    Em E c rec (R E c) (.seq a b) s = (Em E c rec (R E c) a s ∧ W E c (exec E rec a s) ∧ Em E c rec (R E c) b (exec E rec a s)) := by
  simp only [Em]
theorem em_ite (cnd : Cond) (t e : Cmd) (s : St) :
    Em E c rec (R E c) (.ite cnd t e) s = (if evalCond E s cnd = true then Em E c rec (R E c) t s else Em E c rec (R E c) e s) := by
  simp only [Em]
theorem em_call (t : Tag) (s : St) : Em E c rec (R E c) (.call t) s = R E c t s (exec E rec (.call t) s) := by
  simp only [Em]

theorem vc_expr (s : St) (h : Em E c rec (R E c) (body .expr) s) : Rs E c .expr s (exec E rec (body .expr) s) := h.1

theorem vc_assignmentExpr (s : St) (h : Em E c rec (R E c) (body .assignmentExpr) s) :
    Rs E c .assignmentExpr s (exec E rec (body .assignmentExpr) s) := by
  have hshow : body .assignmentExpr = .seq (.callA .exprPrec (.const 0))
      (.ite (.check .Assign) (.node .AssignExpr (seqs [expect .Assign, .callA .exprPrec (.const 0)])) .skip) := rfl
  rw [hshow] at h ⊢
  simp only [Em] at h
  obtain ⟨h1, _, h2⟩ := h
  obtain ⟨w1, e1, k, a, rfl⟩ := h1.1
  have e1' : topCh (exec E rec (.callA .exprPrec (.const 0)) s) = topCh s ++ [.node k a] := e1
  rw [exec_seq]
  by_cases hc : evalCond E (exec E rec (.callA .exprPrec (.const 0)) s) (.check .Assign) = true
  · rw [exec_ite_pos _ _ hc]; rw [if_pos hc] at h2
    obtain ⟨_, _, e2⟩ := h2
    exact ⟨_, by rw [e2, e1', List.append_assoc]; rfl, ⟨k, a, Or.inr ⟨_, rfl⟩⟩⟩
  · rw [exec_ite_neg _ _ hc, exec_skip]
    exact ⟨_, e1', ⟨k, a, Or.inl rfl⟩⟩

/-- `marker; f; loop` where `f` appends one node and the loop replaces it -/
theorem marker_loop (f loop : Cmd) (s : St)
    (hf : App P1 (exec E rec .setBMarker s) (exec E rec f (exec E rec .setBMarker s)))
    (hrb : (exec E rec f (exec E rec .setBMarker s)).rb = (exec E rec .setBMarker s).rb)
    (hl : Repl (exec E rec f (exec E rec .setBMarker s)) (exec E rec loop (exec E rec f (exec E rec .setBMarker s)))) :
    App P1 s (exec E rec loop (exec E rec f (exec E rec .setBMarker s))) := by
  obtain ⟨w, e1, k, a, rfl⟩ := hf
  have e1' : topCh (exec E rec f (exec E rec .setBMarker s)) = topCh s ++ [.node k a] := e1
  obtain ⟨y, ⟨k', a', rfl⟩, e2⟩ := hl (topCh s) (.node k a) e1' (by rw [hrb, exec_setB]; exact marker_eq s) ⟨k, a, rfl⟩
  exact ⟨_, e2, ⟨k', a', rfl⟩⟩

theorem vc_exprPrecNoLb (s : St) (h : Em E c rec (R E c) (body .exprPrecNoLb) s) :
    Rs E c .exprPrecNoLb s (exec E rec (body .exprPrecNoLb) s) := by
  have hshow : body .exprPrecNoLb = .seq .setBMarker (.seq (.call .prefixExpr) (.call .prattLoopNoLb)) := rfl
  rw [hshow] at h ⊢
  simp only [Em] at h
  obtain ⟨_, _, h1, _, h2⟩ := h
  rw [exec_seq, exec_seq]
  exact marker_loop _ _ s h1.1 rfl h2.1

theorem vc_postfixExpr (s : St) (h : Em E c rec (R E c) (body .postfixExpr) s) :
    Rs E c .postfixExpr s (exec E rec (body .postfixExpr) s) := by
  have hshow : body .postfixExpr = .seq .setBMarker (.seq (.call .primary) (.call .postfixLoop)) := rfl
  rw [hshow] at h ⊢
  simp only [Em] at h
  obtain ⟨_, _, h1, _, h2⟩ := h
  rw [exec_seq, exec_seq]
  exact marker_loop _ _ s h1.1 rfl h2.1

theorem Repl.refl (s : St) : Repl s s := fun p x h _ hx => ⟨x, hx, h⟩

theorem vc_exprPrec (s : St) (h : Em E c rec (R E c) (body .exprPrec) s) :
    Rs E c .exprPrec s (exec E rec (body .exprPrec) s) := by
  have hshow : body .exprPrec = .seq .setBMarker (.seq (.call .prefixExpr) (.ite (.neg stmtBreak) (.call .prattLoop) .skip)) := rfl
  rw [hshow] at h ⊢
  simp only [Em] at h
  obtain ⟨_, _, h1, _, h2⟩ := h
  rw [exec_seq, exec_seq]
  refine marker_loop _ _ s h1.1 rfl ?_
  by_cases hc : evalCond E (exec E rec (.call .prefixExpr) (exec E rec .setBMarker s)) (.neg stmtBreak) = true
  · rw [exec_ite_pos _ _ hc]; rw [if_pos hc] at h2; exact h2.1
  · rw [exec_ite_neg _ _ hc, exec_skip]; exact Repl.refl _

theorem vc_prefixExpr (s : St) (h : Em E c rec (R E c) (body .prefixExpr) s) :
    Rs E c .prefixExpr s (exec E rec (body .prefixExpr) s) := by
  have hshow : body .prefixExpr = .ite (.peekIn 0 [.OpMinus, .OpSum, .Dollar, .BackQuote]) (.call .unaryExpr) (.call .postfixExpr) := rfl
  rw [hshow] at h ⊢
  simp only [Em] at h
  by_cases hc : evalCond E s (.peekIn 0 [.OpMinus, .OpSum, .Dollar, .BackQuote]) = true
  · rw [exec_ite_pos _ _ hc]; rw [if_pos hc] at h; exact h.1
  · rw [exec_ite_neg _ _ hc]; rw [if_neg hc] at h; exact h.1

theorem vc_unaryExpr (s : St) (h : Em E c rec (R E c) (body .unaryExpr) s) :
    Rs E c .unaryExpr s (exec E rec (body .unaryExpr) s) := by
  have hshow : body .unaryExpr = .ite (.peekIn 0 [.BackQuote]) (.call .bracketExpr) (.ite (.peekIn 0 [.Dollar]) (.call .escapeExpr)
      (.node .UnaryExpr (seqs [when_ (.both (.peekIn 0 [.OpSum, .OpMinus]) .prevAdjOp) (.err (.syntax .consecutiveOps)),
        .bump, .call .prefixExpr]))) := rfl
  rw [hshow] at h ⊢
  simp only [Em] at h
  by_cases hc : evalCond E s (.peekIn 0 [.BackQuote]) = true
  · rw [exec_ite_pos _ _ hc]; rw [if_pos hc] at h; exact h.1
  · rw [exec_ite_neg _ _ hc]; rw [if_neg hc] at h
    by_cases hd : evalCond E s (.peekIn 0 [.Dollar]) = true
    · rw [exec_ite_pos _ _ hd]; rw [if_pos hd] at h; exact h.1
    · rw [exec_ite_neg _ _ hd]; rw [if_neg hd] at h
      exact ⟨_, h.2.2, ⟨_, _, rfl⟩⟩

/-! ## The loops that wrap the last child (`start_node_at(lhs_marker, …)`) -/

/-- `start_node_at(marker, k) { inner }; marker = marker - 1`: the last child `x` becomes the first child of a new node -/
theorem wrap_step (k : SK) (inner : Cmd) (s : St) (p : List Green) (x : Green) (hp : topCh s = p ++ [x]) (hrb : s.rb = p.length)
    (h : Em E c rec (R E c) (.nodeAtB k inner) s) :
    topCh (prim E s (.startNodeAt s.rb k.toNat)) = [x] ∧
    topCh (exec E rec .setBMarkerPred (exec E rec (.nodeAtB k inner) s)) =
      p ++ [.node k.toNat (topCh (exec E rec inner (prim E s (.startNodeAt s.rb k.toNat))))] ∧
    (exec E rec .setBMarkerPred (exec E rec (.nodeAtB k inner) s)).rb = p.length := by
  obtain ⟨_, _, e0, e1⟩ := h
  have ht : List.take s.rb (p ++ [x]) = p := by rw [hrb]; simp
  have hd : List.drop s.rb (p ++ [x]) = [x] := by rw [hrb]; simp
  have e1' : topCh (exec E rec (.nodeAtB k inner) s) =
      p ++ [.node k.toNat (topCh (exec E rec inner (prim E s (.startNodeAt s.rb k.toNat))))] := by
    rw [e1, hp, ht]
  refine ⟨by rw [e0, hp, hd], ?_, ?_⟩
  · rw [exec_setBPred]; exact e1'
  · rw [exec_setBPred]
    show marker (exec E rec (.nodeAtB k inner) s) - 1 = p.length
    rw [marker_eq, e1']; simp

theorem isInfix_peek (s : St) (h : evalCond E s .isInfix = true) : ∃ k, peek E s = some k ∧ (infixPrec k).isSome = true := by
  simp only [evalCond] at h
  split at h
  · rename_i k hk; exact ⟨k, hk, h⟩
  · cases h

theorem infix_not_relab (k : Kind) (h : (infixPrec k).isSome = true) : relab k = false := by
  cases k <;> first | rfl | (simp [infixPrec] at h)

/-- the children of the `BinaryExpr` node the infix loop builds: the left operand, the operator token, one node -/
theorem binary_children (callee : Tag) (hcallee : ∀ s s', Rs E c callee s s' → App P1 s s') (a : AExpr) (s : St) (x : Green)
    (hinf : evalCond E s .isInfix = true)
    (h0 : topCh (prim E s (.startNodeAt s.rb SK.BinaryExpr.toNat)) = [x])
    (h : Em E c rec (R E c) (.seq .bump (.callA callee a)) (prim E s (.startNodeAt s.rb SK.BinaryExpr.toNat))) :
    ∃ ti w k' a', topCh (exec E rec (.seq .bump (.callA callee a)) (prim E s (.startNodeAt s.rb SK.BinaryExpr.toNat))) =
      [x, .token ti w, .node k' a'] := by
  obtain ⟨k, hk, hik⟩ := isInfix_peek s hinf
  have hk0 : peek E (prim E s (.startNodeAt s.rb SK.BinaryExpr.toNat)) = some k := by
    rw [peek_prim_nobump _ _ (by simp)]; exact hk
  simp only [Em] at h
  obtain ⟨hb, _, hc⟩ := h
  obtain ⟨ti, w, e1, _⟩ := hb.1 k hk0
  obtain ⟨wr, e2, k', a', rfl⟩ := hcallee _ _ hc.1
  refine ⟨ti, w, k', a', ?_⟩
  rw [exec_seq]
  have e2' : topCh (exec E rec (.callA callee a) (exec E rec .bump (prim E s (.startNodeAt s.rb SK.BinaryExpr.toNat)))) =
      topCh (exec E rec .bump (prim E s (.startNodeAt s.rb SK.BinaryExpr.toNat))) ++ [.node k' a'] := e2
  rw [e2', exec_bump, e1, h0]; rfl

/-- the infix loops -/
theorem pratt_vc (self_ callee : Tag) (cont : Cmd) (a : AExpr) (s : St)
    (hcont : ∀ s, Em E c rec (R E c) cont s → Repl s (exec E rec cont s))
    (h : Em E c rec (R E c) (.ite .isInfix (.ite (.neg .infixBelowA)
      (.seq (.nodeAtB .BinaryExpr (.seq .bump (.callA callee a))) (.seq .setBMarkerPred cont)) .skip) .skip) s) :
    Repl s (exec E rec (.ite .isInfix (.ite (.neg .infixBelowA)
      (.seq (.nodeAtB .BinaryExpr (.seq .bump (.callA callee a))) (.seq .setBMarkerPred cont)) .skip) .skip) s) := by
  by_cases hc : evalCond E s .isInfix = true
  · rw [exec_ite_pos _ _ hc]
    rw [em_ite, if_pos hc] at h
    by_cases hd : evalCond E s (.neg .infixBelowA) = true
    · rw [exec_ite_pos _ _ hd, exec_seq, exec_seq]
      rw [em_ite, if_pos hd, em_seq, em_seq] at h
      obtain ⟨hn, _, _, _, h3⟩ := h
      intro p x hp hrb hx
      obtain ⟨_, w1, w2⟩ := wrap_step .BinaryExpr _ s p x hp hrb hn
      obtain ⟨y, hy, e⟩ := hcont _ h3 p _ w1 w2 ⟨_, _, rfl⟩
      exact ⟨y, hy, e⟩
    · rw [exec_ite_neg _ _ hd, exec_skip]; exact Repl.refl s
  · rw [exec_ite_neg _ _ hc, exec_skip]; exact Repl.refl s

theorem vc_prattLoop (s : St) (h : Em E c rec (R E c) (body .prattLoop) s) :
    Rs E c .prattLoop s (exec E rec (body .prattLoop) s) := by
  refine pratt_vc .prattLoop .exprPrec (.ite (.neg stmtBreak) (.call .prattLoop) .skip) .prevPrecPlus1 s ?_ h
  intro s' h'
  rw [em_ite] at h'
  by_cases hc : evalCond E s' (.neg stmtBreak) = true
  · rw [exec_ite_pos _ _ hc]; rw [if_pos hc, em_call] at h'; exact h'.1
  · rw [exec_ite_neg _ _ hc, exec_skip]; exact Repl.refl _

theorem vc_prattLoopNoLb (s : St) (h : Em E c rec (R E c) (body .prattLoopNoLb) s) :
    Rs E c .prattLoopNoLb s (exec E rec (body .prattLoopNoLb) s) :=
  pratt_vc .prattLoopNoLb .exprPrecNoLb (.call .prattLoopNoLb) .prevPrecPlus1 s (fun _ h' => h'.1) h

/-- one arm of the postfix loop -/
theorem postfix_arm (k : SK) (inner : Cmd) (s : St) (h : Em E c rec (R E c) (.seq (.nodeAtB k inner) (.seq .setBMarkerPred (.call .postfixLoop))) s) :
    Repl s (exec E rec (.seq (.nodeAtB k inner) (.seq .setBMarkerPred (.call .postfixLoop))) s) := by
  rw [em_seq, em_seq, em_call] at h
  obtain ⟨hn, _, _, _, h3⟩ := h
  rw [exec_seq, exec_seq]
  intro p x hp hrb hx
  obtain ⟨_, w1, w2⟩ := wrap_step k _ s p x hp hrb hn
  exact h3.1 p _ w1 w2 ⟨_, _, rfl⟩

theorem vc_postfixLoop (s : St) (h : Em E c rec (R E c) (body .postfixLoop) s) :
    Rs E c .postfixLoop s (exec E rec (body .postfixLoop) s) := by
  have hshow : body .postfixLoop = .ite (.neg .nl)
      (.ite (.peekIn 0 [.ParenBegin]) (.seq (.nodeAtB .CallExpr (.call .argList)) (.seq .setBMarkerPred (.call .postfixLoop)))
        (.ite (.peekIn 0 [.Dot]) (.seq (.nodeAtB .FieldAccess (seqs [.bump, expects [.Ident, .Int]])) (.seq .setBMarkerPred (.call .postfixLoop)))
          (.ite (.peekIn 0 [.ArrayBegin])
            (.seq (.nodeAtB .IndexExpr (seqs [.bump, .call .expr, expect .ArrayEnd])) (.seq .setBMarkerPred (.call .postfixLoop)))
            .skip))) .skip := rfl
  rw [hshow] at h ⊢
  rw [em_ite] at h
  by_cases h0 : evalCond E s (.neg .nl) = true
  · rw [exec_ite_pos _ _ h0]; rw [if_pos h0, em_ite] at h
    by_cases h1 : evalCond E s (.peekIn 0 [.ParenBegin]) = true
    · rw [exec_ite_pos _ _ h1]; rw [if_pos h1] at h
      exact postfix_arm _ _ s h
    · rw [exec_ite_neg _ _ h1]; rw [if_neg h1, em_ite] at h
      by_cases h2 : evalCond E s (.peekIn 0 [.Dot]) = true
      · rw [exec_ite_pos _ _ h2]; rw [if_pos h2] at h
        exact postfix_arm _ _ s h
      · rw [exec_ite_neg _ _ h2]; rw [if_neg h2, em_ite] at h
        by_cases h3 : evalCond E s (.peekIn 0 [.ArrayBegin]) = true
        · rw [exec_ite_pos _ _ h3]; rw [if_pos h3] at h
          exact postfix_arm _ _ s h
        · rw [exec_ite_neg _ _ h3, exec_skip]; exact Repl.refl s
  · rw [exec_ite_neg _ _ h0, exec_skip]; exact Repl.refl s

end Mimium.Grammar
