import Mimium.Proofs.FlatTreeSer
/-!
`deserialize` inverts `serialize` on canonical trees, `serialize` inverts `deserialize` on word lists of the
layout's size, and `deserialize` only produces canonical (hence conforming) trees.
-/
namespace Mimium.FlatTree
open Mimium.Core Mimium.Cells Mimium.StateTree Mimium.Layout Mimium.StateMachine

/-! ### values of a shape -/

mutual
theorem unflat_flatten : ∀ (sh : Shape) (v : Val) (rest : List UInt64), HasShape sh v →
    unflat sh (flattenVal v ++ rest) = (v, rest)
  | .num, .num b, rest, _ => by simp [flattenVal, unflat]
  | .tup ss, .tup vs, rest, h => by
    simp only [HasShape] at h
    simp [flattenVal, unflat, unflatL_flatten ss vs rest h]
  | .num, .tup _, _, h => by simp [HasShape] at h
  | .num, .clo .., _, h => by simp [HasShape] at h
  | .tup _, .num _, _, h => by simp [HasShape] at h
  | .tup _, .clo .., _, h => by simp [HasShape] at h
theorem unflatL_flatten : ∀ (ss : List Shape) (vs : List Val) (rest : List UInt64), HasShapeL ss vs →
    unflatL ss (flattenVals vs ++ rest) = (vs, rest)
  | [], [], rest, _ => by simp [flattenVals, unflatL]
  | s :: ss, v :: vs, rest, h => by
    simp only [HasShapeL] at h
    simp only [flattenVals, unflatL, List.append_assoc, unflat_flatten s v _ h.1, unflatL_flatten ss vs rest h.2]
  | [], _ :: _, _, h => by simp [HasShapeL] at h
  | _ :: _, [], _, h => by simp [HasShapeL] at h
end

mutual
theorem hasShape_unflat : ∀ (sh : Shape) (ws : List UInt64), HasShape sh (unflat sh ws).1
  | .num, ws => by simp [unflat, HasShape]
  | .tup ss, ws => by simp only [unflat, HasShape]; exact hasShapeL_unflat ss ws
theorem hasShapeL_unflat : ∀ (ss : List Shape) (ws : List UInt64), HasShapeL ss (unflatL ss ws).1
  | [], ws => by simp [unflatL, HasShapeL]
  | s :: ss, ws => by simp only [unflatL, HasShapeL]; exact ⟨hasShape_unflat s ws, hasShapeL_unflat ss _⟩
end

mutual
theorem hasShape_length : ∀ (sh : Shape) (v : Val), HasShape sh v → (flattenVal v).length = shapeSize sh
  | .num, .num b, _ => by simp [flattenVal, shapeSize]
  | .tup ss, .tup vs, h => by
    simp only [HasShape] at h
    simp only [flattenVal, shapeSize, hasShapeL_length ss vs h]
  | .num, .tup _, h => by simp [HasShape] at h
  | .num, .clo .., h => by simp [HasShape] at h
  | .tup _, .num _, h => by simp [HasShape] at h
  | .tup _, .clo .., h => by simp [HasShape] at h
theorem hasShapeL_length : ∀ (ss : List Shape) (vs : List Val), HasShapeL ss vs → (flattenVals vs).length = shapeSizeL ss
  | [], [], _ => by simp [flattenVals, shapeSizeL]
  | s :: ss, v :: vs, h => by
    simp only [HasShapeL] at h
    simp only [flattenVals, shapeSizeL, List.length_append, hasShape_length s v h.1, hasShapeL_length ss vs h.2]
  | [], _ :: _, h => by simp [HasShapeL] at h
  | _ :: _, [], h => by simp [HasShapeL] at h
end

mutual
theorem unflat_spec : ∀ (sh : Shape) (ws : List UInt64), shapeSize sh ≤ ws.length →
    flattenVal (unflat sh ws).1 = ws.take (shapeSize sh) ∧ (unflat sh ws).2 = ws.drop (shapeSize sh)
  | .num, ws, h => by
    simp only [shapeSize] at h
    cases ws with
    | nil => simp at h
    | cons w ws => simp [unflat, flattenVal, shapeSize]
  | .tup ss, ws, h => by
    simp only [shapeSize] at h
    simpa only [unflat, flattenVal, shapeSize] using unflatL_spec ss ws h
theorem unflatL_spec : ∀ (ss : List Shape) (ws : List UInt64), shapeSizeL ss ≤ ws.length →
    flattenVals (unflatL ss ws).1 = ws.take (shapeSizeL ss) ∧ (unflatL ss ws).2 = ws.drop (shapeSizeL ss)
  | [], ws, _ => by simp [unflatL, flattenVals, shapeSizeL]
  | s :: ss, ws, h => by
    simp only [shapeSizeL] at h
    have h1 := unflat_spec s ws (by omega)
    have h2 := unflatL_spec ss (unflat s ws).2 (by rw [h1.2, List.length_drop]; omega)
    simp only [unflatL, flattenVals, shapeSizeL, h1.1, h2.1, h2.2]
    rw [h1.2]
    simp [List.take_add, List.drop_drop]
end

theorem canonSelf_selfOk (self : Option Shape) (st : SNode) (h : CanonSelf self st.selfv) : SelfOk self st := by
  intro v hv
  rw [hv] at h
  cases self with
  | none => simp [CanonSelf] at h
  | some sh => simpa [selfSize] using hasShape_length sh v h

theorem deSelf_selfWords (self : Option Shape) (st : SNode) (h : CanonSelf self st.selfv) :
    deSelf self (selfWords self st) = st.selfv := by
  cases self with
  | none =>
    cases hv : st.selfv with
    | none => simp [deSelf]
    | some v => simp [hv, CanonSelf] at h
  | some sh =>
    cases hv : st.selfv with
    | none => simp [hv, CanonSelf] at h
    | some v =>
      simp only [hv, CanonSelf] at h
      have := unflat_flatten sh v [] h
      simp only [List.append_nil] at this
      simp [deSelf, selfWords, hv, this]

theorem selfWords_deSelf (self : Option Shape) (ws : List UInt64) (cells : List (Nat × SCell))
    (h : ws.length = selfSize self) :
    selfWords self (.mk (deSelf self ws) cells) = ws ∧ CanonSelf self (deSelf self ws) := by
  cases self with
  | none =>
    simp only [selfSize] at h
    simp [selfWords, deSelf, CanonSelf, List.eq_nil_of_length_eq_zero h]
  | some sh =>
    simp only [selfSize] at h
    have := unflat_spec sh ws (by omega)
    simp only [selfWords, deSelf, SNode.selfv, CanonSelf, this.1]
    exact ⟨by rw [← h, List.take_length], hasShape_unflat sh ws⟩

theorem canonSelf_selfOkS (self : Option Shape) (st : SNode) (h : CanonSelf self st.selfv) : SelfOkS self st := by
  cases self with
  | none =>
    cases hv : st.selfv with
    | none => simp [SelfOkS, hv]
    | some v => simp [hv, CanonSelf] at h
  | some sh =>
    intro v hv
    rw [hv] at h
    simpa [CanonSelf] using h

theorem selfOkS_selfOk (self : Option Shape) (st : SNode) (h : SelfOkS self st) : SelfOk self st := by
  intro v hv
  cases self with
  | none => simp [SelfOkS, hv] at h
  | some sh => simpa [selfSize] using hasShape_length sh v (h v hv)

mutual
theorem confS_conf : ∀ (c : LCell) (st : SNode), ConfS c st → Conf c st
  | .mem _, _, _ => by simp [Conf]
  | .delay _ _, _, h => by simpa [Conf, ConfS] using h
  | .child s self cells, st, h => by
    simp only [ConfS] at h
    simp only [Conf]
    exact ⟨selfOkS_selfOk _ _ h.1, confSL_confL cells _ h.2⟩
theorem confSL_confL : ∀ (cs : List LCell) (st : SNode), ConfSL cs st → ConfL cs st
  | [], _, _ => by simp [ConfL]
  | c :: cs, st, h => by
    simp only [ConfSL] at h
    simp only [ConfL]
    exact ⟨confS_conf c st h.1, confSL_confL cs st h.2⟩
end

theorem conformsS_conforms (lay : LNode) (st : SNode) (h : ConformsS lay st) : Conforms lay st :=
  ⟨selfOkS_selfOk _ _ h.1, confSL_confL _ _ h.2⟩

/-! ### deserialize ∘ serialize -/

theorem canon_site (c : LCell) (x : Nat × SCell) (h : CanonCell c x) : x.1 = c.site := by
  obtain ⟨k, cell⟩ := x
  cases c <;> cases cell <;> simp_all [CanonCell, LCell.site]

theorem take_left' {α} (a b : List α) (n : Nat) (h : a.length = n) : (a ++ b).take n = a := by
  subst h; simp
theorem drop_left' {α} (a b : List α) (n : Nat) (h : a.length = n) : (a ++ b).drop n = b := by
  subst h; simp

mutual
theorem de_ser_cell : ∀ (c : LCell) (x : Nat × SCell) (st : SNode), CanonCell c x → LayOk c →
    lookupCell st.cells c.site = some x.2 → deCell c (serCell c st) = x ∧ ConfS c st
  | .mem s, (k, .mem w), st, hc, _, hl => by
    simp only [CanonCell] at hc
    simp only [LCell.site] at hl
    subst hc
    simp [serCell, deCell, SNode.memAt, hl, ConfS]
  | .delay s n, (k, .delay r), st, hc, _, hl => by
    simp only [CanonCell] at hc
    simp only [LCell.site] at hl
    obtain ⟨rfl, h1, h2, h3⟩ := hc
    have hr : st.ringAt n k = r := by simp [SNode.ringAt, hl]
    simp only [serCell, deCell, ConfS, hr]
    refine ⟨?_, h1, h2, h3⟩
    simp [Ring.words, toNat_toUInt64_of_lt _ h2, toNat_toUInt64_of_lt _ h3, ← h1]
  | .child s self cells, (k, .child nd), st, hc, hlay, hl => by
    simp only [CanonCell] at hc
    simp only [LCell.site] at hl
    simp only [LayOk] at hlay
    obtain ⟨rfl, h1, h2⟩ := hc
    have hch : st.childAt k = nd := by simp [SNode.childAt, hl]
    have ih := de_ser_cells cells nd.cells nd h2 hlay (fun _ _ => rfl)
    have hso := canonSelf_selfOk self nd h1
    have hlen := selfWords_length self nd hso
    simp only [serCell, deCell, ConfS, hch]
    refine ⟨?_, canonSelf_selfOkS self nd h1, ih.2⟩
    rw [take_left' _ _ _ hlen, drop_left' _ _ _ hlen, deSelf_selfWords self nd h1, ih.1]
    cases nd; rfl
  | .mem _, (_, .delay _), _, hc, _, _ => by simp [CanonCell] at hc
  | .mem _, (_, .child _), _, hc, _, _ => by simp [CanonCell] at hc
  | .delay _ _, (_, .mem _), _, hc, _, _ => by simp [CanonCell] at hc
  | .delay _ _, (_, .child _), _, hc, _, _ => by simp [CanonCell] at hc
  | .child _ _ _, (_, .mem _), _, hc, _, _ => by simp [CanonCell] at hc
  | .child _ _ _, (_, .delay _), _, hc, _, _ => by simp [CanonCell] at hc
theorem de_ser_cells : ∀ (cs : List LCell) (xs : List (Nat × SCell)) (st : SNode), CanonCells cs xs → LayOkL cs →
    (∀ s ∈ sitesOf cs, lookupCell st.cells s = lookupCell xs s) → deCells cs (serCells cs st) = xs ∧ ConfSL cs st
  | [], [], _, _, _, _ => by simp [deCells, ConfSL]
  | [], _ :: _, _, hc, _, _ => by simp [CanonCells] at hc
  | _ :: _, [], _, hc, _, _ => by simp [CanonCells] at hc
  | c :: cs, x :: xs, st, hc, hlay, hl => by
    simp only [CanonCells] at hc
    simp only [LayOkL] at hlay
    obtain ⟨hl1, hnotin, hl2⟩ := hlay
    have hsite := canon_site c x hc.1
    have hhead : lookupCell st.cells c.site = some x.2 := by
      rw [hl c.site (by simp [sitesOf])]
      obtain ⟨k, cell⟩ := x
      simp only at hsite
      simp [lookupCell, hsite]
    have htail : ∀ s ∈ sitesOf cs, lookupCell st.cells s = lookupCell xs s := by
      intro s hs
      rw [hl s (by simp [sitesOf, hs])]
      obtain ⟨k, cell⟩ := x
      simp only at hsite
      have : (k == s) = false := by
        simp only [beq_eq_false_iff_ne, ne_eq, hsite]
        intro e; exact hnotin (e ▸ hs)
      simp [lookupCell, this]
    have h1 := de_ser_cell c x st hc.1 hl1 hhead
    have h2 := de_ser_cells cs xs st hc.2 hl2 htail
    have hlen := serCell_length c st (confS_conf c st h1.2)
    simp only [serCells, deCells, ConfSL]
    rw [take_left' _ _ _ hlen, drop_left' _ _ _ hlen, h1.1, h2.1]
    exact ⟨rfl, h1.2, h2.2⟩
end

theorem canon_conformsS (lay : LNode) (st : SNode) (hl : lay.Ok) (h : Canon lay st) : ConformsS lay st :=
  ⟨canonSelf_selfOkS _ _ h.1, (de_ser_cells lay.cells st.cells st h.2 hl (fun _ _ => rfl)).2⟩

theorem canon_conforms (lay : LNode) (st : SNode) (hl : lay.Ok) (h : Canon lay st) : Conforms lay st :=
  conformsS_conforms lay st (canon_conformsS lay st hl h)

theorem deserialize_serialize (lay : LNode) (st : SNode) (hl : lay.Ok) (h : Canon lay st) :
    deserialize lay (serialize lay st) = st := by
  have hso := canonSelf_selfOk _ _ h.1
  have hlen := selfWords_length _ _ hso
  have ih := de_ser_cells lay.cells st.cells st h.2 hl (fun _ _ => rfl)
  simp only [deserialize, serialize]
  rw [take_left' _ _ _ hlen, drop_left' _ _ _ hlen, deSelf_selfWords _ _ h.1, ih.1]
  cases st; rfl

/-! ### serialize ∘ deserialize -/

mutual
theorem ser_de_cell : ∀ (c : LCell) (ws : List UInt64) (st : SNode), ws.length = c.size → LayOk c →
    lookupCell st.cells c.site = some (deCell c ws).2 → serCell c st = ws ∧ CanonCell c (deCell c ws)
  | .mem s, ws, st, hlen, _, hl => by
    simp only [LCell.size] at hlen
    simp only [LCell.site, deCell] at hl
    match ws, hlen with
    | [w], _ => simp [serCell, deCell, CanonCell, SNode.memAt, hl]
  | .delay s n, ws, st, hlen, _, hl => by
    simp only [LCell.size, delayExtra_eq] at hlen
    simp only [LCell.site, deCell] at hl
    match ws, hlen with
    | [], hlen => simp at hlen; omega
    | [_], hlen => simp at hlen; omega
    | a :: b :: rest, hlen =>
      have hr : rest.length = n := by simp at hlen; omega
      simp only [serCell, deCell, CanonCell, SNode.ringAt, hl]
      refine ⟨?_, trivial, ?_, ?_, ?_⟩
      · simp [Ring.words, Nat.toUInt64, ← hr]
      · simp [← hr]
      · simpa using UInt64.toNat_lt a
      · simpa using UInt64.toNat_lt b
  | .child s self cells, ws, st, hlen, hlay, hl => by
    simp only [LCell.size] at hlen
    simp only [LCell.site, deCell] at hl
    simp only [LayOk] at hlay
    have hch : st.childAt s = .mk (deSelf self (ws.take (selfSize self))) (deCells cells (ws.drop (selfSize self))) := by
      simp [SNode.childAt, hl]
    have hs := selfWords_deSelf self (ws.take (selfSize self)) (deCells cells (ws.drop (selfSize self)))
      (by rw [List.length_take]; omega)
    have ih := ser_de_cells cells (ws.drop (selfSize self))
      (.mk (deSelf self (ws.take (selfSize self))) (deCells cells (ws.drop (selfSize self))))
      (by rw [List.length_drop]; omega) hlay (fun _ _ => rfl)
    simp only [serCell, deCell, CanonCell, hch, hs.1, ih.1, List.take_append_drop, SNode.selfv, SNode.cells]
    exact ⟨trivial, trivial, hs.2, ih.2⟩
theorem ser_de_cells : ∀ (cs : List LCell) (ws : List UInt64) (st : SNode), ws.length = sizeCells cs → LayOkL cs →
    (∀ s ∈ sitesOf cs, lookupCell st.cells s = lookupCell (deCells cs ws) s) →
    serCells cs st = ws ∧ CanonCells cs (deCells cs ws)
  | [], ws, _, hlen, _, _ => by
    simp only [sizeCells] at hlen
    simp [serCells, deCells, CanonCells, List.eq_nil_of_length_eq_zero hlen]
  | c :: cs, ws, st, hlen, hlay, hl => by
    simp only [sizeCells] at hlen
    simp only [LayOkL] at hlay
    obtain ⟨hl1, hnotin, hl2⟩ := hlay
    have hsite : (deCell c (ws.take c.size)).1 = c.site := by cases c <;> simp [deCell, LCell.site]
    have hhead : lookupCell st.cells c.site = some (deCell c (ws.take c.size)).2 := by
      rw [hl c.site (by simp [sitesOf])]
      simp only [deCells]
      generalize deCell c (ws.take c.size) = x at hsite
      obtain ⟨k, cell⟩ := x
      simp only at hsite
      simp [lookupCell, hsite]
    have htail : ∀ s ∈ sitesOf cs, lookupCell st.cells s = lookupCell (deCells cs (ws.drop c.size)) s := by
      intro s hs
      rw [hl s (by simp [sitesOf, hs])]
      simp only [deCells]
      generalize deCell c (ws.take c.size) = x at hsite
      obtain ⟨k, cell⟩ := x
      simp only at hsite
      have : (k == s) = false := by
        simp only [beq_eq_false_iff_ne, ne_eq, hsite]
        intro e; exact hnotin (e ▸ hs)
      simp [lookupCell, this]
    have h1 := ser_de_cell c (ws.take c.size) st (by rw [List.length_take]; omega) hl1 hhead
    have h2 := ser_de_cells cs (ws.drop c.size) st (by rw [List.length_drop]; omega) hl2 htail
    simp only [serCells, deCells, CanonCells, h1.1, h2.1, List.take_append_drop]
    exact ⟨trivial, h1.2, h2.2⟩
end

theorem serialize_deserialize (lay : LNode) (ws : List UInt64) (hl : lay.Ok) (hlen : ws.length = lay.size) :
    serialize lay (deserialize lay ws) = ws ∧ Canon lay (deserialize lay ws) := by
  simp only [LNode.size] at hlen
  have hs := selfWords_deSelf lay.self (ws.take (selfSize lay.self)) (deCells lay.cells (ws.drop (selfSize lay.self)))
    (by rw [List.length_take]; omega)
  have ih := ser_de_cells lay.cells (ws.drop (selfSize lay.self)) (deserialize lay ws)
    (by rw [List.length_drop]; omega) hl (fun _ _ => rfl)
  simp only [serialize, Canon]
  refine ⟨?_, hs.2, ih.2⟩
  rw [ih.1]
  simp only [deserialize, hs.1, List.take_append_drop]

end Mimium.FlatTree
