import Mimium.Proofs.Publish
import Mimium.Proofs.FlatTreeTrace
/-!
Dropping the children that are functions without state (`pruneSk`: what `emit_fncall` does when `!is_stateful()`)
changes neither the size of a well-formed skeleton, nor the offset of any remaining cell, nor the access sequence the
skeleton prescribes: the skeleton the compiler publishes (`publishedSk lay`) and the erasure of the labelled layout
(`lay.sk`, which keeps a zero-sized child for every call of a stateless function) mean the same.
-/
namespace Mimium.Publish
open Mimium.Core Mimium.StateTree Mimium.FlatTree Mimium.Layout

/-- a child list without `Feed` cells: the `fn` node has no `self` -/
theorem fn_of_WFL (l : List Sk) (h : WFL l = true) :
    WF (.fn l) = true ∧ ∀ b, expectedTrace (.fn l) b = expectedTraceL l b := by
  cases l with
  | nil => simp [WF, WFL, expectedTrace]
  | cons c l =>
    cases c with
    | feed s => simp [WFL, WF] at h
    | mem s => exact ⟨by simpa [WF] using h, fun b => by simp [expectedTrace]⟩
    | delay n => exact ⟨by simpa [WF] using h, fun b => by simp [expectedTrace]⟩
    | fn cs => exact ⟨by simpa [WF] using h, fun b => by simp [expectedTrace]⟩

mutual
theorem pruneSk_spec : ∀ sk : Sk, WF sk = true →
    WF (pruneSk sk) = true ∧ (pruneSk sk).size = sk.size ∧ ∀ b, expectedTrace (pruneSk sk) b = expectedTrace sk b
  | .mem s, h => by simp [pruneSk, h]
  | .delay n, h => by simp [pruneSk, h]
  | .feed s, h => by simp [WF] at h
  | .fn [], h => by simp [pruneSk, pruneL, h]
  | .fn (.feed s :: rest), h => by
    have hr : WFL rest = true := by simpa [WF] using h
    obtain ⟨w, z, t⟩ := pruneL_spec rest hr
    have e : pruneSk (.fn (.feed s :: rest)) = .fn (.feed s :: pruneL rest) := by simp [pruneSk, pruneL]
    rw [e]
    refine ⟨by simpa [WF] using w, by simp [Sk.size, sizeL, z], fun b => ?_⟩
    simp [expectedTrace, t]
  | .fn (.mem s :: rest), h => by
    have hw : WFL (.mem s :: rest) = true := by simpa [WF] using h
    obtain ⟨w, z, t⟩ := pruneL_spec (.mem s :: rest) hw
    rw [pruneSk]
    exact ⟨(fn_of_WFL _ w).1, by simp [Sk.size, z], fun b => by rw [(fn_of_WFL _ w).2, (fn_of_WFL _ hw).2, t]⟩
  | .fn (.delay n :: rest), h => by
    have hw : WFL (.delay n :: rest) = true := by simpa [WF] using h
    obtain ⟨w, z, t⟩ := pruneL_spec (.delay n :: rest) hw
    rw [pruneSk]
    exact ⟨(fn_of_WFL _ w).1, by simp [Sk.size, z], fun b => by rw [(fn_of_WFL _ w).2, (fn_of_WFL _ hw).2, t]⟩
  | .fn (.fn cs :: rest), h => by
    have hw : WFL (.fn cs :: rest) = true := by simpa [WF] using h
    obtain ⟨w, z, t⟩ := pruneL_spec (.fn cs :: rest) hw
    rw [pruneSk]
    exact ⟨(fn_of_WFL _ w).1, by simp [Sk.size, z], fun b => by rw [(fn_of_WFL _ w).2, (fn_of_WFL _ hw).2, t]⟩
theorem pruneL_spec : ∀ cs : List Sk, WFL cs = true →
    WFL (pruneL cs) = true ∧ sizeL (pruneL cs) = sizeL cs ∧ ∀ b, expectedTraceL (pruneL cs) b = expectedTraceL cs b
  | [], h => by simp [pruneL, h]
  | c :: cs, h => by
    simp only [WFL, Bool.and_eq_true] at h
    obtain ⟨wc, zc, tc⟩ := pruneSk_spec c h.1
    obtain ⟨w, z, t⟩ := pruneL_spec cs h.2
    rw [pruneL]
    split
    · rename_i e
      rw [e] at zc tc
      have z0 : c.size = 0 := by simpa [Sk.size, sizeL] using zc.symm
      refine ⟨w, by simp [sizeL, z, z0], fun b => ?_⟩
      have : expectedTrace c b = [] := by rw [← tc b]; simp [expectedTrace, expectedTraceL]
      simp [expectedTraceL, this, z0, t]
    · refine ⟨by simp [WFL, wc, w], by simp [sizeL, zc, z], fun b => ?_⟩
      simp [expectedTraceL, tc, zc, t]
end

/-- the published skeleton of a labelled layout: well formed, the same total size, the same prescribed accesses -/
theorem publishedSk_spec (lay : LNode) :
    WF (publishedSk lay) = true ∧ (publishedSk lay).size = lay.sk.size ∧
    ∀ b, expectedTrace (publishedSk lay) b = expectedTrace lay.sk b :=
  pruneSk_spec lay.sk (LNode.sk_WF lay)

end Mimium.Publish
