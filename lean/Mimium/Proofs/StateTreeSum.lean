import Mimium.Proofs.StateTreeLcs
import Mimium.Proofs.StateTreeDiff
import Mimium.Model.StateTreeCheck
/-!
Bookkeeping for the survivor theorems: `carried` as a sum, its behaviour under `dedup` / `collect`, sums over the
`Common` pairs, and "a sorted patch list that carries as many words as the storage has covers every word".
-/
namespace Mimium.StateTree

/-! ### `carried` -/

theorem foldl_add_init (l : List Nat) (a : Nat) : l.foldl (· + ·) a = a + l.foldl (· + ·) 0 := by
  induction l generalizing a with
  | nil => simp
  | cons x xs ih => simp only [List.foldl_cons]; rw [ih (a + x), ih (0 + x)]; omega

@[simp] theorem carried_nil : carried [] = 0 := rfl

@[simp] theorem carried_cons (p : Patch) (ps : List Patch) : carried (p :: ps) = p.size + carried ps := by
  unfold carried
  simp only [List.map_cons, List.foldl_cons]
  rw [foldl_add_init]; omega

theorem carried_append (ps qs : List Patch) : carried (ps ++ qs) = carried ps + carried qs := by
  induction ps with
  | nil => simp
  | cons p ps ih => simp [ih]; omega

theorem carried_map_shift (a b : Nat) (ps : List Patch) : carried (ps.map (Patch.shift a b)) = carried ps := by
  induction ps with
  | nil => simp
  | cons p ps ih => simp [ih, Patch.shift]

theorem carried_filter_ne (p : Patch) : ∀ (l : List Patch), (∀ q ∈ l, q = p → q.size = 0) →
    carried (l.filter (fun q => q != p)) = carried l
  | [], _ => rfl
  | q :: l, h => by
    have ih := carried_filter_ne p l (fun r hr => h r (List.mem_cons_of_mem _ hr))
    by_cases hq : q = p
    · have h0 := h q List.mem_cons_self hq
      have e : (q != p) = false := by simp [hq]
      rw [List.filter_cons_of_neg (p := fun q => q != p) (by simp [e]), ih, carried_cons]; omega
    · have e : (q != p) = true := by simp [hq]
      rw [List.filter_cons_of_pos (p := fun q => q != p) e, carried_cons, carried_cons, ih]

/-- removing duplicates from a sorted list only removes empty patches -/
theorem carried_dedup : ∀ (ps : List Patch), Sorted ps → carried (dedup ps) = carried ps
  | [], _ => rfl
  | p :: ps, h => by
    unfold Sorted at h
    rw [List.pairwise_cons] at h
    simp only [dedup, carried_cons]
    rw [carried_filter_ne, carried_dedup ps h.2]
    intro q hq hqp
    have hb := h.1 q ((mem_dedup ps q).1 hq)
    subst hqp
    simp only [Patch.Before] at hb
    omega

/-! ### sums over pairs -/

def psum (g : Nat × Nat → Nat) : List (Nat × Nat) → Nat
  | [] => 0
  | p :: rest => g p + psum g rest

theorem psum_congr {g g' : Nat × Nat → Nat} : ∀ (cm : List (Nat × Nat)), (∀ p ∈ cm, g p = g' p) →
    psum g cm = psum g' cm
  | [], _ => rfl
  | p :: rest, h => by
    simp only [psum]
    rw [h p List.mem_cons_self, psum_congr rest (fun q hq => h q (List.mem_cons_of_mem _ hq))]

theorem wsum_eq_psum (s : Nat → Nat → Nat) : ∀ (cm : List (Nat × Nat)), wsum s cm = psum (fun p => s p.1 p.2) cm
  | [] => rfl
  | (i, j) :: rest => by simp [wsum, psum, wsum_eq_psum s rest]

theorem psum_one : ∀ (cm : List (Nat × Nat)), psum (fun _ => 1) cm = cm.length
  | [] => rfl
  | _ :: rest => by simp [psum, psum_one rest]; omega

theorem carried_collect (ocs ncs : List Sk) (tbl : List (List (List Patch))) : ∀ (cm : List (Nat × Nat)),
    carried (collect ocs ncs tbl cm) = psum (fun p => carried (tblGet tbl p.1 p.2)) cm
  | [] => rfl
  | (i, j) :: rest => by
    simp only [collect, psum, carried_append, carried_map_shift, carried_collect ocs ncs tbl rest]

theorem IncFrom.mem {n m : Nat} : ∀ {cm : List (Nat × Nat)} {i0 j0 : Nat}, IncFrom n m i0 j0 cm →
    ∀ p ∈ cm, i0 ≤ p.1 ∧ j0 ≤ p.2 ∧ p.1 < n ∧ p.2 < m
  | [], _, _, _, p, hp => by simp at hp
  | (o, k) :: rest, i0, j0, h, p, hp => by
    simp only [IncFrom] at h
    obtain ⟨h1, h2, h3, h4, h5⟩ := h
    rw [List.mem_cons] at hp
    rcases hp with hp | hp
    · subst hp; exact ⟨h1, h2, h3, h4⟩
    · have := IncFrom.mem h5 p hp
      omega

/-- if every index `k ∈ [i0, n)` with `f k > 0` is the first component of a pair of the chain, summing `f` over
the chain's first components gives the whole sum -/
theorem psum_rows (f : Nat → Nat) (n m : Nat) : ∀ (cm : List (Nat × Nat)) (i0 j0 : Nat),
    IncFrom n m i0 j0 cm → i0 ≤ n → (∀ k, i0 ≤ k → k < n → 0 < f k → ∃ l, (k, l) ∈ cm) →
    sumTo f i0 + psum (fun p => f p.1) cm = sumTo f n
  | [], i0, j0, _, hi, h => by
    simp only [psum, Nat.add_zero]
    apply sumTo_eq_of_zero f hi
    intro k h1 h2
    by_cases hf : 0 < f k
    · obtain ⟨l, hl⟩ := h k h1 h2 hf
      simp at hl
    · omega
  | (o, k) :: rest, i0, j0, hinc, hi, h => by
    have hinc' := hinc
    simp only [IncFrom] at hinc
    obtain ⟨h1, h2, h3, h4, h5⟩ := hinc
    have hz : sumTo f i0 = sumTo f o := by
      apply sumTo_eq_of_zero f h1
      intro k' hk1 hk2
      by_cases hf : 0 < f k'
      · obtain ⟨l, hl⟩ := h k' hk1 (by omega) hf
        rw [List.mem_cons] at hl
        rcases hl with hl | hl
        · simp only [Prod.mk.injEq] at hl; omega
        · have := IncFrom.mem h5 _ hl
          simp only at this; omega
      · omega
    have ih := psum_rows f n m rest (o+1) (k+1) h5 (by omega) (by
      intro k' hk1 hk2 hf
      obtain ⟨l, hl⟩ := h k' (by omega) hk2 hf
      rw [List.mem_cons] at hl
      rcases hl with hl | hl
      · simp only [Prod.mk.injEq] at hl; omega
      · exact ⟨l, hl⟩)
    simp only [psum, sumTo_succ] at ih ⊢
    omega

/-- the mirror image for second components -/
theorem psum_cols (f : Nat → Nat) (n m : Nat) : ∀ (cm : List (Nat × Nat)) (i0 j0 : Nat),
    IncFrom n m i0 j0 cm → j0 ≤ m → (∀ l, j0 ≤ l → l < m → 0 < f l → ∃ k, (k, l) ∈ cm) →
    sumTo f j0 + psum (fun p => f p.2) cm = sumTo f m
  | [], i0, j0, _, hj, h => by
    simp only [psum, Nat.add_zero]
    apply sumTo_eq_of_zero f hj
    intro l h1 h2
    by_cases hf : 0 < f l
    · obtain ⟨k, hk⟩ := h l h1 h2 hf
      simp at hk
    · omega
  | (o, k) :: rest, i0, j0, hinc, hj, h => by
    simp only [IncFrom] at hinc
    obtain ⟨h1, h2, h3, h4, h5⟩ := hinc
    have hz : sumTo f j0 = sumTo f k := by
      apply sumTo_eq_of_zero f h2
      intro l' hl1 hl2
      by_cases hf : 0 < f l'
      · obtain ⟨k', hk'⟩ := h l' hl1 (by omega) hf
        rw [List.mem_cons] at hk'
        rcases hk' with hk' | hk'
        · simp only [Prod.mk.injEq] at hk'; omega
        · have := IncFrom.mem h5 _ hk'
          simp only at this; omega
      · omega
    have ih := psum_cols f n m rest (o+1) (k+1) h5 (by omega) (by
      intro l' hl1 hl2 hf
      obtain ⟨k', hk'⟩ := h l' (by omega) hl2 hf
      rw [List.mem_cons] at hk'
      rcases hk' with hk' | hk'
      · simp only [Prod.mk.injEq] at hk'; omega
      · exact ⟨k', hk'⟩)
    simp only [psum, sumTo_succ] at ih ⊢
    omega

/-- `sumTo` of the child sizes is the offset -/
theorem sumTo_sizes (cs : List Sk) : ∀ (i : Nat), i ≤ cs.length →
    sumTo (fun k => (cs.getD k (.fn [])).size) i = offsetOf cs i
  | 0, _ => by simp
  | i+1, h => by
    have hi : i < cs.length := by omega
    rw [sumTo_succ, sumTo_sizes cs i (by omega), offsetOf_succ cs i hi]
    simp [List.getD, hi]

theorem offsetOf_length (cs : List Sk) : offsetOf cs cs.length = sizeL cs := by
  simp [offsetOf]

/-! ### a sorted patch list that carries everything covers every word -/

theorem carried_le_src : ∀ (ps : List Patch) (lo hi : Nat), Sorted ps →
    (∀ p ∈ ps, lo ≤ p.src ∧ p.src + p.size ≤ hi) → lo ≤ hi → carried ps + lo ≤ hi
  | [], lo, hi, _, _, h => by simpa using h
  | p :: ps, lo, hi, hs, hb, h => by
    unfold Sorted at hs
    rw [List.pairwise_cons] at hs
    have hp := hb p List.mem_cons_self
    have ih := carried_le_src ps (p.src + p.size) hi hs.2 (by
      intro q hq
      have := hs.1 q hq
      have := hb q (List.mem_cons_of_mem _ hq)
      simp only [Patch.Before] at *
      omega) hp.2
    simp only [carried_cons]; omega

theorem covers_src : ∀ (ps : List Patch) (lo hi : Nat), Sorted ps →
    (∀ p ∈ ps, lo ≤ p.src ∧ p.src + p.size ≤ hi) → lo ≤ hi → carried ps + lo = hi →
    ∀ w, lo ≤ w → w < hi → ∃ p ∈ ps, p.src ≤ w ∧ w < p.src + p.size
  | [], lo, hi, _, _, _, he, w, h1, h2 => by simp at he; omega
  | p :: ps, lo, hi, hs, hb, h, he, w, h1, h2 => by
    have hs' := hs
    unfold Sorted at hs
    rw [List.pairwise_cons] at hs
    have hp := hb p List.mem_cons_self
    have hb' : ∀ q ∈ ps, p.src + p.size ≤ q.src ∧ q.src + q.size ≤ hi := by
      intro q hq
      have := hs.1 q hq
      have := hb q (List.mem_cons_of_mem _ hq)
      simp only [Patch.Before] at *
      omega
    have hle := carried_le_src ps (p.src + p.size) hi hs.2 hb' hp.2
    simp only [carried_cons] at he
    by_cases hw : w < p.src + p.size
    · exact ⟨p, List.mem_cons_self, by omega, hw⟩
    · obtain ⟨q, hq, hq'⟩ := covers_src ps (p.src + p.size) hi hs.2 hb' hp.2 (by omega) w (by omega) h2
      exact ⟨q, List.mem_cons_of_mem _ hq, hq'⟩

theorem carried_le_dst : ∀ (ps : List Patch) (lo hi : Nat), Sorted ps →
    (∀ p ∈ ps, lo ≤ p.dst ∧ p.dst + p.size ≤ hi) → lo ≤ hi → carried ps + lo ≤ hi
  | [], lo, hi, _, _, h => by simpa using h
  | p :: ps, lo, hi, hs, hb, h => by
    unfold Sorted at hs
    rw [List.pairwise_cons] at hs
    have hp := hb p List.mem_cons_self
    have ih := carried_le_dst ps (p.dst + p.size) hi hs.2 (by
      intro q hq
      have := hs.1 q hq
      have := hb q (List.mem_cons_of_mem _ hq)
      simp only [Patch.Before] at *
      omega) hp.2
    simp only [carried_cons]; omega

theorem covers_dst : ∀ (ps : List Patch) (lo hi : Nat), Sorted ps →
    (∀ p ∈ ps, lo ≤ p.dst ∧ p.dst + p.size ≤ hi) → lo ≤ hi → carried ps + lo = hi →
    ∀ w, lo ≤ w → w < hi → ∃ p ∈ ps, p.dst ≤ w ∧ w < p.dst + p.size
  | [], lo, hi, _, _, _, he, w, h1, h2 => by simp at he; omega
  | p :: ps, lo, hi, hs, hb, h, he, w, h1, h2 => by
    unfold Sorted at hs
    rw [List.pairwise_cons] at hs
    have hp := hb p List.mem_cons_self
    have hb' : ∀ q ∈ ps, p.dst + p.size ≤ q.dst ∧ q.dst + q.size ≤ hi := by
      intro q hq
      have := hs.1 q hq
      have := hb q (List.mem_cons_of_mem _ hq)
      simp only [Patch.Before] at *
      omega
    have hle := carried_le_dst ps (p.dst + p.size) hi hs.2 hb' hp.2
    simp only [carried_cons] at he
    by_cases hw : w < p.dst + p.size
    · exact ⟨p, List.mem_cons_self, by omega, hw⟩
    · obtain ⟨q, hq, hq'⟩ := covers_dst ps (p.dst + p.size) hi hs.2 hb' hp.2 (by omega) w (by omega) h2
      exact ⟨q, List.mem_cons_of_mem _ hq, hq'⟩

theorem carried_le_old (o n : Sk) : carried (diff o n) ≤ o.size := by
  have g := diff_good o n
  simpa using carried_le_src (diff o n) 0 o.size g.sorted (fun p hp => ⟨Nat.zero_le _, (g.within p hp).1⟩)
    (Nat.zero_le _)

theorem carried_le_new (o n : Sk) : carried (diff o n) ≤ n.size := by
  have g := diff_good o n
  simpa using carried_le_dst (diff o n) 0 n.size g.sorted (fun p hp => ⟨Nat.zero_le _, (g.within p hp).2⟩)
    (Nat.zero_le _)

end Mimium.StateTree
