import Mimium.Proofs.EvalShift
import Mimium.Proofs.LiveCodingVoice
/-!
# lemmas about `Model/LiveCoding.lean` (5): what a voice program computes, voice by voice

`dsp() = let c_1 = f_1(k_1); …; let c_m = f_m(k_m); (c_a, c_b, …)` in a program without globals whose functions are first
order and single assignment.  One sample of `dsp` evaluates every voice against its own child node; the value and the next
child of voice `v` are those of the program that contains `v`'s function ALONE (`eval_shift`: the evaluation does not
depend on the store position, on the other functions of the program, nor — once it succeeds — on the fuel); the other voices
do not touch `v`'s site (`eval_frame`) and the store only grows, so the tuple returned at the end holds `v`'s value.
-/
namespace Mimium.LiveCoding
open Mimium.Core Mimium.Cells Mimium.FlatTree Mimium.Publish

theorem SubProg.refl (P : Prog) : SubProg P P := fun _ _ h => h

theorem envRel_self (env : Env) : EnvRel 0 0 env env := by
  intro x
  cases h : env.lookup x with
  | none => exact Or.inl ⟨rfl, rfl⟩
  | some l => exact Or.inr ⟨l, l, rfl, rfl, Nat.zero_le _, Nat.zero_le _, rfl⟩

theorem storeRel_self (σ : Store) : StoreRel 0 0 σ σ := ⟨Nat.zero_le _, Nat.zero_le _, rfl⟩

/-- in a simple program the store only grows -/
theorem eval_store_grows (P : Prog) (hP : SimpleProg P) (rt : Rt) (n : Nat) (e : Expr) (hs : simpleE e = true) (env : Env)
    (σ : Store) (st : SNode) (v : Val) (σ' : Store) (st' : SNode) (h : eval n P rt env e σ st = .ok (v, σ', st')) :
    ∃ X, σ' = σ ++ X := by
  obtain ⟨X, e1, _⟩ := (eval_shift P P hP.1 hP.1 hP.2 (SubProg.refl P) rt n).1 e n env env σ σ 0 0 st v σ' st' (Nat.le_refl _) hs
    (envRel_self env) (storeRel_self σ) h
  exact ⟨X, e1⟩

theorem simple_call_lit (f : String) (c : UInt64) (s : Nat) : simpleE (.call f [.lit c] s) = true := by
  simp [simpleE, simpleL]

theorem sitesE_call_lit (f : String) (c : UInt64) (s : Nat) : sitesE (.call f [.lit c] s) = [s] := by
  simp [sitesE, siteLens, siteLensL]

/-- a call with a literal argument: what `eval` does -/
theorem call_lit_ok (P : Prog) (rt : Rt) (k : Nat) (env : Env) (f : String) (c : UInt64) (s : Nat) (σ : Store) (st : SNode)
    (w : Val) (σ1 : Store) (st1 : SNode) (h : eval k P rt env (.call f [.lit c] s) σ st = .ok (w, σ1, st1)) :
    ∃ k' d c1, k = k' + 3 ∧ findFn P.fns f = some d ∧
      eval (k' + 2) P rt (bindAll (globalEnv P) σ d.params [.num c]).1 d.body (bindAll (globalEnv P) σ d.params [.num c]).2
        (FlatTree.initSelf d.selfShape (st.childAt s)) = .ok (w, σ1, c1) ∧
      st1 = st.setCell s (.child (finSelf d.selfShape c1 w)) := by
  cases k with
  | zero => rw [eval_zero] at h; simp at h
  | succ k =>
    rw [eval_call] at h
    obtain ⟨⟨vs, σa, ta⟩, h1, h⟩ := andThen_ok h
    cases k with
    | zero => rw [evalList_zero] at h1; simp at h1
    | succ k =>
      rw [evalList_cons] at h1
      obtain ⟨⟨v1, s1, t1⟩, h2, h1⟩ := andThen_ok h1
      cases k with
      | zero => rw [eval_zero] at h2; simp at h2
      | succ k =>
        rw [eval_lit] at h2
        simp only [Except.ok.injEq, Prod.mk.injEq] at h2; obtain ⟨rfl, rfl, rfl⟩ := h2
        rw [evalList_nil] at h1
        simp only [Core.andThen, Except.ok.injEq, Prod.mk.injEq] at h1; obtain ⟨rfl, rfl, rfl⟩ := h1
        simp only [callRest] at h
        cases hf : findFn P.fns f with
        | none => simp [hf] at h
        | some d =>
          simp only [hf] at h
          split at h
          · simp at h
          · obtain ⟨⟨v2, s2, c1⟩, h2, h⟩ := andThen_ok h
            simp only [Except.ok.injEq, Prod.mk.injEq] at h; obtain ⟨rfl, rfl, rfl⟩ := h
            exact ⟨k, d, c1, rfl, rfl, by simpa [core_initSelf] using h2, by rw [core_finishSelf]⟩

theorem voicesBody_append (pre rest : List Voice) (out : Expr) :
    voicesBody (pre ++ rest) out = voicesBody pre (voicesBody rest out) := by
  induction pre with
  | nil => rfl
  | cons u pre ih => simp [voicesBody, ih]

/-- evaluating the `let`s of a prefix of the voices: the rest runs with less fuel, a grown store, a state that differs only
at the prefix's sites, and an environment that differs only at the prefix's names -/
theorem skip_prefix (P : Prog) (hP : SimpleProg P) (rt : Rt) (body : Expr) : ∀ (pre : List Voice) (n : Nat) (env : Env)
    (σ : Store) (st : SNode) (r : Val × Store × SNode),
    eval n P rt env (voicesBody pre body) σ st = .ok r →
    ∃ env' X st₁, pre.length ≤ n ∧ eval (n - pre.length) P rt env' body (σ ++ X) st₁ = .ok r ∧
      Frame (pre.map (·.site)) st st₁ ∧ (∀ x, x ∉ pre.map (·.name) → env'.lookup x = env.lookup x)
  | [], n, env, σ, st, r, h => ⟨env, [], st, Nat.zero_le _, by simpa [voicesBody] using h, Frame.refl _ _, fun _ _ => rfl⟩
  | u :: pre, n, env, σ, st, r, h => by
    cases n with
    | zero => rw [eval_zero] at h; simp at h
    | succ n =>
      simp only [voicesBody] at h
      rw [eval_letE] at h
      obtain ⟨⟨w, σ1, st1⟩, h1, h⟩ := andThen_ok h
      simp only at h
      obtain ⟨X1, eX1⟩ := eval_store_grows P hP rt n _ (simple_call_lit _ _ _) env σ st w σ1 st1 h1
      subst eX1
      have hf1 := (eval_frame P rt n).1 _ _ _ _ _ _ _ h1
      rw [sitesE_call_lit] at hf1
      obtain ⟨env', X, st₁, hl, he, hfr, hen⟩ := skip_prefix P hP rt body pre n _ _ _ r h
      refine ⟨env', X1 ++ ([w] ++ X), st₁, by simp; omega, ?_, ?_, ?_⟩
      · simpa [List.append_assoc] using he
      · simpa using hf1.seq hfr
      · intro x hx
        simp only [List.map_cons, List.mem_cons, not_or] at hx
        rw [hen x hx.2]
        have : (x == u.name) = false := by simpa using hx.1
        simp [List.lookup, this]

/-- the observed tuple: every component is the store content of its variable; nothing else happens -/
theorem evalList_vars (P : Prog) (rt : Rt) : ∀ (obs : List String) (j : Nat) (env : Env) (σ : Store) (st : SNode)
    (vals : List Val) (σ' : Store) (st' : SNode),
    evalList j P rt env (obs.map .var) σ st = .ok (vals, σ', st') →
    σ' = σ ∧ st' = st ∧ vals.length = obs.length ∧
      ∀ (i : Nat) (x : String) (l : Nat), obs[i]? = some x → env.lookup x = some l → vals[i]? = σ[l]?
  | [], j, env, σ, st, vals, σ', st', h => by
    cases j with
    | zero => rw [evalList_zero] at h; simp at h
    | succ j =>
      simp only [List.map_nil] at h
      rw [evalList_nil] at h
      simp only [Except.ok.injEq, Prod.mk.injEq] at h; obtain ⟨rfl, rfl, rfl⟩ := h
      exact ⟨rfl, rfl, rfl, fun i x l hi => by simp at hi⟩
  | y :: obs, j, env, σ, st, vals, σ', st', h => by
    cases j with
    | zero => rw [evalList_zero] at h; simp at h
    | succ j =>
      simp only [List.map_cons] at h
      rw [evalList_cons] at h
      obtain ⟨⟨v1, s1, t1⟩, h1, h⟩ := andThen_ok h
      obtain ⟨⟨vs2, s2, t2⟩, h2, h⟩ := andThen_ok h
      simp only [Except.ok.injEq, Prod.mk.injEq] at h; obtain ⟨rfl, rfl, rfl⟩ := h
      cases j with
      | zero => rw [eval_zero] at h1; simp at h1
      | succ j =>
        rw [eval_var] at h1
        cases hy : env.lookup y with
        | none => simp [hy] at h1
        | some ly =>
          simp only [hy] at h1
          cases hv : σ[ly]? with
          | none => simp [hv] at h1
          | some vy =>
            simp only [hv, Except.ok.injEq, Prod.mk.injEq] at h1; obtain ⟨rfl, rfl, rfl⟩ := h1
            obtain ⟨e1, e2, e3, e4⟩ := evalList_vars P rt obs (j + 1) env _ _ _ _ _ h2
            refine ⟨e1, e2, by simp [e3], fun i x l hi hl => ?_⟩
            cases i with
            | zero =>
              simp only [List.getElem?_cons_zero, Option.some.injEq] at hi
              subst hi
              rw [hy] at hl; cases hl
              simp [hv]
            | succ i =>
              simp only [List.getElem?_cons_succ] at hi ⊢
              exact e4 i x l hi hl

theorem eval_obs (P : Prog) (rt : Rt) (obs : List String) (j : Nat) (env : Env) (σ : Store) (st : SNode)
    (val : Val) (σ' : Store) (st' : SNode) (h : eval j P rt env (.tup (obs.map .var)) σ st = .ok (val, σ', st')) :
    st' = st ∧ ∃ vals, val = .tup vals ∧ vals.length = obs.length ∧
      ∀ (i : Nat) (x : String) (l : Nat), obs[i]? = some x → env.lookup x = some l → vals[i]? = σ[l]? := by
  cases j with
  | zero => rw [eval_zero] at h; simp at h
  | succ j =>
    rw [eval_tup] at h
    obtain ⟨⟨vals, s1, t1⟩, h1, h⟩ := andThen_ok h
    simp only [Except.ok.injEq, Prod.mk.injEq] at h; obtain ⟨rfl, rfl, rfl⟩ := h
    obtain ⟨_, e2, e3, e4⟩ := evalList_vars P rt obs j env σ st vals _ _ h1
    exact ⟨e2, vals, rfl, e3, e4⟩

theorem childAt_of_frame {J : List Nat} {a b : SNode} (h : Frame J a b) (s : Nat) (hs : s ∉ J) : b.childAt s = a.childAt s := by
  simp [SNode.childAt, h.2 s hs]

/-- **one sample of a voice program, seen from one voice.**  If the voice's function, alone (program `P₀`, fuel `n₀`),
returns `w` and leaves the child `cw` from the voice's current child, then the whole `dsp` body leaves exactly that child
(with `w` stored as `self`) at the voice's site and returns a tuple whose components observing the voice are `w` -/
theorem voice_sample (P P₀ : Prog) (hP : SimpleProg P) (hP₀ : SimpleProg P₀) (hsub : SubProg P₀ P)
    (pre post : List Voice) (v : Voice) (obs : List String)
    (hname : v.name ∉ post.map (·.name)) (hs1 : v.site ∉ pre.map (·.site)) (hs2 : v.site ∉ post.map (·.site))
    (d : FnDecl) (hd : findFn P₀.fns v.f = some d) (rt : Rt) (n n₀ : Nat) (hn : n₀ + pre.length + 3 ≤ n)
    (env : Env) (σ : Store) (st : SNode) (val : Val) (σ' : Store) (st' : SNode)
    (h : eval n P rt env (voicesBody (pre ++ v :: post) (.tup (obs.map .var))) σ st = .ok (val, σ', st'))
    (w : Val) (σw : Store) (cw : SNode)
    (h₀ : eval n₀ P₀ rt (bindAll [] [] d.params [.num v.c]).1 d.body (bindAll [] [] d.params [.num v.c]).2
      (FlatTree.initSelf d.selfShape (st.childAt v.site)) = .ok (w, σw, cw)) :
    st'.childAt v.site = finSelf d.selfShape cw w ∧ ∃ vals, val = .tup vals ∧ vals.length = obs.length ∧
      ∀ (i : Nat), obs[i]? = some v.name → vals[i]? = some w := by
  rw [voicesBody_append] at h
  obtain ⟨env1, X1, st1, hl1, he1, hfr1, _⟩ := skip_prefix P hP rt _ pre n env σ st _ h
  -- the voice itself
  obtain ⟨k, hk⟩ : ∃ k, n - pre.length = k + 1 := ⟨n - pre.length - 1, by omega⟩
  rw [hk] at he1
  simp only [voicesBody] at he1
  rw [eval_letE] at he1
  obtain ⟨⟨w', σ2, st2⟩, hcall, hrest⟩ := andThen_ok he1
  simp only at hrest
  obtain ⟨k', d', c1, ek, hd', hbody, est2⟩ := call_lit_ok P rt k env1 v.f v.c v.site _ st1 w' σ2 st2 hcall
  have hdd : d' = d := by
    have := hsub v.f d hd
    rw [this] at hd'; exact (Option.some.inj hd').symm
  subst hdd
  rw [globalEnv_nil P hP.1, childAt_of_frame hfr1 v.site hs1] at hbody
  -- the alone evaluation, shifted into the program
  obtain ⟨her, Y, eY1, eY2⟩ := bindAll_rel (a₁ := 0) (a₂ := (σ ++ X1).length) d'.params [.num v.c] [] [] [] (σ ++ X1)
    (EnvRel.nil _ _) ⟨Nat.zero_le _, Nat.le_refl _, by simp⟩
  have hst2 : StoreRel 0 (σ ++ X1).length ([] ++ Y) ((σ ++ X1) ++ Y) :=
    StoreRel.append (σ₁ := []) ⟨Nat.zero_le _, Nat.le_refl _, by simp⟩ Y
  rw [eY1] at h₀
  obtain ⟨Z, _, eshift⟩ := (eval_shift P₀ P hP₀.1 hP.1 hP₀.2 hsub rt n₀).1 d'.body (k' + 2) _ _ _ _ _ _ _ _ _ _
    (by omega) (hP₀.2 d' (findFn_mem' hd)) her hst2 h₀
  rw [eY2, eshift] at hbody
  simp only [Except.ok.injEq, Prod.mk.injEq] at hbody
  obtain ⟨rfl, rfl, rfl⟩ := hbody
  -- the voices after it
  obtain ⟨env3, X3, st3, _, he3, hfr3, hen3⟩ := skip_prefix P hP rt _ post k _ _ _ _ hrest
  obtain ⟨est', vals, rfl, hlen, hvals⟩ := eval_obs P rt obs _ env3 _ st3 val σ' st' he3
  refine ⟨?_, vals, rfl, hlen, fun i hi => ?_⟩
  · rw [est', childAt_of_frame hfr3 v.site hs2, est2, childAt_set]
  · have hlk : env3.lookup v.name = some (σ ++ X1 ++ Y ++ Z).length := by
      rw [hen3 v.name hname]; simp [List.lookup]
    rw [hvals i v.name _ hi hlk]
    simp

/-- one `dsp` call of a program whose `dsp` has no parameters and no `self`, on a machine without globals -/
theorem step_no_params (fuel : Nat) (P : Prog) (sr : UInt64) (hP : SimpleProg P) (hpar : P.dsp.params = [])
    (hself : P.dsp.selfShape = none) (root : SNode) (t : Nat) (ins : List UInt64) :
    Machine.step fuel P sr ⟨[], root, t⟩ ins =
      Core.andThen (eval fuel P ⟨natToF64Bits t, sr⟩ [] P.dsp.body [] root)
        (fun r => .ok (flattenVal r.1, ⟨[], r.2.2, t + 1⟩)) := by
  have hi : FlatTree.initSelf none root = root := by unfold FlatTree.initSelf; split <;> simp_all
  rw [machine_step_eq]
  simp only [hpar, hself, globalEnv_nil P hP.1, List.zipIdx_nil, List.map_nil, bindAll, hi, finSelf,
    List.length_nil, List.take_zero]

/-- **the stream of a voice program, seen from one voice.**  Run `k` samples from a machine with `dsp` state `root` at sample
index `t`.  If the voice's function alone (program `P₀ ⊆ P`, fuel `fuel₀`) runs without error from the voice's child node
for these `k` samples, then every output row of the program is the flattened tuple of the observed values, and every channel
that observes the voice carries exactly the values of that alone run (`instRun`) -/
theorem voice_run (P P₀ : Prog) (hP : SimpleProg P) (hP₀ : SimpleProg P₀) (hsub : SubProg P₀ P)
    (pre post : List Voice) (v : Voice) (obs : List String)
    (hname : v.name ∉ post.map (·.name)) (hs1 : v.site ∉ pre.map (·.site)) (hs2 : v.site ∉ post.map (·.site))
    (d : FnDecl) (hd : findFn P₀.fns v.f = some d) (fuel fuel₀ : Nat) (hn : fuel₀ + pre.length + 3 ≤ fuel)
    (sr : UInt64) (inputs : Nat → List UInt64)
    (hpar : P.dsp.params = []) (hself : P.dsp.selfShape = none)
    (hbody : P.dsp.body = voicesBody (pre ++ v :: post) (.tup (obs.map .var))) :
    ∀ (k : Nat) (root : SNode) (t : Nat) (rows : List (List UInt64)),
      sessionFrom fuel sr [] inputs k P ⟨[], root, t⟩ = some rows →
      (∀ o ∈ instRun fuel₀ P₀ d.selfShape d.body (voiceSamples d v.c sr t k) (root.childAt v.site), o ≠ none) →
      ∃ valss : List (List Val), rows = valss.map flattenVals ∧
        ∀ (i : Nat), obs[i]? = some v.name →
          valss.map (fun vals => vals[i]?) =
            instRun fuel₀ P₀ d.selfShape d.body (voiceSamples d v.c sr t k) (root.childAt v.site)
  | 0, root, t, rows, h, _ => by
    simp only [sessionFrom, Option.some.injEq] at h
    subst h
    exact ⟨[], rfl, fun i _ => by simp [voiceSamples, instRun]⟩
  | k + 1, root, t, rows, h, hok => by
    have e0 : swapMany fuel sr (eventsAt [] t) P ⟨[], root, t⟩ = some (P, ⟨[], root, t⟩) := rfl
    rw [sessionFrom] at h
    simp only [e0] at h
    rw [step_no_params fuel P sr hP hpar hself] at h
    cases hev : eval fuel P ⟨natToF64Bits t, sr⟩ [] P.dsp.body [] root with
    | error e => simp [hev, Core.andThen] at h
    | ok r =>
      obtain ⟨val, σ', st'⟩ := r
      simp only [hev, Core.andThen] at h
      cases hrest : sessionFrom fuel sr [] inputs k P ⟨[], st', t + 1⟩ with
      | none => simp [hrest] at h
      | some rows' =>
        simp only [hrest, Option.map_some, Option.some.injEq] at h
        subst h
        simp only [voiceSamples, instRun] at hok ⊢
        cases h₀ : eval fuel₀ P₀ ⟨natToF64Bits t, sr⟩ (bindAll [] [] d.params [.num v.c]).1 d.body
            (bindAll [] [] d.params [.num v.c]).2 (FlatTree.initSelf d.selfShape (root.childAt v.site)) with
        | error e =>
          exfalso
          simp only [h₀] at hok
          exact hok none (by simp) rfl
        | ok r₀ =>
          obtain ⟨w, σw, cw⟩ := r₀
          simp only [h₀] at hok ⊢
          rw [hbody] at hev
          obtain ⟨hchild, vals, rfl, _, hvals⟩ := voice_sample P P₀ hP hP₀ hsub pre post v obs hname hs1 hs2 d hd _ fuel fuel₀
            hn [] [] root val σ' st' hev w σw cw h₀
          obtain ⟨valss, erows, hch⟩ := voice_run P P₀ hP hP₀ hsub pre post v obs hname hs1 hs2 d hd fuel fuel₀ hn sr inputs
            hpar hself hbody k st' (t + 1) rows' hrest
            (by rw [hchild]; intro o ho; exact hok o (by simp [ho]))
          refine ⟨vals :: valss, by simp [erows, flattenVal], fun i hi => ?_⟩
          simp only [List.map_cons, hvals i hi, hch i hi, hchild]

end Mimium.LiveCoding

namespace Mimium.LiveCoding
open Mimium.Core Mimium.Cells Mimium.FlatTree Mimium.Publish

/-- a program without globals keeps an empty global store along its run -/
theorem prefixRun_store_nil (fuel : Nat) (P : Prog) (sr : UInt64) (inputs : Nat → List UInt64) :
    ∀ (n : Nat) (A : Machine) (o1 : List (List UInt64)) (m : Machine), A.store = [] →
      prefixRun fuel P sr inputs n A = some (o1, m) → m.store = []
  | 0, A, o1, m, hA, h => by simp only [prefixRun, Option.some.injEq, Prod.mk.injEq] at h; rw [← h.2]; exact hA
  | n + 1, A, o1, m, hA, h => by
    simp only [prefixRun] at h
    cases hs : Machine.step fuel P sr A (inputs A.t) with
    | error e => simp [hs] at h
    | ok r =>
      obtain ⟨o, A1⟩ := r
      simp only [hs] at h
      cases hp : prefixRun fuel P sr inputs n A1 with
      | none => simp [hp] at h
      | some r2 =>
        obtain ⟨o2, m2⟩ := r2
        simp only [hp, Option.map_some, Option.some.injEq, Prod.mk.injEq] at h
        rw [← h.2]
        exact prefixRun_store_nil fuel P sr inputs n A1 o2 m2 (step_store_nil fuel P sr A _ o A1 hA hs) hp

end Mimium.LiveCoding
