import Mimium.Proofs.CstShapeTags
/-!
# The obligations of the node kinds: children of the shape the parser builds pass the printer's `ok` tests
-/
namespace Mimium.Grammar
open Mimium.Gen (Kind SK)
open Mimium.Cst (PState Frame Green)
open Mimium.CstPrint (Ctx IsTok IsNode SepTail ItemOk itemRun ListShape ListBody)

variable {E : Env} {c : Ctx} {rec : Tag → St → St}

/-- the node kinds for which the shape theorem is proved: all but these six -/
abbrev cov : SK → Bool := CstPrint.covered

/-- what the infix loops need on entry: the last child is a node and starts at the marker -/
def Pre (E : Env) (t : Tag) (s : St) : Prop :=
  match t with
  | .prattLoop | .prattLoopNoLb => ∃ p x, topCh s = p ++ [x] ∧ s.rb = p.length ∧ IsNode x
  | .typeTupleOrParen => peek E s = some Kind.ParenBegin
  | _ => True

def trivPre : Tag → Bool
  | .prattLoop | .prattLoopNoLb | .typeTupleOrParen => false
  | _ => true

theorem trivPre_pre (t : Tag) (h : trivPre t = true) (s : St) : Pre E t s := by
  cases t <;> first | trivial | (simp [trivPre] at h)

abbrev NOK (cmd : Cmd) (s : St) : Prop := NodesOK E c cov (Pre E) rec (R E c) cmd s

theorem nok_triv (cmd : Cmd) (s : St) (h : noCov cov trivPre cmd = true) : NOK (E := E) (c := c) (rec := rec) cmd s :=
  nodesOK_of_noCov cov (Pre E) trivPre trivPre_pre rec (R E c) cmd s h

theorem nok_ite (cnd : Cond) (t e : Cmd) (s : St) :
    NOK (E := E) (c := c) (rec := rec) (.ite cnd t e) s =
      (if evalCond E s cnd = true then NOK (E := E) (c := c) (rec := rec) t s else NOK (E := E) (c := c) (rec := rec) e s) := by
  simp only [NodesOK]
theorem nok_seq (a b : Cmd) (s : St) :
    NOK (E := E) (c := c) (rec := rec) (.seq a b) s =
      (NOK (E := E) (c := c) (rec := rec) a s ∧ (Em E c rec (R E c) a s → NOK (E := E) (c := c) (rec := rec) b (exec E rec a s))) := by
  simp only [NodesOK]
theorem nok_node_eq (k : SK) (a : Cmd) (s : St) :
    NOK (E := E) (c := c) (rec := rec) (.node k a) s =
      (NOK (E := E) (c := c) (rec := rec) a (prim E s (.startNode k.toNat)) ∧
        (W E c (prim E s (.startNode k.toNat)) → Em E c rec (R E c) a (prim E s (.startNode k.toNat)) →
          KAL c cov (topCh (exec E rec a (prim E s (.startNode k.toNat)))) →
          ShapeOK (c := c) cov k (topCh (exec E rec a (prim E s (.startNode k.toNat)))))) := by
  simp only [NodesOK]

/-- an `emit_node` whose inside has no obligation -/
theorem nok_node (k : SK) (inner : Cmd) (s : St) (hin : noCov cov trivPre inner = true)
    (hob : W E c (prim E s (.startNode k.toNat)) → Em E c rec (R E c) inner (prim E s (.startNode k.toNat)) →
      ShapeOK (c := c) cov k (topCh (exec E rec inner (prim E s (.startNode k.toNat))))) :
    NOK (E := E) (c := c) (rec := rec) (.node k inner) s :=
  ⟨nok_triv inner _ hin, fun hW h _ => hob hW h⟩

/-! ## Lists -/

theorem itemOk_P1 (w : List Green) (h : P1 w) : ItemOk c w := by
  obtain ⟨k, a, rfl⟩ := h
  exact ⟨by simp, by simp [itemRun]⟩

theorem itemOk_PE (w : List Green) (h : PE w) : ItemOk c w := by
  obtain ⟨k, a, rfl | ⟨a', rfl⟩⟩ := h
  · exact ⟨by simp, by simp [itemRun]⟩
  · exact ⟨by simp, by simp [itemRun]⟩

theorem itemOk_recPat (w : List Green) (h : PRecPat c w) : ItemOk c w := by
  obtain ⟨i, a, n, rfl, ⟨ti, wi, rfl, hi⟩, ⟨ta, wa, rfl, ha⟩, ⟨k, b, rfl⟩⟩ := h
  exact ⟨by simp, by simp [itemRun, hi, ha, CstPrint.isOpenDelim, CstPrint.isCloseDelim]⟩

theorem loop_of_R (t : Tag) (P : List Green → Prop) (hR : ∀ s s', Rs E c t s s' → Sep E c P s s') (s : St)
    (h : Em E c rec (R E c) (.call t) s) :
    Sep E c P s (exec E rec (.call t) s) ∧ (AtEnd E s → AtEnd E (exec E rec (.call t) s)) :=
  ⟨hR _ _ (And.left h), And.right h⟩

/-- the obligation of a list node -/
theorem shapeOK_list (k : SK)
    (hk : ∀ cs, CstPrint.allOk (CstPrint.listStep c) (CstPrint.listOk c) {} cs = true → CstPrint.pfKeeps c (CstPrint.dispatch k) cs = true)
    (a : List Green) (h : ListShape c a) : ShapeOK (c := c) cov k a :=
  fun _ _ => hk _ (CstPrint.listShape_ok c a h)

theorem nok_argList (s : St) : NOK (E := E) (c := c) (rec := rec) (body .argList) s :=
  nok_node _ _ s (by decide) fun hW h => shapeOK_list .ArgList (fun _ h => h) _ <|
    listNode_vc .ParenBegin .ParenEnd rfl rfl _
      (itemLoop_mid (.callA .exprPrecNoLb (.const 0)) (.call .argLoop) P1 itemOk_P1 (fun _ _ h => Or.inl (And.left h))
        (fun s _ h => loop_of_R .argLoop P1 (fun _ _ h => h) s h)) _ rfl h

theorem nok_tupleExpr (s : St) : NOK (E := E) (c := c) (rec := rec) (body .tupleExpr) s :=
  nok_node _ _ s (by decide) fun hW h => shapeOK_list .TupleExpr (fun _ h => by simp [CstPrint.dispatch, CstPrint.pfKeeps, h]) _ <|
    listNode_vc .ParenBegin .ParenEnd rfl rfl _
      (itemLoop_mid (.call .expr) (.call .tupleExprLoop) PE itemOk_PE (fun _ _ h => Or.inl (And.left h))
        (fun s _ h => loop_of_R .tupleExprLoop PE (fun _ _ h => h) s h)) _ rfl h

theorem nok_arrayExpr (s : St) : NOK (E := E) (c := c) (rec := rec) (body .arrayExpr) s :=
  nok_node _ _ s (by decide) fun hW h => shapeOK_list .ArrayExpr (fun _ h => h) _ <|
    listNode_vc .ArrayBegin .ArrayEnd rfl rfl _
      (itemLoop_mid (.call .expr) (.call .arrayLoop) PE itemOk_PE (fun _ _ h => Or.inl (And.left h))
        (fun s _ h => loop_of_R .arrayLoop PE (fun _ _ h => h) s h)) _ rfl h

theorem nok_tuplePattern (s : St) : NOK (E := E) (c := c) (rec := rec) (body .tuplePattern) s :=
  nok_node _ _ s (by decide) fun hW h => shapeOK_list .TuplePattern (fun _ h => h) _ <|
    listNode_vc .ParenBegin .ParenEnd rfl rfl _
      (itemLoop_mid (.call .pattern) (.call .tuplePatternLoop) P1 itemOk_P1 (fun _ _ h => AppE.weak (And.left h))
        (fun s _ h => loop_of_R .tuplePatternLoop P1 (fun _ _ h => h) s h)) _ rfl h

theorem nok_matchTuplePattern (s : St) : NOK (E := E) (c := c) (rec := rec) (body .matchTuplePattern) s :=
  nok_node _ _ s (by decide) fun hW h => shapeOK_list .TuplePattern (fun _ h => h) _ <|
    listNode_vc .ParenBegin .ParenEnd rfl rfl _
      (itemLoop_mid (.call .matchPattern) (.call .matchTuplePatternLoop) P1 itemOk_P1 (fun _ _ h => Or.inl (And.left h))
        (fun s _ h => loop_of_R .matchTuplePatternLoop P1 (fun _ _ h => h) s h)) _ rfl h

theorem em_assoc (a b d : Cmd) (s : St) (h : Em E c rec (R E c) (.seq a (.seq b d)) s) : Em E c rec (R E c) (.seq (.seq a b) d) s := by
  simp only [Em] at h ⊢
  obtain ⟨h1, w1, h2, w2, h3⟩ := h
  exact ⟨⟨h1, w1, h2⟩, w2, h3⟩

theorem nok_recordPattern (s : St) : NOK (E := E) (c := c) (rec := rec) (body .recordPattern) s :=
  nok_node _ _ s (by decide) fun hW h => shapeOK_list .RecordPattern (fun _ h => h) _ <|
    listNode_vc .BlockBegin .BlockEnd rfl rfl (seqs [expectAll [.Ident, .Assign], .call .pattern, .call .recordPatternLoop])
      (fun s hW h =>
        itemLoop_mid (seqs [expectAll [.Ident, .Assign], .call .pattern]) (.call .recordPatternLoop) (PRecPat c) itemOk_recPat
          (fun s _ h => recPat_item s h)
          (fun s _ h => loop_of_R .recordPatternLoop (PRecPat c) (fun _ _ h => h) s h) s hW (em_assoc _ _ _ s h)) _ rfl h

/-! ## Small nodes -/

theorem bump_after_check (k : Kind) (s : St) (hp : peek E s = some k) (hk : relab k = false) (h : Em E c rec (R E c) .bump s) :
    ∃ ti w, topCh (exec E rec .bump s) = topCh s ++ [.token ti w] ∧ c.kind ti = k := by
  obtain ⟨ti, w, e, o⟩ := h.1 k hp
  exact ⟨ti, w, e, o.eq hk⟩

theorem peek_start (s : St) (k : Nat) : peek E (prim E s (.startNode k)) = peek E s := peek_prim_nobump _ _ (by simp)

theorem nok_statement (s : St) : NOK (E := E) (c := c) (rec := rec) (body .statement) s := by
  show NOK (.node .Statement (.seq (.ite (.check .Pub) (.node .VisibilityPub .bump) .skip) _)) s
  rw [nok_node_eq, nok_seq, nok_ite]
  refine ⟨⟨?_, fun _ => nok_triv _ _ (by decide)⟩, fun _ _ _ => ShapeOK.triv cov _ _ rfl⟩
  split
  · rename_i hc
    rw [nok_node_eq]
    refine ⟨trivial, fun hW h _ => ?_⟩
    have hp := (evalCond_check _ .Pub).mp hc
    rw [← peek_start _ SK.VisibilityPub.toNat] at hp
    obtain ⟨ti, w, e, hk⟩ := bump_after_check .Pub _ hp rfl h
    intro _ _
    rw [e, topCh_start]
    simp [CstPrint.dispatch, CstPrint.pfKeeps, CstPrint.chL, CstPrint.tokKind, hk]
  · trivial

theorem nok_useStmt (s : St) : NOK (E := E) (c := c) (rec := rec) (body .useStmt) s :=
  nok_node _ _ s (by decide) fun hW h => by
    rw [show seqs [expect Kind.Use, Cmd.call Tag.usePath] = .seq (expect .Use) (.call .usePath) from rfl, em_seq] at h
    rw [show seqs [expect Kind.Use, Cmd.call Tag.usePath] = .seq (expect .Use) (.call .usePath) from rfl, exec_seq]
    obtain ⟨h1, _, h2⟩ := h
    obtain ⟨_, x1, ti, w, e1, o1⟩ := em_expect _ _ h1
    obtain ⟨w2, e2, _⟩ := h2.1
    intro _ _
    rw [e2, x1, e1, topCh_start]
    exact CstPrint.useShape_ok c ti w w2 (o1.eq rfl)

/-- `Ident` then path children -/
theorem qp_children (loop : Tag) (hl : ∀ s s', Rs E c loop s s' → App (fun w => ∀ g ∈ w, QPok c g) s s') (s : St) (hs : topCh s = [])
    (h : Em E c rec (R E c) (seqs [expect .Ident, .call loop]) s) :
    ∀ g ∈ topCh (exec E rec (seqs [expect .Ident, .call loop]) s), CstPrint.QPChild c g := by
  rw [show seqs [expect Kind.Ident, Cmd.call loop] = .seq (expect .Ident) (.call loop) from rfl, em_seq] at h
  rw [show seqs [expect Kind.Ident, Cmd.call loop] = .seq (expect .Ident) (.call loop) from rfl, exec_seq]
  obtain ⟨h1, _, h2⟩ := h
  obtain ⟨_, x1, ti, w, e1, o1⟩ := em_expect _ _ h1
  obtain ⟨w2, e2, hw2⟩ := hl _ _ h2.1
  rw [e2, x1, e1, hs]
  intro g hg
  simp only [List.nil_append, List.cons_append, List.mem_cons] at hg
  rcases hg with rfl | hg
  · exact Or.inr (Or.inl ⟨ti, w, rfl, o1.eq rfl⟩)
  · exact hw2 g hg

theorem nok_usePath (s : St) : NOK (E := E) (c := c) (rec := rec) (body .usePath) s :=
  nok_node _ _ s (by decide) fun hW h _ _ => CstPrint.qpShape_ok c _ (qp_children .usePathLoop (fun _ _ h => h) _ rfl h)

theorem nok_qualifiedPath (s : St) : NOK (E := E) (c := c) (rec := rec) (body .qualifiedPath) s :=
  nok_node _ _ s (by decide) fun hW h _ _ => CstPrint.qpShape_ok c _ (qp_children .qualifiedPathLoop (fun _ _ h => h) _ rfl h)

theorem um_tail (w : List Green) (h : UM c w) : CstPrint.UMTail c w := by
  induction h with
  | nil => exact .nil
  | cons cm i t hc hi _ ih =>
    obtain ⟨ic, wc, rfl, kc⟩ := hc
    obtain ⟨ii, wi, rfl, ki⟩ := hi
    exact .cons ic wc ii wi t kc ki ih

theorem nok_usePathLoop (s : St) : NOK (E := E) (c := c) (rec := rec) (body .usePathLoop) s := by
  show NOK (.ite (.check .DoubleColon) (.seq .bump (.ite (.check .OpProduct) (.node .UseTargetWildcard .bump)
    (.ite (.check .BlockBegin) (.node .UseTargetMultiple (.seq .bump (.seq (.ite (.check .Ident) (.seq .bump (.call .useMultiLoop)) .skip)
      (expect .BlockEnd)))) (.seq (expect .Ident) (.call .usePathLoop))))) .skip) s
  rw [nok_ite]
  split
  · rw [nok_seq, nok_ite]
    refine ⟨trivial, fun _ => ?_⟩
    split
    · rename_i hc
      rw [nok_node_eq]
      refine ⟨trivial, fun hW h _ _ _ => ?_⟩
      have hp := (evalCond_check _ .OpProduct).mp hc
      rw [← peek_start _ SK.UseTargetWildcard.toNat] at hp
      obtain ⟨ti, w, e, hk⟩ := bump_after_check .OpProduct _ hp rfl h
      rw [e, topCh_start]
      simp [CstPrint.dispatch, CstPrint.pfKeeps, CstPrint.chL, CstPrint.tokKind, hk]
    · rw [nok_ite]
      split
      · rename_i hc
        rw [nok_node_eq]
        refine ⟨nok_triv _ _ (by decide), fun hW h _ _ _ => ?_⟩
        have hp := (evalCond_check _ .BlockBegin).mp hc
        rw [← peek_start _ SK.UseTargetMultiple.toNat] at hp
        rw [em_seq, em_seq] at h
        obtain ⟨h1, _, h2, _, h3⟩ := h
        obtain ⟨t1, w1, e1, k1⟩ := bump_after_check .BlockBegin _ hp rfl h1
        rw [exec_seq, exec_seq]
        obtain ⟨_, x3, t3, w3, e3, o3⟩ := em_expect _ _ h3
        apply CstPrint.umShape_ok
        rw [em_ite] at h2
        by_cases hi : evalCond E (exec E rec .bump (prim E (exec E rec .bump s) (.startNode SK.UseTargetMultiple.toNat))) (.check .Ident) = true
        · rw [exec_ite_pos _ _ hi] at x3 e3 ⊢
          rw [if_pos hi, em_seq] at h2
          obtain ⟨h21, _, h22⟩ := h2
          obtain ⟨t2, w2, e2, k2⟩ := bump_after_check .Ident _ ((evalCond_check _ .Ident).mp hi) rfl h21
          obtain ⟨wt, et, ht⟩ := h22.1
          rw [exec_seq] at x3 e3 ⊢
          rw [x3, e3, et, e2, e1, topCh_start]
          exact ⟨t1, w1, t3, w3, .token t2 w2 :: wt, k1, o3.eq rfl, by simp, Or.inr ⟨t2, w2, wt, k2, um_tail wt ht, rfl⟩⟩
        · rw [exec_ite_neg _ _ hi, exec_skip] at x3 e3 ⊢
          rw [x3, e3, e1, topCh_start]
          exact ⟨t1, w1, t3, w3, [], k1, o3.eq rfl, by simp, Or.inl rfl⟩
      · exact nok_triv _ _ (by decide)
  · trivial

/-! ## Blocks, declarations, `if` -/

theorem nok_blockExpr (s : St) : NOK (E := E) (c := c) (rec := rec) (body .blockExpr) s :=
  nok_node _ _ s (by decide) fun hW h => by
    have hshow : seqs [expect Kind.BlockBegin, Cmd.call Tag.blockLoop, expect Kind.BlockEnd] =
      .seq (expect .BlockBegin) (.seq (.call .blockLoop) (expect .BlockEnd)) := rfl
    rw [hshow, em_seq, em_seq] at h
    rw [hshow, exec_seq, exec_seq]
    obtain ⟨h1, _, h2, _, h3⟩ := h
    obtain ⟨_, x1, t1, w1, e1, o1⟩ := em_expect _ _ h1
    obtain ⟨w2, e2, hw2⟩ := h2.1
    obtain ⟨_, x3, t3, w3, e3, o3⟩ := em_expect _ _ h3
    intro _ _
    rw [x3, e3, e2, x1, e1, topCh_start]
    exact CstPrint.blockShape_ok c _ ⟨t1, w1, w2, t3, w3, by simp, o1.eq rfl, o3.eq rfl, hw2⟩

theorem notTok_node (ks : List Kind) (k : Nat) (a : List Green) : CstPrint.NotTok c ks (.node k a) := fun _ _ h => by cases h

theorem notTok_PE (ks : List Kind) (w : List Green) (h : PE w) : ∀ g ∈ w, CstPrint.NotTok c ks g := by
  obtain ⟨k, a, rfl | ⟨a', rfl⟩⟩ := h <;> intro g hg <;> simp only [List.mem_cons, List.mem_singleton, List.not_mem_nil, or_false] at hg
  · subst hg; exact notTok_node _ _ _
  · rcases hg with rfl | rfl <;> exact notTok_node _ _ _

theorem nok_letrecDecl (s : St) : NOK (E := E) (c := c) (rec := rec) (body .letrecDecl) s :=
  nok_node _ _ s (by decide) fun hW h => by
    have hshow : seqs [expectAll [Kind.LetRec, Kind.Ident], ifExpect Kind.Assign (Cmd.call Tag.expr)] =
      .seq (.seq (expect .LetRec) (expect .Ident)) (ifExpect .Assign (.call .expr)) := rfl
    rw [hshow, em_seq, em_seq] at h
    rw [hshow, exec_seq, exec_seq]
    obtain ⟨⟨h1, _, h2⟩, _, h3⟩ := h
    rw [exec_seq] at h3
    obtain ⟨_, x1, t1, w1, e1, o1⟩ := em_expect _ _ h1
    obtain ⟨_, x2, t2, w2, e2, o2⟩ := em_expect _ _ h2
    obtain ⟨_, x3, ⟨t3, w3, e3, o3⟩, _, h4⟩ := em_ifExpect _ _ _ h3
    obtain ⟨w4, e4, hw4⟩ := h4.1
    intro _ _
    rw [x3, e4, e3, x2, e2, x1, e1, topCh_start]
    refine CstPrint.letShape_ok c .LetRec (by decide) _ ⟨t1, w1, [.token t2 w2], w4, o1.eq rfl, ?_, notTok_PE _ _ hw4, t3, w3, o3.eq rfl, by simp⟩
    intro g hg
    simp only [List.mem_singleton] at hg
    subst hg
    intro i w hi
    cases hi
    rw [o2.eq rfl]; decide

theorem nok_letDecl (s : St) : NOK (E := E) (c := c) (rec := rec) (body .letDecl) s :=
  nok_node _ _ s (by decide) fun hW h => by
    have hshow : seqs [expect Kind.Let, Cmd.call Tag.pattern, when_ (Cond.check Kind.Colon) (Cmd.call Tag.typeAnnotation),
        ifExpect Kind.Assign (Cmd.call Tag.expr)] =
      .seq (expect .Let) (.seq (.call .pattern) (.seq (.ite (.check .Colon) (.call .typeAnnotation) .skip) (ifExpect .Assign (.call .expr)))) := rfl
    rw [hshow, em_seq, em_seq, em_seq] at h
    rw [hshow, exec_seq, exec_seq, exec_seq]
    obtain ⟨h1, _, h2, _, h3, _, h4⟩ := h
    obtain ⟨_, x1, t1, w1, e1, o1⟩ := em_expect _ _ h1
    obtain ⟨_, x4, ⟨t4, w4, e4, o4⟩, _, h5⟩ := em_ifExpect _ _ _ h4
    obtain ⟨w5, e5, hw5⟩ := h5.1
    intro _ _
    rcases h2.1 with ⟨wp, ep, kp, ap, rfl⟩ | ⟨_, hend⟩
    · have ep' : topCh (exec E rec (.call .pattern) (exec E rec (expect .Let) (prim E s (.startNode SK.LetDecl.toNat)))) =
          topCh (exec E rec (expect .Let) (prim E s (.startNode SK.LetDecl.toNat))) ++ [.node kp ap] := ep
      have hta : ∃ wt, topCh (exec E rec (.ite (.check .Colon) (.call .typeAnnotation) .skip)
            (exec E rec (.call .pattern) (exec E rec (expect .Let) (prim E s (.startNode SK.LetDecl.toNat))))) =
          topCh (exec E rec (.call .pattern) (exec E rec (expect .Let) (prim E s (.startNode SK.LetDecl.toNat)))) ++ wt ∧
          ∀ g ∈ wt, CstPrint.NotTok c [.Let, .Assign] g := by
        rw [em_ite] at h3
        by_cases hc : evalCond E (exec E rec (.call .pattern) (exec E rec (expect .Let) (prim E s (.startNode SK.LetDecl.toNat)))) (.check .Colon) = true
        · rw [exec_ite_pos _ _ hc]; rw [if_pos hc] at h3
          obtain ⟨wt, et, kt, at', rfl⟩ := h3.1
          exact ⟨_, et, by intro g hg; simp only [List.mem_singleton] at hg; subst hg; exact notTok_node _ _ _⟩
        · rw [exec_ite_neg _ _ hc, exec_skip]; exact ⟨[], by simp, by simp⟩
      obtain ⟨wt, et, hwt⟩ := hta
      rw [x4, e5, e4, et, ep', x1, e1, topCh_start]
      refine CstPrint.letShape_ok c .Let (by decide) _ ⟨t1, w1, .node kp ap :: wt, w5, o1.eq rfl, ?_, notTok_PE _ _ hw5, t4, w4, o4.eq rfl, by simp⟩
      intro g hg
      rcases List.mem_cons.mp hg with rfl | hg
      · exact notTok_node _ _ _
      · exact hwt g hg
    · exfalso
      have hne : ¬ evalCond E (exec E rec (.call .pattern) (exec E rec (expect .Let) (prim E s (.startNode SK.LetDecl.toNat)))) (.check .Colon) = true := by
        intro hc
        have := (evalCond_check _ .Colon).mp hc
        rw [hend.peek] at this; cases this
      have hp := (em_ifExpect _ _ _ h4).1
      rw [exec_ite_neg _ _ hne, exec_skip, hend.peek] at hp
      cases hp

/-! ## `if` -/

theorem strictIf_cons (g : Green) (rest : List Green) (hp : (CstPrint.tokKind c g == some Kind.Else) = false) :
    CstPrint.strictIf c (g :: rest) = (!CstPrint.isNodeOf g [.AssignExpr] && CstPrint.strictIf c rest) := by
  simp [CstPrint.strictIf, List.takeWhile, hp]

theorem if_shape (ti wi : Nat) (hk : c.kind ti = .If) (wc wt we : List Green) (hc : PE wc) (ht : PE wt)
    (he : we = [] ∨ ∃ ie we' els, c.kind ie = .Else ∧ we = .token ie we' :: els)
    (hs : CstPrint.strictIf c (.token ti wi :: (wc ++ wt ++ we)) = true) :
    CstPrint.IfShape c (.token ti wi :: (wc ++ wt ++ we)) := by
  have hae : ∀ a', CstPrint.isNodeOf (.node SK.AssignExpr.toNat a') [.AssignExpr] = true := fun _ => by
    simp [CstPrint.isNodeOf, CstPrint.nodeKind]
  have htok : (CstPrint.tokKind c (.token ti wi) == some Kind.Else) = false := by simp [CstPrint.tokKind, hk]
  have hnode : ∀ k a, (CstPrint.tokKind c (.node k a) == some Kind.Else) = false := fun _ _ => by simp [CstPrint.tokKind]
  obtain ⟨k1, a1, rfl | ⟨a1', rfl⟩⟩ := hc
  · obtain ⟨k2, a2, rfl | ⟨a2', rfl⟩⟩ := ht
    · exact ⟨ti, wi, .node k1 a1, .node k2 a2, we, hk, ⟨k1, a1, rfl⟩, ⟨k2, a2, rfl⟩, rfl, he⟩
    · exfalso
      simp only [List.cons_append, List.nil_append] at hs
      rw [strictIf_cons _ _ htok, strictIf_cons _ _ (hnode _ _), strictIf_cons _ _ (hnode _ _), strictIf_cons _ _ (hnode _ _), hae] at hs
      simp at hs
  · exfalso
    simp only [List.cons_append, List.nil_append] at hs
    rw [strictIf_cons _ _ htok, strictIf_cons _ _ (hnode _ _), strictIf_cons _ _ (hnode _ _), hae] at hs
    simp at hs

theorem PE_of_P1 (w : List Green) (h : P1 w) : PE w := by
  obtain ⟨k, a, rfl⟩ := h; exact ⟨k, a, Or.inl rfl⟩

theorem nok_ifExpr (s : St) : NOK (E := E) (c := c) (rec := rec) (body .ifExpr) s :=
  nok_node _ _ s (by decide) fun hW h => by
    have hshow : seqs [expect Kind.If, Cmd.call Tag.expr, Cmd.ite (Cond.check Kind.BlockBegin) (Cmd.call Tag.blockExpr) (Cmd.call Tag.expr),
        when_ (Cond.check Kind.Else) (seqs [Cmd.bump, Cmd.ite (Cond.check Kind.If) (Cmd.call Tag.ifExpr)
          (Cmd.ite (Cond.check Kind.BlockBegin) (Cmd.call Tag.blockExpr) (Cmd.call Tag.expr))])] =
      .seq (expect .If) (.seq (.call .expr) (.seq (.ite (.check .BlockBegin) (.call .blockExpr) (.call .expr))
        (.ite (.check .Else) (.seq .bump (.ite (.check .If) (.call .ifExpr) (.ite (.check .BlockBegin) (.call .blockExpr) (.call .expr)))) .skip))) := rfl
    rw [hshow, em_seq, em_seq, em_seq] at h
    rw [hshow, exec_seq, exec_seq, exec_seq]
    obtain ⟨h1, _, h2, _, h3, _, h4⟩ := h
    obtain ⟨_, x1, t1, w1, e1, o1⟩ := em_expect _ _ h1
    obtain ⟨wc, ec, hwc⟩ := h2.1
    have h3' : App PE (exec E rec (.call .expr) (exec E rec (expect .If) (prim E s (.startNode SK.IfExpr.toNat))))
        (exec E rec (.ite (.check .BlockBegin) (.call .blockExpr) (.call .expr))
          (exec E rec (.call .expr) (exec E rec (expect .If) (prim E s (.startNode SK.IfExpr.toNat))))) := by
      revert h3
      exact ite_vc (P := fun s' => App PE _ s') _ _ _ _
        (fun _ h => by obtain ⟨w, e, hw⟩ := And.left h; exact ⟨w, e, PE_of_P1 w hw⟩) (fun _ h => And.left h)
    obtain ⟨wt, et, hwt⟩ := h3'
    have h4' : ∃ we, topCh (exec E rec (.ite (.check .Else) (.seq .bump (.ite (.check .If) (.call .ifExpr)
          (.ite (.check .BlockBegin) (.call .blockExpr) (.call .expr)))) .skip)
          (exec E rec (.ite (.check .BlockBegin) (.call .blockExpr) (.call .expr))
          (exec E rec (.call .expr) (exec E rec (expect .If) (prim E s (.startNode SK.IfExpr.toNat)))))) =
        topCh (exec E rec (.ite (.check .BlockBegin) (.call .blockExpr) (.call .expr))
          (exec E rec (.call .expr) (exec E rec (expect .If) (prim E s (.startNode SK.IfExpr.toNat))))) ++ we ∧
        (we = [] ∨ ∃ ie we' els, c.kind ie = .Else ∧ we = .token ie we' :: els) := by
      rw [em_ite] at h4
      by_cases hc : evalCond E (exec E rec (.ite (.check .BlockBegin) (.call .blockExpr) (.call .expr))
          (exec E rec (.call .expr) (exec E rec (expect .If) (prim E s (.startNode SK.IfExpr.toNat))))) (.check .Else) = true
      · rw [exec_ite_pos _ _ hc, exec_seq]
        rw [if_pos hc, em_seq] at h4
        obtain ⟨hb, _, hr⟩ := h4
        obtain ⟨te, we', ee, ke⟩ := bump_after_check .Else _ ((evalCond_check _ .Else).mp hc) rfl hb
        have hels : ∃ els, topCh (exec E rec (.ite (.check .If) (.call .ifExpr) (.ite (.check .BlockBegin) (.call .blockExpr) (.call .expr)))
            (exec E rec .bump (exec E rec (.ite (.check .BlockBegin) (.call .blockExpr) (.call .expr))
              (exec E rec (.call .expr) (exec E rec (expect .If) (prim E s (.startNode SK.IfExpr.toNat))))))) =
            topCh (exec E rec .bump (exec E rec (.ite (.check .BlockBegin) (.call .blockExpr) (.call .expr))
              (exec E rec (.call .expr) (exec E rec (expect .If) (prim E s (.startNode SK.IfExpr.toNat)))))) ++ els := by
          revert hr
          refine ite_vc (P := fun s' => ∃ els, topCh s' = topCh _ ++ els) _ _ _ _
            (fun _ h => by obtain ⟨w, e, _⟩ := And.left h; exact ⟨w, e⟩) (fun _ => ?_)
          exact ite_vc (P := fun s' => ∃ els, topCh s' = topCh _ ++ els) _ _ _ _
            (fun _ h => by obtain ⟨w, e, _⟩ := And.left h; exact ⟨w, e⟩) (fun _ h => by obtain ⟨w, e, _⟩ := And.left h; exact ⟨w, e⟩)
        obtain ⟨els, eels⟩ := hels
        exact ⟨.token te we' :: els, by rw [eels, ee]; simp, Or.inr ⟨te, we', els, ke, rfl⟩⟩
      · rw [exec_ite_neg _ _ hc, exec_skip]; exact ⟨[], by simp, Or.inl rfl⟩
    obtain ⟨we, ee, hwe⟩ := h4'
    intro hst _
    have ec' : topCh (exec E rec (.call .expr) (exec E rec (expect .If) (prim E s (.startNode SK.IfExpr.toNat)))) =
        topCh (exec E rec (expect .If) (prim E s (.startNode SK.IfExpr.toNat))) ++ wc := ec
    have hall : topCh (exec E rec (.ite (.check .Else) (.seq .bump (.ite (.check .If) (.call .ifExpr)
          (.ite (.check .BlockBegin) (.call .blockExpr) (.call .expr)))) .skip)
          (exec E rec (.ite (.check .BlockBegin) (.call .blockExpr) (.call .expr))
          (exec E rec (.call .expr) (exec E rec (expect .If) (prim E s (.startNode SK.IfExpr.toNat)))))) =
        .token t1 w1 :: (wc ++ wt ++ we) := by
      rw [ee, et, ec', x1, e1, topCh_start]; simp
    rw [hall] at hst ⊢
    exact CstPrint.ifShape_ok c _ (if_shape t1 w1 (o1.eq rfl) wc wt we hwc hwt hwe hst)

/-! ## Binary expressions -/

theorem topCh_startAt (s : St) (hW : W E c s) (p k : Nat) : topCh (prim E s (.startNodeAt p k)) = (topCh s).drop p := by
  obtain ⟨f, fs, hs⟩ := hW.top
  rw [topCh_of_stack (prim_stack_startAt s p k f fs hs), topCh_of_stack hs]

theorem nok_nodeAtB_eq (k : SK) (a : Cmd) (s : St) :
    NOK (E := E) (c := c) (rec := rec) (.nodeAtB k a) s =
      (NOK (E := E) (c := c) (rec := rec) a (prim E s (.startNodeAt s.rb k.toNat)) ∧
        (W E c (prim E s (.startNodeAt s.rb k.toNat)) → Em E c rec (R E c) a (prim E s (.startNodeAt s.rb k.toNat)) →
          KAL c cov (topCh (exec E rec a (prim E s (.startNodeAt s.rb k.toNat)))) →
          ShapeOK (c := c) cov k (topCh (exec E rec a (prim E s (.startNodeAt s.rb k.toNat)))))) := by
  simp only [NodesOK]

theorem nok_call (t : Tag) (s : St) : NOK (E := E) (c := c) (rec := rec) (.call t) s = Pre E t s := by simp only [NodesOK]
theorem nok_callA (t : Tag) (a : AExpr) (s : St) :
    NOK (E := E) (c := c) (rec := rec) (.callA t a) s = Pre E t { s with ra := evalA E s a } := by simp only [NodesOK]

theorem nok_pratt (callee : Tag) (hcallee : ∀ s s', Rs E c callee s s' → App P1 s s') (htp : trivPre callee = true) (cont : Cmd) (a : AExpr)
    (hcont : ∀ s, Pre E .prattLoop s → NOK (E := E) (c := c) (rec := rec) cont s)
    (s : St) (hW : W E c s) (hpre : Pre E .prattLoop s) :
    NOK (E := E) (c := c) (rec := rec) (.ite .isInfix (.ite (.neg .infixBelowA)
      (.seq (.nodeAtB .BinaryExpr (.seq .bump (.callA callee a))) (.seq .setBMarkerPred cont)) .skip) .skip) s := by
  obtain ⟨p, x, hp, hrb, hx⟩ := hpre
  rw [nok_ite]
  split
  · rename_i hinf
    rw [nok_ite]
    split
    · rw [nok_seq, nok_nodeAtB_eq, nok_seq, nok_callA]
      refine ⟨⟨⟨trivial, fun _ => trivPre_pre callee htp _⟩, fun _ h _ _ _ => ?_⟩, fun hNB => ?_⟩
      · have h0 : topCh (prim E s (.startNodeAt s.rb SK.BinaryExpr.toNat)) = [x] := by
          rw [topCh_startAt s hW, hp, hrb]; simp
        obtain ⟨ti, w, k', a', e⟩ := binary_children callee hcallee a s x hinf h0 h
        rw [e]
        exact CstPrint.binShape_ok c x (.node k' a') ti w hx ⟨k', a', rfl⟩
      · rw [nok_seq]
        refine ⟨trivial, fun _ => hcont _ ?_⟩
        obtain ⟨_, w1, w2⟩ := wrap_step .BinaryExpr _ s p x hp hrb hNB
        exact ⟨p, _, w1, w2, ⟨_, _, rfl⟩⟩
    · trivial
  · trivial

theorem nok_prattLoop (s : St) (hW : W E c s) (hpre : Pre E .prattLoop s) : NOK (E := E) (c := c) (rec := rec) (body .prattLoop) s :=
  nok_pratt .exprPrec (fun _ _ h => h) rfl (.ite (.neg stmtBreak) (.call .prattLoop) .skip) .prevPrecPlus1
    (fun s' hp => by rw [nok_ite]; split; · rw [nok_call]; exact hp
                     · trivial) s hW hpre

theorem nok_prattLoopNoLb (s : St) (hW : W E c s) (hpre : Pre E .prattLoopNoLb s) :
    NOK (E := E) (c := c) (rec := rec) (body .prattLoopNoLb) s :=
  nok_pratt .exprPrecNoLb (fun _ _ h => h) rfl (.call .prattLoopNoLb) .prevPrecPlus1
    (fun s' hp => by rw [nok_call]; exact hp) s hW hpre

theorem pre_after (f : Tag) (hf : ∀ s s', Rs E c f s s' → App P1 s s') (s : St)
    (h : Em E c rec (R E c) (.call f) (exec E rec .setBMarker s)) :
    Pre E .prattLoop (exec E rec (.call f) (exec E rec .setBMarker s)) := by
  obtain ⟨w, e, k, a, rfl⟩ := hf _ _ (And.left h)
  exact ⟨topCh s, .node k a, e, marker_eq s, ⟨k, a, rfl⟩⟩

theorem nok_exprPrec (s : St) : NOK (E := E) (c := c) (rec := rec) (body .exprPrec) s := by
  show NOK (.seq .setBMarker (.seq (.call .prefixExpr) (.ite (.neg stmtBreak) (.call .prattLoop) .skip))) s
  rw [nok_seq, nok_seq, nok_ite, nok_call]
  refine ⟨trivial, fun _ => ⟨trivial, fun h => ?_⟩⟩
  split
  · rw [nok_call]; exact pre_after .prefixExpr (fun _ _ h => h) s h
  · trivial

theorem nok_exprPrecNoLb (s : St) : NOK (E := E) (c := c) (rec := rec) (body .exprPrecNoLb) s := by
  show NOK (.seq .setBMarker (.seq (.call .prefixExpr) (.call .prattLoopNoLb))) s
  rw [nok_seq, nok_seq, nok_call, nok_call]
  exact ⟨trivial, fun _ => ⟨trivial, fun h => pre_after .prefixExpr (fun _ _ h => h) s h⟩⟩

end Mimium.Grammar
