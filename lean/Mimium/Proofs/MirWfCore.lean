import Mimium.Proofs.MirWfBase
import Mimium.Proofs.MirStateSound
/-! `stepCore` / `stepIns` of an instruction whose operands are defined never fail with `undefReg` / `badBlock`. -/
namespace Mimium.Mir
open Mimium.RustGen

theorem subsetB_mem {xs ys : List Nat} (h : subsetB xs ys = true) : ∀ r ∈ xs, r ∈ ys := by
  intro r hr
  simp only [subsetB, List.all_eq_true] at h
  simpa using h r hr

/-- the word a directly preceding `Uinteger` put into register `r` (if it can be read at all) -/
def LcOkR (lc : Option (Nat × Nat)) (s : RSt) : Prop :=
  ∀ r w, lc = some (r, w) → ∀ x, readWord s (.reg r) = .ok x → x.toNat = w

theorem safe_fnOfOpd (s : RSt) (o : Opd) (h : ∀ r ∈ opdRegs o, Defined s.fr.regs r) : Safe (fnOfOpd s o) := by
  cases o with
  | fn i => exact Safe.ok _
  | reg r => exact Safe.bind (safe_readWord _ _ h) (fun _ => Safe.ok _)
  | ext n => exact Safe.bind (safe_readWord _ _ h) (fun _ => Safe.ok _)
  | none => exact Safe.bind (safe_readWord _ _ h) (fun _ => Safe.ok _)
  | bad => exact Safe.bind (safe_readWord _ _ h) (fun _ => Safe.ok _)
  | up i => exact Safe.bind (safe_readWord _ _ h) (fun _ => Safe.ok _)

theorem fnOfOpd_reg {s : RSt} {r g : Nat} (h : fnOfOpd s (.reg r) = .ok g) : ∃ x, readWord s (.reg r) = .ok x ∧ x.toNat = g := by
  simp only [fnOfOpd, Bind.bind, Except.bind] at h
  cases hw : readWord s (.reg r) with
  | error e => simp [hw] at h
  | ok x => simp only [hw, Except.ok.injEq] at h; exact ⟨x, rfl, h⟩

/-- instructions whose well-formedness is just "operands defined" and that are not calls -/
def Ins.simple : Ins → Bool
  | .mkClosure .. | .storeFn .. | .setGlobalFn .. | .call .. | .callInd .. => false
  | _ => true

theorem safe_stepCore_simple {callF : CallF} {P : Prog} (i : Ins) (s : RSt) (hs : i.simple = true)
    (hu : ∀ r ∈ i.uses, Defined s.fr.regs r) : Safe (stepCore callF P i s) := by
  cases i with
  | mkClosure d f => simp [Ins.simple] at hs
  | storeFn p g => simp [Ins.simple] at hs
  | setGlobalFn gid g => simp [Ins.simple] at hs
  | call d f args n => simp [Ins.simple] at hs
  | callInd d f args n => simp [Ins.simple] at hs
  | uns d w => exact Safe.uns _
  | load d src n =>
    exact Safe.bind (safe_readOpd _ _ _ (fun r hr => hu r (by simp [Ins.uses, hr]))) (fun _ => Safe.ok _)
  | store p src n =>
    exact Safe.bind (safe_regOf _ _ (fun r hr => hu r (by simp [Ins.uses, hr])))
      (fun _ => Safe.bind (safe_readOpd _ _ _ (fun r hr => hu r (by simp [Ins.uses, hr])))
        (fun _ => Safe.bind (safe_writeN _ _ _) (fun _ => Safe.ok _)))
  | getElem d src off n =>
    exact Safe.bind (safe_regOf _ _ (fun r hr => hu r (by simp [Ins.uses, hr]))) (fun _ => Safe.ok _)
  | getGlobal d gid n =>
    simp only [stepCore]; split
    · exact Safe.ok _
    · exact Safe.stuck _
  | setGlobal gid src n =>
    refine Safe.bind (safe_readOpd _ _ _ (fun r hr => hu r (by simp [Ins.uses, hr]))) (fun _ => ?_)
    split
    · exact Safe.ok _
    · exact Safe.stuck _
  | closeHeap src =>
    exact Safe.bind (safe_readWord _ _ (fun r hr => hu r (by simp [Ins.uses, hr])))
      (fun _ => Safe.bind (safe_closeHandle _ _) (fun _ => Safe.ok _))
  | closeUp src offs =>
    exact Safe.bind (safe_regOf _ _ (fun r hr => hu r (by simp [Ins.uses, hr])))
      (fun _ => Safe.bind (safe_closeOffs _ _ _) (fun _ => Safe.ok _))
  | getUp d i n =>
    refine Safe.bind (safe_curCell _ _) (fun _ => ?_)
    split
    · exact Safe.bind (safe_readN _ _ _) (fun _ => Safe.ok _)
    · exact Safe.ok _
    · exact Safe.stuck _
  | setUp i src n =>
    refine Safe.bind (safe_curCell _ _) (fun _ => Safe.bind (safe_readOpd _ _ _ (fun r hr => hu r (by simp [Ins.uses, hr]))) (fun _ => ?_))
    split
    · exact Safe.bind (safe_writeN _ _ _) (fun _ => Safe.ok _)
    · exact Safe.ok _
    · exact Safe.stuck _
  | un op d a =>
    exact Safe.bind (safe_readWord _ _ (fun r hr => hu r (by simp [Ins.uses, hr]))) (fun _ => Safe.ok _)
  | bin op d a b =>
    exact Safe.bind (safe_readWord _ _ (fun r hr => hu r (by simp [Ins.uses, hr])))
      (fun _ => Safe.bind (safe_readWord _ _ (fun r hr => hu r (by simp [Ins.uses, hr])))
        (fun _ => Safe.bind (safe_evalBin _ _ _) (fun _ => Safe.ok _)))
  | unionWrap d tag src total payload =>
    simp only [stepCore]
    split
    · exact Safe.bind (Safe.pure _) (fun _ => Safe.ok _)
    · exact Safe.bind (safe_readOpd _ _ _ (fun r hr => hu r (by simp [Ins.uses, hr]))) (fun _ => Safe.ok _)
  | unionTag d src =>
    exact Safe.bind (safe_regOf _ _ (fun r hr => hu r (by simp [Ins.uses, hr])))
      (fun _ => Safe.bind (safe_readN _ _ _) (fun _ => Safe.ok _))
  | unionVal d src n =>
    exact Safe.bind (safe_regOf _ _ (fun r hr => hu r (by simp [Ins.uses, hr])))
      (fun _ => Safe.bind (safe_readN _ _ _) (fun _ => Safe.ok _))
  | jmpIf c t e m =>
    exact Safe.bind (safe_readWord _ _ (fun r hr => hu r (by simpa [Ins.uses, opdRegs] using hr))) (fun _ => Safe.ok _)
  | switch c cs d m =>
    exact Safe.bind (safe_readWord _ _ (fun r hr => hu r (by simpa [Ins.uses, opdRegs] using hr))) (fun _ => Safe.ok _)
  | _ => exact Safe.ok _

theorem safe_stepCore {callF : CallF} {P : Prog} (hcall : CallSafe callF) (i : Ins) (s : RSt) (lc : Option (Nat × Nat))
    (D : List Nat) (hwf : wfIns P lc D i = true) (hD : ∀ r ∈ D, Defined s.fr.regs r) (hlc : LcOkR lc s) :
    Safe (stepCore callF P i s) := by
  have hups : ∀ g, subsetB (upsOf P g) D = true → ∀ r ∈ upsOf P g, Defined s.fr.regs r :=
    fun g hg r hr => hD r (subsetB_mem hg r hr)
  cases i with
  | mkClosure d f =>
    simp only [stepCore]
    refine Safe.bind' (safe_fnOfOpd s f ?_) ?_
    · intro r hr
      cases f with
      | reg r' =>
        simp only [wfIns, Bool.and_eq_true] at hwf
        simp only [opdRegs, List.mem_singleton] at hr
        subst hr
        exact hD _ (by simpa using hwf.1)
      | _ => simp [opdRegs] at hr
    · intro g hg
      have hdef : ∀ r ∈ upsOf P g, Defined s.fr.regs r := by
        cases f with
        | reg r =>
          simp only [wfIns, Bool.and_eq_true] at hwf
          obtain ⟨_, hl⟩ := hwf
          cases hl' : lc with
          | none => simp [hl'] at hl
          | some p =>
            obtain ⟨r', g'⟩ := p
            simp only [hl', Bool.and_eq_true, beq_iff_eq] at hl
            obtain ⟨hrr, hsub⟩ := hl
            subst hrr
            obtain ⟨x, hx, hxg⟩ := fnOfOpd_reg hg
            have : g = g' := by rw [← hxg]; exact hlc r' g' hl' x hx
            subst this
            exact hups g hsub
        | fn g' =>
          simp only [wfIns] at hwf
          simp only [fnOfOpd, Except.ok.injEq] at hg
          subst hg
          exact hups _ hwf
        | ext n => simp [fnOfOpd, Bind.bind, Except.bind, readWord, readOpd, regOf] at hg
        | none => simp [fnOfOpd, Bind.bind, Except.bind, readWord, readOpd, regOf] at hg
        | bad => simp [fnOfOpd, Bind.bind, Except.bind, readWord, readOpd, regOf] at hg
        | up i => simp [fnOfOpd, Bind.bind, Except.bind, readWord, readOpd, regOf] at hg
      exact Safe.bind (safe_newClosure P s g hdef) (fun _ => Safe.ok _)
  | storeFn p g =>
    simp only [wfIns, Bool.and_eq_true] at hwf
    have hu : ∀ r ∈ (Ins.storeFn p g).uses, Defined s.fr.regs r := fun r hr => hD r (subsetB_mem hwf.1 r (by simpa [Ins.uses] using hr))
    simp only [stepCore]
    refine Safe.bind ?_ ?_
    · apply safe_regOf; intro r hr; apply hu; simp [Ins.uses, hr]
    · intro rp
      exact Safe.bind (safe_newClosure P s g (hups g hwf.2)) (fun _ => Safe.bind (safe_writeN _ _ _) (fun _ => Safe.ok _))
  | setGlobalFn gid g =>
    simp only [wfIns] at hwf
    simp only [stepCore]
    refine Safe.bind (safe_newClosure P s g (hups g hwf)) ?_
    intro p; split
    · exact Safe.ok _
    · exact Safe.stuck _
  | call d f args n =>
    have hu : ∀ r ∈ (Ins.call d f args n).uses, Defined s.fr.regs r := fun r hr => hD r (subsetB_mem (by simpa [wfIns] using hwf) r hr)
    have hargs : Safe (readArgs s args) := safe_readArgs s args (fun r hr => hu r (by simp [Ins.uses, hr]))
    cases f with
    | ext name =>
      simp only [stepCore]
      refine Safe.bind hargs (fun _ => Safe.bind (safe_extCall _ _ _ _) (fun _ => ?_))
      split
      · exact Safe.stuck _
      · exact Safe.ok _
    | _ => exact Safe.uns _
  | callInd d f args n =>
    have hu : ∀ r ∈ (Ins.callInd d f args n).uses, Defined s.fr.regs r := fun r hr => hD r (subsetB_mem (by simpa [wfIns] using hwf) r hr)
    have hargs : Safe (readArgs s args) := safe_readArgs s args (fun r hr => hu r (by simp [Ins.uses, hr]))
    have hind : ∀ f', (∀ r ∈ opdRegs f', Defined s.fr.regs r) → Safe (do
        let ws ← readArgs s args
        let w ← readWord s f'
        match cloOfHandle s.g w with
        | none => .error (.unsupported "indirect call of a word that is no closure handle")
        | some c =>
          match s.g.clos[c]? with
          | none => .error (.stuck "dangling closure handle")
          | some cl => do
            let (out, g', st', _) ← callF cl.fn ws (some c) s.g cl.st []
            let g'' := { g' with clos := g'.clos.modify c fun cl' => { cl' with st := st' } }
            if out.length < n then .error (.stuck "callee returned too few words")
            else .ok ((g'', s.fr.upmap, .val d (out.take n)) : CoreRes)) := by
      intro f' hf'
      refine Safe.bind hargs (fun ws => Safe.bind (safe_readWord _ _ hf') (fun w => ?_))
      split
      · exact Safe.uns _
      · split
        · exact Safe.stuck _
        · refine Safe.bind (hcall _ _ _ _ _ _) (fun r => ?_)
          split
          dsimp only
          split
          · exact Safe.stuck _
          · exact Safe.ok _
    cases f with
    | ext name =>
      simp only [stepCore]
      refine Safe.bind hargs (fun _ => Safe.bind (safe_extCall _ _ _ _) (fun _ => ?_))
      split
      · exact Safe.stuck _
      · exact Safe.ok _
    | reg r => exact hind _ (fun r' hr' => hu r' (by simp [Ins.uses, hr']))
    | fn i => exact hind _ (fun r' hr' => by simp [opdRegs] at hr')
    | none => exact hind _ (fun r' hr' => by simp [opdRegs] at hr')
    | bad => exact hind _ (fun r' hr' => by simp [opdRegs] at hr')
    | up i => exact hind _ (fun r' hr' => by simp [opdRegs] at hr')
  | _ =>
    refine safe_stepCore_simple _ s rfl (fun r hr => hD r (subsetB_mem ?_ r hr))
    simpa [wfIns] using hwf

end Mimium.Mir
