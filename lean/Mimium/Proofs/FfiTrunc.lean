import Mimium.Proofs.FfiConv
/-! A successful decode is stable under appending bytes; hence every strict prefix of an encoding is rejected. -/
namespace Mimium.Ffi
open Mimium.Gen.Ffi

theorem readLE_ext {k : Nat} {bs r x : Bytes} {n : Nat} (h : readLE k bs = some (n, r)) :
    readLE k (bs ++ x) = some (n, r ++ x) := by
  induction k generalizing bs n r with
  | zero => simp [readLE] at h ⊢; obtain ⟨rfl, rfl⟩ := h; simp
  | succ k ih =>
    cases bs with
    | nil => simp [readLE] at h
    | cons b bs =>
      simp only [readLE, List.cons_append] at h ⊢
      cases h1 : readLE k bs with
      | none => simp [h1] at h
      | some p =>
        obtain ⟨m, r1⟩ := p
        simp only [h1] at h
        simp only [ih h1]
        simp at h ⊢
        obtain ⟨rfl, rfl⟩ := h
        simp

theorem readU32_ext {bs r x : Bytes} {n : UInt32} (h : readU32 bs = some (n, r)) :
    readU32 (bs ++ x) = some (n, r ++ x) := by
  unfold readU32 at h ⊢
  cases h1 : readLE 4 bs with
  | none => simp [h1] at h
  | some p =>
    obtain ⟨m, r1⟩ := p
    simp only [h1] at h
    simp only [readLE_ext h1]
    simp at h ⊢
    obtain ⟨rfl, rfl⟩ := h
    simp

theorem readU64_ext {bs r x : Bytes} {n : UInt64} (h : readU64 bs = some (n, r)) :
    readU64 (bs ++ x) = some (n, r ++ x) := by
  unfold readU64 at h ⊢
  cases h1 : readLE 8 bs with
  | none => simp [h1] at h
  | some p =>
    obtain ⟨m, r1⟩ := p
    simp only [h1] at h
    simp only [readLE_ext h1]
    simp at h ⊢
    obtain ⟨rfl, rfl⟩ := h
    simp

theorem readLen_ext {bs r x : Bytes} {n : Nat} (h : readLen bs = some (n, r)) :
    readLen (bs ++ x) = some (n, r ++ x) := readLE_ext h

theorem takeExact_ext {k : Nat} {bs r x ys : Bytes} (h : takeExact k bs = some (ys, r)) :
    takeExact k (bs ++ x) = some (ys, r ++ x) := by
  induction k generalizing bs ys r with
  | zero => simp [takeExact] at h ⊢; obtain ⟨rfl, rfl⟩ := h; simp
  | succ k ih =>
    cases bs with
    | nil => simp [takeExact] at h
    | cons b bs =>
      simp only [takeExact, List.cons_append] at h ⊢
      cases h1 : takeExact k bs with
      | none => simp [h1] at h
      | some p =>
        obtain ⟨zs, r1⟩ := p
        simp only [h1] at h
        simp only [ih h1]
        simp at h ⊢
        obtain ⟨rfl, rfl⟩ := h
        simp

theorem readStr_ext {bs r x : Bytes} {s : String} (h : readStr bs = some (s, r)) :
    readStr (bs ++ x) = some (s, r ++ x) := by
  unfold readStr at h ⊢
  cases h1 : readLen bs with
  | none => simp [h1] at h
  | some p =>
    obtain ⟨n, r1⟩ := p
    simp only [h1] at h
    simp only [readLen_ext h1]
    cases h2 : takeExact n r1 with
    | none => simp [h2] at h
    | some q =>
      obtain ⟨raw, r2⟩ := q
      simp only [h2] at h
      simp only [takeExact_ext h2]
      cases h3 : ofBytes? raw with
      | none => simp [h3] at h
      | some s' =>
        simp only [h3] at h ⊢
        simp at h ⊢
        obtain ⟨rfl, rfl⟩ := h
        simp

theorem readKey_ext {bs r x : Bytes} {k : Key} (h : readKey bs = some (k, r)) :
    readKey (bs ++ x) = some (k, r ++ x) := by
  unfold readKey at h ⊢
  cases h1 : readU32 bs with
  | none => simp [h1] at h
  | some p =>
    obtain ⟨i, r1⟩ := p
    simp only [h1] at h
    simp only [readU32_ext h1]
    cases h2 : readU32 r1 with
    | none => simp [h2] at h
    | some q =>
      obtain ⟨v, r2⟩ := q
      simp only [h2] at h
      simp only [readU32_ext h2]
      simp at h ⊢
      obtain ⟨rfl, rfl⟩ := h
      simp

/-- all three decoders at once, by induction on the fuel -/
theorem decode_ext_all (f : Nat) :
    (∀ bs v r x, decode f bs = some (v, r) → decode f (bs ++ x) = some (v, r ++ x)) ∧
    (∀ n bs vs r x, decodeList f n bs = some (vs, r) → decodeList f n (bs ++ x) = some (vs, r ++ x)) ∧
    (∀ n bs fs r x, decodeFields f n bs = some (fs, r) → decodeFields f n (bs ++ x) = some (fs, r ++ x)) := by
  induction f with
  | zero =>
    refine ⟨?_, ?_, ?_⟩
    · intro bs v r x h; simp [decode] at h
    · intro n bs vs r x h
      cases n with
      | zero => simp [decodeList] at h ⊢; obtain ⟨rfl, rfl⟩ := h; simp
      | succ n => simp [decodeList] at h
    · intro n bs fs r x h
      cases n with
      | zero => simp [decodeFields] at h ⊢; obtain ⟨rfl, rfl⟩ := h; simp
      | succ n => simp [decodeFields] at h
  | succ f ih =>
    obtain ⟨ihd, ihl, ihf⟩ := ih
    refine ⟨?_, ?_, ?_⟩
    · intro bs v r x h
      unfold decode at h ⊢
      cases h1 : readU32 bs with
      | none => simp [h1] at h
      | some p =>
        obtain ⟨t, r1⟩ := p
        simp only [h1] at h
        simp only [readU32_ext h1]
        cases h2 : FfiCtor.ofTag t with
        | none => simp [h2] at h
        | some c =>
          simp only [h2] at h ⊢
          cases c with
          | ErrorV => simp at h ⊢; obtain ⟨rfl, rfl⟩ := h; simp
          | Unit => simp at h ⊢; obtain ⟨rfl, rfl⟩ := h; simp
          | Number =>
            simp only at h ⊢
            cases h3 : readU64 r1 with
            | none => simp [h3] at h
            | some q =>
              obtain ⟨b, r2⟩ := q
              simp only [h3] at h; simp only [readU64_ext h3]
              simp at h ⊢; obtain ⟨rfl, rfl⟩ := h; simp
          | String =>
            simp only at h ⊢
            cases h3 : readStr r1 with
            | none => simp [h3] at h
            | some q =>
              obtain ⟨b, r2⟩ := q
              simp only [h3] at h; simp only [readStr_ext h3]
              simp at h ⊢; obtain ⟨rfl, rfl⟩ := h; simp
          | Array =>
            simp only at h ⊢
            cases h3 : readLen r1 with
            | none => simp [h3] at h
            | some q =>
              obtain ⟨n, r2⟩ := q
              simp only [h3] at h; simp only [readLen_ext h3]
              cases h4 : decodeList f n r2 with
              | none => simp [h4] at h
              | some q2 =>
                obtain ⟨vs, r3⟩ := q2
                simp only [h4] at h; simp only [ihl _ _ _ _ x h4]
                simp at h ⊢; obtain ⟨rfl, rfl⟩ := h; simp
          | Tuple =>
            simp only at h ⊢
            cases h3 : readLen r1 with
            | none => simp [h3] at h
            | some q =>
              obtain ⟨n, r2⟩ := q
              simp only [h3] at h; simp only [readLen_ext h3]
              cases h4 : decodeList f n r2 with
              | none => simp [h4] at h
              | some q2 =>
                obtain ⟨vs, r3⟩ := q2
                simp only [h4] at h; simp only [ihl _ _ _ _ x h4]
                simp at h ⊢; obtain ⟨rfl, rfl⟩ := h; simp
          | Record =>
            simp only at h ⊢
            cases h3 : readLen r1 with
            | none => simp [h3] at h
            | some q =>
              obtain ⟨n, r2⟩ := q
              simp only [h3] at h; simp only [readLen_ext h3]
              cases h4 : decodeFields f n r2 with
              | none => simp [h4] at h
              | some q2 =>
                obtain ⟨vs, r3⟩ := q2
                simp only [h4] at h; simp only [ihf _ _ _ _ x h4]
                simp at h ⊢; obtain ⟨rfl, rfl⟩ := h; simp
          | Code =>
            simp only at h ⊢
            cases h3 : readKey r1 with
            | none => simp [h3] at h
            | some q =>
              obtain ⟨b, r2⟩ := q
              simp only [h3] at h; simp only [readKey_ext h3]
              simp at h ⊢; obtain ⟨rfl, rfl⟩ := h; simp
          | TaggedUnion =>
            simp only at h ⊢
            cases h3 : readU64 r1 with
            | none => simp [h3] at h
            | some q =>
              obtain ⟨b, r2⟩ := q
              simp only [h3] at h; simp only [readU64_ext h3]
              cases h4 : decode f r2 with
              | none => simp [h4] at h
              | some q2 =>
                obtain ⟨w, r3⟩ := q2
                simp only [h4] at h; simp only [ihd _ _ _ x h4]
                simp at h ⊢; obtain ⟨rfl, rfl⟩ := h; simp
    · intro n bs vs r x h
      cases n with
      | zero => simp [decodeList] at h ⊢; obtain ⟨rfl, rfl⟩ := h; simp
      | succ n =>
        simp only [decodeList] at h ⊢
        cases h1 : decode f bs with
        | none => simp [h1] at h
        | some p =>
          obtain ⟨v, r1⟩ := p
          simp only [h1] at h; simp only [ihd _ _ _ x h1]
          cases h2 : decodeList f n r1 with
          | none => simp [h2] at h
          | some q =>
            obtain ⟨ws, r2⟩ := q
            simp only [h2] at h; simp only [ihl _ _ _ _ x h2]
            simp at h ⊢; obtain ⟨rfl, rfl⟩ := h; simp
    · intro n bs fs r x h
      cases n with
      | zero => simp [decodeFields] at h ⊢; obtain ⟨rfl, rfl⟩ := h; simp
      | succ n =>
        simp only [decodeFields] at h ⊢
        cases h0 : readStr bs with
        | none => simp [h0] at h
        | some p0 =>
          obtain ⟨k, r0⟩ := p0
          simp only [h0] at h; simp only [readStr_ext h0]
          cases h1 : decode f r0 with
          | none => simp [h1] at h
          | some p =>
            obtain ⟨v, r1⟩ := p
            simp only [h1] at h; simp only [ihd _ _ _ x h1]
            cases h2 : decodeFields f n r1 with
            | none => simp [h2] at h
            | some q =>
              obtain ⟨ws, r2⟩ := q
              simp only [h2] at h; simp only [ihf _ _ _ _ x h2]
              simp at h ⊢; obtain ⟨rfl, rfl⟩ := h; simp

/-- more fuel never changes a successful decode -/
theorem decode_fuel_all (f : Nat) :
    (∀ bs p, decode f bs = some p → decode (f + 1) bs = some p) ∧
    (∀ n bs p, decodeList f n bs = some p → decodeList (f + 1) n bs = some p) ∧
    (∀ n bs p, decodeFields f n bs = some p → decodeFields (f + 1) n bs = some p) := by
  induction f with
  | zero =>
    refine ⟨?_, ?_, ?_⟩
    · intro bs p h; simp [decode] at h
    · intro n bs p h
      cases n with
      | zero => simpa [decodeList] using h
      | succ n => simp [decodeList] at h
    · intro n bs p h
      cases n with
      | zero => simpa [decodeFields] using h
      | succ n => simp [decodeFields] at h
  | succ f ih =>
    obtain ⟨ihd, ihl, ihf⟩ := ih
    refine ⟨?_, ?_, ?_⟩
    · intro bs p h
      unfold decode at h ⊢
      cases h1 : readU32 bs with
      | none => simp [h1] at h
      | some q =>
        obtain ⟨t, r1⟩ := q
        simp only [h1] at h ⊢
        cases h2 : FfiCtor.ofTag t with
        | none => simp [h2] at h
        | some c =>
          simp only [h2] at h ⊢
          cases c with
          | ErrorV => exact h
          | Unit => exact h
          | Number => exact h
          | String => exact h
          | Code => exact h
          | Array =>
            simp only at h ⊢
            cases h3 : readLen r1 with
            | none => simp [h3] at h
            | some q =>
              obtain ⟨n, r2⟩ := q
              simp only [h3] at h ⊢
              cases h4 : decodeList f n r2 with
              | none => simp [h4] at h
              | some q2 => simp only [h4] at h; simp only [ihl _ _ _ h4]; exact h
          | Tuple =>
            simp only at h ⊢
            cases h3 : readLen r1 with
            | none => simp [h3] at h
            | some q =>
              obtain ⟨n, r2⟩ := q
              simp only [h3] at h ⊢
              cases h4 : decodeList f n r2 with
              | none => simp [h4] at h
              | some q2 => simp only [h4] at h; simp only [ihl _ _ _ h4]; exact h
          | Record =>
            simp only at h ⊢
            cases h3 : readLen r1 with
            | none => simp [h3] at h
            | some q =>
              obtain ⟨n, r2⟩ := q
              simp only [h3] at h ⊢
              cases h4 : decodeFields f n r2 with
              | none => simp [h4] at h
              | some q2 => simp only [h4] at h; simp only [ihf _ _ _ h4]; exact h
          | TaggedUnion =>
            simp only at h ⊢
            cases h3 : readU64 r1 with
            | none => simp [h3] at h
            | some q =>
              obtain ⟨b, r2⟩ := q
              simp only [h3] at h ⊢
              cases h4 : decode f r2 with
              | none => simp [h4] at h
              | some q2 => simp only [h4] at h; simp only [ihd _ _ h4]; exact h
    · intro n bs p h
      cases n with
      | zero => simpa [decodeList] using h
      | succ n =>
        simp only [decodeList] at h ⊢
        cases h1 : decode f bs with
        | none => simp [h1] at h
        | some q =>
          obtain ⟨v, r1⟩ := q
          simp only [h1] at h; simp only [ihd _ _ h1]
          cases h2 : decodeList f n r1 with
          | none => simp [h2] at h
          | some q2 => simp only [h2] at h; simp only [ihl _ _ _ h2]; exact h
    · intro n bs p h
      cases n with
      | zero => simpa [decodeFields] using h
      | succ n =>
        simp only [decodeFields] at h ⊢
        cases h0 : readStr bs with
        | none => simp [h0] at h
        | some q0 =>
          obtain ⟨k, r0⟩ := q0
          simp only [h0] at h ⊢
          cases h1 : decode f r0 with
          | none => simp [h1] at h
          | some q =>
            obtain ⟨v, r1⟩ := q
            simp only [h1] at h; simp only [ihd _ _ h1]
            cases h2 : decodeFields f n r1 with
            | none => simp [h2] at h
            | some q2 => simp only [h2] at h; simp only [ihf _ _ _ h2]; exact h

theorem decode_fuel_le {f g : Nat} (hfg : f ≤ g) {bs : Bytes} {p} (h : decode f bs = some p) : decode g bs = some p := by
  induction hfg with
  | refl => exact h
  | step _ ih => exact (decode_fuel_all _).1 _ _ ih

/-- every strict prefix of an encoding is rejected -/
theorem decodeBytes_truncated (v : FfiValue) (hr : v.Rep) (k : Nat) (hk : k < (encode v).length) :
    decodeBytes ((encode v).take k) = none := by
  cases h : decodeBytes ((encode v).take k) with
  | none => rfl
  | some p =>
    exfalso
    obtain ⟨w, r⟩ := p
    unfold decodeBytes at h
    have h1 := (decode_ext_all _).1 _ _ _ ((encode v).drop k) h
    rw [List.take_append_drop] at h1
    have h2 := decode_fuel_le (g := (encode v).length) (by simp; omega) h1
    have h3 := decodeBytes_encode v [] hr
    rw [List.append_nil] at h3
    unfold decodeBytes at h3
    rw [h3] at h2
    simp at h2
    have := h2.2.2
    omega

end Mimium.Ffi
