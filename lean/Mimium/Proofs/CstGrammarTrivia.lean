import Mimium.Proofs.CstGrammar
/-!
# The parse tree does not depend on trivia

The parser of `Model/CstGrammar.lean` reads the raw token array only through

1. `view E kinds i`: the kind of the `i`-th SYNTAX token,
2. the line-break oracle `E.nl`,
3. `adjacent E i` (for the diagnostic `Cond.prevAdjOp` only): whether the syntax tokens `i - 1` and `i` are neighbours in the raw
   token array.

`parse_trivia_independent`: two runs on inputs that agree on these three things produce trees of the same `Shape` (node kinds and
structure; the leaves are raw token indices and differ, of course), the same cursor, the same ghost flag, the same error details,
and views that agree again.

Method: the builder state is abstracted to its shape (`absB`), on which the builder primitives act by `aexec` (`abs_exec`; a leaf
is pushed by `bump` iff the cursor is inside the syntax tokens).  `Rel` (equal abstractions, registers, error details and views)
is a simulation: one induction on `Cmd` (`exec_rel`), one on the fuel (`go_rel`).
-/
namespace Mimium.Grammar

/-- shape of a green tree: node kinds and structure, leaves anonymous -/
inductive Shape where
  | leaf
  | node (kind : Nat) (children : List Shape)
deriving Repr, Inhabited

mutual
/-- a printable / comparable code of a shape (prefix code: `0` leaf, `kind+2 … 1` node) -/
def Shape.code : Shape → List Nat
  | .leaf => [0]
  | .node k cs => (k + 2) :: (Shape.codeL cs ++ [1])
def Shape.codeL : List Shape → List Nat
  | [] => []
  | c :: cs => c.code ++ Shape.codeL cs
end

end Mimium.Grammar

namespace Mimium.Cst
open Mimium.Grammar (Shape)

mutual
/-- the tree without its token indices and widths -/
def Green.shape : Green → Shape
  | .token _ _ => .leaf
  | .node k cs => .node k (shapeL cs)
def shapeL : List Green → List Shape
  | [] => []
  | g :: gs => g.shape :: shapeL gs
end

theorem shapeL_eq_map : ∀ cs : List Green, shapeL cs = cs.map Green.shape
  | [] => by simp [shapeL]
  | g :: gs => by simp [shapeL, shapeL_eq_map gs]

@[simp] theorem Green.shape_token (i w : Nat) : (Green.token i w).shape = .leaf := by simp [Green.shape]

@[simp] theorem Green.shape_node (k : Nat) (cs : List Green) : (Green.node k cs).shape = .node k (cs.map Green.shape) := by
  simp [Green.shape, shapeL_eq_map]

end Mimium.Cst

namespace Mimium.Grammar
open Mimium.Gen (Kind SK)
open Mimium.Cst (PState Frame Green)

/-! ## What the parser sees of the token array -/

/-- kind of the `i`-th syntax token, as the parser sees it -/
def view (E : Env) (kinds : Array Kind) (i : Nat) : Option Kind :=
  match E.idx[i]? with | none => none | some r => kinds[r]?

/-- the adjacency test of `prev_kind_if_adjacent` with the cursor at `i` -/
def adjacent (E : Env) (i : Nat) : Bool :=
  if i = 0 then false else match E.idx[i]?, E.idx[i - 1]? with | some c, some p => c == p + 1 | _, _ => false

/-- raw indices of syntax tokens are strictly increasing (true for `preparse`) -/
def IdxInc (E : Env) : Prop := ∀ i j, i < j → j < E.idx.size → E.idx[i]?.getD 0 < E.idx[j]?.getD 0

/-- the form in which the fact is available for the real environment (`Preparse.syntaxIndices_pairwise`) -/
theorem idxInc_of_pairwise (E : Env) (h : E.idx.toList.Pairwise (· < ·)) : IdxInc E := by
  intro i j hij hj
  have hi : i < E.idx.size := by omega
  rw [List.pairwise_iff_getElem] at h
  have := h i j (by simpa using hi) (by simpa using hj) hij
  simpa [Array.getElem?_eq_getElem hi, Array.getElem?_eq_getElem hj] using this

theorem idx_inj {E : Env} (hi : IdxInc E) {a b r : Nat} (ha : E.idx[a]? = some r) (hb : E.idx[b]? = some r) : a = b := by
  have ha' : a < E.idx.size := by
    apply Nat.lt_of_not_le; intro hle; rw [Array.getElem?_eq_none_iff.mpr hle] at ha; cases ha
  have hb' : b < E.idx.size := by
    apply Nat.lt_of_not_le; intro hle; rw [Array.getElem?_eq_none_iff.mpr hle] at hb; cases hb
  apply Nat.le_antisymm
  · apply Nat.le_of_not_lt; intro hlt
    have := hi b a hlt ha'
    rw [ha, hb] at this
    exact Nat.lt_irrefl _ this
  · apply Nat.le_of_not_lt; intro hlt
    have := hi a b hlt hb'
    rw [ha, hb] at this
    exact Nat.lt_irrefl _ this

/-! ## The builder state up to leaves -/

structure AFrame where
  kind : Nat
  children : List Shape

structure ASt where
  stack : List AFrame
  current : Nat
  root : Option Shape

def absF (f : Frame) : AFrame := ⟨f.kind, f.children.map Green.shape⟩

def absB (b : PState) : ASt := ⟨b.stack.map absF, b.current, b.root.map Green.shape⟩

def apush (g : Shape) : List AFrame → List AFrame
  | [] => []
  | f :: fs => { f with children := f.children ++ [g] } :: fs

/-- `Cst.exec` on shapes; `n` = number of syntax tokens -/
def aexec (n : Nat) (a : ASt) : Cst.Op → ASt
  | .startNode k => { a with stack := ⟨k, []⟩ :: a.stack }
  | .startNodeAt pos k =>
    match a.stack with
    | [] => { a with stack := [⟨k, []⟩] }
    | f :: fs => { a with stack := ⟨k, f.children.drop pos⟩ :: { f with children := f.children.take pos } :: fs }
  | .finishNode =>
    match a.stack with
    | [] => { a with root := none }
    | f :: fs => { a with stack := apush (.node f.kind f.children) fs, root := some (.node f.kind f.children) }
  | .bump =>
    if a.current < n then { a with current := a.current + 1, stack := apush .leaf a.stack }
    else { a with current := a.current + 1 }
  | .noop => a

theorem abs_pushChild (g : Green) : ∀ fs : List Frame, (Cst.pushChild g fs).map absF = apush g.shape (fs.map absF)
  | [] => rfl
  | f :: fs => by simp [Cst.pushChild, apush, absF]

theorem abs_exec (C : Cst.Env) (hC : Cst.EnvOk C) (b : PState) (o : Cst.Op) :
    absB (Cst.exec C b o) = aexec C.tokenIndices.length (absB b) o := by
  obtain ⟨stack, current, root⟩ := b
  cases o with
  | startNode k => simp [Cst.exec, absB, aexec, absF]
  | startNodeAt pos k =>
    cases stack with
    | nil => simp [Cst.exec, absB, aexec, absF]
    | cons f fs => simp [Cst.exec, absB, aexec, absF, List.map_take, List.map_drop]
  | finishNode =>
    cases stack with
    | nil => simp [Cst.exec, absB, aexec]
    | cons f fs => simp [Cst.exec, absB, aexec, absF, abs_pushChild]
  | noop => simp [Cst.exec, aexec]
  | bump =>
    simp only [Cst.exec, absB, aexec]
    cases h : C.tokenIndices[current]? with
    | none =>
      have : ¬ current < C.tokenIndices.length := by
        have := List.getElem?_eq_none_iff.mp h; omega
      simp [this]
    | some ti =>
      have hlt : current < C.tokenIndices.length := by
        apply Nat.lt_of_not_le; intro hle; rw [List.getElem?_eq_none_iff.mpr hle] at h; cases h
      have hw : ti < C.widths.length := hC ti (List.mem_of_getElem? h)
      simp [hlt, List.getElem?_eq_getElem hw, abs_pushChild]

/-- `builder.marker().pos` on shapes -/
def amarker (a : ASt) : Nat :=
  match a.stack with
  | [] => 0
  | f :: _ => f.children.length

theorem marker_abs (s : St) : marker s = amarker (absB s.b) := by
  unfold marker amarker absB
  cases s.b.stack with
  | nil => rfl
  | cons f fs => simp [absF]

/-! ## The simulation relation -/

/-- the two environments look the same to the parser -/
structure Ctx (E E' : Env) : Prop where
  ok : Env.Ok E
  ok' : Env.Ok E'
  inc : IdxInc E
  inc' : IdxInc E'
  size : E.idx.size = E'.idx.size
  nl : ∀ i, E.nl i = E'.nl i
  adj : ∀ i, adjacent E i = adjacent E' i

structure Rel (E E' : Env) (s s' : St) : Prop where
  b : absB s.b = absB s'.b
  ra : s.ra = s'.ra
  rb : s.rb = s'.rb
  oof : s.oof = s'.oof
  errs : s.errs.map (·.detail) = s'.errs.map (·.detail)
  view : ∀ i, view E s.kinds i = view E' s'.kinds i

variable {E E' : Env}

theorem Rel.cur {s s' : St} (h : Rel E E' s s') : s.b.current = s'.b.current := congrArg ASt.current h.b

/-! ## Observations are functions of the views -/

theorem peekAhead_view (E : Env) (s : St) (n : Nat) : peekAhead E s n = view E s.kinds (s.b.current + n) := rfl

theorem Rel.peekAhead {s s' : St} (h : Rel E E' s s') (n : Nat) : peekAhead E s n = peekAhead E' s' n := by
  rw [peekAhead_view, peekAhead_view, h.cur]; exact h.view _

theorem Rel.isAtEnd {s s' : St} (h : Rel E E' s s') : isAtEnd E s = isAtEnd E' s' := by
  have : peek E s = peek E' s' := h.peekAhead 0
  unfold Grammar.isAtEnd; rw [this]

theorem prevKind_view (E : Env) (s : St) :
    prevKindIfAdjacent E s = if adjacent E s.b.current then view E s.kinds (s.b.current - 1) else none := by
  unfold prevKindIfAdjacent adjacent view
  by_cases h0 : s.b.current = 0
  · simp [h0]
  · simp only [h0, if_false]
    cases E.idx[s.b.current]? with
    | none => simp
    | some c =>
      cases E.idx[s.b.current - 1]? with
      | none => simp
      | some p => simp

theorem Rel.prevKind (C : Ctx E E') {s s' : St} (h : Rel E E' s s') : prevKindIfAdjacent E s = prevKindIfAdjacent E' s' := by
  rw [prevKind_view, prevKind_view, h.cur, C.adj, h.view]

theorem macroScan_congr {s s' : St} (h : ∀ n, peekAhead E s n = peekAhead E' s' n) :
    ∀ fuel off, macroScan E s fuel off = macroScan E' s' fuel off := by
  intro fuel
  induction fuel with
  | zero => intro off; rfl
  | succ n ih => intro off; simp only [macroScan, h, ih]

theorem arrowScan_congr {s s' : St} (h : ∀ n, peekAhead E s n = peekAhead E' s' n) :
    ∀ fuel i d, arrowScan E s fuel i d = arrowScan E' s' fuel i d := by
  intro fuel
  induction fuel with
  | zero => intro i d; rfl
  | succ n ih => intro i d; simp only [arrowScan, h, ih]

theorem tupleTypeScan_congr {s s' : St} (h : ∀ n, peekAhead E s n = peekAhead E' s' n) :
    ∀ fuel i d, tupleTypeScan E s fuel i d = tupleTypeScan E' s' fuel i d := by
  intro fuel
  induction fuel with
  | zero => intro i d; rfl
  | succ n ih => intro i d; simp only [tupleTypeScan, h, ih]

theorem tupleExprScan_congr {s s' : St} (h : ∀ n, peekAhead E s n = peekAhead E' s' n) :
    ∀ fuel i d l, tupleExprScan E s fuel i d l = tupleExprScan E' s' fuel i d l := by
  intro fuel
  induction fuel with
  | zero => intro i d l; rfl
  | succ n ih => intro i d l; simp only [tupleExprScan, h, ih]

theorem Rel.evalLook (C : Ctx E E') {s s' : St} (h : Rel E E' s s') (l : Look) : evalLook E s l = evalLook E' s' l := by
  cases l with
  | macroAfterPath => simp only [Grammar.evalLook, h.peekAhead, macroScan_congr h.peekAhead, C.size]
  | typeArrowAhead => simp only [Grammar.evalLook, arrowScan_congr h.peekAhead]
  | isTupleType => simp only [Grammar.evalLook, tupleTypeScan_congr h.peekAhead]
  | isTupleExpr => simp only [Grammar.evalLook, tupleExprScan_congr h.peekAhead, C.size]

theorem Rel.evalCond (C : Ctx E E') {s s' : St} (h : Rel E E' s s') : ∀ c : Cond, evalCond E s c = evalCond E' s' c := by
  intro c
  induction c with
  | peekIn n ks => simp only [Grammar.evalCond, h.peekAhead]
  | peekNone n => simp only [Grammar.evalCond, h.peekAhead]
  | atEnd => simp only [Grammar.evalCond, h.isAtEnd]
  | nl => simp only [Grammar.evalCond, h.cur, C.nl]
  | isInfix => simp only [Grammar.evalCond, h.peekAhead]
  | infixBelowA => simp only [Grammar.evalCond, h.peekAhead, h.ra]
  | aZero => simp only [Grammar.evalCond, h.ra]
  | prevAdjOp => simp only [Grammar.evalCond, h.prevKind C]
  | look l => simp only [Grammar.evalCond, h.evalLook C]
  | neg c ih => simp only [Grammar.evalCond, ih]
  | both c d ihc ihd => simp only [Grammar.evalCond, ihc, ihd]
  | either c d ihc ihd => simp only [Grammar.evalCond, ihc, ihd]

/-- `prec + 1` of the token before the cursor -/
def precOf : Option Kind → Nat
  | some k => (infixPrec k).getD 0 + 1
  | none => 1

theorem evalA_view (E : Env) (s : St) : evalA E s .prevPrecPlus1 = precOf (view E s.kinds (s.b.current - 1)) := by
  unfold evalA view
  cases E.idx[s.b.current - 1]? with
  | none => rfl
  | some i => cases s.kinds[i]? <;> rfl

theorem Rel.evalA {s s' : St} (h : Rel E E' s s') (a : AExpr) : evalA E s a = evalA E' s' a := by
  cases a with
  | const n => rfl
  | prevPrecPlus1 => rw [evalA_view, evalA_view, h.cur, h.view]

/-- the detail of an error as a function of the token under the cursor -/
def errDetail : ErrSpec → Option Kind → ErrDetail
  | .tok e, p => .unexpectedToken e p
  | .tokOrEof e, p => .unexpectedToken e (some (p.getD .Eof))
  | .eof e, _ => .unexpectedEof e
  | .syntax r, _ => .invalidSyntax r

theorem mkErr_detail (E : Env) (s : St) (e : ErrSpec) : (mkErr E s e).detail = errDetail e (peek E s) := by
  cases e <;> rfl

/-! ## Every step preserves the relation -/

theorem Env.Ok.size {E : Env} (h : Env.Ok E) : E.cst.tokenIndices.length = E.idx.size := by
  rw [h.2]; simp

theorem prim_rel (C : Ctx E E') {s s' : St} (h : Rel E E' s s') (o : Cst.Op) : Rel E E' (prim E s o) (prim E' s' o) where
  b := by
    show absB (Cst.exec E.cst s.b o) = absB (Cst.exec E'.cst s'.b o)
    rw [abs_exec _ C.ok.1, abs_exec _ C.ok'.1, C.ok.size, C.ok'.size, C.size, h.b]
  ra := h.ra
  rb := h.rb
  oof := h.oof
  errs := h.errs
  view := h.view

theorem addErr_rel {s s' : St} (h : Rel E E' s s') (e : ErrSpec) : Rel E E' (addErr E s e) (addErr E' s' e) where
  b := h.b
  ra := h.ra
  rb := h.rb
  oof := h.oof
  errs := by
    show ((mkErr E s e) :: s.errs).map (·.detail) = ((mkErr E' s' e) :: s'.errs).map (·.detail)
    simp only [List.map_cons, mkErr_detail, peek, h.peekAhead 0, h.errs]
  view := h.view

theorem relabel_errs' (E : Env) (s : St) (k : Kind) : (relabel E s k).errs = s.errs := by
  unfold relabel; split <;> rfl
theorem relabel_ra (E : Env) (s : St) (k : Kind) : (relabel E s k).ra = s.ra := by
  unfold relabel; split <;> rfl
theorem relabel_rb (E : Env) (s : St) (k : Kind) : (relabel E s k).rb = s.rb := by
  unfold relabel; split <;> rfl
theorem relabel_b' (E : Env) (s : St) (k : Kind) : (relabel E s k).b = s.b := by
  unfold relabel; split <;> rfl
theorem relabel_oof' (E : Env) (s : St) (k : Kind) : (relabel E s k).oof = s.oof := by
  unfold relabel; split <;> rfl

/-- relabelling the token under the cursor changes the view at the cursor only -/
theorem relabel_view {E : Env} (hi : IdxInc E) (s : St) (k : Kind) (j : Nat) :
    view E (relabel E s k).kinds j =
      if j = s.b.current then (view E s.kinds j).map (fun _ => k) else view E s.kinds j := by
  unfold relabel
  cases hc : E.idx[s.b.current]? with
  | none =>
    simp only
    split
    · rename_i hj
      subst hj
      simp [view, hc]
    · rfl
  | some i =>
    simp only
    unfold view
    cases hj : E.idx[j]? with
    | none => simp
    | some r =>
      simp only [Array.getElem?_setIfInBounds]
      by_cases hjc : j = s.b.current
      · subst hjc
        rw [hc] at hj
        cases hj
        simp only [if_true]
        cases hk : s.kinds[i]? with
        | none =>
          have := Array.getElem?_eq_none_iff.mp hk
          have : ¬ i < s.kinds.size := by omega
          simp [this]
        | some k0 =>
          have : i < s.kinds.size := by
            apply Nat.lt_of_not_le; intro hle; rw [Array.getElem?_eq_none_iff.mpr hle] at hk; cases hk
          simp [this]
      · have : i ≠ r := by
          intro e; subst e
          exact hjc (idx_inj hi hj hc)
        simp [this, hjc]

theorem relabel_rel (C : Ctx E E') {s s' : St} (h : Rel E E' s s') (k : Kind) :
    Rel E E' (relabel E s k) (relabel E' s' k) where
  b := by rw [relabel_b', relabel_b']; exact h.b
  ra := by rw [relabel_ra, relabel_ra]; exact h.ra
  rb := by rw [relabel_rb, relabel_rb]; exact h.rb
  oof := by rw [relabel_oof', relabel_oof']; exact h.oof
  errs := by rw [relabel_errs', relabel_errs']; exact h.errs
  view := fun j => by rw [relabel_view C.inc, relabel_view C.inc', h.cur, h.view]

theorem Rel.marker {s s' : St} (h : Rel E E' s s') : marker s = marker s' := by
  rw [marker_abs, marker_abs, h.b]

theorem Rel.setRa {s s' : St} (h : Rel E E' s s') (a : Nat) : Rel E E' { s with ra := a } { s' with ra := a } :=
  ⟨h.b, rfl, h.rb, h.oof, h.errs, h.view⟩

theorem Rel.setRb {s s' : St} (h : Rel E E' s s') (a : Nat) : Rel E E' { s with rb := a } { s' with rb := a } :=
  ⟨h.b, h.ra, rfl, h.oof, h.errs, h.view⟩

/-! ## The interpreter -/

theorem exec_rel (C : Ctx E E') (rec rec' : Tag → St → St)
    (hrec : ∀ t s s', Rel E E' s s' → Rel E E' (rec t s) (rec' t s')) :
    ∀ (c : Cmd) (s s' : St), Rel E E' s s' → Rel E E' (exec E rec c s) (exec E' rec' c s') := by
  intro c
  induction c with
  | skip => intro s s' h; exact h
  | seq c d ihc ihd => intro s s' h; exact ihd _ _ (ihc _ _ h)
  | ite c t e iht ihe =>
    intro s s' h
    have hc := h.evalCond C c
    simp only [exec, hc]
    cases evalCond E' s' c with
    | true => exact iht _ _ h
    | false => exact ihe _ _ h
  | node k c ih => intro s s' h; exact prim_rel C (ih _ _ (prim_rel C h _)) _
  | nodeAtB k c ih =>
    intro s s' h
    have hb := h.rb
    simp only [exec, hb]
    exact prim_rel C (ih _ _ (prim_rel C h _)) _
  | bump => intro s s' h; exact prim_rel C h _
  | bumpAs r => intro s s' h; exact prim_rel C (relabel_rel C h _) _
  | err e => intro s s' h; exact addErr_rel h e
  | call t =>
    intro s s' h
    have r := hrec t s s' h
    exact ⟨r.b, h.ra, h.rb, r.oof, r.errs, r.view⟩
  | callA t a =>
    intro s s' h
    have h1 : Rel E E' { s with ra := evalA E s a } { s' with ra := evalA E' s' a } := by
      rw [← h.evalA a]; exact h.setRa _
    have r := hrec t _ _ h1
    exact ⟨r.b, h.ra, h.rb, r.oof, r.errs, r.view⟩
  | setBMarker =>
    intro s s' h
    simp only [exec]
    rw [← h.marker]; exact h.setRb _
  | setBMarkerPred =>
    intro s s' h
    simp only [exec]
    rw [← h.marker]; exact h.setRb _
  | progress c r e ihc ihe =>
    intro s s' h
    have h1 := ihc _ _ h
    have e1 := h1.cur
    have e2 := h1.isAtEnd
    have e3 := h.cur
    simp only [exec, e1, e2, e3]
    split
    · exact prim_rel C (addErr_rel h1 _) _
    · exact ihe _ _ h1

theorem go_rel (C : Ctx E E') : ∀ (n : Nat) (t : Tag) (s s' : St), Rel E E' s s' → Rel E E' (go E n t s) (go E' n t s')
  | 0, _, _, _, h => ⟨h.b, h.ra, h.rb, rfl, h.errs, h.view⟩
  | n + 1, t, s, s', h => exec_rel C (go E n) (go E' n) (go_rel C n) (body t) s s' h

/-! ## `Parser::parse` -/

theorem init_rel (kinds kinds' : Array Kind) (hview : ∀ i, view E kinds i = view E' kinds' i) :
    Rel E E' (init kinds) (init kinds') :=
  ⟨rfl, rfl, rfl, rfl, rfl, hview⟩

theorem parse_rel (C : Ctx E E') (kinds kinds' : Array Kind) (fuel : Nat) (hview : ∀ i, view E kinds i = view E' kinds' i) :
    Rel E E' (parse E fuel kinds) (parse E' fuel kinds') :=
  prim_rel C (go_rel C fuel .programLoop _ _ (prim_rel C (init_rel kinds kinds' hview) _)) _

/-- Two inputs that look the same through the syntax-token view, the line-break oracle and the adjacency test are parsed to
trees of the same shape, with the same cursor, error details and (relabelled) views. -/
theorem parse_trivia_independent (E E' : Env) (hE : Env.Ok E) (hE' : Env.Ok E') (hi : IdxInc E) (hi' : IdxInc E')
    (kinds kinds' : Array Kind) (fuel : Nat)
    (hsize : E.idx.size = E'.idx.size)
    (hview : ∀ i, view E kinds i = view E' kinds' i)
    (hnl : ∀ i, E.nl i = E'.nl i)
    (hadj : ∀ i, adjacent E i = adjacent E' i) :
    (parse E fuel kinds).b.root.map Green.shape = (parse E' fuel kinds').b.root.map Green.shape ∧
    (parse E fuel kinds).b.current = (parse E' fuel kinds').b.current ∧
    (parse E fuel kinds).oof = (parse E' fuel kinds').oof ∧
    (parse E fuel kinds).errs.map (·.detail) = (parse E' fuel kinds').errs.map (·.detail) ∧
    (∀ i, view E (parse E fuel kinds).kinds i = view E' (parse E' fuel kinds').kinds i) := by
  have h := parse_rel ⟨hE, hE', hi, hi', hsize, hnl, hadj⟩ kinds kinds' fuel hview
  exact ⟨congrArg ASt.root h.b, h.cur, h.oof, h.errs, h.view⟩

end Mimium.Grammar
