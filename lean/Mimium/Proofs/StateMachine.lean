import Mimium.Model.StateMachine
namespace Mimium.StateMachine
open Mimium.Cells

theorem grow_of_le (l : List UInt64) (n : Nat) (h : n ≤ l.length) : grow l n = l := by
  simp [grow, Nat.sub_eq_zero_of_le h]

/-- one step: whenever the VM's access is inside the storage, the WASM host computes the same state and output -/
theorem step_agree (s s' : St) (op : SOp) (o : List UInt64)
    (hd : ∀ len x t, op = .delay len x t → len ≤ maxWasmDelay)
    (h : vmStep s op = some (s', o)) : wasmStep s op = (s', o) := by
  cases op with
  | push k => simp [vmStep] at h; simp [wasmStep, h]
  | pop k =>
    simp only [vmStep] at h
    split at h
    · simp at h; simp [wasmStep, h]
    · simp at h
  | get n =>
    simp only [vmStep] at h
    split at h
    · rename_i hb
      simp only [Option.some.injEq, Prod.mk.injEq] at h
      obtain ⟨h1, h2⟩ := h
      subst h1
      simp only [wasmStep]
      rw [grow_of_le _ _ hb, h2]
    · simp at h
  | set ws =>
    simp only [vmStep] at h
    split at h
    · rename_i hb
      simp only [Option.some.injEq, Prod.mk.injEq] at h
      obtain ⟨h1, h2⟩ := h
      simp only [wasmStep]
      rw [grow_of_le _ _ hb, h1, h2]
    · simp at h
  | mem x =>
    simp only [vmStep] at h
    split at h
    · rename_i hb
      simp only [Option.some.injEq, Prod.mk.injEq] at h
      obtain ⟨h1, h2⟩ := h
      simp only [wasmStep]
      rw [grow_of_le _ _ hb, h1, h2]
    · simp at h
  | delay len x t =>
    have hmax := hd len x t rfl
    simp only [vmStep] at h
    split at h
    · rename_i h0
      simp at h
      simp [wasmStep, h0, h]
    · rename_i h0
      split at h
      · rename_i hb
        simp only [Option.some.injEq, Prod.mk.injEq] at h
        have : ¬ (len = 0 ∨ len > maxWasmDelay) := by omega
        simp only [wasmStep, this, if_false, grow_of_le _ _ hb]
        obtain ⟨h1, h2⟩ := h
        rw [← h1, ← h2]
      · simp at h

theorem run_agree : ∀ (ops : List SOp) (s s' : St) (o : List UInt64), delaysOk ops = true →
    vmRun s ops = some (s', o) → wasmRun s ops = (s', o)
  | [], s, s', o, _, h => by simp [vmRun] at h; simp [wasmRun, h]
  | op :: ops, s, s', o, hd, h => by
    simp only [vmRun] at h
    split at h
    · simp at h
    · rename_i s1 o1 hstep
      split at h
      · simp at h
      · rename_i s2 o2 hrun
        simp only [Option.some.injEq, Prod.mk.injEq] at h
        have hd1 : ∀ len x t, op = .delay len x t → len ≤ maxWasmDelay := by
          intro len x t e
          subst e
          simp [delaysOk] at hd
          exact hd.1
        have hd2 : delaysOk ops = true := by
          cases op <;> simp_all [delaysOk]
        have e1 := step_agree s s1 op o1 hd1 hstep
        have e2 := run_agree ops s1 s2 o2 hd2 hrun
        simp only [wasmRun, e1, e2]
        obtain ⟨h1, h2⟩ := h
        rw [h1, h2]

end Mimium.StateMachine
