import Mimium.Model.CstBuilder
/-! The builder discipline: under bracketed use of the primitives, the leaves under construction are exactly the
bumped tokens `token_indices[0..current)`, in order. -/
namespace Mimium.Cst

theorem leavesL_append (a b : List Green) : leavesL (a ++ b) = leavesL a ++ leavesL b := by
  induction a with
  | nil => simp [leavesL]
  | cons g gs ih => simp [leavesL, ih]

theorem stackLeaves_pushChild (g : Green) (f : Frame) (fs : List Frame) :
    stackLeaves (pushChild g (f :: fs)) = stackLeaves (f :: fs) ++ g.leaves := by
  simp [pushChild, stackLeaves, leavesL_append, leavesL]

theorem pushChild_length (g : Green) (fs : List Frame) : (pushChild g fs).length = fs.length := by
  cases fs <;> simp [pushChild]

/-- every index in `token_indices` points inside the token array (true for `preparse`, see `Proofs/Preparse.lean`) -/
def EnvOk (E : Env) : Prop := ∀ ti ∈ E.tokenIndices, ti < E.widths.length

/-- the leaves under construction are the tokens bumped so far -/
def Inv (E : Env) (st : PState) : Prop := stackLeaves st.stack = E.tokenIndices.take st.current

theorem exec_spec (E : Env) (hE : EnvOk E) (st : PState) (o : Op) (d' : Nat)
    (hd : depthAfter st.stack.length o = some d') (h1 : 1 ≤ st.stack.length) (hinv : Inv E st) :
    (exec E st o).stack.length = d' ∧ 1 ≤ d' ∧ Inv E (exec E st o) ∧ st.current ≤ (exec E st o).current ∧
    (o ≠ .bump → (exec E st o).current = st.current) ∧ (o = .bump → (exec E st o).current = st.current + 1) := by
  obtain ⟨stack, current, root⟩ := st
  cases stack with
  | nil => simp at h1
  | cons f fs =>
    cases o with
    | startNode k =>
      simp only [depthAfter, Option.some.injEq] at hd
      subst hd
      refine ⟨by simp [exec], by omega, ?_, by simp [exec], by simp [exec], by simp⟩
      simpa [Inv, exec, stackLeaves, leavesL] using hinv
    | startNodeAt pos k =>
      simp only [depthAfter, Option.some.injEq] at hd
      subst hd
      refine ⟨by simp [exec], by omega, ?_, by simp [exec], by simp [exec], by simp⟩
      simp only [Inv, exec, stackLeaves] at hinv ⊢
      rw [List.append_assoc, ← leavesL_append, List.take_append_drop]
      exact hinv
    | finishNode =>
      simp only [depthAfter] at hd
      split at hd
      · simp at hd
      · rename_i hlen
        simp only [Option.some.injEq] at hd
        subst hd
        cases fs with
        | nil => simp at hlen
        | cons f' fs' =>
          refine ⟨by simp [exec, pushChild], by simp, ?_, by simp [exec], by simp [exec], by simp⟩
          simp only [Inv, exec] at hinv ⊢
          rw [stackLeaves_pushChild]
          simpa [stackLeaves, Green.leaves] using hinv
    | noop =>
      simp only [depthAfter, Option.some.injEq] at hd
      subst hd
      exact ⟨by simp [exec], h1, by simpa [exec] using hinv, by simp [exec], by simp [exec], by simp⟩
    | bump =>
      simp only [depthAfter, Option.some.injEq] at hd
      subst hd
      simp only [Inv] at hinv
      cases hti : E.tokenIndices[current]? with
      | none =>
        refine ⟨by simp [exec, hti], h1, ?_, by simp [exec, hti], by simp, by simp [exec, hti]⟩
        simp only [Inv, exec, hti]
        rw [List.take_add_one, hti]; simpa using hinv
      | some ti =>
        have hmem : ti ∈ E.tokenIndices := List.mem_of_getElem? hti
        have hlt := hE ti hmem
        have hw : E.widths[ti]? = some E.widths[ti] := List.getElem?_eq_getElem hlt
        refine ⟨by simp [exec, hti, hw, pushChild], h1, ?_, by simp [exec, hti, hw], by simp, by simp [exec, hti, hw]⟩
        simp only [Inv, exec, hti, hw]
        rw [stackLeaves_pushChild, List.take_add_one, hti, hinv]
        simp [Green.leaves]

theorem run_spec (E : Env) (hE : EnvOk E) : ∀ (ops : List Op) (st : PState) (d' : Nat),
    bracketed st.stack.length ops = some d' → 1 ≤ st.stack.length → Inv E st →
    (run E st ops).stack.length = d' ∧ 1 ≤ d' ∧ Inv E (run E st ops) ∧ st.current ≤ (run E st ops).current ∧
    (run E st ops).current = st.current + ops.count .bump := by
  intro ops
  induction ops with
  | nil =>
    intro st d' hb h1 hinv
    simp only [bracketed, Option.some.injEq] at hb
    subst hb
    exact ⟨rfl, h1, hinv, Nat.le_refl _, by simp [run]⟩
  | cons o os ih =>
    intro st d' hb h1 hinv
    simp only [bracketed] at hb
    split at hb
    · simp at hb
    · rename_i d1 hd
      have ⟨e1, e2, e3, e4, e5, e6⟩ := exec_spec E hE st o d1 hd h1 hinv
      have ⟨r1, r2, r3, r4, r5⟩ := ih (exec E st o) d' (by rw [e1]; exact hb) (by omega) e3
      refine ⟨r1, r2, r3, by simp only [run]; omega, ?_⟩
      simp only [run, r5]
      by_cases hob : o = .bump
      · subst hob; rw [e6 rfl]; simp; omega
      · rw [e5 hob, List.count_cons_of_ne hob]

/-- a grammar function is bracket-neutral: it closes exactly the nodes it opens and never the enclosing one (`emit_node`) -/
def Neutral (stmt : PState → List Op) : Prop := ∀ st, bracketed st.stack.length (stmt st) = some st.stack.length

theorem parseLoop_spec (E : Env) (hE : EnvOk E) (stmt : PState → List Op) (hn : Neutral stmt) :
    ∀ (fuel : Nat) (st : PState), st.stack.length = 1 → Inv E st → E.tokenIndices.length - st.current < fuel →
      (parseLoop E stmt fuel st).stack.length = 1 ∧ Inv E (parseLoop E stmt fuel st) ∧
      atEnd E (parseLoop E stmt fuel st) = true := by
  intro fuel
  induction fuel with
  | zero => intro st _ _ h; omega
  | succ fuel ih =>
    intro st h1 hinv hf
    simp only [parseLoop]
    split
    · rename_i he; exact ⟨h1, hinv, he⟩
    · rename_i he
      have hcur : st.current < E.tokenIndices.length := by simpa [atEnd] using he
      have ⟨r1, _, r3, r4, _⟩ := run_spec E hE (stmt st) st _ (hn st) (by omega) hinv
      rw [h1] at r1
      split
      · rename_i hc
        simp only [Bool.and_eq_true, decide_eq_true_eq] at hc
        have ⟨e1, _, e3, _, _, e6⟩ := exec_spec E hE (run E st (stmt st)) .bump 1 (by simp [depthAfter, r1]) (by omega) r3
        apply ih _ e1 e3
        rw [e6 rfl, hc.1]; omega
      · rename_i hc
        apply ih _ r1 r3
        simp only [Bool.and_eq_true, decide_eq_true_eq, not_and, Bool.not_eq_true', Bool.not_eq_false] at hc
        by_cases hcc : (run E st (stmt st)).current = st.current
        · have := hc hcc
          simp [atEnd, hcc] at this; omega
        · omega

end Mimium.Cst
