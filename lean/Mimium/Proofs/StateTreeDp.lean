import Mimium.Proofs.StateTree
/-!
Semantics of the DP table of `lcs_by_score`: the list-built table `dpTable n m score` is, cell by cell, the
function `dpS score` defined by the textbook recurrence (`dpGet_dpTable`).  Everything else about the table
(`Proofs/StateTreeLcs.lean`) is proved from the recurrence.
-/
namespace Mimium.StateTree

/-- one cell of the table from its three neighbours -/
def dpCell (s diag up left : Nat) : Nat :=
  if s > 0 then max (diag + s) (max up left) else max up left

/-- the recurrence of `lcs_by_score`: `dpS score i j` = best total score of an order preserving matching
between the first `i` old and the first `j` new elements -/
def dpS (score : Nat → Nat → Nat) : Nat → Nat → Nat
  | 0, _ => 0
  | _+1, 0 => 0
  | i+1, j+1 => dpCell (score i j) (dpS score i j) (dpS score i (j+1)) (dpS score (i+1) j)
termination_by i j => (i, j)

@[simp] theorem dpS_zero_left (score : Nat → Nat → Nat) (j : Nat) : dpS score 0 j = 0 := by
  unfold dpS; rfl

@[simp] theorem dpS_zero_right (score : Nat → Nat → Nat) (i : Nat) : dpS score i 0 = 0 := by
  cases i <;> (unfold dpS; rfl)

theorem dpS_succ (score : Nat → Nat → Nat) (i j : Nat) :
    dpS score (i+1) (j+1) = dpCell (score i j) (dpS score i j) (dpS score i (j+1)) (dpS score (i+1) j) := by
  rw [dpS]

/-! ### the row construction -/

/-- `dpRowGo` without the accumulator -/
def rowSpec (sc : Nat → Nat) : Nat → List Nat → Nat → Nat → List Nat
  | _, [], _, _ => []
  | j, up :: rest, diag, left =>
    let v := dpCell (sc j) diag up left
    v :: rowSpec sc (j+1) rest up v

theorem dpRowGo_eq (sc : Nat → Nat) : ∀ (rest : List Nat) (j diag left : Nat) (acc : List Nat),
    dpRowGo sc j rest diag left acc = acc.reverse ++ rowSpec sc j rest diag left
  | [], j, diag, left, acc => by simp [dpRowGo, rowSpec]
  | up :: rest, j, diag, left, acc => by
    simp only [dpRowGo, rowSpec]
    rw [dpRowGo_eq sc rest]
    simp [dpCell]

theorem rowSpec_map (sc : Nat → Nat) (F G : Nat → Nat)
    (hG : ∀ j, G (j+1) = dpCell (sc j) (F j) (F (j+1)) (G j)) :
    ∀ (len j : Nat), rowSpec sc j ((List.range' (j+1) len).map F) (F j) (G j) = (List.range' (j+1) len).map G
  | 0, j => by simp [rowSpec]
  | len+1, j => by
    rw [List.range'_succ]
    simp only [List.map_cons, rowSpec]
    rw [← hG j, rowSpec_map sc F G hG len (j+1)]

theorem dpRow_map (sc : Nat → Nat) (F G : Nat → Nat) (m : Nat) (hG0 : G 0 = 0)
    (hG : ∀ j, G (j+1) = dpCell (sc j) (F j) (F (j+1)) (G j)) :
    dpRow sc ((List.range' 0 (m+1)).map F) = (List.range' 0 (m+1)).map G := by
  rw [List.range'_succ]
  simp only [List.map_cons, dpRow]
  rw [dpRowGo_eq]
  have := rowSpec_map sc F G hG m 0
  simp only [Nat.zero_add, hG0] at this
  rw [this]
  simp [hG0]

/-- row `i` of the table -/
def dpRowS (score : Nat → Nat → Nat) (m i : Nat) : List Nat := (List.range' 0 (m+1)).map (dpS score i)

theorem dpRow_dpRowS (score : Nat → Nat → Nat) (m i : Nat) :
    dpRow (score i) (dpRowS score m i) = dpRowS score m (i+1) := by
  unfold dpRowS
  exact dpRow_map (score i) (dpS score i) (dpS score (i+1)) m (by simp) (fun j => dpS_succ score i j)

theorem dpBuild_eq (score : Nat → Nat → Nat) (m : Nat) : ∀ (k i : Nat) (acc : List (List Nat)),
    dpBuild score i k (dpRowS score m i) acc = acc.reverse ++ (List.range' (i+1) k).map (dpRowS score m)
  | 0, i, acc => by simp [dpBuild]
  | k+1, i, acc => by
    simp only [dpBuild]
    rw [dpRow_dpRowS, dpBuild_eq score m k (i+1), List.range'_succ]
    simp

theorem dpTable_eq (n m : Nat) (score : Nat → Nat → Nat) :
    dpTable n m score = (List.range' 0 (n+1)).map (dpRowS score m) := by
  have h0 : List.replicate (m+1) 0 = dpRowS score m 0 := by
    unfold dpRowS
    apply List.ext_getElem <;> simp
  unfold dpTable
  simp only
  rw [h0, dpBuild_eq]
  rw [List.range'_succ]
  simp

/-- **the table is the recurrence** -/
theorem dpGet_dpTable (n m : Nat) (score : Nat → Nat → Nat) (i j : Nat) (hi : i ≤ n) (hj : j ≤ m) :
    dpGet (dpTable n m score) i j = dpS score i j := by
  rw [dpTable_eq]
  unfold dpGet dpRowS
  have hi' : i < n + 1 := by omega
  have hj' : j < m + 1 := by omega
  simp [List.getD, hi', hj']

end Mimium.StateTree
