import Mimium.Model.Preparse
/-! Lemmas about `Model/Preparse.lean`: conservation of trivia indices, exact description of what is discarded,
`token_indices` = the syntax tokens, attachment to the neighbouring syntax token. -/
namespace Mimium.Preparse
open Mimium.Gen (Kind)

/-! ### association lists -/

theorem vals_cons (e : Nat × List Nat) (m : TMap) : TMap.vals (e :: m) = e.2 ++ TMap.vals m := by
  simp [TMap.vals]

theorem vals_appendAt (m : TMap) (k : Nat) (xs : List Nat) (x : Nat) :
    (TMap.vals (appendAt m k xs)).count x = (TMap.vals m).count x + xs.count x := by
  induction m with
  | nil => simp [appendAt, TMap.vals]
  | cons e rest ih =>
    obtain ⟨k', ys⟩ := e
    simp only [appendAt]
    split
    · simp only [vals_cons, List.count_append]; omega
    · simp only [vals_cons, List.count_append, ih]; omega

theorem mem_pairs_cons (k' : Nat) (ys : List Nat) (rest : TMap) (a b : Nat) :
    (a, b) ∈ TMap.pairs ((k', ys) :: rest) ↔ (a = k' ∧ b ∈ ys) ∨ (a, b) ∈ TMap.pairs rest := by
  simp only [TMap.pairs, List.flatMap_cons, List.mem_append, List.mem_map, Prod.mk.injEq]
  constructor
  · rintro (⟨i, hi, rfl, rfl⟩ | h)
    · exact Or.inl ⟨rfl, hi⟩
    · exact Or.inr h
  · rintro (⟨rfl, hb⟩ | h)
    · exact Or.inl ⟨b, hb, rfl, rfl⟩
    · exact Or.inr h

theorem pairs_appendAt (m : TMap) (k : Nat) (xs : List Nat) (a b : Nat) :
    (a, b) ∈ TMap.pairs (appendAt m k xs) ↔ (a, b) ∈ TMap.pairs m ∨ (a = k ∧ b ∈ xs) := by
  induction m with
  | nil =>
    simp only [appendAt, mem_pairs_cons]
    simp [TMap.pairs]
  | cons e rest ih =>
    obtain ⟨k', ys⟩ := e
    simp only [appendAt]
    split
    · rename_i hk
      subst hk
      simp only [mem_pairs_cons, List.mem_append]
      constructor
      · rintro (⟨rfl, h | h⟩ | h)
        · exact Or.inl (Or.inl ⟨rfl, h⟩)
        · exact Or.inr ⟨rfl, h⟩
        · exact Or.inl (Or.inr h)
      · rintro ((⟨rfl, h⟩ | h) | ⟨rfl, h⟩)
        · exact Or.inl ⟨rfl, Or.inl h⟩
        · exact Or.inr h
        · exact Or.inl ⟨rfl, Or.inr h⟩
    · simp only [mem_pairs_cons, ih]
      constructor
      · rintro (h | h | h)
        · exact Or.inl (Or.inl h)
        · exact Or.inl (Or.inr h)
        · exact Or.inr h
      · rintro ((h | h) | h)
        · exact Or.inl h
        · exact Or.inr (Or.inl h)
        · exact Or.inr (Or.inr h)

/-! ### the loop body, case by case -/

theorem isSyntax_not_trivia {k : Kind} (h : isSyntax k = true) : k.isTrivia = false := by
  simp [isSyntax] at h; exact h.1

theorem isSyntax_ne_eof {k : Kind} (h : isSyntax k = true) : k ≠ Kind.Eof := by
  simp [isSyntax] at h; exact h.2

theorem linebreak_trivia : Kind.LineBreak.isTrivia = true := rfl

theorem kind_cases (k : Kind) :
    k = Kind.LineBreak ∨ (k.isTrivia = true ∧ k ≠ Kind.LineBreak) ∨ isSyntax k = true ∨ (k = Kind.Eof) := by
  by_cases ht : k.isTrivia = true
  · by_cases hl : k = Kind.LineBreak
    · exact Or.inl hl
    · exact Or.inr (Or.inl ⟨ht, hl⟩)
  · by_cases he : k = Kind.Eof
    · exact Or.inr (Or.inr (Or.inr he))
    · exact Or.inr (Or.inr (Or.inl (by simp [isSyntax, ht, he])))

theorem step_lb_some (st : St) (i l : Nat) (h : st.lastTokenIdx = some l) :
    step st i Kind.LineBreak =
      { st with trailing := appendAt st.trailing l (st.pending ++ [i]), pending := [], lastWasLinebreak := true } := by
  unfold step; simp [linebreak_trivia, h]

theorem step_lb_none (st : St) (i : Nat) (h : st.lastTokenIdx = none) :
    step st i Kind.LineBreak =
      { st with pending := [], lastWasLinebreak := true, discarded := st.discarded ++ (st.pending ++ [i]) } := by
  unfold step; simp [linebreak_trivia, h]

theorem step_trivia (st : St) (i : Nat) (k : Kind) (ht : k.isTrivia = true) (hl : k ≠ Kind.LineBreak) :
    step st i k = { st with pending := st.pending ++ [i], lastWasLinebreak := false } := by
  unfold step; simp [ht, hl]

theorem step_eof (st : St) (i : Nat) : step st i Kind.Eof = st := by
  unfold step; simp [show Kind.Eof.isTrivia = false from rfl]

/-- "Attach pending trivia" of the syntax-token branch -/
def attach (st : St) : St :=
  if st.pending.isEmpty then st
  else if st.lastWasLinebreak || st.lastTokenIdx.isNone then
    { st with leading := appendAt st.leading st.tokenIndices.length st.pending, pending := [] }
  else match st.lastTokenIdx with
    | some last => { st with trailing := appendAt st.trailing last st.pending, pending := [] }
    | none => st

theorem step_syntax (st : St) (i : Nat) (k : Kind) (hs : isSyntax k = true) :
    step st i k = { attach st with tokenIndices := (attach st).tokenIndices ++ [i],
                                   lastTokenIdx := some st.tokenIndices.length, lastWasLinebreak := false } := by
  have h1 := isSyntax_not_trivia hs
  have h2 : (k != Kind.Eof) = true := by simpa using isSyntax_ne_eof hs
  unfold step
  rw [if_neg (by simp [h1]), if_pos h2]
  rfl

theorem attach_tokenIndices (st : St) : (attach st).tokenIndices = st.tokenIndices := by
  unfold attach; split
  · rfl
  · split
    · rfl
    · split <;> rfl

theorem attach_discarded (st : St) : (attach st).discarded = st.discarded := by
  unfold attach; split
  · rfl
  · split
    · rfl
    · split <;> rfl

/-! ### conservation: every trivia index is in exactly one of pending / leading / trailing / discarded -/

/-- how often index `x` occurs anywhere in the state -/
def total (st : St) (x : Nat) : Nat :=
  st.pending.count x + (TMap.vals st.leading).count x + (TMap.vals st.trailing).count x + st.discarded.count x

theorem total_attach (st : St) (x : Nat) : total (attach st) x = total st x := by
  unfold attach; split
  · rfl
  · split
    · simp only [total, vals_appendAt, List.count_nil]; omega
    · split
      · simp only [total, vals_appendAt, List.count_nil]; omega
      · rfl

theorem count_singleton (i x : Nat) : [i].count x = if x = i then 1 else 0 := by
  by_cases h : x = i
  · subst h; simp
  · have : ¬ i = x := fun e => h e.symm
    simp [h, this]

theorem total_step (st : St) (i : Nat) (k : Kind) (x : Nat) :
    total (step st i k) x = total st x + (if k.isTrivia = true ∧ x = i then 1 else 0) := by
  rcases kind_cases k with rfl | ⟨ht, hl⟩ | hs | rfl
  · cases h : st.lastTokenIdx with
    | none =>
      rw [step_lb_none st i h]
      simp only [total, List.count_append, List.count_nil, count_singleton, linebreak_trivia, true_and]; omega
    | some l =>
      rw [step_lb_some st i l h]
      simp only [total, vals_appendAt, List.count_append, List.count_nil, count_singleton, linebreak_trivia, true_and]; omega
  · rw [step_trivia st i k ht hl]
    simp only [total, List.count_append, count_singleton, ht, true_and]; omega
  · rw [step_syntax st i k hs]
    have := total_attach st x
    simp only [total, isSyntax_not_trivia hs, Bool.false_eq_true, false_and, if_false, Nat.add_zero] at this ⊢
    exact this
  · rw [step_eof]
    simp [show Kind.Eof.isTrivia = false from rfl]

/-- indices (from `off`) of the trivia tokens -/
def triviaIndices (off : Nat) : List Kind → List Nat
  | [] => []
  | k :: ks => if k.isTrivia then off :: triviaIndices (off + 1) ks else triviaIndices (off + 1) ks

theorem total_loop : ∀ (ks : List Kind) (st : St) (i : Nat) (x : Nat),
    total (loop st i ks) x = total st x + (triviaIndices i ks).count x := by
  intro ks
  induction ks with
  | nil => intros; simp [loop, triviaIndices]
  | cons k ks ih =>
    intro st i x
    simp only [loop, ih, total_step, triviaIndices]
    by_cases ht : k.isTrivia = true
    · simp only [ht, true_and, if_true, List.count_cons]
      by_cases hx : x = i
      · subst hx; simp; omega
      · have : ¬ i = x := fun e => hx e.symm
        simp [hx, this]
    · simp [ht]

theorem total_finish (st : St) (x : Nat) : total (finish st) x = total st x := by
  unfold finish
  split
  · rfl
  · split
    · simp only [total, vals_appendAt, List.count_nil]; omega
    · simp only [total, List.count_append, List.count_nil]; omega

theorem finish_pending (st : St) : (finish st).pending = [] := by
  unfold finish
  split
  · rename_i h; simpa using h
  · split <;> rfl

theorem triviaIndices_mem_ge : ∀ (ks : List Kind) (off x : Nat), x ∈ triviaIndices off ks → off ≤ x := by
  intro ks
  induction ks with
  | nil => intro off x h; simp [triviaIndices] at h
  | cons k ks ih =>
    intro off x h
    simp only [triviaIndices] at h
    split at h
    · simp only [List.mem_cons] at h
      rcases h with rfl | h
      · exact Nat.le_refl _
      · have := ih _ _ h; omega
    · have := ih _ _ h; omega

theorem triviaIndices_count : ∀ (ks : List Kind) (off x : Nat),
    (triviaIndices off ks).count x =
      if off ≤ x ∧ x - off < ks.length ∧ (ks.getD (x - off) Kind.Eof).isTrivia = true then 1 else 0 := by
  intro ks
  induction ks with
  | nil => intros; simp [triviaIndices]
  | cons k ks ih =>
    intro off x
    by_cases hx : x = off
    · subst hx
      have h0 : (triviaIndices (x + 1) ks).count x = 0 :=
        List.count_eq_zero.mpr (fun h => by have := triviaIndices_mem_ge _ _ _ h; omega)
      simp only [triviaIndices]
      by_cases ht : k.isTrivia = true
      · simp [ht, h0]
      · simp [ht, h0]
    · have hstep : (triviaIndices off (k :: ks)).count x = (triviaIndices (off + 1) ks).count x := by
        simp only [triviaIndices]
        split
        · rw [List.count_cons_of_ne (fun e => hx e.symm)]
        · rfl
      rw [hstep, ih]
      by_cases hle : off + 1 ≤ x
      · have e : x - off = (x - (off + 1)) + 1 := by omega
        have hle' : off ≤ x := by omega
        simp only [hle, hle', true_and, e, List.length_cons, List.getD_cons_succ, Nat.add_lt_add_iff_right]
      · have h1 : ¬ off ≤ x := by omega
        simp [hle, h1]

/-! ### what is discarded -/

/-- indices (from `off`) discarded while no syntax token has been seen yet -/
def dropIdx (off : Nat) : List Kind → List Nat
  | [] => []
  | k :: ks =>
    if isSyntax k then []
    else (if k.isTrivia && droppedFrom (k :: ks) then [off] else []) ++ dropIdx (off + 1) ks

theorem step_phaseB (st : St) (i : Nat) (k : Kind) (h : st.lastTokenIdx ≠ none) :
    (step st i k).lastTokenIdx ≠ none ∧ (step st i k).discarded = st.discarded := by
  rcases kind_cases k with rfl | ⟨ht, hl⟩ | hs | rfl
  · cases hl : st.lastTokenIdx with
    | none => exact absurd hl h
    | some l => rw [step_lb_some st i l hl]; exact ⟨by simp [hl], rfl⟩
  · rw [step_trivia st i k ht hl]; exact ⟨h, rfl⟩
  · rw [step_syntax st i k hs]; exact ⟨by simp, attach_discarded st⟩
  · rw [step_eof]; exact ⟨h, rfl⟩

theorem step_syntax_phase (st : St) (i : Nat) (k : Kind) (hs : isSyntax k = true) :
    (step st i k).lastTokenIdx ≠ none ∧ (step st i k).discarded = st.discarded := by
  rw [step_syntax st i k hs]; exact ⟨by simp, attach_discarded st⟩

/-- once a syntax token has been seen nothing is discarded any more -/
theorem discarded_phaseB : ∀ (ks : List Kind) (st : St) (i : Nat), st.lastTokenIdx ≠ none →
    (finish (loop st i ks)).discarded = st.discarded := by
  intro ks
  induction ks with
  | nil =>
    intro st i h
    simp only [loop]
    unfold finish
    split
    · rfl
    · split
      · rfl
      · rename_i hn; exact absurd hn h
  | cons k ks ih =>
    intro st i h
    simp only [loop]
    have hs := step_phaseB st i k h
    rw [ih (step st i k) (i + 1) hs.1, hs.2]

theorem droppedFrom_cons_syntax {k : Kind} (ks : List Kind) (h : isSyntax k = true) : droppedFrom (k :: ks) = false := by
  simp [droppedFrom, h]

theorem droppedFrom_cons_lb (ks : List Kind) : droppedFrom (Kind.LineBreak :: ks) = true := by
  simp [droppedFrom, isSyntax, linebreak_trivia]

theorem droppedFrom_cons_other {k : Kind} (ks : List Kind) (h : isSyntax k = false) (hl : k ≠ Kind.LineBreak) :
    droppedFrom (k :: ks) = droppedFrom ks := by
  simp [droppedFrom, h, hl]

theorem discarded_phaseA : ∀ (ks : List Kind) (st : St) (i : Nat), st.lastTokenIdx = none →
    (finish (loop st i ks)).discarded =
      st.discarded ++ (if droppedFrom ks = true then st.pending else []) ++ dropIdx i ks := by
  intro ks
  induction ks with
  | nil =>
    intro st i h
    simp only [loop, droppedFrom, dropIdx, if_true, List.append_nil]
    unfold finish
    split
    · rename_i hp
      have : st.pending = [] := by simpa using hp
      simp [this]
    · simp [h]
  | cons k ks ih =>
    intro st i h
    simp only [loop]
    rcases kind_cases k with rfl | ⟨ht, hl⟩ | hs | rfl
    · rw [step_lb_none st i h, ih _ _ (by simpa using h)]
      have hns : isSyntax Kind.LineBreak = false := by simp [isSyntax, linebreak_trivia]
      simp [droppedFrom_cons_lb, dropIdx, hns, linebreak_trivia]
    · rw [step_trivia st i k ht hl, ih _ _ (by simpa using h)]
      have hns : isSyntax k = false := by simp [isSyntax, ht]
      rw [droppedFrom_cons_other ks hns hl]
      simp only [dropIdx, hns, Bool.false_eq_true, if_false, ht, Bool.true_and, droppedFrom_cons_other ks hns hl]
      by_cases hd : droppedFrom ks = true
      · simp [hd]
      · simp [hd]
    · have hp := step_syntax_phase st i k hs
      rw [discarded_phaseB ks (step st i k) (i + 1) hp.1, hp.2]
      simp [droppedFrom_cons_syntax ks hs, dropIdx, hs]
    · rw [step_eof, ih _ _ h]
      have hns : isSyntax Kind.Eof = false := by simp [isSyntax]
      rw [droppedFrom_cons_other ks hns (by decide)]
      simp [dropIdx, hns, show Kind.Eof.isTrivia = false from rfl]

theorem mem_dropIdx : ∀ (ks : List Kind) (off x : Nat),
    x ∈ dropIdx off ks ↔ off ≤ x ∧ dropped ks (x - off) = true := by
  intro ks
  induction ks with
  | nil => intro off x; simp [dropIdx, dropped]
  | cons k ks ih =>
    intro off x
    simp only [dropIdx]
    by_cases hsyn : isSyntax k = true
    · have hnt := isSyntax_not_trivia hsyn
      simp only [hsyn, if_true, List.not_mem_nil, false_iff, not_and]
      intro hle
      cases hj : x - off with
      | zero => simp [dropped, hnt]
      | succ j => simp [dropped, hsyn]
    · have hsyn' : isSyntax k = false := by simpa using hsyn
      simp only [hsyn', Bool.false_eq_true, if_false, List.mem_append, ih]
      by_cases hx : x = off
      · subst hx
        have h1 : ¬ (x + 1 ≤ x) := by omega
        simp only [Nat.sub_self, Nat.le_refl, true_and, h1, false_and, or_false]
        by_cases hc : (k.isTrivia && droppedFrom (k :: ks)) = true
        · simp only [hc, if_true, List.mem_singleton, true_iff]
          simp only [Bool.and_eq_true] at hc
          simp [dropped, hc.1, hc.2]
        · have hc' : ¬ (k.isTrivia = true ∧ droppedFrom (k :: ks) = true) := by
            simpa only [Bool.and_eq_true] using hc
          simp only [hc, Bool.false_eq_true, if_false, List.not_mem_nil, false_iff]
          simp only [dropped, List.length_cons, List.getD_cons_zero, List.take_zero, List.all_nil, List.drop_zero,
            Bool.and_true, Bool.and_eq_true, decide_eq_true_eq]
          intro h2; exact hc' ⟨h2.1.2, h2.2⟩
      · have hno : ¬ x ∈ (if (k.isTrivia && droppedFrom (k :: ks)) = true then [off] else []) := by
          split <;> simp [hx]
        by_cases hle : off + 1 ≤ x
        · have e : x - off = (x - (off + 1)) + 1 := by omega
          have hle' : off ≤ x := by omega
          simp only [hno, false_or, hle, hle', true_and, e]
          simp [dropped, hsyn']
        · have h1 : ¬ off ≤ x := by omega
          simp only [hno, hle, h1, false_and, or_self]

/-- the ghost list after `preparse` is exactly the class `dropped` -/
theorem discarded_iff (ks : List Kind) (x : Nat) :
    x ∈ (finish (loop {} 0 ks)).discarded ↔ dropped ks x = true := by
  rw [discarded_phaseA ks {} 0 rfl]
  simp [mem_dropIdx]

theorem dropIdx_count_le : ∀ (ks : List Kind) (off x : Nat), (dropIdx off ks).count x ≤ 1 := by
  intro ks
  induction ks with
  | nil => intros; simp [dropIdx]
  | cons k ks ih =>
    intro off x
    simp only [dropIdx]
    split
    · simp
    · rw [List.count_append]
      by_cases hx : x = off
      · subst hx
        have h0 : (dropIdx (x + 1) ks).count x = 0 := by
          apply List.count_eq_zero.mpr
          rw [mem_dropIdx]; omega
        rw [h0]
        split <;> simp
      · have : (if (k.isTrivia && droppedFrom (k :: ks)) = true then [off] else []).count x = 0 := by
          apply List.count_eq_zero.mpr
          split <;> simp [hx]
        rw [this]; have := ih (off + 1) x; omega

/-- master accounting equation of `preparse` -/
theorem attach_count (ks : List Kind) (x : Nat) :
    (preparse ks).attachCount x + (if dropped ks x = true then 1 else 0) =
      if x < ks.length ∧ (ks.getD x Kind.Eof).isTrivia = true then 1 else 0 := by
  have h1 := total_finish (loop {} 0 ks) x
  rw [total_loop] at h1
  have h2 := triviaIndices_count ks 0 x
  simp only [Nat.zero_le, Nat.sub_zero, true_and] at h2
  rw [h2] at h1
  have hp := finish_pending (loop {} 0 ks)
  have h0 : total ({} : St) x = 0 := by simp [total, TMap.vals]
  rw [h0] at h1
  simp only [total, hp, List.count_nil, Nat.zero_add] at h1
  have hd : (finish (loop {} 0 ks)).discarded.count x = if dropped ks x = true then 1 else 0 := by
    have hle : (finish (loop {} 0 ks)).discarded.count x ≤ 1 := by
      rw [discarded_phaseA ks {} 0 rfl]; simpa using dropIdx_count_le ks 0 x
    by_cases hdx : dropped ks x = true
    · have := List.count_pos_iff.mpr ((discarded_iff ks x).mpr hdx)
      simp only [hdx, if_true]; omega
    · have : x ∉ (finish (loop {} 0 ks)).discarded := fun h => hdx ((discarded_iff ks x).mp h)
      simp [hdx, List.count_eq_zero.mpr this]
  simp only [preparse, Result.attachCount]
  rw [← hd]
  omega

end Mimium.Preparse
