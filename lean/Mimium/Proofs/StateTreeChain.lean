import Mimium.Proofs.StateTreeLcs
/-!
The backtracking loop on *chain shaped* scores: if the pairs with a positive score are totally ordered (each old
element is similar to at most one new element and vice versa, and the similar pairs do not cross), the loop emits
exactly these pairs — whatever the magnitudes of the scores (`backtrack_chain`).
Also: the loop emits at least one `Common` pair whenever some score is positive (`backtrack_nonempty`).
-/
namespace Mimium.StateTree

variable (s : Nat → Nat → Nat)

/-- a row without positive score (left of column `j`) does not change the table -/
theorem dpS_dead_row (i : Nat) : ∀ (j : Nat), (∀ l, l < j → s i l = 0) → dpS s (i+1) j = dpS s i j
  | 0, _ => by simp
  | j+1, h => by
    have ih := dpS_dead_row i j (fun l hl => h l (by omega))
    have h0 := h j (by omega)
    have m := dpS_mono_right s i j
    rw [dpS_succ]; unfold dpCell; rw [if_neg (by omega), ih]; omega

/-- a column without positive score (above row `i`) does not change the table -/
theorem dpS_dead_col (j : Nat) : ∀ (i : Nat), (∀ k, k < i → s k j = 0) → dpS s i (j+1) = dpS s i j
  | 0, _ => by simp
  | i+1, h => by
    have ih := dpS_dead_col j i (fun k hk => h k (by omega))
    have h0 := h i (by omega)
    have m := dpS_mono_left s i j
    rw [dpS_succ]; unfold dpCell; rw [if_neg (by omega), ih]; omega

theorem dpS_dead_rows (j : Nat) (a : Nat) : ∀ (b : Nat), a ≤ b → (∀ k l, a ≤ k → k < b → l < j → s k l = 0) →
    dpS s b j = dpS s a j := by
  intro b hab
  induction hab with
  | refl => intro _; rfl
  | @step b' hb ih =>
    intro h
    rw [dpS_dead_row s b' j (fun l hl => h b' l hb (by omega) hl)]
    exact ih (fun k l h1 h2 h3 => h k l h1 (by omega) h3)

/-- the positive scores form a chain -/
def ChainScores : Prop :=
  ∀ i j i' j', 0 < s i j → 0 < s i' j' → (i < i' ∧ j < j') ∨ (i' < i ∧ j' < j) ∨ (i = i' ∧ j = j')

variable (T : List (List Nat)) (n m : Nat) (hT : ∀ i j, i ≤ n → j ≤ m → dpGet T i j = dpS s i j)
include hT

/-- **chain shaped scores**: every pair with a positive score becomes a `Common` pair -/
theorem backtrack_chain (hch : ChainScores s) :
    ∀ (fuel i j : Nat) (acc : List Diff), i ≤ n → j ≤ m → i + j ≤ fuel →
      (∀ k l, 0 < s k l → (k < i ↔ l < j)) →
      ∀ k l, 0 < s k l → k < i → (k, l) ∈ commons (backtrack T s fuel i j acc) := by
  intro fuel
  induction fuel with
  | zero => intro i j acc _ _ hf _ k l _ hk; omega
  | succ fuel ih =>
    intro i j acc hi hj hf hinv k l hkl hk
    unfold backtrack
    split
    · rename_i hij
      obtain ⟨i', rfl⟩ : ∃ i', i = i' + 1 := ⟨i - 1, by omega⟩
      obtain ⟨j', rfl⟩ : ∃ j', j = j' + 1 := ⟨j - 1, by omega⟩
      simp only [Nat.add_sub_cancel]
      split
      · rename_i hs
        -- the pair (i', j') is similar: taken
        have hinv' : ∀ k l, 0 < s k l → (k < i' ↔ l < j') := by
          intro k l h
          rcases hch k l i' j' h hs with h1 | h1 | h1 <;> omega
        by_cases hk' : k = i'
        · subst hk'
          have : l = j' := by rcases hch k l k j' hkl hs with h1 | h1 | h1 <;> omega
          subst this
          exact backtrack_acc_mem s T _ _ _ _ _ (by simp [commons])
        · exact ih _ _ _ (by omega) (by omega) (by omega) hinv' k l hkl (by omega)
      · rename_i hs
        have hs0 : s i' j' = 0 := by omega
        rw [hT (i'+1) j' hi (by omega), hT i' (j'+1) (by omega) hj]
        -- not both: row i' has a partner and column j' has a partner
        have hnot : ∀ l0 k0, 0 < s i' l0 → 0 < s k0 j' → False := by
          intro l0 k0 h1 h2
          have a1 := (hinv i' l0 h1).1 (by omega)
          have a2 := (hinv k0 j' h2).2 (by omega)
          have : l0 ≠ j' := by intro e; subst e; omega
          have : k0 ≠ i' := by intro e; subst e; omega
          rcases hch i' l0 k0 j' h1 h2 with h3 | h3 | h3 <;> omega
        split
        · rename_i hge
          -- insert chosen: column j' must be dead
          have hcol : ∀ k0, s k0 j' = 0 := by
            intro k0
            by_cases hp : 0 < s k0 j'
            · exfalso
              have hk0 : k0 < i' + 1 := (hinv k0 j' hp).2 (by omega)
              have hk0' : k0 < i' := by
                have : k0 ≠ i' := by intro e; subst e; omega
                omega
              -- row i' is dead, so the table says "delete", contradiction
              have hrow : ∀ l0, s i' l0 = 0 := by
                intro l0
                by_cases hq : 0 < s i' l0
                · exact (hnot l0 k0 hq hp).elim
                · omega
              have e1 := dpS_dead_row s i' j' (fun l0 _ => hrow l0)
              have e2 := dpS_dead_rows s j' k0 i' (by omega) (by
                intro k1 l1 h1 h2 h3
                by_cases hq : 0 < s k1 l1
                · rcases hch k1 l1 k0 j' hq hp with h4 | h4 | h4 <;> omega
                · omega)
              have t := dpS_take s k0 j'
              have mo := dpS_mono s (show k0 + 1 ≤ i' by omega) (Nat.le_refl (j'+1))
              omega
            · omega
          have hinv' : ∀ k l, 0 < s k l → (k < i' + 1 ↔ l < j') := by
            intro k l h
            have := hinv k l h
            have : l ≠ j' := by intro e; subst e; have := hcol k; omega
            omega
          exact ih _ _ _ hi (by omega) (by omega) hinv' k l hkl hk
        · rename_i hlt
          -- delete chosen: row i' must be dead
          have hrow : ∀ l0, s i' l0 = 0 := by
            intro l0
            by_cases hq : 0 < s i' l0
            · exfalso
              have hcol : ∀ k0, k0 < i' + 1 → s k0 j' = 0 := by
                intro k0 _
                by_cases hp : 0 < s k0 j'
                · exact (hnot l0 k0 hq hp).elim
                · omega
              have e1 := dpS_dead_col s j' (i'+1) hcol
              have mo := dpS_mono_left s i' (j'+1)
              omega
            · omega
          have hinv' : ∀ k l, 0 < s k l → (k < i' ↔ l < j' + 1) := by
            intro k l h
            have := hinv k l h
            have : k ≠ i' := by intro e; subst e; have := hrow l; omega
            omega
          have hk' : k ≠ i' := by intro e; subst e; have := hrow l; omega
          exact ih _ _ _ (by omega) hj (by omega) hinv' k l hkl (by omega)
    · split
      · have := (hinv k l hkl).1 hk; omega
      · split
        · have := (hinv k l hkl).1 hk; omega
        · omega

omit hT in
/-- whenever the table is positive the loop emits a `Common` pair -/
theorem backtrack_nonempty (hT : ∀ i j, i ≤ n → j ≤ m → dpGet T i j = dpS s i j) :
    ∀ (fuel i j : Nat) (acc : List Diff), i ≤ n → j ≤ m → i + j ≤ fuel → 0 < dpS s i j →
      commons (backtrack T s fuel i j acc) ≠ [] := by
  intro fuel
  induction fuel with
  | zero =>
    intro i j acc _ _ hf hpos
    have : i = 0 := by omega
    subst this; simp at hpos
  | succ fuel ih =>
    intro i j acc hi hj hf hpos
    unfold backtrack
    split
    · rename_i hij
      obtain ⟨i', rfl⟩ : ∃ i', i = i' + 1 := ⟨i - 1, by omega⟩
      obtain ⟨j', rfl⟩ : ∃ j', j = j' + 1 := ⟨j - 1, by omega⟩
      simp only [Nat.add_sub_cancel]
      split
      · intro e
        have := backtrack_acc_mem s T fuel i' j' (Diff.common i' j' :: acc) (i', j') (by simp [commons])
        rw [e] at this
        simp at this
      · rename_i hs
        rw [dpS_succ] at hpos
        unfold dpCell at hpos
        rw [if_neg hs] at hpos
        rw [hT (i'+1) j' hi (by omega), hT i' (j'+1) (by omega) hj]
        split
        · exact ih (i'+1) j' _ hi (by omega) (by omega) (by omega)
        · exact ih i' (j'+1) _ (by omega) hj (by omega) (by omega)
    · exfalso
      rename_i hij
      by_cases h0 : i = 0
      · subst h0; simp at hpos
      · have : j = 0 := by omega
        subst this; simp at hpos

end Mimium.StateTree
