import Mimium.Proofs.CstPrintContent
/-! The loops with slots (let, binary operator, if, block, use): each iteration that passes its `ok` test appends the child's content
to what the state holds. -/
namespace Mimium.CstPrint
open Mimium.Gen (Kind SK)
open Mimium.Cst (Green)
open SDoc

theorem let_content (c : Ctx) (kw : Kind) (cs : List Ch) (hch : ∀ ch ∈ cs, ChOk c ch)
    (hok : allOk (letStep c kw) (letOk c kw) {} cs = true) : content c (printLetDecl c kw cs) = chContent c cs := by
  have h := loop_held c (letStep c kw) (letOk c kw) (letHeld c) (fun _ => True) (by
    intro st ch _ _ hok
    refine ⟨trivial, ?_⟩
    simp only [letStep, letOk, letHeld] at *
    repeat' split
    all_goals simp_all [List.append_assoc]) cs {} trivial hch hok
  unfold printLetDecl letFinish
  have h2 := h.2
  simp only [letHeld] at h2
  split
  · next he => simp_all
  · simp_all

theorem bin_content (c : Ctx) (cs : List Ch) (hch : ∀ ch ∈ cs, ChOk c ch)
    (hok : allOk (binStep c) (binOk c) {} cs = true) : content c (printBinaryExpr c cs) = chContent c cs := by
  have h := loop_held c (binStep c) (binOk c) (binHeld c) (fun _ => True) (by
    intro st ch _ _ hok
    refine ⟨trivial, ?_⟩
    simp only [binStep, binOk, binHeld] at *
    repeat' split
    all_goals simp_all [List.append_assoc]) cs {} trivial hch hok
  unfold printBinaryExpr binFinish
  have h2 := h.2
  simp only [binHeld] at h2
  split <;> simp_all [List.append_assoc]

theorem if_content (c : Ctx) (cs : List Ch) (hch : ∀ ch ∈ cs, ChOk c ch)
    (hok : allOk (ifStep c) (ifOk c) {} cs = true) : content c (printIfExpr c cs) = chContent c cs := by
  have h := loop_held c (ifStep c) (ifOk c) (fun st => content c st.result) (fun _ => True) (by
    intro st ch _ _ hok
    refine ⟨trivial, ?_⟩
    simp only [ifStep, ifOk] at *
    repeat' split
    all_goals simp_all [List.append_assoc]) cs {} trivial hch hok
  unfold printIfExpr
  simpa using h.2

theorem use_content (c : Ctx) (cs : List Ch) (hch : ∀ ch ∈ cs, ChOk c ch)
    (hok : allOk (useStep c) useOk (nil, false) cs = true) : content c (printUseStmt c cs) = chContent c cs := by
  have h := loop_held c (useStep c) useOk (fun st => content c st.1) (fun _ => True) (by
    intro st ch _ _ hok
    refine ⟨trivial, ?_⟩
    simp only [useStep, useOk] at *
    repeat' split
    all_goals simp_all [List.append_assoc]) cs (nil, false) trivial hch hok
  unfold printUseStmt
  simpa using h.2

end Mimium.CstPrint
