import Mimium.Proofs.Sched
/-!
# Consequences of the ideal-scheduler specification (C11)

Everything here is about `Ideal` runs (lists of per-sample records), hence holds for both models.
* `Ideal.count_eq`: executions = requests, per task, over the whole run;
* `Ideal.same_ticks`: two ideal runs of a program whose calls do not depend on the user state execute the same
  multiset at every sample;
* `Ideal.chain`: a self-rescheduling closure runs at `t0, t0+p, …`.
-/
namespace Mimium.Sched

theorem Ideal.execd_ge {σ : Type} {env : Env σ} : ∀ {rs : List TickRec} {t : Nat} {issued : List Task} {u : σ},
    Ideal env t issued u rs → ∀ y ∈ rs.flatMap (·.execd), t ≤ y.when
  | [], _, _, _, _, y, hy => by simp at hy
  | r :: rs, t, issued, u, h, y, hy => by
    obtain ⟨ok, rest⟩ := h
    simp only [List.flatMap_cons, List.mem_append] at hy
    rcases hy with hy | hy
    · have := (List.mem_filter.1 (ok.onTime.mem_iff.1 hy)).2
      simp only [decide_eq_true_eq] at this
      omega
    · have := Ideal.execd_ge rest y hy
      omega

theorem Ideal.reqs_gt {σ : Type} {env : Env σ} (hf : env.Future) :
    ∀ {rs : List TickRec} {t : Nat} {issued : List Task} {u : σ},
    Ideal env t issued u rs → ∀ y ∈ rs.flatMap (·.reqs), t < y.when
  | [], _, _, _, _, y, hy => by simp at hy
  | r :: rs, t, issued, u, h, y, hy => by
    obtain ⟨ok, rest⟩ := h
    simp only [List.flatMap_cons, List.mem_append] at hy
    rcases hy with hy | hy
    · exact ok.future hf y hy
    · have := Ideal.reqs_gt hf rest y hy
      omega

/-- Executions = requests: a task `(when,id)` whose time lies inside the run is executed exactly as many times as it
was scheduled (`issued` = calls made before the run segment starts, `t ≤ when`). -/
theorem Ideal.count_eq {σ : Type} {env : Env σ} (hf : env.Future) :
    ∀ {rs : List TickRec} {t : Nat} {issued : List Task} {u : σ}, Ideal env t issued u rs →
      ∀ x : Task, t ≤ x.when → x.when < t + rs.length →
        (rs.flatMap (·.execd)).count x = (issued ++ rs.flatMap (·.reqs)).count x
  | [], t, _, _, _, x, h1, h2 => by simp at h2; omega
  | r :: rs, t, issued, u, h, x, h1, h2 => by
    obtain ⟨ok, rest⟩ := h
    simp only [List.flatMap_cons, List.count_append]
    by_cases hx : x.when = t
    · have e1 : r.execd.count x = issued.count x := by
        rw [ok.onTime.count_eq x]
        exact List.count_filter (by simp [hx])
      have e2 : (rs.flatMap (·.execd)).count x = 0 := by
        rw [List.count_eq_zero]
        intro hm
        have := Ideal.execd_ge rest x hm
        omega
      have e3 : r.reqs.count x = 0 := by
        rw [List.count_eq_zero]
        intro hm
        have := ok.future hf x hm
        omega
      have e4 : (rs.flatMap (·.reqs)).count x = 0 := by
        rw [List.count_eq_zero]
        intro hm
        have := Ideal.reqs_gt hf rest x hm
        omega
      omega
    · have e1 : r.execd.count x = 0 := by
        rw [List.count_eq_zero]
        intro hm
        have := (List.mem_filter.1 (ok.onTime.mem_iff.1 hm)).2
        simp only [decide_eq_true_eq] at this
        exact hx this
      have ih := Ideal.count_eq hf rest x (by omega) (by simp only [List.length_cons] at h2; omega)
      simp only [List.count_append] at ih
      omega

/-! ## programs whose calls do not depend on the user state -/

/-- The `schedule_at` calls of a body / of dsp depend on the closure and the sample only (the user state is only
written: counters, commuting effects). -/
structure Env.ReqDet {σ : Type} (env : Env σ) : Prop where
  task : ∀ id now s s', (env.task id now s).2 = (env.task id now s').2
  dsp : ∀ now s s', (env.dsp now s).2 = (env.dsp now s').2

theorem execSeq_reqDet {σ : Type} {env : Env σ} (hd : env.ReqDet) (now : Nat) (u0 : σ) :
    ∀ (xs : List Task) (u : σ), (execSeq env now xs u).2 = xs.flatMap (fun x => (env.task x.id now u0).2)
  | [], u => by simp [execSeq]
  | x :: xs, u => by
    simp only [execSeq, List.flatMap_cons]
    rw [execSeq_reqDet hd now u0 xs, hd.task x.id now u u0]

theorem Ideal.same_ticks {σ : Type} {env : Env σ} (hd : env.ReqDet) :
    ∀ {rs1 rs2 : List TickRec} {t : Nat} {i1 i2 : List Task} {u1 u2 : σ},
      Ideal env t i1 u1 rs1 → Ideal env t i2 u2 rs2 → i1.Perm i2 →
      ∀ (i : Nat) (h1 : i < rs1.length) (h2 : i < rs2.length), rs1[i].execd.Perm rs2[i].execd
  | [], _, _, _, _, _, _, _, _, _, i, h1, _ => by simp at h1
  | _ :: _, [], _, _, _, _, _, _, _, _, i, _, h2 => by simp at h2
  | r1 :: rs1, r2 :: rs2, t, i1, i2, u1, u2, a, b, hp, i, h1, h2 => by
    obtain ⟨ok1, rest1⟩ := a
    obtain ⟨ok2, rest2⟩ := b
    have hex : r1.execd.Perm r2.execd :=
      (ok1.onTime.trans (hp.filter _)).trans ok2.onTime.symm
    cases i with
    | zero => simpa using hex
    | succ i =>
      have hreq : r1.reqs.Perm r2.reqs := by
        rw [ok1.reqs, ok2.reqs, execSeq_reqDet hd t u1, execSeq_reqDet hd t u1 r2.execd u2,
          hd.dsp t (execSeq env t r1.execd u1).1 (execSeq env t r2.execd u2).1]
        exact List.Perm.append_right _ (List.Perm.flatMap_right _ hex)
      have := Ideal.same_ticks hd rest1 rest2 (List.Perm.append hp hreq) i
        (by simpa using h1) (by simpa using h2)
      simpa using this

/-! ## self-rescheduling chains -/

theorem execSeq_mem {σ : Type} (env : Env σ) (now : Nat) {x : Task} :
    ∀ (xs : List Task) (u : σ), x ∈ xs → ∃ s, ∀ y ∈ (env.task x.id now s).2, y ∈ (execSeq env now xs u).2
  | [], _, h => by simp at h
  | z :: zs, u, h => by
    rcases List.mem_cons.1 h with rfl | h
    · exact ⟨u, fun y hy => by simp only [execSeq, List.mem_append]; exact Or.inl hy⟩
    · obtain ⟨s, hs⟩ := execSeq_mem env now zs (env.task z.id now u).1 h
      exact ⟨s, fun y hy => by simp only [execSeq, List.mem_append]; exact Or.inr (hs y hy)⟩

/-- Whatever a body executed in sample `t+i` scheduled is among the calls recorded for that sample. -/
theorem Ideal.reqs_of_execd {σ : Type} {env : Env σ} :
    ∀ {rs : List TickRec} {t : Nat} {issued : List Task} {u : σ}, Ideal env t issued u rs →
      ∀ (i : Nat) (hi : i < rs.length) (x : Task), x ∈ rs[i].execd →
        ∃ s, ∀ y ∈ (env.task x.id (t + i) s).2, y ∈ rs[i].reqs
  | [], _, _, _, _, i, hi, _, _ => by simp at hi
  | r :: rs, t, issued, u, h, i, hi, x, hx => by
    obtain ⟨ok, rest⟩ := h
    cases i with
    | zero =>
      simp only [List.getElem_cons_zero] at hx ⊢
      obtain ⟨s, hs⟩ := execSeq_mem env t r.execd u hx
      refine ⟨s, fun y hy => ?_⟩
      rw [ok.reqs, List.mem_append]
      exact Or.inl (hs y hy)
    | succ i =>
      simp only [List.getElem_cons_succ] at hx ⊢
      have := Ideal.reqs_of_execd rest i (by simpa using hi) x hx
      rw [show t + (i + 1) = t + 1 + i by omega]
      exact this

/-- A task scheduled (before the run or during sample `j`) for a sample `m` inside the run is executed in sample `m`. -/
theorem Ideal.runs_when_issued {σ : Type} {env : Env σ} {rs : List TickRec} {issued : List Task} {u : σ}
    (h : Ideal env 0 issued u rs) (x : Task) (hm : x.when < rs.length)
    (hx : x ∈ issued ∨ ∃ (j : Nat) (hj : j < rs.length), j < x.when ∧ x ∈ rs[j].reqs) :
    x ∈ (rs[x.when]'hm).execd := by
  have := (h.onTime x.when hm).mem_iff (a := x)
  simp only [Nat.zero_add] at this
  apply this.2
  rw [List.mem_filter]
  refine ⟨?_, by simp⟩
  rw [List.mem_append]
  rcases hx with hx | ⟨j, hj, hlt, hx⟩
  · exact Or.inl hx
  · right
    rw [List.mem_flatMap]
    refine ⟨rs[j], ?_, hx⟩
    have hj' : j < (rs.take x.when).length := by simp; omega
    have : (rs.take x.when)[j] = rs[j] := List.getElem_take
    rw [← this]
    exact List.getElem_mem hj'

/-- Unbounded chain: closure `a` is scheduled for `t0` before the run and each of its executions at `now` schedules
`a` again for `now + p` (`p ≥ 1`); then it is executed in every sample `t0 + k*p` of the run. -/
theorem Ideal.chain {σ : Type} {env : Env σ} {rs : List TickRec} {issued : List Task} {u : σ}
    (h : Ideal env 0 issued u rs) (a t0 p : Nat) (hp : 1 ≤ p)
    (h0 : (⟨t0, a⟩ : Task) ∈ issued)
    (hre : ∀ now s, (⟨now + p, a⟩ : Task) ∈ (env.task a now s).2) :
    ∀ (k : Nat) (hk : t0 + k * p < rs.length), (⟨t0 + k * p, a⟩ : Task) ∈ (rs[t0 + k * p]'hk).execd := by
  intro k
  induction k with
  | zero =>
    intro hk
    have := h.runs_when_issued ⟨t0, a⟩ (by simpa using hk) (Or.inl h0)
    simpa using this
  | succ k ih =>
    intro hk
    have hlt : t0 + k * p < t0 + (k + 1) * p := by
      rw [Nat.succ_mul]; omega
    have hk' : t0 + k * p < rs.length := by omega
    have hin := ih hk'
    obtain ⟨s, hs⟩ := h.reqs_of_execd (t0 + k * p) hk' _ hin
    have hreq := hs ⟨0 + (t0 + k * p) + p, a⟩ (hre _ s)
    have e : 0 + (t0 + k * p) + p = t0 + (k + 1) * p := by rw [Nat.succ_mul]; omega
    rw [e] at hreq
    exact h.runs_when_issued ⟨t0 + (k + 1) * p, a⟩ hk (Or.inr ⟨t0 + k * p, hk', hlt, hreq⟩)

end Mimium.Sched
