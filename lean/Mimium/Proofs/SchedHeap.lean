import Mimium.Model.SchedHeap
import Mimium.Proofs.SchedMem
import Mimium.Proofs.SchedRun
import Mimium.Proofs.HeapStdOps
/-!
# Both scheduler queues over any heap meeting `HeapSpecI` are ideal schedulers; the `BinaryHeap` port meets it (C11)

* `stdHeap_spec`: the literal port `stdHeap` meets `HeapSpecI` with contents `Array.toList` and invariant `IsHeap`;
* `Vm.runH_spec`, `W.runH_spec`: `Vm.runH ops`, `W.runH ops` satisfy `Ideal` (and their explicit invariants) for every
  `ops` meeting `HeapSpecI` — same proof shape as `Vm.run_spec` / `W.run_spec`, with the list-with-oracle replaced by
  the heap's multiset `toList`.
-/
namespace Mimium.Sched

/-! ## the port meets the specification -/

theorem stdHeap_popDue_some {now : Nat} {d : Array Task} {x : Task} {r : Array Task} (hd : IsHeap d)
    (e : stdHeap.popDue now d = some (x, r)) :
    x.when ≤ now ∧ d.toList.Perm (x :: r.toList) ∧ IsHeap r := by
  simp only [stdHeap] at e
  split at e
  · cases e
  · rename_i hs
    split at e
    · rename_i hdue
      obtain ⟨r', e', hr, p, _⟩ := stdPop_spec d hd hs
      rw [e'] at e
      simp only [Option.some.injEq, Prod.mk.injEq] at e
      obtain ⟨rfl, rfl⟩ := e
      exact ⟨hdue, p, hr⟩
    · cases e

theorem stdHeap_spec : HeapSpecI stdHeap Array.toList IsHeap where
  emptyInv := by intro i _ hi; simp [stdHeap] at hi
  pushInv := fun x h hi => stdPush_isHeap x h hi
  popInv := fun _ _ _ _ hi e => (stdHeap_popDue_some hi e).2.2
  empty := rfl
  push := fun x h _ => stdPush_perm x h
  popSome := fun _ _ _ _ hi e => ⟨(stdHeap_popDue_some hi e).1, (stdHeap_popDue_some hi e).2.1⟩
  popNone := by
    intro now d hd e y hy
    simp only [stdHeap] at e
    split at e
    · rename_i hs
      have : d = #[] := Array.eq_empty_of_size_eq_zero hs
      subst this
      simp at hy
    · rename_i hs
      split at e
      · exact absurd ((stdPop_none d).1 e) hs
      · rename_i hnd
        have := hd.root_min y hy
        unfold keyAt at this
        omega
  size := fun h _ => by simp [stdHeap]

/-! ## VM side over a heap -/

section vm
variable {σ H : Type} {ops : HeapOps H} {toList : H → List Task} {Inv : H → Prop} (hs : HeapSpecI ops toList Inv)
include hs

theorem Vm.popLoopH_spec (env : Env σ) (now : Nat) :
    ∀ (n : Nat) (st : VmStH σ H), Inv st.heap → (toList st.heap).length ≤ n →
      (Vm.popLoopH ops env now n st).2.Perm ((toList st.heap).filter (fun x => decide (x.when ≤ now))) ∧
      (toList (Vm.popLoopH ops env now n st).1.heap).Perm ((toList st.heap).filter (fun x => decide (now < x.when))) ∧
      (Vm.popLoopH ops env now n st).1.chan = st.chan ++ (execSeq env now (Vm.popLoopH ops env now n st).2 st.user).2 ∧
      (Vm.popLoopH ops env now n st).1.user = (execSeq env now (Vm.popLoopH ops env now n st).2 st.user).1 ∧
      (Vm.popLoopH ops env now n st).1.curTime = st.curTime ∧
      Inv (Vm.popLoopH ops env now n st).1.heap := by
  intro n
  induction n with
  | zero =>
    intro st hi hl
    have : toList st.heap = [] := List.length_eq_zero_iff.1 (by omega)
    simp [Vm.popLoopH, this, execSeq, hi]
  | succ n ih =>
    intro st hi hl
    unfold Vm.popLoopH
    split
    · rename_i e
      have hall := hs.popNone now st.heap hi e
      have f1 : (toList st.heap).filter (fun x => decide (x.when ≤ now)) = [] := by
        rw [List.filter_eq_nil_iff]; intro y hy; have := hall y hy; simp only [decide_eq_true_eq]; omega
      have f2 : (toList st.heap).filter (fun x => decide (now < x.when)) = toList st.heap := by
        rw [List.filter_eq_self]; intro y hy; have := hall y hy; simp only [decide_eq_true_eq]; omega
      simp [f1, f2, execSeq, hi]
    · rename_i x r e
      obtain ⟨hdue, hperm⟩ := hs.popSome now st.heap x r hi e
      have hlen : (toList r).length + 1 = (toList st.heap).length := by
        have := hperm.length_eq; simp at this; omega
      have ih' := ih { st with heap := r, chan := st.chan ++ (env.task x.id now st.user).2,
                                user := (env.task x.id now st.user).1 } (hs.popInv now st.heap x r hi e) (by simp; omega)
      obtain ⟨i1, i2, i3, i4, i5, i6⟩ := ih'
      simp only at i1 i2 i3 i4 i5 i6
      refine ⟨?_, ?_, ?_, ?_, i5, i6⟩
      · have h1 := hperm.filter (fun x => decide (x.when ≤ now))
        have h2 : (x :: toList r).filter (fun x => decide (x.when ≤ now))
            = x :: (toList r).filter (fun x => decide (x.when ≤ now)) := by simp [hdue]
        rw [h2] at h1
        exact (List.Perm.cons x i1).trans h1.symm
      · have h1 := hperm.filter (fun x => decide (now < x.when))
        have h2 : (x :: toList r).filter (fun x => decide (now < x.when))
            = (toList r).filter (fun x => decide (now < x.when)) := by
          have : ¬ now < x.when := by omega
          simp [this]
        rw [h2] at h1
        exact i2.trans h1.symm
      · rw [i3]; simp [execSeq, List.append_assoc]
      · rw [i4]; simp [execSeq]

/-- **Invariant of the VM side over a heap** at the start of sample `t`. -/
structure VmInvH (toList : H → List Task) (Inv : H → Prop) (t : Nat) (issued : List Task) (st : VmStH σ H) : Prop where
  hinv : Inv st.heap
  cur : st.curTime = t - 1
  chanFuture : ∀ x ∈ st.chan, st.curTime < x.when
  pending : (toList st.heap ++ st.chan).Perm (issued.filter (fun x => decide (t ≤ x.when)))

theorem Vm.tickH_step {env : Env σ} (hf : env.Future) (t : Nat) (issued : List Task)
    (st : VmStH σ H) (inv : VmInvH toList Inv t issued st) :
    ∃ st' r, Vm.tickH ops env t st = some (st', r) ∧ StepOk env t issued st.user r st'.user ∧
      VmInvH toList Inv (t + 1) (issued ++ r.reqs) st' := by
  obtain ⟨h, hd, hp, hih⟩ := pushAllH_spec hs st.curTime st.chan st.heap inv.hinv inv.chanFuture
  have hh : (toList h).Perm (issued.filter (fun x => decide (t ≤ x.when))) := hp.trans inv.pending
  have spec := Vm.popLoopH_spec hs env t (ops.size h)
    { st with heap := h, chan := [], curTime := t } hih (by rw [hs.size h hih]; exact Nat.le_refl _)
  have etick : Vm.tickH ops env t st = some
      ({ (Vm.popLoopH ops env t (ops.size h) { st with heap := h, chan := [], curTime := t }).1 with
          chan := (Vm.popLoopH ops env t (ops.size h) { st with heap := h, chan := [], curTime := t }).1.chan ++
              (env.dsp t (Vm.popLoopH ops env t (ops.size h) { st with heap := h, chan := [], curTime := t }).1.user).2,
          user := (env.dsp t (Vm.popLoopH ops env t (ops.size h)
                { st with heap := h, chan := [], curTime := t }).1.user).1 },
       { execd := (Vm.popLoopH ops env t (ops.size h) { st with heap := h, chan := [], curTime := t }).2,
         reqs := (Vm.popLoopH ops env t (ops.size h) { st with heap := h, chan := [], curTime := t }).1.chan ++
              (env.dsp t (Vm.popLoopH ops env t (ops.size h)
                { st with heap := h, chan := [], curTime := t }).1.user).2 }) := by
    simp only [Vm.tickH, hd]
  generalize Vm.popLoopH ops env t (ops.size h) { st with heap := h, chan := [], curTime := t } = res at spec etick
  obtain ⟨p1, p2, p3, p4, p5, p6⟩ := spec
  simp only [List.nil_append] at p1 p2 p3 p4 p5 p6
  have ok : StepOk env t issued st.user
      { execd := res.2, reqs := res.1.chan ++ (env.dsp t res.1.user).2 } (env.dsp t res.1.user).1 := by
    refine ⟨?_, ?_, ?_⟩
    · refine p1.trans ?_
      rw [← filter_ge_le]
      exact hh.filter _
    · simp only [p3, p4]
    · simp only [p4]
  have hfut : ∀ x ∈ res.1.chan ++ (env.dsp t res.1.user).2, t < x.when := ok.future hf
  refine ⟨_, _, etick, ok, ?_⟩
  refine ⟨p6, by simp [p5], ?_, ?_⟩
  · intro x hx
    simp only [p5]
    exact hfut x hx
  · simp only [List.filter_append]
    rw [← List.filter_append, filter_future_self hfut]
    refine List.Perm.append_right _ ?_
    refine p2.trans ?_
    rw [← filter_ge_lt]
    exact hh.filter _

theorem Vm.runH_spec (env : Env σ) (n : Nat) (s0 : σ) (hf : env.Future) :
    ∃ st', (Vm.runH ops env n s0).final = some st' ∧ (Vm.runH ops env n s0).ticks.length = n ∧
      Ideal env 0 (env.global s0).2 (env.global s0).1 (Vm.runH ops env n s0).ticks ∧
      VmInvH toList Inv (0 + n) ((env.global s0).2 ++ (Vm.runH ops env n s0).ticks.flatMap (·.reqs)) st' := by
  have inv0 : VmInvH toList Inv 0 (env.global s0).2 (Vm.initH ops env s0) := by
    refine ⟨hs.emptyInv, rfl, fun x hx => hf.global s0 x hx, ?_⟩
    rw [filter_zero_le]
    simp [Vm.initH, hs.empty]
  exact runFrom_spec (env := env) (tick := Vm.tickH ops env) (user := fun st => st.user) (Inv := VmInvH toList Inv)
    (fun t issued st inv => Vm.tickH_step hs hf t issued st inv) n 0 (env.global s0).2 (Vm.initH ops env s0) inv0

end vm

@[simp] theorem Vm.runH_greqs {σ H : Type} (ops : HeapOps H) (env : Env σ) (n : Nat) (s0 : σ) :
    (Vm.runH ops env n s0).greqs = (env.global s0).2 := rfl

/-! ## WASM side over a heap -/

section wasm
variable {σ H : Type} {ops : HeapOps H} {toList : H → List Task} {Inv : H → Prop} (hs : HeapSpecI ops toList Inv)
include hs

theorem W.execAllH_spec {env : Env σ} (hf : env.Future) (now : Nat) :
    ∀ (xs : List Task) (h : H) (u : σ), Inv h → ∃ h',
      W.execAllH ops env now xs h u = some (h', (execSeq env now xs u).1, (execSeq env now xs u).2) ∧
      (toList h').Perm (toList h ++ (execSeq env now xs u).2) ∧ Inv h'
  | [], h, u, hi => ⟨h, by simp [W.execAllH, execSeq], by simp [execSeq], hi⟩
  | x :: xs, h, u, hi => by
    obtain ⟨h1, e1, p1, hi1⟩ := pushAllH_spec hs now (env.task x.id now u).2 h hi (hf.task _ _ _)
    obtain ⟨h', e, hperm, hi'⟩ := W.execAllH_spec hf now xs h1 (env.task x.id now u).1 hi1
    refine ⟨h', ?_, ?_, hi'⟩
    · simp [W.execAllH, e1, e, execSeq]
    · refine hperm.trans ?_
      simp only [execSeq, ← List.append_assoc]
      exact List.Perm.append_right _ p1

/-- **Invariant of the WASM side over a heap** at the start of sample `t`. -/
structure WInvH (toList : H → List Task) (Inv : H → Prop) (t : Nat) (issued : List Task) (st : WStH σ H) : Prop where
  hinv : Inv st.heap
  cur : st.currentTime = t - 1
  pending : (toList st.heap).Perm (issued.filter (fun x => decide (t ≤ x.when)))

theorem W.tickH_step {env : Env σ} (hf : env.Future) (t : Nat) (issued : List Task)
    (st : WStH σ H) (inv : WInvH toList Inv t issued st) :
    ∃ st' r, W.tickH ops env t st = some (st', r) ∧ StepOk env t issued st.user r st'.user ∧
      WInvH toList Inv (t + 1) (issued ++ r.reqs) st' := by
  obtain ⟨d1, d2, d3⟩ := drainDueH_spec hs t (ops.size st.heap) st.heap inv.hinv
    (by rw [hs.size _ inv.hinv]; exact Nat.le_refl _)
  have etick : ∀ h' rq u, W.execAllH ops env t (drainDueH ops t (ops.size st.heap) st.heap).1
        (drainDueH ops t (ops.size st.heap) st.heap).2 st.user = some (h', u, rq) →
      ∀ h'', pushAllH ops t (env.dsp t u).2 h' = some h'' →
      W.tickH ops env t st = some
        ({ currentTime := t, heap := h'', user := (env.dsp t u).1 },
         { execd := (drainDueH ops t (ops.size st.heap) st.heap).1, reqs := rq ++ (env.dsp t u).2 }) := by
    intro h' rq u e h'' e2
    simp only [W.tickH, e, e2]
  generalize drainDueH ops t (ops.size st.heap) st.heap = d at d1 d2 d3 etick
  obtain ⟨h', e, hperm, hi'⟩ := W.execAllH_spec hs hf t d.1 d.2 st.user d3
  obtain ⟨h'', e2, p2, hi''⟩ := pushAllH_spec hs t (env.dsp t (execSeq env t d.1 st.user).1).2 h' hi' (hf.dsp _ _)
  have ok : StepOk env t issued st.user
      { execd := d.1, reqs := (execSeq env t d.1 st.user).2 ++ (env.dsp t (execSeq env t d.1 st.user).1).2 }
      (env.dsp t (execSeq env t d.1 st.user).1).1 := by
    refine ⟨?_, rfl, rfl⟩
    refine d1.trans ?_
    rw [← filter_ge_le]
    exact inv.pending.filter _
  have hfut : ∀ x ∈ (execSeq env t d.1 st.user).2 ++ (env.dsp t (execSeq env t d.1 st.user).1).2, t < x.when :=
    ok.future hf
  refine ⟨_, _, etick _ _ _ e _ e2, ok, ?_⟩
  refine ⟨hi'', by simp, ?_⟩
  simp only [List.filter_append]
  rw [← List.filter_append, filter_future_self hfut]
  refine p2.trans ?_
  rw [← List.append_assoc]
  refine List.Perm.append_right _ ?_
  refine hperm.trans ?_
  refine List.Perm.append_right _ ?_
  refine d2.trans ?_
  rw [← filter_ge_lt]
  exact inv.pending.filter _

theorem W.runH_spec (env : Env σ) (n : Nat) (s0 : σ) (hf : env.Future) :
    ∃ st', (W.runH ops env n s0).final = some st' ∧ (W.runH ops env n s0).ticks.length = n ∧
      (W.runH ops env n s0).greqs = (env.global s0).2 ∧
      Ideal env 0 (env.global s0).2 (env.global s0).1 (W.runH ops env n s0).ticks ∧
      WInvH toList Inv (0 + n) ((env.global s0).2 ++ (W.runH ops env n s0).ticks.flatMap (·.reqs)) st' := by
  obtain ⟨h, e, p, hi⟩ := pushAllH_spec hs 0 (env.global s0).2 ops.empty hs.emptyInv (hf.global s0)
  have inv0 : WInvH (σ := σ) toList Inv 0 (env.global s0).2
      { currentTime := 0, heap := h, user := (env.global s0).1 } := by
    refine ⟨hi, rfl, ?_⟩
    rw [filter_zero_le]
    simpa [hs.empty] using p
  obtain ⟨st', e2, l2, idl, inv⟩ := runFrom_spec (env := env) (tick := W.tickH ops env) (user := fun st => st.user)
    (Inv := WInvH toList Inv) (fun t issued st inv => W.tickH_step hs hf t issued st inv) n 0 (env.global s0).2 _ inv0
  refine ⟨st', ?_, ?_, ?_, ?_, ?_⟩ <;> simp only [W.runH, e] <;> assumption

end wasm

end Mimium.Sched
