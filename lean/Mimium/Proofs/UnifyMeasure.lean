import Mimium.Proofs.UnifyLen
import Mimium.Proofs.TypeRec
/-! The measures of the termination proof of unification: the class of stores a run can reach (`Cl`), the height of a type in
a store (`HA`: `substitute_type` on the abstraction returns within `n` nested calls) and how both behave when a call descends
from a root to one of its members (`Desc`). -/
namespace Mimium.Unify
open Mimium.Occurs (parent Acyclic)

abbrev AT := Occurs.Ty
abbrev AS := Occurs.Store

/-! ## height -/

/-- `substitute_type(x)` on the store `τ` returns within `n` nested calls -/
def HA (τ : AS) (x : AT) (n : Nat) : Prop := ∃ r, TypeRec.subst τ n x = some r

theorem subst_succ (τ : AS) : ∀ (n : Nat) (x r : AT), TypeRec.subst τ n x = some r → TypeRec.subst τ (n + 1) x = some r := by
  intro n
  induction n with
  | zero => intro x r h; simp [TypeRec.subst] at h
  | succ n ih =>
    intro x r h
    cases x with
    | other => simpa [TypeRec.subst] using h
    | var v =>
      simp only [TypeRec.subst] at h ⊢
      cases hp : parent τ v with
      | none => simpa [hp] using h
      | some p => simp only [hp] at h ⊢; exact ih p r h
    | unary t =>
      simp only [TypeRec.subst] at h ⊢
      cases hs : TypeRec.subst τ n t with
      | none => simp [hs] at h
      | some t' => rw [ih t t' hs]; simpa [hs] using h
    | anyOf a b =>
      simp only [TypeRec.subst] at h ⊢
      cases ha : TypeRec.subst τ n a with
      | none => simp [ha] at h
      | some a' =>
        cases hb : TypeRec.subst τ n b with
        | none => simp [ha, hb] at h
        | some b' => rw [ih a a' ha, ih b b' hb]; simpa [ha, hb] using h
    | fn a b =>
      simp only [TypeRec.subst] at h ⊢
      cases ha : TypeRec.subst τ n a with
      | none => simp [ha] at h
      | some a' =>
        cases hb : TypeRec.subst τ n b with
        | none => simp [ha, hb] at h
        | some b' => rw [ih a a' ha, ih b b' hb]; simpa [ha, hb] using h

theorem HA.mono {τ : AS} {x : AT} {n m : Nat} (h : HA τ x n) (hm : n ≤ m) : HA τ x m := by
  induction hm with
  | refl => exact h
  | step _ ih => obtain ⟨r, hr⟩ := ih; exact ⟨r, subst_succ τ _ x r hr⟩

theorem HA.total {τ : AS} (h : Acyclic τ) (x : AT) (n : Nat) (hn : Occurs.size x + Occurs.total τ ≤ n) : HA τ x n :=
  TypeRec.subst_total_bound τ h x n hn

theorem HA.var {τ : AS} {v : Nat} {p : AT} {n : Nat} (hp : parent τ v = some p) (h : HA τ (.var v) n) : ∃ m, m < n ∧ HA τ p m := by
  obtain ⟨r, hr⟩ := h
  cases n with
  | zero => simp [TypeRec.subst] at hr
  | succ m => simp only [TypeRec.subst, hp] at hr; exact ⟨m, Nat.lt_succ_self m, r, hr⟩

theorem HA.unary {τ : AS} {x : AT} {n : Nat} (h : HA τ (.unary x) n) : ∃ m, m < n ∧ HA τ x m := by
  obtain ⟨r, hr⟩ := h
  cases n with
  | zero => simp [TypeRec.subst] at hr
  | succ m =>
    simp only [TypeRec.subst] at hr
    cases hs : TypeRec.subst τ m x with
    | none => simp [hs] at hr
    | some t' => exact ⟨m, Nat.lt_succ_self m, t', hs⟩

theorem HA.anyOf {τ : AS} {a b : AT} {n : Nat} (h : HA τ (.anyOf a b) n) : ∃ m, m < n ∧ HA τ a m ∧ HA τ b m := by
  obtain ⟨r, hr⟩ := h
  cases n with
  | zero => simp [TypeRec.subst] at hr
  | succ m =>
    simp only [TypeRec.subst] at hr
    cases ha : TypeRec.subst τ m a with
    | none => simp [ha] at hr
    | some a' =>
      cases hb : TypeRec.subst τ m b with
      | none => simp [ha, hb] at hr
      | some b' => exact ⟨m, Nat.lt_succ_self m, ⟨a', ha⟩, ⟨b', hb⟩⟩

theorem HA.fn {τ : AS} {a b : AT} {n : Nat} (h : HA τ (.fn a b) n) : ∃ m, m < n ∧ HA τ a m ∧ HA τ b m := by
  obtain ⟨r, hr⟩ := h
  cases n with
  | zero => simp [TypeRec.subst] at hr
  | succ m =>
    simp only [TypeRec.subst] at hr
    cases ha : TypeRec.subst τ m a with
    | none => simp [ha] at hr
    | some a' =>
      cases hb : TypeRec.subst τ m b with
      | none => simp [ha, hb] at hr
      | some b' => exact ⟨m, Nat.lt_succ_self m, ⟨a', ha⟩, ⟨b', hb⟩⟩

/-! ## size and variables stay inside fixed bounds -/

/-- at most `B` constructors, variables from `V` -/
def AOK (B : Nat) (V : List Nat) (x : AT) : Prop := Occurs.size x ≤ B ∧ ∀ v ∈ Occurs.vars x, v ∈ V

theorem AOK.unary {B : Nat} {V : List Nat} {x : AT} (h : AOK B V (.unary x)) : AOK B V x := by
  refine ⟨?_, fun v hv => h.2 v (by simpa [Occurs.vars] using hv)⟩
  have := h.1; simp only [Occurs.size] at this; omega

theorem AOK.anyOf {B : Nat} {V : List Nat} {a b : AT} (h : AOK B V (.anyOf a b)) : AOK B V a ∧ AOK B V b := by
  have hs := h.1; simp only [Occurs.size] at hs
  exact ⟨⟨by omega, fun v hv => h.2 v (by simp [Occurs.vars, hv])⟩, ⟨by omega, fun v hv => h.2 v (by simp [Occurs.vars, hv])⟩⟩

theorem AOK.fn {B : Nat} {V : List Nat} {a b : AT} (h : AOK B V (.fn a b)) : AOK B V a ∧ AOK B V b := by
  have hs := h.1; simp only [Occurs.size] at hs
  exact ⟨⟨by omega, fun v hv => h.2 v (by simp [Occurs.vars, hv])⟩, ⟨by omega, fun v hv => h.2 v (by simp [Occurs.vars, hv])⟩⟩

/-! ## descending from a type to a member -/

/-- the call goes from `r` to `c`: bounds are kept, the height does not grow (`strict`: it drops) -/
def Desc (strict : Bool) (r c : Ty) : Prop :=
  (∀ B V, AOK B V (abs r) → AOK B V (abs c)) ∧
  (∀ τ n, HA τ (abs r) n → ∃ m, HA τ (abs c) m ∧ (if strict then m < n else m ≤ n))

theorem Desc.refl (r : Ty) : Desc false r r := ⟨fun _ _ h => h, fun _ n h => ⟨n, h, Nat.le_refl n⟩⟩

theorem Desc.weaken {r c : Ty} (h : Desc true r c) : Desc false r c :=
  ⟨h.1, fun τ n hn => by obtain ⟨m, hm, hlt⟩ := h.2 τ n hn; exact ⟨m, hm, Nat.le_of_lt (by simpa using hlt)⟩⟩

theorem desc_unary {r c : Ty} (h : abs r = .unary (abs c)) : Desc true r c := by
  refine ⟨fun B V hr => ?_, fun τ n hn => ?_⟩
  · rw [h] at hr; exact hr.unary
  · rw [h] at hn; obtain ⟨m, hm, hc⟩ := hn.unary; exact ⟨m, hc, by simpa using hm⟩

theorem desc_array (a : Ty) : Desc true (.array a) a := desc_unary (by simp only [abs])
theorem desc_ref (a : Ty) : Desc true (.ref a) a := desc_unary (by simp only [abs])
theorem desc_code (a : Ty) : Desc true (.code a) a := desc_unary (by simp only [abs])
theorem desc_boxed (a : Ty) : Desc true (.boxed a) a := desc_unary (by simp only [abs])

theorem desc_fn_arg (a r : Ty) : Desc true (.fn a r) a := by
  refine ⟨fun B V h => ?_, fun τ n hn => ?_⟩
  · simp only [abs] at h; exact h.fn.1
  · simp only [abs] at hn; obtain ⟨m, hm, ha, _⟩ := hn.fn; exact ⟨m, ha, by simpa using hm⟩

theorem desc_fn_ret (a r : Ty) : Desc true (.fn a r) r := by
  refine ⟨fun B V h => ?_, fun τ n hn => ?_⟩
  · simp only [abs] at h; exact h.fn.2
  · simp only [abs] at hn; obtain ⟨m, hm, _, hr⟩ := hn.fn; exact ⟨m, hr, by simpa using hm⟩

theorem absL_mem {B : Nat} {V : List Nat} : ∀ (ts : List Ty) (c : Ty), c ∈ ts →
    (AOK B V (absL ts) → AOK B V (abs c)) ∧ (∀ τ n, HA τ (absL ts) n → ∃ m, HA τ (abs c) m ∧ m < n) := by
  intro ts
  induction ts with
  | nil => intro c hc; cases hc
  | cons t ts ih =>
    intro c hc
    simp only [absL]
    rcases List.mem_cons.mp hc with rfl | hc'
    · exact ⟨fun h => h.anyOf.1, fun τ n hn => by obtain ⟨m, hm, ha, _⟩ := hn.anyOf; exact ⟨m, ha, hm⟩⟩
    · refine ⟨fun h => (ih c hc').1 h.anyOf.2, fun τ n hn => ?_⟩
      obtain ⟨m, hm, _, hb⟩ := hn.anyOf
      obtain ⟨m', hc2, hlt⟩ := (ih c hc').2 τ m hb
      exact ⟨m', hc2, by omega⟩

theorem absF_mem {B : Nat} {V : List Nat} : ∀ (fs : List F) (f : F), f ∈ fs →
    (AOK B V (absF fs) → AOK B V (abs f.ty)) ∧ (∀ τ n, HA τ (absF fs) n → ∃ m, HA τ (abs f.ty) m ∧ m < n) := by
  intro fs
  induction fs with
  | nil => intro c hc; cases hc
  | cons t ts ih =>
    intro c hc
    simp only [absF]
    rcases List.mem_cons.mp hc with rfl | hc'
    · exact ⟨fun h => h.anyOf.1, fun τ n hn => by obtain ⟨m, hm, ha, _⟩ := hn.anyOf; exact ⟨m, ha, hm⟩⟩
    · refine ⟨fun h => (ih c hc').1 h.anyOf.2, fun τ n hn => ?_⟩
      obtain ⟨m, hm, _, hb⟩ := hn.anyOf
      obtain ⟨m', hc2, hlt⟩ := (ih c hc').2 τ m hb
      exact ⟨m', hc2, by omega⟩

theorem desc_tuple {ts : List Ty} {c : Ty} (hc : c ∈ ts) : Desc true (.tuple ts) c := by
  refine ⟨fun B V h => ?_, fun τ n hn => ?_⟩
  · simp only [abs] at h; exact (absL_mem ts c hc).1 h
  · simp only [abs] at hn; obtain ⟨m, h1, h2⟩ := (absL_mem (B := 0) (V := []) ts c hc).2 τ n hn; exact ⟨m, h1, by simpa using h2⟩

theorem desc_union {ts : List Ty} {c : Ty} (hc : c ∈ ts) : Desc true (.union ts) c := by
  refine ⟨fun B V h => ?_, fun τ n hn => ?_⟩
  · simp only [abs] at h; exact (absL_mem ts c hc).1 h
  · simp only [abs] at hn; obtain ⟨m, h1, h2⟩ := (absL_mem (B := 0) (V := []) ts c hc).2 τ n hn; exact ⟨m, h1, by simpa using h2⟩

theorem desc_record {fs : List F} {f : F} (hf : f ∈ fs) : Desc true (.record fs) f.ty := by
  refine ⟨fun B V h => ?_, fun τ n hn => ?_⟩
  · simp only [abs] at h; exact (absF_mem fs f hf).1 h
  · simp only [abs] at hn; obtain ⟨m, h1, h2⟩ := (absF_mem (B := 0) (V := []) fs f hf).2 τ n hn; exact ⟨m, h1, by simpa using h2⟩

theorem absL_map_ty : ∀ (kvs : List F), absL (kvs.map (·.ty)) = absF kvs := by
  intro kvs
  induction kvs with
  | nil => simp [absL, absF]
  | cons f fs ih => simp only [List.map_cons, absL, absF, ih]

/-- `(Record(kvs), Tuple(_))`: the tuple of the field types looks the same to every measure -/
theorem desc_record_tuple (kvs : List F) : Desc false (.record kvs) (.tuple (kvs.map (·.ty))) := by
  have e : abs (.tuple (kvs.map (·.ty))) = abs (.record kvs) := by simp only [abs, absL_map_ty]
  exact ⟨fun B V h => by rw [e]; exact h, fun τ n hn => ⟨n, by rw [e]; exact hn, Nat.le_refl n⟩⟩

/-! ## the stores a run can reach -/

/-- number of variables of `V` that are still unbound -/
def unb (V : List Nat) (σ : Store) : Nat := (V.filter fun v => (parent σ v).isNone).length

/-- acyclic, every parent within the bounds, and at most `L` entries once every variable of `V` is bound -/
def Cl (B : Nat) (V : List Nat) (L : Nat) (σ : Store) : Prop :=
  Acyclic (absS σ) ∧ (∀ e ∈ σ, AOK B V (abs e.2)) ∧ σ.length + unb V σ ≤ L

theorem filter_len_le (V : List Nat) (p p' : Nat → Bool) (himp : ∀ x, p' x = true → p x = true) :
    (V.filter p').length ≤ (V.filter p).length := by
  induction V with
  | nil => simp
  | cons x xs ih =>
    simp only [List.filter_cons]
    cases h' : p' x with
    | true => simp only [himp x h', if_true, List.length_cons]; omega
    | false => cases p x <;> simp <;> omega

theorem filter_len_lt (V : List Nat) (p p' : Nat → Bool) (himp : ∀ x, p' x = true → p x = true) (v : Nat) (hv : v ∈ V)
    (hp : p v = true) (hp' : p' v = false) : (V.filter p').length + 1 ≤ (V.filter p).length := by
  induction V with
  | nil => cases hv
  | cons x xs ih =>
    simp only [List.filter_cons]
    rcases List.mem_cons.mp hv with rfl | hv'
    · have := filter_len_le xs p p' himp
      simp only [hp, hp', if_true, List.length_cons]
      simp; omega
    · have := ih hv'
      cases h' : p' x with
      | true => simp only [himp x h', if_true, List.length_cons]; omega
      | false => cases p x <;> simp <;> omega

theorem parent_cons (σ : Store) (v w : Nat) (t : Ty) : parent ((v, t) :: σ) w = if v = w then some t else parent σ w := by
  simp only [parent]

theorem unb_cons {V : List Nat} {σ : Store} {v : Nat} (t : Ty) (hv : v ∈ V) (hu : parent σ v = none) :
    unb V ((v, t) :: σ) + 1 ≤ unb V σ := by
  unfold unb
  refine filter_len_lt V _ _ ?_ v hv (by simp [hu]) (by simp [parent_cons])
  intro x hx
  simp only [parent_cons] at hx
  by_cases h : v = x
  · simp [h] at hx
  · simpa [h] using hx

theorem parent_mem' (σ : Store) (v : Nat) (p : Ty) (h : parent σ v = some p) : (v, p) ∈ σ := by
  induction σ with
  | nil => simp [parent] at h
  | cons e rest ih =>
    obtain ⟨x, t⟩ := e
    simp only [parent] at h
    by_cases hx : x = v
    · simp only [hx, if_true, Option.some.injEq] at h
      subst h; subst hx
      exact List.mem_cons_self
    · simp only [hx, if_false] at h
      exact List.mem_cons_of_mem _ (ih h)

section
variable {B : Nat} {V : List Nat} {L : Nat}

theorem Cl.parent_aok {σ : Store} (h : Cl B V L σ) {v : Nat} {p : Ty} (hp : parent σ v = some p) : AOK B V (abs p) :=
  h.2.1 (v, p) (parent_mem' σ v p hp)

theorem Cl.length_le {σ : Store} (h : Cl B V L σ) : σ.length ≤ L := by have := h.2.2; omega

theorem Cl.total_le {σ : Store} (h : Cl B V L σ) : Occurs.total (absS σ) ≤ L * B := by
  have h1 : Occurs.total (absS σ) ≤ (absS σ).length * B := by
    refine Occurs.total_le (absS σ) B ?_
    intro e he
    simp only [absS, List.mem_map] at he
    obtain ⟨e', he', rfl⟩ := he
    exact (h.2.1 e' he').1
  have h2 : (absS σ).length = σ.length := by simp [absS]
  rw [h2] at h1
  exact Nat.le_trans h1 (Nat.mul_le_mul_right B h.length_le)

/-- binding an unbound variable of `V` to a type within the bounds stays in the class -/
theorem Cl.cons {σ : Store} (h : Cl B V L σ) {v : Nat} {t : Ty} (hac : Acyclic (absS ((v, t) :: σ))) (ht : AOK B V (abs t))
    (hv : v ∈ V) (hu : parent σ v = none) : Cl B V L ((v, t) :: σ) := by
  refine ⟨hac, ?_, ?_⟩
  · intro e he
    rcases List.mem_cons.mp he with rfl | he'
    · exact ht
    · exact h.2.1 e he'
  · have := unb_cons t hv hu
    have := h.2.2
    simp only [List.length_cons]
    omega

/-- the height of a type within the bounds, in any store of the class -/
theorem Cl.height {σ : Store} (h : Cl B V L σ) {x : Ty} (hx : AOK B V (abs x)) : HA (absS σ) (abs x) (B + L * B) :=
  HA.total h.1 (abs x) _ (by have := h.total_le; have := hx.1; omega)

end

/-! ## roots -/

theorem root_total {σ : Store} (hσ : Acyclic (absS σ)) (g : Nat) (hg : σ.length + 1 ≤ g) (t : Ty) : ∃ r, root σ g t = some r := by
  have key : ∀ (g : Nat) (t : Ty) (r' : AT), Occurs.root (absS σ) g (abs t) = some r' → ∃ r, root σ g t = some r := by
    intro g
    induction g with
    | zero => intro t r' h; simp [Occurs.root] at h
    | succ g ih =>
      intro t r' h
      cases t with
      | var v =>
        simp only [root]
        simp only [abs, Occurs.root, parent_absS] at h
        cases hp : parent σ v with
        | none => exact ⟨_, rfl⟩
        | some p => simp only [hp, Option.map_some] at h; exact ih p r' h
      | _ => exact ⟨_, rfl⟩
  have hlen : (absS σ).length = σ.length := by simp [absS]
  obtain ⟨r', hr'⟩ := Occurs.root_total_bound (absS σ) hσ (abs t) g (by omega)
  exact key g t r' hr'

theorem root_aok {B : Nat} {V : List Nat} {L : Nat} {σ : Store} (h : Cl B V L σ) : ∀ (g : Nat) (t r : Ty),
    AOK B V (abs t) → root σ g t = some r → AOK B V (abs r) := by
  intro g
  induction g with
  | zero => intro t r _ hr; simp [root] at hr
  | succ g ih =>
    intro t r ht hr
    cases t with
    | var v =>
      simp only [root] at hr
      cases hp : parent σ v with
      | none => simp only [hp, Option.some.injEq] at hr; subst hr; exact ht
      | some p => simp only [hp] at hr; exact ih p r (h.parent_aok hp) hr
    | _ => simp only [root, Option.some.injEq] at hr; subst hr; exact ht

theorem HA.chain {σ : Store} {t r : Ty} (c : Chain σ t r) {n : Nat} (h : HA (absS σ) (abs t) n) : HA (absS σ) (abs r) n := by
  induction c generalizing n with
  | refl t => exact h
  | @step v p r hp _ ih =>
    have hp' : parent (absS σ) v = some (abs p) := by rw [parent_absS, hp]; rfl
    simp only [abs] at h
    obtain ⟨m, hm, hpm⟩ := HA.var hp' h
    exact ih (hpm.mono (Nat.le_of_lt hm))

end Mimium.Unify
