import Mimium.Model.Layout
import Mimium.Proofs.StateTree
namespace Mimium.Layout
open Mimium.StateTree

/-- lifting a leaf of the tail of a child list to the whole list -/
theorem touches_cons {c : Sk} {cs : List Sk} {b : Nat} {a : Access}
    (h : TouchesLeaf (.fn cs) (b + c.size) a) : TouchesLeaf (.fn (c :: cs)) b a := by
  cases h with
  | child hi ht =>
    rename_i i
    have hi' : i + 1 < (c :: cs).length := by simpa using hi
    have : TouchesLeaf ((c :: cs)[i+1]'hi') (b + offsetOf (c :: cs) (i+1)) a := by
      have e : offsetOf (c :: cs) (i+1) = c.size + offsetOf cs i := by simp [offsetOf]
      rw [e]
      simpa [Nat.add_assoc] using ht
    exact TouchesLeaf.child (cs := c :: cs) (i := i+1) hi' this

theorem touches_head {c : Sk} {cs : List Sk} {b : Nat} {a : Access}
    (h : TouchesLeaf c b a) : TouchesLeaf (.fn (c :: cs)) b a := by
  have h0 : 0 < (c :: cs).length := by simp
  have : TouchesLeaf ((c :: cs)[0]'h0) (b + offsetOf (c :: cs) 0) a := by simpa using h
  exact TouchesLeaf.child (cs := c :: cs) (i := 0) h0 this

mutual
theorem expected_sound : ∀ (sk : Sk) (b : Nat), WF sk = true →
    ∀ a ∈ expectedTrace sk b, TouchesLeaf sk b a ∧ b ≤ a.pos ∧ a.pos + a.size ≤ b + sk.size
  | .mem s, b, hw, a, ha => by
    simp [WF] at hw
    simp [expectedTrace] at ha
    subst ha; subst hw
    exact ⟨TouchesLeaf.mem 1 b, Nat.le_refl _, by simp [Sk.size]⟩
  | .delay n, b, _, a, ha => by
    simp [expectedTrace] at ha
    subst ha
    exact ⟨TouchesLeaf.delay n b, Nat.le_refl _, by simp [Sk.size]⟩
  | .feed s, b, hw, a, ha => by simp [WF] at hw
  | .fn [], b, _, a, ha => by simp [expectedTrace, expectedTraceL] at ha
  | .fn (.feed s :: rest), b, hw, a, ha => by
    simp only [WF] at hw
    simp only [expectedTrace, List.mem_append, List.mem_singleton] at ha
    have hsz : (Sk.fn (.feed s :: rest)).size = s + sizeL rest := by simp [Sk.size]
    rcases ha with (ha | ha) | ha
    · subst ha
      exact ⟨touches_head (TouchesLeaf.feedGet s b), Nat.le_refl _, by simp [hsz]⟩
    · have := expectedL_sound rest (b + s) hw a ha
      refine ⟨?_, by omega, by rw [hsz]; omega⟩
      have h' : TouchesLeaf (.fn rest) (b + (Sk.feed s).size) a := by simpa [Sk.size] using this.1
      exact touches_cons h'
    · subst ha
      exact ⟨touches_head (TouchesLeaf.feedSet s b), Nat.le_refl _, by simp [hsz]⟩
  | .fn (.mem s :: rest), b, hw, a, ha => by
    have hw' : WFL (.mem s :: rest) = true := by simpa [WF] using hw
    have := expectedL_sound (.mem s :: rest) b hw' a (by simpa [expectedTrace] using ha)
    simpa using this
  | .fn (.delay n :: rest), b, hw, a, ha => by
    have hw' : WFL (.delay n :: rest) = true := by simpa [WF] using hw
    have := expectedL_sound (.delay n :: rest) b hw' a (by simpa [expectedTrace] using ha)
    simpa using this
  | .fn (.fn cs :: rest), b, hw, a, ha => by
    have hw' : WFL (.fn cs :: rest) = true := by simpa [WF] using hw
    have := expectedL_sound (.fn cs :: rest) b hw' a (by simpa [expectedTrace] using ha)
    simpa using this
theorem expectedL_sound : ∀ (cs : List Sk) (b : Nat), WFL cs = true →
    ∀ a ∈ expectedTraceL cs b, TouchesLeaf (.fn cs) b a ∧ b ≤ a.pos ∧ a.pos + a.size ≤ b + sizeL cs
  | [], b, _, a, ha => by simp [expectedTraceL] at ha
  | c :: cs, b, hw, a, ha => by
    simp only [WFL, Bool.and_eq_true] at hw
    simp only [expectedTraceL, List.mem_append] at ha
    rcases ha with ha | ha
    · have := expected_sound c b hw.1 a ha
      exact ⟨touches_head this.1, this.2.1, by simp; omega⟩
    · have := expectedL_sound cs (b + c.size) hw.2 a ha
      exact ⟨touches_cons this.1, by omega, by simp; omega⟩
end

end Mimium.Layout
