import Mimium.Model.Layout
import Mimium.Proofs.StateTree
namespace Mimium.Layout
open Mimium.StateTree

/-- lifting a leaf of the tail of a child list to the whole list -/
theorem touches_cons {c : Sk} {cs : List Sk} {b : Nat} {a : Access}
    (h : TouchesLeaf (.fn cs) (b + c.size) a) : TouchesLeaf (.fn (c :: cs)) b a := by
  cases h with
  | child hi ht =>
    rename_i i
    have hi' : i + 1 < (c :: cs).length := by simpa using hi
    have : TouchesLeaf ((c :: cs)[i+1]'hi') (b + offsetOf (c :: cs) (i+1)) a := by
      have e : offsetOf (c :: cs) (i+1) = c.size + offsetOf cs i := by simp [offsetOf]
      rw [e]
      simpa [Nat.add_assoc] using ht
    exact TouchesLeaf.child (cs := c :: cs) (i := i+1) hi' this

theorem touches_head {c : Sk} {cs : List Sk} {b : Nat} {a : Access}
    (h : TouchesLeaf c b a) : TouchesLeaf (.fn (c :: cs)) b a := by
  have h0 : 0 < (c :: cs).length := by simp
  have : TouchesLeaf ((c :: cs)[0]'h0) (b + offsetOf (c :: cs) 0) a := by simpa using h
  exact TouchesLeaf.child (cs := c :: cs) (i := 0) h0 this

mutual
theorem expected_sound : ∀ (sk : Sk) (b : Nat), WF sk = true →
    ∀ a ∈ expectedTrace sk b, TouchesLeaf sk b a ∧ b ≤ a.pos ∧ a.pos + a.size ≤ b + sk.size
  | .mem s, b, hw, a, ha => by
    simp [WF] at hw
    simp [expectedTrace] at ha
    subst ha; subst hw
    exact ⟨TouchesLeaf.mem 1 b, Nat.le_refl _, by simp [Sk.size]⟩
  | .delay n, b, _, a, ha => by
    simp [expectedTrace] at ha
    subst ha
    exact ⟨TouchesLeaf.delay n b, Nat.le_refl _, by simp [Sk.size]⟩
  | .feed s, b, hw, a, ha => by simp [WF] at hw
  | .fn [], b, _, a, ha => by simp [expectedTrace, expectedTraceL] at ha
  | .fn (.feed s :: rest), b, hw, a, ha => by
    simp only [WF] at hw
    simp only [expectedTrace, List.mem_append, List.mem_singleton] at ha
    have hsz : (Sk.fn (.feed s :: rest)).size = s + sizeL rest := by simp [Sk.size]
    rcases ha with (ha | ha) | ha
    · subst ha
      exact ⟨touches_head (TouchesLeaf.feedGet s b), Nat.le_refl _, by simp [hsz]⟩
    · have := expectedL_sound rest (b + s) hw a ha
      refine ⟨?_, by omega, by rw [hsz]; omega⟩
      have h' : TouchesLeaf (.fn rest) (b + (Sk.feed s).size) a := by simpa [Sk.size] using this.1
      exact touches_cons h'
    · subst ha
      exact ⟨touches_head (TouchesLeaf.feedSet s b), Nat.le_refl _, by simp [hsz]⟩
  | .fn (.mem s :: rest), b, hw, a, ha => by
    have hw' : WFL (.mem s :: rest) = true := by simpa [WF] using hw
    have := expectedL_sound (.mem s :: rest) b hw' a (by simpa [expectedTrace] using ha)
    simpa using this
  | .fn (.delay n :: rest), b, hw, a, ha => by
    have hw' : WFL (.delay n :: rest) = true := by simpa [WF] using hw
    have := expectedL_sound (.delay n :: rest) b hw' a (by simpa [expectedTrace] using ha)
    simpa using this
  | .fn (.fn cs :: rest), b, hw, a, ha => by
    have hw' : WFL (.fn cs :: rest) = true := by simpa [WF] using hw
    have := expectedL_sound (.fn cs :: rest) b hw' a (by simpa [expectedTrace] using ha)
    simpa using this
theorem expectedL_sound : ∀ (cs : List Sk) (b : Nat), WFL cs = true →
    ∀ a ∈ expectedTraceL cs b, TouchesLeaf (.fn cs) b a ∧ b ≤ a.pos ∧ a.pos + a.size ≤ b + sizeL cs
  | [], b, _, a, ha => by simp [expectedTraceL] at ha
  | c :: cs, b, hw, a, ha => by
    simp only [WFL, Bool.and_eq_true] at hw
    simp only [expectedTraceL, List.mem_append] at ha
    rcases ha with ha | ha
    · have := expected_sound c b hw.1 a ha
      exact ⟨touches_head this.1, this.2.1, by simp; omega⟩
    · have := expectedL_sound cs (b + c.size) hw.2 a ha
      exact ⟨touches_cons this.1, by omega, by simp; omega⟩
end

/-! ### the generalised judge accepts only in-order sub-selections of the expected trace -/

theorem dropHead_spec (x : Access) (tr : List Access) :
    ∃ pre, tr = pre ++ dropHead x tr ∧ pre.Sublist [x] := by
  unfold dropHead
  split
  · rename_i h
    cases tr with
    | nil => simp at h
    | cons a t =>
      simp only [List.head?_cons, Option.some.injEq] at h
      subst h
      exact ⟨[a], by simp, List.Sublist.refl _⟩
  · exact ⟨[], by simp, List.nil_sublist _⟩

theorem head?_eq_some {α : Type} {l : List α} {x : α} (h : l.head? = some x) : l = x :: l.tail := by
  cases l with
  | nil => simp at h
  | cons a t => simp only [List.head?_cons, Option.some.injEq] at h; subst h; rfl

mutual
theorem selTrace_sublist : ∀ (sk : Sk) (b : Nat) (tr tr' : List Access), selTrace sk b tr = some tr' →
    ∃ pre, tr = pre ++ tr' ∧ pre.Sublist (expectedTrace sk b)
  | .mem s, b, tr, tr', h => by
    simp only [selTrace, Option.some.injEq] at h
    subst h
    simpa [expectedTrace] using dropHead_spec ⟨.mem, b, 1⟩ tr
  | .delay n, b, tr, tr', h => by
    simp only [selTrace, Option.some.injEq] at h
    subst h
    simpa [expectedTrace] using dropHead_spec ⟨.delay, b, delayExtra + n⟩ tr
  | .feed s, b, tr, tr', h => by
    simp only [selTrace, Option.some.injEq] at h
    subst h
    exact ⟨[], by simp, List.nil_sublist _⟩
  | .fn [], b, tr, tr', h => by
    simp only [selTrace, selTraceL, Option.some.injEq] at h
    subst h
    exact ⟨[], by simp, List.nil_sublist _⟩
  | .fn (.feed s :: rest), b, tr, tr', h => by
    simp only [selTrace] at h
    split at h
    · rename_i hg
      cases hr : selTraceL rest (b + s) tr.tail with
      | none => simp [hr] at h
      | some t1 =>
        simp only [hr] at h
        split at h
        · rename_i hs
          simp only [Option.some.injEq] at h
          obtain ⟨pre1, e1, s1⟩ := selTraceL_sublist rest (b + s) tr.tail t1 hr
          refine ⟨[⟨.get, b, s⟩] ++ pre1 ++ [⟨.set, b, s⟩], ?_, ?_⟩
          · rw [head?_eq_some hg, e1, head?_eq_some hs, h]; simp
          · simp only [expectedTrace]
            exact ((List.Sublist.refl _).append s1).append (List.Sublist.refl _)
        · simp at h
    · simp only [Option.some.injEq] at h
      subst h
      exact ⟨[], by simp, List.nil_sublist _⟩
  | .fn (.mem s :: rest), b, tr, tr', h => by
    have h' : selTraceL (.mem s :: rest) b tr = some tr' := by simpa [selTrace] using h
    simpa [expectedTrace] using selTraceL_sublist (.mem s :: rest) b tr tr' h'
  | .fn (.delay n :: rest), b, tr, tr', h => by
    have h' : selTraceL (.delay n :: rest) b tr = some tr' := by simpa [selTrace] using h
    simpa [expectedTrace] using selTraceL_sublist (.delay n :: rest) b tr tr' h'
  | .fn (.fn cs :: rest), b, tr, tr', h => by
    have h' : selTraceL (.fn cs :: rest) b tr = some tr' := by simpa [selTrace] using h
    simpa [expectedTrace] using selTraceL_sublist (.fn cs :: rest) b tr tr' h'
theorem selTraceL_sublist : ∀ (cs : List Sk) (b : Nat) (tr tr' : List Access), selTraceL cs b tr = some tr' →
    ∃ pre, tr = pre ++ tr' ∧ pre.Sublist (expectedTraceL cs b)
  | [], b, tr, tr', h => by
    simp only [selTraceL, Option.some.injEq] at h
    subst h
    exact ⟨[], by simp, List.nil_sublist _⟩
  | c :: cs, b, tr, tr', h => by
    simp only [selTraceL] at h
    cases hc : selTrace c b tr with
    | none => simp [hc] at h
    | some t1 =>
      simp only [hc] at h
      obtain ⟨p1, e1, s1⟩ := selTrace_sublist c b tr t1 hc
      obtain ⟨p2, e2, s2⟩ := selTraceL_sublist cs (b + c.size) t1 tr' h
      exact ⟨p1 ++ p2, by rw [e1, e2]; simp, by simp only [expectedTraceL]; exact s1.append s2⟩
end

/-- what the generalised judge accepts is an in-order sub-selection of the expected trace -/
theorem conformsSel_sublist (sk : Sk) (trace : List Access) (cursor : Nat) (h : conformsSel sk trace cursor = true) :
    cursor = 0 ∧ trace.Sublist (expectedTrace sk 0) := by
  simp only [conformsSel, Bool.and_eq_true, decide_eq_true_eq, beq_iff_eq] at h
  obtain ⟨pre, e, hs⟩ := selTrace_sublist sk 0 trace [] h.1.2
  rw [List.append_nil] at e
  subst e
  exact ⟨h.2, hs⟩

/-- the strict judge is the special case in which nothing is skipped -/
theorem conforms_sublist (sk : Sk) (trace : List Access) (cursor : Nat) (h : conforms sk trace cursor = true) :
    cursor = 0 ∧ trace.Sublist (expectedTrace sk 0) := by
  simp only [conforms, Bool.and_eq_true, decide_eq_true_eq, beq_iff_eq] at h
  exact ⟨h.2, by rw [h.1]; exact List.Sublist.refl _⟩

end Mimium.Layout
