import Mimium.Proofs.CstShapeSpec
/-!
# The comma loops and the list nodes of the grammar, once for all of them
-/
namespace Mimium.Grammar
open Mimium.Gen (Kind SK)
open Mimium.Cst (PState Frame Green)
open Mimium.CstPrint (Ctx IsTok IsNode SepTail ItemOk itemRun ListShape ListBody)

variable {E : Env} {c : Ctx} {rec : Tag → St → St}

theorem exec_seq (a b : Cmd) (s : St) : exec E rec (.seq a b) s = exec E rec b (exec E rec a s) := rfl
theorem exec_skip (s : St) : exec E rec .skip s = s := rfl
theorem exec_bump (s : St) : exec E rec .bump s = prim E s .bump := rfl
theorem exec_ite_pos {cnd : Cond} {s : St} (t e : Cmd) (h : evalCond E s cnd = true) :
    exec E rec (.ite cnd t e) s = exec E rec t s := by simp only [exec, h, if_true]
theorem exec_ite_neg {cnd : Cond} {s : St} (t e : Cmd) (h : ¬ evalCond E s cnd = true) :
    exec E rec (.ite cnd t e) s = exec E rec e s := by simp [exec, h]
theorem evalCond_neg (s : St) (cnd : Cond) : evalCond E s (.neg cnd) = !evalCond E s cnd := rfl

theorem Sep.refl (P : List Green → Prop) (s : St) : Sep E c P s s := Or.inl ⟨[], by simp, .nil, fun _ => rfl⟩

/-- `while self.check(Comma) { self.bump(); if !self.check(close) { item }; }` -/
theorem sepLoop_vc (self_ : Tag) (close : Kind) (hclose : close ≠ .Comma) (item : Cmd) (P : List Green → Prop)
    (hself : ∀ s s', Rs E c self_ s s' → Sep E c P s s')
    (hitem : ∀ s, W E c s → Em E c rec (R E c) item s → AppW E P s (exec E rec item s))
    (s : St) (h : Em E c rec (R E c) (sepLoop self_ close item) s) :
    Sep E c P s (exec E rec (sepLoop self_ close item) s) := by
  have hshow : sepLoop self_ close item =
      .ite (.check .Comma) (.seq .bump (.seq (.ite (.neg (.check close)) item .skip) (.call self_))) .skip := rfl
  rw [hshow] at h ⊢
  by_cases hc : evalCond E s (.check .Comma) = true
  · rw [exec_ite_pos _ _ hc, exec_seq, exec_seq]
    simp only [Em] at h
    rw [if_pos hc] at h
    obtain ⟨hb, hW1, hmid, _, hcall⟩ := h
    have hp := (evalCond_check s .Comma).mp hc
    obtain ⟨ti, w, ht, ho⟩ := hb.1 _ hp
    have hk : c.kind ti = .Comma := ho.eq rfl
    by_cases hcl : evalCond E (exec E rec .bump s) (.neg (.check close)) = true
    · rw [exec_ite_pos _ _ hcl] at hcall ⊢
      rw [if_pos hcl] at hmid
      rcases hitem _ hW1 hmid with ⟨wi, e2, hP⟩ | hend
      · rcases hself _ _ hcall.1 with ⟨tail, e1, st, hnc⟩ | he
        · refine Or.inl ⟨.token ti w :: (wi ++ tail), ?_, .cons _ _ _ ⟨ti, w, rfl, hk⟩ hP st, fun hne => absurd hp hne⟩
          rw [e1, e2, exec_bump, ht]; simp
        · exact Or.inr he
      · exact Or.inr (hcall.2 hend)
    · rw [exec_ite_neg _ _ hcl, exec_skip] at hcall ⊢
      rcases hself _ _ hcall.1 with ⟨tail, e1, st, hnc⟩ | he
      · have hpc : peek E (exec E rec .bump s) = some close := by
          apply (evalCond_check _ close).mp
          rw [evalCond_neg] at hcl
          simpa using hcl
        have : tail = [] := hnc (by rw [hpc]; simpa using hclose)
        subst this
        refine Or.inl ⟨[.token ti w], ?_, .trail _ ⟨ti, w, rfl, hk⟩, fun hne => absurd hp hne⟩
        rw [e1, exec_bump, ht]; simp
      · exact Or.inr he
  · rw [exec_ite_neg _ _ hc, exec_skip]
    exact Sep.refl P s

/-- `item; loop` : an item and `(, item)* ,?` -/
theorem itemLoop_mid (item loop : Cmd) (P : List Green → Prop) (hP : ∀ w, P w → ItemOk c w)
    (hitem : ∀ s, W E c s → Em E c rec (R E c) item s → AppW E P s (exec E rec item s))
    (hloop : ∀ s, W E c s → Em E c rec (R E c) loop s → Sep E c P s (exec E rec loop s) ∧ (AtEnd E s → AtEnd E (exec E rec loop s)))
    (s : St) (hW : W E c s) (h : Em E c rec (R E c) (.seq item loop) s) :
    (∃ it tail, topCh (exec E rec (.seq item loop) s) = topCh s ++ (it ++ tail) ∧ ItemOk c it ∧ SepTail c (ItemOk c) tail) ∨
      AtEnd E (exec E rec (.seq item loop) s) := by
  simp only [Em] at h
  obtain ⟨i1, hWi, i2⟩ := h
  rw [exec_seq]
  obtain ⟨hl, hend⟩ := hloop _ hWi i2
  rcases hitem _ hW i1 with ⟨wi, e1, hPi⟩ | hae
  · rcases hl with ⟨tail, e2, st, _⟩ | hle
    · exact Or.inl ⟨wi, tail, by rw [e2, e1, List.append_assoc], hP _ hPi, st.mono hP⟩
    · exact Or.inr hle
  · exact Or.inr (hend hae)

/-- `expect(open); if !check(close) { mid }; expect(close)` inside a fresh node: a list -/
theorem listNode_vc (opn close : Kind) (hopn : CstPrint.isOpenDelim opn = true) (hclose : CstPrint.isCloseDelim close = true)
    (mid : Cmd)
    (hmid : ∀ s, W E c s → Em E c rec (R E c) mid s →
      (∃ it tail, topCh (exec E rec mid s) = topCh s ++ (it ++ tail) ∧ ItemOk c it ∧ SepTail c (ItemOk c) tail) ∨
        AtEnd E (exec E rec mid s))
    (s : St) (hs : topCh s = [])
    (h : Em E c rec (R E c) (seqs [expect opn, unless_ (.check close) mid, expect close]) s) :
    ListShape c (topCh (exec E rec (seqs [expect opn, unless_ (.check close) mid, expect close]) s)) := by
  have hshow : seqs [expect opn, unless_ (.check close) mid, expect close] =
      .seq (expect opn) (.seq (.ite (.neg (.check close)) mid .skip) (expect close)) := rfl
  rw [hshow] at h ⊢
  simp only [Em] at h
  obtain ⟨h1, hW1, h2, _, h3⟩ := h
  obtain ⟨_, x1, ti, w, t1, o1⟩ := em_expect opn s h1
  have hro : relab opn = false := by revert hopn; cases opn <;> simp [CstPrint.isOpenDelim, relab]
  have hrc : relab close = false := by revert hclose; cases close <;> simp [CstPrint.isCloseDelim, relab]
  have k1 : c.kind ti = opn := o1.eq hro
  rw [exec_seq, exec_seq]
  by_cases hcl : evalCond E (exec E rec (expect opn) s) (.neg (.check close)) = true
  · rw [exec_ite_pos _ _ hcl] at h3 ⊢
    rw [if_pos hcl] at h2
    rcases hmid _ hW1 h2 with ⟨wi, tail, e1, hPi, st⟩ | hae
    · obtain ⟨_, x3, ti3, w3, t3, o3⟩ := em_expect close _ h3
      have k3 : c.kind ti3 = close := o3.eq hrc
      rw [x3, t3, e1, x1, t1, hs]
      refine ⟨_, wi ++ tail, _, ti, w, ti3, w3, by simp, rfl, by rw [k1]; exact hopn, rfl, by rw [k3]; exact hclose, ?_⟩
      exact Or.inr ⟨wi, tail, rfl, hPi, st⟩
    · exact (em_expect_atEnd close _ h3 hae).elim
  · rw [exec_ite_neg _ _ hcl, exec_skip] at h3 ⊢
    obtain ⟨_, x3, ti3, w3, t3, o3⟩ := em_expect close _ h3
    have k3 : c.kind ti3 = close := o3.eq hrc
    rw [x3, t3, x1, t1, hs]
    exact ⟨_, [], _, ti, w, ti3, w3, by simp, rfl, by rw [k1]; exact hopn, rfl, by rw [k3]; exact hclose, Or.inl rfl⟩

/-- the same for any item predicate `Q`: opening token, nothing or `item (, item)* ,?`, closing token -/
theorem listNode_vc_gen (opn close : Kind) (hro : relab opn = false) (hrc : relab close = false) (Q : List Green → Prop)
    (mid : Cmd)
    (hmid : ∀ s, W E c s → Em E c rec (R E c) mid s →
      (∃ it tail, topCh (exec E rec mid s) = topCh s ++ (it ++ tail) ∧ Q it ∧ SepTail c Q tail) ∨ AtEnd E (exec E rec mid s))
    (s : St) (hs : topCh s = [])
    (h : Em E c rec (R E c) (seqs [expect opn, unless_ (.check close) mid, expect close]) s) :
    ∃ io wo body ic wc, c.kind io = opn ∧ c.kind ic = close ∧
      topCh (exec E rec (seqs [expect opn, unless_ (.check close) mid, expect close]) s) = .token io wo :: (body ++ [.token ic wc]) ∧
      (body = [] ∨ ∃ it tail, body = it ++ tail ∧ Q it ∧ SepTail c Q tail) := by
  have hshow : seqs [expect opn, unless_ (.check close) mid, expect close] =
      .seq (expect opn) (.seq (.ite (.neg (.check close)) mid .skip) (expect close)) := rfl
  rw [hshow] at h ⊢
  simp only [Em] at h
  obtain ⟨h1, hW1, h2, _, h3⟩ := h
  obtain ⟨_, x1, ti, w, t1, o1⟩ := em_expect opn s h1
  have k1 : c.kind ti = opn := o1.eq hro
  rw [exec_seq, exec_seq]
  by_cases hcl : evalCond E (exec E rec (expect opn) s) (.neg (.check close)) = true
  · rw [exec_ite_pos _ _ hcl] at h3 ⊢
    rw [if_pos hcl] at h2
    rcases hmid _ hW1 h2 with ⟨wi, tail, e1, hPi, st⟩ | hae
    · obtain ⟨_, x3, ti3, w3, t3, o3⟩ := em_expect close _ h3
      refine ⟨ti, w, wi ++ tail, ti3, w3, k1, o3.eq hrc, ?_, Or.inr ⟨wi, tail, rfl, hPi, st⟩⟩
      rw [x3, t3, e1, x1, t1, hs]; simp
    · exact (em_expect_atEnd close _ h3 hae).elim
  · rw [exec_ite_neg _ _ hcl, exec_skip] at h3 ⊢
    obtain ⟨_, x3, ti3, w3, t3, o3⟩ := em_expect close _ h3
    refine ⟨ti, w, [], ti3, w3, k1, o3.eq hrc, ?_, Or.inl rfl⟩
    rw [x3, t3, x1, t1, hs]; simp

end Mimium.Grammar
