import Mimium.Proofs.FfiConv
/-!
Soundness direction of the primitive readers of C20: whatever a reader accepts is the canonical encoding of what it
returns, followed by the unread rest.  The only reader that is not injective is `readKey` (slotmap's `KeyData`
deserializer normalises the version word), so its inversion lemma exposes the raw key that was on the wire.
-/
namespace Mimium.Ffi
open Mimium.Gen.Ffi

theorem readLE_sound {k : Nat} {bs r : Bytes} {n : Nat} (h : readLE k bs = some (n, r)) :
    n < 256 ^ k ∧ bs = leBytes k n ++ r := by
  induction k generalizing bs n r with
  | zero => simp [readLE] at h; obtain ⟨rfl, rfl⟩ := h; simp [leBytes]
  | succ k ih =>
    cases bs with
    | nil => simp [readLE] at h
    | cons b bs =>
      simp only [readLE] at h
      cases h1 : readLE k bs with
      | none => simp [h1] at h
      | some p =>
        obtain ⟨m, r1⟩ := p
        simp only [h1] at h
        simp at h
        obtain ⟨rfl, rfl⟩ := h
        obtain ⟨hm, hbs⟩ := ih h1
        have hb : b.toNat < 256 := by have := b.toNat_lt; omega
        refine ⟨?_, ?_⟩
        · rw [Nat.pow_succ]; omega
        · simp only [leBytes, List.cons_append]
          have e1 : (b.toNat + 256 * m) % 256 = b.toNat := by omega
          have e2 : (b.toNat + 256 * m) / 256 = m := by omega
          rw [e1, e2, ← hbs]
          simp

theorem readU32_sound {bs r : Bytes} {x : UInt32} (h : readU32 bs = some (x, r)) : bs = encU32 x ++ r := by
  unfold readU32 at h
  cases h1 : readLE 4 bs with
  | none => simp [h1] at h
  | some p =>
    obtain ⟨n, r1⟩ := p
    simp only [h1] at h
    simp at h
    obtain ⟨rfl, rfl⟩ := h
    obtain ⟨hn, hbs⟩ := readLE_sound h1
    have : (UInt32.ofNat n).toNat = n := by
      simp [UInt32.toNat_ofNat']; omega
    unfold encU32
    rw [this]; exact hbs

theorem readU64_sound {bs r : Bytes} {x : UInt64} (h : readU64 bs = some (x, r)) : bs = encU64 x ++ r := by
  unfold readU64 at h
  cases h1 : readLE 8 bs with
  | none => simp [h1] at h
  | some p =>
    obtain ⟨n, r1⟩ := p
    simp only [h1] at h
    simp at h
    obtain ⟨rfl, rfl⟩ := h
    obtain ⟨hn, hbs⟩ := readLE_sound h1
    have : (UInt64.ofNat n).toNat = n := by
      simp [UInt64.toNat_ofNat']; omega
    unfold encU64
    rw [this]; exact hbs

theorem readLen_sound {bs r : Bytes} {n : Nat} (h : readLen bs = some (n, r)) : LenOk n ∧ bs = encLen n ++ r := by
  obtain ⟨hn, hbs⟩ := readLE_sound (k := 8) h
  exact ⟨by unfold LenOk; omega, hbs⟩

theorem takeExact_sound {k : Nat} {bs r ys : Bytes} (h : takeExact k bs = some (ys, r)) :
    ys.length = k ∧ bs = ys ++ r := by
  induction k generalizing bs ys r with
  | zero => simp [takeExact] at h; obtain ⟨rfl, rfl⟩ := h; simp
  | succ k ih =>
    cases bs with
    | nil => simp [takeExact] at h
    | cons b bs =>
      simp only [takeExact] at h
      cases h1 : takeExact k bs with
      | none => simp [h1] at h
      | some p =>
        obtain ⟨zs, r1⟩ := p
        simp only [h1] at h
        simp at h
        obtain ⟨rfl, rfl⟩ := h
        obtain ⟨hl, hbs⟩ := ih h1
        simp [hl, hbs]

/-- `String::from_utf8` returns exactly the bytes it was given (no lossy replacement) -/
theorem ofBytes?_sound {raw : Bytes} {s : String} (h : ofBytes? raw = some s) : strBytes s = raw := by
  unfold ofBytes? String.fromUTF8? at h
  split at h
  · simp at h
    subst h
    simp [strBytes, String.toUTF8, String.fromUTF8]
  · simp at h

theorem readStr_sound {bs r : Bytes} {s : String} (h : readStr bs = some (s, r)) :
    LenOk (strBytes s).length ∧ bs = encStr s ++ r := by
  unfold readStr at h
  cases h1 : readLen bs with
  | none => simp [h1] at h
  | some p =>
    obtain ⟨n, r1⟩ := p
    simp only [h1] at h
    cases h2 : takeExact n r1 with
    | none => simp [h2] at h
    | some q =>
      obtain ⟨raw, r2⟩ := q
      simp only [h2] at h
      cases h3 : ofBytes? raw with
      | none => simp [h3] at h
      | some s' =>
        simp only [h3] at h
        simp at h
        obtain ⟨rfl, rfl⟩ := h
        obtain ⟨hn, hbs⟩ := readLen_sound h1
        obtain ⟨hl, hr1⟩ := takeExact_sound h2
        have hs := ofBytes?_sound h3
        unfold encStr
        rw [hs, hl, hbs, hr1, List.append_assoc]
        exact ⟨hn, rfl⟩

/-- the key that comes back is the normal form of the key that was on the wire -/
theorem readKey_sound {bs r : Bytes} {k : Key} (h : readKey bs = some (k, r)) :
    ∃ k0 : Key, k = k0.norm ∧ bs = encKey k0 ++ r := by
  unfold readKey at h
  cases h1 : readU32 bs with
  | none => simp [h1] at h
  | some p =>
    obtain ⟨i, r1⟩ := p
    simp only [h1] at h
    cases h2 : readU32 r1 with
    | none => simp [h2] at h
    | some q =>
      obtain ⟨v, r2⟩ := q
      simp only [h2] at h
      simp at h
      obtain ⟨rfl, rfl⟩ := h
      refine ⟨⟨i, v⟩, rfl, ?_⟩
      unfold encKey
      rw [readU32_sound h1, readU32_sound h2, List.append_assoc]

/-- the derived `Deserialize` selects a variant only for the index the derived `Serialize` writes for it -/
theorem FfiCtor.tag_of_ofTag {t : UInt32} {c : FfiCtor} (h : FfiCtor.ofTag t = some c) : c.tag = t := by
  unfold FfiCtor.ofTag at h
  split at h
  all_goals first
    | (rename_i ht; simp at h; subst h; apply UInt32.toNat_inj.mp; rw [ht]; rfl)
    | (simp at h)

theorem encKey_length (k : Key) : (encKey k).length = 8 := by
  simp [encKey, encU32_length]

end Mimium.Ffi
