import Mimium.Model.Sched
/-!
# Lemmas about the scheduler model (C11)

* the abstract heap (`popMin`): returns a member, a minimum, leaves the rest (as a multiset), fails only on `[]`;
* `pushAll` never reaches its panic branch when every task is later than `cur`;
* the pop loops of both sides execute exactly the due part of the heap and keep exactly the rest;
* the explicit invariants `VmInv` / `WInv` and their preservation by one sample (`Vm.tick_step`, `W.tick_step`);
* the generic induction over samples (`runFrom_spec`).
-/
namespace Mimium.Sched

/-! ## heap -/

theorem minWhen_le : ∀ (h : List Task), ∀ y ∈ h, minWhen h ≤ y.when
  | [], _, hy => by simp at hy
  | [x], y, hy => by simp at hy; subst hy; simp [minWhen]
  | x :: z :: zs, y, hy => by
    simp only [minWhen]
    rcases List.mem_cons.1 hy with rfl | hy
    · exact Nat.min_le_left _ _
    · exact Nat.le_trans (Nat.min_le_right _ _) (minWhen_le (z :: zs) y hy)

theorem minWhen_mem : ∀ (h : List Task), h ≠ [] → ∃ x, x ∈ h ∧ x.when = minWhen h
  | [], hne => absurd rfl hne
  | [x], _ => ⟨x, by simp, by simp [minWhen]⟩
  | x :: z :: zs, _ => by
    obtain ⟨m, hm, hmw⟩ := minWhen_mem (z :: zs) (by simp)
    simp only [minWhen]
    by_cases hx : x.when ≤ minWhen (z :: zs)
    · exact ⟨x, by simp, by rw [Nat.min_eq_left hx]⟩
    · exact ⟨m, List.mem_cons_of_mem _ hm, by rw [Nat.min_eq_right (by omega)]; exact hmw⟩

theorem popMin_some {k : Nat} {h : List Task} {x : Task} {r : List Task} (e : popMin k h = some (x, r)) :
    x ∈ h ∧ (∀ y ∈ h, x.when ≤ y.when) ∧ r = h.erase x := by
  unfold popMin at e
  simp only at e
  split at e
  · rename_i y hy
    simp only [Option.some.injEq, Prod.mk.injEq] at e
    obtain ⟨rfl, rfl⟩ := e
    have hm := List.mem_of_getElem? hy
    rw [List.mem_filter] at hm
    refine ⟨hm.1, ?_, rfl⟩
    have h2 := hm.2
    simp only [beq_iff_eq] at h2
    intro z hz
    rw [h2]
    exact minWhen_le h z hz
  · cases e

theorem popMin_none {k : Nat} {h : List Task} (e : popMin k h = none) : h = [] := by
  apply Classical.byContradiction
  intro hne
  obtain ⟨m, hm, hmw⟩ := minWhen_mem h hne
  have hc : m ∈ h.filter (fun x => x.when == minWhen h) := by
    rw [List.mem_filter]
    exact ⟨hm, by simp [hmw]⟩
  have hlen : 0 < (h.filter (fun x => x.when == minWhen h)).length := List.length_pos_of_mem hc
  unfold popMin at e
  simp only at e
  split at e
  · cases e
  · rename_i hnone
    rw [List.getElem?_eq_none_iff] at hnone
    have := Nat.mod_lt k hlen
    omega

theorem popMin_perm {k : Nat} {h : List Task} {x : Task} {r : List Task} (e : popMin k h = some (x, r)) :
    h.Perm (x :: r) := by
  obtain ⟨hx, _, rfl⟩ := popMin_some e
  exact List.perm_cons_erase hx

theorem popMin_length {k : Nat} {h : List Task} {x : Task} {r : List Task} (e : popMin k h = some (x, r)) :
    r.length + 1 = h.length := by
  have := (popMin_perm e).length_eq
  simp at this
  omega

/-! ## pushAll -/

theorem pushAll_future (cur : Nat) : ∀ (xs h : List Task), (∀ x ∈ xs, cur < x.when) →
    pushAll cur xs h = some (xs.reverse ++ h)
  | [], h, _ => by simp [pushAll]
  | x :: xs, h, hx => by
    have h1 : ¬ x.when ≤ cur := by
      have := hx x (by simp)
      omega
    have h2 : ∀ y ∈ xs, cur < y.when := fun y hy => hx y (List.mem_cons_of_mem _ hy)
    simp [pushAll, h1, pushAll_future cur xs (x :: h) h2]

theorem pushAll_some {cur : Nat} : ∀ {xs h h' : List Task}, pushAll cur xs h = some h' →
    (∀ x ∈ xs, cur < x.when) ∧ h' = xs.reverse ++ h
  | [], h, h', e => by simp [pushAll] at e; simp [e]
  | x :: xs, h, h', e => by
    unfold pushAll at e
    split at e
    · cases e
    · rename_i hx
      obtain ⟨h1, h2⟩ := pushAll_some e
      refine ⟨?_, by simp [h2]⟩
      intro y hy
      rcases List.mem_cons.1 hy with rfl | hy
      · omega
      · exact h1 y hy

/-! ## premise -/

/-- Reading of "scheduled at times later than the current sample": every call satisfies `trunc when > now_at_call`
(`now` is 0 in global scope, the running sample inside a task body or `dsp`). -/
structure Env.Future {σ : Type} (env : Env σ) : Prop where
  global : ∀ s, ∀ x ∈ (env.global s).2, 0 < x.when
  task : ∀ id now s, ∀ x ∈ (env.task id now s).2, now < x.when
  dsp : ∀ now s, ∀ x ∈ (env.dsp now s).2, now < x.when

theorem execSeq_future {σ : Type} {env : Env σ} (hf : env.Future) (now : Nat) :
    ∀ (xs : List Task) (u : σ), ∀ x ∈ (execSeq env now xs u).2, now < x.when
  | [], u => by simp [execSeq]
  | y :: ys, u => by
    intro x hx
    simp only [execSeq, List.mem_append] at hx
    rcases hx with hx | hx
    · exact hf.task _ _ _ x hx
    · exact execSeq_future hf now ys _ x hx

/-! ## filters -/

theorem filter_due_of_min {h : List Task} {x : Task} {now : Nat} (hmin : ∀ y ∈ h, x.when ≤ y.when)
    (hx : ¬ x.when ≤ now) :
    h.filter (fun y => decide (y.when ≤ now)) = [] ∧ h.filter (fun y => decide (now < y.when)) = h := by
  constructor
  · rw [List.filter_eq_nil_iff]
    intro y hy
    have := hmin y hy
    simp only [decide_eq_true_eq]
    omega
  · rw [List.filter_eq_self]
    intro y hy
    have := hmin y hy
    simp only [decide_eq_true_eq]
    omega

theorem filter_ge_le (l : List Task) (t : Nat) :
    (l.filter (fun x => decide (t ≤ x.when))).filter (fun x => decide (x.when ≤ t))
      = l.filter (fun x => decide (x.when = t)) := by
  rw [List.filter_filter]
  congr 1
  funext x
  by_cases h : x.when = t <;> simp [h]
  omega

theorem filter_ge_lt (l : List Task) (t : Nat) :
    (l.filter (fun x => decide (t ≤ x.when))).filter (fun x => decide (t < x.when))
      = l.filter (fun x => decide (t + 1 ≤ x.when)) := by
  rw [List.filter_filter]
  congr 1
  funext x
  by_cases h : t + 1 ≤ x.when <;> simp [h]
  · omega
  · omega

theorem filter_future_self {l : List Task} {t : Nat} (h : ∀ x ∈ l, t < x.when) :
    l.filter (fun x => decide (t + 1 ≤ x.when)) = l := by
  rw [List.filter_eq_self]
  intro x hx
  have := h x hx
  simp only [decide_eq_true_eq]
  omega

/-! ## the pop loops -/

theorem Vm.popLoop_spec {σ : Type} (env : Env σ) (ch : Nat → Nat) (now : Nat) :
    ∀ (n : Nat) (st : VmSt σ), st.heap.length ≤ n →
      (Vm.popLoop env ch now n st).2.Perm (st.heap.filter (fun x => decide (x.when ≤ now))) ∧
      (Vm.popLoop env ch now n st).1.heap.Perm (st.heap.filter (fun x => decide (now < x.when))) ∧
      (Vm.popLoop env ch now n st).1.chan = st.chan ++ (execSeq env now (Vm.popLoop env ch now n st).2 st.user).2 ∧
      (Vm.popLoop env ch now n st).1.user = (execSeq env now (Vm.popLoop env ch now n st).2 st.user).1 ∧
      (Vm.popLoop env ch now n st).1.curTime = st.curTime := by
  intro n
  induction n with
  | zero =>
    intro st hl
    have : st.heap = [] := List.length_eq_zero_iff.1 (by omega)
    simp [Vm.popLoop, this, execSeq]
  | succ n ih =>
    intro st hl
    unfold Vm.popLoop
    split
    · rename_i e
      have : st.heap = [] := popMin_none e
      simp [this, execSeq]
    · rename_i x r e
      obtain ⟨hx, hmin, _⟩ := popMin_some e
      have hperm := popMin_perm e
      have hlen := popMin_length e
      by_cases hdue : x.when ≤ now
      · simp only [hdue, if_true]
        have ih' := ih { st with heap := r, pops := st.pops + 1,
                                  chan := st.chan ++ (env.task x.id now st.user).2,
                                  user := (env.task x.id now st.user).1 } (by simp; omega)
        obtain ⟨i1, i2, i3, i4, i5⟩ := ih'
        simp only at i1 i2 i3 i4 i5
        refine ⟨?_, ?_, ?_, ?_, ?_⟩
        · have h1 := hperm.filter (fun x => decide (x.when ≤ now))
          have h2 : (x :: r).filter (fun x => decide (x.when ≤ now))
              = x :: r.filter (fun x => decide (x.when ≤ now)) := by simp [hdue]
          rw [h2] at h1
          exact (List.Perm.cons x i1).trans h1.symm
        · have h1 := hperm.filter (fun x => decide (now < x.when))
          have h2 : (x :: r).filter (fun x => decide (now < x.when))
              = r.filter (fun x => decide (now < x.when)) := by
            have : ¬ now < x.when := by omega
            simp [this]
          rw [h2] at h1
          exact i2.trans h1.symm
        · rw [i3]; simp [execSeq, List.append_assoc]
        · rw [i4]; simp [execSeq]
        · exact i5
      · simp only [hdue, if_false]
        obtain ⟨f1, f2⟩ := filter_due_of_min (now := now) hmin hdue
        simp [f1, f2, execSeq]

theorem W.drainDue_spec (ch : Nat → Nat) (now : Nat) :
    ∀ (n : Nat) (h : List Task) (p : Nat), h.length ≤ n →
      (W.drainDue ch now n h p).1.Perm (h.filter (fun x => decide (x.when ≤ now))) ∧
      (W.drainDue ch now n h p).2.1.Perm (h.filter (fun x => decide (now < x.when))) := by
  intro n
  induction n with
  | zero =>
    intro h p hl
    have : h = [] := List.length_eq_zero_iff.1 (by omega)
    simp [W.drainDue, this]
  | succ n ih =>
    intro h p hl
    unfold W.drainDue
    split
    · rename_i e
      have : h = [] := popMin_none e
      simp [this]
    · rename_i x r e
      obtain ⟨hx, hmin, _⟩ := popMin_some e
      have hperm := popMin_perm e
      have hlen := popMin_length e
      by_cases hdue : x.when ≤ now
      · simp only [hdue, if_true]
        obtain ⟨i1, i2⟩ := ih r (p + 1) (by omega)
        refine ⟨?_, ?_⟩
        · have h1 := hperm.filter (fun x => decide (x.when ≤ now))
          have h2 : (x :: r).filter (fun x => decide (x.when ≤ now))
              = x :: r.filter (fun x => decide (x.when ≤ now)) := by simp [hdue]
          rw [h2] at h1
          exact (List.Perm.cons x i1).trans h1.symm
        · have h1 := hperm.filter (fun x => decide (now < x.when))
          have h2 : (x :: r).filter (fun x => decide (now < x.when))
              = r.filter (fun x => decide (now < x.when)) := by
            have : ¬ now < x.when := by omega
            simp [this]
          rw [h2] at h1
          exact i2.trans h1.symm
      · simp only [hdue, if_false]
        obtain ⟨f1, f2⟩ := filter_due_of_min (now := now) hmin hdue
        simp [f1, f2]

theorem W.execAll_spec {σ : Type} {env : Env σ} (hf : env.Future) (now : Nat) :
    ∀ (xs h : List Task) (u : σ), ∃ h',
      W.execAll env now xs h u = some (h', (execSeq env now xs u).1, (execSeq env now xs u).2) ∧
      h'.Perm (h ++ (execSeq env now xs u).2)
  | [], h, u => ⟨h, by simp [W.execAll, execSeq]⟩
  | x :: xs, h, u => by
    have hp := pushAll_future now (env.task x.id now u).2 h (hf.task _ _ _)
    obtain ⟨h', e, hperm⟩ := W.execAll_spec hf now xs ((env.task x.id now u).2.reverse ++ h) (env.task x.id now u).1
    refine ⟨h', ?_, ?_⟩
    · simp [W.execAll, hp, e, execSeq]
    · refine hperm.trans ?_
      simp only [execSeq, ← List.append_assoc]
      refine List.Perm.append_right _ ?_
      exact (List.perm_append_comm).trans (List.Perm.append_left _ (List.reverse_perm _))

/-! ## invariants and one sample -/

/-- What one sample must do (shared by both sides): executed = exactly the pending requests for `t`;
the calls it issued are the ones of those bodies, in order, followed by the ones of `dsp`, which therefore ran on the
user state left by the tasks (`u'` is the state after `dsp`). -/
structure StepOk {σ : Type} (env : Env σ) (t : Nat) (issued : List Task) (u : σ) (r : TickRec) (u' : σ) : Prop where
  onTime : r.execd.Perm (issued.filter (fun x => decide (x.when = t)))
  reqs : r.reqs = (execSeq env t r.execd u).2 ++ (env.dsp t (execSeq env t r.execd u).1).2
  user : u' = (env.dsp t (execSeq env t r.execd u).1).1

theorem StepOk.future {σ : Type} {env : Env σ} {t : Nat} {issued : List Task} {u u' : σ} {r : TickRec}
    (hf : env.Future) (s : StepOk env t issued u r u') : ∀ x ∈ r.reqs, t < x.when := by
  intro x hx
  rw [s.reqs, List.mem_append] at hx
  rcases hx with hx | hx
  · exact execSeq_future hf t _ _ x hx
  · exact hf.dsp _ _ x hx

/-- **Invariant of the VM side** at the start of sample `t`, `issued` = every call made so far:
`cur_time` is the previous sample; everything in the channel is later than `cur_time`;
heap ∪ channel = the issued tasks not yet due (`t ≤ when`) — nothing pending is overdue, nothing issued is lost. -/
structure VmInv {σ : Type} (t : Nat) (issued : List Task) (st : VmSt σ) : Prop where
  cur : st.curTime = t - 1
  chanFuture : ∀ x ∈ st.chan, st.curTime < x.when
  pending : (st.heap ++ st.chan).Perm (issued.filter (fun x => decide (t ≤ x.when)))

/-- **Invariant of the WASM side** at the start of sample `t`. -/
structure WInv {σ : Type} (t : Nat) (issued : List Task) (st : WSt σ) : Prop where
  cur : st.currentTime = t - 1
  pending : st.heap.Perm (issued.filter (fun x => decide (t ≤ x.when)))

theorem Vm.tick_step {σ : Type} {env : Env σ} (hf : env.Future) (ch : Nat → Nat) (t : Nat) (issued : List Task)
    (st : VmSt σ) (inv : VmInv t issued st) :
    ∃ st' r, Vm.tick env ch t st = some (st', r) ∧ StepOk env t issued st.user r st'.user ∧
      VmInv (t + 1) (issued ++ r.reqs) st' := by
  have hd := pushAll_future st.curTime st.chan st.heap inv.chanFuture
  have hh : (st.chan.reverse ++ st.heap).Perm (issued.filter (fun x => decide (t ≤ x.when))) :=
    ((List.perm_append_comm).trans (List.Perm.append_left _ (List.reverse_perm _))).trans inv.pending
  have spec := Vm.popLoop_spec env ch t (st.chan.reverse ++ st.heap).length
    { st with heap := st.chan.reverse ++ st.heap, chan := [], curTime := t } (Nat.le_refl _)
  have etick : Vm.tick env ch t st = some
      ({ (Vm.popLoop env ch t (st.chan.reverse ++ st.heap).length
            { st with heap := st.chan.reverse ++ st.heap, chan := [], curTime := t }).1 with
          chan := (Vm.popLoop env ch t (st.chan.reverse ++ st.heap).length
            { st with heap := st.chan.reverse ++ st.heap, chan := [], curTime := t }).1.chan ++
              (env.dsp t (Vm.popLoop env ch t (st.chan.reverse ++ st.heap).length
                { st with heap := st.chan.reverse ++ st.heap, chan := [], curTime := t }).1.user).2,
          user := (env.dsp t (Vm.popLoop env ch t (st.chan.reverse ++ st.heap).length
                { st with heap := st.chan.reverse ++ st.heap, chan := [], curTime := t }).1.user).1 },
       { execd := (Vm.popLoop env ch t (st.chan.reverse ++ st.heap).length
            { st with heap := st.chan.reverse ++ st.heap, chan := [], curTime := t }).2,
         reqs := (Vm.popLoop env ch t (st.chan.reverse ++ st.heap).length
            { st with heap := st.chan.reverse ++ st.heap, chan := [], curTime := t }).1.chan ++
              (env.dsp t (Vm.popLoop env ch t (st.chan.reverse ++ st.heap).length
                { st with heap := st.chan.reverse ++ st.heap, chan := [], curTime := t }).1.user).2 }) := by
    simp only [Vm.tick, hd]
  generalize Vm.popLoop env ch t (st.chan.reverse ++ st.heap).length
    { st with heap := st.chan.reverse ++ st.heap, chan := [], curTime := t } = res at spec etick
  obtain ⟨p1, p2, p3, p4, p5⟩ := spec
  simp only [List.nil_append] at p1 p2 p3 p4 p5
  have ok : StepOk env t issued st.user
      { execd := res.2, reqs := res.1.chan ++ (env.dsp t res.1.user).2 } (env.dsp t res.1.user).1 := by
    refine ⟨?_, ?_, ?_⟩
    · refine p1.trans ?_
      rw [← filter_ge_le]
      exact hh.filter _
    · simp only [p3, p4]
    · simp only [p4]
  have hfut : ∀ x ∈ res.1.chan ++ (env.dsp t res.1.user).2, t < x.when := ok.future hf
  refine ⟨_, _, etick, ok, ?_⟩
  refine ⟨by simp [p5], ?_, ?_⟩
  · intro x hx
    simp only [p5]
    exact hfut x hx
  · simp only [List.filter_append]
    rw [← List.filter_append, filter_future_self hfut]
    refine List.Perm.append_right _ ?_
    refine p2.trans ?_
    rw [← filter_ge_lt]
    exact hh.filter _

theorem W.tick_step {σ : Type} {env : Env σ} (hf : env.Future) (ch : Nat → Nat) (t : Nat) (issued : List Task)
    (st : WSt σ) (inv : WInv t issued st) :
    ∃ st' r, W.tick env ch t st = some (st', r) ∧ StepOk env t issued st.user r st'.user ∧
      WInv (t + 1) (issued ++ r.reqs) st' := by
  have spec := W.drainDue_spec ch t st.heap.length st.heap st.pops (Nat.le_refl _)
  have etick : ∀ h' rq u, W.execAll env t (W.drainDue ch t st.heap.length st.heap st.pops).1
        (W.drainDue ch t st.heap.length st.heap st.pops).2.1 st.user = some (h', u, rq) →
      ∀ h'', pushAll t (env.dsp t u).2 h' = some h'' →
      W.tick env ch t st = some
        ({ currentTime := t, heap := h'', pops := (W.drainDue ch t st.heap.length st.heap st.pops).2.2,
           user := (env.dsp t u).1 },
         { execd := (W.drainDue ch t st.heap.length st.heap st.pops).1, reqs := rq ++ (env.dsp t u).2 }) := by
    intro h' rq u e h'' e2
    simp only [W.tick, e, e2]
  generalize W.drainDue ch t st.heap.length st.heap st.pops = d at spec etick
  obtain ⟨d1, d2⟩ := spec
  obtain ⟨h', e, hperm⟩ := W.execAll_spec hf t d.1 d.2.1 st.user
  have hp := pushAll_future t (env.dsp t (execSeq env t d.1 st.user).1).2 h' (hf.dsp _ _)
  have ok : StepOk env t issued st.user
      { execd := d.1, reqs := (execSeq env t d.1 st.user).2 ++ (env.dsp t (execSeq env t d.1 st.user).1).2 }
      (env.dsp t (execSeq env t d.1 st.user).1).1 := by
    refine ⟨?_, rfl, rfl⟩
    refine d1.trans ?_
    rw [← filter_ge_le]
    exact inv.pending.filter _
  have hfut : ∀ x ∈ (execSeq env t d.1 st.user).2 ++ (env.dsp t (execSeq env t d.1 st.user).1).2, t < x.when :=
    ok.future hf
  refine ⟨_, _, etick _ _ _ e _ hp, ok, ?_⟩
  refine ⟨by simp, ?_⟩
  simp only [List.filter_append]
  rw [← List.filter_append, filter_future_self hfut]
  -- heap' = reverse(dsp reqs) ++ h',  h' ~ remaining ++ task reqs
  refine ((List.perm_append_comm).trans ?_)
  refine (List.Perm.append_right _ hperm).trans ?_
  rw [List.append_assoc]
  refine List.Perm.append ?_ (List.Perm.append_left _ (List.reverse_perm _))
  refine d2.trans ?_
  rw [← filter_ge_lt]
  exact inv.pending.filter _

/-! ## all samples -/

/-- The run `rs` of samples `t, t+1, …` from user state `u`, with `issued` scheduled before, is what an ideal scheduler
would do: every sample satisfies `StepOk`. -/
def Ideal {σ : Type} (env : Env σ) : Nat → List Task → σ → List TickRec → Prop
  | _, _, _, [] => True
  | t, issued, u, r :: rs =>
    StepOk env t issued u r (env.dsp t (execSeq env t r.execd u).1).1 ∧
      Ideal env (t + 1) (issued ++ r.reqs) (env.dsp t (execSeq env t r.execd u).1).1 rs

theorem runFrom_spec {S σ : Type} {env : Env σ} {tick : Nat → S → Option (S × TickRec)} {user : S → σ}
    {Inv : Nat → List Task → S → Prop}
    (step : ∀ t issued st, Inv t issued st → ∃ st' r, tick t st = some (st', r) ∧
      StepOk env t issued (user st) r (user st') ∧ Inv (t + 1) (issued ++ r.reqs) st') :
    ∀ (n t : Nat) (issued : List Task) (st : S), Inv t issued st →
      ∃ st', (runFrom tick n t st).2 = some st' ∧ (runFrom tick n t st).1.length = n ∧
        Ideal env t issued (user st) (runFrom tick n t st).1 ∧
        Inv (t + n) (issued ++ (runFrom tick n t st).1.flatMap (·.reqs)) st' := by
  intro n
  induction n with
  | zero =>
    intro t issued st inv
    exact ⟨st, by simp [runFrom, Ideal, inv]⟩
  | succ n ih =>
    intro t issued st inv
    obtain ⟨st1, r, e, ok, inv1⟩ := step t issued st inv
    obtain ⟨st2, e2, l2, id2, inv2⟩ := ih (t + 1) (issued ++ r.reqs) st1 inv1
    refine ⟨st2, ?_, ?_, ?_, ?_⟩
    · simp [runFrom, e, e2]
    · simp [runFrom, e, l2]
    · simp only [runFrom, e, Ideal]
      have hu := ok.user
      rw [← hu]
      exact ⟨ok, id2⟩
    · simp only [runFrom, e, List.flatMap_cons]
      rw [← List.append_assoc, show t + (n + 1) = t + 1 + n by omega]
      exact inv2

/-- Indexed reading of `Ideal`: sample `t+i` executed exactly the requests issued before it whose time is `t+i`. -/
theorem Ideal.onTime {σ : Type} {env : Env σ} : ∀ {rs : List TickRec} {t : Nat} {issued : List Task} {u : σ},
    Ideal env t issued u rs → ∀ (i : Nat) (hi : i < rs.length),
      rs[i].execd.Perm ((issued ++ (rs.take i).flatMap (·.reqs)).filter (fun x => decide (x.when = t + i)))
  | [], _, _, _, _, i, hi => by simp at hi
  | r :: rs, t, issued, u, h, i, hi => by
    obtain ⟨ok, rest⟩ := h
    cases i with
    | zero => simpa using ok.onTime
    | succ i =>
      have := Ideal.onTime rest i (by simpa using hi)
      simp only [List.getElem_cons_succ, List.take_succ_cons, List.flatMap_cons]
      rw [← List.append_assoc, show t + (i + 1) = t + 1 + i by omega]
      exact this

end Mimium.Sched
