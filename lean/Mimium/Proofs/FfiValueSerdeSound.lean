import Mimium.Proofs.FfiSoundPrim
import Mimium.Proofs.FfiValueSerde
/-!
Soundness of the direct `Value` decoder (C20): whatever `decodeVal` accepts — at any fuel — is the serializer's output
for a representable value `w` that the serializer does not refuse, followed by the unread rest; the value returned is
`w.normKeys`.  Extension stability, truncation and fuel irrelevance on every input follow.
-/
namespace Mimium.Ffi
open Mimium.Gen.Ffi

/-- the hand-written `Deserialize for Value` selects a variant only for the index `Serialize for Value` writes for it -/
theorem ValCtor.serTag_of_ofTag {t : UInt32} {c : ValCtor} (h : ValCtor.ofTag t = some c) : c.serTag = some t := by
  unfold ValCtor.ofTag at h
  split at h
  all_goals first
    | (rename_i ht; simp at h; subst h; simp only [ValCtor.serTag, Option.some.injEq]
       apply UInt32.toNat_inj.mp; rw [ht]; rfl)
    | (simp at h)

theorem valTag_of_ofTag {t : UInt32} {c : ValCtor} (h : ValCtor.ofTag t = some c) : valTag c = encU32 t := by
  simp [valTag, ValCtor.serTag_of_ofTag h]

theorem decodeVal_sound_all (f : Nat) :
    (∀ bs v r, decodeVal f bs = some (v, r) →
      ∃ w : RawValue, w.directOk = true ∧ w.RepV ∧ bs = encodeValRaw w ++ r ∧ v = w.normKeys) ∧
    (∀ n bs vs r, decodeValList f n bs = some (vs, r) →
      ∃ ws, ws.length = n ∧ directOkList ws = true ∧ RepVList ws ∧ bs = encodeValList ws ++ r ∧ vs = normKeysList ws) ∧
    (∀ n bs fs r, decodeValFields f n bs = some (fs, r) →
      ∃ ws, ws.length = n ∧ directOkFields ws = true ∧ RepVFields ws ∧ bs = encodeValFields ws ++ r ∧
        fs = normKeysFields ws) := by
  induction f with
  | zero =>
    refine ⟨?_, ?_, ?_⟩
    · intro bs v r h; simp [decodeVal] at h
    · intro n bs vs r h
      cases n with
      | zero =>
        simp [decodeValList] at h; obtain ⟨rfl, rfl⟩ := h
        exact ⟨[], rfl, rfl, trivial, by simp [encodeValList], by simp [normKeysList]⟩
      | succ n => simp [decodeValList] at h
    · intro n bs fs r h
      cases n with
      | zero =>
        simp [decodeValFields] at h; obtain ⟨rfl, rfl⟩ := h
        exact ⟨[], rfl, rfl, trivial, by simp [encodeValFields], by simp [normKeysFields]⟩
      | succ n => simp [decodeValFields] at h
  | succ f ih =>
    obtain ⟨ihd, ihl, ihf⟩ := ih
    refine ⟨?_, ?_, ?_⟩
    · intro bs v r h
      unfold decodeVal at h
      cases h1 : readU32 bs with
      | none => simp [h1] at h
      | some p =>
        obtain ⟨t, r1⟩ := p
        simp only [h1] at h
        have e1 := readU32_sound h1
        cases h2 : ValCtor.ofTag t with
        | none => simp [h2] at h
        | some c =>
          simp only [h2] at h
          have et := valTag_of_ofTag h2
          have hs := ValCtor.serTag_of_ofTag h2
          cases c with
          | ErrorV =>
            simp only at h
            cases h3 : readKey r1 with
            | none => simp [h3] at h
            | some q =>
              obtain ⟨k, r2⟩ := q
              simp [h3] at h; obtain ⟨rfl, rfl⟩ := h
              obtain ⟨k0, rfl, e2⟩ := readKey_sound h3
              refine ⟨.errorV k0, by simp [Value.directOk, Value.ctor, hs], trivial, ?_, by simp [Value.normKeys]⟩
              rw [e1, e2]; simp [encodeValRaw, et]
          | Unit =>
            simp at h; obtain ⟨rfl, rfl⟩ := h
            refine ⟨.unit, by simp [Value.directOk, Value.ctor, hs], trivial, ?_, by simp [Value.normKeys]⟩
            rw [e1]; simp [encodeValRaw, et]
          | Number =>
            simp only at h
            cases h3 : readU64 r1 with
            | none => simp [h3] at h
            | some q =>
              obtain ⟨b, r2⟩ := q
              simp [h3] at h; obtain ⟨rfl, rfl⟩ := h
              refine ⟨.number b, by simp [Value.directOk, Value.ctor, hs], trivial, ?_, by simp [Value.normKeys]⟩
              rw [e1, readU64_sound h3]; simp [encodeValRaw, et]
          | String =>
            simp only at h
            cases h3 : readU64 r1 with
            | none => simp [h3] at h
            | some q =>
              obtain ⟨b, r2⟩ := q
              simp [h3] at h; obtain ⟨rfl, rfl⟩ := h
              refine ⟨.string b, by simp [Value.directOk, Value.ctor, hs], trivial, ?_, by simp [Value.normKeys]⟩
              rw [e1, readU64_sound h3]; simp [encodeValRaw, et]
          | Array =>
            simp only at h
            cases h3 : readLen r1 with
            | none => simp [h3] at h
            | some q =>
              obtain ⟨n, r2⟩ := q
              simp only [h3] at h
              cases h4 : decodeValList f n r2 with
              | none => simp [h4] at h
              | some q2 =>
                obtain ⟨vs, r3⟩ := q2
                simp only [h4] at h
                simp at h; obtain ⟨rfl, rfl⟩ := h
                obtain ⟨hn, e2⟩ := readLen_sound h3
                obtain ⟨ws, hl, hok, hrep, e3, rfl⟩ := ihl _ _ _ _ h4
                subst hl
                refine ⟨.array ws, by simpa [Value.directOk] using hok, ⟨hn, hrep⟩, ?_, by simp [Value.normKeys]⟩
                rw [e1, e2, e3]; simp [encodeValRaw, et]
          | Record =>
            simp only at h
            cases h3 : readLen r1 with
            | none => simp [h3] at h
            | some q =>
              obtain ⟨n, r2⟩ := q
              simp only [h3] at h
              cases h4 : decodeValFields f n r2 with
              | none => simp [h4] at h
              | some q2 =>
                obtain ⟨vs, r3⟩ := q2
                simp only [h4] at h
                simp at h; obtain ⟨rfl, rfl⟩ := h
                obtain ⟨hn, e2⟩ := readLen_sound h3
                obtain ⟨ws, hl, hok, hrep, e3, rfl⟩ := ihf _ _ _ _ h4
                subst hl
                refine ⟨.record ws, by simpa [Value.directOk] using hok, ⟨hn, hrep⟩, ?_, by simp [Value.normKeys]⟩
                rw [e1, e2, e3]; simp [encodeValRaw, et]
          | Tuple =>
            simp only at h
            cases h3 : readLen r1 with
            | none => simp [h3] at h
            | some q =>
              obtain ⟨n, r2⟩ := q
              simp only [h3] at h
              cases h4 : decodeValList f n r2 with
              | none => simp [h4] at h
              | some q2 =>
                obtain ⟨vs, r3⟩ := q2
                simp only [h4] at h
                simp at h; obtain ⟨rfl, rfl⟩ := h
                obtain ⟨hn, e2⟩ := readLen_sound h3
                obtain ⟨ws, hl, hok, hrep, e3, rfl⟩ := ihl _ _ _ _ h4
                subst hl
                refine ⟨.tuple ws, by simpa [Value.directOk] using hok, ⟨hn, hrep⟩, ?_, by simp [Value.normKeys]⟩
                rw [e1, e2, e3]; simp [encodeValRaw, et]
          | Fixpoint =>
            simp only at h
            cases h3 : readU64 r1 with
            | none => simp [h3] at h
            | some q =>
              obtain ⟨s, r2⟩ := q
              simp only [h3] at h
              cases h4 : readKey r2 with
              | none => simp [h4] at h
              | some q2 =>
                obtain ⟨k, r3⟩ := q2
                simp [h4] at h; obtain ⟨rfl, rfl⟩ := h
                obtain ⟨k0, rfl, e3⟩ := readKey_sound h4
                refine ⟨.fixpoint s k0, by simp [Value.directOk, Value.ctor, hs], trivial, ?_, by simp [Value.normKeys]⟩
                rw [e1, readU64_sound h3, e3]; simp [encodeValRaw, et]
          | Code =>
            simp only at h
            cases h3 : readKey r1 with
            | none => simp [h3] at h
            | some q =>
              obtain ⟨k, r2⟩ := q
              simp [h3] at h; obtain ⟨rfl, rfl⟩ := h
              obtain ⟨k0, rfl, e2⟩ := readKey_sound h3
              refine ⟨.code k0, by simp [Value.directOk, Value.ctor, hs], trivial, ?_, by simp [Value.normKeys]⟩
              rw [e1, e2]; simp [encodeValRaw, et]
          | TaggedUnion =>
            simp only at h
            cases h3 : readU64 r1 with
            | none => simp [h3] at h
            | some q =>
              obtain ⟨b, r2⟩ := q
              simp only [h3] at h
              cases h4 : decodeVal f r2 with
              | none => simp [h4] at h
              | some q2 =>
                obtain ⟨x, r3⟩ := q2
                simp only [h4] at h
                simp at h; obtain ⟨rfl, rfl⟩ := h
                obtain ⟨w, hok, hrep, e3, rfl⟩ := ihd _ _ _ h4
                refine ⟨.taggedUnion b w, by simpa [Value.directOk] using hok, hrep, ?_, by simp [Value.normKeys]⟩
                rw [e1, readU64_sound h3, e3]; simp [encodeValRaw, et]
          | ConstructorFn =>
            simp only at h
            cases h3 : readU64 r1 with
            | none => simp [h3] at h
            | some q =>
              obtain ⟨tg, r2⟩ := q
              simp only [h3] at h
              cases h4 : readU64 r2 with
              | none => simp [h4] at h
              | some q2 =>
                obtain ⟨s, r3⟩ := q2
                simp only [h4] at h
                cases h5 : readKey r3 with
                | none => simp [h5] at h
                | some q3 =>
                  obtain ⟨k, r4⟩ := q3
                  simp [h5] at h; obtain ⟨rfl, rfl⟩ := h
                  obtain ⟨k0, rfl, e4⟩ := readKey_sound h5
                  refine ⟨.constructorFn tg s k0, by simp [Value.directOk, Value.ctor, hs], trivial, ?_,
                    by simp [Value.normKeys]⟩
                  rw [e1, readU64_sound h3, readU64_sound h4, e4]; simp [encodeValRaw, et]
          | Closure => simp at h
          | ExternalFn => simp at h
          | Store => simp at h
    · intro n bs vs r h
      cases n with
      | zero =>
        simp [decodeValList] at h; obtain ⟨rfl, rfl⟩ := h
        exact ⟨[], rfl, rfl, trivial, by simp [encodeValList], by simp [normKeysList]⟩
      | succ n =>
        simp only [decodeValList] at h
        cases h1 : decodeVal f bs with
        | none => simp [h1] at h
        | some p =>
          obtain ⟨v, r1⟩ := p
          simp only [h1] at h
          cases h2 : decodeValList f n r1 with
          | none => simp [h2] at h
          | some q =>
            obtain ⟨xs, r2⟩ := q
            simp only [h2] at h
            simp at h; obtain ⟨rfl, rfl⟩ := h
            obtain ⟨w, hok, hw, e1, rfl⟩ := ihd _ _ _ h1
            obtain ⟨ws, hl, hoks, hws, e2, rfl⟩ := ihl _ _ _ _ h2
            refine ⟨w :: ws, by simp [hl], by simp [directOkList, hok, hoks], ⟨hw, hws⟩, ?_, by simp [normKeysList]⟩
            rw [e1, e2]; simp [encodeValList]
    · intro n bs fs r h
      cases n with
      | zero =>
        simp [decodeValFields] at h; obtain ⟨rfl, rfl⟩ := h
        exact ⟨[], rfl, rfl, trivial, by simp [encodeValFields], by simp [normKeysFields]⟩
      | succ n =>
        simp only [decodeValFields] at h
        cases h0 : readU64 bs with
        | none => simp [h0] at h
        | some p0 =>
          obtain ⟨k, r0⟩ := p0
          simp only [h0] at h
          cases h1 : decodeVal f r0 with
          | none => simp [h1] at h
          | some p =>
            obtain ⟨v, r1⟩ := p
            simp only [h1] at h
            cases h2 : decodeValFields f n r1 with
            | none => simp [h2] at h
            | some q =>
              obtain ⟨xs, r2⟩ := q
              simp only [h2] at h
              simp at h; obtain ⟨rfl, rfl⟩ := h
              obtain ⟨w, hok, hw, e1, rfl⟩ := ihd _ _ _ h1
              obtain ⟨ws, hl, hoks, hws, e2, rfl⟩ := ihf _ _ _ _ h2
              refine ⟨(k, w) :: ws, by simp [hl], by simp [directOkFields, hok, hoks], ⟨hw, hws⟩, ?_,
                by simp [normKeysFields]⟩
              rw [readU64_sound h0, e1, e2]; simp [encodeValFields]

theorem decodeVal_sound {f : Nat} {bs r : Bytes} {v : RawValue} (h : decodeVal f bs = some (v, r)) :
    ∃ w : RawValue, w.directOk = true ∧ w.RepV ∧ bs = encodeValRaw w ++ r ∧ v = w.normKeys :=
  (decodeVal_sound_all f).1 bs v r h

/-! ### `normKeys` is a projection that keeps representability and serialisability -/

mutual
theorem Value.normKeys_normKeys {σ} (v : Value σ) : v.normKeys.normKeys = v.normKeys := by
  cases v with
  | array vs => simp [Value.normKeys, normKeysList_normKeysList vs]
  | tuple vs => simp [Value.normKeys, normKeysList_normKeysList vs]
  | record fs => simp [Value.normKeys, normKeysFields_normKeysFields fs]
  | taggedUnion t v => simp [Value.normKeys, Value.normKeys_normKeys v]
  | errorV e => simp [Value.normKeys, Key.norm_norm]
  | fixpoint s e => simp [Value.normKeys, Key.norm_norm]
  | code e => simp [Value.normKeys, Key.norm_norm]
  | constructorFn t s k => simp [Value.normKeys, Key.norm_norm]
  | unit => simp [Value.normKeys]
  | number _ => simp [Value.normKeys]
  | string _ => simp [Value.normKeys]
  | closure _ _ => simp [Value.normKeys]
  | externalFn _ => simp [Value.normKeys]
  | store _ => simp [Value.normKeys]
theorem normKeysList_normKeysList {σ} (vs : List (Value σ)) : normKeysList (normKeysList vs) = normKeysList vs := by
  cases vs with
  | nil => simp [normKeysList]
  | cons v vs => simp [normKeysList, Value.normKeys_normKeys v, normKeysList_normKeysList vs]
theorem normKeysFields_normKeysFields {σ} (fs : List (σ × Value σ)) :
    normKeysFields (normKeysFields fs) = normKeysFields fs := by
  cases fs with
  | nil => simp [normKeysFields]
  | cons kv fs =>
    obtain ⟨k, v⟩ := kv
    simp [normKeysFields, Value.normKeys_normKeys v, normKeysFields_normKeysFields fs]
end

mutual
theorem normKeysList_length {σ} (vs : List (Value σ)) : (normKeysList vs).length = vs.length := by
  cases vs with
  | nil => simp [normKeysList]
  | cons v vs => simp [normKeysList, normKeysList_length vs]
theorem normKeysFields_length {σ} (fs : List (σ × Value σ)) : (normKeysFields fs).length = fs.length := by
  cases fs with
  | nil => simp [normKeysFields]
  | cons kv fs => obtain ⟨k, v⟩ := kv; simp [normKeysFields, normKeysFields_length fs]
end

mutual
theorem Value.repV_normKeys {σ} (v : Value σ) (h : v.RepV) : v.normKeys.RepV := by
  cases v with
  | array vs =>
    simp only [Value.RepV] at h
    simp only [Value.normKeys, Value.RepV, normKeysList_length]; exact ⟨h.1, repVList_normKeys vs h.2⟩
  | tuple vs =>
    simp only [Value.RepV] at h
    simp only [Value.normKeys, Value.RepV, normKeysList_length]; exact ⟨h.1, repVList_normKeys vs h.2⟩
  | record fs =>
    simp only [Value.RepV] at h
    simp only [Value.normKeys, Value.RepV, normKeysFields_length]; exact ⟨h.1, repVFields_normKeys fs h.2⟩
  | taggedUnion t v =>
    simp only [Value.RepV] at h
    simp only [Value.normKeys, Value.RepV]; exact Value.repV_normKeys v h
  | errorV e => simp [Value.normKeys, Value.RepV]
  | fixpoint s e => simp [Value.normKeys, Value.RepV]
  | code e => simp [Value.normKeys, Value.RepV]
  | constructorFn t s k => simp [Value.normKeys, Value.RepV]
  | unit => simp [Value.normKeys, Value.RepV]
  | number _ => simp [Value.normKeys, Value.RepV]
  | string _ => simp [Value.normKeys, Value.RepV]
  | closure _ _ => simp [Value.normKeys, Value.RepV]
  | externalFn _ => simp [Value.normKeys, Value.RepV]
  | store _ => simp [Value.normKeys, Value.RepV]
theorem repVList_normKeys {σ} (vs : List (Value σ)) (h : RepVList vs) : RepVList (normKeysList vs) := by
  cases vs with
  | nil => simp [normKeysList, RepVList]
  | cons v vs =>
    simp only [RepVList] at h
    simp only [normKeysList, RepVList]; exact ⟨Value.repV_normKeys v h.1, repVList_normKeys vs h.2⟩
theorem repVFields_normKeys {σ} (fs : List (σ × Value σ)) (h : RepVFields fs) : RepVFields (normKeysFields fs) := by
  cases fs with
  | nil => simp [normKeysFields, RepVFields]
  | cons kv fs =>
    obtain ⟨k, v⟩ := kv
    simp only [RepVFields] at h
    simp only [normKeysFields, RepVFields]; exact ⟨Value.repV_normKeys v h.1, repVFields_normKeys fs h.2⟩
end

mutual
theorem Value.directOk_normKeys (v : RawValue) : v.normKeys.directOk = v.directOk := by
  cases v with
  | array vs => simp only [Value.normKeys, Value.directOk]; exact directOkList_normKeys vs
  | tuple vs => simp only [Value.normKeys, Value.directOk]; exact directOkList_normKeys vs
  | record fs => simp only [Value.normKeys, Value.directOk]; exact directOkFields_normKeys fs
  | taggedUnion t v => simp only [Value.normKeys, Value.directOk]; exact Value.directOk_normKeys v
  | errorV e => rfl
  | fixpoint s e => rfl
  | code e => rfl
  | constructorFn t s k => rfl
  | unit => rfl
  | number _ => rfl
  | string _ => rfl
  | closure _ _ => rfl
  | externalFn _ => rfl
  | store _ => rfl
theorem directOkList_normKeys (vs : List RawValue) : directOkList (normKeysList vs) = directOkList vs := by
  cases vs with
  | nil => rfl
  | cons v vs => simp only [normKeysList, directOkList, Value.directOk_normKeys v, directOkList_normKeys vs]
theorem directOkFields_normKeys (fs : List (UInt64 × RawValue)) :
    directOkFields (normKeysFields fs) = directOkFields fs := by
  cases fs with
  | nil => rfl
  | cons kv fs =>
    obtain ⟨k, v⟩ := kv
    simp only [normKeysFields, directOkFields, Value.directOk_normKeys v, directOkFields_normKeys fs]
end

/-! ### corollaries -/

/-- the direct `Value` decoder accepts exactly the serializer's outputs for representable values -/
theorem decodeValBytes_iff (bs r : Bytes) (v : RawValue) :
    decodeValBytes bs = some (v, r) ↔
      ∃ (w : RawValue) (enc : Bytes), w.RepV ∧ encodeVal w = some enc ∧ bs = enc ++ r ∧ v = w.normKeys := by
  constructor
  · intro h
    obtain ⟨w, hok, hr, e, hv⟩ := decodeVal_sound h
    exact ⟨w, encodeValRaw w, hr, by simp [encodeVal, hok], e, hv⟩
  · rintro ⟨w, enc, hr, he, rfl, rfl⟩; exact decodeValBytes_encode w enc r hr he

/-- success at *any* fuel is the result of the length-fuelled decoder -/
theorem decodeValBytes_of_decodeVal {f : Nat} {bs : Bytes} {p : RawValue × Bytes} (h : decodeVal f bs = some p) :
    decodeValBytes bs = some p := by
  obtain ⟨v, r⟩ := p
  obtain ⟨w, hok, hr, rfl, rfl⟩ := decodeVal_sound h
  exact decodeValBytes_encode w _ r hr (by simp [encodeVal, hok])

/-- the fuel is unobservable on every input, accepted or not, once it reaches the input length -/
theorem decodeVal_fuel_irrelevant (f : Nat) (bs : Bytes) (hf : bs.length ≤ f) :
    decodeVal f bs = decodeValBytes bs := by
  cases h : decodeValBytes bs with
  | some p =>
    obtain ⟨v, r⟩ := p
    obtain ⟨w, hok, hr, rfl, rfl⟩ := decodeVal_sound h
    exact decodeVal_encode w f r hok hr (by have := needV_le_length w hok; simp at hf; omega)
  | none =>
    cases h2 : decodeVal f bs with
    | none => rfl
    | some p => rw [decodeValBytes_of_decodeVal h2] at h; cases h

/-- whatever the direct `Value` decoder accepts, it accepts identically when more bytes follow -/
theorem decodeValBytes_ext {bs r : Bytes} {v : RawValue} (x : Bytes) (h : decodeValBytes bs = some (v, r)) :
    decodeValBytes (bs ++ x) = some (v, r ++ x) := by
  obtain ⟨w, hok, hr, rfl, rfl⟩ := decodeVal_sound h
  rw [List.append_assoc]
  exact decodeValBytes_encode w _ (r ++ x) hr (by simp [encodeVal, hok])

/-- every strict prefix of a direct `Value` encoding is rejected -/
theorem decodeValBytes_truncated (v : RawValue) (bs : Bytes) (hr : v.RepV) (he : encodeVal v = some bs) (k : Nat)
    (hk : k < bs.length) : decodeValBytes (bs.take k) = none := by
  cases h : decodeValBytes (bs.take k) with
  | none => rfl
  | some p =>
    exfalso
    obtain ⟨w, r⟩ := p
    have h1 := decodeValBytes_ext (bs.drop k) h
    rw [List.take_append_drop] at h1
    have h2 := decodeValBytes_encode v bs [] hr he
    rw [List.append_nil, h1] at h2
    simp at h2
    have := h2.2.2
    omega

/-! ### a value and its normal form have encodings of the same length (only version words differ) -/

mutual
theorem encodeValRaw_normKeys_length (v : RawValue) : (encodeValRaw v.normKeys).length = (encodeValRaw v).length := by
  cases v with
  | array vs => simp [Value.normKeys, encodeValRaw, normKeysList_length, encodeValList_normKeys_length vs]
  | tuple vs => simp [Value.normKeys, encodeValRaw, normKeysList_length, encodeValList_normKeys_length vs]
  | record fs => simp [Value.normKeys, encodeValRaw, normKeysFields_length, encodeValFields_normKeys_length fs]
  | taggedUnion t v => simp [Value.normKeys, encodeValRaw, encodeValRaw_normKeys_length v]
  | errorV e => simp [Value.normKeys, encodeValRaw, encKey_length]
  | fixpoint s e => simp [Value.normKeys, encodeValRaw, encKey_length]
  | code e => simp [Value.normKeys, encodeValRaw, encKey_length]
  | constructorFn t s k => simp [Value.normKeys, encodeValRaw, encKey_length]
  | unit => simp [Value.normKeys]
  | number _ => simp [Value.normKeys]
  | string _ => simp [Value.normKeys]
  | closure _ _ => simp [Value.normKeys]
  | externalFn _ => simp [Value.normKeys]
  | store _ => simp [Value.normKeys]
theorem encodeValList_normKeys_length (vs : List RawValue) :
    (encodeValList (normKeysList vs)).length = (encodeValList vs).length := by
  cases vs with
  | nil => simp [normKeysList]
  | cons v vs => simp [normKeysList, encodeValList, encodeValRaw_normKeys_length v, encodeValList_normKeys_length vs]
theorem encodeValFields_normKeys_length (fs : List (UInt64 × RawValue)) :
    (encodeValFields (normKeysFields fs)).length = (encodeValFields fs).length := by
  cases fs with
  | nil => simp [normKeysFields]
  | cons kv fs =>
    obtain ⟨k, v⟩ := kv
    simp [normKeysFields, encodeValFields, encodeValRaw_normKeys_length v, encodeValFields_normKeys_length fs]
end

end Mimium.Ffi
