import Mimium.Proofs.MirWfBlock
/-! From one block entry to whole runs: every entry of the certificate is checked, so the walk never leaves it. -/
namespace Mimium.Mir
open Mimium.StateMachine Mimium.RustGen

theorem wfind_mem {c : WCert} {bb pred : Nat} {D : List Nat} (h : wfind c bb pred = some D) : (bb, pred, D) ∈ c := by
  unfold wfind at h
  cases hf : c.find? (fun e => e.1 == bb && e.2.1 == pred) with
  | none => simp [hf] at h
  | some e =>
    simp only [hf, Option.map_some, Option.some.injEq] at h
    have hm := List.mem_of_find?_eq_some hf
    have hp := List.find?_some hf
    simp only [Bool.and_eq_true, beq_iff_eq] at hp
    obtain ⟨e1, e2, e3⟩ := e
    simp only at hp h
    rw [← hp.1, ← hp.2, ← h]
    exact hm

def WfOut : OutM → Prop
  | .ret r => Safe r
  | .err e => NoStuck e
  | .more _ _ _ => True

theorem runBlocks_wf {P : Prog} {callF : CallF} (hcall : CallSafe callF) (f : Fn) (c : WCert) (hwf : wfFn P f c = true) :
    ∀ (n bb pred : Nat) (s : MSt) (D : List Nat), bb < f.blocks.length → wfind c bb pred = some D →
      DInv f.nregs D s.fr.regs → WfOut (runBlocksM callF P f n bb pred s) := by
  intro n
  induction n with
  | zero => intro bb pred s D _ _ _; trivial
  | succ n ih =>
    intro bb pred s D hbb hfind hd
    simp only [runBlocksM]
    have hblk : f.blocks[bb]? = some f.blocks[bb] := List.getElem?_eq_getElem hbb
    rw [hblk]
    simp only []
    simp only [wfFn, Bool.and_eq_true, List.all_eq_true] at hwf
    have he := hwf.2 (bb, pred, D) (wfind_mem hfind)
    simp only [hblk] at he
    have hpost := wfBlock_sound hcall f.nregs f.blocks.length f.arms c (f.preds.getD bb []) bb f.blocks[bb] none pred D s
      he hd (lcOkR_none _)
    cases hx : execBlockM callF P f.arms (f.preds.getD bb []) bb f.blocks[bb] pred s with
    | next bb' pred' s' =>
      simp only [hx] at hpost ⊢
      obtain ⟨hlt, D', hf', hd'⟩ := hpost
      exact ih bb' pred' s' D' hlt hf' hd'
    | ret r => simp only [hx] at hpost ⊢; exact hpost
    | err e => simp only [hx] at hpost ⊢; exact hpost

theorem enterArgs_regs : ∀ (ns : List Nat) (ws : List UInt64) (i : Nat) (g : Glob) (regs : Array (Option Region)),
    (enterArgs g ns ws i regs).2.size = regs.size ∧
    (∀ r, Defined regs r → Defined (enterArgs g ns ws i regs).2 r) ∧
    (∀ k, k < ns.length → i + k < regs.size → Defined (enterArgs g ns ws i regs).2 (i + k)) := by
  intro ns
  induction ns with
  | nil => intro ws i g regs; exact ⟨rfl, fun _ h => h, fun k hk => by simp at hk⟩
  | cons n ns ih =>
    intro ws i g regs
    simp only [enterArgs]
    obtain ⟨h1, h2, h3⟩ := ih (ws.drop n) (i + 1)
      { g with mem := g.mem ++ ((ws.take n) ++ List.replicate (n - ws.length) 0).toArray }
      (regs.setIfInBounds i (some ⟨g.mem.size, n⟩))
    refine ⟨by rw [h1]; simp, fun r hr => h2 r (defined_set hr), ?_⟩
    intro k hk hik
    cases k with
    | zero => exact h2 i (defined_set_self (by simpa using hik))
    | succ k =>
      have := h3 k (by simpa using hk) (by simp; omega)
      rwa [show i + 1 + k = i + (k + 1) by omega] at this

theorem enterFrame_dinv (f : Fn) (fi : Nat) (clo : Option Nat) (g : Glob) (ws : List UInt64) (h : f.args.length ≤ f.nregs) :
    DInv f.nregs (entryDefs f) (enterFrame f fi clo g ws).1.regs := by
  simp only [enterFrame]
  have hsz : ((Array.replicate (f.nregs + 1) (none : Option Region)).setIfInBounds f.nregs (some ⟨0, 0⟩)).size = f.nregs + 1 := by simp
  obtain ⟨h1, h2, h3⟩ := enterArgs_regs f.args ws 0 g
    ((Array.replicate (f.nregs + 1) (none : Option Region)).setIfInBounds f.nregs (some ⟨0, 0⟩))
  refine ⟨by rw [h1, hsz], ?_⟩
  intro r hr
  simp only [entryDefs, List.mem_cons, List.mem_range] at hr
  rcases hr with hr | hr
  · subst hr
    exact h2 _ (defined_set_self (by simp))
  · have := h3 r hr (by rw [hsz]; omega)
    simpa using this

/-- every function of a program all of whose functions are well formed: no call, at any depth, ends in `undefReg` / `badBlock` -/
theorem runFn_safe {P : Prog} (hwf : ∀ (g : Nat) (f : Fn), P.fns[g]? = some f → ∃ c, wfFn P f c = true) :
    ∀ n, CallSafe (runFn P n) := by
  intro n
  induction n with
  | zero => intro g ws clo glob st tr; exact Safe.fuel
  | succ n ih =>
    intro g ws clo glob st tr
    simp only [runFn]
    cases hf : P.fns[g]? with
    | none => exact Safe.stuck _
    | some f =>
      obtain ⟨c, hc⟩ := hwf g f hf
      simp only []
      have hc' := hc
      simp only [wfFn, Bool.and_eq_true, decide_eq_true_eq] at hc'
      obtain ⟨⟨⟨hlen, hargs⟩, h0⟩, _⟩ := hc'
      cases hw : wfind c 0 0 with
      | none => simp [hw] at h0
      | some D0 =>
        simp only [hw] at h0
        have hd := enterFrame_dinv f g clo glob ws hargs
        have hd0 : DInv f.nregs D0 (enterFrame f g clo glob ws).1.regs :=
          ⟨hd.1, fun r hr => hd.2 r (subsetB_mem h0 r hr)⟩
        have key := runBlocks_wf ih f c hc (f.blocks.length + 1) 0 0
          ⟨(enterFrame f g clo glob ws).1, (enterFrame f g clo glob ws).2, st, tr⟩ D0 hlen hw hd0
        cases hx : runBlocksM (runFn P n) P f (f.blocks.length + 1) 0 0
            ⟨(enterFrame f g clo glob ws).1, (enterFrame f g clo glob ws).2, st, tr⟩ with
        | ret r =>
          simp only [hx, WfOut] at key
          cases r with
          | ok v => exact Safe.ok _
          | error e => intro e' he'; cases he'; exact key e rfl
        | err e => simp only [hx, WfOut] at key; intro e' he'; cases he'; exact key
        | more bb pred s1 => exact Safe.fuel

end Mimium.Mir
