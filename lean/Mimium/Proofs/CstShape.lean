import Mimium.Proofs.CstGrammar
import Mimium.Proofs.CstGrammarTerm
import Mimium.Model.CstStrict
/-!
# Shape of the trees the ported parser builds when it reports no error — the framework

`Em rec R c s` ("emission") is, for a command `c` of the grammar's statement language run from the state `s`, the conjunction of
what is known along the ONE path `exec` takes when no error is recorded: the outcome of every condition, what every `bump` /
`emit_node` appended to the children of the open node (`topCh`), and the specification `R t` of every grammar function called.
`em_sound`: if every call satisfies its specification, every command does (one induction over `Cmd`, like `exec_good`); along the way
`G` — every finished node under construction satisfies `strictTree → keepsAllOn S` — is maintained, the obligation for a node kind the
printer has an `ok` test for being `NodesOK` (shape of the children ⇒ the tests hold).
-/
namespace Mimium.Grammar
open Mimium.Gen (Kind SK)
open Mimium.Cst (PState Frame Green)
open Mimium.CstPrint (Ctx)

variable (E : Env)

/-! ## Unconditional facts: frames below the open node are untouched, errors only accumulate -/

/-- children of the open node -/
def topCh (s : St) : List Green :=
  match s.b.stack with
  | [] => []
  | f :: _ => f.children

structure Basic (s s' : St) : Prop where
  fr : ∀ f fs, s.b.stack = f :: fs → ∃ ch, s'.b.stack = ⟨f.kind, ch⟩ :: fs
  esuf : ∃ l, s'.errs = l ++ s.errs
  oof : s.oof = true → s'.oof = true

theorem Basic.refl (s : St) : Basic s s :=
  ⟨fun f _ h => ⟨f.children, h⟩, ⟨[], rfl⟩, id⟩

theorem Basic.trans {s s' s'' : St} (h : Basic s s') (h' : Basic s' s'') : Basic s s'' where
  fr := fun f fs hs => by
    obtain ⟨ch, h1⟩ := h.fr f fs hs
    obtain ⟨ch', h2⟩ := h'.fr _ _ h1
    exact ⟨ch', h2⟩
  esuf := by
    obtain ⟨l, h1⟩ := h.esuf
    obtain ⟨l', h2⟩ := h'.esuf
    exact ⟨l' ++ l, by rw [h2, h1, List.append_assoc]⟩
  oof := fun ho => h'.oof (h.oof ho)

variable {E}

theorem prim_stack_start (s : St) (k : Nat) : (prim E s (.startNode k)).b.stack = ⟨k, []⟩ :: s.b.stack := rfl

theorem prim_stack_startAt (s : St) (pos k : Nat) (f : Frame) (fs : List Frame) (h : s.b.stack = f :: fs) :
    (prim E s (.startNodeAt pos k)).b.stack = ⟨k, f.children.drop pos⟩ :: ⟨f.kind, f.children.take pos⟩ :: fs := by
  simp [prim, Cst.exec, h]

theorem prim_stack_finish (s : St) (f g : Frame) (fs : List Frame) (h : s.b.stack = f :: g :: fs) :
    (prim E s .finishNode).b.stack = ⟨g.kind, g.children ++ [.node f.kind f.children]⟩ :: fs := by
  simp [prim, Cst.exec, h, Cst.pushChild]

theorem prim_stack_bump (s : St) (f : Frame) (fs : List Frame) (h : s.b.stack = f :: fs) :
    (prim E s .bump).b.stack = f :: fs ∨
    ∃ ti w, E.cst.tokenIndices[s.b.current]? = some ti ∧ E.cst.widths[ti]? = some w ∧
      (prim E s .bump).b.stack = ⟨f.kind, f.children ++ [.token ti w]⟩ :: fs := by
  cases h1 : E.cst.tokenIndices[s.b.current]? with
  | none => left; simp [prim, Cst.exec, h1, h]
  | some ti =>
    cases h2 : E.cst.widths[ti]? with
    | none => left; simp [prim, Cst.exec, h1, h2, h]
    | some w => right; exact ⟨ti, w, rfl, h2, by simp [prim, Cst.exec, h1, h2, h, Cst.pushChild]⟩

theorem prim_basic_bump (s : St) : Basic s (prim E s .bump) := by
  refine ⟨fun f fs h => ?_, ⟨[], rfl⟩, id⟩
  rcases prim_stack_bump s f fs h with h1 | ⟨ti, w, _, _, h1⟩
  · exact ⟨_, h1⟩
  · exact ⟨_, h1⟩

/-- `start_node*; m; finish_node` -/
theorem bracket_basic (m : St → St) (s : St) (o : Cst.Op) (k : Nat)
    (ho : ∀ f fs, s.b.stack = f :: fs → ∃ a b, (prim E s o).b.stack = ⟨k, a⟩ :: ⟨f.kind, b⟩ :: fs)
    (hm : Basic (prim E s o) (m (prim E s o))) : Basic s (prim E (m (prim E s o)) .finishNode) := by
  refine ⟨fun f fs h => ?_, ?_, ?_⟩
  · obtain ⟨a, b, h0⟩ := ho f fs h
    obtain ⟨ch, h1⟩ := hm.fr _ _ h0
    exact ⟨b ++ [.node k ch], prim_stack_finish _ ⟨k, ch⟩ ⟨f.kind, b⟩ fs h1⟩
  · obtain ⟨l, h1⟩ := hm.esuf
    exact ⟨l, h1⟩
  · exact fun h => hm.oof h

theorem exec_basic (rec : Tag → St → St) (hrec : ∀ t s, Basic s (rec t s)) : ∀ (c : Cmd) (s : St), Basic s (exec E rec c s) := by
  intro c
  induction c with
  | skip => intro s; exact Basic.refl s
  | seq c d ihc ihd => intro s; exact (ihc s).trans (ihd _)
  | ite c t e iht ihe => intro s; simp only [exec]; split; exact iht s; exact ihe s
  | node k c ih =>
    intro s; simp only [exec]
    exact bracket_basic _ s _ k.toNat (fun f fs h => ⟨[], f.children, by rw [prim_stack_start, h]⟩) (ih _)
  | nodeAtB k c ih =>
    intro s; simp only [exec]
    exact bracket_basic _ s _ k.toNat (fun f fs h => ⟨_, _, prim_stack_startAt s _ _ f fs h⟩) (ih _)
  | bump => intro s; exact prim_basic_bump s
  | bumpAs r =>
    intro s; simp only [exec]
    have h := prim_basic_bump (E := E) (relabel E s r.kind)
    exact ⟨fun f fs hs => h.fr f fs (by rw [relabel_b]; exact hs), by simpa [relabel_errs] using h.esuf,
      by simpa [relabel_oof] using h.oof⟩
  | err e => intro s; exact ⟨fun f _ h => ⟨f.children, h⟩, ⟨[mkErr E s e], rfl⟩, id⟩
  | call t =>
    intro s
    have h := hrec t s
    exact ⟨h.fr, h.esuf, h.oof⟩
  | callA t a =>
    intro s
    have h := hrec t { s with ra := evalA E s a }
    exact ⟨h.fr, h.esuf, h.oof⟩
  | setBMarker => intro s; exact ⟨fun f _ h => ⟨f.children, h⟩, ⟨[], rfl⟩, id⟩
  | setBMarkerPred => intro s; exact ⟨fun f _ h => ⟨f.children, h⟩, ⟨[], rfl⟩, id⟩
  | progress c r e ihc ihe =>
    intro s; simp only [exec]
    split
    · refine (ihc s).trans ?_
      have h := prim_basic_bump (E := E) (addErr E (exec E rec c s) (.syntax r))
      exact ⟨h.fr, by obtain ⟨l, hl⟩ := h.esuf; exact ⟨l ++ [mkErr E (exec E rec c s) (.syntax r)], by rw [hl]; simp [addErr]⟩, h.oof⟩
    · exact (ihc s).trans (ihe _)

theorem go_basic : ∀ (n : Nat) (t : Tag) (s : St), Basic s (go E n t s)
  | 0, _, s => ⟨fun f _ h => ⟨f.children, h⟩, ⟨[], rfl⟩, fun _ => rfl⟩
  | n + 1, t, s => exec_basic (go E n) (go_basic n) (body t) s

/-! ## "No error was recorded, no fuel ran out" between two states -/

def NE (s s' : St) : Prop := s'.errs = s.errs ∧ s'.oof = false

theorem NE.split {s s1 s2 : St} (h1 : Basic s s1) (h2 : Basic s1 s2) (h : NE s s2) : NE s s1 ∧ NE s1 s2 := by
  obtain ⟨l1, e1⟩ := h1.esuf
  obtain ⟨l2, e2⟩ := h2.esuf
  have he := h.1
  rw [e2, e1, ← List.append_assoc] at he
  have hl : l2 ++ l1 = [] := by
    have := congrArg List.length he
    simp only [List.length_append] at this
    exact List.eq_nil_of_length_eq_zero (by simp only [List.length_append]; omega)
  have hl1 : l1 = [] := (List.append_eq_nil_iff.mp hl).2
  have hl2 : l2 = [] := (List.append_eq_nil_iff.mp hl).1
  have ho1 : s1.oof = false := by
    cases ho : s1.oof with
    | false => rfl
    | true => have := h2.oof ho; rw [h.2] at this; cases this
  refine ⟨⟨by rw [e1, hl1]; rfl, ho1⟩, ⟨by rw [e2, hl2]; rfl, h.2⟩⟩

/-! ## The token kinds the printer sees (`c.kinds`, the original ones) and the relabelled kinds of the parser -/

def relab (k : Kind) : Bool := k == .IdentFunction || k == .IdentParameter

variable (c : Ctx)

/-- the parser's kind array differs from the original one only where an `Ident` was relabelled -/
def KRel (s : St) : Prop :=
  ∀ i : Nat, s.kinds[i]? = c.kinds[i]? ∨ (c.kinds[i]? = some Kind.Ident ∧ ∃ k, s.kinds[i]? = some k ∧ relab k = true)

/-- is the condition `check(Ident)`? -/
def isIdentCheck : Cond → Bool
  | .peekIn 0 [.Ident] => true
  | _ => false

/-- every relabelling `bumpAs` is guarded by a `check(Ident)` on the same cursor position (`g`: such a check is known to have succeeded) -/
def guarded : Bool → Cmd → Bool
  | _, .skip => true
  | g, .seq a b => guarded g a && guarded false b
  | g, .ite cnd t e => guarded (g || isIdentCheck cnd) t && guarded g e
  | g, .node _ a => guarded g a
  | g, .nodeAtB _ a => guarded g a
  | _, .bump => true
  | g, .bumpAs _ => g
  | _, .err _ => true
  | _, .call _ => true
  | _, .callA _ _ => true
  | _, .setBMarker => true
  | _, .setBMarkerPred => true
  | g, .progress a _ e => guarded g a && guarded false e

theorem all_bodies_guarded : ∀ t : Tag, guarded false (body t) = true := by
  intro t; cases t <;> decide

variable {c}

theorem peek_prim_nobump (s : St) (o : Cst.Op) (h : o ≠ .bump) : peek E (prim E s o) = peek E s := by
  apply peek_congr
  · rw [prim_current]; simp [h]
  · rfl

theorem evalCond_identCheck (s : St) (cnd : Cond) (h : isIdentCheck cnd = true) (hc : evalCond E s cnd = true) :
    peek E s = some Kind.Ident := by
  unfold isIdentCheck at h
  split at h
  · simp only [evalCond] at hc
    split at hc
    · rename_i k hk
      have : k = Kind.Ident := by simpa using hc
      rw [← this]; exact hk
    · cases hc
  · cases h

theorem KRel.relabel (s : St) (r : Relabel) (hk : KRel c s) (hp : peek E s = some Kind.Ident) : KRel c (relabel E s r.kind) := by
  simp only [peek, peekAhead, Nat.add_zero] at hp
  cases hi : E.idx[s.b.current]? with
  | none => simp [hi] at hp
  | some i =>
    simp only [hi] at hp
    have hre : Grammar.relabel E s r.kind = { s with kinds := s.kinds.setIfInBounds i r.kind } := by
      simp [Grammar.relabel, hi]
    rw [hre]
    intro j
    show (s.kinds.setIfInBounds i r.kind)[j]? = _ ∨ _
    rw [Array.getElem?_setIfInBounds]
    by_cases hij : i = j
    · subst hij
      have hlt : i < s.kinds.size := by
        apply Nat.lt_of_not_le
        intro hge
        rw [Array.getElem?_eq_none hge] at hp
        cases hp
      simp only [if_true, hlt]
      right
      refine ⟨?_, r.kind, rfl, by cases r <;> rfl⟩
      rcases hk i with h1 | ⟨h1, _⟩
      · rw [← h1]; exact hp
      · exact h1
    · simp only [hij, if_false]
      exact hk j

theorem exec_krel (rec : Tag → St → St) (hrec : ∀ t s, KRel c s → KRel c (rec t s)) :
    ∀ (cmd : Cmd) (g : Bool) (s : St), guarded g cmd = true → (g = true → peek E s = some Kind.Ident) → KRel c s →
      KRel c (exec E rec cmd s) := by
  intro cmd
  induction cmd with
  | skip => intro g s _ _ hk; exact hk
  | seq a b iha ihb =>
    intro g s hg hp hk
    simp only [guarded, Bool.and_eq_true] at hg
    exact ihb false _ hg.2 (fun h => by cases h) (iha g s hg.1 hp hk)
  | ite cnd t e iht ihe =>
    intro g s hg hp hk
    simp only [guarded, Bool.and_eq_true] at hg
    simp only [exec]
    split
    · rename_i hc
      refine iht _ s hg.1 (fun h => ?_) hk
      simp only [Bool.or_eq_true] at h
      rcases h with h | h
      · exact hp h
      · exact evalCond_identCheck s cnd h hc
    · exact ihe g s hg.2 hp hk
  | node k a ih =>
    intro g s hg hp hk
    simp only [exec]
    exact ih g _ hg (fun h => by rw [peek_prim_nobump _ _ (by simp)]; exact hp h) hk
  | nodeAtB k a ih =>
    intro g s hg hp hk
    simp only [exec]
    exact ih g _ hg (fun h => by rw [peek_prim_nobump _ _ (by simp)]; exact hp h) hk
  | bump => intro g s _ _ hk; exact hk
  | bumpAs r =>
    intro g s hg hp hk
    simp only [guarded] at hg
    simp only [exec]
    exact KRel.relabel s r hk (hp hg)
  | err e => intro g s _ _ hk; exact hk
  | call t => intro g s _ _ hk; exact hrec t s hk
  | callA t a => intro g s _ _ hk; exact hrec t _ hk
  | setBMarker => intro g s _ _ hk; exact hk
  | setBMarkerPred => intro g s _ _ hk; exact hk
  | progress a r e iha ihe =>
    intro g s hg hp hk
    simp only [guarded, Bool.and_eq_true] at hg
    simp only [exec]
    split
    · exact iha g s hg.1 hp hk
    · exact ihe false _ hg.2 (fun h => by cases h) (iha g s hg.1 hp hk)

theorem go_krel : ∀ (n : Nat) (t : Tag) (s : St), KRel c s → KRel c (go E n t s)
  | 0, _, _, hk => hk
  | n + 1, t, s, hk => exec_krel (go E n) (go_krel n) (body t) false s (all_bodies_guarded t) (fun h => by cases h) hk

/-! ## Well-formed parser states -/

variable (E c)

structure W (s : St) : Prop where
  env : Env.Ok E
  depth : 1 ≤ s.b.stack.length
  inv : Cst.Inv E.cst s.b
  kindsOk : KindsOk E s
  krel : KRel c s

variable {E c}

theorem W.regs {s : St} (h : W E c s) (a b : Nat) : W E c { s with ra := a, rb := b } :=
  ⟨h.env, h.depth, h.inv, h.kindsOk, h.krel⟩

theorem W.step {s s' : St} (h : W E c s) (hs : Step E s s') (hk : KRel c s') : W E c s' :=
  ⟨h.env, by rw [hs.depth]; exact h.depth, hs.inv, hs.kindsOk h.kindsOk, hk⟩

/-- the open node exists -/
theorem W.top {s : St} (h : W E c s) : ∃ f fs, s.b.stack = f :: fs := by
  have := h.depth
  match hs : s.b.stack with
  | [] => rw [hs] at this; simp at this
  | f :: fs => exact ⟨f, fs, rfl⟩

theorem W.go {s : St} (h : W E c s) (n : Nat) (t : Tag) : W E c (go E n t s) :=
  h.step (go_good h.env n t s h.depth h.inv) (go_krel n t s h.krel)

/-! ## At the end of the input -/

variable (E)
/-- the cursor is past the last syntax token (stays true) -/
def AtEnd (s : St) : Prop := len E ≤ s.b.current
variable {E}

theorem AtEnd.peek {s : St} (h : AtEnd E s) : peek E s = none := peek_none_of_len_le E s h

theorem AtEnd.mono {s s' : St} (h : AtEnd E s) (hm : s.b.current ≤ s'.b.current) : AtEnd E s' := Nat.le_trans h hm

theorem atEnd_of_peek_none {s : St} (hW : W E c s) (h : peek E s = none) : AtEnd E s := by
  apply Nat.le_of_not_lt
  intro hlt
  have hlt' : s.b.current < E.cst.tokenIndices.length := by
    have := hW.env.2
    simp only [len, this, List.size_toArray] at hlt
    exact hlt
  have hi : E.idx[s.b.current + 0]? = some E.cst.tokenIndices[s.b.current] := by
    rw [hW.env.2, List.getElem?_toArray, Nat.add_zero]
    exact List.getElem?_eq_getElem hlt'
  obtain ⟨k, k1, _⟩ := hW.kindsOk _ (List.getElem_mem hlt')
  simp only [Grammar.peek, peekAhead, hi, k1] at h
  cases h

theorem atEnd_of_isAtEnd {s : St} (hW : W E c s) (h : isAtEnd E s = true) : AtEnd E s := by
  apply Nat.le_of_not_lt
  intro hlt
  have hlt' : s.b.current < E.cst.tokenIndices.length := by
    have := hW.env.2
    simp only [len, this, List.size_toArray] at hlt
    exact hlt
  have hi : E.idx[s.b.current + 0]? = some E.cst.tokenIndices[s.b.current] := by
    rw [hW.env.2, List.getElem?_toArray, Nat.add_zero]
    exact List.getElem?_eq_getElem hlt'
  obtain ⟨k, k1, k2⟩ := hW.kindsOk _ (List.getElem_mem hlt')
  simp only [isAtEnd, Grammar.peek, peekAhead, hi, k1, beq_iff_eq] at h
  exact k2 h

/-! ## Trees under construction that the printer keeps (given the strictness of the input) -/

variable (c)
/-- the node kinds for which the shape theorem is proved -/
abbrev Cov := SK → Bool

def KA (S : Cov) (g : Green) : Prop := CstPrint.strictTree c g = true → CstPrint.keepsAllOn S c g = true

def KAL (S : Cov) (gs : List Green) : Prop := ∀ g ∈ gs, KA c S g

/-- every child of every open node -/
def G (S : Cov) (s : St) : Prop := ∀ f ∈ s.b.stack, KAL c S f.children
variable {c}

theorem KA.token (S : Cov) (i w : Nat) : KA c S (.token i w) := fun _ => by simp [CstPrint.keepsAllOn]

theorem strictTreeL_of (gs : List Green) (h : CstPrint.strictTreeL c gs = true) : ∀ g ∈ gs, CstPrint.strictTree c g = true := by
  induction gs with
  | nil => intro g hg; cases hg
  | cons x xs ih =>
    simp only [CstPrint.strictTreeL, Bool.and_eq_true] at h
    intro g hg
    rcases List.mem_cons.mp hg with rfl | hg
    · exact h.1
    · exact ih h.2 g hg

theorem keepsAllOnL_of (S : Cov) (gs : List Green) (h : ∀ g ∈ gs, CstPrint.keepsAllOn S c g = true) :
    CstPrint.keepsAllOnL S c gs = true := by
  induction gs with
  | nil => rfl
  | cons x xs ih =>
    simp only [CstPrint.keepsAllOnL, Bool.and_eq_true]
    exact ⟨h x (by simp), ih (fun g hg => h g (by simp [hg]))⟩

theorem skOfNat_toNat (k : SK) : Gen.skOfNat k.toNat = some k := by cases k <;> rfl

/-- the obligation of a node kind: on strict children that are kept, the print function's own tests hold -/
def ShapeOK (S : Cov) (k : SK) (a : List Green) : Prop :=
  CstPrint.strictAt c k a = true → S k = true → CstPrint.pfKeeps c (CstPrint.dispatch k) (CstPrint.chL c a) = true

theorem KA.node (S : Cov) (k : SK) (a : List Green) (hch : KAL c S a) (hs : ShapeOK (c := c) S k a) : KA c S (.node k.toNat a) := by
  intro hst
  simp only [CstPrint.strictTree, CstPrint.strictNode, skOfNat_toNat, Bool.and_eq_true] at hst
  simp only [CstPrint.keepsAllOn, CstPrint.nodeKeepsOn, skOfNat_toNat, Bool.and_eq_true, Bool.or_eq_true, Bool.not_eq_true']
  refine ⟨?_, keepsAllOnL_of S a (fun g hg => hch g hg (strictTreeL_of a hst.2 g hg))⟩
  cases hS : S k with
  | false => exact Or.inl rfl
  | true => exact Or.inr (hs hst.1 hS)

theorem G.regs (S : Cov) {s : St} (h : G c S s) (a b : Nat) : G c S { s with ra := a, rb := b } := h

/-! ## Emission -/

variable (E c)

/-- the original kind of a bumped token, given the kind `k` the parser saw -/
def OrigOf (k : Kind) (ti : Nat) : Prop := c.kind ti = k ∨ (c.kind ti = .Ident ∧ relab k = true)

/-- what is known along the error-free path of `cmd` from `s` (`R t s s'`: specification of the grammar function `t`, entry state,
state after the call with the caller's registers restored) -/
def Em (rec : Tag → St → St) (R : Tag → St → St → Prop) : Cmd → St → Prop
  | .skip, _ => True
  | .seq a b, s => Em rec R a s ∧ W E c (exec E rec a s) ∧ Em rec R b (exec E rec a s)
  | .ite cnd t e, s => if evalCond E s cnd = true then Em rec R t s else Em rec R e s
  | .node k a, s =>
    W E c (prim E s (.startNode k.toNat)) ∧ Em rec R a (prim E s (.startNode k.toNat)) ∧
    topCh (exec E rec (.node k a) s) = topCh s ++ [.node k.toNat (topCh (exec E rec a (prim E s (.startNode k.toNat))))]
  | .nodeAtB k a, s =>
    W E c (prim E s (.startNodeAt s.rb k.toNat)) ∧ Em rec R a (prim E s (.startNodeAt s.rb k.toNat)) ∧
    topCh (prim E s (.startNodeAt s.rb k.toNat)) = (topCh s).drop s.rb ∧
    topCh (exec E rec (.nodeAtB k a) s) =
      (topCh s).take s.rb ++ [.node k.toNat (topCh (exec E rec a (prim E s (.startNodeAt s.rb k.toNat))))]
  | .bump, s =>
    (∀ k, peek E s = some k → ∃ ti w, topCh (prim E s .bump) = topCh s ++ [.token ti w] ∧ OrigOf c k ti) ∧
    (peek E s = none → topCh (prim E s .bump) = topCh s ∧ AtEnd E (prim E s .bump))
  | .bumpAs r, s =>
    (∀ k, peek E s = some k → ∃ ti w, topCh (exec E rec (.bumpAs r) s) = topCh s ++ [.token ti w] ∧ OrigOf c k ti)
  | .err _, _ => False
  | .call t, s => R t s (exec E rec (.call t) s)
  | .callA t a, s => R t { s with ra := evalA E s a } (exec E rec (.callA t a) s)
  | .setBMarker, _ => True
  | .setBMarkerPred, _ => True
  | .progress a r e, s =>
    Em rec R a s ∧ W E c (exec E rec a s) ∧ Em rec R e (exec E rec a s) ∧
    exec E rec (.progress a r e) s = exec E rec e (exec E rec a s)

/-- the obligations along the path of a command from `s`: for every `emit_node` the `ok` tests of its kind, for every call the
precondition `Pre` of the callee (what was established before — `Em` of the first part of a sequence — may be used) -/
def NodesOK (S : Cov) (Pre : Tag → St → Prop) (rec : Tag → St → St) (R : Tag → St → St → Prop) : Cmd → St → Prop
  | .seq a b, s => NodesOK S Pre rec R a s ∧ (Em E c rec R a s → NodesOK S Pre rec R b (exec E rec a s))
  | .ite cnd t e, s => if evalCond E s cnd = true then NodesOK S Pre rec R t s else NodesOK S Pre rec R e s
  | .node k a, s => NodesOK S Pre rec R a (prim E s (.startNode k.toNat)) ∧
      (W E c (prim E s (.startNode k.toNat)) → Em E c rec R a (prim E s (.startNode k.toNat)) →
        KAL c S (topCh (exec E rec a (prim E s (.startNode k.toNat)))) →
        ShapeOK (c := c) S k (topCh (exec E rec a (prim E s (.startNode k.toNat)))))
  | .nodeAtB k a, s => NodesOK S Pre rec R a (prim E s (.startNodeAt s.rb k.toNat)) ∧
      (W E c (prim E s (.startNodeAt s.rb k.toNat)) → Em E c rec R a (prim E s (.startNodeAt s.rb k.toNat)) →
        KAL c S (topCh (exec E rec a (prim E s (.startNodeAt s.rb k.toNat)))) →
        ShapeOK (c := c) S k (topCh (exec E rec a (prim E s (.startNodeAt s.rb k.toNat)))))
  | .progress a _ e, s => NodesOK S Pre rec R a s ∧ (Em E c rec R a s → NodesOK S Pre rec R e (exec E rec a s))
  | .call t, s => Pre t s
  | .callA t a, s => Pre t { s with ra := evalA E s a }
  | _, _ => True

/-- the node kinds whose print function has no `ok` test (it appends every child) -/
def trivK : SK → Bool
  | .LetDecl | .LetRecDecl | .BinaryExpr | .LambdaExpr | .IfExpr | .BlockExpr | .TupleExpr | .RecordExpr | .MacroExpansion
  | .UseStmt | .QualifiedPath | .UseTargetMultiple | .UseTargetWildcard | .VisibilityPub | .Error
  | .ArrayExpr | .TupleType | .RecordType | .TuplePattern | .RecordPattern | .ParamList | .ArgList => false
  | _ => true

/-- no `emit_node` of a covered kind with an `ok` test in the command -/
def noCov (S : Cov) (tp : Tag → Bool) : Cmd → Bool
  | .seq a b => noCov S tp a && noCov S tp b
  | .ite _ t e => noCov S tp t && noCov S tp e
  | .node k a => (!S k || trivK k) && noCov S tp a
  | .nodeAtB k a => (!S k || trivK k) && noCov S tp a
  | .progress a _ e => noCov S tp a && noCov S tp e
  | .call t => tp t
  | .callA t _ => tp t
  | _ => true

variable {E c}

theorem topCh_regs (s : St) (a b : Nat) : topCh { s with ra := a, rb := b } = topCh s := rfl

theorem topCh_of_stack {s : St} {f : Frame} {fs : List Frame} (h : s.b.stack = f :: fs) : topCh s = f.children := by
  simp [topCh, h]

/-- what `bump` appends when there is a token under the cursor -/
theorem bump_emits (s : St) (hW : W E c s) (k : Kind) (hp : peek E s = some k) :
    ∃ ti w, topCh (prim E s .bump) = topCh s ++ [.token ti w] ∧ s.kinds[ti]? = some k ∧ E.idx[s.b.current]? = some ti := by
  obtain ⟨f, fs, hs⟩ := hW.top
  simp only [peek, peekAhead, Nat.add_zero] at hp
  cases hi : E.idx[s.b.current]? with
  | none => simp [hi] at hp
  | some ti =>
    simp only [hi] at hp
    have hti : E.cst.tokenIndices[s.b.current]? = some ti := by
      have := hW.env.2
      rw [this, List.getElem?_toArray] at hi
      exact hi
    have hmem : ti ∈ E.cst.tokenIndices := List.mem_of_getElem? hti
    have hw := hW.env.1 ti hmem
    have hw' : E.cst.widths[ti]? = some (E.cst.widths[ti]'hw) := List.getElem?_eq_getElem hw
    have h3 : (prim E s .bump).b.stack = ⟨f.kind, f.children ++ [.token ti (E.cst.widths[ti]'hw)]⟩ :: fs := by
      simp [prim, Cst.exec, hti, hw', hs, Cst.pushChild]
    exact ⟨ti, _, by rw [topCh_of_stack h3, topCh_of_stack hs], hp, rfl⟩

theorem origOf_of_krel (s : St) (hk : KRel c s) (k : Kind) (ti : Nat) (h : s.kinds[ti]? = some k) : OrigOf c k ti := by
  unfold OrigOf CstPrint.Ctx.kind
  rcases hk ti with h1 | ⟨h1, k', h2, h3⟩
  · left
    rw [h] at h1
    simp [Array.getD_eq_getD_getElem?, ← h1]
  · right
    rw [h] at h2
    cases h2
    exact ⟨by simp [Array.getD_eq_getD_getElem?, h1], h3⟩

/-- an error makes `NE` impossible -/
theorem NE.no_err {s s' : St} (l : List PErr) (hl : l ≠ []) (h : s'.errs = l ++ s.errs) : ¬ NE s s' := by
  intro hne
  have := congrArg List.length (h.symm.trans hne.1)
  simp only [List.length_append] at this
  have : l.length = 0 := by omega
  exact hl (List.eq_nil_of_length_eq_zero this)

section Sound
variable (S : Cov) (Pre : Tag → St → Prop) (rec : Tag → St → St) (R : Tag → St → St → Prop)
variable (hgood : ∀ t, Good E (rec t)) (hbasic : ∀ t s, Basic s (rec t s)) (hkrel : ∀ t s, KRel c s → KRel c (rec t s))
variable (hrec : ∀ t s, W E c s → G c S s → Pre t s → NE s (rec t s) → (∀ a b, R t s { rec t s with ra := a, rb := b }) ∧ G c S (rec t s))

include hgood hkrel in
theorem W.exec {s : St} (h : W E c s) (cmd : Cmd) (g : Bool) (hg : guarded g cmd = true) (hp : g = true → peek E s = some Kind.Ident) :
    W E c (exec E rec cmd s) :=
  h.step (exec_good h.env rec hgood cmd s h.depth h.inv) (exec_krel rec hkrel cmd g s hg hp h.krel)

theorem W.start {s : St} (h : W E c s) (k : Nat) : W E c (prim E s (.startNode k)) := by
  have ⟨a1, a2, a3, _, _, _⟩ := prim_spec h.env s (.startNode k) _ rfl h.depth h.inv
  exact ⟨h.env, by rw [a1]; exact a2, a3, h.kindsOk, h.krel⟩

theorem W.startAt {s : St} (h : W E c s) (p k : Nat) : W E c (prim E s (.startNodeAt p k)) := by
  have ⟨a1, a2, a3, _, _, _⟩ := prim_spec h.env s (.startNodeAt p k) _ rfl h.depth h.inv
  exact ⟨h.env, by rw [a1]; exact a2, a3, h.kindsOk, h.krel⟩

theorem G.start {s : St} (h : G c S s) (k : Nat) : G c S (prim E s (.startNode k)) := by
  intro f hf
  rw [prim_stack_start] at hf
  rcases List.mem_cons.mp hf with rfl | hf
  · intro g hg; cases hg
  · exact h f hf

theorem G.startAt {s : St} (hW : W E c s) (h : G c S s) (p k : Nat) : G c S (prim E s (.startNodeAt p k)) := by
  obtain ⟨f0, fs, hs⟩ := hW.top
  intro f hf
  rw [prim_stack_startAt s p k f0 fs hs] at hf
  have h0 := h f0 (by rw [hs]; simp)
  simp only [List.mem_cons] at hf
  rcases hf with rfl | rfl | hf
  · intro g hg; exact h0 g (List.mem_of_mem_drop hg)
  · intro g hg; exact h0 g (List.mem_of_mem_take hg)
  · exact h f (by rw [hs]; simp [hf])

/-- closing a node: the frames, the children of the parent, `G` -/
theorem finish_node {s0 s1 : St} (k : Nat) (f : Frame) (fs : List Frame) (pre : List Green)
    (h0 : ∃ a, s0.b.stack = ⟨k, a⟩ :: ⟨f.kind, pre⟩ :: fs) (hb : Basic s0 s1) :
    topCh (prim E s1 .finishNode) = pre ++ [.node k (topCh s1)] ∧
    (G c S s1 → KA c S (.node k (topCh s1)) → G c S (prim E s1 .finishNode)) := by
  obtain ⟨a, h0⟩ := h0
  obtain ⟨ch, h1⟩ := hb.fr _ _ h0
  have h2 := prim_stack_finish (E := E) s1 _ _ _ h1
  have ht : topCh s1 = ch := topCh_of_stack h1
  refine ⟨by rw [topCh_of_stack h2, ht], ?_⟩
  intro hG hka f' hf'
  rw [h2] at hf'
  rcases List.mem_cons.mp hf' with rfl | hf'
  · intro g hg
    rcases List.mem_append.mp hg with hg | hg
    · exact hG ⟨f.kind, pre⟩ (by rw [h1]; simp) g hg
    · simp only [List.mem_singleton] at hg
      subst hg
      rw [ht] at hka
      exact hka
  · exact hG f' (by rw [h1]; simp [hf'])

theorem G.congr {s s' : St} (h : G c S s) (hb : s.b = s'.b) : G c S s' := by
  intro f hf; exact h f (by rw [hb]; exact hf)

theorem G.bump {s : St} (hW : W E c s) (hG : G c S s) : G c S (prim E s .bump) := by
  obtain ⟨f, fs, hs⟩ := hW.top
  intro f' hf'
  rcases prim_stack_bump s f fs hs with h1 | ⟨ti, w, _, _, h1⟩
  · rw [h1] at hf'; exact hG f' (by rw [hs]; exact hf')
  · rw [h1] at hf'
    rcases List.mem_cons.mp hf' with rfl | hf'
    · intro x hx
      rcases List.mem_append.mp hx with hx | hx
      · exact hG f (by rw [hs]; simp) x hx
      · simp only [List.mem_singleton] at hx; subst hx; exact KA.token S ti w
    · exact hG f' (by rw [hs]; simp [hf'])

include hgood hbasic hkrel hrec in
theorem em_sound : ∀ (cmd : Cmd) (g : Bool) (s : St), guarded g cmd = true → (g = true → peek E s = some Kind.Ident) →
    NodesOK E c S Pre rec R cmd s → W E c s → G c S s → NE s (exec E rec cmd s) →
    Em E c rec R cmd s ∧ G c S (exec E rec cmd s) := by
  intro cmd
  induction cmd with
  | skip => intro g s _ _ _ _ hG _; exact ⟨trivial, hG⟩
  | seq a b iha ihb =>
    intro g s hg hp hn hW hG hne
    simp only [guarded, Bool.and_eq_true] at hg
    simp only [exec] at hne ⊢
    have hb1 := exec_basic (E := E) rec hbasic a s
    have hb2 := exec_basic (E := E) rec hbasic b (exec E rec a s)
    obtain ⟨n1, n2⟩ := hne.split hb1 hb2
    obtain ⟨e1, g1⟩ := iha g s hg.1 hp hn.1 hW hG n1
    have hW1 := W.exec rec hgood hkrel hW a g hg.1 hp
    obtain ⟨e2, g2⟩ := ihb false _ hg.2 (fun h => by cases h) (hn.2 e1) hW1 g1 n2
    exact ⟨⟨e1, hW1, e2⟩, g2⟩
  | ite cnd t e iht ihe =>
    intro g s hg hp hn hW hG hne
    simp only [guarded, Bool.and_eq_true] at hg
    simp only [exec, Em, NodesOK] at hne hn ⊢
    split
    · rename_i hc
      rw [if_pos hc] at hne hn
      refine iht _ s hg.1 (fun h => ?_) hn hW hG hne
      simp only [Bool.or_eq_true] at h
      rcases h with h | h
      · exact hp h
      · exact evalCond_identCheck s cnd h hc
    · rename_i hc
      rw [if_neg hc] at hne hn
      exact ihe g s hg.2 hp hn hW hG hne
  | node k a ih =>
    intro g s hg hp hn hW hG hne
    simp only [exec] at hne ⊢
    have hW0 := hW.start k.toNat
    have hne0 : NE (prim E s (.startNode k.toNat)) (exec E rec a (prim E s (.startNode k.toNat))) := hne
    obtain ⟨e1, g1⟩ := ih g _ hg (fun h => by rw [peek_prim_nobump _ _ (by simp)]; exact hp h) hn.1 hW0 (hG.start S k.toNat) hne0
    obtain ⟨f, fs, hs⟩ := hW.top
    have hb := exec_basic (E := E) rec hbasic a (prim E s (.startNode k.toNat))
    have hfin := finish_node (E := E) (c := c) S k.toNat f fs f.children ⟨[], by rw [prim_stack_start, hs]⟩ hb
    have hkal : KAL c S (topCh (exec E rec a (prim E s (.startNode k.toNat)))) := by
      obtain ⟨ch, h1⟩ := hb.fr _ _ (by rw [prim_stack_start, hs])
      rw [topCh_of_stack h1]
      exact g1 _ (by rw [h1]; simp)
    refine ⟨⟨hW0, e1, by show topCh (prim E (exec E rec a _) .finishNode) = _; rw [hfin.1, topCh_of_stack hs]⟩, hfin.2 g1 ?_⟩
    exact KA.node S k _ hkal (hn.2 hW0 e1 hkal)
  | nodeAtB k a ih =>
    intro g s hg hp hn hW hG hne
    simp only [exec] at hne ⊢
    have hW0 := hW.startAt s.rb k.toNat
    have hne0 : NE (prim E s (.startNodeAt s.rb k.toNat)) (exec E rec a (prim E s (.startNodeAt s.rb k.toNat))) := hne
    obtain ⟨e1, g1⟩ := ih g _ hg (fun h => by rw [peek_prim_nobump _ _ (by simp)]; exact hp h) hn.1 hW0 (hG.startAt S hW s.rb k.toNat) hne0
    obtain ⟨f, fs, hs⟩ := hW.top
    have hst := prim_stack_startAt (E := E) s s.rb k.toNat f fs hs
    have hb := exec_basic (E := E) rec hbasic a (prim E s (.startNodeAt s.rb k.toNat))
    have hfin := finish_node (E := E) (c := c) S k.toNat f fs (f.children.take s.rb) ⟨_, hst⟩ hb
    have hkal : KAL c S (topCh (exec E rec a (prim E s (.startNodeAt s.rb k.toNat)))) := by
      obtain ⟨ch, h1⟩ := hb.fr _ _ hst
      rw [topCh_of_stack h1]
      exact g1 _ (by rw [h1]; simp)
    refine ⟨⟨hW0, e1, by rw [topCh_of_stack hst, topCh_of_stack hs],
      by show topCh (prim E (exec E rec a _) .finishNode) = _; rw [hfin.1, topCh_of_stack hs]⟩, hfin.2 g1 ?_⟩
    exact KA.node S k _ hkal (hn.2 hW0 e1 hkal)
  | bump =>
    intro g s _ _ _ hW hG _
    simp only [exec, Em]
    refine ⟨⟨fun k hp => ?_, fun hp => ?_⟩, ?_⟩
    · obtain ⟨ti, w, h1, h2, _⟩ := bump_emits s hW k hp
      exact ⟨ti, w, h1, origOf_of_krel s hW.krel k ti h2⟩
    · obtain ⟨f, fs, hs⟩ := hW.top
      have hend := atEnd_of_peek_none hW hp
      have hnone : E.cst.tokenIndices[s.b.current]? = none := by
        have := hW.env.2
        simp only [AtEnd, len, this, List.size_toArray] at hend
        exact List.getElem?_eq_none hend
      refine ⟨?_, ?_⟩
      · simp [topCh, prim, Cst.exec, hnone]
      · show len E ≤ (prim E s .bump).b.current
        rw [prim_current]; simp only [if_true]
        exact Nat.le_succ_of_le hend
    · exact G.bump S hW hG
  | bumpAs r =>
    intro g s _ _ _ hW hG _
    simp only [exec, Em]
    have hb : (prim E (relabel E s r.kind) .bump).b = (prim E s .bump).b := by
      simp only [prim, relabel_b]
    refine ⟨fun k hk => ?_, (G.bump S hW hG).congr S hb.symm⟩
    obtain ⟨ti, w, h1, h2, _⟩ := bump_emits s hW k hk
    refine ⟨ti, w, ?_, origOf_of_krel s hW.krel k ti h2⟩
    rw [← h1]
    simp only [topCh, hb]
  | err e =>
    intro g s _ _ _ _ _ hne
    exact absurd hne (NE.no_err [mkErr E s e] (by simp) rfl)
  | call t =>
    intro g s _ _ hn hW hG hne
    simp only [exec, Em] at hne ⊢
    have := hrec t s hW hG hn hne
    exact ⟨this.1 _ _, this.2⟩
  | callA t a =>
    intro g s _ _ hn hW hG hne
    simp only [exec, Em] at hne ⊢
    have := hrec t { s with ra := evalA E s a } (hW.regs _ _) hG hn hne
    exact ⟨this.1 _ _, this.2⟩
  | setBMarker => intro g s _ _ _ _ hG _; exact ⟨trivial, hG⟩
  | setBMarkerPred => intro g s _ _ _ _ hG _; exact ⟨trivial, hG⟩
  | progress a r e iha ihe =>
    intro g s hg hp hn hW hG hne
    simp only [guarded, Bool.and_eq_true] at hg
    have hb1 := exec_basic (E := E) rec hbasic a s
    by_cases hc : ((exec E rec a s).b.current = s.b.current && !isAtEnd E (exec E rec a s)) = true
    · exfalso
      simp only [exec, hc, if_true] at hne
      obtain ⟨l, hl⟩ := hb1.esuf
      exact NE.no_err (mkErr E (exec E rec a s) (.syntax r) :: l) (by simp) (by simp [addErr, hl]) hne
    · have hex : exec E rec (.progress a r e) s = exec E rec e (exec E rec a s) := by
        simp only [exec]; rw [if_neg hc]
      rw [hex] at hne ⊢
      have hb2 := exec_basic (E := E) rec hbasic e (exec E rec a s)
      obtain ⟨n1, n2⟩ := hne.split hb1 hb2
      obtain ⟨e1, g1⟩ := iha g s hg.1 hp hn.1 hW hG n1
      have hW1 := W.exec rec hgood hkrel hW a g hg.1 hp
      obtain ⟨e2, g2⟩ := ihe false _ hg.2 (fun h => by cases h) (hn.2 e1) hW1 g1 n2
      exact ⟨⟨e1, hW1, e2, hex⟩, g2⟩

end Sound


theorem ShapeOK.uncov {c : Ctx} (S : Cov) (k : SK) (a : List Green) (h : S k = false) : ShapeOK (c := c) S k a :=
  fun _ hS => by rw [h] at hS; cases hS

theorem pfKeeps_triv (c : Ctx) (k : SK) (h : trivK k = true) (cs : List CstPrint.Ch) :
    CstPrint.pfKeeps c (CstPrint.dispatch k) cs = true := by
  cases k <;> first | rfl | (simp [trivK] at h)

theorem ShapeOK.triv {c : Ctx} (S : Cov) (k : SK) (a : List Green) (h : (!S k || trivK k) = true) : ShapeOK (c := c) S k a := by
  intro _ hS
  simp only [Bool.or_eq_true, Bool.not_eq_true'] at h
  rcases h with h | h
  · rw [h] at hS; cases hS
  · exact pfKeeps_triv c k h _

theorem nodesOK_of_noCov {E : Env} {c : Ctx} (S : Cov) (Pre : Tag → St → Prop) (tp : Tag → Bool)
    (htp : ∀ t, tp t = true → ∀ s, Pre t s) (rec : Tag → St → St) (R : Tag → St → St → Prop) :
    ∀ (cmd : Cmd) (s : St), noCov S tp cmd = true → NodesOK E c S Pre rec R cmd s := by
  intro cmd
  induction cmd with
  | seq a b iha ihb =>
    intro s h; simp only [noCov, Bool.and_eq_true] at h; exact ⟨iha s h.1, fun _ => ihb _ h.2⟩
  | ite cnd t e iht ihe =>
    intro s h; simp only [noCov, Bool.and_eq_true] at h
    simp only [NodesOK]; split
    · exact iht s h.1
    · exact ihe s h.2
  | node k a ih =>
    intro s h; simp only [noCov, Bool.and_eq_true] at h
    exact ⟨ih _ h.2, fun _ _ _ => ShapeOK.triv S k _ h.1⟩
  | nodeAtB k a ih =>
    intro s h; simp only [noCov, Bool.and_eq_true] at h
    exact ⟨ih _ h.2, fun _ _ _ => ShapeOK.triv S k _ h.1⟩
  | progress a r e iha ihe =>
    intro s h; simp only [noCov, Bool.and_eq_true] at h; exact ⟨iha s h.1, fun _ => ihe _ h.2⟩
  | call t => intro s h; exact htp t h s
  | callA t a => intro s h; exact htp t h _
  | skip => intros; trivial
  | bump => intros; trivial
  | bumpAs => intros; trivial
  | err => intros; trivial
  | setBMarker => intros; trivial
  | setBMarkerPred => intros; trivial

end Mimium.Grammar
