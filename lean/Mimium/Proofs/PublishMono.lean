import Mimium.Proofs.Publish
/-!
The call depth is irrelevant once it suffices: a layout computed at depth `n` is computed, unchanged, at every larger
depth, and the class predicate `noStateInArmsN` persists.
-/
namespace Mimium.Publish
open Mimium.Core Mimium.StateTree Mimium.FlatTree

/-- `tbl'` knows at least the layouts `tbl` knows -/
def TableLe (tbl tbl' : Table) : Prop := ∀ f lay, tbl f = some lay → tbl' f = some lay

mutual
theorem pubE_mono (tbl tbl' : Table) (hle : TableLe tbl tbl') :
    ∀ (e : Expr) (seg : List LCell), pubE tbl e = some seg → pubE tbl' e = some seg
  | .lit _, seg, h => by rw [pubE] at h ⊢; exact h
  | .var _, seg, h => by rw [pubE] at h ⊢; exact h
  | .now, seg, h => by rw [pubE] at h ⊢; exact h
  | .samplerate, seg, h => by rw [pubE] at h ⊢; exact h
  | .self, seg, h => by rw [pubE] at h ⊢; exact h
  | .lam _ _, seg, h => by rw [pubE] at h ⊢; exact h
  | .un _ a, seg, h => by rw [pubE] at h ⊢; exact pubE_mono tbl tbl' hle a seg h
  | .proj a _, seg, h => by rw [pubE] at h ⊢; exact pubE_mono tbl tbl' hle a seg h
  | .bin _ a b, seg, h => by
    obtain ⟨s1, s2, h1, h2, rfl⟩ := pubE_bin_inv h
    rw [pubE, pubE_mono tbl tbl' hle a s1 h1, pubE_mono tbl tbl' hle b s2 h2]
  | .letE _ a b, seg, h => by
    obtain ⟨s1, s2, h1, h2, rfl⟩ := pubE_letE_inv h
    rw [pubE, pubE_mono tbl tbl' hle a s1 h1, pubE_mono tbl tbl' hle b s2 h2]
  | .letTup _ a b, seg, h => by
    obtain ⟨s1, s2, h1, h2, rfl⟩ := pubE_letTup_inv h
    rw [pubE, pubE_mono tbl tbl' hle a s1 h1, pubE_mono tbl tbl' hle b s2 h2]
  | .assign _ a b, seg, h => by
    obtain ⟨s1, s2, h1, h2, rfl⟩ := pubE_assign_inv h
    rw [pubE, pubE_mono tbl tbl' hle a s1 h1, pubE_mono tbl tbl' hle b s2 h2]
  | .ite c a b, seg, h => by
    obtain ⟨sc, sa, sb, hc, h1, h2, rfl⟩ := pubE_ite_inv h
    rw [pubE, pubE_mono tbl tbl' hle c sc hc, pubE_mono tbl tbl' hle a sa h1, pubE_mono tbl tbl' hle b sb h2]
  | .tup es, seg, h => by rw [pubE] at h ⊢; exact pubL_mono tbl tbl' hle es seg h
  | .app f args, seg, h => by
    obtain ⟨s1, s2, h1, h2, rfl⟩ := pubE_app_inv h
    rw [pubE, pubE_mono tbl tbl' hle f s1 h1, pubL_mono tbl tbl' hle args s2 h2]
  | .mem a site, seg, h => by
    obtain ⟨s, h1, rfl⟩ := pubE_mem_inv h
    rw [pubE, pubE_mono tbl tbl' hle a s h1]
  | .delay n a t site, seg, h => by
    obtain ⟨s1, s2, h1, h2, rfl⟩ := pubE_delay_inv h
    rw [pubE, pubE_mono tbl tbl' hle a s1 h1, pubE_mono tbl tbl' hle t s2 h2]
  | .call f args site, seg, h => by
    obtain ⟨s, lay, h1, hf, rfl⟩ := pubE_call_inv h
    rw [pubE, pubL_mono tbl tbl' hle args s h1, hle f lay hf]
theorem pubL_mono (tbl tbl' : Table) (hle : TableLe tbl tbl') :
    ∀ (es : List Expr) (seg : List LCell), pubL tbl es = some seg → pubL tbl' es = some seg
  | [], seg, h => by rw [pubL] at h ⊢; exact h
  | e :: es, seg, h => by
    obtain ⟨s1, s2, h1, h2, rfl⟩ := pubL_cons_inv h
    rw [pubL, pubE_mono tbl tbl' hle e s1 h1, pubL_mono tbl tbl' hle es s2 h2]
end

theorem table_succ (P : Prog) : ∀ n, TableLe (table P n) (table P (n + 1))
  | 0 => by intro f lay h; simp [table] at h
  | n + 1 => by
    intro f lay h
    rw [table] at h ⊢
    cases hd : findFn P.fns f with
    | none => simp [hd] at h
    | some d =>
      simp only [hd] at h ⊢
      cases hb : pubE (table P n) d.body with
      | none => simp [hb] at h
      | some cells =>
        rw [pubE_mono _ _ (table_succ P n) d.body cells hb]
        simpa [hb] using h

theorem table_le (P : Prog) (n : Nat) : ∀ k, TableLe (table P n) (table P (n + k))
  | 0 => fun _ _ h => h
  | k + 1 => fun f lay h => table_succ P (n + k) f lay (table_le P n k f lay h)

theorem match_nil_mono {x y : Option (List LCell)} (hxy : ∀ s, x = some s → y = some s)
    (h : isNil x = true) : isNil y = true := by
  rw [hxy [] (some_nil_of_match h)]; rfl

mutual
theorem armsOkE_mono (tbl tbl' : Table) (ok ok' : String → Bool) (hle : TableLe tbl tbl')
    (hok : ∀ f, ok f = true → ok' f = true) :
    ∀ e : Expr, armsOkE tbl ok e = true → armsOkE tbl' ok' e = true
  | .lit _, _ => by rw [armsOkE]
  | .var _, _ => by rw [armsOkE]
  | .now, _ => by rw [armsOkE]
  | .samplerate, _ => by rw [armsOkE]
  | .self, _ => by rw [armsOkE]
  | .lam _ _, _ => by rw [armsOkE]
  | .un _ a, h => by rw [armsOkE] at h ⊢; exact armsOkE_mono tbl tbl' ok ok' hle hok a h
  | .proj a _, h => by rw [armsOkE] at h ⊢; exact armsOkE_mono tbl tbl' ok ok' hle hok a h
  | .mem a _, h => by rw [armsOkE] at h ⊢; exact armsOkE_mono tbl tbl' ok ok' hle hok a h
  | .bin _ a b, h => by
    rw [armsOkE, Bool.and_eq_true] at h ⊢
    exact ⟨armsOkE_mono tbl tbl' ok ok' hle hok a h.1, armsOkE_mono tbl tbl' ok ok' hle hok b h.2⟩
  | .letE _ a b, h => by
    rw [armsOkE, Bool.and_eq_true] at h ⊢
    exact ⟨armsOkE_mono tbl tbl' ok ok' hle hok a h.1, armsOkE_mono tbl tbl' ok ok' hle hok b h.2⟩
  | .letTup _ a b, h => by
    rw [armsOkE, Bool.and_eq_true] at h ⊢
    exact ⟨armsOkE_mono tbl tbl' ok ok' hle hok a h.1, armsOkE_mono tbl tbl' ok ok' hle hok b h.2⟩
  | .assign _ a b, h => by
    rw [armsOkE, Bool.and_eq_true] at h ⊢
    exact ⟨armsOkE_mono tbl tbl' ok ok' hle hok a h.1, armsOkE_mono tbl tbl' ok ok' hle hok b h.2⟩
  | .delay _ a t _, h => by
    rw [armsOkE, Bool.and_eq_true] at h ⊢
    exact ⟨armsOkE_mono tbl tbl' ok ok' hle hok a h.1, armsOkE_mono tbl tbl' ok ok' hle hok t h.2⟩
  | .ite c a b, h => by
    rw [armsOkE] at h ⊢
    simp only [Bool.and_eq_true] at h ⊢
    obtain ⟨⟨⟨⟨oc, oa⟩, ob⟩, ea⟩, eb⟩ := h
    exact ⟨⟨⟨⟨armsOkE_mono tbl tbl' ok ok' hle hok c oc, armsOkE_mono tbl tbl' ok ok' hle hok a oa⟩,
      armsOkE_mono tbl tbl' ok ok' hle hok b ob⟩, match_nil_mono (pubE_mono tbl tbl' hle a) ea⟩,
      match_nil_mono (pubE_mono tbl tbl' hle b) eb⟩
  | .tup es, h => by rw [armsOkE] at h ⊢; exact armsOkL_mono tbl tbl' ok ok' hle hok es h
  | .app f args, h => by
    rw [armsOkE, Bool.and_eq_true] at h ⊢
    exact ⟨armsOkE_mono tbl tbl' ok ok' hle hok f h.1, armsOkL_mono tbl tbl' ok ok' hle hok args h.2⟩
  | .call f args _, h => by
    rw [armsOkE, Bool.and_eq_true] at h ⊢
    exact ⟨armsOkL_mono tbl tbl' ok ok' hle hok args h.1, hok f h.2⟩
theorem armsOkL_mono (tbl tbl' : Table) (ok ok' : String → Bool) (hle : TableLe tbl tbl')
    (hok : ∀ f, ok f = true → ok' f = true) :
    ∀ es : List Expr, armsOkL tbl ok es = true → armsOkL tbl' ok' es = true
  | [], _ => by rw [armsOkL]
  | e :: es, h => by
    rw [armsOkL, Bool.and_eq_true] at h ⊢
    exact ⟨armsOkE_mono tbl tbl' ok ok' hle hok e h.1, armsOkL_mono tbl tbl' ok ok' hle hok es h.2⟩
end

theorem okTable_succ (P : Prog) : ∀ n f, okTable P n f = true → okTable P (n + 1) f = true
  | 0, f, h => by simp [okTable] at h
  | n + 1, f, h => by
    rw [okTable] at h ⊢
    cases hd : findFn P.fns f with
    | none => simp [hd] at h
    | some d =>
      simp only [hd] at h ⊢
      exact armsOkE_mono _ _ _ _ (table_succ P n) (okTable_succ P n) d.body h

theorem okTable_le (P : Prog) (n : Nat) : ∀ k f, okTable P n f = true → okTable P (n + k) f = true
  | 0, _, h => h
  | k + 1, f, h => okTable_succ P (n + k) f (okTable_le P n k f h)

/-- a layout computed at depth `n` is the layout at every larger depth; the class predicate persists -/
theorem publish_depth_mono (P : Prog) (n m : Nat) (hnm : n ≤ m) :
    (∀ d lay, publishFnN n P d = some lay → publishFnN m P d = some lay) ∧
    (∀ e seg, publishEN n P e = some seg → publishEN m P e = some seg) ∧
    (∀ e, noStateInArmsN n P e = true → noStateInArmsN m P e = true) := by
  obtain ⟨k, rfl⟩ := Nat.exists_eq_add_of_le hnm
  refine ⟨fun d lay h => ?_, fun e seg h => pubE_mono _ _ (table_le P n k) e seg h,
    fun e h => armsOkE_mono _ _ _ _ (table_le P n k) (okTable_le P n k) e h⟩
  obtain ⟨hs, hb⟩ := publishFnN_inv h
  have := pubE_mono _ _ (table_le P n k) d.body lay.cells hb
  unfold publishFnN publishEN
  rw [this, ← hs]

theorem isStateless_mono {x y : Option (List LCell)} (hxy : ∀ s, x = some s → y = some s)
    (h : isStateless x = true) : isStateless y = true := by
  cases x with
  | none => simp [isStateless] at h
  | some s => rw [hxy s rfl]; exact h

mutual
theorem armsZE_mono (tbl tbl' : Table) (ok ok' : String → Bool) (hle : TableLe tbl tbl')
    (hok : ∀ f, ok f = true → ok' f = true) :
    ∀ e : Expr, armsZE tbl ok e = true → armsZE tbl' ok' e = true
  | .lit _, _ => by rw [armsZE]
  | .var _, _ => by rw [armsZE]
  | .now, _ => by rw [armsZE]
  | .samplerate, _ => by rw [armsZE]
  | .self, _ => by rw [armsZE]
  | .lam _ _, _ => by rw [armsZE]
  | .un _ a, h => by rw [armsZE] at h ⊢; exact armsZE_mono tbl tbl' ok ok' hle hok a h
  | .proj a _, h => by rw [armsZE] at h ⊢; exact armsZE_mono tbl tbl' ok ok' hle hok a h
  | .mem a _, h => by rw [armsZE] at h ⊢; exact armsZE_mono tbl tbl' ok ok' hle hok a h
  | .bin _ a b, h => by
    rw [armsZE, Bool.and_eq_true] at h ⊢
    exact ⟨armsZE_mono tbl tbl' ok ok' hle hok a h.1, armsZE_mono tbl tbl' ok ok' hle hok b h.2⟩
  | .letE _ a b, h => by
    rw [armsZE, Bool.and_eq_true] at h ⊢
    exact ⟨armsZE_mono tbl tbl' ok ok' hle hok a h.1, armsZE_mono tbl tbl' ok ok' hle hok b h.2⟩
  | .letTup _ a b, h => by
    rw [armsZE, Bool.and_eq_true] at h ⊢
    exact ⟨armsZE_mono tbl tbl' ok ok' hle hok a h.1, armsZE_mono tbl tbl' ok ok' hle hok b h.2⟩
  | .assign _ a b, h => by
    rw [armsZE, Bool.and_eq_true] at h ⊢
    exact ⟨armsZE_mono tbl tbl' ok ok' hle hok a h.1, armsZE_mono tbl tbl' ok ok' hle hok b h.2⟩
  | .delay _ a t _, h => by
    rw [armsZE, Bool.and_eq_true] at h ⊢
    exact ⟨armsZE_mono tbl tbl' ok ok' hle hok a h.1, armsZE_mono tbl tbl' ok ok' hle hok t h.2⟩
  | .ite c a b, h => by
    rw [armsZE] at h ⊢
    simp only [Bool.and_eq_true] at h ⊢
    obtain ⟨⟨⟨oc, oa⟩, ea⟩, eb⟩ := h
    exact ⟨⟨⟨armsZE_mono tbl tbl' ok ok' hle hok c oc, armsZE_mono tbl tbl' ok ok' hle hok a oa⟩,
      isStateless_mono (pubE_mono tbl tbl' hle a) ea⟩, isStateless_mono (pubE_mono tbl tbl' hle b) eb⟩
  | .tup es, h => by rw [armsZE] at h ⊢; exact armsZL_mono tbl tbl' ok ok' hle hok es h
  | .app f args, h => by
    rw [armsZE, Bool.and_eq_true] at h ⊢
    exact ⟨armsZE_mono tbl tbl' ok ok' hle hok f h.1, armsZL_mono tbl tbl' ok ok' hle hok args h.2⟩
  | .call f args _, h => by
    rw [armsZE, Bool.and_eq_true] at h ⊢
    exact ⟨armsZL_mono tbl tbl' ok ok' hle hok args h.1, hok f h.2⟩
theorem armsZL_mono (tbl tbl' : Table) (ok ok' : String → Bool) (hle : TableLe tbl tbl')
    (hok : ∀ f, ok f = true → ok' f = true) :
    ∀ es : List Expr, armsZL tbl ok es = true → armsZL tbl' ok' es = true
  | [], _ => by rw [armsZL]
  | e :: es, h => by
    rw [armsZL, Bool.and_eq_true] at h ⊢
    exact ⟨armsZE_mono tbl tbl' ok ok' hle hok e h.1, armsZL_mono tbl tbl' ok ok' hle hok es h.2⟩
end

theorem okTableZ_succ (P : Prog) : ∀ n f, okTableZ P n f = true → okTableZ P (n + 1) f = true
  | 0, f, h => by simp [okTableZ] at h
  | n + 1, f, h => by
    rw [okTableZ] at h ⊢
    cases hd : findFn P.fns f with
    | none => simp [hd] at h
    | some d =>
      simp only [hd] at h ⊢
      exact armsZE_mono _ _ _ _ (table_succ P n) (okTableZ_succ P n) d.body h

theorem okTableZ_le (P : Prog) (n : Nat) : ∀ k f, okTableZ P n f = true → okTableZ P (n + k) f = true
  | 0, _, h => h
  | k + 1, f, h => okTableZ_succ P (n + k) f (okTableZ_le P n k f h)

theorem noStatefulInArmsN_mono (P : Prog) (n m : Nat) (hnm : n ≤ m) (e : Expr) (h : noStatefulInArmsN n P e = true) :
    noStatefulInArmsN m P e = true := by
  obtain ⟨k, rfl⟩ := Nat.exists_eq_add_of_le hnm
  exact armsZE_mono _ _ _ _ (table_le P n k) (okTableZ_le P n k) e h

end Mimium.Publish
