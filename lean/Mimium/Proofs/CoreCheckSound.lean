import Mimium.Model.CoreCheck
import Mimium.Proofs.CoreSoundMachine
/-!
Soundness of the algorithmic checker `Model/CoreCheck.lean` against the declarative typing of `Proofs/CoreTy.lean`:
`inferE … e = some τ → HasType … e τ`, `checkFn … = true → FnOK …`, `checkGlobals … = some Ψg → GlobalsOK …`,
`checkProg A P = some (Φ, Ψg, τ) → WellTyped Φ Ψg τ P` — for every annotation table.
-/
namespace Mimium.Core

/-! ### annotated derivations
`HasTypeA Φ B Γ ρ e τ` is `HasType Φ Γ ρ e τ` with the one non-syntax-directed rule pinned down: the parameter types of a
`lam` are the ones the table `B` gives its parameter names. -/
mutual
inductive HasTypeA (Φ : Sig) (B : Binders) : Ctx → Option Ty → Expr → Ty → Prop
  | lit {Γ ρ b} : HasTypeA Φ B Γ ρ (.lit b) .num
  | var {Γ ρ x τ} : Γ.lookup x = some τ → HasTypeA Φ B Γ ρ (.var x) τ
  | un {Γ ρ op e} : HasTypeA Φ B Γ ρ e .num → HasTypeA Φ B Γ ρ (.un op e) .num
  | bin {Γ ρ op a b} : HasTypeA Φ B Γ ρ a .num → HasTypeA Φ B Γ ρ b .num → HasTypeA Φ B Γ ρ (.bin op a b) .num
  | ite {Γ ρ c a b τ} : HasTypeA Φ B Γ ρ c .num → HasTypeA Φ B Γ ρ a τ → HasTypeA Φ B Γ ρ b τ → HasTypeA Φ B Γ ρ (.ite c a b) τ
  | letE {Γ ρ x e body τ₁ τ} : HasTypeA Φ B Γ ρ e τ₁ → HasTypeA Φ B ((x, τ₁) :: Γ) ρ body τ → HasTypeA Φ B Γ ρ (.letE x e body) τ
  | letTup {Γ ρ xs e body τs τ} : HasTypeA Φ B Γ ρ e (.tup τs) → xs.length = τs.length →
      HasTypeA Φ B (bindCtx Γ xs τs) ρ body τ → HasTypeA Φ B Γ ρ (.letTup xs e body) τ
  | tup {Γ ρ es τs} : HasTypesA Φ B Γ ρ es τs → HasTypeA Φ B Γ ρ (.tup es) (.tup τs)
  | proj {Γ ρ e i τs τ} : HasTypeA Φ B Γ ρ e (.tup τs) → τs[i]? = some τ → HasTypeA Φ B Γ ρ (.proj e i) τ
  | call {Γ ρ f args site τs τ} : Φ.lookup f = some (τs, τ) → HasTypesA Φ B Γ ρ args τs → HasTypeA Φ B Γ ρ (.call f args site) τ
  | app {Γ ρ f args τs τ} : HasTypeA Φ B Γ ρ f (.fn τs τ) → HasTypesA Φ B Γ ρ args τs → HasTypeA Φ B Γ ρ (.app f args) τ
  /-- the parameter types are the annotated ones -/
  | lam {Γ ρ ps body τ} : HasTypeA Φ B (bindCtx Γ ps (ps.map B.ty)) none body τ →
      HasTypeA Φ B Γ ρ (.lam ps body) (.fn (ps.map B.ty) τ)
  | self {Γ τ} : HasTypeA Φ B Γ (some τ) .self τ
  | mem {Γ ρ e site} : HasTypeA Φ B Γ ρ e .num → HasTypeA Φ B Γ ρ (.mem e site) .num
  | delay {Γ ρ n e t site} : HasTypeA Φ B Γ ρ e .num → HasTypeA Φ B Γ ρ t .num → HasTypeA Φ B Γ ρ (.delay n e t site) .num
  | now {Γ ρ} : HasTypeA Φ B Γ ρ .now .num
  | samplerate {Γ ρ} : HasTypeA Φ B Γ ρ .samplerate .num
  | assign {Γ ρ x e rest τx τ} : Γ.lookup x = some τx → HasTypeA Φ B Γ ρ e τx → HasTypeA Φ B Γ ρ rest τ →
      HasTypeA Φ B Γ ρ (.assign x e rest) τ
inductive HasTypesA (Φ : Sig) (B : Binders) : Ctx → Option Ty → List Expr → List Ty → Prop
  | nil {Γ ρ} : HasTypesA Φ B Γ ρ [] []
  | cons {Γ ρ e es τ τs} : HasTypeA Φ B Γ ρ e τ → HasTypesA Φ B Γ ρ es τs → HasTypesA Φ B Γ ρ (e :: es) (τ :: τs)
end

/-! ### annotated derivations are derivations -/
mutual
theorem HasTypeA.toHasType {Φ : Sig} {B : Binders} : ∀ {Γ : Ctx} {ρ : Option Ty} {e : Expr} {τ : Ty},
    HasTypeA Φ B Γ ρ e τ → HasType Φ Γ ρ e τ
  | _, _, _, _, .lit => .lit
  | _, _, _, _, .var h => .var h
  | _, _, _, _, .un ha => .un ha.toHasType
  | _, _, _, _, .bin ha hb => .bin ha.toHasType hb.toHasType
  | _, _, _, _, .ite hc ha hb => .ite hc.toHasType ha.toHasType hb.toHasType
  | _, _, _, _, .letE ha hb => .letE ha.toHasType hb.toHasType
  | _, _, _, _, .letTup ha hl hb => .letTup ha.toHasType hl hb.toHasType
  | _, _, _, _, .tup hes => .tup hes.toHasTypes
  | _, _, _, _, .proj ha hi => .proj ha.toHasType hi
  | _, _, _, _, .call hΦ hargs => .call hΦ hargs.toHasTypes
  | _, _, _, _, .app hf hargs => .app hf.toHasType hargs.toHasTypes
  | _, _, _, _, .lam hb => .lam (by simp) hb.toHasType
  | _, _, _, _, .self => .self
  | _, _, _, _, .mem ha => .mem ha.toHasType
  | _, _, _, _, .delay ha hb => .delay ha.toHasType hb.toHasType
  | _, _, _, _, .now => .now
  | _, _, _, _, .samplerate => .samplerate
  | _, _, _, _, .assign hx ha hr => .assign hx ha.toHasType hr.toHasType
theorem HasTypesA.toHasTypes {Φ : Sig} {B : Binders} : ∀ {Γ : Ctx} {ρ : Option Ty} {es : List Expr} {τs : List Ty},
    HasTypesA Φ B Γ ρ es τs → HasTypes Φ Γ ρ es τs
  | _, _, _, _, .nil => .nil
  | _, _, _, _, .cons h hs => .cons h.toHasType hs.toHasTypes
end

/-! ### what the checker synthesises has an annotated derivation -/
mutual
theorem inferE_soundA (Φ : Sig) (B : Binders) : ∀ (e : Expr) (Γ : Ctx) (ρ : Option Ty) (τ : Ty),
    inferE Φ B Γ ρ e = some τ → HasTypeA Φ B Γ ρ e τ
  | .lit _, Γ, ρ, τ, h => by
    simp only [inferE, Option.some.injEq] at h; subst h; exact .lit
  | .var x, Γ, ρ, τ, h => by
    simp only [inferE] at h; exact .var h
  | .un op e, Γ, ρ, τ, h => by
    simp only [inferE] at h
    split at h
    · next he => simp only [Option.some.injEq] at h; subst h; exact .un (inferE_soundA Φ B e _ _ _ he)
    · simp at h
  | .bin op a b, Γ, ρ, τ, h => by
    simp only [inferE] at h
    split at h
    · next ha =>
      split at h
      · next hb =>
        simp only [Option.some.injEq] at h; subst h
        exact .bin (inferE_soundA Φ B a _ _ _ ha) (inferE_soundA Φ B b _ _ _ hb)
      · simp at h
    · simp at h
  | .ite c a b, Γ, ρ, τ, h => by
    simp only [inferE] at h
    split at h
    · next hc =>
      split at h
      · next τa ha =>
        split at h
        · next τb hb =>
          split at h
          · next hab =>
            simp only [Option.some.injEq] at h; subst h; subst hab
            exact .ite (inferE_soundA Φ B c _ _ _ hc) (inferE_soundA Φ B a _ _ _ ha) (inferE_soundA Φ B b _ _ _ hb)
          · simp at h
        · simp at h
      · simp at h
    · simp at h
  | .letE x e body, Γ, ρ, τ, h => by
    simp only [inferE] at h
    split at h
    · next τ₁ he => exact .letE (inferE_soundA Φ B e _ _ _ he) (inferE_soundA Φ B body _ _ _ h)
    · simp at h
  | .letTup xs e body, Γ, ρ, τ, h => by
    simp only [inferE] at h
    split at h
    · next τs he =>
      split at h
      · next hl => exact .letTup (inferE_soundA Φ B e _ _ _ he) hl (inferE_soundA Φ B body _ _ _ h)
      · simp at h
    · simp at h
  | .tup es, Γ, ρ, τ, h => by
    simp only [inferE] at h
    split at h
    · next τs hes => simp only [Option.some.injEq] at h; subst h; exact .tup (inferL_soundA Φ B es _ _ _ hes)
    · simp at h
  | .proj e i, Γ, ρ, τ, h => by
    simp only [inferE] at h
    split at h
    · next τs he => exact .proj (inferE_soundA Φ B e _ _ _ he) h
    · simp at h
  | .call f args site, Γ, ρ, τ, h => by
    simp only [inferE] at h
    split at h
    · next τs τ' hf =>
      split at h
      · next τs' hargs =>
        split at h
        · next heq =>
          simp only [Option.some.injEq] at h; subst h; subst heq
          exact .call hf (inferL_soundA Φ B args _ _ _ hargs)
        · simp at h
      · simp at h
    · simp at h
  | .app f args, Γ, ρ, τ, h => by
    simp only [inferE] at h
    split at h
    · next τs τ' hf =>
      split at h
      · next τs' hargs =>
        split at h
        · next heq =>
          simp only [Option.some.injEq] at h; subst h; subst heq
          exact .app (inferE_soundA Φ B f _ _ _ hf) (inferL_soundA Φ B args _ _ _ hargs)
        · simp at h
      · simp at h
    · simp at h
  | .lam ps body, Γ, ρ, τ, h => by
    simp only [inferE] at h
    split at h
    · next τ' hb =>
      simp only [Option.some.injEq] at h; subst h
      exact .lam (inferE_soundA Φ B body _ _ _ hb)
    · simp at h
  | .self, Γ, ρ, τ, h => by
    simp only [inferE] at h; subst h; exact .self
  | .mem e site, Γ, ρ, τ, h => by
    simp only [inferE] at h
    split at h
    · next he => simp only [Option.some.injEq] at h; subst h; exact .mem (inferE_soundA Φ B e _ _ _ he)
    · simp at h
  | .delay n e t site, Γ, ρ, τ, h => by
    simp only [inferE] at h
    split at h
    · next he =>
      split at h
      · next ht =>
        simp only [Option.some.injEq] at h; subst h
        exact .delay (inferE_soundA Φ B e _ _ _ he) (inferE_soundA Φ B t _ _ _ ht)
      · simp at h
    · simp at h
  | .now, Γ, ρ, τ, h => by
    simp only [inferE, Option.some.injEq] at h; subst h; exact .now
  | .samplerate, Γ, ρ, τ, h => by
    simp only [inferE, Option.some.injEq] at h; subst h; exact .samplerate
  | .assign x e rest, Γ, ρ, τ, h => by
    simp only [inferE] at h
    split at h
    · next τx hx =>
      split at h
      · next τe he =>
        split at h
        · next heq =>
          subst heq
          exact .assign hx (inferE_soundA Φ B e _ _ _ he) (inferE_soundA Φ B rest _ _ _ h)
        · simp at h
      · simp at h
    · simp at h
theorem inferL_soundA (Φ : Sig) (B : Binders) : ∀ (es : List Expr) (Γ : Ctx) (ρ : Option Ty) (τs : List Ty),
    inferL Φ B Γ ρ es = some τs → HasTypesA Φ B Γ ρ es τs
  | [], Γ, ρ, τs, h => by
    simp only [inferL, Option.some.injEq] at h; subst h; exact .nil
  | e :: es, Γ, ρ, τs, h => by
    simp only [inferL] at h
    split at h
    · next τ he =>
      split at h
      · next τs' hes =>
        simp only [Option.some.injEq] at h; subst h
        exact .cons (inferE_soundA Φ B e _ _ _ he) (inferL_soundA Φ B es _ _ _ hes)
      · simp at h
    · simp at h
end

/-- hence the synthesised type is a type of the declarative system -/
theorem inferE_sound (Φ : Sig) (B : Binders) (e : Expr) (Γ : Ctx) (ρ : Option Ty) (τ : Ty)
    (h : inferE Φ B Γ ρ e = some τ) : HasType Φ Γ ρ e τ := (inferE_soundA Φ B e Γ ρ τ h).toHasType

theorem inferL_sound (Φ : Sig) (B : Binders) (es : List Expr) (Γ : Ctx) (ρ : Option Ty) (τs : List Ty)
    (h : inferL Φ B Γ ρ es = some τs) : HasTypes Φ Γ ρ es τs := (inferL_soundA Φ B es Γ ρ τs h).toHasTypes

/-! ### `Agree` is decided by `agreeB` -/
theorem agreeB_iff (C : List (Nat × String)) : agreeB C = true ↔ Agree C := by
  unfold agreeB Agree
  simp only [List.all_eq_true, Bool.or_eq_true, Bool.not_eq_true', beq_eq_false_iff_ne, ne_eq, beq_iff_eq]
  constructor
  · intro h k f g hf hg
    rcases h (k, f) hf (k, g) hg with h | h
    · exact absurd rfl h
    · exact h
  · intro h p hp q hq
    by_cases hk : p.1 = q.1
    · right
      obtain ⟨k, f⟩ := p
      obtain ⟨k', g⟩ := q
      simp only at hk; subst hk
      exact h k f g hp hq
    · left; exact hk

instance (C : List (Nat × String)) : Decidable (Agree C) := decidable_of_iff _ (agreeB_iff C)

/-! ### functions, globals, programs -/
theorem checkFn_sound {Φ : Sig} {B : Binders} {Γg : Ctx} {d : FnDecl} {τs : List Ty} {τ : Ty}
    (h : checkFn Φ B Γg d τs τ = true) : FnOK Φ Γg d τs τ := by
  simp only [checkFn, Bool.and_eq_true, decide_eq_true_eq] at h
  obtain ⟨⟨⟨hl, hb⟩, hs⟩, ha⟩ := h
  refine ⟨hl, inferE_sound Φ B _ _ _ _ hb, ?_, (agreeB_iff _).1 ha⟩
  intro sh hsh
  rw [hsh] at hs
  simpa using hs

theorem checkGlobals_sound (B : Binders) : ∀ (gs : List (String × Expr)) (Γ : Ctx) (Ψg : List Ty),
    checkGlobals B Γ gs = some Ψg → GlobalsOK Γ gs Ψg
  | [], Γ, Ψg, h => by
    simp only [checkGlobals, Option.some.injEq] at h; subst h; exact .nil
  | (x, e) :: gs, Γ, Ψg, h => by
    simp only [checkGlobals] at h
    split at h
    · next τ he =>
      split at h
      · next hfo =>
        split at h
        · next τs hgs =>
          simp only [Option.some.injEq] at h; subst h
          exact .cons (inferE_sound [] B e _ _ _ he) hfo (checkGlobals_sound B gs _ _ hgs)
        · simp at h
      · simp at h
    · simp at h

/-- looking a name up in the signatures computed from the declarations finds the signature of the declaration `findFn` finds -/
theorem lookup_sigs (A : Annot) : ∀ (fns : List FnDecl) (f : String) (s : List Ty × Ty),
    (fns.map (sigOf A)).lookup f = some s → ∃ d, findFn fns f = some d ∧ d ∈ fns ∧ s = (sigOf A d).2
  | [], f, s, h => by simp at h
  | d :: fns, f, s, h => by
    simp only [List.map_cons, sigOf, List.lookup_cons] at h
    by_cases hn : f == d.name
    · simp only [hn, Option.some.injEq] at h
      refine ⟨d, ?_, by simp, by simp [sigOf, h]⟩
      have : d.name == f := by rw [beq_iff_eq] at hn ⊢; exact hn.symm
      simp [findFn, this]
    · simp only [hn] at h
      obtain ⟨d', hf, hm, hs⟩ := lookup_sigs A fns f s h
      refine ⟨d', ?_, by simp [hm], hs⟩
      have : (d.name == f) = false := by
        rw [Bool.eq_false_iff]; intro hc; rw [beq_iff_eq] at hc; subst hc; simp at hn
      simpa [findFn, List.find?_cons, this] using hf

theorem checkProg_sound {A : Annot} {P : Prog} {Φ : Sig} {Ψg : List Ty} {τ : Ty}
    (h : checkProg A P = some (Φ, Ψg, τ)) : WellTyped Φ Ψg τ P ∧ τ.fo = true ∧ Φ = P.fns.map (sigOf A) := by
  unfold checkProg at h
  split at h
  · simp at h
  · next Ψg' hg =>
    simp only at h
    split at h
    · next hfns =>
      split at h
      · next τ' hd =>
        split at h
        · next hdsp =>
          simp only [Option.some.injEq, Prod.mk.injEq] at h
          obtain ⟨hΦ, hΨ, hτ⟩ := h
          subst hΦ; subst hΨ; subst hτ
          simp only [Bool.and_eq_true] at hdsp
          refine ⟨⟨checkGlobals_sound _ _ _ _ hg, ?_, checkFn_sound hdsp.1⟩, hdsp.2, rfl⟩
          intro f τs τ hf
          obtain ⟨d, hfind, hmem, hs⟩ := lookup_sigs A P.fns f (τs, τ) hf
          refine ⟨d, hfind, ?_⟩
          rw [List.all_eq_true] at hfns
          have := checkFn_sound (hfns d hmem)
          simp only [Prod.ext_iff] at hs
          rw [hs.1, hs.2]
          exact this
        · simp at h
      · simp at h
    · simp at h

end Mimium.Core
