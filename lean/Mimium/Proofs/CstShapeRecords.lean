import Mimium.Proofs.CstShapeTypes
import Mimium.Proofs.CstKeepRecord
/-!
# Record literals and macro expansions
-/
namespace Mimium.Grammar
open Mimium.Gen (Kind SK)
open Mimium.Cst (PState Frame Green)
open Mimium.CstPrint (Ctx IsTok IsNode SepTail ItemOk itemRun commasFollowItems NoBrace)

variable {E : Env} {c : Ctx} {rec : Tag → St → St}

/-- `name = expr` -/
theorem recField_vc (s : St) (h : Em E c rec (R E c) recField s) : App (PField c) s (exec E rec recField s) := by
  have hshow : recField = .seq (expects [.Ident, .IdentParameter]) (.seq (expect .Assign) (.call .expr)) := rfl
  rw [hshow, em_seq, em_seq] at h
  rw [hshow, exec_seq, exec_seq]
  obtain ⟨h1, _, h2, _, h3⟩ := h
  obtain ⟨k, hk, _, x1, t1, w1, e1, o1⟩ := em_expects _ _ h1
  obtain ⟨_, x2, t2, w2, e2, o2⟩ := em_expect _ _ h2
  obtain ⟨w, e3, hw⟩ := h3.1
  refine ⟨.token t1 w1 :: .token t2 w2 :: w, by rw [e3, x2, e2, x1, e1]; simp, _, _, _, rfl, ?_, ⟨t2, w2, rfl, o2.eq rfl⟩, hw⟩
  simp only [List.mem_cons, List.mem_singleton, List.not_mem_nil, or_false] at hk
  rcases hk with rfl | rfl
  · exact Or.inl ⟨t1, w1, rfl, o1.eq rfl⟩
  · rcases o1 with o | ⟨o, _⟩
    · exact Or.inr ⟨t1, w1, rfl, o⟩
    · exact Or.inl ⟨t1, w1, rfl, o⟩

theorem vc_recordUpdateLoop (s : St) (h : Em E c rec (R E c) (body .recordUpdateLoop) s) :
    Rs E c .recordUpdateLoop s (exec E rec (body .recordUpdateLoop) s) :=
  sepLoop_vc .recordUpdateLoop .BlockEnd (by decide) recField (PField c) (fun _ _ h => h) (fun s _ h => Or.inl (recField_vc s h)) s h

theorem vc_recordFieldLoop (s : St) (h : Em E c rec (R E c) (body .recordFieldLoop) s) :
    Rs E c .recordFieldLoop s (exec E rec (body .recordFieldLoop) s) := by
  have hshow : body .recordFieldLoop = .ite (.check .Comma) (.seq .bump (.ite (.neg (.check .BlockEnd))
      (.ite (.check .DoubleDot) .bump (.seq recField (.call .recordFieldLoop))) (.call .recordFieldLoop))) .skip := rfl
  rw [hshow] at h ⊢
  revert h
  refine ite_vc (P := fun s' => Sep E c (RF c) s s') _ _ _ _ (fun hc h => ?_) (fun _ _ => by rw [exec_skip]; exact Sep.refl _ s)
  have hp := (evalCond_check s .Comma).mp hc
  rw [em_seq] at h
  obtain ⟨hb, _, hr⟩ := h
  rw [exec_seq]
  obtain ⟨ti, w, eb, kb⟩ := bump_after_check .Comma s hp rfl hb
  have hcm : IsTok c .Comma (.token ti w) := ⟨ti, w, rfl, kb⟩
  revert hr
  refine ite_vc (P := fun s' => Sep E c (RF c) s s') _ _ _ _ (fun _ => ?_) (fun hcl h => ?_)
  · refine ite_vc (P := fun s' => Sep E c (RF c) s s') _ _ _ _ (fun hdd h => ?_) (fun _ h => ?_)
    · obtain ⟨td, wd, ed, kd⟩ := bump_after_check .DoubleDot _ ((evalCond_check _ .DoubleDot).mp hdd) rfl h
      refine Or.inl ⟨[.token ti w, .token td wd], by rw [ed, eb]; simp, ?_, fun hne => absurd hp hne⟩
      exact .cons _ [.token td wd] [] hcm (Or.inr ⟨_, rfl, ⟨td, wd, rfl, kd⟩⟩) .nil
    · rw [em_seq] at h
      obtain ⟨hf, _, hl⟩ := h
      rw [exec_seq]
      obtain ⟨wf, ef, hwf⟩ := recField_vc _ hf
      rcases hl.1 with ⟨tail, et, st, _⟩ | he
      · exact Or.inl ⟨.token ti w :: (wf ++ tail), by rw [et, ef, eb]; simp, .cons _ _ _ hcm (Or.inl hwf) st, fun hne => absurd hp hne⟩
      · exact Or.inr he
  · rcases h.1 with ⟨tail, et, st, hnc⟩ | he
    · have hpc : peek E (exec E rec .bump s) = some Kind.BlockEnd := by
        apply (evalCond_check _ .BlockEnd).mp
        rw [evalCond_neg] at hcl
        simpa using hcl
      have : tail = [] := hnc (by rw [hpc]; decide)
      subst this
      exact Or.inl ⟨[.token ti w], by rw [et, eb]; simp, .trail _ hcm, fun hne => absurd hp hne⟩
    · exact Or.inr he

/-! ## Items of a record body -/

/-- a child that is neither a brace nor a comma token -/
def Plain (c : Ctx) (g : Green) : Prop := ∀ i w, g = .token i w → c.kind i ≠ .BlockBegin ∧ c.kind i ≠ .BlockEnd ∧ c.kind i ≠ .Comma

def RItemOk (c : Ctx) (w : List Green) : Prop := w ≠ [] ∧ ∀ g ∈ w, Plain c g

theorem plain_node (k : Nat) (a : List Green) : Plain c (.node k a) := fun _ _ h => by cases h

theorem plain_tok (k : Kind) (g : Green) (h : IsTok c k g) (h1 : k ≠ .BlockBegin) (h2 : k ≠ .BlockEnd) (h3 : k ≠ .Comma) : Plain c g := by
  obtain ⟨i, w, rfl, hk⟩ := h
  intro i' w' he
  cases he
  rw [hk]; exact ⟨h1, h2, h3⟩

theorem plain_PE (w : List Green) (h : PE w) : ∀ g ∈ w, Plain c g := by
  obtain ⟨k, a, rfl | ⟨a', rfl⟩⟩ := h <;> intro g hg <;> simp only [List.mem_cons, List.mem_singleton, List.not_mem_nil, or_false] at hg
  · subst hg; exact plain_node _ _
  · rcases hg with rfl | rfl <;> exact plain_node _ _

theorem ritem_PField (w : List Green) (h : PField c w) : RItemOk c w := by
  obtain ⟨i, a, e, rfl, hi, ha, he⟩ := h
  refine ⟨by simp, ?_⟩
  intro g hg
  simp only [List.mem_cons] at hg
  rcases hg with rfl | rfl | hg
  · rcases hi with hi | hi
    · exact plain_tok _ _ hi (by decide) (by decide) (by decide)
    · exact plain_tok _ _ hi (by decide) (by decide) (by decide)
  · exact plain_tok _ _ ha (by decide) (by decide) (by decide)
  · exact plain_PE e he g hg

theorem ritem_RF (w : List Green) (h : RF c w) : RItemOk c w := by
  rcases h with h | ⟨d, rfl, hd⟩
  · exact ritem_PField w h
  · exact ⟨by simp, by intro g hg; simp only [List.mem_singleton] at hg; subst hg; exact plain_tok _ _ hd (by decide) (by decide) (by decide)⟩

theorem cfi_plain (p : Bool) (it w : List Green) (h : ∀ g ∈ it, Plain c g) (hne : it ≠ []) :
    commasFollowItems c p (it ++ w) = commasFollowItems c true w := by
  induction it generalizing p with
  | nil => exact absurd rfl hne
  | cons g gs ih =>
    have hg := h g (by simp)
    have hnc : (CstPrint.tokKind c g == some Kind.Comma) = false := by
      cases g with
      | node k a => simp [CstPrint.tokKind]
      | token i w' =>
        simp only [CstPrint.tokKind, beq_eq_false_iff_ne, ne_eq, Option.some.injEq]
        exact (hg i w' rfl).2.2
    simp only [List.cons_append, commasFollowItems, hnc, Bool.false_eq_true, if_false]
    by_cases hgs : gs = []
    · subst hgs; simp
    · exact ih true (fun x hx => h x (by simp [hx])) hgs

theorem cfi_septail (tail : List Green) (h : SepTail c (RItemOk c) tail) : commasFollowItems c true tail = true := by
  induction h with
  | nil => rfl
  | trail g hg =>
    obtain ⟨i, w, rfl, hk⟩ := hg
    simp [commasFollowItems, CstPrint.tokKind, hk]
  | cons g item tail hg hitem _ ih =>
    obtain ⟨i, w, rfl, hk⟩ := hg
    simp only [commasFollowItems, CstPrint.tokKind, hk, beq_self_eq_true, if_true, Bool.true_and]
    rw [cfi_plain false item tail hitem.2 hitem.1]
    exact ih

theorem noBrace_plain (g : Green) (h : Plain c g) : NoBrace c g := by
  constructor
  · rintro ⟨i, w, rfl, hk⟩; exact (h i w rfl).1 hk
  · rintro ⟨i, w, rfl, hk⟩; exact (h i w rfl).2.1 hk

theorem noBrace_septail (tail : List Green) (h : SepTail c (RItemOk c) tail) : ∀ g ∈ tail, NoBrace c g := by
  induction h with
  | nil => intro g hg; cases hg
  | trail g hg =>
    intro x hx; simp only [List.mem_singleton] at hx; subst hx
    obtain ⟨i, w, rfl, hk⟩ := hg
    constructor
    · rintro ⟨i', w', he, hk'⟩; cases he; rw [hk] at hk'; cases hk'
    · rintro ⟨i', w', he, hk'⟩; cases he; rw [hk] at hk'; cases hk'
  | cons g item tail hg hitem _ ih =>
    intro x hx
    simp only [List.mem_cons, List.mem_append] at hx
    rcases hx with rfl | hx | hx
    · obtain ⟨i, w, rfl, hk⟩ := hg
      constructor
      · rintro ⟨i', w', he, hk'⟩; cases he; rw [hk] at hk'; cases hk'
      · rintro ⟨i', w', he, hk'⟩; cases he; rw [hk] at hk'; cases hk'
    · exact noBrace_plain _ (hitem.2 x hx)
    · exact ih x hx

/-! ## `parse_record_expr` -/

/-- the inside of a record literal -/
def recBody : Cmd :=
  .ite (.both (.check .Ident) (.peekIs 1 .LeftArrow))
    (seqs [.call .expr, expect .LeftArrow, recField, .call .recordUpdateLoop])
    (seqs [.ite (.check .DoubleDot) .bump recField, .call .recordFieldLoop])

theorem rec_mid (s : St) (_hW : W E c s) (h : Em E c rec (R E c) recBody s) :
    (∃ it tail, topCh (exec E rec recBody s) = topCh s ++ (it ++ tail) ∧ RItemOk c it ∧ SepTail c (RItemOk c) tail) ∨
      AtEnd E (exec E rec recBody s) := by
  revert h
  unfold recBody
  refine ite_vc (P := fun s' => (∃ it tail, topCh s' = topCh s ++ (it ++ tail) ∧ RItemOk c it ∧ SepTail c (RItemOk c) tail) ∨ AtEnd E s')
    _ _ _ _ (fun _ h => ?_) (fun _ h => ?_)
  · have hshow : seqs [Cmd.call Tag.expr, expect Kind.LeftArrow, recField, Cmd.call Tag.recordUpdateLoop] =
        .seq (.call .expr) (.seq (expect .LeftArrow) (.seq recField (.call .recordUpdateLoop))) := rfl
    rw [hshow, em_seq, em_seq, em_seq] at h
    rw [hshow, exec_seq, exec_seq, exec_seq]
    obtain ⟨h1, _, h2, _, h3, _, h4⟩ := h
    obtain ⟨we, ee, hwe⟩ := h1.1
    obtain ⟨_, x2, t2, w2, e2, o2⟩ := em_expect _ _ h2
    obtain ⟨wf, ef, hwf⟩ := recField_vc _ h3
    rcases h4.1 with ⟨tail, et, st, _⟩ | he
    · refine Or.inl ⟨we ++ .token t2 w2 :: wf, tail, by rw [et, ef, x2, e2, ee]; simp, ⟨by simp, ?_⟩, st.mono ritem_PField⟩
      intro g hg
      simp only [List.mem_append, List.mem_cons] at hg
      rcases hg with hg | rfl | hg
      · exact plain_PE we hwe g hg
      · exact plain_tok .LeftArrow _ ⟨t2, w2, rfl, o2.eq rfl⟩ (by decide) (by decide) (by decide)
      · exact (ritem_PField wf hwf).2 g hg
    · exact Or.inr he
  · have hshow : seqs [Cmd.ite (Cond.check Kind.DoubleDot) Cmd.bump recField, Cmd.call Tag.recordFieldLoop] =
        .seq (.ite (.check .DoubleDot) .bump recField) (.call .recordFieldLoop) := rfl
    rw [hshow, em_seq] at h
    rw [hshow, exec_seq]
    obtain ⟨h1, _, h2⟩ := h
    have hfirst : ∃ it, topCh (exec E rec (.ite (.check .DoubleDot) .bump recField) s) = topCh s ++ it ∧ RItemOk c it := by
      revert h1
      refine ite_vc (P := fun s' => ∃ it, topCh s' = topCh s ++ it ∧ RItemOk c it) _ _ _ _ (fun hc h => ?_) (fun _ h => ?_)
      · obtain ⟨td, wd, ed, kd⟩ := bump_after_check .DoubleDot s ((evalCond_check s .DoubleDot).mp hc) rfl h
        exact ⟨[.token td wd], ed, ritem_RF _ (Or.inr ⟨_, rfl, ⟨td, wd, rfl, kd⟩⟩)⟩
      · obtain ⟨wf, ef, hwf⟩ := recField_vc _ h
        exact ⟨wf, ef, ritem_PField wf hwf⟩
    obtain ⟨it, eit, hit⟩ := hfirst
    rcases h2.1 with ⟨tail, et, st, _⟩ | he
    · exact Or.inl ⟨it, tail, by rw [et, eit, List.append_assoc], hit, st.mono ritem_RF⟩
    · exact Or.inr he

theorem nok_recordExpr (s : St) : NOK (E := E) (c := c) (rec := rec) (body .recordExpr) s :=
  nok_node _ _ s (by decide) fun hW h => by
    obtain ⟨io, wo, bd, ic, wc, ko, kc, e, hb⟩ := listNode_vc_gen .BlockBegin .BlockEnd rfl rfl (RItemOk c) recBody rec_mid _ rfl h
    intro _ _
    have e' : topCh (exec E rec (seqs [expect Kind.BlockBegin, unless_ (Cond.check Kind.BlockEnd) recBody, expect Kind.BlockEnd])
        (prim E s (.startNode SK.RecordExpr.toNat))) = .token io wo :: (bd ++ [.token ic wc]) := e
    show CstPrint.pfKeeps c (CstPrint.dispatch .RecordExpr) (CstPrint.chL c (topCh (exec E rec
      (seqs [expect Kind.BlockBegin, unless_ (Cond.check Kind.BlockEnd) recBody, expect Kind.BlockEnd]) (prim E s (.startNode SK.RecordExpr.toNat))))) = true
    rw [e']
    apply CstPrint.recShape_ok
    refine ⟨io, wo, bd, ic, wc, ko, kc, rfl, ?_, ?_⟩
    · rcases hb with rfl | ⟨it, tail, rfl, hit, ht⟩
      · intro g hg; cases hg
      · intro g hg
        rcases List.mem_append.mp hg with hg | hg
        · exact noBrace_plain _ (hit.2 g hg)
        · exact noBrace_septail tail ht g hg
    · rcases hb with rfl | ⟨it, tail, rfl, hit, ht⟩
      · rfl
      · rw [cfi_plain false it tail hit.2 hit.1]; exact cfi_septail tail ht

/-! ## `parse_macro_expansion` -/

theorem one_of_PE (w : List Green) (h : PE w) (hs : ∀ g ∈ w, CstPrint.isNodeOf g [.AssignExpr] = false) : ∃ m, w = [m] ∧ IsNode m := by
  obtain ⟨k, a, rfl | ⟨a', rfl⟩⟩ := h
  · exact ⟨_, rfl, k, a, rfl⟩
  · have := hs (.node SK.AssignExpr.toNat a') (by simp)
    simp [CstPrint.isNodeOf, CstPrint.nodeKind] at this

theorem septail_one (tail : List Green) (h : SepTail c PE tail) (hs : ∀ g ∈ tail, CstPrint.isNodeOf g [.AssignExpr] = false) :
    SepTail c (fun w => ∃ m, w = [m] ∧ IsNode m) tail := by
  induction h with
  | nil => exact .nil
  | trail g hg => exact .trail g hg
  | cons g item tail hg hitem _ ih =>
    exact .cons g item tail hg (one_of_PE item hitem (fun x hx => hs x (by simp [hx]))) (ih (fun x hx => hs x (by simp [hx])))

theorem nok_macroExpansion (s : St) : NOK (E := E) (c := c) (rec := rec) (body .macroExpansion) s :=
  nok_node _ _ s (by decide) fun hW h => by
    have hshow : seqs [Cmd.ite (Cond.peekIs 1 Kind.DoubleColon) (Cmd.call Tag.qualifiedPath) (expect Kind.Ident),
        expectAll [Kind.MacroExpand, Kind.ParenBegin],
        unless_ (Cond.check Kind.ParenEnd) (seqs [Cmd.call Tag.expr, Cmd.call Tag.macroArgLoop]), expect Kind.ParenEnd] =
      .seq (.ite (.peekIs 1 .DoubleColon) (.call .qualifiedPath) (expect .Ident)) (.seq (.seq (expect .MacroExpand) (expect .ParenBegin))
        (.seq (.ite (.neg (.check .ParenEnd)) (.seq (.call .expr) (.call .macroArgLoop)) .skip) (expect .ParenEnd))) := rfl
    rw [hshow, em_seq, em_seq, em_seq, em_seq] at h
    rw [hshow, exec_seq, exec_seq, exec_seq, exec_seq]
    obtain ⟨h1, _, ⟨h2, _, h3⟩, _, h4, _, h5⟩ := h
    rw [exec_seq] at h4 h5
    generalize hs0 : prim E s (.startNode SK.MacroExpansion.toNat) = s0 at *
    have hs0t : topCh s0 = [] := by rw [← hs0]; rfl
    have hhead : ∃ hd, topCh (exec E rec (.ite (.peekIs 1 .DoubleColon) (.call .qualifiedPath) (expect .Ident)) s0) = [hd] ∧
        (IsNode hd ∨ IsTok c .Ident hd) := by
      revert h1
      refine ite_vc (P := fun s' => ∃ hd, topCh s' = [hd] ∧ (IsNode hd ∨ IsTok c .Ident hd)) _ _ _ _ (fun _ h => ?_) (fun _ h => ?_)
      · obtain ⟨w, e, k, a, rfl⟩ := And.left h
        exact ⟨_, by rw [e, hs0t]; rfl, Or.inl ⟨k, a, rfl⟩⟩
      · obtain ⟨_, x, t, w, e, o⟩ := em_expect _ _ h
        exact ⟨_, by rw [x, e, hs0t]; rfl, Or.inr ⟨t, w, rfl, o.eq rfl⟩⟩
    obtain ⟨hd, ehd, hhd⟩ := hhead
    generalize exec E rec (.ite (.peekIs 1 .DoubleColon) (.call .qualifiedPath) (expect .Ident)) s0 = s1 at *
    obtain ⟨_, x2, t2, w2, e2, o2⟩ := em_expect _ _ h2
    obtain ⟨_, x3, t3, w3, e3, o3⟩ := em_expect _ _ h3
    obtain ⟨_, x5, t5, w5, e5, o5⟩ := em_expect _ _ h5
    have e23 : topCh (exec E rec (expect .ParenBegin) (exec E rec (expect .MacroExpand) s1)) = [hd, .token t2 w2, .token t3 w3] := by
      rw [x3, e3, x2, e2, ehd]; rfl
    generalize exec E rec (expect .ParenBegin) (exec E rec (expect .MacroExpand) s1) = s3 at *
    -- the arguments
    have hargs : (∃ bd, topCh (exec E rec (.ite (.neg (.check .ParenEnd)) (.seq (.call .expr) (.call .macroArgLoop)) .skip) s3) = topCh s3 ++ bd ∧
        (bd = [] ∨ ∃ it tail, bd = it ++ tail ∧ PE it ∧ SepTail c PE tail)) ∨
        AtEnd E (exec E rec (.ite (.neg (.check .ParenEnd)) (.seq (.call .expr) (.call .macroArgLoop)) .skip) s3) := by
      revert h4
      refine ite_vc (P := fun s' => (∃ bd, topCh s' = topCh s3 ++ bd ∧ (bd = [] ∨ ∃ it tail, bd = it ++ tail ∧ PE it ∧ SepTail c PE tail)) ∨ AtEnd E s')
        _ _ _ _ (fun _ h => ?_) (fun _ _ => Or.inl ⟨[], by rw [exec_skip]; simp, Or.inl rfl⟩)
      rw [em_seq] at h
      obtain ⟨ha, _, hl⟩ := h
      rw [exec_seq]
      obtain ⟨wa, ea, hwa⟩ := ha.1
      rcases hl.1 with ⟨tail, et, st, _⟩ | he
      · exact Or.inl ⟨wa ++ tail, by rw [et, ea, List.append_assoc], Or.inr ⟨wa, tail, rfl, hwa, st⟩⟩
      · exact Or.inr he
    rcases hargs with ⟨bd, ebd, hbd⟩ | he
    · intro hst _
      have hall : topCh (exec E rec (expect .ParenEnd) (exec E rec (.ite (.neg (.check .ParenEnd)) (.seq (.call .expr) (.call .macroArgLoop)) .skip) s3)) =
          hd :: .token t2 w2 :: .token t3 w3 :: (bd ++ [.token t5 w5]) := by
        rw [x5, e5, ebd, e23]; simp
      rw [hall] at hst ⊢
      simp only [CstPrint.strictAt, List.all_eq_true, Bool.not_eq_true'] at hst
      apply CstPrint.macShape_ok
      refine ⟨hd, t2, w2, t3, w3, bd, t5, w5, hhd, o2.eq rfl, o3.eq rfl, o5.eq rfl, rfl, ?_⟩
      rcases hbd with rfl | ⟨it, tail, rfl, hit, ht⟩
      · exact Or.inl rfl
      · have hsit : ∀ g ∈ it, CstPrint.isNodeOf g [.AssignExpr] = false := fun g hg => hst g (by simp [hg])
        have hstail : ∀ g ∈ tail, CstPrint.isNodeOf g [.AssignExpr] = false := fun g hg => hst g (by simp [hg])
        obtain ⟨m, rfl, hm⟩ := one_of_PE it hit hsit
        exact Or.inr ⟨m, tail, rfl, hm, septail_one tail ht hstail⟩
    · exact (em_expect_atEnd _ _ h5 he).elim

end Mimium.Grammar
