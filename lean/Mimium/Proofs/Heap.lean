import Mimium.Model.Heap
/-! Lemmas about the reference-counted slot store (`Model/Heap.lean`). -/
namespace Mimium.Heap

def SameSlot (k k' : Key) : Prop := k.space = k'.space ∧ k.slot = k'.slot

instance (k k' : Key) : Decidable (SameSlot k k') := by unfold SameSlot; infer_instance

theorem holds_iff (c : Cell) (k : Key) : c.holds k = true ↔ (c.space = k.space ∧ c.slot = k.slot) := by
  simp [Cell.holds]

theorem holds_congr {k k' : Key} (h : SameSlot k k') (c : Cell) : c.holds k = c.holds k' := by
  simp [Cell.holds, h.1, h.2]

theorem find_congr {k k' : Key} (h : SameSlot k k') : ∀ s : Store, find s k = find s k' := by
  intro s
  induction s with
  | nil => rfl
  | cons c s ih => simp [find, holds_congr h c, ih]

theorem find_holds : ∀ {s : Store} {k : Key} {c : Cell}, find s k = some c → c.holds k = true := by
  intro s
  induction s with
  | nil => intro k c h; simp [find] at h
  | cons d s ih =>
    intro k c h
    simp only [find] at h
    split at h
    · cases h; assumption
    · exact ih h

theorem sameSlot_of_eq_gen {k k' : Key} (h : SameSlot k k') (hg : k.gen = k'.gen) : k = k' := by
  cases k; cases k'; simp_all [SameSlot]

/-- lookup after an overwrite of the slot of `k` -/
theorem find_upd (s : Store) (k k' : Key) (r : Option Nat) :
    find (upd s k r) k' =
      if SameSlot k k' then (find s k).map (fun _ => ⟨k.space, k.slot, k.gen, r⟩) else find s k' := by
  induction s with
  | nil => simp [upd, find]
  | cons c s ih =>
    simp only [upd]
    by_cases hc : c.holds k = true
    · simp only [hc, if_true, find]
      by_cases hs : SameSlot k k'
      · have : (⟨k.space, k.slot, k.gen, r⟩ : Cell).holds k' = true := by
          simp [Cell.holds, hs.1, hs.2]
        simp [this, hs]
      · have h1 : (⟨k.space, k.slot, k.gen, r⟩ : Cell).holds k' = false := by
          simp only [Cell.holds, Bool.and_eq_false_iff, beq_eq_false_iff_ne, ne_eq]
          by_cases h : k.space = k'.space
          · right; intro h2; exact hs ⟨h, h2⟩
          · left; exact h
        have h2 : c.holds k' = false := by
          rw [holds_iff] at hc
          simp only [Cell.holds, Bool.and_eq_false_iff, beq_eq_false_iff_ne, ne_eq]
          by_cases h : c.space = k'.space
          · right; intro h3; exact hs ⟨hc.1 ▸ h, hc.2 ▸ h3⟩
          · left; exact h
        simp [h1, h2, hs]
    · simp only [hc, find, Bool.false_eq_true, if_false]
      by_cases hs : SameSlot k k'
      · have : c.holds k' = false := by rw [← holds_congr hs]; simpa using hc
        simp [this, hs, ih]
      · simp only [hs, if_false] at ih ⊢
        rw [ih]

theorem rcOf_some_find {s : Store} {k : Key} {n : Nat} (h : rcOf s k = some n) :
    ∃ c, find s k = some c ∧ c.gen = k.gen ∧ c.rc = some n := by
  unfold rcOf at h
  split at h
  · rename_i c hc
    split at h
    · exact ⟨c, hc, ‹_›, h⟩
    · cases h
  · cases h

/-- refcount of `k` itself after an overwrite of its (existing) slot -/
theorem rcOf_upd_self {s : Store} {k : Key} {c : Cell} (h : find s k = some c) (r : Option Nat) :
    rcOf (upd s k r) k = r := by
  have hs : SameSlot k k := ⟨rfl, rfl⟩
  simp [rcOf, find_upd, hs, h]

/-- refcount of another key after an overwrite of the live object `k` -/
theorem rcOf_upd_other {s : Store} {k k' : Key} {c : Cell} (h : find s k = some c) (hg : c.gen = k.gen)
    (hne : k' ≠ k) (r : Option Nat) :
    rcOf (upd s k r) k' = rcOf s k' := by
  by_cases hs : SameSlot k k'
  · have hgen : k.gen ≠ k'.gen := fun e => hne (sameSlot_of_eq_gen hs e).symm
    have hf : find s k' = some c := by rw [← find_congr hs]; exact h
    have : c.gen ≠ k'.gen := hg ▸ hgen
    simp [rcOf, find_upd, hs, h, hf, hgen, this]
  · simp [rcOf, find_upd, hs]

/-! ## what a successful step needs and does -/

theorem live_iff {s : Store} {k : Key} : live s k = true ↔ ∃ n, rcOf s k = some n := by
  simp [live, Option.isSome_iff_exists]

/-- shape of a successful step, by kind -/
theorem step_alloc {s s' : Store} {k : Key} (h : step s ⟨.alloc, k⟩ = some s') :
    (find s k = none ∧ s' = ⟨k.space, k.slot, k.gen, some 1⟩ :: s) ∨
    (∃ c, find s k = some c ∧ c.rc = none ∧ c.gen < k.gen ∧ s' = upd s k (some 1)) := by
  simp only [step] at h
  split at h
  · left; exact ⟨‹_›, by cases h; rfl⟩
  · rename_i c hc
    right
    split at h
    · rename_i hcond
      simp only [Bool.and_eq_true, Option.isNone_iff_eq_none, decide_eq_true_eq] at hcond
      exact ⟨c, hc, hcond.1, hcond.2, by cases h; rfl⟩
    · cases h

theorem step_retain {s s' : Store} {k : Key} (h : step s ⟨.retain, k⟩ = some s') :
    ∃ n, rcOf s k = some (n + 1) ∧ s' = upd s k (some (n + 2)) := by
  simp only [step] at h
  split at h
  · rename_i n hn; exact ⟨n, hn, by cases h; rfl⟩
  · cases h

theorem step_release {s s' : Store} {k : Key} (h : step s ⟨.release, k⟩ = some s') :
    ∃ n, rcOf s k = some (n + 1) ∧ s' = upd s k (some n) := by
  simp only [step] at h
  split at h
  · rename_i n hn; exact ⟨n, hn, by cases h; rfl⟩
  · cases h

theorem step_free {s s' : Store} {k : Key} (h : step s ⟨.free, k⟩ = some s') :
    rcOf s k = some 0 ∧ s' = upd s k none := by
  simp only [step] at h
  split at h
  · rename_i hn; exact ⟨hn, by cases h; rfl⟩
  · cases h

theorem step_use {s s' : Store} {k : Key} (h : step s ⟨.use, k⟩ = some s') :
    ∃ n, rcOf s k = some (n + 1) ∧ s' = s := by
  simp only [step] at h
  split at h
  · rename_i n hn; exact ⟨n, hn, by cases h; rfl⟩
  · cases h

theorem step_close {s s' : Store} {k : Key} (h : step s ⟨.close, k⟩ = some s') :
    ∃ n, rcOf s k = some (n + 1) ∧ s' = s := by
  simp only [step] at h
  split at h
  · rename_i n hn; exact ⟨n, hn, by cases h; rfl⟩
  · cases h

/-- every operation except an insertion needs a live handle -/
theorem step_nonalloc_live {s s' : Store} {o : Op} (h : step s o = some s') (hk : o.kind ≠ .alloc) :
    live s o.key = true := by
  obtain ⟨kd, k⟩ := o
  rw [live_iff]
  cases kd with
  | alloc => exact absurd rfl hk
  | retain => obtain ⟨n, hn, _⟩ := step_retain h; exact ⟨_, hn⟩
  | release => obtain ⟨n, hn, _⟩ := step_release h; exact ⟨_, hn⟩
  | free => exact ⟨_, (step_free h).1⟩
  | use => obtain ⟨n, hn, _⟩ := step_use h; exact ⟨_, hn⟩
  | close => obtain ⟨n, hn, _⟩ := step_close h; exact ⟨_, hn⟩

/-- ... and, except for the removal itself, a count of at least one -/
theorem step_needs_positive {s s' : Store} {o : Op} (h : step s o = some s') (hk : o.kind ≠ .alloc)
    (hf : o.kind ≠ .free) : ∃ n, rcOf s o.key = some (n + 1) := by
  obtain ⟨kd, k⟩ := o
  cases kd with
  | alloc => exact absurd rfl hk
  | retain => obtain ⟨n, hn, _⟩ := step_retain h; exact ⟨_, hn⟩
  | release => obtain ⟨n, hn, _⟩ := step_release h; exact ⟨_, hn⟩
  | free => exact absurd rfl hf
  | use => obtain ⟨n, hn, _⟩ := step_use h; exact ⟨_, hn⟩
  | close => obtain ⟨n, hn, _⟩ := step_close h; exact ⟨_, hn⟩

/-! ## a removed handle stays dead for ever (generations only grow) -/

/-- `k` is not live and its slot has already reached (or passed) its generation -/
def Retired (s : Store) (k : Key) : Prop := rcOf s k = none ∧ ∃ c, find s k = some c ∧ k.gen ≤ c.gen

theorem retired_not_live {s : Store} {k : Key} (h : Retired s k) : live s k = false := by
  simp [live, h.1]

/-- overwriting the live object `k0` (keeping its generation) keeps every retired handle retired -/
theorem retired_upd {s : Store} {k0 k : Key} {n : Nat} (h0 : rcOf s k0 = some n) (r : Option Nat)
    (hr : Retired s k) : Retired (upd s k0 r) k := by
  obtain ⟨c0, hf0, hg0, hrc0⟩ := rcOf_some_find h0
  obtain ⟨hdead, c, hf, hle⟩ := hr
  by_cases hs : SameSlot k0 k
  · have hfc : find s k = some c0 := by rw [← find_congr hs]; exact hf0
    have hc : c = c0 := by rw [hf] at hfc; cases hfc; rfl
    subst hc
    have hne : c.gen ≠ k.gen := by
      intro e
      simp [rcOf, hf, e, hrc0] at hdead
    have hlt : k.gen ≠ k0.gen := by omega
    refine ⟨?_, ⟨k0.space, k0.slot, k0.gen, r⟩, ?_, ?_⟩
    · simp [rcOf, find_upd, hs, hf0, Ne.symm hlt]
    · simp [find_upd, hs, hf0]
    · simp only; omega
  · refine ⟨?_, c, ?_, hle⟩
    · simpa [rcOf, find_upd, hs] using hdead
    · simpa [find_upd, hs] using hf

theorem step_retired {s s' : Store} {o : Op} {k : Key} (h : step s o = some s') (hr : Retired s k) :
    Retired s' k := by
  obtain ⟨kd, k0⟩ := o
  cases kd with
  | alloc =>
    rcases step_alloc h with ⟨hnone, rfl⟩ | ⟨c0, hf0, hvac, hlt, rfl⟩
    · obtain ⟨hdead, c, hf, hle⟩ := hr
      have hns : ¬ SameSlot k0 k := by
        intro hs; rw [find_congr hs] at hnone; rw [hnone] at hf; cases hf
      have hh : (⟨k0.space, k0.slot, k0.gen, some 1⟩ : Cell).holds k = false := by
        simp only [Cell.holds, Bool.and_eq_false_iff, beq_eq_false_iff_ne, ne_eq]
        by_cases h1 : k0.space = k.space
        · right; intro h2; exact hns ⟨h1, h2⟩
        · left; exact h1
      refine ⟨?_, c, ?_, hle⟩
      · simpa [rcOf, find, hh] using hdead
      · simpa [find, hh] using hf
    · obtain ⟨hdead, c, hf, hle⟩ := hr
      by_cases hs : SameSlot k0 k
      · have hfc : find s k = some c0 := by rw [← find_congr hs]; exact hf0
        have hc : c = c0 := by rw [hf] at hfc; cases hfc; rfl
        subst hc
        have hne : k0.gen ≠ k.gen := by omega
        refine ⟨?_, ⟨k0.space, k0.slot, k0.gen, some 1⟩, ?_, ?_⟩
        · simp [rcOf, find_upd, hs, hf0, hne]
        · simp [find_upd, hs, hf0]
        · simp only; omega
      · refine ⟨?_, c, ?_, hle⟩
        · simpa [rcOf, find_upd, hs] using hdead
        · simpa [find_upd, hs] using hf
  | retain => obtain ⟨n, hn, rfl⟩ := step_retain h; exact retired_upd hn _ hr
  | release => obtain ⟨n, hn, rfl⟩ := step_release h; exact retired_upd hn _ hr
  | free => obtain ⟨hn, rfl⟩ := step_free h; exact retired_upd hn _ hr
  | use => obtain ⟨n, _, rfl⟩ := step_use h; exact hr
  | close => obtain ⟨n, _, rfl⟩ := step_close h; exact hr

/-- the removal retires the handle -/
theorem step_free_retired {s s' : Store} {k : Key} (h : step s ⟨.free, k⟩ = some s') : Retired s' k := by
  obtain ⟨hn, rfl⟩ := step_free h
  obtain ⟨c, hf, hg, _⟩ := rcOf_some_find hn
  refine ⟨rcOf_upd_self hf none, ⟨k.space, k.slot, k.gen, none⟩, ?_, Nat.le_refl _⟩
  simp [find_upd, hf, SameSlot]

/-- a handle that is live after a step was live before it or is the one just inserted -/
theorem step_live_origin {s s' : Store} {o : Op} {k : Key} (h : step s o = some s') (hl : live s' k = true) :
    live s k = true ∨ o = ⟨.alloc, k⟩ := by
  obtain ⟨kd, k0⟩ := o
  by_cases hk : k = k0
  · subst hk
    cases kd with
    | alloc => right; rfl
    | retain => left; exact step_nonalloc_live h (by simp)
    | release => left; exact step_nonalloc_live h (by simp)
    | free => left; exact step_nonalloc_live h (by simp)
    | use => left; exact step_nonalloc_live h (by simp)
    | close => left; exact step_nonalloc_live h (by simp)
  · left
    have key : ∀ {n : Nat} (r : Option Nat), rcOf s k0 = some n → live (upd s k0 r) k = true → live s k = true := by
      intro n r hn hl
      obtain ⟨c, hf, hg, _⟩ := rcOf_some_find hn
      simpa [live, rcOf_upd_other hf hg hk r] using hl
    cases kd with
    | alloc =>
      rcases step_alloc h with ⟨hnone, rfl⟩ | ⟨c0, hf0, hvac, hlt, rfl⟩
      · by_cases hs : SameSlot k0 k
        · have hh : (⟨k0.space, k0.slot, k0.gen, some 1⟩ : Cell).holds k = true := by
            simp [Cell.holds, hs.1, hs.2]
          have hg : k0.gen ≠ k.gen := fun e => hk (sameSlot_of_eq_gen hs e).symm
          simp [live, rcOf, find, hh, hg] at hl
        · have hh : (⟨k0.space, k0.slot, k0.gen, some 1⟩ : Cell).holds k = false := by
            simp only [Cell.holds, Bool.and_eq_false_iff, beq_eq_false_iff_ne, ne_eq]
            by_cases h1 : k0.space = k.space
            · right; intro h2; exact hs ⟨h1, h2⟩
            · left; exact h1
          simpa [live, rcOf, find, hh] using hl
      · by_cases hs : SameSlot k0 k
        · have hg : k0.gen ≠ k.gen := fun e => hk (sameSlot_of_eq_gen hs e).symm
          simp [live, rcOf, find_upd, hs, hf0, hg] at hl
        · simpa [live, rcOf, find_upd, hs] using hl
    | retain => obtain ⟨n, hn, rfl⟩ := step_retain h; exact key _ hn hl
    | release => obtain ⟨n, hn, rfl⟩ := step_release h; exact key _ hn hl
    | free => obtain ⟨hn, rfl⟩ := step_free h; exact key _ hn hl
    | use => obtain ⟨n, _, rfl⟩ := step_use h; exact hl
    | close => obtain ⟨n, _, rfl⟩ := step_close h; exact hl

/-! ## runs -/

theorem run_append (s : Store) (t u : Trace) :
    run s (t ++ u) = match run s t with | some s' => run s' u | none => none := by
  induction t generalizing s with
  | nil => simp [run]
  | cons o t ih =>
    simp only [List.cons_append, run]
    split
    · exact ih _
    · rfl

theorem run_retired {s s' : Store} {t : Trace} {k : Key} (h : run s t = some s') (hr : Retired s k) :
    Retired s' k := by
  induction t generalizing s with
  | nil => simp [run] at h; subst h; exact hr
  | cons o t ih =>
    simp only [run] at h
    split at h
    · rename_i s1 h1; exact ih h (step_retired h1 hr)
    · cases h

theorem run_free_retired {s s' : Store} {t : Trace} {k : Key} (h : run s t = some s')
    (hm : (⟨.free, k⟩ : Op) ∈ t) : Retired s' k := by
  induction t generalizing s with
  | nil => cases hm
  | cons o t ih =>
    simp only [run] at h
    split at h
    · rename_i s1 h1
      rcases List.mem_cons.mp hm with rfl | hm'
      · exact run_retired h (step_free_retired h1)
      · exact ih h hm'
    · cases h

theorem run_live_origin {s s' : Store} {t : Trace} {k : Key} (h : run s t = some s') (hl : live s' k = true) :
    live s k = true ∨ (⟨.alloc, k⟩ : Op) ∈ t := by
  induction t generalizing s with
  | nil => simp [run] at h; subst h; exact Or.inl hl
  | cons o t ih =>
    simp only [run] at h
    split at h
    · rename_i s1 h1
      rcases ih h with hl1 | hm
      · rcases step_live_origin h1 hl1 with h0 | rfl
        · exact Or.inl h0
        · exact Or.inr (List.mem_cons_self ..)
      · exact Or.inr (List.mem_cons_of_mem _ hm)
    · cases h

/-! ## counting live objects: insertions minus removals -/

theorem find_space {s : Store} {k : Key} {c : Cell} (h : find s k = some c) : c.space = k.space :=
  ((holds_iff c k).mp (find_holds h)).1

theorem liveCount_upd (sp : Space) {s : Store} {k : Key} {c : Cell} (h : find s k = some c) (r : Option Nat) :
    liveCount sp (upd s k r) + (if k.space = sp ∧ c.rc.isSome then 1 else 0)
      = liveCount sp s + (if k.space = sp ∧ r.isSome then 1 else 0) := by
  induction s with
  | nil => simp [find] at h
  | cons d s ih =>
    simp only [find] at h
    simp only [upd]
    split at h
    · rename_i hd
      cases h
      have hsp : c.space = k.space := ((holds_iff c k).mp hd).1
      simp only [hd, if_true, liveCount, hsp]
      omega
    · rename_i hd
      have := ih h
      simp only [hd, liveCount, Bool.false_eq_true, if_false]
      omega

def isKind (kd : Kind) (sp : Space) (o : Op) : Nat := if o.kind = kd ∧ o.key.space = sp then 1 else 0

theorem liveCount_step (sp : Space) {s s' : Store} {o : Op} (h : step s o = some s') :
    liveCount sp s' + isKind .free sp o = liveCount sp s + isKind .alloc sp o := by
  obtain ⟨kd, k⟩ := o
  cases kd with
  | alloc =>
    rcases step_alloc h with ⟨_, rfl⟩ | ⟨c0, hf0, hvac, _, rfl⟩
    · simp only [liveCount, isKind, Option.isSome_some, and_true]
      simp
      omega
    · have := liveCount_upd sp hf0 (some 1)
      simp only [hvac, Option.isSome_none, Bool.false_eq_true, and_false, if_false, Option.isSome_some,
        and_true] at this
      simp [isKind]
      omega
  | retain =>
    obtain ⟨n, hn, rfl⟩ := step_retain h
    obtain ⟨c, hf, _, hrc⟩ := rcOf_some_find hn
    have := liveCount_upd sp hf (some (n + 2))
    simp only [hrc, Option.isSome_some, and_true] at this
    simp [isKind]; omega
  | release =>
    obtain ⟨n, hn, rfl⟩ := step_release h
    obtain ⟨c, hf, _, hrc⟩ := rcOf_some_find hn
    have := liveCount_upd sp hf (some n)
    simp only [hrc, Option.isSome_some, and_true] at this
    simp [isKind]; omega
  | free =>
    obtain ⟨hn, rfl⟩ := step_free h
    obtain ⟨c, hf, _, hrc⟩ := rcOf_some_find hn
    have := liveCount_upd sp hf none
    simp only [hrc, Option.isSome_some, and_true, Option.isSome_none, Bool.false_eq_true, and_false,
      if_false] at this
    simp [isKind]; omega
  | use => obtain ⟨n, _, rfl⟩ := step_use h; simp [isKind]
  | close => obtain ⟨n, _, rfl⟩ := step_close h; simp [isKind]

theorem countKind_cons (kd : Kind) (sp : Space) (o : Op) (t : Trace) :
    countKind kd sp (o :: t) = isKind kd sp o + countKind kd sp t := by
  simp only [countKind, isKind, List.filter_cons]
  by_cases h : o.kind = kd ∧ o.key.space = sp
  · simp [h]; omega
  · have : (o.kind == kd && o.key.space == sp) = false := by
      simp only [Bool.and_eq_false_iff, beq_eq_false_iff_ne, ne_eq]
      by_cases h1 : o.kind = kd
      · right; intro h2; exact h ⟨h1, h2⟩
      · left; exact h1
    simp [h, this]

/-- live objects after a legal trace = live objects before + insertions − removals -/
theorem liveCount_run (sp : Space) {s s' : Store} {t : Trace} (h : run s t = some s') :
    liveCount sp s' + countKind .free sp t = liveCount sp s + countKind .alloc sp t := by
  induction t generalizing s with
  | nil => simp [run] at h; subst h; simp [countKind]
  | cons o t ih =>
    simp only [run] at h
    split at h
    · rename_i s1 h1
      have a := liveCount_step sp h1
      have b := ih h
      rw [countKind_cons, countKind_cons]
      omega
    · cases h

/-! ## key-wise reading of the end-of-frame checks -/

theorem noZombie_sound {s : Store} (h : noZombie s = true) (k : Key) : rcOf s k ≠ some 0 := by
  induction s with
  | nil => simp [rcOf, find]
  | cons c s ih =>
    simp only [noZombie, Bool.and_eq_true, bne_iff_ne, ne_eq] at h
    intro hk
    obtain ⟨d, hf, _, hrc⟩ := rcOf_some_find hk
    simp only [find] at hf
    split at hf
    · cases hf; exact h.1 hrc
    · exact ih h.2 (by
        unfold rcOf at hk ⊢
        simp only [find] at hk
        rename_i hh
        simpa [hh] using hk)

theorem find_mem {s : Store} {k : Key} {c : Cell} (h : find s k = some c) : c ∈ s := by
  induction s with
  | nil => simp [find] at h
  | cons d s ih =>
    simp only [find] at h
    split at h
    · cases h; exact List.mem_cons_self ..
    · exact List.mem_cons_of_mem _ (ih h)

theorem sameRc_sound {s s' : Store} (h : sameRc s s' = true) (k : Key) {n m : Nat}
    (hn : rcOf s k = some n) (hm : rcOf s' k = some m) : n = m := by
  obtain ⟨c, hf, hg, hrc⟩ := rcOf_some_find hn
  have hmem := find_mem hf
  have hsp := find_space hf
  have hsl : c.slot = k.slot := ((holds_iff c k).mp (find_holds hf)).2
  simp only [sameRc, List.all_eq_true] at h
  have := h c hmem
  have hk : (⟨c.space, c.slot, c.gen⟩ : Key) = k := by cases k; simp_all
  simp only [hrc, hk, hm, beq_iff_eq] at this
  exact this

/-! ## frames -/

theorem after_succ_some {s0 : Store} {fr : Nat → Trace} {n : Nat} {s' : Store}
    (h : after s0 fr (n + 1) = some s') : ∃ s, after s0 fr n = some s ∧ run s (fr n) = some s' := by
  simp only [after] at h
  split at h
  · exact ⟨_, ‹_›, h⟩
  · cases h

theorem balanced_run {s : Store} {t : Trace} (h : balanced s t = true) :
    ∃ s', run s t = some s' ∧ noZombie s' = true ∧ sameRc s s' = true ∧
      liveCount .cls s' = liveCount .cls s ∧ liveCount .heap s' = liveCount .heap s := by
  unfold balanced at h
  split at h
  · cases h
  · rename_i s' hs'
    simp only [Bool.and_eq_true, beq_iff_eq] at h
    exact ⟨s', hs', h.1.2, h.2, h.1.1.1, h.1.1.2⟩

theorem countKind_append (kd : Kind) (sp : Space) (t u : Trace) :
    countKind kd sp (t ++ u) = countKind kd sp t + countKind kd sp u := by
  simp [countKind, List.filter_append]

theorem countKind_replicate_use (kd : Kind) (sp : Space) (k : Key) (n : Nat) (h : kd ≠ .use) :
    countKind kd sp (List.replicate n ⟨.use, k⟩) = 0 := by
  induction n with
  | zero => rfl
  | succ n ih =>
    rw [List.replicate_succ, countKind_cons, ih]
    simp [isKind, Ne.symm h]


/-! ## per-object accounting: refcount after = refcount before + retains − releases -/

def isOp (kd : Kind) (k : Key) (o : Op) : Nat := if o = ⟨kd, k⟩ then 1 else 0

def countOp (kd : Kind) (k : Key) : Trace → Nat
  | [] => 0
  | o :: t => isOp kd k o + countOp kd k t

theorem rcOf_step_other {s s' : Store} {o : Op} {k : Key} {n : Nat} (h : step s o = some s')
    (hn : rcOf s k = some n) (hk : o.key ≠ k) : rcOf s' k = some n := by
  obtain ⟨kd, k0⟩ := o
  have hk' : k ≠ k0 := fun e => hk e.symm
  obtain ⟨c, hf, hg, hrc⟩ := rcOf_some_find hn
  have key : ∀ {m : Nat} (r : Option Nat), rcOf s k0 = some m → rcOf (upd s k0 r) k = some n := by
    intro m r hm
    obtain ⟨c0, hf0, hg0, _⟩ := rcOf_some_find hm
    rw [rcOf_upd_other hf0 hg0 hk' r]; exact hn
  cases kd with
  | alloc =>
    rcases step_alloc h with ⟨hnone, rfl⟩ | ⟨c0, hf0, hvac, hlt, rfl⟩
    · have hns : ¬ SameSlot k0 k := by
        intro hs; rw [find_congr hs] at hnone; rw [hnone] at hf; cases hf
      have hh : (⟨k0.space, k0.slot, k0.gen, some 1⟩ : Cell).holds k = false := by
        simp only [Cell.holds, Bool.and_eq_false_iff, beq_eq_false_iff_ne, ne_eq]
        by_cases h1 : k0.space = k.space
        · right; intro h2; exact hns ⟨h1, h2⟩
        · left; exact h1
      simpa [rcOf, find, hh] using hn
    · have hns : ¬ SameSlot k0 k := by
        intro hs
        have : find s k = some c0 := by rw [← find_congr hs]; exact hf0
        rw [hf] at this; cases this
        rw [hvac] at hrc; cases hrc
      simpa [rcOf, find_upd, hns] using hn
  | retain => obtain ⟨m, hm, rfl⟩ := step_retain h; exact key _ hm
  | release => obtain ⟨m, hm, rfl⟩ := step_release h; exact key _ hm
  | free => obtain ⟨hm, rfl⟩ := step_free h; exact key _ hm
  | use => obtain ⟨m, _, rfl⟩ := step_use h; exact hn
  | close => obtain ⟨m, _, rfl⟩ := step_close h; exact hn

/-- one step: the count of a live object that is not removed by the step moves by exactly the step's retain / release of it -/
theorem rcOf_step {s s' : Store} {o : Op} {k : Key} {n : Nat} (h : step s o = some s')
    (hn : rcOf s k = some n) (hfree : o ≠ ⟨.free, k⟩) :
    ∃ m, rcOf s' k = some m ∧ m + isOp .release k o = n + isOp .retain k o := by
  by_cases hk : o.key = k
  · obtain ⟨kd, k0⟩ := o
    simp only at hk
    subst hk
    obtain ⟨c, hf, hg, hrc⟩ := rcOf_some_find hn
    cases kd with
    | alloc =>
      rcases step_alloc h with ⟨hnone, _⟩ | ⟨c0, hf0, hvac, _, _⟩
      · rw [hnone] at hf; cases hf
      · rw [hf0] at hf; cases hf; rw [hvac] at hrc; cases hrc
    | retain =>
      obtain ⟨m, hm, rfl⟩ := step_retain h
      rw [hn] at hm; cases hm
      exact ⟨m + 2, rcOf_upd_self hf _, by simp [isOp]⟩
    | release =>
      obtain ⟨m, hm, rfl⟩ := step_release h
      rw [hn] at hm; cases hm
      exact ⟨m, rcOf_upd_self hf _, by simp [isOp]⟩
    | free => exact absurd rfl hfree
    | use => obtain ⟨m, _, rfl⟩ := step_use h; exact ⟨n, hn, by simp [isOp]⟩
    | close => obtain ⟨m, _, rfl⟩ := step_close h; exact ⟨n, hn, by simp [isOp]⟩
  · refine ⟨n, rcOf_step_other h hn hk, ?_⟩
    have h1 : isOp .release k o = 0 := by
      simp only [isOp]; split
      · rename_i e; rw [e] at hk; exact absurd rfl hk
      · rfl
    have h2 : isOp .retain k o = 0 := by
      simp only [isOp]; split
      · rename_i e; rw [e] at hk; exact absurd rfl hk
      · rfl
    omega

/-- over a legal trace that does not remove `k`: count after + releases of `k` = count before + retains of `k` -/
theorem rcOf_run {s s' : Store} {t : Trace} {k : Key} {n : Nat} (h : run s t = some s')
    (hn : rcOf s k = some n) (hfree : (⟨.free, k⟩ : Op) ∉ t) :
    ∃ m, rcOf s' k = some m ∧ m + countOp .release k t = n + countOp .retain k t := by
  induction t generalizing s n with
  | nil => simp [run] at h; subst h; exact ⟨n, hn, by simp [countOp]⟩
  | cons o t ih =>
    simp only [run] at h
    split at h
    · rename_i s1 h1
      have hne : o ≠ ⟨.free, k⟩ := fun e => hfree (e ▸ List.mem_cons_self ..)
      obtain ⟨m1, hm1, e1⟩ := rcOf_step h1 hn hne
      obtain ⟨m, hm, e2⟩ := ih h hm1 (fun hm => hfree (List.mem_cons_of_mem _ hm))
      exact ⟨m, hm, by simp only [countOp]; omega⟩
    · cases h

theorem countKind_skeleton (kd : Kind) (sp : Space) (t : Trace) (h : kd ≠ .use) :
    countKind kd sp (skeleton t) = countKind kd sp t := by
  induction t with
  | nil => rfl
  | cons o t ih =>
    by_cases hu : o.kind = .use
    · have : skeleton (o :: t) = skeleton t := by simp [skeleton, hu]
      rw [this, countKind_cons, ih]
      simp [isKind, hu, Ne.symm h]
    · have : skeleton (o :: t) = o :: skeleton t := by simp [skeleton, hu]
      rw [this, countKind_cons, countKind_cons, ih]

theorem countKind_replicate_close (kd : Kind) (sp : Space) (k : Key) (n : Nat) (h : kd ≠ .close) :
    countKind kd sp (List.replicate n ⟨.close, k⟩) = 0 := by
  induction n with
  | zero => rfl
  | succ n ih =>
    rw [List.replicate_succ, countKind_cons, ih]
    simp [isKind, Ne.symm h]

end Mimium.Heap

namespace Mimium.Heap

/-! ## payload walks -/

theorem countOp_walk (kd : Kind) (words : List (Option Key)) (offs : List Nat) (k : Key) :
    countOp kd k (walk kd words offs) = visits words k offs := by
  induction offs with
  | nil => rfl
  | cons o offs ih =>
    simp only [walk, visits]
    cases hw : wordAt words o with
    | none => simp [ih]
    | some k' =>
      by_cases hk : k' = k
      · subst hk
        simp [countOp, isOp, ih]
      · have : ¬ ((⟨kd, k'⟩ : Op) = ⟨kd, k⟩) := by intro e; cases e; exact hk rfl
        simp [countOp, isOp, this, hk, ih]

theorem visits_append (words : List (Option Key)) (k : Key) (a b : List Nat) :
    visits words k (a ++ b) = visits words k a + visits words k b := by
  induction a with
  | nil => simp [visits]
  | cons o a ih => simp only [List.cons_append, visits, ih]; omega

theorem visits_perm {words : List (Option Key)} {o1 o2 : List Nat} (h : o1.Perm o2) (k : Key) :
    visits words k o1 = visits words k o2 := by
  induction h with
  | nil => rfl
  | cons x _ ih => simp only [visits, ih]
  | swap x y l => simp only [visits]; omega
  | trans _ _ ih1 ih2 => rw [ih1, ih2]

/-- with pairwise distinct handles in the payload, the number of visits of the handle stored at word `j` is the
number of times the walk visits offset `j` -/
theorem visits_eq_count (words : List (Option Key)) (offs : List Nat) (j : Nat) (k : Key)
    (hj : wordAt words j = some k)
    (hinj : ∀ i, wordAt words i = some k → i = j) :
    visits words k offs = offs.count j := by
  induction offs with
  | nil => rfl
  | cons o offs ih =>
    simp only [visits, List.count_cons, ih]
    by_cases ho : o = j
    · subst ho; simp [hj]; omega
    · have : ¬ wordAt words o = some k := fun e => ho (hinj o e)
      simp [this, ho]

end Mimium.Heap
