import Mimium.Model.Stage
/-!
Lemmas about the staging model: unfolding equations of the stage-0 evaluator, evaluation of a combinator call, and the
round trip `quote → combinator calls → stage-0 execution → tree` (`roundtrip`, by structural induction over the per-form
encode / decode pairs).
-/
namespace Mimium.Stage

/-! ### sizes (fuel bounds) -/
mutual
def Ex.size : Ex → Nat
  | .app f args => 1 + f.size + sizeL args
  | .lam ps b => 1 + ps.length + b.size
  | .letE _ v b => 1 + v.size + b.size
  | .letT xs v b => 1 + xs.length + v.size + b.size
  | .letrec _ v b => 1 + v.size + b.size
  | .ite c t e => 1 + c.size + t.size + e.size
  | .thenE a b => 1 + a.size + b.size
  | .assign l r => 1 + l.size + r.size
  | .tup es => 1 + sizeL es
  | .proj e _ => 1 + e.size
  | .arr es => 1 + sizeL es
  | .block e => 1 + e.size
  | .feed _ e => 1 + e.size
  | .bracket e => 1 + e.size
  | .escape e => 1 + e.size
  | .macroExpand f args => 1 + f.size + sizeL args
  | .pipeM a f => 1 + a.size + f.size
  | _ => 1
def sizeL : List Ex → Nat
  | [] => 1
  | e :: es => 1 + e.size + sizeL es
end

theorem Ex.size_pos (e : Ex) : 0 < e.size := by
  cases e <;> simp only [Ex.size] <;> omega

/-- not a plain stage-1 tree: contains a quote, a splice, a macro call, or a form that only exists before the front
end (macro pipe, placeholder) -/
def beyond1 : Ex → Bool
  | .bracket _ => true
  | .escape _ => true
  | .macroExpand _ _ => true
  | .pipeM _ _ => true
  | .placeholder => true
  | .app f args => beyond1 f || anyBeyond args
  | .lam _ b => beyond1 b
  | .letE _ v b => beyond1 v || beyond1 b
  | .letT _ v b => beyond1 v || beyond1 b
  | .letrec _ v b => beyond1 v || beyond1 b
  | .ite c t e => beyond1 c || beyond1 t || beyond1 e
  | .thenE a b => beyond1 a || beyond1 b
  | .assign l r => beyond1 l || beyond1 r
  | .tup es => anyBeyond es
  | .proj e _ => beyond1 e
  | .arr es => anyBeyond es
  | .block e => beyond1 e
  | .feed _ e => beyond1 e
  | _ => false
where anyBeyond : List Ex → Bool
  | [] => false
  | e :: es => beyond1 e || anyBeyond es

/-- a plain stage-1 tree (what a quote may contain when it has no splice) -/
def Stage1 (e : Ex) : Prop := beyond1 e = false
def Stage1L (es : List Ex) : Prop := beyond1.anyBeyond es = false

/-- the macro-stage environment does not rebind the name of an external function -/
def NoShadow (env : Env0) : Prop := ∀ x, (extOf x).isSome → env.lookup x = none

theorem NoShadow_nil : NoShadow [] := fun _ _ => rfl

/-! ### unfolding equations -/
theorem ev0_app (n : Nat) (env : Env0) (f : Ex) (args : List Ex) :
    ev0 (n + 1) env (.app f args) =
      (match ev0 n env f with
      | .error m => .error m
      | .ok fv =>
        match ev0L n env args with
        | .error m => .error m
        | .ok vs => apply0 n fv vs) := by
  rw [ev0]; rfl

theorem ev0_flt (n : Nat) (env : Env0) (b : UInt64) : ev0 (n + 1) env (.flt b) = .ok (.num b) := by rw [ev0]
theorem ev0_int (n : Nat) (env : Env0) (i : Nat) : ev0 (n + 1) env (.int i) = .ok (.int i) := by rw [ev0]
theorem ev0_str (n : Nat) (env : Env0) (s : String) : ev0 (n + 1) env (.str s) = .ok (.str s) := by rw [ev0]
theorem ev0_arr (n : Nat) (env : Env0) (es : List Ex) :
    ev0 (n + 1) env (.arr es) = (match ev0L n env es with
      | .error m => .error m
      | .ok vs => .ok (.arr vs)) := by rw [ev0]; rfl

theorem ev0_ext (n : Nat) (env : Env0) (x : String) (c : Ext) (h : NoShadow env) (hc : extOf x = some c) :
    ev0 (n + 1) env (.var x) = .ok (.ext c) := by
  rw [ev0]; simp only [h x (by simp [hc]), hc]

theorem ev0L_nil (n : Nat) (env : Env0) : ev0L (n + 1) env [] = .ok [] := by rw [ev0L]
theorem ev0L_cons (n : Nat) (env : Env0) (e : Ex) (es : List Ex) :
    ev0L (n + 1) env (e :: es) =
      (match ev0 n env e with
      | .error m => .error m
      | .ok v =>
        match ev0L n env es with
        | .error m => .error m
        | .ok vs => .ok (v :: vs)) := by rw [ev0L]; rfl
theorem apply0_ext (n : Nat) (c : Ext) (vs : List V0) : apply0 (n + 1) (.ext c) vs = applyExt c vs := by rw [apply0]

/-- a call of an external function by name: evaluate the arguments, then the function acts on the values -/
theorem ev0_ap (env : Env0) (h : NoShadow env) (name : String) (c : Ext) (hc : extOf name = some c)
    (args : List Ex) (vs : List V0) (n : Nat) (hargs : ev0L (n + 1) env args = .ok vs) :
    ev0 (n + 2) env (ap name args) = applyExt c vs := by
  simp only [ap, ev0_app, ev0_ext _ _ name c h hc, hargs, apply0_ext]

theorem mapM_asCode (es : List Ex) : (es.map V0.code).mapM asCode = some es := by
  induction es with
  | nil => rfl
  | cons e es ih => simp [List.mapM_cons, asCode, ih]

theorem mapM_asStr (xs : List String) : (xs.map V0.str).mapM asStr = some xs := by
  induction xs with
  | nil => rfl
  | cons e es ih => simp [List.mapM_cons, asStr, ih]

/-- an array of string literals evaluates to the strings -/
theorem ev0L_strs (env : Env0) : ∀ (xs : List String) (n : Nat), xs.length + 1 ≤ n →
    ev0L n env (xs.map .str) = .ok (xs.map .str)
  | [], n, h => by
    obtain ⟨m, rfl⟩ : ∃ m, n = m + 1 := ⟨n - 1, by omega⟩
    simp [ev0L_nil]
  | x :: xs, n, h => by
    obtain ⟨m, rfl⟩ : ∃ m, n = m + 2 := ⟨n - 2, by simp at h; omega⟩
    have ih := ev0L_strs env xs (m + 1) (by simp at h; omega)
    simp only [List.map_cons, ev0L_cons, ev0_str, ih]

/-- the placeholder type arguments evaluate to something (their value is ignored by the combinators) -/
theorem ev0L_tags (env : Env0) : ∀ (xs : List String) (n : Nat), xs.length + 1 ≤ n →
    ev0L n env (xs.map fun _ => tyTag) = .ok (xs.map fun _ => V0.int 0)
  | [], n, h => by
    obtain ⟨m, rfl⟩ : ∃ m, n = m + 1 := ⟨n - 1, by omega⟩
    simp [ev0L_nil]
  | x :: xs, n, h => by
    obtain ⟨m, rfl⟩ : ∃ m, n = m + 2 := ⟨n - 2, by simp at h; omega⟩
    have ih := ev0L_tags env xs (m + 1) (by simp at h; omega)
    simp only [tyTag] at ih
    simp only [List.map_cons, ev0L_cons, tyTag, ev0_int, ih]

end Mimium.Stage

namespace Mimium.Stage

theorem stage1_app {f : Ex} {args : List Ex} (h : Stage1 (.app f args)) : Stage1 f ∧ Stage1L args := by
  simpa [Stage1, Stage1L, beyond1] using h

theorem stage1L_cons {e : Ex} {es : List Ex} (h : Stage1L (e :: es)) : Stage1 e ∧ Stage1L es := by
  simpa [Stage1, Stage1L, beyond1.anyBeyond] using h

theorem stage1_2 {a b : Ex} (h : (beyond1 a || beyond1 b) = false) : Stage1 a ∧ Stage1 b := by
  simpa [Stage1] using h

mutual
/-- **Round trip.** For every stage-1 tree `e` (any nesting of the forms of the fragment), the stage-0 program that
`translate_code` produces for it evaluates — with the decode functions of the combinators, in any macro-stage
environment that does not rebind a combinator name, given enough fuel — to exactly `e`. -/
theorem roundtrip (env : Env0) (h : NoShadow env) : ∀ (e : Ex), Stage1 e → ∀ fuel, 5 * e.size ≤ fuel →
    ev0 fuel env (trCode e) = .ok (.code e)
  | .flt b, _, fuel, hf => by
    obtain ⟨n, rfl⟩ : ∃ n, fuel = n + 3 := ⟨fuel - 3, by simp [Ex.size] at hf; omega⟩
    rw [trCode, ev0_ap env h "code_lit_f" .codeLitF rfl _ [.num b] (n + 1) (by simp only [ev0L_cons, ev0_flt, ev0L_nil])]
    rfl
  | .int i, _, fuel, hf => by
    obtain ⟨n, rfl⟩ : ∃ n, fuel = n + 3 := ⟨fuel - 3, by simp [Ex.size] at hf; omega⟩
    rw [trCode, ev0_ap env h "code_lit_i" .codeLitI rfl _ [.int i] (n + 1) (by simp only [ev0L_cons, ev0_int, ev0L_nil])]
    rfl
  | .str s, _, fuel, hf => by
    obtain ⟨n, rfl⟩ : ∃ n, fuel = n + 3 := ⟨fuel - 3, by simp [Ex.size] at hf; omega⟩
    rw [trCode, ev0_ap env h "code_lit_s" .codeLitS rfl _ [.str s] (n + 1) (by simp only [ev0L_cons, ev0_str, ev0L_nil])]
    rfl
  | .selfL, _, fuel, hf => by
    obtain ⟨n, rfl⟩ : ∃ n, fuel = n + 3 := ⟨fuel - 3, by simp [Ex.size] at hf; omega⟩
    rw [trCode, ev0_ap env h "code_self" .codeSelf rfl _ [] (n + 1) (by simp only [ev0L_nil])]
    rfl
  | .now, _, fuel, hf => by
    obtain ⟨n, rfl⟩ : ∃ n, fuel = n + 3 := ⟨fuel - 3, by simp [Ex.size] at hf; omega⟩
    rw [trCode, ev0_ap env h "code_now" .codeNow rfl _ [] (n + 1) (by simp only [ev0L_nil])]
    rfl
  | .sr, _, fuel, hf => by
    obtain ⟨n, rfl⟩ : ∃ n, fuel = n + 3 := ⟨fuel - 3, by simp [Ex.size] at hf; omega⟩
    rw [trCode, ev0_ap env h "code_samplerate" .codeSamplerate rfl _ [] (n + 1) (by simp only [ev0L_nil])]
    rfl
  | .var x, _, fuel, hf => by
    obtain ⟨n, rfl⟩ : ∃ n, fuel = n + 3 := ⟨fuel - 3, by simp [Ex.size] at hf; omega⟩
    rw [trCode, ev0_ap env h "code_var" .codeVar rfl _ [.str x] (n + 1) (by simp only [ev0L_cons, ev0_str, ev0L_nil])]
    rfl
  | .app f [], hs, fuel, hf => by
    have hs := stage1_app hs
    simp only [Ex.size, sizeL] at hf
    obtain ⟨n, rfl⟩ : ∃ n, fuel = n + 5 := ⟨fuel - 5, by omega⟩
    have i1 := roundtrip env h f hs.1 (n + 3) (by omega)
    rw [trCode, ev0_ap env h "code_app" .codeApp rfl _ [.code f, .arr []] (n + 3)
      (by simp only [ev0L_cons, i1, ev0_arr, ev0L_nil])]
    rfl
  | .app f [a], hs, fuel, hf => by
    have hs := stage1_app hs
    have ha := stage1L_cons hs.2
    simp only [Ex.size, sizeL] at hf
    obtain ⟨n, rfl⟩ : ∃ n, fuel = n + 5 := ⟨fuel - 5, by omega⟩
    have i1 := roundtrip env h f hs.1 (n + 3) (by omega)
    have i2 := roundtrip env h a ha.1 (n + 2) (by omega)
    rw [trCode, ev0_ap env h "code_app1" .codeApp1 rfl _ [.code f, .code a] (n + 3)
      (by simp only [ev0L_cons, i1, i2, ev0L_nil])]
    rfl
  | .app f [a, b], hs, fuel, hf => by
    have hs := stage1_app hs
    have ha := stage1L_cons hs.2
    have hb := stage1L_cons ha.2
    simp only [Ex.size, sizeL] at hf
    obtain ⟨n, rfl⟩ : ∃ n, fuel = n + 6 := ⟨fuel - 6, by omega⟩
    have i1 := roundtrip env h f hs.1 (n + 4) (by omega)
    have i2 := roundtrip env h a ha.1 (n + 3) (by omega)
    have i3 := roundtrip env h b hb.1 (n + 2) (by omega)
    rw [trCode, ev0_ap env h "code_app2" .codeApp2 rfl _ [.code f, .code a, .code b] (n + 4)
      (by simp only [ev0L_cons, i1, i2, i3, ev0L_nil])]
    rfl
  | .app f (a :: b :: c :: rest), hs, fuel, hf => by
    have hs := stage1_app hs
    simp only [Ex.size] at hf
    obtain ⟨n, rfl⟩ : ∃ n, fuel = n + 6 := ⟨fuel - 6, by simp only [sizeL] at hf; omega⟩
    have i1 := roundtrip env h f hs.1 (n + 4) (by omega)
    have i2 := roundtripL env h (a :: b :: c :: rest) hs.2 (n + 2) (by omega)
    simp only [trCodeL, List.map_cons] at i2
    rw [trCode, ev0_ap env h "code_app" .codeApp rfl _ [.code f, .arr (.code a :: .code b :: .code c :: rest.map .code)] (n + 4)
      (by simp only [ev0L_cons, i1, ev0_arr, i2, ev0L_nil])]
    have := mapM_asCode (a :: b :: c :: rest)
    simp only [List.map_cons] at this
    simp only [applyExt, this]
  | .lam [] body, hs, fuel, hf => by
    have hs : Stage1 body := by simpa [Stage1, beyond1] using hs
    simp only [Ex.size, List.length_nil] at hf
    have := body.size_pos
    obtain ⟨n, rfl⟩ : ∃ n, fuel = n + 7 := ⟨fuel - 7, by omega⟩
    have i1 := roundtrip env h body hs (n + 2) (by omega)
    rw [trCode, ev0_ap env h "code_lam_finish_typed" .codeLam rfl _ [.arr [], .arr [], .int 0, .code body] (n + 5)
      (by simp only [ev0L_cons, ev0_arr, ev0L_nil, tyTag, ev0_int, i1])]
    rfl
  | .lam [p] body, hs, fuel, hf => by
    have hs : Stage1 body := by simpa [Stage1, beyond1] using hs
    simp only [Ex.size, List.length_cons, List.length_nil] at hf
    have := body.size_pos
    obtain ⟨n, rfl⟩ : ∃ n, fuel = n + 7 := ⟨fuel - 7, by omega⟩
    have i1 := roundtrip env h body hs (n + 2) (by omega)
    rw [trCode, ev0_ap env h "code_lam1_finish_typed" .codeLam1 rfl _ [.str p, .int 0, .int 0, .code body] (n + 5)
      (by simp only [ev0L_cons, ev0_str, ev0L_nil, tyTag, ev0_int, i1])]
    rfl
  | .lam (p :: q :: ps) body, hs, fuel, hf => by
    have hs : Stage1 body := by simpa [Stage1, beyond1] using hs
    simp only [Ex.size, List.length_cons] at hf
    obtain ⟨n, rfl⟩ : ∃ n, fuel = n + 7 := ⟨fuel - 7, by omega⟩
    have i1 := roundtrip env h body hs (n + 2) (by omega)
    have i2 := ev0L_strs env (p :: q :: ps) (n + 4) (by simp only [List.length_cons]; omega)
    have i3 := ev0L_tags env (p :: q :: ps) (n + 3) (by simp only [List.length_cons]; omega)
    simp only [tyTag] at i3
    rw [trCode, ev0_ap env h "code_lam_finish_typed" .codeLam rfl _
      [.arr ((p :: q :: ps).map .str), .arr ((p :: q :: ps).map fun _ => .int 0), .int 0, .code body] (n + 5)
      (by simp only [ev0L_cons, ev0_arr, i2, i3, ev0L_nil, tyTag, ev0_int, i1])]
    simp only [applyExt, mapM_asStr]
  | .letE x v b, hs, fuel, hf => by
    have hs := stage1_2 (by simpa [Stage1, beyond1] using hs : (beyond1 v || beyond1 b) = false)
    simp only [Ex.size] at hf
    obtain ⟨n, rfl⟩ : ∃ n, fuel = n + 5 := ⟨fuel - 5, by omega⟩
    have i1 := roundtrip env h v hs.1 (n + 2) (by omega)
    have i2 := roundtrip env h b hs.2 (n + 1) (by omega)
    rw [trCode, ev0_ap env h "code_let" .codeLet rfl _ [.str x, .code v, .code b] (n + 3)
      (by simp only [ev0L_cons, ev0_str, i1, i2, ev0L_nil])]
    rfl
  | .letT xs v b, hs, fuel, hf => by
    have hs := stage1_2 (by simpa [Stage1, beyond1] using hs : (beyond1 v || beyond1 b) = false)
    simp only [Ex.size] at hf
    have := v.size_pos
    have := b.size_pos
    obtain ⟨n, rfl⟩ : ∃ n, fuel = n + 6 := ⟨fuel - 6, by omega⟩
    have i1 := roundtrip env h v hs.1 (n + 3) (by omega)
    have i2 := roundtrip env h b hs.2 (n + 2) (by omega)
    have i3 := ev0L_strs env xs (n + 3) (by omega)
    rw [trCode, ev0_ap env h "code_let_tuple" .codeLetTuple rfl _ [.arr (xs.map .str), .code v, .code b] (n + 4)
      (by simp only [ev0L_cons, ev0_arr, i3, i1, i2, ev0L_nil])]
    simp only [applyExt, mapM_asStr]
  | .letrec x v b, hs, fuel, hf => by
    have hs := stage1_2 (by simpa [Stage1, beyond1] using hs : (beyond1 v || beyond1 b) = false)
    simp only [Ex.size] at hf
    have := v.size_pos
    have := b.size_pos
    obtain ⟨n, rfl⟩ : ∃ n, fuel = n + 6 := ⟨fuel - 6, by omega⟩
    have i1 := roundtrip env h v hs.1 (n + 2) (by omega)
    have i2 := roundtrip env h b hs.2 (n + 1) (by omega)
    rw [trCode, ev0_ap env h "code_letrec_typed" .codeLetrec rfl _ [.str x, .int 0, .code v, .code b] (n + 4)
      (by simp only [ev0L_cons, ev0_str, tyTag, ev0_int, i1, i2, ev0L_nil])]
    rfl
  | .ite c t e, hs, fuel, hf => by
    have hs : (Stage1 c ∧ Stage1 t) ∧ Stage1 e := by simpa [Stage1, beyond1] using hs
    simp only [Ex.size] at hf
    have := c.size_pos
    have := t.size_pos
    have := e.size_pos
    obtain ⟨n, rfl⟩ : ∃ n, fuel = n + 6 := ⟨fuel - 6, by omega⟩
    have i1 := roundtrip env h c hs.1.1 (n + 4) (by omega)
    have i2 := roundtrip env h t hs.1.2 (n + 3) (by omega)
    have i3 := roundtrip env h e hs.2 (n + 2) (by omega)
    rw [trCode, ev0_ap env h "code_if" .codeIf rfl _ [.code c, .code t, .code e] (n + 4)
      (by simp only [ev0L_cons, i1, i2, i3, ev0L_nil])]
    rfl
  | .thenE a b, hs, fuel, hf => by
    have hs := stage1_2 (by simpa [Stage1, beyond1] using hs : (beyond1 a || beyond1 b) = false)
    simp only [Ex.size] at hf
    obtain ⟨n, rfl⟩ : ∃ n, fuel = n + 5 := ⟨fuel - 5, by omega⟩
    have i1 := roundtrip env h a hs.1 (n + 3) (by omega)
    have i2 := roundtrip env h b hs.2 (n + 2) (by omega)
    rw [trCode, ev0_ap env h "code_then" .codeThen rfl _ [.code a, .code b] (n + 3)
      (by simp only [ev0L_cons, i1, i2, ev0L_nil])]
    rfl
  | .assign a b, hs, fuel, hf => by
    have hs := stage1_2 (by simpa [Stage1, beyond1] using hs : (beyond1 a || beyond1 b) = false)
    simp only [Ex.size] at hf
    obtain ⟨n, rfl⟩ : ∃ n, fuel = n + 5 := ⟨fuel - 5, by omega⟩
    have i1 := roundtrip env h a hs.1 (n + 3) (by omega)
    have i2 := roundtrip env h b hs.2 (n + 2) (by omega)
    rw [trCode, ev0_ap env h "code_assign" .codeAssign rfl _ [.code a, .code b] (n + 3)
      (by simp only [ev0L_cons, i1, i2, ev0L_nil])]
    rfl
  | .tup es, hs, fuel, hf => by
    have hs : Stage1L es := by simpa [Stage1, Stage1L, beyond1] using hs
    simp only [Ex.size] at hf
    obtain ⟨n, rfl⟩ : ∃ n, fuel = n + 5 := ⟨fuel - 5, by omega⟩
    have i1 := roundtripL env h es hs (n + 2) (by omega)
    rw [trCode, ev0_ap env h "code_tuple" .codeTuple rfl _ [.arr (es.map .code)] (n + 3)
      (by simp only [ev0L_cons, ev0_arr, i1, ev0L_nil])]
    simp only [applyExt, mapM_asCode]
  | .arr es, hs, fuel, hf => by
    have hs : Stage1L es := by simpa [Stage1, Stage1L, beyond1] using hs
    simp only [Ex.size] at hf
    obtain ⟨n, rfl⟩ : ∃ n, fuel = n + 5 := ⟨fuel - 5, by omega⟩
    have i1 := roundtripL env h es hs (n + 2) (by omega)
    rw [trCode, ev0_ap env h "code_array" .codeArray rfl _ [.arr (es.map .code)] (n + 3)
      (by simp only [ev0L_cons, ev0_arr, i1, ev0L_nil])]
    simp only [applyExt, mapM_asCode]
  | .proj a i, hs, fuel, hf => by
    have hs : Stage1 a := by simpa [Stage1, beyond1] using hs
    simp only [Ex.size] at hf
    obtain ⟨n, rfl⟩ : ∃ n, fuel = n + 5 := ⟨fuel - 5, by omega⟩
    have i1 := roundtrip env h a hs (n + 3) (by omega)
    rw [trCode, ev0_ap env h "code_proj" .codeProj rfl _ [.code a, .int i] (n + 3)
      (by simp only [ev0L_cons, i1, ev0_int, ev0L_nil])]
    rfl
  | .block a, hs, fuel, hf => by
    have hs : Stage1 a := by simpa [Stage1, beyond1] using hs
    simp only [Ex.size] at hf
    obtain ⟨n, rfl⟩ : ∃ n, fuel = n + 5 := ⟨fuel - 5, by omega⟩
    have i1 := roundtrip env h a hs (n + 3) (by omega)
    rw [trCode, ev0_ap env h "code_block" .codeBlock rfl _ [.code a] (n + 3)
      (by simp only [ev0L_cons, i1, ev0L_nil])]
    rfl
  | .feed x a, hs, fuel, hf => by
    have hs : Stage1 a := by simpa [Stage1, beyond1] using hs
    simp only [Ex.size] at hf
    obtain ⟨n, rfl⟩ : ∃ n, fuel = n + 5 := ⟨fuel - 5, by omega⟩
    have i1 := roundtrip env h a hs (n + 2) (by omega)
    rw [trCode, ev0_ap env h "code_feed" .codeFeed rfl _ [.str x, .code a] (n + 3)
      (by simp only [ev0L_cons, ev0_str, i1, ev0L_nil])]
    rfl
  | .bracket a, hs, _, _ => by simp [Stage1, beyond1] at hs
  | .escape a, hs, _, _ => by simp [Stage1, beyond1] at hs
  | .macroExpand f args, hs, _, _ => by simp [Stage1, beyond1] at hs
  | .pipeM a f, hs, _, _ => by simp [Stage1, beyond1] at hs
  | .placeholder, hs, _, _ => by simp [Stage1, beyond1] at hs
theorem roundtripL (env : Env0) (h : NoShadow env) : ∀ (es : List Ex), Stage1L es → ∀ fuel, 5 * sizeL es ≤ fuel →
    ev0L fuel env (trCodeL es) = .ok (es.map .code)
  | [], _, fuel, hf => by
    obtain ⟨n, rfl⟩ : ∃ n, fuel = n + 1 := ⟨fuel - 1, by simp [sizeL] at hf; omega⟩
    simp [trCodeL, ev0L_nil]
  | e :: es, hs, fuel, hf => by
    have hs := stage1L_cons hs
    simp only [sizeL] at hf
    obtain ⟨n, rfl⟩ : ∃ n, fuel = n + 1 := ⟨fuel - 1, by omega⟩
    have i1 := roundtrip env h e hs.1 n (by omega)
    have i2 := roundtripL env h es hs.2 n (by omega)
    simp only [trCodeL, List.map_cons, ev0L_cons, i1, i2]
end

end Mimium.Stage

namespace Mimium.Stage

/-- the code values of a list of trees -/
theorem fillWithL_cons {h : Ex → Option Ex} {e : Ex} {es r : List Ex} (hr : fillWithL h (e :: es) = some r) :
    ∃ e' es', fillWith h e = some e' ∧ fillWithL h es = some es' ∧ r = e' :: es' := by
  simp only [fillWithL, bind, Option.bind_eq_some_iff, pure, Option.some.injEq] at hr
  obtain ⟨e', he, es', hes, rfl⟩ := hr
  exact ⟨e', es', he, hes, rfl⟩

mutual
/-- **Hole filling.** Let `h` give, for every splice content `m`, the code it evaluates to in `env` (for all fuel ≥ `K`).
Then for every template `t` (every form of the fragment, splices anywhere, any nesting), the stage-0 program that
`translate_code` produces for `t` evaluates to `fillWith h t`: the template with each splice replaced by that code and
nothing else changed. -/
theorem fills (env : Env0) (hns : NoShadow env) (h : Ex → Option Ex) (K : Nat)
    (hh : ∀ m c, h m = some c → ∀ fuel, K ≤ fuel → ev0 fuel env (trStage0 m) = .ok (.code c)) :
    ∀ (t r : Ex), fillWith h t = some r → ∀ fuel, 5 * t.size + K ≤ fuel → ev0 fuel env (trCode t) = .ok (.code r)
  | .escape m, r, hr, fuel, hf => by
    rw [trCode]
    exact hh m r (by simpa [fillWith] using hr) fuel (by omega)
  | .macroExpand f args, r, hr, _, _ => by simp [fillWith] at hr
  | .pipeM a f, r, hr, _, _ => by simp [fillWith] at hr
  | .placeholder, r, hr, _, _ => by simp [fillWith] at hr
  | .flt b, r, hr, fuel, hf => by
    obtain rfl : r = .flt b := by simpa [fillWith] using hr.symm
    obtain ⟨n, rfl⟩ : ∃ n, fuel = n + 3 := ⟨fuel - 3, by simp [Ex.size] at hf; omega⟩
    rw [trCode, ev0_ap env hns "code_lit_f" .codeLitF rfl _ [.num b] (n + 1) (by simp only [ev0L_cons, ev0_flt, ev0L_nil])]
    rfl
  | .int i, r, hr, fuel, hf => by
    obtain rfl : r = .int i := by simpa [fillWith] using hr.symm
    obtain ⟨n, rfl⟩ : ∃ n, fuel = n + 3 := ⟨fuel - 3, by simp [Ex.size] at hf; omega⟩
    rw [trCode, ev0_ap env hns "code_lit_i" .codeLitI rfl _ [.int i] (n + 1) (by simp only [ev0L_cons, ev0_int, ev0L_nil])]
    rfl
  | .str s, r, hr, fuel, hf => by
    obtain rfl : r = .str s := by simpa [fillWith] using hr.symm
    obtain ⟨n, rfl⟩ : ∃ n, fuel = n + 3 := ⟨fuel - 3, by simp [Ex.size] at hf; omega⟩
    rw [trCode, ev0_ap env hns "code_lit_s" .codeLitS rfl _ [.str s] (n + 1) (by simp only [ev0L_cons, ev0_str, ev0L_nil])]
    rfl
  | .selfL, r, hr, fuel, hf => by
    obtain rfl : r = .selfL := by simpa [fillWith] using hr.symm
    obtain ⟨n, rfl⟩ : ∃ n, fuel = n + 3 := ⟨fuel - 3, by simp [Ex.size] at hf; omega⟩
    rw [trCode, ev0_ap env hns "code_self" .codeSelf rfl _ [] (n + 1) (by simp only [ev0L_nil])]
    rfl
  | .now, r, hr, fuel, hf => by
    obtain rfl : r = .now := by simpa [fillWith] using hr.symm
    obtain ⟨n, rfl⟩ : ∃ n, fuel = n + 3 := ⟨fuel - 3, by simp [Ex.size] at hf; omega⟩
    rw [trCode, ev0_ap env hns "code_now" .codeNow rfl _ [] (n + 1) (by simp only [ev0L_nil])]
    rfl
  | .sr, r, hr, fuel, hf => by
    obtain rfl : r = .sr := by simpa [fillWith] using hr.symm
    obtain ⟨n, rfl⟩ : ∃ n, fuel = n + 3 := ⟨fuel - 3, by simp [Ex.size] at hf; omega⟩
    rw [trCode, ev0_ap env hns "code_samplerate" .codeSamplerate rfl _ [] (n + 1) (by simp only [ev0L_nil])]
    rfl
  | .var x, r, hr, fuel, hf => by
    obtain rfl : r = .var x := by simpa [fillWith] using hr.symm
    obtain ⟨n, rfl⟩ : ∃ n, fuel = n + 3 := ⟨fuel - 3, by simp [Ex.size] at hf; omega⟩
    rw [trCode, ev0_ap env hns "code_var" .codeVar rfl _ [.str x] (n + 1) (by simp only [ev0L_cons, ev0_str, ev0L_nil])]
    rfl
  | .bracket a, r, hr, fuel, hf => by
    simp only [fillWith, bind, Option.bind_eq_some_iff, pure, Option.some.injEq] at hr
    obtain ⟨a', ha, rfl⟩ := hr
    simp only [Ex.size] at hf
    obtain ⟨n, rfl⟩ : ∃ n, fuel = n + 5 := ⟨fuel - 5, by omega⟩
    have i1 := fills env hns h K hh a a' ha (n + 3) (by omega)
    rw [trCode, ev0_ap env hns "code_block" .codeBlock rfl _ [.code a'] (n + 3)
      (by simp only [ev0L_cons, i1, ev0L_nil])]
    rfl
  | .block a, r, hr, fuel, hf => by
    simp only [fillWith, bind, Option.bind_eq_some_iff, pure, Option.some.injEq] at hr
    obtain ⟨a', ha, rfl⟩ := hr
    simp only [Ex.size] at hf
    obtain ⟨n, rfl⟩ : ∃ n, fuel = n + 5 := ⟨fuel - 5, by omega⟩
    have i1 := fills env hns h K hh a a' ha (n + 3) (by omega)
    rw [trCode, ev0_ap env hns "code_block" .codeBlock rfl _ [.code a'] (n + 3)
      (by simp only [ev0L_cons, i1, ev0L_nil])]
    rfl
  | .proj a i, r, hr, fuel, hf => by
    simp only [fillWith, bind, Option.bind_eq_some_iff, pure, Option.some.injEq] at hr
    obtain ⟨a', ha, rfl⟩ := hr
    simp only [Ex.size] at hf
    obtain ⟨n, rfl⟩ : ∃ n, fuel = n + 5 := ⟨fuel - 5, by omega⟩
    have i1 := fills env hns h K hh a a' ha (n + 3) (by omega)
    rw [trCode, ev0_ap env hns "code_proj" .codeProj rfl _ [.code a', .int i] (n + 3)
      (by simp only [ev0L_cons, i1, ev0_int, ev0L_nil])]
    rfl
  | .feed x a, r, hr, fuel, hf => by
    simp only [fillWith, bind, Option.bind_eq_some_iff, pure, Option.some.injEq] at hr
    obtain ⟨a', ha, rfl⟩ := hr
    simp only [Ex.size] at hf
    obtain ⟨n, rfl⟩ : ∃ n, fuel = n + 5 := ⟨fuel - 5, by omega⟩
    have i1 := fills env hns h K hh a a' ha (n + 2) (by omega)
    rw [trCode, ev0_ap env hns "code_feed" .codeFeed rfl _ [.str x, .code a'] (n + 3)
      (by simp only [ev0L_cons, ev0_str, i1, ev0L_nil])]
    rfl
  | .letE x v b, r, hr, fuel, hf => by
    simp only [fillWith, bind, Option.bind_eq_some_iff, pure, Option.some.injEq] at hr
    obtain ⟨v', hv, b', hb, rfl⟩ := hr
    simp only [Ex.size] at hf
    obtain ⟨n, rfl⟩ : ∃ n, fuel = n + 5 := ⟨fuel - 5, by omega⟩
    have i1 := fills env hns h K hh v v' hv (n + 2) (by omega)
    have i2 := fills env hns h K hh b b' hb (n + 1) (by omega)
    rw [trCode, ev0_ap env hns "code_let" .codeLet rfl _ [.str x, .code v', .code b'] (n + 3)
      (by simp only [ev0L_cons, ev0_str, i1, i2, ev0L_nil])]
    rfl
  | .letT xs v b, r, hr, fuel, hf => by
    simp only [fillWith, bind, Option.bind_eq_some_iff, pure, Option.some.injEq] at hr
    obtain ⟨v', hv, b', hb, rfl⟩ := hr
    simp only [Ex.size] at hf
    have := v.size_pos
    have := b.size_pos
    obtain ⟨n, rfl⟩ : ∃ n, fuel = n + 6 := ⟨fuel - 6, by omega⟩
    have i1 := fills env hns h K hh v v' hv (n + 3) (by omega)
    have i2 := fills env hns h K hh b b' hb (n + 2) (by omega)
    have i3 := ev0L_strs env xs (n + 3) (by omega)
    rw [trCode, ev0_ap env hns "code_let_tuple" .codeLetTuple rfl _ [.arr (xs.map .str), .code v', .code b'] (n + 4)
      (by simp only [ev0L_cons, ev0_arr, i3, i1, i2, ev0L_nil])]
    simp only [applyExt, mapM_asStr]
  | .letrec x v b, r, hr, fuel, hf => by
    simp only [fillWith, bind, Option.bind_eq_some_iff, pure, Option.some.injEq] at hr
    obtain ⟨v', hv, b', hb, rfl⟩ := hr
    simp only [Ex.size] at hf
    have := v.size_pos
    have := b.size_pos
    obtain ⟨n, rfl⟩ : ∃ n, fuel = n + 6 := ⟨fuel - 6, by omega⟩
    have i1 := fills env hns h K hh v v' hv (n + 2) (by omega)
    have i2 := fills env hns h K hh b b' hb (n + 1) (by omega)
    rw [trCode, ev0_ap env hns "code_letrec_typed" .codeLetrec rfl _ [.str x, .int 0, .code v', .code b'] (n + 4)
      (by simp only [ev0L_cons, ev0_str, tyTag, ev0_int, i1, i2, ev0L_nil])]
    rfl
  | .ite c t e, r, hr, fuel, hf => by
    simp only [fillWith, bind, Option.bind_eq_some_iff, pure, Option.some.injEq] at hr
    obtain ⟨c', hc, t', ht, e', he, rfl⟩ := hr
    simp only [Ex.size] at hf
    have := c.size_pos
    have := t.size_pos
    have := e.size_pos
    obtain ⟨n, rfl⟩ : ∃ n, fuel = n + 6 := ⟨fuel - 6, by omega⟩
    have i1 := fills env hns h K hh c c' hc (n + 4) (by omega)
    have i2 := fills env hns h K hh t t' ht (n + 3) (by omega)
    have i3 := fills env hns h K hh e e' he (n + 2) (by omega)
    rw [trCode, ev0_ap env hns "code_if" .codeIf rfl _ [.code c', .code t', .code e'] (n + 4)
      (by simp only [ev0L_cons, i1, i2, i3, ev0L_nil])]
    rfl
  | .thenE a b, r, hr, fuel, hf => by
    simp only [fillWith, bind, Option.bind_eq_some_iff, pure, Option.some.injEq] at hr
    obtain ⟨a', ha, b', hb, rfl⟩ := hr
    simp only [Ex.size] at hf
    obtain ⟨n, rfl⟩ : ∃ n, fuel = n + 5 := ⟨fuel - 5, by omega⟩
    have i1 := fills env hns h K hh a a' ha (n + 3) (by omega)
    have i2 := fills env hns h K hh b b' hb (n + 2) (by omega)
    rw [trCode, ev0_ap env hns "code_then" .codeThen rfl _ [.code a', .code b'] (n + 3)
      (by simp only [ev0L_cons, i1, i2, ev0L_nil])]
    rfl
  | .assign a b, r, hr, fuel, hf => by
    simp only [fillWith, bind, Option.bind_eq_some_iff, pure, Option.some.injEq] at hr
    obtain ⟨a', ha, b', hb, rfl⟩ := hr
    simp only [Ex.size] at hf
    obtain ⟨n, rfl⟩ : ∃ n, fuel = n + 5 := ⟨fuel - 5, by omega⟩
    have i1 := fills env hns h K hh a a' ha (n + 3) (by omega)
    have i2 := fills env hns h K hh b b' hb (n + 2) (by omega)
    rw [trCode, ev0_ap env hns "code_assign" .codeAssign rfl _ [.code a', .code b'] (n + 3)
      (by simp only [ev0L_cons, i1, i2, ev0L_nil])]
    rfl
  | .tup es, r, hr, fuel, hf => by
    simp only [fillWith, bind, Option.bind_eq_some_iff, pure, Option.some.injEq] at hr
    obtain ⟨es', hes, rfl⟩ := hr
    simp only [Ex.size] at hf
    obtain ⟨n, rfl⟩ : ∃ n, fuel = n + 5 := ⟨fuel - 5, by omega⟩
    have i1 := fillsL env hns h K hh es es' hes (n + 2) (by omega)
    rw [trCode, ev0_ap env hns "code_tuple" .codeTuple rfl _ [.arr (es'.map .code)] (n + 3)
      (by simp only [ev0L_cons, ev0_arr, i1, ev0L_nil])]
    simp only [applyExt, mapM_asCode]
  | .arr es, r, hr, fuel, hf => by
    simp only [fillWith, bind, Option.bind_eq_some_iff, pure, Option.some.injEq] at hr
    obtain ⟨es', hes, rfl⟩ := hr
    simp only [Ex.size] at hf
    obtain ⟨n, rfl⟩ : ∃ n, fuel = n + 5 := ⟨fuel - 5, by omega⟩
    have i1 := fillsL env hns h K hh es es' hes (n + 2) (by omega)
    rw [trCode, ev0_ap env hns "code_array" .codeArray rfl _ [.arr (es'.map .code)] (n + 3)
      (by simp only [ev0L_cons, ev0_arr, i1, ev0L_nil])]
    simp only [applyExt, mapM_asCode]
  | .lam [] body, r, hr, fuel, hf => by
    simp only [fillWith, bind, Option.bind_eq_some_iff, pure, Option.some.injEq] at hr
    obtain ⟨b', hb, rfl⟩ := hr
    simp only [Ex.size, List.length_nil] at hf
    have := body.size_pos
    obtain ⟨n, rfl⟩ : ∃ n, fuel = n + 7 := ⟨fuel - 7, by omega⟩
    have i1 := fills env hns h K hh body b' hb (n + 2) (by omega)
    rw [trCode, ev0_ap env hns "code_lam_finish_typed" .codeLam rfl _ [.arr [], .arr [], .int 0, .code b'] (n + 5)
      (by simp only [ev0L_cons, ev0_arr, ev0L_nil, tyTag, ev0_int, i1])]
    rfl
  | .lam [p] body, r, hr, fuel, hf => by
    simp only [fillWith, bind, Option.bind_eq_some_iff, pure, Option.some.injEq] at hr
    obtain ⟨b', hb, rfl⟩ := hr
    simp only [Ex.size, List.length_cons, List.length_nil] at hf
    have := body.size_pos
    obtain ⟨n, rfl⟩ : ∃ n, fuel = n + 7 := ⟨fuel - 7, by omega⟩
    have i1 := fills env hns h K hh body b' hb (n + 2) (by omega)
    rw [trCode, ev0_ap env hns "code_lam1_finish_typed" .codeLam1 rfl _ [.str p, .int 0, .int 0, .code b'] (n + 5)
      (by simp only [ev0L_cons, ev0_str, ev0L_nil, tyTag, ev0_int, i1])]
    rfl
  | .lam (p :: q :: ps) body, r, hr, fuel, hf => by
    simp only [fillWith, bind, Option.bind_eq_some_iff, pure, Option.some.injEq] at hr
    obtain ⟨b', hb, rfl⟩ := hr
    simp only [Ex.size, List.length_cons] at hf
    obtain ⟨n, rfl⟩ : ∃ n, fuel = n + 7 := ⟨fuel - 7, by omega⟩
    have i1 := fills env hns h K hh body b' hb (n + 2) (by omega)
    have i2 := ev0L_strs env (p :: q :: ps) (n + 4) (by simp only [List.length_cons]; omega)
    have i3 := ev0L_tags env (p :: q :: ps) (n + 3) (by simp only [List.length_cons]; omega)
    simp only [tyTag] at i3
    rw [trCode, ev0_ap env hns "code_lam_finish_typed" .codeLam rfl _
      [.arr ((p :: q :: ps).map .str), .arr ((p :: q :: ps).map fun _ => .int 0), .int 0, .code b'] (n + 5)
      (by simp only [ev0L_cons, ev0_arr, i2, i3, ev0L_nil, tyTag, ev0_int, i1])]
    simp only [applyExt, mapM_asStr]
  | .app f [], r, hr, fuel, hf => by
    simp only [fillWith, fillWithL, bind, Option.bind_eq_some_iff, pure, Option.some.injEq] at hr
    obtain ⟨f', hf', _, rfl, rfl⟩ := hr
    simp only [Ex.size, sizeL] at hf
    obtain ⟨n, rfl⟩ : ∃ n, fuel = n + 5 := ⟨fuel - 5, by omega⟩
    have i1 := fills env hns h K hh f f' hf' (n + 3) (by omega)
    rw [trCode, ev0_ap env hns "code_app" .codeApp rfl _ [.code f', .arr []] (n + 3)
      (by simp only [ev0L_cons, i1, ev0_arr, ev0L_nil])]
    rfl
  | .app f [a], r, hr, fuel, hf => by
    simp only [fillWith, fillWithL, bind, Option.bind_eq_some_iff, pure, Option.some.injEq] at hr
    obtain ⟨f', hf', _, ⟨a', ha, _, rfl, rfl⟩, rfl⟩ := hr
    simp only [Ex.size, sizeL] at hf
    obtain ⟨n, rfl⟩ : ∃ n, fuel = n + 5 := ⟨fuel - 5, by omega⟩
    have i1 := fills env hns h K hh f f' hf' (n + 3) (by omega)
    have i2 := fills env hns h K hh a a' ha (n + 2) (by omega)
    rw [trCode, ev0_ap env hns "code_app1" .codeApp1 rfl _ [.code f', .code a'] (n + 3)
      (by simp only [ev0L_cons, i1, i2, ev0L_nil])]
    rfl
  | .app f [a, b], r, hr, fuel, hf => by
    simp only [fillWith, fillWithL, bind, Option.bind_eq_some_iff, pure, Option.some.injEq] at hr
    obtain ⟨f', hf', _, ⟨a', ha, _, ⟨b', hb, _, rfl, rfl⟩, rfl⟩, rfl⟩ := hr
    simp only [Ex.size, sizeL] at hf
    obtain ⟨n, rfl⟩ : ∃ n, fuel = n + 6 := ⟨fuel - 6, by omega⟩
    have i1 := fills env hns h K hh f f' hf' (n + 4) (by omega)
    have i2 := fills env hns h K hh a a' ha (n + 3) (by omega)
    have i3 := fills env hns h K hh b b' hb (n + 2) (by omega)
    rw [trCode, ev0_ap env hns "code_app2" .codeApp2 rfl _ [.code f', .code a', .code b'] (n + 4)
      (by simp only [ev0L_cons, i1, i2, i3, ev0L_nil])]
    rfl
  | .app f (a :: b :: c :: rest), r, hr, fuel, hf => by
    simp only [fillWith, bind, Option.bind_eq_some_iff, pure, Option.some.injEq] at hr
    obtain ⟨f', hf', as', has, rfl⟩ := hr
    simp only [Ex.size] at hf
    obtain ⟨n, rfl⟩ : ∃ n, fuel = n + 6 := ⟨fuel - 6, by simp only [sizeL] at hf; omega⟩
    have i1 := fills env hns h K hh f f' hf' (n + 4) (by omega)
    have i2 := fillsL env hns h K hh (a :: b :: c :: rest) as' has (n + 2) (by omega)
    simp only [trCodeL] at i2
    rw [trCode, ev0_ap env hns "code_app" .codeApp rfl _ [.code f', .arr (as'.map .code)] (n + 4)
      (by simp only [ev0L_cons, i1, ev0_arr, i2, ev0L_nil])]
    simp only [applyExt, mapM_asCode]
theorem fillsL (env : Env0) (hns : NoShadow env) (h : Ex → Option Ex) (K : Nat)
    (hh : ∀ m c, h m = some c → ∀ fuel, K ≤ fuel → ev0 fuel env (trStage0 m) = .ok (.code c)) :
    ∀ (ts rs : List Ex), fillWithL h ts = some rs → ∀ fuel, 5 * sizeL ts + K ≤ fuel →
      ev0L fuel env (trCodeL ts) = .ok (rs.map .code)
  | [], rs, hr, fuel, hf => by
    obtain rfl : rs = [] := by simpa [fillWithL] using hr.symm
    obtain ⟨n, rfl⟩ : ∃ n, fuel = n + 1 := ⟨fuel - 1, by simp [sizeL] at hf; omega⟩
    simp [trCodeL, ev0L_nil]
  | t :: ts, rs, hr, fuel, hf => by
    obtain ⟨t', ts', ht, hts, rfl⟩ := fillWithL_cons hr
    simp only [sizeL] at hf
    obtain ⟨n, rfl⟩ : ∃ n, fuel = n + 1 := ⟨fuel - 1, by omega⟩
    have i1 := fills env hns h K hh t t' ht n (by omega)
    have i2 := fillsL env hns h K hh ts ts' hts n (by omega)
    simp only [trCodeL, List.map_cons, ev0L_cons, i1, i2]
end

end Mimium.Stage

namespace Mimium.Stage

theorem ev0_var (n : Nat) (env : Env0) (x : String) (v : V0) (h : env.lookup x = some v) :
    ev0 (n + 1) env (.var x) = .ok v := by
  rw [ev0]; simp only [h]

/-- the code part of a macro-stage environment -/
def codeEnv (env : Env0) : List (String × Option Ex) := env.map fun (x, v) => (x, asCode v)

theorem codeEnv_lookup (env : Env0) (x : String) (c : Ex) (h : ((codeEnv env).lookup x).join = some c) :
    env.lookup x = some (.code c) := by
  induction env with
  | nil => simp [codeEnv] at h
  | cons p rest ih =>
    obtain ⟨y, v⟩ := p
    simp only [codeEnv, List.map_cons, List.lookup] at h ⊢
    by_cases hxy : x == y
    · simp only [hxy] at h ⊢
      cases v <;> simp_all [asCode]
    · simp only [hxy] at h ⊢
      exact ih h

/-- **A quote is substitution.** In an environment `env`, a quote `` `T `` whose splices are macro-stage variables
evaluates to `T` with every `$x` replaced by the code bound to `x` — by names, nothing renamed. -/
theorem quote_substitutes (env : Env0) (hns : NoShadow env) (T R : Ex)
    (hR : fillWith (holeOracle (codeEnv env)) T = some R) (fuel : Nat) (hf : 5 * T.size + 1 ≤ fuel) :
    ev0 fuel env (trStage0 (.bracket T)) = .ok (.code R) := by
  rw [trStage0]
  refine fills env hns (holeOracle (codeEnv env)) 1 ?_ T R hR fuel hf
  intro m c hm fuel hfuel
  cases m <;> simp only [holeOracle] at hm <;> try contradiction
  rename_i x
  obtain ⟨n, rfl⟩ : ∃ n, fuel = n + 1 := ⟨fuel - 1, by omega⟩
  rw [trStage0, ev0_var n env x (.code c) (codeEnv_lookup env x c hm)]

theorem apply0_clo (n : Nat) (ps : List String) (body : Ex) (cenv : Env0) (vs : List V0) (h : ps.length = vs.length) :
    apply0 (n + 1) (.clo ps body cenv none) vs = ev0 n (bindParams cenv ps vs) body := by
  rw [apply0]; simp [h]

end Mimium.Stage

namespace Mimium.Stage

/-- **A macro call is substitution.** If `m` is bound to the macro function `|h₁ … hₙ| `T` (closure environment `cenv`)
and the arguments evaluate to the code fragments `cs`, then the call `m(args)` — which is what `m!(args)` splices —
evaluates to `T` with every `$x` replaced by the code bound to `x` in `cenv[hᵢ ↦ csᵢ]`. -/
theorem macro_call_substitutes (env cenv : Env0) (m : String) (hs : List String) (T : Ex)
    (hm : env.lookup m = some (.clo hs (trStage0 (.bracket T)) cenv none))
    (args cs : List Ex) (n : Nat) (hargs : ev0L (n + 1) env args = .ok (cs.map .code))
    (hlen : hs.length = cs.length)
    (hns : NoShadow (bindParams cenv hs (cs.map .code)))
    (R : Ex) (hR : fillWith (holeOracle (codeEnv (bindParams cenv hs (cs.map .code)))) T = some R)
    (hf : 5 * T.size + 1 ≤ n) :
    ev0 (n + 2) env (.app (.var m) args) = .ok (.code R) := by
  rw [ev0_app, ev0_var n env m _ hm]
  simp only [hargs]
  rw [apply0_clo n hs _ cenv _ (by simpa using hlen)]
  exact quote_substitutes _ hns T R hR n hf

/-- **Let-bound code is substitution.** `let c = `T₁; `T₂` evaluates to `T₂` with `$c` replaced by the expansion of `T₁`. -/
theorem let_code_substitutes (env : Env0) (c : String) (T1 T2 R1 R2 : Ex) (hc : c ≠ "_")
    (hns : NoShadow env) (hns' : NoShadow ((c, .code R1) :: env))
    (h1 : fillWith (holeOracle (codeEnv env)) T1 = some R1)
    (h2 : fillWith (holeOracle (codeEnv ((c, .code R1) :: env))) T2 = some R2)
    (n : Nat) (hf1 : 5 * T1.size + 1 ≤ n) (hf2 : 5 * T2.size + 1 ≤ n) :
    ev0 (n + 1) env (trStage0 (.letE c (.bracket T1) (.bracket T2))) = .ok (.code R2) := by
  rw [trStage0, ev0]
  simp only [quote_substitutes env hns T1 R1 h1 n hf1]
  have : (c == "_") = false := by simpa using hc
  simp only [this, Bool.false_eq_true, ↓reduceIte]
  exact quote_substitutes _ hns' T2 R2 h2 n hf2

end Mimium.Stage

namespace Mimium.Stage
/-- a macro-stage environment that binds only the name `x`, which is not an external function -/
theorem NoShadow_single (x : String) (v : V0) (hx : extOf x = none) : NoShadow [(x, v)] := by
  intro y hy
  simp only [List.lookup]
  by_cases h : y = x
  · subst h; simp [hx] at hy
  · have : (y == x) = false := by simpa using h
    simp [this]
end Mimium.Stage
