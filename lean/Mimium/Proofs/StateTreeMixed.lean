import Mimium.Proofs.StateTreeFlat
import Mimium.Proofs.StateTreeChain
/-!
Mixed edits (subtrees removed *and* added, at any depth).

`Kept o n k` — some description of the edit `o → n` by removed and added subtrees keeps `k` words of the old layout.
`mixedOk o n` — the decidable class: at every `FnCall` node that is not copied whole the similar child pairs form a
chain (no old child is similar to two new children, no new child to two old ones, no crossing) and every similar pair is
again in the class.  `mixed_kept`: on this class the plan carries at least `k` words for *every* such description.
-/
namespace Mimium.StateTree

/-! ### chains -/

theorem psum_mono {g g' : Nat × Nat → Nat} : ∀ (cm : List (Nat × Nat)), (∀ p ∈ cm, g p ≤ g' p) →
    psum g cm ≤ psum g' cm
  | [], _ => Nat.le_refl _
  | p :: rest, h => by
    have h1 := h p List.mem_cons_self
    have ih := psum_mono rest (fun q hq => h q (List.mem_cons_of_mem _ hq))
    simp only [psum]; omega

theorem psum_append (g : Nat × Nat → Nat) (a b : List (Nat × Nat)) : psum g (a ++ b) = psum g a + psum g b := by
  induction a with
  | nil => simp [psum]
  | cons p rest ih => simp only [List.cons_append, psum, ih]; omega

theorem psum_rows_le (f : Nat → Nat) (n m : Nat) : ∀ (cm : List (Nat × Nat)) (i0 j0 : Nat),
    IncFrom n m i0 j0 cm → i0 ≤ n → sumTo f i0 + psum (fun p => f p.1) cm ≤ sumTo f n
  | [], i0, j0, _, hi => by simpa [psum] using sumTo_mono f hi
  | (o, k) :: rest, i0, j0, hinc, hi => by
    simp only [IncFrom] at hinc
    obtain ⟨h1, h2, h3, h4, h5⟩ := hinc
    have ih := psum_rows_le f n m rest (o+1) (k+1) h5 (by omega)
    have mo := sumTo_mono f h1
    simp only [psum, sumTo_succ] at ih ⊢
    omega

theorem psum_zero : ∀ (cm : List (Nat × Nat)), psum (fun _ => 0) cm = 0
  | [] => rfl
  | _ :: rest => by simp [psum, psum_zero rest]

/-- splitting a chain at one of its members -/
theorem IncFrom.split {n m : Nat} : ∀ {cm : List (Nat × Nat)} {i0 j0 : Nat}, IncFrom n m i0 j0 cm →
    ∀ p ∈ cm, ∃ pre post, cm = pre ++ p :: post ∧ IncFrom n m (p.1+1) (p.2+1) post ∧ ∀ q ∈ pre, q.1 < p.1
  | [], _, _, _, p, hp => by simp at hp
  | (o, k) :: rest, i0, j0, h, p, hp => by
    simp only [IncFrom] at h
    obtain ⟨h1, h2, h3, h4, h5⟩ := h
    rw [List.mem_cons] at hp
    rcases hp with hp | hp
    · subst hp
      exact ⟨[], rest, rfl, h5, by simp⟩
    · obtain ⟨pre, post, e, hpost, hpre⟩ := IncFrom.split h5 p hp
      refine ⟨(o, k) :: pre, post, by rw [e]; rfl, hpost, ?_⟩
      intro q hq
      rw [List.mem_cons] at hq
      rcases hq with hq | hq
      · subst hq
        have := IncFrom.mem h5 p hp
        simp only; omega
      · exact hpre q hq

/-- a chain whose relevant members all lie in a second chain sums to at most the second chain's sum -/
theorem psum_le_psum (kf g : Nat × Nat → Nat) (n m : Nat) : ∀ (cm cm2 : List (Nat × Nat)) (i0 j0 : Nat),
    IncFrom n m i0 j0 cm → IncFrom n m i0 j0 cm2 →
    (∀ p ∈ cm, 0 < kf p → p ∈ cm2 ∧ kf p ≤ g p) → psum kf cm ≤ psum g cm2
  | [], _, _, _, _, _, _ => by simp [psum]
  | p :: rest, cm2, i0, j0, h1, h2, h => by
    obtain ⟨o, k⟩ := p
    have h1' := h1
    simp only [IncFrom] at h1
    obtain ⟨a1, a2, a3, a4, a5⟩ := h1
    by_cases hp : 0 < kf (o, k)
    · obtain ⟨hmem, hle⟩ := h (o, k) List.mem_cons_self hp
      obtain ⟨pre, post, e, hpost, hpre⟩ := h2.split (o, k) hmem
      have ih := psum_le_psum kf g n m rest post (o+1) (k+1) a5 hpost (by
        intro q hq hqp
        obtain ⟨hq2, hqle⟩ := h q (List.mem_cons_of_mem _ hq) hqp
        refine ⟨?_, hqle⟩
        have hb := IncFrom.mem a5 q hq
        rw [e, List.mem_append, List.mem_cons] at hq2
        rcases hq2 with hq2 | hq2 | hq2
        · have := hpre q hq2; simp only at this; omega
        · subst hq2; simp only at hb; omega
        · exact hq2)
      rw [e, psum_append]
      simp only [psum]
      omega
    · have ih := psum_le_psum kf g n m rest cm2 i0 j0 (a5.mono (by omega) (by omega)) h2
        (fun q hq hqp => h q (List.mem_cons_of_mem _ hq) hqp)
      simp only [psum]; omega

/-! ### edit descriptions -/

/-- `Kept o n k`: there is a description of the edit `o → n` by removed and added subtrees (at any depth) under which
`k` words of `o` survive: either the node is unchanged, or some order preserving matching of the children is kept and
each matched pair is described recursively. -/
inductive Kept : Sk → Sk → Nat → Prop
  | whole (o n : Sk) : o.matches n = true → Kept o n o.size
  | node (ocs ncs : List Sk) (cm : List (Nat × Nat)) (kf : Nat × Nat → Nat) :
      IncFrom ocs.length ncs.length 0 0 cm →
      (∀ (i j : Nat) (hi : i < ocs.length) (hj : j < ncs.length), (i, j) ∈ cm → Kept ocs[i] ncs[j] (kf (i, j))) →
      Kept (.fn ocs) (.fn ncs) (psum kf cm)

/-- a description never keeps more than there is -/
theorem Kept.le_size {o n : Sk} {k : Nat} (h : Kept o n k) : k ≤ o.size := by
  induction h with
  | whole o n _ => exact Nat.le_refl _
  | node ocs ncs cm kf hinc _ ih =>
    have h1 : psum kf cm ≤ psum (fun p => (fun i => (ocs.getD i (.fn [])).size) p.1) cm := by
      apply psum_mono
      intro p hp
      obtain ⟨_, _, hi, hj⟩ := hinc.mem p hp
      have := ih p.1 p.2 hi hj hp
      simpa [List.getD, hi] using this
    have h2 := psum_rows_le (fun i => (ocs.getD i (.fn [])).size) ocs.length ncs.length cm 0 0 hinc (Nat.zero_le _)
    rw [sumTo_sizes ocs _ (Nat.le_refl _), offsetOf_length] at h2
    simp only [sumTo_zero, Nat.zero_add] at h2
    dsimp only at h1 h2
    simp only [size_fn]
    omega

/-- a node that produces no patch has no similar child pair -/
theorem scores_zero_of_diff_nil (ocs ncs : List Sk) (hm : ¬ (Sk.fn ocs).matches (.fn ncs) = true)
    (h : diff (.fn ocs) (.fn ncs) = []) (i j : Nat) : scoreOf ocs ncs i j = 0 := by
  by_cases hi : i < ocs.length
  · by_cases hj : j < ncs.length
    · by_cases hp : 0 < scoreOf ocs ncs i j
      · exfalso
        have hd : 0 < dpS (scoreOf ocs ncs) ocs.length ncs.length := by
          have t := dpS_take (scoreOf ocs ncs) i j
          have mo := dpS_mono (scoreOf ocs ncs) (show i + 1 ≤ ocs.length by omega) (show j + 1 ≤ ncs.length by omega)
          omega
        have hne := backtrack_nonempty (scoreOf ocs ncs) (dpTable ocs.length ncs.length (scoreOf ocs ncs))
          ocs.length ncs.length (fun i j hi hj => dpGet_dpTable _ _ _ i j hi hj)
          (ocs.length + ncs.length) ocs.length ncs.length [] (Nat.le_refl _) (Nat.le_refl _) (Nat.le_refl _) hd
        obtain ⟨p, hp'⟩ := List.exists_mem_of_ne_nil _ hne
        have hp2 : p ∈ nodeCommons ocs ncs := hp'
        have hpos := nodeCommons_pos ocs ncs p hp2
        unfold scoreOf at hpos
        obtain ⟨q, hq⟩ := List.exists_mem_of_ne_nil (tblGet (diffTbl ocs ncs) p.1 p.2) (by
          intro e; rw [e] at hpos; simp at hpos)
        have hc := mem_collect ocs ncs _ p.1 p.2 q hq (nodeCommons ocs ncs) hp2
        rw [diff_fn_fn ocs ncs hm] at h
        have : q.shift (offsetOf ocs p.1) (offsetOf ncs p.2) ∈ dedup (collect ocs ncs (diffTbl ocs ncs)
            (commons (lcsByScore ocs.length ncs.length (scoreOf ocs ncs)))) := (mem_dedup _ _).2 hc
        rw [h] at this
        simp at this
      · omega
    · exact scoreOf_oob ocs ncs i j (Or.inr (by omega))
  · exact scoreOf_oob ocs ncs i j (Or.inl (by omega))

/-- a description of a pair that produces no patch keeps nothing -/
theorem Kept.zero_of_diff_nil {o n : Sk} {k : Nat} (h : Kept o n k) : diff o n = [] → k = 0 := by
  induction h with
  | whole o n hm => intro e; rw [diff_of_matches _ _ hm] at e; simp at e
  | node ocs ncs cm kf hinc _ ih =>
    intro e
    have hm : ¬ (Sk.fn ocs).matches (.fn ncs) = true := by
      intro hm; rw [diff_of_matches _ _ hm] at e; simp at e
    have hz : psum kf cm = psum (fun _ => 0) cm := by
      apply psum_congr
      intro p hp
      obtain ⟨_, _, hi, hj⟩ := hinc.mem p hp
      apply ih p.1 p.2 hi hj hp
      have := scores_zero_of_diff_nil ocs ncs hm e p.1 p.2
      rw [scoreOf_eq ocs ncs p.1 p.2 hi hj] at this
      exact List.length_eq_zero_iff.1 this
    rw [hz, psum_zero]

/-! ### the class -/

/-- the similar child pairs of a node form a chain -/
def chainB (ocs ncs : List Sk) : Bool :=
  let sc := scoreOf ocs ncs
  (List.range ocs.length).all fun i => (List.range ncs.length).all fun j =>
    sc i j == 0 || ((List.range ocs.length).all fun i' => (List.range ncs.length).all fun j' =>
      sc i' j' == 0 || (decide (i < i') && decide (j < j')) || (decide (i' < i) && decide (j' < j)) ||
        (i == i' && j == j'))

theorem chainB_spec (ocs ncs : List Sk) (h : chainB ocs ncs = true) : ChainScores (scoreOf ocs ncs) := by
  intro i j i' j' h1 h2
  have hi : i < ocs.length := by
    by_cases hi : i < ocs.length
    · exact hi
    · rw [scoreOf_oob ocs ncs i j (Or.inl (by omega))] at h1; omega
  have hj : j < ncs.length := by
    by_cases hj : j < ncs.length
    · exact hj
    · rw [scoreOf_oob ocs ncs i j (Or.inr (by omega))] at h1; omega
  have hi' : i' < ocs.length := by
    by_cases hi' : i' < ocs.length
    · exact hi'
    · rw [scoreOf_oob ocs ncs i' j' (Or.inl (by omega))] at h2; omega
  have hj' : j' < ncs.length := by
    by_cases hj' : j' < ncs.length
    · exact hj'
    · rw [scoreOf_oob ocs ncs i' j' (Or.inr (by omega))] at h2; omega
  simp only [chainB, List.all_eq_true, List.mem_range, Bool.or_eq_true, beq_iff_eq, Bool.and_eq_true,
    decide_eq_true_eq] at h
  rcases h i hi j hj with h0 | h0
  · omega
  · rcases h0 i' hi' j' hj' with ((h3 | h3) | h3) | h3
    · omega
    · exact Or.inl h3
    · exact Or.inr (Or.inl h3)
    · exact Or.inr (Or.inr h3)

mutual
/-- `mixedOk o n`: the class for edits that remove and add subtrees -/
def mixedOk : Sk → Sk → Bool
  | .fn ocs, n =>
    (Sk.fn ocs).matches n || (match n with
      | .fn ncs => mixedRows ocs ncs && chainB ocs ncs
      | _ => true)
  | _, _ => true
def mixedRows : List Sk → List Sk → Bool
  | [], _ => true
  | o :: os, ns => ns.all (fun n => (diff o n).isEmpty || mixedOk o n) && mixedRows os ns
end

theorem mixedRows_get : ∀ (ocs ncs : List Sk), mixedRows ocs ncs = true →
    ∀ (i : Nat) (hi : i < ocs.length) (j : Nat) (hj : j < ncs.length),
      diff ocs[i] ncs[j] = [] ∨ mixedOk ocs[i] ncs[j] = true
  | [], _, _, i, hi => by simp at hi
  | o :: os, ncs, h, 0, _ => by
    simp only [mixedRows, Bool.and_eq_true, List.all_eq_true, Bool.or_eq_true, List.isEmpty_iff] at h
    exact fun j hj => h.1 ncs[j] (List.getElem_mem hj)
  | o :: os, ncs, h, i+1, hi => by
    simp only [mixedRows, Bool.and_eq_true] at h
    simpa using mixedRows_get os ncs h.2 i (by simpa using hi)

mutual
/-- **mixed edits, any depth**: on the class `mixedOk` the plan carries at least as many words as any description of
the edit by removed and added subtrees keeps -/
theorem mixed_kept : ∀ (o n : Sk), mixedOk o n = true → ∀ k, Kept o n k → k ≤ carried (diff o n)
  | .delay a, n, _, k, hk => by
    cases hk with
    | whole _ _ hm => rw [diff_of_matches _ _ hm]; simp
  | .mem a, n, _, k, hk => by
    cases hk with
    | whole _ _ hm => rw [diff_of_matches _ _ hm]; simp
  | .feed a, n, _, k, hk => by
    cases hk with
    | whole _ _ hm => rw [diff_of_matches _ _ hm]; simp
  | .fn ocs, n, h, k, hk => by
    by_cases hm : (Sk.fn ocs).matches n = true
    · rw [diff_of_matches _ _ hm]
      have := hk.le_size
      simpa using this
    · cases hk with
      | whole _ _ hm' => exact absurd hm' hm
      | node _ ncs cm kf hinc hkf =>
        simp only [mixedOk, hm, Bool.false_or, Bool.and_eq_true] at h
        obtain ⟨hrows, hchain⟩ := h
        have hget := mixedRows_get ocs ncs hrows
        have hall := mixedL_kept ocs
        have hch := chainB_spec ocs ncs hchain
        rw [carried_node ocs ncs hm]
        apply psum_le_psum kf _ ocs.length ncs.length cm (nodeCommons ocs ncs) 0 0 hinc (nodeCommons_inc ocs ncs)
        intro p hp hpos
        obtain ⟨_, _, hi, hj⟩ := hinc.mem p hp
        obtain ⟨pa, pb⟩ := p
        dsimp only at hi hj ⊢
        have hk' := hkf pa pb hi hj hp
        have hne : diff ocs[pa] ncs[pb] ≠ [] := by
          intro e
          have := hk'.zero_of_diff_nil e
          omega
        have hsc : 0 < scoreOf ocs ncs pa pb := by
          rw [scoreOf_eq ocs ncs pa pb hi hj]
          exact List.length_pos_iff.2 hne
        refine ⟨?_, ?_⟩
        · exact backtrack_chain (scoreOf ocs ncs) _ ocs.length ncs.length
            (fun i j hi hj => dpGet_dpTable _ _ _ i j hi hj) hch _ _ _ []
            (Nat.le_refl _) (Nat.le_refl _) (Nat.le_refl _) (by
              intro k l hkl
              have hk1 : k < ocs.length := by
                by_cases hk1 : k < ocs.length
                · exact hk1
                · rw [scoreOf_oob ocs ncs k l (Or.inl (by omega))] at hkl; omega
              have hl1 : l < ncs.length := by
                by_cases hl1 : l < ncs.length
                · exact hl1
                · rw [scoreOf_oob ocs ncs k l (Or.inr (by omega))] at hkl; omega
              exact ⟨fun _ => hl1, fun _ => hk1⟩) pa pb hsc hi
        · rw [tblGet_diffTbl ocs ncs pa pb hi hj]
          rcases hget pa hi pb hj with h0 | h1
          · exact absurd h0 hne
          · exact hall pa hi _ h1 _ hk'
theorem mixedL_kept : ∀ (ocs : List Sk) (i : Nat) (hi : i < ocs.length) (n : Sk),
    mixedOk ocs[i] n = true → ∀ k, Kept ocs[i] n k → k ≤ carried (diff ocs[i] n)
  | [], i, hi, _ => by simp at hi
  | o :: os, 0, _, n => by simpa using mixed_kept o n
  | o :: os, i+1, hi, n => by simpa using mixedL_kept os i (by simpa using hi) n
end

/-! ### "only additions" is a special case: `embeds o n` gives a description that keeps every old word -/

theorem psum_map (g : Nat × Nat → Nat) (f : Nat × Nat → Nat × Nat) : ∀ (cm : List (Nat × Nat)),
    psum g (cm.map f) = psum (fun p => g (f p)) cm
  | [] => rfl
  | p :: rest => by simp [psum, psum_map g f rest]

mutual
theorem kept_of_embeds : ∀ (a b : Sk), embeds a b = true → Kept a b a.size
  | a, .fn bcs, h => by
    by_cases hm : a.matches (.fn bcs) = true
    · exact Kept.whole _ _ hm
    · cases a with
      | fn acs =>
        simp only [embeds, hm, Bool.false_or] at h
        obtain ⟨cm, kf, hinc, hk, hsum⟩ := keptL_of_embedsL acs bcs h
        have := Kept.node acs bcs cm kf hinc hk
        rw [hsum] at this
        simpa using this
      | delay _ => simp [embeds, hm] at h
      | mem _ => simp [embeds, hm] at h
      | feed _ => simp [embeds, hm] at h
  | a, .delay _, h => by simp only [embeds] at h; exact Kept.whole _ _ h
  | a, .mem _, h => by simp only [embeds] at h; exact Kept.whole _ _ h
  | a, .feed _, h => by simp only [embeds] at h; exact Kept.whole _ _ h
theorem keptL_of_embedsL : ∀ (as bs : List Sk), embedsL as bs = true →
    ∃ (cm : List (Nat × Nat)) (kf : Nat × Nat → Nat), IncFrom as.length bs.length 0 0 cm ∧
      (∀ (i j : Nat) (hi : i < as.length) (hj : j < bs.length), (i, j) ∈ cm → Kept as[i] bs[j] (kf (i, j))) ∧
      psum kf cm = sizeL as
  | [], bs, _ => ⟨[], fun _ => 0, trivial, by intro i j hi; simp at hi, rfl⟩
  | a :: as, [], h => by simp [embedsL] at h
  | a :: as, b :: bs, h => by
    simp only [embedsL, Bool.or_eq_true, Bool.and_eq_true] at h
    rcases h with ⟨h1, h2⟩ | h3
    · have k1 := kept_of_embeds a b h1
      obtain ⟨cm, kf, hinc, hk, hsum⟩ := keptL_of_embedsL as bs h2
      refine ⟨(0, 0) :: cm.map (fun p => (p.1+1, p.2+1)),
        fun p => if p = (0, 0) then a.size else kf (p.1 - 1, p.2 - 1), ?_, ?_, ?_⟩
      · simp only [IncFrom, List.length_cons]
        exact ⟨Nat.le_refl _, Nat.le_refl _, by omega, by omega, hinc.map_both⟩
      · intro i j hi hj hm
        rw [List.mem_cons] at hm
        rcases hm with hm | hm
        · simp only [Prod.mk.injEq] at hm
          obtain ⟨rfl, rfl⟩ := hm
          simpa using k1
        · rw [List.mem_map] at hm
          obtain ⟨q, hq, e⟩ := hm
          simp only [Prod.mk.injEq] at e
          obtain ⟨rfl, rfl⟩ := e
          obtain ⟨_, _, hq1, hq2⟩ := hinc.mem q hq
          have := hk q.1 q.2 hq1 hq2 hq
          simpa using this
      · simp only [psum, psum_map]
        have e : psum (fun p : Nat × Nat => if (p.1 + 1, p.2 + 1) = (0, 0) then a.size
            else kf (p.1 + 1 - 1, p.2 + 1 - 1)) cm = psum kf cm := by
          apply psum_congr
          intro p _
          simp
        rw [e, hsum]
        simp
    · obtain ⟨cm, kf, hinc, hk, hsum⟩ := keptL_of_embedsL (a :: as) bs h3
      refine ⟨cm.map (fun p => (p.1, p.2+1)), fun p => kf (p.1, p.2 - 1), ?_, ?_, ?_⟩
      · simpa using hinc.map_right.mono (Nat.le_refl _) (Nat.zero_le _)
      · intro i j hi hj hm
        rw [List.mem_map] at hm
        obtain ⟨q, hq, e⟩ := hm
        simp only [Prod.mk.injEq] at e
        obtain ⟨rfl, rfl⟩ := e
        obtain ⟨_, _, hq1, hq2⟩ := hinc.mem q hq
        have := hk q.1 q.2 hq1 hq2 hq
        simpa using this
      · rw [psum_map]
        simpa using hsum
end

/-! ### symmetry: a description of `o → n` read backwards describes `n → o` and keeps the same number of words -/

mutual
theorem matches_symm : ∀ (a b : Sk), a.matches b = true → b.matches a = true
  | .delay x, .delay y, h => by simp [Sk.matches] at h ⊢; omega
  | .mem x, .mem y, h => by simp [Sk.matches] at h ⊢; omega
  | .feed x, .feed y, h => by simp [Sk.matches] at h ⊢; omega
  | .fn x, .fn y, h => by
      simp only [Sk.matches] at h ⊢
      exact matchesL_symm x y h
  | .delay _, .mem _, h | .delay _, .feed _, h | .delay _, .fn _, h
  | .mem _, .delay _, h | .mem _, .feed _, h | .mem _, .fn _, h
  | .feed _, .delay _, h | .feed _, .mem _, h | .feed _, .fn _, h
  | .fn _, .delay _, h | .fn _, .mem _, h | .fn _, .feed _, h => by simp [Sk.matches] at h
theorem matchesL_symm : ∀ (a b : List Sk), matchesL a b = true → matchesL b a = true
  | [], [], _ => rfl
  | a :: as, b :: bs, h => by
      simp only [matchesL, Bool.and_eq_true] at h ⊢
      exact ⟨matches_symm a b h.1, matchesL_symm as bs h.2⟩
  | [], _ :: _, h | _ :: _, [], h => by simp [matchesL] at h
end

theorem Kept.symm {o n : Sk} {k : Nat} (h : Kept o n k) : Kept n o k := by
  induction h with
  | whole o n hm =>
    have := Kept.whole n o (matches_symm o n hm)
    rwa [← matches_size o n hm] at this
  | node ocs ncs cm kf hinc _ ih =>
    have := Kept.node ncs ocs (cm.map Prod.swap) (fun p => kf p.swap) hinc.map_swap (by
      intro i j hi hj hm
      rw [List.mem_map] at hm
      obtain ⟨q, hq, e⟩ := hm
      obtain ⟨a, b⟩ := q
      simp only [Prod.swap, Prod.mk.injEq] at e
      obtain ⟨rfl, rfl⟩ := e
      exact ih _ _ _ _ hq)
    rw [psum_map] at this
    simpa using this

/-- in particular a description never keeps more than the new layout holds -/
theorem Kept.le_size_new {o n : Sk} {k : Nat} (h : Kept o n k) : k ≤ n.size := h.symm.le_size

/-! ### the boundary -/

/-- decidable superset of the pairs on which the survivor clause can fail for the pinned algorithm: the edit is
"only additions" (`embeds o n`) but the pair is outside `addOnly` and outside `mixedOk`, or "only removals"
and outside `removeOnly` and `mixedOk`. -/
def survivorsMayFail (o n : Sk) : Bool :=
  (embeds o n && !(addOnly o n || mixedOk o n)) || (embeds n o && !(removeOnly o n || mixedOk o n))

theorem survivors_of_not_mayFail (o n : Sk) (h : survivorsMayFail o n = false) :
    (embeds o n = true → carried (diff o n) = o.size) ∧ (embeds n o = true → carried (diff o n) = n.size) := by
  simp only [survivorsMayFail, Bool.or_eq_false_iff, Bool.and_eq_false_iff, Bool.not_eq_false',
    Bool.or_eq_true] at h
  refine ⟨fun he => ?_, fun he => ?_⟩
  · rcases h.1 with h1 | h1 | h1
    · rw [he] at h1; cases h1
    · exact addOnly_carried o n h1
    · have := mixed_kept o n h1 _ (kept_of_embeds o n he)
      have := carried_le_old o n
      omega
  · rcases h.2 with h1 | h1 | h1
    · rw [he] at h1; cases h1
    · exact removeOnly_carried o n h1
    · have := mixed_kept o n h1 _ (kept_of_embeds n o he).symm
      have := carried_le_new o n
      omega

end Mimium.StateTree
