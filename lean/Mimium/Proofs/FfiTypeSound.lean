import Mimium.Proofs.FfiSoundPrim
import Mimium.Proofs.FfiType
/-!
Soundness of the `Type` decoder (C20): whatever `decodeTy` accepts is the serializer's output for a representable,
serialisable type `t0`, followed by the unread rest; the type returned is `t0.norm`.  Extension stability and the
rejection of every truncated encoding follow.
-/
namespace Mimium.Ffi
open Mimium.Gen.Ffi

theorem readSeqBody_sound {α} (enc : α → Bytes) (rd : Bytes → Option (α × Bytes)) (nrm : α → α)
    (hs : ∀ bs x r, rd bs = some (x, r) → ∃ x0, x = nrm x0 ∧ bs = enc x0 ++ r)
    {n : Nat} {bs r : Bytes} {xs : List α} (h : readSeqBody rd n bs = some (xs, r)) :
    ∃ ys, ys.length = n ∧ xs = ys.map nrm ∧ bs = encSeqBody enc ys ++ r := by
  induction n generalizing bs xs r with
  | zero =>
    simp [readSeqBody] at h; obtain ⟨rfl, rfl⟩ := h
    exact ⟨[], rfl, rfl, by simp [encSeqBody]⟩
  | succ n ih =>
    simp only [readSeqBody] at h
    cases h1 : rd bs with
    | none => simp [h1] at h
    | some p =>
      obtain ⟨x, r1⟩ := p
      simp only [h1] at h
      cases h2 : readSeqBody rd n r1 with
      | none => simp [h2] at h
      | some q =>
        obtain ⟨zs, r2⟩ := q
        simp only [h2] at h
        simp at h; obtain ⟨rfl, rfl⟩ := h
        obtain ⟨x0, rfl, e1⟩ := hs _ _ _ h1
        obtain ⟨ys, hl, rfl, e2⟩ := ih h2
        refine ⟨x0 :: ys, by simp [hl], by simp, ?_⟩
        rw [e1, e2]; simp [encSeqBody]

theorem readSeq_sound {α} (enc : α → Bytes) (rd : Bytes → Option (α × Bytes)) (nrm : α → α)
    (hs : ∀ bs x r, rd bs = some (x, r) → ∃ x0, x = nrm x0 ∧ bs = enc x0 ++ r)
    {bs r : Bytes} {xs : List α} (h : readSeq rd bs = some (xs, r)) :
    ∃ ys, LenOk ys.length ∧ xs = ys.map nrm ∧ bs = encSeq enc ys ++ r := by
  unfold readSeq at h
  cases h1 : readLen bs with
  | none => simp [h1] at h
  | some p =>
    obtain ⟨n, r1⟩ := p
    simp only [h1] at h
    obtain ⟨hn, e1⟩ := readLen_sound h1
    obtain ⟨ys, hl, hx, e2⟩ := readSeqBody_sound enc rd nrm hs h
    subst hl
    refine ⟨ys, hn, hx, ?_⟩
    rw [e1, e2]; simp [encSeq]

/-- bincode accepts only the two bytes the encoder writes for a `bool` -/
theorem readBool_sound {bs r : Bytes} {b : Bool} (h : readBool bs = some (b, r)) : bs = encBool b ++ r := by
  cases bs with
  | nil => simp [readBool] at h
  | cons x xs =>
    simp only [readBool] at h
    split at h
    · simp at h; obtain ⟨rfl, rfl⟩ := h; simp [encBool, *]
    · split at h
      · simp at h; obtain ⟨rfl, rfl⟩ := h; simp [encBool, *]
      · simp at h

theorem readOptKey_sound {bs r : Bytes} {k : Option Key} (h : readOptKey bs = some (k, r)) :
    ∃ k0 : Option Key, k = k0.map Key.norm ∧ bs = encOptKey k0 ++ r := by
  cases bs with
  | nil => simp [readOptKey] at h
  | cons x xs =>
    simp only [readOptKey] at h
    split at h
    · simp at h; obtain ⟨rfl, rfl⟩ := h; exact ⟨none, rfl, by simp [encOptKey, *]⟩
    · split at h
      · cases h1 : readKey xs with
        | none => simp [h1] at h
        | some p =>
          obtain ⟨k1, r1⟩ := p
          simp only [h1] at h
          simp at h; obtain ⟨rfl, rfl⟩ := h
          obtain ⟨k0, rfl, e⟩ := readKey_sound h1
          exact ⟨some k0, rfl, by simp [encOptKey, *]⟩
      · simp at h

theorem readKey_sound' (bs : Bytes) (k : Key) (r : Bytes) (h : readKey bs = some (k, r)) :
    ∃ k0 : Key, k = k0.norm ∧ bs = encKey k0 ++ r := readKey_sound h

theorem readField_sound (bs : Bytes) (f : RecordTypeField) (r : Bytes) (h : readField bs = some (f, r)) :
    ∃ f0 : RecordTypeField, f = f0.norm ∧ bs = encField f0 ++ r := by
  unfold readField at h
  cases h1 : readU64 bs with
  | none => simp [h1] at h
  | some p =>
    obtain ⟨k, r1⟩ := p
    simp only [h1] at h
    cases h2 : readKey r1 with
    | none => simp [h2] at h
    | some q =>
      obtain ⟨t, r2⟩ := q
      simp only [h2] at h
      cases h3 : readBool r2 with
      | none => simp [h3] at h
      | some q2 =>
        obtain ⟨d, r3⟩ := q2
        simp only [h3] at h
        simp at h; obtain ⟨rfl, rfl⟩ := h
        obtain ⟨t0, rfl, e2⟩ := readKey_sound h2
        refine ⟨⟨k, t0, d⟩, by simp [RecordTypeField.norm], ?_⟩
        rw [readU64_sound h1, e2, readBool_sound h3]; simp [encField]

theorem readVariant_sound (bs : Bytes) (v : UInt64 × Option Key) (r : Bytes) (h : readVariant bs = some (v, r)) :
    ∃ v0 : UInt64 × Option Key, v = normVariant v0 ∧ bs = encVariant v0 ++ r := by
  unfold readVariant at h
  cases h1 : readU64 bs with
  | none => simp [h1] at h
  | some p =>
    obtain ⟨s, r1⟩ := p
    simp only [h1] at h
    cases h2 : readOptKey r1 with
    | none => simp [h2] at h
    | some q =>
      obtain ⟨k, r2⟩ := q
      simp only [h2] at h
      simp at h; obtain ⟨rfl, rfl⟩ := h
      obtain ⟨k0, rfl, e2⟩ := readOptKey_sound h2
      refine ⟨(s, k0), by simp [normVariant], ?_⟩
      rw [readU64_sound h1, e2]; simp [encVariant]

theorem PTypeCtor.tag_of_ofTag {t : UInt32} {c : PTypeCtor} (h : PTypeCtor.ofTag t = some c) : c.tag = t := by
  unfold PTypeCtor.ofTag at h
  split at h
  all_goals first
    | (rename_i ht; simp at h; subst h; apply UInt32.toNat_inj.mp; rw [ht]; rfl)
    | (simp at h)

theorem readPType_sound {bs r : Bytes} {p : PTypeCtor} (h : readPType bs = some (p, r)) :
    bs = encU32 p.tag ++ r := by
  unfold readPType at h
  cases h1 : readU32 bs with
  | none => simp [h1] at h
  | some q =>
    obtain ⟨t, r1⟩ := q
    simp only [h1] at h
    cases h2 : PTypeCtor.ofTag t with
    | none => simp [h2] at h
    | some c =>
      simp only [h2] at h
      simp at h; obtain ⟨rfl, rfl⟩ := h
      rw [PTypeCtor.tag_of_ofTag h2]; exact readU32_sound h1

/-- the hand-written `Deserialize for Type` selects a variant only for the index `Serialize for Type` writes for it -/
theorem TyCtor.serTag_of_ofTag {t : UInt32} {c : TyCtor} (h : TyCtor.ofTag t = some c) : c.serTag = some t := by
  unfold TyCtor.ofTag at h
  split at h
  all_goals first
    | (rename_i ht; simp at h; subst h; simp only [TyCtor.serTag, Option.some.injEq]
       apply UInt32.toNat_inj.mp; rw [ht]; rfl)
    | (simp at h)

theorem decodeTy_sound {bs r : Bytes} {t : Ty} (h : decodeTy bs = some (t, r)) :
    ∃ (t0 : Ty) (enc : Bytes), t0.Rep ∧ encodeTy t0 = some enc ∧ bs = enc ++ r ∧ t = t0.norm := by
  unfold decodeTy at h
  cases h1 : readU32 bs with
  | none => simp [h1] at h
  | some p =>
    obtain ⟨tag, r1⟩ := p
    simp only [h1] at h
    have e1 := readU32_sound h1
    cases h2 : TyCtor.ofTag tag with
    | none => simp [h2] at h
    | some c =>
      simp only [h2] at h
      have hs := TyCtor.serTag_of_ofTag h2
      cases c with
      | Primitive =>
        simp only at h
        cases h3 : readPType r1 with
        | none => simp [h3] at h
        | some q =>
          obtain ⟨x, r2⟩ := q
          simp [h3] at h; obtain ⟨rfl, rfl⟩ := h
          refine ⟨.primitive x, _, trivial, by simp [encodeTy, Ty.ctor, hs]; rfl, ?_, by simp [Ty.norm]⟩
          rw [e1, readPType_sound h3]; simp [Ty.payload]
      | Array =>
        simp only at h
        cases h3 : readKey r1 with
        | none => simp [h3] at h
        | some q =>
          obtain ⟨x, r2⟩ := q
          simp [h3] at h; obtain ⟨rfl, rfl⟩ := h
          obtain ⟨k0, rfl, e2⟩ := readKey_sound h3
          refine ⟨.array k0, _, trivial, by simp [encodeTy, Ty.ctor, hs]; rfl, ?_, by simp [Ty.norm]⟩
          rw [e1, e2]; simp [Ty.payload]
      | Tuple =>
        simp only at h
        cases h3 : readSeq readKey r1 with
        | none => simp [h3] at h
        | some q =>
          obtain ⟨x, r2⟩ := q
          simp [h3] at h; obtain ⟨rfl, rfl⟩ := h
          obtain ⟨ys, hl, rfl, e2⟩ := readSeq_sound encKey readKey Key.norm readKey_sound' h3
          refine ⟨.tuple ys, _, hl, by simp [encodeTy, Ty.ctor, hs]; rfl, ?_, by simp [Ty.norm]⟩
          rw [e1, e2]; simp [Ty.payload]
      | Record =>
        simp only at h
        cases h3 : readSeq readField r1 with
        | none => simp [h3] at h
        | some q =>
          obtain ⟨x, r2⟩ := q
          simp [h3] at h; obtain ⟨rfl, rfl⟩ := h
          obtain ⟨ys, hl, rfl, e2⟩ := readSeq_sound encField readField RecordTypeField.norm readField_sound h3
          refine ⟨.record ys, _, hl, by simp [encodeTy, Ty.ctor, hs]; rfl, ?_, by simp [Ty.norm]⟩
          rw [e1, e2]; simp [Ty.payload]
      | Function =>
        simp only at h
        cases h3 : readKey r1 with
        | none => simp [h3] at h
        | some q =>
          obtain ⟨a, r2⟩ := q
          simp only [h3] at h
          cases h4 : readKey r2 with
          | none => simp [h4] at h
          | some q2 =>
            obtain ⟨b, r3⟩ := q2
            simp [h4] at h; obtain ⟨rfl, rfl⟩ := h
            obtain ⟨a0, rfl, e2⟩ := readKey_sound h3
            obtain ⟨b0, rfl, e3⟩ := readKey_sound h4
            refine ⟨.function a0 b0, _, trivial, by simp [encodeTy, Ty.ctor, hs]; rfl, ?_, by simp [Ty.norm]⟩
            rw [e1, e2, e3]; simp [Ty.payload]
      | Ref =>
        simp only at h
        cases h3 : readKey r1 with
        | none => simp [h3] at h
        | some q =>
          obtain ⟨x, r2⟩ := q
          simp [h3] at h; obtain ⟨rfl, rfl⟩ := h
          obtain ⟨k0, rfl, e2⟩ := readKey_sound h3
          refine ⟨.ref k0, _, trivial, by simp [encodeTy, Ty.ctor, hs]; rfl, ?_, by simp [Ty.norm]⟩
          rw [e1, e2]; simp [Ty.payload]
      | Code =>
        simp only at h
        cases h3 : readKey r1 with
        | none => simp [h3] at h
        | some q =>
          obtain ⟨x, r2⟩ := q
          simp [h3] at h; obtain ⟨rfl, rfl⟩ := h
          obtain ⟨k0, rfl, e2⟩ := readKey_sound h3
          refine ⟨.code k0, _, trivial, by simp [encodeTy, Ty.ctor, hs]; rfl, ?_, by simp [Ty.norm]⟩
          rw [e1, e2]; simp [Ty.payload]
      | Union =>
        simp only at h
        cases h3 : readSeq readKey r1 with
        | none => simp [h3] at h
        | some q =>
          obtain ⟨x, r2⟩ := q
          simp [h3] at h; obtain ⟨rfl, rfl⟩ := h
          obtain ⟨ys, hl, rfl, e2⟩ := readSeq_sound encKey readKey Key.norm readKey_sound' h3
          refine ⟨.union ys, _, hl, by simp [encodeTy, Ty.ctor, hs]; rfl, ?_, by simp [Ty.norm]⟩
          rw [e1, e2]; simp [Ty.payload]
      | UserSum =>
        simp only at h
        cases h3 : readU64 r1 with
        | none => simp [h3] at h
        | some q =>
          obtain ⟨n, r2⟩ := q
          simp only [h3] at h
          cases h4 : readSeq readVariant r2 with
          | none => simp [h4] at h
          | some q2 =>
            obtain ⟨x, r3⟩ := q2
            simp [h4] at h; obtain ⟨rfl, rfl⟩ := h
            obtain ⟨ys, hl, rfl, e3⟩ := readSeq_sound encVariant readVariant normVariant readVariant_sound h4
            refine ⟨.userSum n ys, _, hl, by simp [encodeTy, Ty.ctor, hs]; rfl, ?_, by simp [Ty.norm]⟩
            rw [e1, readU64_sound h3, e3]; simp [Ty.payload]
      | Boxed =>
        simp only at h
        cases h3 : readKey r1 with
        | none => simp [h3] at h
        | some q =>
          obtain ⟨x, r2⟩ := q
          simp [h3] at h; obtain ⟨rfl, rfl⟩ := h
          obtain ⟨k0, rfl, e2⟩ := readKey_sound h3
          refine ⟨.boxed k0, _, trivial, by simp [encodeTy, Ty.ctor, hs]; rfl, ?_, by simp [Ty.norm]⟩
          rw [e1, e2]; simp [Ty.payload]
      | TypeAlias =>
        simp only at h
        cases h3 : readU64 r1 with
        | none => simp [h3] at h
        | some q =>
          obtain ⟨x, r2⟩ := q
          simp [h3] at h; obtain ⟨rfl, rfl⟩ := h
          refine ⟨.typeAlias x, _, trivial, by simp [encodeTy, Ty.ctor, hs]; rfl, ?_, by simp [Ty.norm]⟩
          rw [e1, readU64_sound h3]; simp [Ty.payload]
      | Any =>
        simp at h; obtain ⟨rfl, rfl⟩ := h
        refine ⟨.any, _, trivial, by simp [encodeTy, Ty.ctor, hs]; rfl, ?_, by simp [Ty.norm]⟩
        rw [e1]; simp [Ty.payload]
      | Failure =>
        simp at h; obtain ⟨rfl, rfl⟩ := h
        refine ⟨.failure, _, trivial, by simp [encodeTy, Ty.ctor, hs]; rfl, ?_, by simp [Ty.norm]⟩
        rw [e1]; simp [Ty.payload]
      | Unknown =>
        simp at h; obtain ⟨rfl, rfl⟩ := h
        refine ⟨.unknown, _, trivial, by simp [encodeTy, Ty.ctor, hs]; rfl, ?_, by simp [Ty.norm]⟩
        rw [e1]; simp [Ty.payload]
      | Intermediate => simp at h
      | TypeScheme => simp at h

/-! ### `norm` is a projection that keeps representability and serialisability -/

theorem RecordTypeField.norm_norm (f : RecordTypeField) : f.norm.norm = f.norm := by
  simp [RecordTypeField.norm, Key.norm_norm]

theorem normVariant_normVariant (v : UInt64 × Option Key) : normVariant (normVariant v) = normVariant v := by
  obtain ⟨s, k⟩ := v
  cases k <;> simp [normVariant, Key.norm_norm]

theorem Ty.norm_norm (t : Ty) : t.norm.norm = t.norm := by
  cases t <;> simp [Ty.norm, Key.norm_norm, Function.comp_def, RecordTypeField.norm_norm, normVariant_normVariant]

theorem Ty.rep_norm (t : Ty) (h : t.Rep) : t.norm.Rep := by
  cases t <;> simp_all [Ty.norm, Ty.Rep]

theorem Ty.ctor_norm (t : Ty) : t.norm.ctor = t.ctor := by
  cases t <;> rfl

/-- a type and its normal form are refused or accepted together by the serializer -/
theorem encodeTy_norm_isSome (t : Ty) : (encodeTy t.norm).isSome = (encodeTy t).isSome := by
  unfold encodeTy
  rw [Ty.ctor_norm]
  cases t.ctor.serTag <;> rfl

/-! ### corollaries -/

/-- the `Type` decoder accepts exactly the serializer's outputs for representable types (followed by anything) -/
theorem decodeTy_iff (bs r : Bytes) (t : Ty) :
    decodeTy bs = some (t, r) ↔
      ∃ (t0 : Ty) (enc : Bytes), t0.Rep ∧ encodeTy t0 = some enc ∧ bs = enc ++ r ∧ t = t0.norm := by
  constructor
  · exact decodeTy_sound
  · rintro ⟨t0, enc, hr, he, rfl, rfl⟩; exact decodeTy_encodeTy t0 enc r hr he

/-- whatever the `Type` decoder accepts (valid or not), it accepts identically when more bytes follow -/
theorem decodeTy_ext {bs r : Bytes} {t : Ty} (x : Bytes) (h : decodeTy bs = some (t, r)) :
    decodeTy (bs ++ x) = some (t, r ++ x) := by
  obtain ⟨t0, enc, hr, he, rfl, rfl⟩ := decodeTy_sound h
  rw [List.append_assoc]
  exact decodeTy_encodeTy t0 enc (r ++ x) hr he

/-- every strict prefix of a `Type` encoding is rejected -/
theorem decodeTy_truncated (t : Ty) (bs : Bytes) (hr : t.Rep) (he : encodeTy t = some bs) (k : Nat)
    (hk : k < bs.length) : decodeTy (bs.take k) = none := by
  cases h : decodeTy (bs.take k) with
  | none => rfl
  | some p =>
    exfalso
    obtain ⟨w, r⟩ := p
    have h1 := decodeTy_ext (bs.drop k) h
    rw [List.take_append_drop] at h1
    have h2 := decodeTy_encodeTy t bs [] hr he
    rw [List.append_nil, h1] at h2
    simp at h2
    have := h2.2.2
    omega

/-! ### a type and its normal form have encodings of the same length (only version words differ) -/

theorem encSeqBody_length_map {α} (enc : α → Bytes) (nrm : α → α)
    (h : ∀ x, (enc (nrm x)).length = (enc x).length) (xs : List α) :
    (encSeqBody enc (xs.map nrm)).length = (encSeqBody enc xs).length := by
  induction xs with
  | nil => rfl
  | cons x xs ih => simp [encSeqBody, h, ih]

theorem encSeq_length_map {α} (enc : α → Bytes) (nrm : α → α)
    (h : ∀ x, (enc (nrm x)).length = (enc x).length) (xs : List α) :
    (encSeq enc (xs.map nrm)).length = (encSeq enc xs).length := by
  simp [encSeq, encSeqBody_length_map enc nrm h, encLen_length]

theorem encKey_norm_length (k : Key) : (encKey k.norm).length = (encKey k).length := by
  simp [encKey_length]

theorem encField_norm_length (f : RecordTypeField) : (encField f.norm).length = (encField f).length := by
  simp [encField, RecordTypeField.norm, encKey_length]

theorem encVariant_norm_length (v : UInt64 × Option Key) : (encVariant (normVariant v)).length = (encVariant v).length := by
  obtain ⟨s, k⟩ := v
  cases k <;> simp [encVariant, normVariant, encOptKey, encKey_length]

theorem Ty.payload_norm_length (t : Ty) : t.norm.payload.length = t.payload.length := by
  cases t <;>
    simp [Ty.norm, Ty.payload, encKey_length, encSeq_length_map encKey Key.norm encKey_norm_length,
      encSeq_length_map encField RecordTypeField.norm encField_norm_length,
      encSeq_length_map encVariant normVariant encVariant_norm_length]

theorem encodeTy_norm_length (t : Ty) (a b : Bytes) (ha : encodeTy t = some a) (hb : encodeTy t.norm = some b) :
    b.length = a.length := by
  unfold encodeTy at ha hb
  rw [Ty.ctor_norm] at hb
  cases hc : t.ctor.serTag with
  | none => simp [hc] at ha
  | some tag =>
    simp [hc] at ha hb
    subst ha; subst hb
    simp [Ty.payload_norm_length]

end Mimium.Ffi
