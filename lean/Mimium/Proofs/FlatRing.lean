import Mimium.Model.StateMachine
/-!
The flat ring-buffer update of both runtimes (`delayFlat` on the words `[rd, wr, data…]` at offset `p`) is
`Ringbuffer::process` on the decoded ring; plus the list lemmas about a region `pre ++ mid ++ post` used by the
flat = serialised-tree proofs.
-/
namespace Mimium.StateMachine
open Mimium.Cells

theorem getD_mid (pre mid post : List UInt64) (i : Nat) (d : UInt64) (h : i < mid.length) :
    (pre ++ mid ++ post).getD (pre.length + i) d = mid.getD i d := by
  simp only [List.getD_eq_getElem?_getD, List.append_assoc]
  rw [List.getElem?_append_right (by omega)]
  simp only [Nat.add_sub_cancel_left]
  rw [List.getElem?_append_left h]

theorem set_mid (pre mid post : List UInt64) (i : Nat) (v : UInt64) (h : i < mid.length) :
    (pre ++ mid ++ post).set (pre.length + i) v = pre ++ mid.set i v ++ post := by
  simp only [List.append_assoc]
  rw [List.set_append_right _ _ (by omega)]
  simp only [Nat.add_sub_cancel_left]
  rw [List.set_append_left _ _ h]

theorem slice_mid (pre mid post : List UInt64) : slice (pre ++ mid ++ post) pre.length mid.length = mid := by
  simp [slice, List.append_assoc]

theorem writeAt_mid (pre mid post ws : List UInt64) (h : ws.length = mid.length) :
    writeAt (pre ++ mid ++ post) pre.length ws = pre ++ ws ++ post := by
  simp only [writeAt, List.append_assoc]
  rw [h]
  simp [List.drop_append]

theorem toNat_toUInt64_of_lt (n : Nat) (h : n < 2 ^ 64) : n.toUInt64.toNat = n := by
  simp [Nat.toUInt64, UInt64.toNat_ofNat']
  omega

/-- **the missing lemma of C01/C02**: on a storage that holds the words of ring `r` at `p = pre.length`, the flat update
computes the ring's output and leaves the words of the updated ring in place (nothing else changes) -/
theorem delayFlat_eq_ring (pre post : List UInt64) (r : Ring) (x t : UInt64)
    (hlen : 0 < r.data.length) (hwr : r.wr < 2 ^ 64) :
    delayFlat (pre ++ r.words ++ post) pre.length r.data.length x t =
      ((r.process x t).1, pre ++ (r.process x t).2.words ++ post) := by
  have hne : r.data.length ≠ 0 := by omega
  have hmid : r.words.length = 2 + r.data.length := by simp [Ring.words]; omega
  simp only [delayFlat, Ring.process, Ring.processD, hne, if_false]
  have hw1 : (pre ++ r.words ++ post).getD (pre.length + 1) 0 = r.wr.toUInt64 := by
    rw [getD_mid _ _ _ _ _ (by omega)]; simp [Ring.words]
  rw [hw1, toNat_toUInt64_of_lt _ hwr]
  generalize hd : clampTime t r.data.length = d
  have hwlt : r.wr % r.data.length < r.data.length := Nat.mod_lt _ hlen
  have hrlt : (r.wr % r.data.length + r.data.length - d) % r.data.length < r.data.length := Nat.mod_lt _ hlen
  generalize hwdef : r.wr % r.data.length = w at *
  generalize hrdef : (w + r.data.length - d) % r.data.length = rd at *
  have hg : (pre ++ r.words ++ post).getD (pre.length + 2 + rd) 0 = r.data.getD rd 0 := by
    rw [show pre.length + 2 + rd = pre.length + (rd + 1 + 1) by omega, getD_mid _ _ _ _ _ (by omega)]
    simp [Ring.words, List.getD_eq_getElem?_getD]
  have hs1 : (pre ++ r.words ++ post).set (pre.length + 2 + w) x =
      pre ++ ([r.rd.toUInt64, r.wr.toUInt64] ++ r.data.set w x) ++ post := by
    rw [show pre.length + 2 + w = pre.length + (w + 1 + 1) by omega, set_mid _ _ _ _ _ (by omega)]
    simp [Ring.words]
  have hs2 : ∀ (a b v : UInt64) (l : List UInt64),
      (pre ++ ([a, b] ++ l) ++ post).set pre.length v = pre ++ ([v, b] ++ l) ++ post := by
    intro a b v l
    have := set_mid pre ([a, b] ++ l) post 0 v (by simp)
    simp at this ⊢
  have hs3 : ∀ (a b v : UInt64) (l : List UInt64),
      (pre ++ ([a, b] ++ l) ++ post).set (pre.length + 1) v = pre ++ ([a, v] ++ l) ++ post := by
    intro a b v l
    have := set_mid pre ([a, b] ++ l) post 1 v (by simp)
    simp at this ⊢
  rw [hg, hs1, hs2, hs3]
  simp [Ring.words]

/-! ### single state instructions on a region `pre ++ mid ++ post` with the cursor at `pre.length` -/

theorem step_mem (pre post : List UInt64) (w x : UInt64) :
    vmStep ⟨pre.length, pre ++ [w] ++ post⟩ (.mem x) = some (⟨pre.length, pre ++ [x] ++ post⟩, [w]) := by
  have h1 := getD_mid pre [w] post 0 0 (by simp)
  have h2 := set_mid pre [w] post 0 x (by simp)
  simp only [Nat.add_zero] at h1 h2
  simp only [vmStep, h1, h2]
  simp

theorem step_get (pre mid post : List UInt64) :
    vmStep ⟨pre.length, pre ++ mid ++ post⟩ (.get mid.length) = some (⟨pre.length, pre ++ mid ++ post⟩, mid) := by
  simp only [vmStep, slice_mid]
  simp

theorem step_set (pre mid post ws : List UInt64) (h : ws.length = mid.length) :
    vmStep ⟨pre.length, pre ++ mid ++ post⟩ (.set ws) = some (⟨pre.length, pre ++ ws ++ post⟩, []) := by
  simp only [vmStep, writeAt_mid _ _ _ _ h]
  simp [h]

theorem step_delay (pre post : List UInt64) (r : Ring) (x t : UInt64) (hwr : r.wr < 2 ^ 64) :
    vmStep ⟨pre.length, pre ++ r.words ++ post⟩ (.delay r.data.length x t) =
      some (⟨pre.length, pre ++ (r.process x t).2.words ++ post⟩, [(r.process x t).1]) := by
  by_cases h0 : r.data.length = 0
  · simp [vmStep, h0, Ring.process, Ring.processD]
  · have hb : pre.length + 2 + r.data.length ≤ (pre ++ r.words ++ post).length := by
      simp [Ring.words]; omega
    simp only [vmStep, h0, if_false, hb, if_true, delayFlat_eq_ring pre post r x t (by omega) hwr]

end Mimium.StateMachine
