import Mimium.Proofs.CstShapeRecords
/-!
# Every tree the ported parser builds without an error is kept by the printer (on the covered node kinds)
-/
namespace Mimium.Grammar
open Mimium.Gen (Kind SK)
open Mimium.Cst (PState Frame Green)
open Mimium.CstPrint (Ctx)

variable {E : Env} {c : Ctx} {rec : Tag → St → St}

/-- every body satisfies the specification of its function, given those of the functions it calls -/
theorem vc_all (t : Tag) (s : St) (hW : W E c s) (hpre : Pre E t s) (h : Em E c rec (R E c) (body t) s) : Rs E c t s (exec E rec (body t) s) := by
  cases t
  case programLoop => trivial
  case statement => exact em_node_app _ _ _ h
  case moduleDecl => exact em_node_app _ _ _ h
  case moduleLoop => trivial
  case useStmt => exact em_node_app _ _ _ h
  case usePath => exact em_node_app _ _ _ h
  case usePathLoop => exact vc_usePathLoop s h
  case useMultiLoop => exact vc_useMultiLoop s h
  case qualifiedPath => exact em_node_app _ _ _ h
  case qualifiedPathLoop => exact vc_qualifiedPathLoop s h
  case macroDecl => exact em_node_app _ _ _ h
  case includeStmt => exact em_node_app _ _ _ h
  case stageDecl => exact em_node_app _ _ _ h
  case macroExpansion => exact em_node_app _ _ _ h
  case macroArgLoop => exact vc_macroArgLoop s h
  case bracketExpr => exact em_node_app _ _ _ h
  case escapeExpr => exact em_node_app _ _ _ h
  case functionDecl => exact em_node_app _ _ _ h
  case letDecl => exact em_node_app _ _ _ h
  case letrecDecl => exact em_node_app _ _ _ h
  case pattern => exact vc_pattern s hW h
  case tuplePattern => exact em_node_app _ _ _ h
  case tuplePatternLoop => exact vc_tuplePatternLoop s h
  case recordPattern => exact em_node_app _ _ _ h
  case recordPatternLoop => exact vc_recordPatternLoop s h
  case paramList => exact em_node_app _ _ _ h
  case paramLoop => exact vc_paramLoop s h
  case expr => exact vc_expr s h
  case assignmentExpr => exact vc_assignmentExpr s h
  case exprPrec => exact vc_exprPrec s h
  case prattLoop => exact vc_prattLoop s h
  case exprPrecNoLb => exact vc_exprPrecNoLb s h
  case prattLoopNoLb => exact vc_prattLoopNoLb s h
  case prefixExpr => exact vc_prefixExpr s h
  case unaryExpr => exact vc_unaryExpr s h
  case postfixExpr => exact vc_postfixExpr s h
  case postfixLoop => exact vc_postfixLoop s h
  case argList => exact em_node_app _ _ _ h
  case argLoop => exact vc_argLoop s h
  case typeAnnotation => exact em_node_app _ _ _ h
  case type_ => exact vc_type_ s h
  case typeUnion => exact vc_typeUnion s h
  case typeUnionLoop => trivial
  case typePrimary => exact vc_typePrimary s hW h
  case typeIdentLoop => trivial
  case typeTupleOrParen => exact vc_typeTupleOrParen s hpre h
  case typeTupleLoop => exact vc_typeTupleLoop s h
  case typeRecord => exact em_node_app _ _ _ h
  case typeRecordLoop => exact vc_typeRecordLoop s h
  case primary => exact vc_primary s h
  case lambdaExpr => exact em_node_app _ _ _ h
  case lambdaParamLoop => exact vc_lambdaParamLoop s hW h
  case tupleExpr => exact em_node_app _ _ _ h
  case tupleExprLoop => exact vc_tupleExprLoop s h
  case recordExpr => exact em_node_app _ _ _ h
  case recordUpdateLoop => exact vc_recordUpdateLoop s h
  case recordFieldLoop => exact vc_recordFieldLoop s h
  case blockExpr => exact em_node_app _ _ _ h
  case blockLoop => exact vc_blockLoop s h
  case ifExpr => exact em_node_app _ _ _ h
  case matchExpr => exact em_node_app _ _ _ h
  case matchArmLoop => trivial
  case matchArm => exact em_node_app _ _ _ h
  case matchPattern => exact em_node_app _ _ _ h
  case matchTuplePattern => exact em_node_app _ _ _ h
  case matchTuplePatternLoop => exact vc_matchTuplePatternLoop s h
  case typeDecl => exact em_node_app _ _ _ h
  case typeDeclLoop => trivial
  case typeAliasDecl => exact em_node_app _ _ _ h
  case variantDef => exact em_node_app _ _ _ h
  case variantLoop => trivial
  case arrayExpr => exact em_node_app _ _ _ h
  case arrayLoop => exact vc_arrayLoop s h

/-- … and the obligations of its nodes and calls hold -/
theorem nok_all (t : Tag) (s : St) (hW : W E c s) (hpre : Pre E t s) : NOK (E := E) (c := c) (rec := rec) (body t) s := by
  cases t
  case programLoop => exact nok_triv _ _ (by decide)
  case statement => exact nok_statement s
  case moduleDecl => exact nok_triv _ _ (by decide)
  case moduleLoop => exact nok_triv _ _ (by decide)
  case useStmt => exact nok_useStmt s
  case usePath => exact nok_usePath s
  case usePathLoop => exact nok_usePathLoop s
  case useMultiLoop => exact nok_triv _ _ (by decide)
  case qualifiedPath => exact nok_qualifiedPath s
  case qualifiedPathLoop => exact nok_triv _ _ (by decide)
  case macroDecl => exact nok_triv _ _ (by decide)
  case includeStmt => exact nok_triv _ _ (by decide)
  case stageDecl => exact nok_triv _ _ (by decide)
  case macroExpansion => exact nok_macroExpansion s
  case macroArgLoop => exact nok_triv _ _ (by decide)
  case bracketExpr => exact nok_triv _ _ (by decide)
  case escapeExpr => exact nok_triv _ _ (by decide)
  case functionDecl => exact nok_triv _ _ (by decide)
  case letDecl => exact nok_letDecl s
  case letrecDecl => exact nok_letrecDecl s
  case pattern => exact nok_triv _ _ (by decide)
  case tuplePattern => exact nok_tuplePattern s
  case tuplePatternLoop => exact nok_triv _ _ (by decide)
  case recordPattern => exact nok_recordPattern s
  case recordPatternLoop => exact nok_triv _ _ (by decide)
  case paramList => exact nok_paramList s
  case paramLoop => exact nok_triv _ _ (by decide)
  case expr => exact nok_triv _ _ (by decide)
  case assignmentExpr => exact nok_triv _ _ (by decide)
  case exprPrec => exact nok_exprPrec s
  case prattLoop => exact nok_prattLoop s hW hpre
  case exprPrecNoLb => exact nok_exprPrecNoLb s
  case prattLoopNoLb => exact nok_prattLoopNoLb s hW hpre
  case prefixExpr => exact nok_triv _ _ (by decide)
  case unaryExpr => exact nok_triv _ _ (by decide)
  case postfixExpr => exact nok_triv _ _ (by decide)
  case postfixLoop => exact nok_triv _ _ (by decide)
  case argList => exact nok_argList s
  case argLoop => exact nok_triv _ _ (by decide)
  case typeAnnotation => exact nok_triv _ _ (by decide)
  case type_ => exact nok_type_ s
  case typeUnion => exact nok_triv _ _ (by decide)
  case typeUnionLoop => exact nok_triv _ _ (by decide)
  case typePrimary => exact nok_typePrimary s
  case typeIdentLoop => exact nok_triv _ _ (by decide)
  case typeTupleOrParen => exact nok_typeTupleOrParen s
  case typeTupleLoop => exact nok_triv _ _ (by decide)
  case typeRecord => exact nok_typeRecord s
  case typeRecordLoop => exact nok_triv _ _ (by decide)
  case primary => exact nok_triv _ _ (by decide)
  case lambdaExpr => exact nok_lambdaExpr s
  case lambdaParamLoop => exact nok_triv _ _ (by decide)
  case tupleExpr => exact nok_tupleExpr s
  case tupleExprLoop => exact nok_triv _ _ (by decide)
  case recordExpr => exact nok_recordExpr s
  case recordUpdateLoop => exact nok_triv _ _ (by decide)
  case recordFieldLoop => exact nok_triv _ _ (by decide)
  case blockExpr => exact nok_blockExpr s
  case blockLoop => exact nok_triv _ _ (by decide)
  case ifExpr => exact nok_ifExpr s
  case matchExpr => exact nok_triv _ _ (by decide)
  case matchArmLoop => exact nok_triv _ _ (by decide)
  case matchArm => exact nok_triv _ _ (by decide)
  case matchPattern => exact nok_triv _ _ (by decide)
  case matchTuplePattern => exact nok_matchTuplePattern s
  case matchTuplePatternLoop => exact nok_triv _ _ (by decide)
  case typeDecl => exact nok_triv _ _ (by decide)
  case typeDeclLoop => exact nok_triv _ _ (by decide)
  case typeAliasDecl => exact nok_triv _ _ (by decide)
  case variantDef => exact nok_triv _ _ (by decide)
  case variantLoop => exact nok_triv _ _ (by decide)
  case arrayExpr => exact nok_arrayExpr s
  case arrayLoop => exact nok_triv _ _ (by decide)

/-- the specification of every grammar function, for every fuel -/
theorem go_R : ∀ (n : Nat) (t : Tag) (s : St), W E c s → G c cov s → Pre E t s → NE s (go E n t s) →
    (∀ a b, R E c t s { go E n t s with ra := a, rb := b }) ∧ G c cov (go E n t s)
  | 0, t, s, _, _, _, hne => by simp [NE, go] at hne
  | n + 1, t, s, hW, hG, hpre, hne => by
    have hs := em_sound cov (Pre E) (go E n) (R E c) (go_good hW.env n) (go_basic n) (go_krel n) (go_R n) (body t) false s
      (all_bodies_guarded t) (fun h => by cases h) (nok_all t s hW hpre) hW hG hne
    exact ⟨fun a b => R_regs t s _ a b ⟨vc_all t s hW hpre hs.1, fun he => he.mono (go_mono E (n + 1) t s).cur⟩, hs.2⟩

/-- `Parser::parse`: if no error is recorded and no fuel runs out, the root is kept on the covered kinds when it is strict -/
theorem parse_keeps (kinds : Array Kind) (fuel : Nat) (hE : Env.Ok E) (hk : KindsOk E (init kinds)) (hc : c.kinds = kinds)
    (herr : (parse E fuel kinds).errs = []) (hoof : (parse E fuel kinds).oof = false) :
    ∃ g, (parse E fuel kinds).b.root = some g ∧ KA c cov g := by
  have hW : W E c (start E kinds) :=
    ⟨hE, by rw [start_depth]; exact Nat.le_refl _, start_inv kinds, hk, fun i => Or.inl (by rw [hc]; rfl)⟩
  have hG : G c cov (start E kinds) := by
    intro f hf
    have : f = ⟨SK.Program.toNat, []⟩ := by simpa [start, prim, init, Cst.exec] using hf
    subst this
    intro g hg; cases hg
  have hne : NE (start E kinds) (go E fuel .programLoop (start E kinds)) := ⟨herr, hoof⟩
  obtain ⟨_, hG1⟩ := go_R fuel .programLoop (start E kinds) hW hG trivial hne
  obtain ⟨ch, hst⟩ := (go_basic (E := E) fuel .programLoop (start E kinds)).fr ⟨SK.Program.toNat, []⟩ [] rfl
  refine ⟨.node SK.Program.toNat ch, ?_, ?_⟩
  · rw [parse_eq]
    simp [prim, Cst.exec, hst]
  · exact KA.node cov .Program ch (hG1 ⟨SK.Program.toNat, ch⟩ (by rw [hst]; simp)) (ShapeOK.triv cov _ _ rfl)

end Mimium.Grammar

namespace Mimium.CstPrint
open Mimium.Gen (Kind SK)
open Mimium.Cst (Green)

mutual
/-- with every kind covered, `keepsAllOn` is `keepsAll` -/
theorem keepsAllOn_all (c : Ctx) : ∀ (g : Green), keepsAllOn (fun _ => true) c g = keepsAll c g
  | .token _ _ => rfl
  | .node k cs => by
    simp only [keepsAllOn, keepsAll, nodeKeepsOn, nodeKeeps, keepsAllOnL_all c cs]
    cases Gen.skOfNat k <;> simp
theorem keepsAllOnL_all (c : Ctx) : ∀ (gs : List Green), keepsAllOnL (fun _ => true) c gs = keepsAllL c gs
  | [] => rfl
  | g :: gs => by simp only [keepsAllOnL, keepsAllL, keepsAllOn_all c g, keepsAllOnL_all c gs]
end

mutual
/-- on a tree whose node kinds are all in `S`, `keepsAllOn S` is `keepsAll` -/
theorem keepsAll_of_on (S : SK → Bool) (c : Ctx) : ∀ (g : Green), keepsAllOn S c g = true → usesOnly S g = true → keepsAll c g = true
  | .token _ _, _, _ => rfl
  | .node k cs, h, hu => by
    simp only [keepsAllOn, nodeKeepsOn, Bool.and_eq_true] at h
    simp only [usesOnly, Bool.and_eq_true] at hu
    simp only [keepsAll, nodeKeeps, Bool.and_eq_true]
    refine ⟨?_, keepsAllL_of_on S c cs h.2 hu.2⟩
    cases hk : Gen.skOfNat k with
    | none => rw [hk] at hu; simp at hu
    | some sk =>
      rw [hk] at h hu
      simp only at hu
      have := h.1
      simp only [hu.1, Bool.not_true, Bool.false_or] at this
      exact this
theorem keepsAllL_of_on (S : SK → Bool) (c : Ctx) : ∀ (gs : List Green), keepsAllOnL S c gs = true → usesOnlyL S gs = true → keepsAllL c gs = true
  | [], _, _ => rfl
  | g :: gs, h, hu => by
    simp only [keepsAllOnL, Bool.and_eq_true] at h
    simp only [usesOnlyL, Bool.and_eq_true] at hu
    simp only [keepsAllL, Bool.and_eq_true]
    exact ⟨keepsAll_of_on S c g h.1 hu.1, keepsAllL_of_on S c gs h.2 hu.2⟩
end

end Mimium.CstPrint
