import Mimium.Proofs.HeapStdOps
/-!
# The `BinaryHeap` port refines a priority queue (C11)

`QOp` = `push x | pop`; `runStd` runs a sequence on the port (`stdPush` / `stdPop`), one output per `pop`.

* `PQTrace m ops out` — the SPECIFICATION: `out` is a possible output of a priority queue ordered by `when` that holds
  the multiset `m`: a `pop` on the empty queue gives `none`; otherwise it gives SOME member of minimal `when` and
  removes exactly one occurrence of it. Which member among equal `when`s is left open — `Ord for Task` compares `when`
  only, there is no sequence number in the key, so the real heap's choice among ties depends on the array layout.
* `runStd_trace`: the port satisfies the specification from every heap.
* `runSorted` — the reference sorted-list queue (stable insertion: FIFO among equal keys); it satisfies the
  specification too (`runSorted_trace`).
* `PQTrace.keys_eq`: two outputs allowed by the specification have the same sequence of keys (`when`s), pop by pop: the
  tie choice never changes WHEN something is popped, only WHICH of the equal-key elements.
* `PQTrace.unique`: when `when` is injective on the elements involved (the order is total on them) the output is
  unique: port = sorted-list queue exactly.
-/
namespace Mimium.Sched

inductive QOp where
  | push (x : Task)
  | pop
deriving DecidableEq, Repr

/-- the tasks pushed by a sequence -/
def pushed : List QOp → List Task
  | [] => []
  | .push x :: ops => x :: pushed ops
  | .pop :: ops => pushed ops

/-- a sequence of operations on the literal `BinaryHeap` port; one output per `pop` (`none` = `pop` returned `None`) -/
def runStd : List QOp → Array Task → List (Option Task)
  | [], _ => []
  | .push x :: ops, d => runStd ops (stdPush x d)
  | .pop :: ops, d =>
    match stdPop d with
    | none => none :: runStd ops d
    | some (x, r) => some x :: runStd ops r

/-- insertion into a list sorted by `when`, AFTER the elements with an equal key (stable, FIFO among ties) -/
def insertSorted (x : Task) : List Task → List Task
  | [] => [x]
  | y :: ys => if x.when < y.when then x :: y :: ys else y :: insertSorted x ys

/-- the reference priority queue: a list sorted by `when`; `pop` takes the head -/
def runSorted : List QOp → List Task → List (Option Task)
  | [], _ => []
  | .push x :: ops, l => runSorted ops (insertSorted x l)
  | .pop :: ops, [] => none :: runSorted ops []
  | .pop :: ops, y :: ys => some y :: runSorted ops ys

/-- insertion BEFORE the elements with an equal key (LIFO among ties) -/
def insertSortedLifo (x : Task) : List Task → List Task
  | [] => [x]
  | y :: ys => if x.when ≤ y.when then x :: y :: ys else y :: insertSortedLifo x ys

def runSortedLifo : List QOp → List Task → List (Option Task)
  | [], _ => []
  | .push x :: ops, l => runSortedLifo ops (insertSortedLifo x l)
  | .pop :: ops, [] => none :: runSortedLifo ops []
  | .pop :: ops, y :: ys => some y :: runSortedLifo ops ys

/-- specification of a priority queue ordered by `when` over the multiset `m` (a list up to permutation) -/
inductive PQTrace : List Task → List QOp → List (Option Task) → Prop where
  | nil (m : List Task) : PQTrace m [] []
  | push {m : List Task} {x : Task} {ops : List QOp} {out : List (Option Task)} :
      PQTrace (x :: m) ops out → PQTrace m (.push x :: ops) out
  | popNone {ops : List QOp} {out : List (Option Task)} :
      PQTrace [] ops out → PQTrace [] (.pop :: ops) (none :: out)
  | popSome {m : List Task} {x : Task} {ops : List QOp} {out : List (Option Task)} :
      x ∈ m → (∀ y ∈ m, x.when ≤ y.when) → PQTrace (m.erase x) ops out → PQTrace m (.pop :: ops) (some x :: out)

theorem PQTrace.perm {m : List Task} {ops : List QOp} {out : List (Option Task)} (h : PQTrace m ops out) :
    ∀ {m' : List Task}, m.Perm m' → PQTrace m' ops out := by
  induction h with
  | nil m => intro m' _; exact .nil m'
  | push _ ih => intro m' p; exact .push (ih (p.cons _))
  | popNone h ih =>
    intro m' p
    have : m' = [] := List.Perm.eq_nil p.symm
    subst this
    exact .popNone h
  | popSome hx hmin _ ih =>
    intro m' p
    exact .popSome (p.mem_iff.1 hx) (fun y hy => hmin y (p.mem_iff.2 hy)) (ih (p.erase _))

/-- the port satisfies the specification, from every heap -/
theorem runStd_trace : ∀ (ops : List QOp) (d : Array Task), IsHeap d → PQTrace d.toList ops (runStd ops d)
  | [], d, _ => .nil _
  | .push x :: ops, d, h => by
    unfold runStd
    exact .push ((runStd_trace ops _ (stdPush_isHeap x d h)).perm (stdPush_perm x d))
  | .pop :: ops, d, h => by
    unfold runStd
    by_cases hs : d.size = 0
    · rw [(stdPop_none d).2 hs]
      have : d = #[] := Array.eq_empty_of_size_eq_zero hs
      subst this
      exact .popNone (runStd_trace ops _ h)
    · obtain ⟨r, e, hr, p, _⟩ := stdPop_spec d h hs
      rw [e]
      have hmem : d[0]! ∈ d.toList := p.mem_iff.2 (List.mem_cons_self ..)
      refine .popSome hmem (fun y hy => h.root_min y hy) ?_
      refine (runStd_trace ops r hr).perm ?_
      exact ((p.erase d[0]!).trans (by rw [List.erase_cons_head])).symm

/-! ## the sorted-list queue -/

def SortedByWhen (l : List Task) : Prop := l.Pairwise (fun a b => a.when ≤ b.when)

theorem insertSorted_perm (x : Task) : ∀ l : List Task, (insertSorted x l).Perm (x :: l)
  | [] => List.Perm.refl _
  | y :: ys => by
    unfold insertSorted
    split
    · exact List.Perm.refl _
    · exact ((insertSorted_perm x ys).cons y).trans (List.Perm.swap x y ys)

theorem insertSorted_sorted (x : Task) : ∀ l : List Task, SortedByWhen l → SortedByWhen (insertSorted x l)
  | [], _ => by simp [insertSorted, SortedByWhen]
  | y :: ys, h => by
    unfold insertSorted
    have h' := List.pairwise_cons.1 h
    split
    · rename_i hlt
      refine List.pairwise_cons.2 ⟨?_, h⟩
      intro z hz
      rcases List.mem_cons.1 hz with rfl | hz
      · omega
      · have := h'.1 z hz; omega
    · rename_i hge
      refine List.pairwise_cons.2 ⟨?_, insertSorted_sorted x ys h'.2⟩
      intro z hz
      rcases List.mem_cons.1 ((insertSorted_perm x ys).mem_iff.1 hz) with rfl | hz
      · omega
      · exact h'.1 z hz

theorem runSorted_trace : ∀ (ops : List QOp) (l : List Task), SortedByWhen l → PQTrace l ops (runSorted ops l)
  | [], l, _ => by unfold runSorted; exact .nil _
  | .push x :: ops, l, h => by
    unfold runSorted
    exact .push ((runSorted_trace ops _ (insertSorted_sorted x l h)).perm (insertSorted_perm x l))
  | .pop :: ops, [], h => by
    unfold runSorted
    exact .popNone (runSorted_trace ops [] h)
  | .pop :: ops, y :: ys, h => by
    unfold runSorted
    have h' := List.pairwise_cons.1 h
    refine .popSome (List.mem_cons_self ..) ?_ ?_
    · intro z hz
      rcases List.mem_cons.1 hz with rfl | hz
      · exact Nat.le_refl _
      · exact h'.1 z hz
    · rw [List.erase_cons_head]
      exact runSorted_trace ops ys h'.2

/-! ## what the specification determines -/

theorem map_erase_perm (m : List Task) {x : Task} (hx : x ∈ m) :
    ((m.erase x).map (·.when)).Perm ((m.map (·.when)).erase x.when) := by
  have p := (List.perm_cons_erase hx).map (·.when)
  have := p.erase x.when
  rw [List.map_cons, List.erase_cons_head] at this
  exact this.symm

theorem min_key_eq {m m' : List Task} {x x' : Task} (p : (m.map (·.when)).Perm (m'.map (·.when)))
    (hx : x ∈ m) (hmin : ∀ y ∈ m, x.when ≤ y.when) (hx' : x' ∈ m') (hmin' : ∀ y ∈ m', x'.when ≤ y.when) :
    x.when = x'.when := by
  have h1 : x'.when ∈ m.map (·.when) := p.mem_iff.2 (List.mem_map.2 ⟨x', hx', rfl⟩)
  have h2 : x.when ∈ m'.map (·.when) := p.mem_iff.1 (List.mem_map.2 ⟨x, hx, rfl⟩)
  obtain ⟨a, ha, ea⟩ := List.mem_map.1 h1
  obtain ⟨b, hb, eb⟩ := List.mem_map.1 h2
  have := hmin a ha
  have := hmin' b hb
  omega

/-- Any two outputs the specification allows — from queues holding the same multiset of keys — pop the same KEY at
every pop (and `none` at the same pops). -/
theorem PQTrace.keys_eq : ∀ (ops : List QOp) {m m' : List Task} {o o' : List (Option Task)},
    PQTrace m ops o → PQTrace m' ops o' → (m.map (·.when)).Perm (m'.map (·.when)) →
    o.map (Option.map (·.when)) = o'.map (Option.map (·.when))
  | [], _, _, _, _, h, h', _ => by cases h; cases h'; rfl
  | .push x :: ops, m, m', o, o', h, h', p => by
    cases h with
    | push h1 =>
      cases h' with
      | push h1' => exact PQTrace.keys_eq ops h1 h1' (by simpa using p.cons x.when)
  | .pop :: ops, m, m', o, o', h, h', p => by
    cases h with
    | popNone h1 =>
      cases h' with
      | popNone h1' =>
        simp only [List.map_cons, Option.map_none]
        rw [PQTrace.keys_eq ops h1 h1' p]
      | popSome hx' _ _ =>
        have := p.length_eq
        have hl := List.length_pos_of_mem hx'
        simp only [List.length_map, List.length_nil] at this
        omega
    | popSome hx hmin h1 =>
      cases h' with
      | popNone h1' =>
        have := p.length_eq
        have hl := List.length_pos_of_mem hx
        simp only [List.length_map, List.length_nil] at this
        omega
      | popSome hx' hmin' h1' =>
        have ek := min_key_eq p hx hmin hx' hmin'
        simp only [List.map_cons, Option.map_some, ek]
        rw [PQTrace.keys_eq ops h1 h1' ?_]
        refine (map_erase_perm _ hx).trans (List.Perm.trans ?_ (map_erase_perm _ hx').symm)
        rw [ek]
        exact p.erase _

theorem mem_push_shift {a x : Task} {m : List Task} {ops : List QOp} (h : a ∈ (x :: m) ++ pushed ops) :
    a ∈ m ++ pushed (.push x :: ops) := by
  simp only [pushed, List.mem_append, List.mem_cons] at h ⊢
  rcases h with (h | h) | h
  · exact Or.inr (Or.inl h)
  · exact Or.inl h
  · exact Or.inr (Or.inr h)

/-- `when` is injective on the tasks of `l`: the `when`-order is total on them -/
def KeyInj (l : List Task) : Prop := ∀ x ∈ l, ∀ y ∈ l, x.when = y.when → x = y

/-- When `when` is injective on everything that is or will be in the queue the specification determines the output. -/
theorem PQTrace.unique : ∀ (ops : List QOp) {m m' : List Task} {o o' : List (Option Task)},
    PQTrace m ops o → PQTrace m' ops o' → m.Perm m' → KeyInj (m ++ pushed ops) → o = o'
  | [], _, _, _, _, h, h', _, _ => by cases h; cases h'; rfl
  | .push x :: ops, m, m', o, o', h, h', p, inj => by
    cases h with
    | push h1 =>
      cases h' with
      | push h1' =>
        refine PQTrace.unique ops h1 h1' (p.cons x) ?_
        intro a ha b hb
        refine inj a ?_ b ?_
        · exact mem_push_shift ha
        · exact mem_push_shift hb
  | .pop :: ops, m, m', o, o', h, h', p, inj => by
    cases h with
    | popNone h1 =>
      cases h' with
      | popNone h1' => rw [PQTrace.unique ops h1 h1' p inj]
      | popSome hx' _ _ => exact absurd (p.mem_iff.2 hx') (by simp)
    | @popSome _ x _ _ hx hmin h1 =>
      cases h' with
      | popNone h1' => exact absurd (p.mem_iff.1 hx) (by simp)
      | @popSome _ x' _ _ hx' hmin' h1' =>
        have ek := min_key_eq (p.map _) hx hmin hx' hmin'
        have ex : x = x' := inj x (List.mem_append_left _ hx) x' (List.mem_append_left _ (p.mem_iff.2 hx')) ek
        subst ex
        rw [PQTrace.unique ops h1 h1' (p.erase _) ?_]
        intro a ha b hb
        refine inj a ?_ b ?_
        · simp only [pushed, List.mem_append] at ha ⊢
          rcases ha with ha | ha
          · exact Or.inl (List.mem_of_mem_erase ha)
          · exact Or.inr ha
        · simp only [pushed, List.mem_append] at hb ⊢
          rcases hb with hb | hb
          · exact Or.inl (List.mem_of_mem_erase hb)
          · exact Or.inr hb

theorem isHeap_empty : IsHeap #[] := by
  intro i _ hi
  simp at hi

end Mimium.Sched
