import Mimium.Proofs.CstShape
import Mimium.Proofs.CstKeepList
import Mimium.Proofs.CstKeepLambda
/-!
# What every grammar function appends to the open node when no error is recorded (`Rs`), and the lemmas for the derived commands
-/
namespace Mimium.Grammar
open Mimium.Gen (Kind SK)
open Mimium.Cst (PState Frame Green)
open Mimium.CstPrint (Ctx IsTok IsNode SepTail ItemOk itemRun ListShape ListBody)

variable (E : Env) (c : Ctx)

/-! ## Words -/

/-- one node -/
def P1 (w : List Green) : Prop := ∃ k a, w = [.node k a]

/-- what `parse_expr` leaves: one node, or — an assignment — the left-hand side and an `AssignExpr` node -/
def PE (w : List Green) : Prop := ∃ k a, w = [.node k a] ∨ ∃ a', w = [.node k a, .node SK.AssignExpr.toNat a']

/-- what `parse_type` leaves: one node, or a parenthesised type `( T )` whose parentheses are children of the parent -/
inductive TB : List Green → Prop
  | node (k : Nat) (a : List Green) : TB [.node k a]
  | paren (o cl : Green) (w : List Green) : IsTok c .ParenBegin o → TB w → IsTok c .ParenEnd cl → TB (o :: (w ++ [cl]))

/-- `Ident = pattern` -/
def PRecPat (w : List Green) : Prop := ∃ i a n, w = [i, a, n] ∧ IsTok c .Ident i ∧ IsTok c .Assign a ∧ IsNode n
/-- `Ident : type` -/
def PRecTy (w : List Green) : Prop := ∃ i cl t, w = i :: cl :: t ∧ IsTok c .Ident i ∧ IsTok c .Colon cl ∧ TB c t
/-- a token that the parser saw as `Ident` or `IdentParameter` -/
def IsName (g : Green) : Prop := IsTok c .Ident g ∨ IsTok c .IdentParameter g
/-- `name = expr` -/
def PField (w : List Green) : Prop := ∃ i a e, w = i :: a :: e ∧ IsName c i ∧ IsTok c .Assign a ∧ PE e

/-- a record field, or `..` -/
def RF (w : List Green) : Prop := PField c w ∨ ∃ d, w = [d] ∧ IsTok c .DoubleDot d

/-- `(, Ident)*` -/
inductive UM : List Green → Prop
  | nil : UM []
  | cons (cm i : Green) (t : List Green) : IsTok c .Comma cm → IsTok c .Ident i → UM t → UM (cm :: i :: t)

/-- a child of a `QualifiedPath` -/
def QPok (g : Green) : Prop := IsNode g ∨ IsTok c .Ident g ∨ IsTok c .DoubleColon g

/-- a parameter: the name, then nodes (type annotation, default value) -/
def ParamItem (c : Ctx) (it : List Green) : Prop := ∃ i rest, it = i :: rest ∧ IsTok c .Ident i ∧ ∀ g ∈ rest, IsNode g

/-- what the parameter loop leaves: parameters and commas, a parameter is followed by a comma or by the end -/
inductive PLang (c : Ctx) : List Green → Prop
  | nil : PLang c []
  | item (it : List Green) : ParamItem c it → PLang c it
  | itemComma (it : List Green) (cm : Green) (rest : List Green) : ParamItem c it → IsTok c .Comma cm → PLang c rest →
      PLang c (it ++ cm :: rest)
  | comma (cm : Green) (rest : List Green) : IsTok c .Comma cm → PLang c rest → PLang c (cm :: rest)


variable {c}
/-! ## Relations between the children before and after -/

variable (c)
def App (P : List Green → Prop) (s s' : St) : Prop := ∃ w, topCh s' = topCh s ++ w ∧ P w
/-- … or nothing, at the end of the input -/
def AppE (P : List Green → Prop) (s s' : St) : Prop := App P s s' ∨ (topCh s' = topCh s ∧ AtEnd E s')
/-- … or anything, at the end of the input (the next `expect` records an error) -/
def AppW (P : List Green → Prop) (s s' : St) : Prop := App P s s' ∨ AtEnd E s'
/-- the `while self.check(Comma)` loops -/
def Sep (P : List Green → Prop) (s s' : St) : Prop :=
  (∃ tail, topCh s' = topCh s ++ tail ∧ SepTail c P tail ∧ (peek E s ≠ some Kind.Comma → tail = [])) ∨ AtEnd E s'
/-- the postfix / infix loops: the last child, a node that starts at the marker, is replaced by a node -/
def Repl (s s' : St) : Prop :=
  ∀ p x, topCh s = p ++ [x] → s.rb = p.length → IsNode x → ∃ y, IsNode y ∧ topCh s' = p ++ [y]

/-- specification of a grammar function (entry state, state after the call) -/
def Rs (t : Tag) (s s' : St) : Prop :=
  match t with
  | .statement | .moduleDecl | .useStmt | .usePath | .qualifiedPath | .macroDecl | .includeStmt | .stageDecl | .macroExpansion
  | .bracketExpr | .escapeExpr | .functionDecl | .letDecl | .letrecDecl | .tuplePattern | .recordPattern | .paramList | .argList
  | .typeAnnotation | .typeRecord | .lambdaExpr | .tupleExpr | .recordExpr | .blockExpr | .ifExpr | .matchExpr | .matchArm
  | .matchPattern | .matchTuplePattern | .typeDecl | .typeAliasDecl | .variantDef | .arrayExpr => App P1 s s'
  | .exprPrec | .exprPrecNoLb | .prefixExpr | .unaryExpr | .postfixExpr | .primary => App P1 s s'
  | .pattern => AppE E P1 s s'
  | .expr | .assignmentExpr => App PE s s'
  | .prattLoop | .prattLoopNoLb | .postfixLoop => Repl s s'
  | .argLoop | .tuplePatternLoop | .matchTuplePatternLoop => Sep E c P1 s s'
  | .tupleExprLoop | .arrayLoop | .macroArgLoop => Sep E c PE s s'
  | .recordPatternLoop => Sep E c (PRecPat c) s s'
  | .useMultiLoop => App (UM c) s s'
  | .usePathLoop | .qualifiedPathLoop => App (fun w => ∀ g ∈ w, QPok c g) s s'
  | .blockLoop => App (fun w => ∀ g ∈ w, IsNode g) s s'
  | .paramLoop => App (PLang c) s s'
  | .type_ | .typeUnion | .typePrimary => AppE E (TB c) s s'
  | .typeTupleOrParen => App (TB c) s s'
  | .typeTupleLoop => Sep E c (TB c) s s'
  | .typeRecordLoop => Sep E c (PRecTy c) s s'
  | .recordUpdateLoop => Sep E c (PField c) s s'
  | .recordFieldLoop => Sep E c (RF c) s s'
  | .lambdaParamLoop => App (fun w => ∀ g ∈ w, CstPrint.NoBar c g) s s'
  | _ => True

/-- … and the end of the input is never left -/
def R (t : Tag) (s s' : St) : Prop := Rs E c t s s' ∧ (AtEnd E s → AtEnd E s')

variable {E c}

theorem AppE.weak {P : List Green → Prop} {s s' : St} (h : AppE E P s s') : AppW E P s s' :=
  h.elim Or.inl (fun h => Or.inr h.2)

theorem App.weak {P : List Green → Prop} {s s' : St} (h : App P s s') : AppW E P s s' := Or.inl h

theorem Rs_regs (t : Tag) (s s' : St) (a b : Nat) (h : Rs E c t s s') : Rs E c t s { s' with ra := a, rb := b } := by
  cases t <;> exact h

theorem R_regs (t : Tag) (s s' : St) (a b : Nat) (h : R E c t s s') : R E c t s { s' with ra := a, rb := b } :=
  ⟨Rs_regs t s s' a b h.1, h.2⟩

/-! ## Conditions -/

theorem evalCond_peekIn0 (s : St) (ks : List Kind) :
    evalCond E s (.peekIn 0 ks) = true ↔ ∃ k, peek E s = some k ∧ k ∈ ks := by
  simp only [evalCond, peek]
  cases peekAhead E s 0 <;> simp

theorem evalCond_check (s : St) (k : Kind) : evalCond E s (.peekIn 0 [k]) = true ↔ peek E s = some k := by
  rw [evalCond_peekIn0]; simp

theorem OrigOf.eq {k : Kind} {ti : Nat} (h : OrigOf c k ti) (hk : relab k = false) : c.kind ti = k := by
  rcases h with h | ⟨_, h⟩
  · exact h
  · rw [hk] at h; cases h

theorem topCh_start (s : St) (k : Nat) : topCh (prim E s (.startNode k)) = [] := rfl

/-! ## Derived commands -/

section
variable {rec : Tag → St → St} {R' : Tag → St → St → Prop}

/-- `self.expect(k)` without an error: the token is there and becomes a child -/
theorem em_expect (k : Kind) (s : St) (h : Em E c rec R' (expect k) s) :
    peek E s = some k ∧ exec E rec (expect k) s = prim E s .bump ∧
    ∃ ti w, topCh (prim E s .bump) = topCh s ++ [.token ti w] ∧ OrigOf c k ti := by
  simp only [expect, ifExpect, Em] at h
  split at h
  · rename_i hc
    have hp : peek E s = some k := (evalCond_check s k).mp hc
    refine ⟨hp, ?_, h.1.1 k hp⟩
    simp only [expect, ifExpect, exec, hc, if_true]
  · split at h <;> exact h.elim

/-- `if self.expect(k) { t }` -/
theorem em_ifExpect (k : Kind) (t : Cmd) (s : St) (h : Em E c rec R' (ifExpect k t) s) :
    peek E s = some k ∧ exec E rec (ifExpect k t) s = exec E rec t (prim E s .bump) ∧
    (∃ ti w, topCh (prim E s .bump) = topCh s ++ [.token ti w] ∧ OrigOf c k ti) ∧
    W E c (prim E s .bump) ∧ Em E c rec R' t (prim E s .bump) := by
  simp only [ifExpect, Em] at h
  split at h
  · rename_i hc
    have hp : peek E s = some k := (evalCond_check s k).mp hc
    refine ⟨hp, ?_, h.1.1 k hp, h.2.1, h.2.2⟩
    simp only [ifExpect, exec, hc, if_true]
  · split at h <;> exact h.elim

/-- `self.expects(&[…])` -/
theorem em_expects (ks : List Kind) (s : St) (h : Em E c rec R' (expects ks) s) :
    ∃ k, k ∈ ks ∧ peek E s = some k ∧ exec E rec (expects ks) s = prim E s .bump ∧
    ∃ ti w, topCh (prim E s .bump) = topCh s ++ [.token ti w] ∧ OrigOf c k ti := by
  simp only [expects, Em] at h
  split at h
  · rename_i hc
    obtain ⟨k, hp, hk⟩ := (evalCond_peekIn0 s ks).mp hc
    refine ⟨k, hk, hp, ?_, h.1 k hp⟩
    simp only [expects, exec, hc, if_true]
  · split at h <;> exact h.elim

/-- at the end of the input `expect` records an error -/
theorem em_expect_atEnd (k : Kind) (s : St) (h : Em E c rec R' (expect k) s) (he : AtEnd E s) : False := by
  have := (em_expect k s h).1
  rw [he.peek] at this
  cases this

end

end Mimium.Grammar
