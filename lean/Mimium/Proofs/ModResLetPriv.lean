import Mimium.Proofs.ModResLet
/-!
# C17 with `let` items: which module context an item is resolved under, and privacy for whole programs

* `lowerInfo_ctxMap`: `module_context_map` as a function of the walk (`ctxEntries`): functions are keyed by their
  mangled name, module-level `let`s by their **plain** name;
* `siteCtx_letS`, `siteCtx_fn`: the context of an item is the module it stands in, *provided* no module-level `let`
  elsewhere carries the item's plain name (finding F12-letctx is the failure of that proviso);
* `occs`: the reference occurrences `convert_expr` meets inside one right-hand side / body, with the context in force;
  `convertExpr_errs_eq_occs` (the diagnostics are exactly those of the occurrences), `occs_ctx` (the context inside an
  item is the item's context — or `[]` inside a local `letrec` — provided no local binder carries the plain name of a
  module-level `let`).
-/
namespace Mimium.ModRes

/-! ### `module_context_map` of a walk -/

/-- entries the walk adds to `module_context_map`, in walk order -/
def ctxEntries : List Ev → List (Sym × List Name)
  | [] => []
  | .fn pre _ x _ _ :: rest => (if pre.isEmpty then [] else [(pre ++ [x], pre)]) ++ ctxEntries rest
  | .letS pre _ x _ :: rest => (if pre.isEmpty then [] else [([x], pre)]) ++ ctxEntries rest
  | _ :: rest => ctxEntries rest

theorem registerAlias_ctxMap (i : Info) (pub : Bool) (pre : List Name) (a : Name) (m : Sym) :
    (registerAlias i pub pre a m).ctxMap = i.ctxMap := by
  unfold registerAlias
  split <;> rfl

theorem processUse_ctxMap (pub : Bool) (path : List Name) (t : UseTarget) (pre : List Name) (i : Info) :
    (processUse pub path t pre i).ctxMap = i.ctxMap := by
  unfold processUse
  cases t with
  | single =>
    simp only
    split
    · exact registerAlias_ctxMap ..
    · rfl
  | wildcard => rfl
  | multiple names =>
    simp only
    induction names generalizing i with
    | nil => rfl
    | cons n rest ih =>
      simp only [List.foldl_cons]
      rw [ih, registerAlias_ctxMap]

theorem step_use_ctxMap (i : Info) (pre : List Name) (pub : Bool) (path : List Name) (t : UseTarget) :
    (step i (.use pre pub path t)).ctxMap = i.ctxMap := by
  unfold step
  simp only
  rw [processUse_ctxMap]
  split
  · split <;> rfl
  · rfl

theorem foldl_step_ctxMap (evs : List Ev) : ∀ i : Info,
    (evs.foldl step i).ctxMap = (ctxEntries evs).reverse ++ i.ctxMap := by
  induction evs with
  | nil => intro i; simp [ctxEntries]
  | cons ev rest ih =>
    intro i
    simp only [List.foldl_cons, ih]
    cases ev with
    | fn pre pub x ps b =>
      by_cases hp : pre.isEmpty = true <;> simp [step, ctxEntries, hp]
    | letS pre pub x e =>
      by_cases hp : pre.isEmpty = true <;> simp [step, ctxEntries, hp]
    | modOpen pre x => simp [step, ctxEntries]
    | use pre pub path t => rw [step_use_ctxMap]; simp [ctxEntries]

theorem lowerInfo_ctxMap (evs : List Ev) : (lowerInfo evs).ctxMap = (ctxEntries evs).reverse := by
  have := foldl_step_ctxMap evs {}
  simpa [lowerInfo] using this

theorem mem_ctxEntries {evs : List Ev} {k : Sym} {v : List Name} (h : (k, v) ∈ ctxEntries evs) :
    v ≠ [] ∧ ((∃ pub x ps b, Ev.fn v pub x ps b ∈ evs ∧ k = v ++ [x]) ∨ (∃ pub x e, Ev.letS v pub x e ∈ evs ∧ k = [x])) := by
  induction evs with
  | nil => simp [ctxEntries] at h
  | cons ev rest ih =>
    have lift : (v ≠ [] ∧ ((∃ pub x ps b, Ev.fn v pub x ps b ∈ rest ∧ k = v ++ [x]) ∨
        (∃ pub x e, Ev.letS v pub x e ∈ rest ∧ k = [x]))) →
        v ≠ [] ∧ ((∃ pub x ps b, Ev.fn v pub x ps b ∈ ev :: rest ∧ k = v ++ [x]) ∨
        (∃ pub x e, Ev.letS v pub x e ∈ ev :: rest ∧ k = [x])) := by
      rintro ⟨h0, h1 | h1⟩
      · obtain ⟨pub, x, ps, b, hm, hk⟩ := h1
        exact ⟨h0, Or.inl ⟨pub, x, ps, b, List.mem_cons_of_mem _ hm, hk⟩⟩
      · obtain ⟨pub, x, e, hm, hk⟩ := h1
        exact ⟨h0, Or.inr ⟨pub, x, e, List.mem_cons_of_mem _ hm, hk⟩⟩
    cases ev with
    | fn pre pub x ps b =>
      simp only [ctxEntries, List.mem_append] at h
      rcases h with h | h
      · by_cases hp : pre.isEmpty = true
        · simp [hp] at h
        · simp only [hp, Bool.false_eq_true, ↓reduceIte, List.mem_singleton, Prod.mk.injEq] at h
          obtain ⟨rfl, rfl⟩ := h
          refine ⟨by intro h0; simp [h0] at hp, Or.inl ⟨pub, x, ps, b, List.mem_cons_self, rfl⟩⟩
      · exact lift (ih h)
    | letS pre pub x e =>
      simp only [ctxEntries, List.mem_append] at h
      rcases h with h | h
      · by_cases hp : pre.isEmpty = true
        · simp [hp] at h
        · simp only [hp, Bool.false_eq_true, ↓reduceIte, List.mem_singleton, Prod.mk.injEq] at h
          obtain ⟨rfl, rfl⟩ := h
          refine ⟨by intro h0; simp [h0] at hp, Or.inr ⟨pub, x, e, List.mem_cons_self, rfl⟩⟩
      · exact lift (ih h)
    | modOpen pre x => exact lift (ih (by simpa [ctxEntries] using h))
    | use pre pub path t => exact lift (ih (by simpa [ctxEntries] using h))

theorem ctxEntries_mem_letS {evs : List Ev} {pre : List Name} {pub : Bool} {x : Name} {e : Expr}
    (h : Ev.letS pre pub x e ∈ evs) (hp : pre ≠ []) : ([x], pre) ∈ ctxEntries evs := by
  induction evs with
  | nil => simp at h
  | cons ev rest ih =>
    rcases List.mem_cons.mp h with rfl | h'
    · have : pre.isEmpty = false := by cases pre <;> simp at hp ⊢
      simp [ctxEntries, this]
    · clear h
      cases ev <;> simp only [ctxEntries, List.mem_append] <;> first | exact Or.inr (ih h') | exact ih h'

theorem ctxEntries_mem_fn {evs : List Ev} {pre : List Name} {pub : Bool} {x : Name} {ps : List Name} {b : Expr}
    (h : Ev.fn pre pub x ps b ∈ evs) (hp : pre ≠ []) : (pre ++ [x], pre) ∈ ctxEntries evs := by
  induction evs with
  | nil => simp at h
  | cons ev rest ih =>
    rcases List.mem_cons.mp h with rfl | h'
    · have : pre.isEmpty = false := by cases pre <;> simp at hp ⊢
      simp [ctxEntries, this]
    · clear h
      cases ev <;> simp only [ctxEntries, List.mem_append] <;> first | exact Or.inr (ih h') | exact ih h'

/-- a lookup all of whose candidate entries carry the same value -/
theorem get?_of_forall {α : Type} {l : List (Sym × α)} {k : Sym} {v : α}
    (hall : ∀ w, (k, w) ∈ l → w = v) (hex : ∃ w, (k, w) ∈ l) : get? l k = some v := by
  cases hg : get? l k with
  | none =>
    obtain ⟨w, hw⟩ := hex
    have : get? l k ≠ none := by
      clear hall hg
      induction l with
      | nil => simp at hw
      | cons p rest ih =>
        obtain ⟨k', w'⟩ := p
        unfold get?
        split
        · simp
        · rename_i hne
          rcases List.mem_cons.mp hw with heq | hm
          · simp only [Prod.mk.injEq] at heq
            exact absurd heq.1.symm hne
          · exact ih hm
    exact absurd hg this
  | some w => rw [hall w (get?_mem hg)]

/-- **context of a `let` item** = the module it stands in, provided every module-level `let` of the same name
stands in that same module (none at all for a top-level `let`) -/
theorem siteCtx_letS (P : List Ev) (pre : List Name) (pub : Bool) (x : Name) (e : Expr)
    (hin : Ev.letS pre pub x e ∈ P)
    (hsame : ∀ pre' p' e', Ev.letS pre' p' x e' ∈ P → pre' = [] ∨ pre' = pre) :
    siteCtx (lowerInfo P) [x] [] = pre := by
  unfold siteCtx
  rw [lowerInfo_ctxMap]
  have hall : ∀ w, ([x], w) ∈ (ctxEntries P).reverse → w = pre := by
    intro w hw
    obtain ⟨hne, h | h⟩ := mem_ctxEntries (List.mem_reverse.mp hw)
    · obtain ⟨_, y, _, _, _, hk⟩ := h
      have := congrArg List.length hk
      simp at this
      cases w <;> simp_all
    · obtain ⟨p', y, e', hm, hk⟩ := h
      simp only [List.cons.injEq, and_true] at hk
      subst hk
      rcases hsame w p' e' hm with h0 | h0
      · exact absurd h0 hne
      · exact h0
  by_cases hp : pre = []
  · have : get? (ctxEntries P).reverse [x] = none := by
      cases hg : get? (ctxEntries P).reverse [x] with
      | none => rfl
      | some w =>
        have hw := hall w (get?_mem hg)
        obtain ⟨hne, _⟩ := mem_ctxEntries (List.mem_reverse.mp (get?_mem hg))
        exact absurd (hw.trans hp) hne
    rw [this, hp]
  · rw [get?_of_forall hall ⟨pre, List.mem_reverse.mpr (ctxEntries_mem_letS hin hp)⟩]

/-- **context of a function** = the module it stands in; for a top-level function provided no module-level `let`
carries its name -/
theorem siteCtx_fn (P : List Ev) (pre : List Name) (pub : Bool) (x : Name) (ps : List Name) (b : Expr)
    (hin : Ev.fn pre pub x ps b ∈ P)
    (htop : pre = [] → ∀ pre' p' e', Ev.letS pre' p' x e' ∈ P → pre' = []) :
    siteCtx (lowerInfo P) (pre ++ [x]) [] = pre := by
  unfold siteCtx
  rw [lowerInfo_ctxMap]
  by_cases hp : pre = []
  · subst hp
    have : get? (ctxEntries P).reverse ([] ++ [x]) = none := by
      cases hg : get? (ctxEntries P).reverse ([] ++ [x]) with
      | none => rfl
      | some w =>
        obtain ⟨hne, h | h⟩ := mem_ctxEntries (List.mem_reverse.mp (get?_mem hg))
        · obtain ⟨_, y, _, _, _, hk⟩ := h
          have := congrArg List.length hk
          simp at this
          cases w <;> simp_all
        · obtain ⟨p', y, e', hm, hk⟩ := h
          simp only [List.nil_append, List.cons.injEq, and_true] at hk
          subst hk
          exact absurd (htop rfl w p' e' hm) hne
    rw [this]
  · have hall : ∀ w, (pre ++ [x], w) ∈ (ctxEntries P).reverse → w = pre := by
      intro w hw
      obtain ⟨_, h | h⟩ := mem_ctxEntries (List.mem_reverse.mp hw)
      · obtain ⟨_, y, _, _, _, hk⟩ := h
        exact ((List.append_inj' hk rfl).1).symm
      · obtain ⟨_, y, _, _, hk⟩ := h
        have := congrArg List.length hk
        simp at this
        cases pre <;> simp_all
    rw [get?_of_forall hall ⟨pre, List.mem_reverse.mpr (ctxEntries_mem_fn hin hp)⟩]

/-! ### reference occurrences inside one item -/

/-- the reference occurrences of `e`, each with the module context and scope stack `convert_expr` has when it
reaches it -/
def occs (info : Info) : List Name → List (List Sym) → Expr → List (List Name × List (List Sym) × Expr)
  | _, _, .unit => []
  | _, _, .lit _ => []
  | cur, ls, .var s => [(cur, ls, .var s)]
  | cur, ls, .qvar segs => [(cur, ls, .qvar segs)]
  | cur, ls, .call f => occs info cur ls f
  | cur, ls, .letE x e t => occs info (siteCtx info [x] cur) ls e ++ occs info cur ([[x]] :: ls) t
  | cur, ls, .lam ps b => occs info cur (ps.map (fun p => [p]) :: ls) b
  | cur, ls, .letrec f e t => occs info (siteCtx info f []) ([f] :: ls) e ++ occs info cur ([f] :: ls) t

/-- the diagnostics of an expression are exactly the diagnostics of its reference occurrences, in order -/
theorem convertExpr_errs_eq_occs (info : Info) (known : Sym → Bool) (e : Expr) : ∀ cur ls,
    (convertExpr info known cur ls e).2 =
      (occs info cur ls e).flatMap (fun o => (convertExpr info known o.1 o.2.1 o.2.2).2) := by
  induction e with
  | unit => intros; rfl
  | lit k => intros; rfl
  | var s => intro cur ls; simp [occs]
  | qvar segs => intro cur ls; simp [occs]
  | call f ih => intro cur ls; simp only [convertExpr, occs, ih]
  | letE x e t ihe iht =>
    intro cur ls
    simp only [convertExpr, occs, List.flatMap_append, ← ihe, ← iht]
    rfl
  | lam ps b ih => intro cur ls; simp only [convertExpr, occs, ih]
  | letrec f e t ihe iht =>
    intro cur ls
    simp only [convertExpr, occs, List.flatMap_append, ← ihe, ← iht]
    rfl

/-- symbols bound by local `let` / `letrec` inside an expression -/
def Expr.binderSyms : Expr → List Sym
  | .call f => f.binderSyms
  | .letE x e t => [x] :: (e.binderSyms ++ t.binderSyms)
  | .lam _ b => b.binderSyms
  | .letrec f e t => f :: (e.binderSyms ++ t.binderSyms)
  | _ => []

/-- **the context inside an item is the item's context** (or the top level, inside a local `letrec`: the
`mem::take` quirk), provided no local binder is a key of `module_context_map` -/
theorem occs_ctx (info : Info) (e : Expr) : ∀ cur ls,
    (∀ k ∈ e.binderSyms, get? info.ctxMap k = none) →
    ∀ o ∈ occs info cur ls e, o.1 = cur ∨ o.1 = [] := by
  induction e with
  | unit => intro cur ls _ o ho; simp [occs] at ho
  | lit k => intro cur ls _ o ho; simp [occs] at ho
  | var s => intro cur ls _ o ho; simp only [occs, List.mem_singleton] at ho; subst ho; exact Or.inl rfl
  | qvar segs => intro cur ls _ o ho; simp only [occs, List.mem_singleton] at ho; subst ho; exact Or.inl rfl
  | call f ih => intro cur ls h o ho; exact ih cur ls h o ho
  | lam ps b ih => intro cur ls h o ho; exact ih cur _ h o ho
  | letE x e t ihe iht =>
    intro cur ls h o ho
    have hx : get? info.ctxMap [x] = none := h _ (by simp [Expr.binderSyms])
    have hc : siteCtx info [x] cur = cur := by simp [siteCtx, hx]
    simp only [occs, List.mem_append, hc] at ho
    rcases ho with ho | ho
    · exact ihe cur ls (fun k hk => h k (by simp [Expr.binderSyms, hk])) o ho
    · exact iht cur _ (fun k hk => h k (by simp [Expr.binderSyms, hk])) o ho
  | letrec f e t ihe iht =>
    intro cur ls h o ho
    have hf : get? info.ctxMap f = none := h _ (by simp [Expr.binderSyms])
    have hc : siteCtx info f [] = [] := by simp [siteCtx, hf]
    simp only [occs, List.mem_append, hc] at ho
    rcases ho with ho | ho
    · rcases ihe [] _ (fun k hk => h k (by simp [Expr.binderSyms, hk])) o ho with h1 | h1
      · exact Or.inr h1
      · exact Or.inr h1
    · exact iht cur _ (fun k hk => h k (by simp [Expr.binderSyms, hk])) o ho

/-- every occurrence is a reference (`var` or `qvar`) -/
theorem occs_isRef (info : Info) (e : Expr) : ∀ cur ls, ∀ o ∈ occs info cur ls e,
    (∃ s, o.2.2 = .var s) ∨ (∃ segs, o.2.2 = .qvar segs) := by
  induction e with
  | unit => intro cur ls o ho; simp [occs] at ho
  | lit k => intro cur ls o ho; simp [occs] at ho
  | var s => intro cur ls o ho; simp only [occs, List.mem_singleton] at ho; subst ho; exact Or.inl ⟨s, rfl⟩
  | qvar segs => intro cur ls o ho; simp only [occs, List.mem_singleton] at ho; subst ho; exact Or.inr ⟨segs, rfl⟩
  | call f ih => intro cur ls o ho; exact ih cur ls o ho
  | lam ps b ih => intro cur ls o ho; exact ih cur _ o ho
  | letE x e t ihe iht =>
    intro cur ls o ho
    simp only [occs, List.mem_append] at ho
    rcases ho with ho | ho
    · exact ihe _ _ o ho
    · exact iht _ _ o ho
  | letrec f e t ihe iht =>
    intro cur ls o ho
    simp only [occs, List.mem_append] at ho
    rcases ho with ho | ho
    · exact ihe _ _ o ho
    · exact iht _ _ o ho

/-- shape of parsed references: identifiers are one segment, qualified paths at least two (`lower.rs`) -/
def Expr.refsWf : Expr → Bool
  | .var s => decide (s.length = 1)
  | .qvar segs => decide (2 ≤ segs.length)
  | .call f => f.refsWf
  | .letE _ e t => e.refsWf && t.refsWf
  | .lam _ b => b.refsWf
  | .letrec _ e t => e.refsWf && t.refsWf
  | _ => true

theorem occs_refsWf (info : Info) (e : Expr) : ∀ cur ls, e.refsWf = true → ∀ o ∈ occs info cur ls e, o.2.2.refsWf = true := by
  induction e with
  | unit => intro cur ls _ o ho; simp [occs] at ho
  | lit k => intro cur ls _ o ho; simp [occs] at ho
  | var s => intro cur ls h o ho; simp only [occs, List.mem_singleton] at ho; subst ho; exact h
  | qvar segs => intro cur ls h o ho; simp only [occs, List.mem_singleton] at ho; subst ho; exact h
  | call f ih => intro cur ls h o ho; exact ih cur ls h o ho
  | lam ps b ih => intro cur ls h o ho; exact ih cur _ h o ho
  | letE x e t ihe iht =>
    intro cur ls h o ho
    simp only [Expr.refsWf, Bool.and_eq_true] at h
    simp only [occs, List.mem_append] at ho
    rcases ho with ho | ho
    · exact ihe _ _ h.1 o ho
    · exact iht _ _ h.2 o ho
  | letrec f e t ihe iht =>
    intro cur ls h o ho
    simp only [Expr.refsWf, Bool.and_eq_true] at h
    simp only [occs, List.mem_append] at ho
    rcases ho with ho | ho
    · exact ihe _ _ h.1 o ho
    · exact iht _ _ h.2 o ho

/-! ### the class of programs in which no module-level `let` lends its context to anything else -/

/-- right-hand side / body of an item -/
def Ev.body : Ev → Expr
  | .fn _ _ _ _ b => b
  | .letS _ _ _ e => e
  | _ => .unit

/-- module path, key into `module_context_map`, and the expression the pass converts, of an item -/
def Ev.site : Ev → Option (List Name × Sym × Expr)
  | .fn pre _ x ps b => some (pre, pre ++ [x], .lam ps b)
  | .letS pre _ x e => some (pre, [x], e)
  | _ => none

/-- (name, module) of every module-level `let` -/
def moduleLets : List Ev → List (Name × List Name)
  | [] => []
  | .letS pre _ x _ :: rest => if pre.isEmpty then moduleLets rest else (x, pre) :: moduleLets rest
  | _ :: rest => moduleLets rest

/-- decidable per program: the plain name of a module-level `let` is carried by nothing else — no `let` item outside
that module, no top-level function, no local `let` / `letrec` in any body.  (What finding F12-letctx needs to fail.) -/
def letNamesFresh (P : List Ev) : Bool :=
  (moduleLets P).all fun xp =>
    P.all fun ev =>
      !(ev.body.binderSyms.contains [xp.1]) &&
      match ev with
      | .letS pre' _ x' _ => decide (x' = xp.1 → pre' = xp.2)
      | .fn pre' _ x' _ _ => decide (¬ (pre' = [] ∧ x' = xp.1))
      | _ => true

theorem mem_moduleLets {P : List Ev} {pre : List Name} {p : Bool} {x : Name} {e : Expr}
    (h : Ev.letS pre p x e ∈ P) (hp : pre ≠ []) : (x, pre) ∈ moduleLets P := by
  induction P with
  | nil => simp at h
  | cons ev rest ih =>
    rcases List.mem_cons.mp h with rfl | h'
    · have : pre.isEmpty = false := by cases pre <;> simp at hp ⊢
      simp [moduleLets, this]
    · clear h
      cases ev with
      | letS pre' p' x' e' =>
        simp only [moduleLets]
        split
        · exact ih h'
        · exact List.mem_cons_of_mem _ (ih h')
      | fn => exact ih h'
      | modOpen => exact ih h'
      | use => exact ih h'

theorem letNamesFresh_spec {P : List Ev} (hf : letNamesFresh P = true) {pre : List Name} {p : Bool} {x : Name}
    {e : Expr} (h : Ev.letS pre p x e ∈ P) (hp : pre ≠ []) :
    (∀ pre' p' e', Ev.letS pre' p' x e' ∈ P → pre' = pre) ∧
    (∀ p' ps b, Ev.fn [] p' x ps b ∉ P) ∧
    (∀ ev ∈ P, [x] ∉ ev.body.binderSyms) := by
  have h1 := List.all_eq_true.mp hf _ (mem_moduleLets h hp)
  have h2 := fun ev hev => List.all_eq_true.mp h1 ev hev
  refine ⟨fun pre' p' e' hm => ?_, fun p' ps b hm => ?_, fun ev hev => ?_⟩
  · have := h2 _ hm
    simp only [Bool.and_eq_true] at this
    exact of_decide_eq_true this.2 trivial
  · have := h2 _ hm
    simp only [Bool.and_eq_true] at this
    exact of_decide_eq_true this.2 ⟨trivial, trivial⟩
  · have := h2 ev hev
    simp only [Bool.and_eq_true, Bool.not_eq_true'] at this
    have hc := this.1
    intro hk
    have hk' : ev.body.binderSyms.contains [x] = true := List.contains_iff_mem.mpr hk
    rw [hk'] at hc
    exact Bool.noConfusion hc

theorem binderSyms_plain (e : Expr) (h : e.plain = true) : ∀ k ∈ e.binderSyms, k.length = 1 := by
  induction e with
  | unit | lit _ | var _ | qvar _ => intro k hk; simp [Expr.binderSyms] at hk
  | call f ih => exact ih (by simpa [Expr.plain] using h)
  | lam ps b ih => exact ih (by simpa [Expr.plain] using h)
  | letE x e t ihe iht =>
    simp only [Expr.plain, Bool.and_eq_true] at h
    intro k hk
    simp only [Expr.binderSyms, List.mem_cons, List.mem_append] at hk
    rcases hk with rfl | hk | hk
    · rfl
    · exact ihe h.1 k hk
    · exact iht h.2 k hk
  | letrec f e t ihe iht =>
    simp only [Expr.plain, Bool.and_eq_true, decide_eq_true_eq] at h
    intro k hk
    simp only [Expr.binderSyms, List.mem_cons, List.mem_append] at hk
    rcases hk with rfl | hk | hk
    · exact h.1.1
    · exact ihe h.1.2 k hk
    · exact iht h.2 k hk

theorem bodiesPlain_mem {P : List Ev} (h : bodiesPlain P = true) {ev : Ev} (hev : ev ∈ P) : ev.body.plain = true := by
  induction P with
  | nil => simp at hev
  | cons a rest ih =>
    rcases List.mem_cons.mp hev with rfl | hm
    · cases ev with
      | fn pre pub x ps b => simp only [bodiesPlain, Bool.and_eq_true] at h; exact h.1
      | letS pre pub x e => simp only [bodiesPlain, Bool.and_eq_true] at h; exact h.1
      | modOpen => rfl
      | use => rfl
    · cases a with
      | fn pre pub x ps b => simp only [bodiesPlain, Bool.and_eq_true] at h; exact ih h.2 hm
      | letS pre pub x e => simp only [bodiesPlain, Bool.and_eq_true] at h; exact ih h.2 hm
      | modOpen => exact ih (by simpa [bodiesPlain] using h) hm
      | use => exact ih (by simpa [bodiesPlain] using h) hm

/-- in a fresh program no local binder of any body is a key of `module_context_map` -/
theorem local_binders_not_ctx_keys {P : List Ev} (hf : letNamesFresh P = true) (hpl : bodiesPlain P = true)
    {ev : Ev} (hev : ev ∈ P) : ∀ k ∈ ev.body.binderSyms, get? (lowerInfo P).ctxMap k = none := by
  intro k hk
  have hlen := binderSyms_plain _ (bodiesPlain_mem hpl hev) k hk
  cases hg : get? (lowerInfo P).ctxMap k with
  | none => rfl
  | some v =>
    exfalso
    rw [lowerInfo_ctxMap] at hg
    obtain ⟨hne, h | h⟩ := mem_ctxEntries (List.mem_reverse.mp (get?_mem hg))
    · obtain ⟨_, y, _, _, _, hk'⟩ := h
      rw [hk'] at hlen
      simp at hlen
      exact hne hlen
    · obtain ⟨p', y, e', hm, hk'⟩ := h
      subst hk'
      exact (letNamesFresh_spec hf hm hne).2.2 ev hev hk

/-- in a fresh program every item is resolved under the module it stands in -/
theorem siteCtx_of_fresh {P : List Ev} (hf : letNamesFresh P = true) {ev : Ev} (hev : ev ∈ P)
    {pre : List Name} {key : Sym} {rhs : Expr} (hs : ev.site = some (pre, key, rhs)) :
    siteCtx (lowerInfo P) key [] = pre := by
  cases ev with
  | fn pre' pub x ps b =>
    simp only [Ev.site, Option.some.injEq, Prod.mk.injEq] at hs
    obtain ⟨rfl, rfl, _⟩ := hs
    apply siteCtx_fn P _ pub x ps b hev
    intro hp pre'' p'' e'' hm
    subst hp
    by_cases h0 : pre'' = []
    · exact h0
    · exact absurd hev ((letNamesFresh_spec hf hm h0).2.1 pub ps b)
  | letS pre' pub x e =>
    simp only [Ev.site, Option.some.injEq, Prod.mk.injEq] at hs
    obtain ⟨rfl, rfl, _⟩ := hs
    apply siteCtx_letS P _ pub x e hev
    intro pre'' p'' e'' hm
    by_cases h0 : pre'' = []
    · exact Or.inl h0
    · exact Or.inr ((letNamesFresh_spec hf hm h0).1 _ _ _ hev).symm
  | modOpen => simp [Ev.site] at hs
  | use => simp [Ev.site] at hs

/-! ### witnesses (names: `0 = dsp`, `1 = vault`, `2 = secret`, `7 = k`, `8 = leaked`, `5 = open`) -/

/-- `mod vault { fn secret(){42.0}  let k = 1.0 }  let leaked = vault::secret()  fn dsp(){ leaked }` — the program
of the defect repaired by /repo 8a25d9f -/
def letAfter : List Item :=
  [.mod false 1 [.fn false 2 [] (.lit 42), .letD false 7 (.lit 1)], .letD false 8 (.call (.qvar [1, 2])),
   .fn false 0 [] (.var [8])]

/-- the same with the probe *before* the module -/
def letBefore : List Item :=
  [.letD false 8 (.call (.qvar [1, 2])), .mod false 1 [.fn false 2 [] (.lit 42), .letD false 7 (.lit 1)],
   .fn false 0 [] (.var [8])]

/-- `mod vault { pub fn open(){1.0}  fn secret(){42.0} }  let leaked = vault::secret()  fn dsp(){ leaked }` — the demo
program of seeded change C17c (module whose last item is a function) -/
def fnAfter : List Item :=
  [.mod false 1 [.fn true 5 [] (.lit 1), .fn false 2 [] (.lit 42)], .letD false 8 (.call (.qvar [1, 2])),
   .fn false 0 [] (.var [8])]

def fnBefore : List Item :=
  [.letD false 8 (.call (.qvar [1, 2])), .mod false 1 [.fn true 5 [] (.lit 1), .fn false 2 [] (.lit 42)],
   .fn false 0 [] (.var [8])]

/-- F12-letctx: `mod vault { fn secret(){42.0}  let k = 1.0 }  let k = vault::secret()  fn dsp(){ k }` -/
def letCtxTop : List Item :=
  [.mod false 1 [.fn false 2 [] (.lit 42), .letD false 7 (.lit 1)], .letD false 7 (.call (.qvar [1, 2])),
   .fn false 0 [] (.var [7])]

/-- F12-letctx, local form: `… fn dsp(){ let k = vault::secret()  k }` -/
def letCtxLocal : List Item :=
  [.mod false 1 [.fn false 2 [] (.lit 42), .letD false 7 (.lit 1)],
   .fn false 0 [] (.letE 7 (.call (.qvar [1, 2])) (.var [7]))]

/-- F12-letctx, function form: `mod vault { fn secret(){42.0}  let dsp = 1.0 }  fn dsp(){ vault::secret() }` -/
def letCtxFn : List Item :=
  [.mod false 1 [.fn false 2 [] (.lit 42), .letD false 0 (.lit 1)], .fn false 0 [] (.call (.qvar [1, 2]))]

/-- F12-letglobal: `mod m { let k = 3.0 }  fn dsp(){ k }` and `… fn dsp(){ m::k }` -/
def letGlobal : List Item := [.mod false 1 [.letD false 7 (.lit 3)], .fn false 0 [] (.var [7])]
def letByPath : List Item := [.mod false 1 [.letD true 7 (.lit 3)], .fn false 0 [] (.qvar [1, 7])]

end Mimium.ModRes
